#!/bin/sh
# Builds the framework from files on disk only (offline): translator, Lean development + driver, Go harness.
set -e
cd "$(dirname "$0")"
export GOFLAGS=-mod=mod GOPROXY=off GOSUMDB=off GOTOOLCHAIN=local CGO_ENABLED=0
mkdir -p .work/bin evidence
(cd tools/gofacts && go build -o ../../.work/bin/gofacts .)
.work/bin/gofacts -repo "${VERIF_REPO:-/repo}" -out lean/Orda/Gen/Generated.lean -props properties.jsonl -shape-out lean/Orda/Gen/Shape.lean -facts2-out lean/Orda/Gen/Facts2.lean -shape-json .work/shape.json
(cd lean && lake build Orda ordamodel)
(cd harness && go build -tags verif -o ../.work/bin/ordadrive ./cmd/ordadrive)
echo setup done
