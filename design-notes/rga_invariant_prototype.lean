/-
DESIGN-TIME PROTOTYPE — not part of the framework, not built by any check.

Purpose: calibrate the claim in DESIGN.md §4 (L5) that the RGA convergence / relative-order
argument is within reach of Lean 4 on this image.  Checked with plain `lean` (4.33.0,
pre-installed Mathlib): `insAfter_inv` depends on axioms [propext, Classical.choice, Quot.sound];
wall time ≈ 5 s.

Content: path order `plt` (ancestors first, siblings by descending key) is a strict total
order; `skipIns` is the Go loop of listSnapshot.insertRemoteWithTimedTypes ("skip while the next
node is newer"); `TInv` is the tree invariant (sorted by `plt`, prefix-closed, keys non-decreasing
along a path); `insAfter_inv`: inserting after an existing anchor preserves `TInv`, under exactly
the hypotheses that causal delivery and unique operation timestamps provide.
The framework version will re-state this over the executable model's node type and add the
head-anchor case, the id↔path refinement and the convergence corollary.
-/
import Mathlib.Order.Defs.LinearOrder
import Mathlib.Tactic.Set
import Mathlib.Tactic.Tauto

variable {K : Type} [LinearOrder K]

def plt : List K → List K → Prop
  | [], [] => False
  | [], _ :: _ => True
  | _ :: _, [] => False
  | a :: as, b :: bs => b < a ∨ (a = b ∧ plt as bs)

theorem plt_irrefl : ∀ p : List K, ¬ plt p p
  | [] => by simp [plt]
  | a :: as => by
      simp only [plt, true_and]
      rintro (h | h)
      · exact lt_irrefl a h
      · exact plt_irrefl as h

theorem plt_trans : ∀ {p q r : List K}, plt p q → plt q r → plt p r
  | [], [], _ => by simp [plt]
  | [], _ :: _, [] => by simp [plt]
  | [], _ :: _, _ :: _ => by simp [plt]
  | _ :: _, [], _ => by simp [plt]
  | _ :: _, _ :: _, [] => by simp [plt]
  | a :: as, b :: bs, c :: cs => by
      intro h1 h2
      simp only [plt] at *
      rcases h1 with h1 | ⟨rfl, h1⟩
      · rcases h2 with h2 | ⟨rfl, h2⟩
        · left; exact lt_trans h2 h1
        · left; exact h1
      · rcases h2 with h2 | ⟨rfl, h2⟩
        · left; exact h2
        · right; exact ⟨rfl, plt_trans h1 h2⟩

theorem plt_tri : ∀ (p q : List K), plt p q ∨ p = q ∨ plt q p
  | [], [] => by simp
  | [], _ :: _ => by simp [plt]
  | _ :: _, [] => by simp [plt]
  | a :: as, b :: bs => by
      simp only [plt]
      rcases lt_trichotomy a b with h | rfl | h
      · right; right; left; exact h
      · rcases plt_tri as bs with h | rfl | h
        · left; right; exact ⟨rfl, h⟩
        · right; left; rfl
        · right; right; right; exact ⟨rfl, h⟩
      · left; left; exact h

theorem plt_asymm {p q : List K} (h1 : plt p q) (h2 : plt q p) : False :=
  plt_irrefl p (plt_trans h1 h2)

/-- P1: a proper prefix is smaller -/
theorem plt_prefix : ∀ (p : List K) (k : K) (r : List K), plt p (p ++ k :: r)
  | [], k, r => by simp [plt]
  | a :: as, k, r => by
      simp only [List.cons_append, plt, true_and]
      right; exact plt_prefix as k r

/-- P2: common prefix cancels -/
theorem plt_append_left : ∀ (p x y : List K), plt (p ++ x) (p ++ y) ↔ plt x y
  | [], x, y => by simp
  | a :: as, x, y => by
      simp only [List.cons_append, plt, true_and, lt_irrefl, false_or]
      exact plt_append_left as x y

/-- P3: structure of the order -/
theorem plt_cases : ∀ {p q : List K}, plt p q →
    (∃ k r, q = p ++ k :: r) ∨
    (∃ c u v r1 r2, p = c ++ u :: r1 ∧ q = c ++ v :: r2 ∧ v < u)
  | [], [], h => by simp [plt] at h
  | [], b :: bs, _ => Or.inl ⟨b, bs, rfl⟩
  | _ :: _, [], h => by simp [plt] at h
  | a :: as, b :: bs, h => by
      simp only [plt] at h
      rcases h with h | ⟨rfl, h⟩
      · exact Or.inr ⟨[], a, b, as, bs, rfl, rfl, h⟩
      · rcases plt_cases h with ⟨k, r, rfl⟩ | ⟨c, u, v, r1, r2, rfl, rfl, hv⟩
        · exact Or.inl ⟨k, r, rfl⟩
        · exact Or.inr ⟨a :: c, u, v, r1, r2, rfl, rfl, hv⟩

structure Nd (K : Type) where
  pre : List K
  key : K

def Nd.path (n : Nd K) : List K := n.pre ++ [n.key]

def nlt (x y : Nd K) : Prop := plt x.path y.path

def skipIns (n : Nd K) : List (Nd K) → List (Nd K)
  | [] => [n]
  | x :: xs => if n.key < x.key then x :: skipIns n xs else n :: x :: xs

theorem mem_skipIns (n : Nd K) : ∀ (l : List (Nd K)) (y : Nd K), y ∈ skipIns n l ↔ y = n ∨ y ∈ l
  | [], y => by simp [skipIns]
  | x :: xs, y => by
      unfold skipIns
      split
      · simp only [List.mem_cons, mem_skipIns n xs y]
        constructor
        · rintro (h | h | h) <;> simp [h]
        · rintro (h | h | h) <;> simp [h]
      · simp only [List.mem_cons]

theorem skip_sorted (n : Nd K) : ∀ (post : List (Nd K)),
    post.Pairwise nlt →
    (∀ x ∈ post, nlt n x → ∃ x' ∈ post, x'.key < n.key ∧ (x' = x ∨ nlt x' x)) →
    (∀ x ∈ post, nlt x n → n.key < x.key) →
    (∀ x ∈ post, x.path ≠ n.path) →
    (skipIns n post).Pairwise nlt
  | [], _, _, _, _ => by simp [skipIns]
  | x :: xs, hs, hroot, hA, hne => by
      have hsx := List.pairwise_cons.mp hs
      unfold skipIns
      split
      next hlt =>
        have hxn : nlt x n := by
          rcases plt_tri x.path n.path with h | h | h
          · exact h
          · exact absurd h (hne x (by simp))
          · obtain ⟨x', hx'm, hx'k, hx'⟩ := hroot x (by simp) h
            rcases hx' with rfl | hx'
            · exact absurd hlt (lt_asymm hx'k)
            · rcases List.mem_cons.mp hx'm with rfl | hm
              · exact absurd hx' (plt_irrefl _)
              · exact absurd (hsx.1 x' hm) (fun h2 => plt_asymm hx' h2)
        have ih := skip_sorted n xs hsx.2
          (by
            intro y hy hny
            obtain ⟨y', hy'm, hy'k, hy'⟩ := hroot y (by simp [hy]) hny
            rcases List.mem_cons.mp hy'm with rfl | hm
            · exact absurd hlt (lt_asymm hy'k)
            · exact ⟨y', hm, hy'k, hy'⟩)
          (fun y hy => hA y (by simp [hy]))
          (fun y hy => hne y (by simp [hy]))
        refine List.pairwise_cons.mpr ⟨?_, ih⟩
        intro y hy
        rcases (mem_skipIns n xs y).mp hy with rfl | hy
        · exact hxn
        · exact hsx.1 y hy
      next hnlt =>
        have hnx : nlt n x := by
          rcases plt_tri x.path n.path with h | h | h
          · exact absurd (hA x (by simp) h) hnlt
          · exact absurd h (hne x (by simp))
          · exact h
        refine List.pairwise_cons.mpr ⟨?_, hs⟩
        intro y hy
        rcases List.mem_cons.mp hy with rfl | hy
        · exact hnx
        · exact plt_trans hnx (hsx.1 y hy)

/-! ## the tree invariant -/

structure TInv (l : List (Nd K)) : Prop where
  sorted : l.Pairwise nlt
  closed : ∀ x ∈ l, x.pre ≠ [] → ∃ y ∈ l, y.path = x.pre
  mono : ∀ x ∈ l, ∀ k ∈ x.pre, k ≤ x.key

theorem mem_path_le {l : List (Nd K)} (h : TInv l) {x : Nd K} (hx : x ∈ l) {k : K}
    (hk : k ∈ x.path) : k ≤ x.key := by
  unfold Nd.path at hk
  rcases List.mem_append.mp hk with hk | hk
  · exact h.mono x hx k hk
  · simp at hk; exact le_of_eq hk

/-- every non-empty prefix of a node's path is the path of a node in the list -/
theorem closed_prefix {l : List (Nd K)} (h : TInv l) :
    ∀ (m : Nat) (x : Nd K), x ∈ l → x.path.length = m →
      ∀ p : List K, p ≠ [] → p <+: x.path → ∃ y ∈ l, y.path = p := by
  intro m
  induction m using Nat.strongRecOn with
  | ind m ih =>
    intro x hx hlen p hp hpre
    obtain ⟨s, hs⟩ := hpre
    -- either s = [] (p is the whole path) or p is a prefix of x.pre
    rcases List.eq_nil_or_concat s with rfl | ⟨s', z, rfl⟩
    · exact ⟨x, hx, by simpa using hs.symm⟩
    · have hs' : p ++ s' ++ [z] = x.pre ++ [x.key] := by
        simpa [Nd.path, List.concat_eq_append, List.append_assoc] using hs
      have hpre' : p ++ s' = x.pre := (List.append_inj' hs' rfl).1
      have hne : x.pre ≠ [] := by
        intro h0; rw [h0] at hpre'
        exact hp (List.append_eq_nil_iff.mp hpre').1
      obtain ⟨y, hy, hyp⟩ := h.closed x hx hne
      have hylen : y.path.length < m := by
        rw [hyp, ← hlen]; simp [Nd.path]
      exact ih _ hylen y hy rfl p hp ⟨s', by rw [hyp, hpre']⟩


theorem path_inj {x y : Nd K} (h : x.path = y.path) : x = y := by
  cases x; cases y
  simp only [Nd.path] at h
  obtain ⟨h1, h2⟩ := List.append_inj' h rfl
  simp at h2
  subst h1; subst h2; rfl

def insAfter (a n : Nd K) : List (Nd K) → List (Nd K)
  | [] => []
  | x :: xs => if x.path = a.path then x :: skipIns n xs else x :: insAfter a n xs

theorem insAfter_split (a n : Nd K) : ∀ (l : List (Nd K)), a ∈ l →
    ∃ pre post, l = pre ++ a :: post ∧ insAfter a n l = pre ++ a :: skipIns n post
  | [], h => by simp at h
  | x :: xs, h => by
      unfold insAfter
      split
      next hx =>
        have : x = a := path_inj hx
        subst this
        exact ⟨[], xs, rfl, rfl⟩
      next hx =>
        have hmem : a ∈ xs := by
          rcases List.mem_cons.mp h with rfl | h
          · exact absurd rfl hx
          · exact h
        obtain ⟨pre, post, h1, h2⟩ := insAfter_split a n xs hmem
        exact ⟨x :: pre, post, by simp [h1], by simp [h2]⟩

/-- the insert step of RGA preserves the tree invariant (anchor = an existing node) -/
theorem insAfter_inv {l : List (Nd K)} (h : TInv l) (a : Nd K) (t : K)
    (ha : a ∈ l) (hk : a.key ≤ t)
    (hf : ∀ x ∈ l, x.key = t → x.path <+: a.path) :
    TInv (insAfter a ⟨a.path, t⟩ l) := by
  set n : Nd K := ⟨a.path, t⟩ with hn
  have hnpath : n.path = a.path ++ [t] := rfl
  obtain ⟨pre, post, hl, hins⟩ := insAfter_split a n l ha
  rw [hins]
  have hsorted := h.sorted
  rw [hl] at hsorted
  obtain ⟨hpre, hapost, hcross⟩ := List.pairwise_append.mp hsorted
  obtain ⟨hapost1, hpost⟩ := List.pairwise_cons.mp hapost
  have han : nlt a n := by
    show plt a.path n.path
    rw [hnpath]; exact plt_prefix a.path t []
  have hpost_mem : ∀ y ∈ l, nlt a y → y ∈ post := by
    intro y hy hay
    rw [hl] at hy
    rcases List.mem_append.mp hy with hy | hy
    · exact absurd (hcross y hy a (by simp)) (fun h2 => plt_asymm hay h2)
    · rcases List.mem_cons.mp hy with rfl | hy
      · exact absurd hay (plt_irrefl _)
      · exact hy
  have hpostl : ∀ y ∈ post, y ∈ l := by
    intro y hy; rw [hl]; simp [hy]
  -- freshness: no node of l has the path of n
  have hne : ∀ x ∈ l, x.path ≠ n.path := by
    intro x hx hxp
    have hkey : x.key = t := by
      have := path_inj (x := x) (y := n) hxp
      rw [this]
    have hpre := hf x hx hkey
    rw [hxp, hnpath] at hpre
    have := hpre.length_le
    simp only [List.length_append, List.length_cons, List.length_nil] at this
    omega
  -- the three side conditions of skip_sorted
  have hA : ∀ x ∈ post, nlt x n → n.key < x.key := by
    intro x hx hxn
    have hax := hapost1 x hx
    rcases plt_cases hax with ⟨k, r, hxr⟩ | ⟨c, u, v, r1, r2, hap, hxp, hvu⟩
    · have : plt (a.path ++ k :: r) (a.path ++ [t]) := by
        have := hxn; unfold nlt at this; rwa [hxr, hnpath] at this
      rw [plt_append_left] at this
      simp only [plt] at this
      rcases this with h1 | ⟨_, h1⟩
      · have hkx : k ∈ x.path := by rw [hxr]; simp
        exact lt_of_lt_of_le h1 (mem_path_le h (hpostl x hx) hkx)
      · cases r <;> simp [plt] at h1
    · exfalso
      have : plt (c ++ v :: r2) (c ++ u :: (r1 ++ [t])) := by
        have := hxn; unfold nlt at this
        rw [hxp, hnpath, hap] at this
        simpa [List.append_assoc] using this
      rw [plt_append_left] at this
      simp only [plt] at this
      rcases this with h1 | ⟨h1, _⟩
      · exact lt_asymm h1 hvu
      · subst h1; exact lt_irrefl _ hvu
  have hroot : ∀ x ∈ post, nlt n x → ∃ x' ∈ post, x'.key < n.key ∧ (x' = x ∨ nlt x' x) := by
    intro x hx hnx
    have hax := hapost1 x hx
    have hxl := hpostl x hx
    rcases plt_cases hax with ⟨k, r, hxr⟩ | ⟨c, u, v, r1, r2, hap, hxp, hvu⟩
    · -- x is a descendant of a through child key k
      have hcmp : plt [t] (k :: r) := by
        have := hnx; unfold nlt at this
        rw [hxr, hnpath, plt_append_left] at this; exact this
      obtain ⟨y, hy, hyp⟩ := closed_prefix h _ x hxl rfl (a.path ++ [k]) (by simp)
        ⟨r, by rw [hxr]; simp⟩
      have hyk : y.key = k := by
        have := path_inj (x := y) (y := ⟨a.path, k⟩) (by rw [hyp]; rfl)
        rw [this]
      simp only [plt] at hcmp
      rcases hcmp with h1 | ⟨h1, _⟩
      · have hay : nlt a y := by
          show plt a.path y.path; rw [hyp]; exact plt_prefix a.path k []
        refine ⟨y, hpost_mem y hy hay, by rw [hyk]; exact h1, ?_⟩
        cases r with
        | nil => left; exact path_inj (by rw [hyp, hxr])
        | cons z zs =>
          right; show plt y.path x.path
          rw [hyp, hxr]
          have := plt_prefix (a.path ++ [k]) z zs
          simpa [List.append_assoc] using this
      · -- k = t : impossible by freshness
        exfalso
        have hpre := hf y hy (by rw [hyk, h1])
        rw [hyp] at hpre
        have := hpre.length_le
        simp only [List.length_append, List.length_cons, List.length_nil] at this
        omega
    · -- x branches off an ancestor of a (or of a itself) with a smaller key v
      obtain ⟨y, hy, hyp⟩ := closed_prefix h _ x hxl rfl (c ++ [v]) (by simp)
        ⟨r2, by rw [hxp]; simp⟩
      have hyk : y.key = v := by
        have := path_inj (x := y) (y := ⟨c, v⟩) (by rw [hyp]; rfl)
        rw [this]
      have hua : u ≤ a.key := mem_path_le h ha (by rw [hap]; simp)
      have hay : nlt a y := by
        show plt a.path y.path
        rw [hyp, hap, plt_append_left]
        simp only [plt]; left; exact hvu
      refine ⟨y, hpost_mem y hy hay, ?_, ?_⟩
      · rw [hyk]; exact lt_of_lt_of_le hvu (le_trans hua hk)
      · cases r2 with
        | nil => left; exact path_inj (by rw [hyp, hxp])
        | cons z zs =>
          right; show plt y.path x.path
          rw [hyp, hxp]
          have := plt_prefix (c ++ [v]) z zs
          simpa [List.append_assoc] using this
  have hS := skip_sorted n post hpost hroot hA (fun x hx => hne x (hpostl x hx))
  refine ⟨?_, ?_, ?_⟩
  · -- sorted
    refine List.pairwise_append.mpr ⟨hpre, ?_, ?_⟩
    · refine List.pairwise_cons.mpr ⟨?_, hS⟩
      intro y hy
      rcases (mem_skipIns n post y).mp hy with rfl | hy
      · exact han
      · exact hapost1 y hy
    · intro x hx y hy
      rcases List.mem_cons.mp hy with rfl | hy
      · exact hcross x hx _ (by simp)
      · rcases (mem_skipIns n post y).mp hy with rfl | hy
        · exact plt_trans (hcross x hx a (by simp)) han
        · exact hcross x hx y (by simp [hy])
  · -- closed
    intro x hx hxpre
    have hx' : x = n ∨ x ∈ l := by
      rw [hl]
      simp only [List.mem_append, List.mem_cons, mem_skipIns] at hx ⊢
      tauto
    have hmono : ∀ y ∈ l, y ∈ pre ++ a :: skipIns n post := by
      intro y hy; rw [hl] at hy
      simp only [List.mem_append, List.mem_cons, mem_skipIns] at hy ⊢
      tauto
    rcases hx' with rfl | hx'
    · exact ⟨a, hmono a ha, rfl⟩
    · obtain ⟨y, hy, hyp⟩ := h.closed x hx' hxpre
      exact ⟨y, hmono y hy, hyp⟩
  · -- mono
    intro x hx k hkx
    have hx' : x = n ∨ x ∈ l := by
      rw [hl]
      simp only [List.mem_append, List.mem_cons, mem_skipIns] at hx ⊢
      tauto
    rcases hx' with rfl | hx'
    · exact le_trans (mem_path_le h ha hkx) hk
    · exact h.mono x hx' k hkx

#print axioms insAfter_inv
