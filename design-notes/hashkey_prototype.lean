/-
DESIGN-TIME PROTOTYPE — not part of the framework, not built by any check.
Calibrates DESIGN.md §6 C15: with core Lean only (no Mathlib), `Nat.toDigits 10` is injective,
a ':'-separated key is injective for all naturals and any client id, and the as-is format
"%d%d%d%s" collides ((lamport,delim) = (2,10) vs (21,0)) — the latter by `decide`.
Checked with plain `lean` 4.33.0: axioms ⊆ {propext, Classical.choice, Quot.sound}; ≈ 1 s.
-/

theorem digitChar_inj {a b : Nat} (ha : a < 10) (hb : b < 10) (h : a.digitChar = b.digitChar) : a = b := by
  have h1 := Nat.toNat_digitChar_sub_48_of_lt_ten ha
  have h2 := Nat.toNat_digitChar_sub_48_of_lt_ten hb
  rw [h] at h1; omega

theorem toDigits_length_ge_two {n : Nat} (h : 10 ≤ n) : 2 ≤ (Nat.toDigits 10 n).length := by
  rw [Nat.toDigits_of_base_le (by decide) h]
  have := @Nat.length_toDigits_pos 10 (n / 10)
  simp; omega

theorem toDigits_inj : ∀ (n m : Nat), Nat.toDigits 10 n = Nat.toDigits 10 m → n = m := by
  intro n
  induction n using Nat.strongRecOn with
  | ind n ih =>
    intro m h
    by_cases hn : n < 10
    · by_cases hm : m < 10
      · rw [Nat.toDigits_of_lt_base hn, Nat.toDigits_of_lt_base hm] at h
        exact digitChar_inj hn hm (by simpa using h)
      · have := toDigits_length_ge_two (n := m) (by omega)
        rw [← h, Nat.toDigits_of_lt_base hn] at this
        simp at this
    · by_cases hm : m < 10
      · have := toDigits_length_ge_two (n := n) (by omega)
        rw [h, Nat.toDigits_of_lt_base hm] at this
        simp at this
      · rw [Nat.toDigits_of_base_le (by decide) (by omega : 10 ≤ n),
            Nat.toDigits_of_base_le (by decide) (by omega : 10 ≤ m)] at h
        have h' := List.append_inj' h rfl
        have hq := ih (n / 10) (by omega) (m / 10) h'.1
        have hr : n % 10 = m % 10 :=
          digitChar_inj (Nat.mod_lt _ (by decide)) (Nat.mod_lt _ (by decide)) (by simpa using h'.2)
        omega

theorem sep_split {s : Char} : ∀ {a a' r r' : List Char},
    (∀ c ∈ a, c ≠ s) → (∀ c ∈ a', c ≠ s) → a ++ s :: r = a' ++ s :: r' → a = a' ∧ r = r'
  | [], [], r, r', _, _, h => by simpa using h
  | [], y :: ys, r, r', _, h2, h => by
      simp at h; exact absurd h.1.symm (h2 y (by simp))
  | x :: xs, [], r, r', h1, _, h => by
      simp at h; exact absurd h.1 (h1 x (by simp))
  | x :: xs, y :: ys, r, r', h1, h2, h => by
      simp at h
      obtain ⟨hxy, ht⟩ := h
      have := sep_split (a := xs) (a' := ys) (fun c hc => h1 c (by simp [hc]))
        (fun c hc => h2 c (by simp [hc])) ht
      exact ⟨by rw [hxy, this.1], this.2⟩

theorem colon_not_in_toDigits {n : Nat} : ∀ c ∈ Nat.toDigits 10 n, c ≠ ':' := by
  intro c hc heq
  subst heq
  have := Nat.isDigit_of_mem_toDigits (b := 10) (by decide) (by decide) hc
  simp [Char.isDigit] at this

def keySep (era lamport delim : Nat) (cuid : List Char) : List Char :=
  Nat.toDigits 10 era ++ ':' :: (Nat.toDigits 10 lamport ++ ':' :: (Nat.toDigits 10 delim ++ ':' :: cuid))

def keyAsIs (era lamport delim : Nat) (cuid : List Char) : List Char :=
  Nat.toDigits 10 era ++ (Nat.toDigits 10 lamport ++ (Nat.toDigits 10 delim ++ cuid))

theorem keySep_injective {e l d e' l' d' : Nat} {c c' : List Char}
    (h : keySep e l d c = keySep e' l' d' c') : e = e' ∧ l = l' ∧ d = d' ∧ c = c' := by
  unfold keySep at h
  obtain ⟨h1, h⟩ := sep_split colon_not_in_toDigits colon_not_in_toDigits h
  obtain ⟨h2, h⟩ := sep_split colon_not_in_toDigits colon_not_in_toDigits h
  obtain ⟨h3, h⟩ := sep_split colon_not_in_toDigits colon_not_in_toDigits h
  exact ⟨toDigits_inj _ _ h1, toDigits_inj _ _ h2, toDigits_inj _ _ h3, h⟩

/-- the defect: two different (lamport, delimiter) pairs of one client share a key -/
theorem keyAsIs_collides : keyAsIs 0 2 10 "c".toList = keyAsIs 0 21 0 "c".toList ∧ (2, 10) ≠ (21, 0) := by
  decide

#print axioms keySep_injective
#print axioms keyAsIs_collides
