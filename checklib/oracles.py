"""Implementation-side oracles: executable readings of each property on the observations the real
code produced (and, where a reference value is needed, on the value of the Lean spec printed by
`ordamodel`).  Each oracle returns a list of failures: dicts with case, step, what, detail."""
import json

CMP_KEYS = ("ret", "err", "view", "size", "opid", "emitted", "dump", "outs", "n", "units", "init", "ids",
            "resp", "store", "handlers", "pubs", "patch", "roundtrip", "equal", "key", "cmp", "hash")


def canon(x):
    return json.dumps(x, sort_keys=True, separators=(",", ":"))


def norm_obs(o):
    o = dict(o)
    o.pop("panicMsg", None)
    return o


def split_cases(lines):
    """lines: list of (cmd+obs dict, model dict|None). yields lists per case."""
    cur = []
    for ln in lines:
        if ln[0].get("k") in ("case", "scase", "enccase", "conccase", "rtcase") and cur:
            yield cur
            cur = []
        cur.append(ln)
    if cur:
        yield cur


def _canon_store(st):
    """store dumps: the operation id recorded in a stored snapshot's meta belongs to the server's
    temporary replica (random client id): not compared; document lists are compared as sets"""
    if not isinstance(st, dict) or "snapshots" not in st:
        return st
    st = dict(st)
    st["snapshots"] = [{k: v for k, v in x.items() if k != "opid"} for x in st["snapshots"]]
    def _ud(u):
        v = u.get("value")
        if isinstance(v, dict):
            v = {({"Counter": "counter", "List": "list"}.get(k, k)): x for k, x in v.items()}
        return dict(u, value=v)
    st["userDocs"] = [_ud(u) for u in st.get("userDocs", [])]
    for k in ("collections", "clients", "datatypes", "operations", "snapshots", "userDocs"):
        if isinstance(st.get(k), list):
            st[k] = sorted(st[k], key=canon)
    return st


def _sort_nodes(x):
    if isinstance(x, dict) and "snapshots" in x and "operations" in x:
        x = _canon_store(x)
    if isinstance(x, dict) and isinstance(x.get("nodes"), list):
        x = dict(x, nodes=sorted(x["nodes"], key=lambda n: canon(n.get("c")) if isinstance(n, dict) else ""))
    return x


def first_diff(a, b, path=""):
    a, b = _sort_nodes(a), _sort_nodes(b)
    if type(a) != type(b) and not (isinstance(a, (int, float)) and isinstance(b, (int, float))):
        return path or "."
    if isinstance(a, dict):
        for k in sorted(set(a) | set(b)):
            if k not in a or k not in b:
                return f"{path}.{k}"
            d = first_diff(a[k], b[k], f"{path}.{k}")
            if d:
                return d
        return None
    if isinstance(a, list):
        if len(a) != len(b):
            return f"{path}[len {len(a)}!={len(b)}]"
        for i, (x, y) in enumerate(zip(a, b)):
            d = first_diff(x, y, f"{path}[{i}]")
            if d:
                return d
        return None
    return None if a == b else (path or ".")


def corr(case):
    """impl ↔ model correspondence: first disagreeing step of the case."""
    for idx, (ln, mo) in enumerate(case):
        if mo is None or mo.get("skip"):
            continue
        io = norm_obs(ln.get("obs", {}))
        if ln.get("k") == "intent":
            continue
        if io.get("hang"):
            return [dict(step=idx, what="hang", detail=ln)]
        if io.get("crash"):
            return [dict(step=idx, what="server-crash", detail=dict(cmd=strip(ln), msg=ln["obs"].get("panicMsg", "")[-600:]))]
        if "init" in mo:
            mo = dict(mo, init=[{a: b for a, b in x.items() if a not in ("spec", "specSize")} for x in mo["init"]])
        for k in CMP_KEYS:
            if k in mo or k in io:
                if k not in mo or k not in io:
                    # keys only one side knows are ignored unless it is a result key
                    if k in ("ret", "err", "view", "size", "emitted", "opid", "outs"):
                        return [dict(step=idx, what=f"corr:{k}:missing", detail=dict(cmd=strip(ln), impl=io, model=mo))]
                    continue
                d = first_diff(io[k], mo[k], k)
                if d:
                    return [dict(step=idx, what=f"corr:{d}", detail=dict(cmd=strip(ln), impl=io.get(k), model=mo.get(k)))]
        if bool(io.get("panic")) != bool(mo.get("panic")):
            return [dict(step=idx, what="corr:panic", detail=dict(cmd=strip(ln), impl=io, model=mo))]
    return []


def strip(ln):
    return {k: v for k, v in ln.items() if k != "obs"}


MUTATING_DOC = ("dput", "dremove", "dinsert", "ddelete", "ddeleteMany", "dupdate")


def plain_doc(case):
    """C03 for documents: every document call made through a handle that sits in the live tree returns what the plain
    JSON tree returns (Spec/PlainDoc.step, evaluated by the Lean driver on the state before the call) and leaves the
    plain tree's next value; a mutating call through a handle of a deleted container is refused.  Compared with the
    IMPLEMENTATION's observation (objects compared as maps, i.e. canonical)."""
    for idx, (ln, mo) in enumerate(case):
        if mo is None or ln.get("k") != "call" or "plain" not in mo:
            continue
        io = ln.get("obs", {})
        pl = mo["plain"]
        if io.get("panic") or io.get("hang"):
            return [dict(step=idx, what="panic" if io.get("panic") else "hang", detail=dict(cmd=strip(ln), msg=io.get("panicMsg")))]
        if not pl.get("located"):
            if ln.get("m") in MUTATING_DOC and not io.get("err"):
                return [dict(step=idx, what="plain:deleted-container-accepted", detail=dict(cmd=strip(ln), impl=io))]
            continue
        if int(io.get("err") or 0) != int(pl.get("err") or 0):
            return [dict(step=idx, what="plain:err", detail=dict(cmd=strip(ln), impl=io.get("err"), plain=pl.get("err")))]
        if "view" in io and first_diff(io["view"], pl["view"]):
            return [dict(step=idx, what="plain:view", detail=dict(cmd=strip(ln), impl=io["view"], plain=pl["view"]))]
        if not io.get("err") and "ret" in io and first_diff(io["ret"], pl.get("ret")):
            return [dict(step=idx, what="plain:ret", detail=dict(cmd=strip(ln), impl=io.get("ret"), plain=pl.get("ret")))]
    return []



def spec(case):
    """C02: every replica's view/size equals the spec denotation of the operations it has applied."""
    out = []
    for idx, (ln, mo) in enumerate(case):
        if mo is None or "spec" not in mo:
            continue
        io = ln.get("obs", {})
        if "view" not in io:
            continue
        if first_diff(io["view"], mo["spec"]):
            out.append(dict(step=idx, what="spec:view", detail=dict(cmd=strip(ln), impl=io["view"], spec=mo["spec"])))
            break
        if mo.get("specSize") is not None and io.get("size") is not None and io["size"] != mo["specSize"]:
            out.append(dict(step=idx, what="spec:size", detail=dict(cmd=strip(ln), impl=io["size"], spec=mo["specSize"])))
            break
    return out


def no_panic(case):
    for idx, (ln, mo) in enumerate(case):
        io = ln.get("obs", {})
        if io.get("crash"):
            return [dict(step=idx, what="server-crash", detail=dict(cmd=strip(ln), msg=io.get("panicMsg", "")[-600:]))]
        if io.get("panic") or io.get("hang"):
            return [dict(step=idx, what="panic" if io.get("panic") else "hang",
                         detail=dict(cmd=strip(ln), msg=io.get("panicMsg")))]
    return []


class Track:
    """per-replica bookkeeping rebuilt from the trace: applied op ids, last post-state."""

    def __init__(self, case):
        hdr = case[0][0]
        self.n = hdr.get("n", 0)
        self.applied = {}
        self.last = {}
        self.twin_of = {}
        self.tainted = set()   # replicas that were handed a deliberately malformed unit
        init = hdr.get("obs", {}).get("init", [])
        for i, p in enumerate(init):
            self.applied[i] = set(canon(e["id"]) for e in p.get("emitted", []))
            self.last[i] = p

    def feed(self, ln):
        k = ln.get("k")
        io = ln.get("obs", {})
        r = ln.get("r")
        if k == "snap":
            t = max(self.applied) + 1
            self.applied[t] = set(self.applied.get(r, set()))
            self.twin_of[t] = r
            self.last[t] = io
            return t
        if k == "dlv" and ln.get("mut"):
            self.tainted.add(r)
        if k in ("call", "tx", "dlv", "pjson"):
            for e in io.get("emitted", []):
                self.applied[r].add(canon(e["id"]))
            if k == "dlv" and io.get("err") == 0 and not ln.get("mut") and not io.get("panic"):
                for i in io.get("ids", []):
                    self.applied[r].add(canon(i))
        return None


def converge(case):
    """C01: replicas that have applied the same set of operations expose the same view and sizes
    (checked after every step for every pair, hence at every quiescent point)."""
    tr = Track(case)
    for idx, (ln, mo) in enumerate(case[1:], 1):
        tr.feed(ln)
        io = ln.get("obs", {})
        r = ln.get("r")
        if ln.get("k") in ("call", "tx", "dlv", "snap", "obs", "pjson") and "view" in io:
            rr = r if ln.get("k") != "snap" else max(tr.applied)
            tr.last[rr] = dict(tr.last.get(rr, {}), view=io["view"], size=io.get("size"))
            for o, ap in tr.applied.items():
                if o != rr and o not in tr.tainted and rr not in tr.tainted and ap == tr.applied[rr] and "view" in tr.last.get(o, {}):
                    a, b = tr.last[rr], tr.last[o]
                    if first_diff(a["view"], b["view"]) or a.get("size") != b.get("size"):
                        return [dict(step=idx, what="diverged", detail=dict(cmd=strip(ln), replicas=[rr, o],
                                     a=dict(view=a["view"], size=a.get("size")), b=dict(view=b["view"], size=b.get("size"))))]
    return []


def err_noop(case):
    """C03: a refused call returns an error, does not panic, changes nothing readable, emits nothing,
    and does not consume an operation identifier."""
    tr = Track(case)
    prev = dict(tr.last)
    for idx, (ln, mo) in enumerate(case[1:], 1):
        io = ln.get("obs", {})
        r = ln.get("r")
        if io.get("panic") or io.get("hang"):
            return [dict(step=idx, what="panic" if io.get("panic") else "hang", detail=dict(cmd=strip(ln), msg=io.get("panicMsg")))]
        if ln.get("k") == "call" and io.get("err"):
            p = prev.get(r)
            if p is not None and "view" in io:
                if io.get("emitted") or first_diff(io["view"], p["view"]) or io.get("size") != p.get("size") or io.get("opid") != p.get("opid"):
                    return [dict(step=idx, what="refused-call-changed-state", detail=dict(cmd=strip(ln), before=p, after=io))]
        if ln.get("k") in ("call", "tx", "dlv") and "view" in io:
            prev[r] = io
        if ln.get("k") == "snap":
            prev[max(prev) + 1] = io
    return []


def seq_gapless(case):
    """C15: each client numbers its operations 1,2,3,… without gaps; a new local operation is ordered
    after every operation its replica has applied; identifiers in a state are pairwise distinct."""
    hdr = case[0][0]
    nxt = {}
    maxl = {}
    init = hdr.get("obs", {}).get("init", [])
    twin = {}

    def feed_emitted(r, em, idx, ln):
        for e in em:
            era, lam, cuid, seq = e["id"]
            exp = nxt.get(r, 1)
            if seq != exp:
                return [dict(step=idx, what="seq-gap", detail=dict(cmd=strip(ln), expected=exp, got=seq))]
            nxt[r] = exp + 1
            if lam <= maxl.get(r, 0) and e["t"] != "snap":
                return [dict(step=idx, what="local-op-not-after-applied", detail=dict(cmd=strip(ln), lamport=lam, seen=maxl.get(r, 0)))]
            maxl[r] = max(maxl.get(r, 0), lam)
        return []

    for i, p in enumerate(init):
        f = feed_emitted(i, p.get("emitted", []), 0, hdr)
        if f:
            return f
    nrep = len(init)
    for idx, (ln, mo) in enumerate(case[1:], 1):
        io = ln.get("obs", {})
        r = ln.get("r")
        k = ln.get("k")
        if k == "snap":
            t = nrep
            nrep += 1
            twin[t] = r
            nxt[t] = nxt.get(r, 1)
            maxl[t] = maxl.get(r, 0)
            continue
        if k in ("call", "tx"):
            if io.get("panic"):
                continue  # reported by no_panic; a panic may legitimately leave a gap visible later
            f = feed_emitted(r, io.get("emitted", []), idx, ln)
            if f:
                return f
        if k == "dlv" and io.get("err") == 0 and not ln.get("mut"):
            for i in io.get("ids", []):
                maxl[r] = max(maxl.get(r, 0), i[1])
        if "dump" in io and io["dump"]:
            ids = dump_ids(io["dump"])
            if len(ids) != len(set(ids)):
                return [dict(step=idx, what="duplicate-element-id", detail=dict(cmd=strip(ln)))]
    return []


def dump_ids(d):
    out = []
    if isinstance(d, dict):
        if "n" in d and isinstance(d["n"], list):
            out += [canon(x["o"]) for x in d["n"] if isinstance(x, dict) and "o" in x]
        if "nodes" in d and isinstance(d["nodes"], list):
            out += [canon(x["c"]) for x in d["nodes"] if isinstance(x, dict) and "c" in x]
    return out


def list_order(case):
    """C04 on lists whose elements carry unique tags: every inserted element is present exactly once
    wherever its insert was applied, a deleted element never reappears, a local insert at i reads back
    at i, and any two elements have the same relative order in every observed state of every replica."""
    hdr = case[0][0]
    if hdr.get("dt") != "list":
        return []
    before = {}  # (a,b) -> True if a before b seen
    dead = {}
    for idx, (ln, mo) in enumerate(case[1:], 1):
        io = ln.get("obs", {})
        r = ln.get("r")
        d = io.get("dump")
        if ln.get("k") == "call" and ln.get("m") == "linsert" and io.get("err") == 0 and not io.get("panic"):
            vs = ln["a"]["vs"]
            pos = ln["a"]["pos"]
            got = io["view"]["List"][pos:pos + len(vs)]
            if got != vs:
                return [dict(step=idx, what="insert-not-at-index", detail=dict(cmd=strip(ln), got=got))]
        if not d or "n" not in d:
            continue
        seq = [canon(x["o"]) for x in d["n"]]
        if len(seq) != len(set(seq)):
            return [dict(step=idx, what="duplicated-element", detail=dict(cmd=strip(ln)))]
        live = [canon(x["o"]) for x in d["n"] if x["v"] is not None]
        for x in d["n"]:
            o = canon(x["o"])
            if x["v"] is None:
                dead.setdefault(r, set()).add(o)
            elif o in dead.get(r, set()):
                return [dict(step=idx, what="resurrected", detail=dict(cmd=strip(ln), id=x["o"]))]
        if len(live) != len(io["view"]["List"]):
            return [dict(step=idx, what="live-count", detail=dict(cmd=strip(ln)))]
        for i in range(len(seq)):
            for j in range(i + 1, len(seq)):
                a, b = seq[i], seq[j]
                if (b, a) in before:
                    return [dict(step=idx, what="relative-order-changed", detail=dict(cmd=strip(ln), a=a, b=b, first=before[(b, a)]))]
                before.setdefault((a, b), dict(step=idx, r=r))
    return []


def twin(case):
    """C10: the restored copy answers every later step exactly as the original."""
    srcs = {}
    nrep = case[0][0].get("n", 0)
    last_src = {}
    for idx, (ln, mo) in enumerate(case[1:], 1):
        k, r = ln.get("k"), ln.get("r")
        io = norm_obs(ln.get("obs", {}))
        if k == "snap":
            if io.get("failed") or io.get("panic") or io.get("hang"):
                return [dict(step=idx, what="snapshot-roundtrip-failed", detail=dict(cmd=strip(ln), obs=io))]
            rt = io.get("resetTwins") or {}
            if rt.get("panic") or ("plain" in rt and first_diff(rt.get("plain"), rt.get("reset"))):
                # what the server does with a stored snapshot (import, then ResetWired) changes how the copy treats later operations
                return [dict(step=idx, what="reset-copy-differs-from-plain-copy", detail=dict(cmd=strip(ln), plain=rt.get("plain"), reset=rt.get("reset"), panic=rt.get("panic")))]
            srcs[nrep] = r
            src_post = last_src.get(r)
            if src_post is not None:
                for key in ("view", "size", "opid"):
                    if first_diff(io.get(key), src_post.get(key)):
                        return [dict(step=idx, what=f"restored-differs:{key}", detail=dict(cmd=strip(ln), copy=io.get(key), original=src_post.get(key)))]
            nrep += 1
            continue
        if k in ("call", "tx", "dlv", "obs"):
            if r in srcs:
                o = last_src.get(("step", srcs[r], k))
                if o is not None:
                    for key in ("ret", "err", "view", "size", "opid", "emitted", "outs", "panic", "dump"):
                        if first_diff(io.get(key), o.get(key)):
                            return [dict(step=idx, what=f"copy-differs:{key}", detail=dict(cmd=strip(ln), copy=io.get(key), original=o.get(key)))]
            else:
                last_src[("step", r, k)] = io
                if "view" in io:
                    last_src[r] = io
    return []


def tx_atomic(case):
    """C09: a failing transaction restores view, sizes, pending operations and next identifiers; a
    committed one is emitted as one contiguous unit announcing its own length; a malformed remote unit
    is refused as a whole (error, no panic, no hang, nothing applied)."""
    tr = Track(case)
    prev = dict(tr.last)
    for idx, (ln, mo) in enumerate(case[1:], 1):
        io = ln.get("obs", {})
        k, r = ln.get("k"), ln.get("r")
        if io.get("panic") or io.get("hang"):
            return [dict(step=idx, what="panic" if io.get("panic") else "hang", detail=dict(cmd=strip(ln), msg=io.get("panicMsg")))]
        p = prev.get(r)
        if k == "tx" and p is not None:
            if io.get("err"):
                if io.get("emitted") or first_diff(io["view"], p["view"]) or io.get("size") != p.get("size") or io.get("opid") != p.get("opid"):
                    return [dict(step=idx, what="failed-tx-not-rolled-back", detail=dict(cmd=strip(ln), before=dict(view=p["view"], size=p.get("size"), opid=p.get("opid")), after=dict(view=io["view"], size=io.get("size"), opid=io.get("opid"), emitted=io.get("emitted"))))]
            else:
                em = io.get("emitted", [])
                if not em or em[0]["t"] != "tx" or em[0]["n"] != len(em):
                    return [dict(step=idx, what="tx-unit-malformed", detail=dict(cmd=strip(ln), emitted=em))]
                seqs = [e["id"][3] for e in em]
                if seqs != list(range(seqs[0], seqs[0] + len(seqs))):
                    return [dict(step=idx, what="tx-unit-not-contiguous", detail=dict(cmd=strip(ln), seqs=seqs))]
        if k == "dlv" and ln.get("mut") and p is not None and io.get("n"):
            changed = first_diff(io["view"], p["view"]) or io.get("size") != p.get("size")
            if io.get("err") == 0 and changed and ln["mut"] != "noop":
                # accepted although malformed: only legal if the mutation left the unit well-formed
                if not mut_is_benign(ln, io):
                    return [dict(step=idx, what="malformed-unit-partially-applied", detail=dict(cmd=strip(ln), before=p["view"], after=io["view"]))]
            if io.get("err") and changed:
                return [dict(step=idx, what="refused-unit-changed-state", detail=dict(cmd=strip(ln), before=p["view"], after=io["view"]))]
        if k in ("call", "tx", "dlv") and "view" in io:
            prev[r] = io
        if k == "snap":
            prev[max(prev) + 1] = io
    return []


def mut_is_benign(ln, io):
    # a mutation of a single non-transaction op is the identity (count*) or an empty delivery (truncate)
    return len(io.get("ids", [])) <= 1



# ---------------------------------------------------------------------------------------------
# service-level oracles (read on store dumps, responses and client post-states)

def _stores(case):
    """yield (idx, line, store) for every store dump of the case"""
    for idx, (ln, mo) in enumerate(case):
        if ln.get("k") == "store" and isinstance(ln.get("obs", {}).get("store"), dict):
            yield idx, ln, ln["obs"]["store"]


def check_loginv(st):
    ops_by = {}
    for o in st["operations"]:
        ops_by.setdefault(o["duid"], []).append(o)
    duids = [d["duid"] for d in st["datatypes"]]
    if len(duids) != len(set(duids)):
        return "duplicate datatype id"
    for d in st["datatypes"]:
        ops = sorted(ops_by.get(d["duid"], []), key=lambda o: o["sseq"])
        seqs = [o["sseq"] for o in ops]
        if seqs != list(range(1, d["end"] + 1)):
            return "log of %s is not 1..End: sseqs=%s end=%s" % (d["key"], seqs[:40], d["end"])
        for o in ops:
            if o["_id"] != "%s:%d" % (d["duid"], o["sseq"]):
                return "operation document id %s does not match duid:sseq" % o["_id"]
            if o["colNum"] != d["colNum"]:
                return "operation stored under another collection number"
        for kind in ("rw", "ro"):
            for cuid, sub in d[kind].items():
                s_, c_ = sub["cp"]
                if s_ > d["end"]:
                    return "checkpoint of %s exceeds the end of the log (%d > %d)" % (cuid, s_, d["end"])
                if kind == "rw":
                    own = [o["op"]["id"][3] for o in ops if o["op"]["id"][2] == cuid]
                    if own != list(range(1, len(own) + 1)):
                        return "operations of client %s are not stored in the order issued: %s" % (cuid, own[:40])
                    if c_ > len(own):
                        return "checkpoint of %s acknowledges an operation that is not stored (cseq %d, stored %d)" % (cuid, c_, len(own))
    for duid in ops_by:
        if duid not in duids:
            return "operations stored for an unknown datatype id %s" % duid
    return None


def loginv(case):
    """C06 after every request: gapless 1..End, ids duid:sseq, per-client order, checkpoints bounded;
    and every operation a client was acknowledged for is stored exactly once."""
    mutated = any(ln.get("mut") for ln, _ in case)
    for idx, ln, st in _stores(case):
        m = check_loginv(st)
        if m and not (mutated and ("order issued" in m or "acknowledges" in m)):
            # per-client clauses presuppose requests whose operation ids carry the sender's id
            return [dict(step=idx, what="log-invariant", detail=dict(cmd=strip(ln), msg=m))]
    return []


def _final_posts(case):
    """last known post-state per service-level datatype instance"""
    last = {}
    for idx, (ln, mo) in enumerate(case):
        io = ln.get("obs", {})
        if ln.get("k") == "newdt":
            last[ln["r"]] = dict(io, key=ln["key"], c=ln["c"], dt=ln["dt"])
        elif ln.get("k") == "call" and "view" in io and ln.get("r") in last:
            last[ln["r"]].update({k: io[k] for k in ("view", "size", "dstate", "duid", "cp", "npending") if k in io})
        for p in io.get("posts", []) or []:
            if p.get("r") in last:
                last[p["r"]].update({k: p[k] for k in ("view", "size", "dstate", "duid", "cp", "npending") if k in p})
    return last


def sconverge(case):
    """C05/C07: at the quiescent end of the case all clients subscribed to a datatype hold the same
    state, equal to the state the server rebuilt from its log (user document at version End), every
    client's checkpoint equals the end of the log and nothing is left to push."""
    if not case or case[-1][0].get("k") != "send":
        return []
    if any(ln.get("mut") for ln, _ in case):
        return []   # mutated requests may legitimately leave a client behind (refused pushes)
    stores = list(_stores(case))
    if not stores:
        return []
    st = stores[-1][2]
    col_of = {}
    for ln, _ in case:
        if ln.get("k") == "client":
            col_of[ln["c"]] = ln["col"]
    bykey = {(d["colNum"], d["key"]): d for d in st["datatypes"]}
    colnum = {c["name"]: c["num"] for c in st["collections"]}
    user = {(u["col"], u["key"]): u for u in st["userDocs"]}
    groups = {}
    for r, p in _final_posts(case).items():
        if p.get("dstate") != "SUBSCRIBED":
            continue
        col = col_of.get(p["c"])
        groups.setdefault((col, p["key"], p.get("duid")), []).append((r, p))
    for (col, key, duid), members in groups.items():
        d = bykey.get((colnum.get(col), key))
        if d is None or d["duid"] != duid:
            return [dict(step=len(case) - 1, what="subscribed-to-unknown-datatype", detail=dict(col=col, key=key, duid=duid))]
        r0, p0 = members[0]
        for r, p in members:
            if first_diff(p["view"], p0["view"]) or p.get("size") != p0.get("size"):
                return [dict(step=len(case) - 1, what="clients-diverged", detail=dict(key=key, a=dict(r=r0, view=p0["view"]), b=dict(r=r, view=p["view"])))]
            if p.get("npending"):
                return [dict(step=len(case) - 1, what="operations-left-to-push", detail=dict(key=key, r=r, npending=p["npending"]))]
            if p.get("cp") and p["cp"][0] != d["end"]:
                return [dict(step=len(case) - 1, what="client-behind-log", detail=dict(key=key, r=r, cp=p["cp"], end=d["end"]))]
        u = user.get((col, key))
        if u is not None and u.get("ver") == d["end"]:
            uv = {({"counter": "Counter", "list": "List"}.get(k, k)): v for k, v in (u["value"] or {}).items()} if isinstance(u["value"], dict) else u["value"]
            if first_diff(uv, p0["view"]):
                return [dict(step=len(case) - 1, what="server-copy-differs", detail=dict(key=key, server=uv, client=p0["view"]))]
    return []


def _adjacent(case):
    """(idx, sync line, store before, store after) for every sync that is directly framed by two store dumps"""
    for idx, (ln, mo) in enumerate(case):
        if ln.get("k") != "sync":
            continue
        j = idx - 1
        while j >= 0 and case[j][0].get("k") == "intent":
            j -= 1
        if j < 0 or case[j][0].get("k") != "store" or idx + 1 >= len(case) or case[idx + 1][0].get("k") != "store":
            continue
        a, b = case[j][0].get("obs", {}).get("store"), case[idx + 1][0].get("obs", {}).get("store")
        if isinstance(a, dict) and isinstance(b, dict):
            yield idx, ln, a, b


def refused_noop(case):
    """C16: a refused request (RPC error, or every response pack an error pack) leaves the stored data
    unchanged; no request hangs or crashes the server."""
    for idx, (ln, mo) in enumerate(case):
        io = ln.get("obs", {})
        if io.get("hang") or io.get("crash"):
            return [dict(step=idx, what="no-answer" if io.get("hang") else "server-crash", detail=dict(cmd=strip(ln), msg=io.get("panicMsg", "")[-500:]))]
    for idx, ln, before, after in _adjacent(case):
        io = ln.get("obs", {})
        resp = io.get("resp")
        refused = io.get("rpc") not in (0, None) or (isinstance(resp, list) and resp and all((p or {}).get("opt", 0) & 32 for p in resp))
        if refused and ln.get("fault") not in ("dup", "dup1"):
            d = first_diff(_canon_store(before), _canon_store(after))
            if d:
                return [dict(step=idx, what="refused-request-changed-store", detail=dict(cmd=strip(ln), where=d))]
    return []


def usable_after_refusal(case):
    """C16 (last clause): a client whose exchange was refused (RPC error or error pack) remains usable —
    its checkpoint, its pending operations and its state are exactly as before the exchange (so the next
    exchange re-sends them), the error reached the error handler, and a later un-mutated exchange of the same
    replica is not refused for a reason the refused one created (missing operations)."""
    for idx, (ln, mo) in enumerate(case):
        if ln.get("k") != "sync" or ln.get("fault") in ("drop", "late"):
            continue
        io = ln.get("obs", {})
        pre = {p["r"]: p for p in io.get("pre") or []}
        resp = io.get("resp") or []
        posts = {p["r"]: p for p in io.get("posts") or []}
        rs = ln.get("rs") or []
        if io.get("rpc") not in (0, None):
            continue    # nothing was applied on the client: checked by the next exchange's `pre`
        for r in rs:
            if r not in pre or r not in posts:
                continue
            pk = next((p for p in resp if p and p.get("key") == pre[r].get("key")), None)   # as the client matches packs
            if not pk or not (pk.get("opt", 0) & 32):
                continue
            a, b = pre[r], posts[r]
            if a["cp"] != b.get("cp") or a["npending"] != b.get("npending") or first_diff(a["view"], b.get("view")):
                return [dict(step=idx, what="refused-exchange-changed-client", detail=dict(cmd=strip(ln), before=a, after={k: b.get(k) for k in ("cp", "npending", "view")}))]
            if not any(h.get("h") == "error" or "err" in str(h.get("h", "")) for h in b.get("handlers") or []):
                return [dict(step=idx, what="refusal-not-reported-to-error-handler", detail=dict(cmd=strip(ln), handlers=b.get("handlers")))]
    return []


def rt_converge(case):
    """C18 (second clause): real realtime clients that only issue local operations after their first sync
    reach, WITHOUT any further Sync call, one common state: every client shows the same value, has nothing
    left to push, stands at the end of the stored log, and the value is the one the server rebuilt from
    that log (when its snapshot is at the end)."""
    for idx, (ln, mo) in enumerate(case):
        if ln.get("k") != "rtcase":
            continue
        io = ln.get("obs", {})
        if io.get("setup"):
            return [dict(step=idx, what="realtime-setup-failed", detail=dict(cmd=strip(ln), msg=io.get("setup")))]
        if io.get("panic") or io.get("hang"):
            return [dict(step=idx, what="realtime-run-crashed", detail=dict(cmd=strip(ln), msg=str(io.get("panicMsg"))[-600:]))]
        if not io.get("converged"):
            return [dict(step=idx, what="realtime-clients-did-not-converge", detail=dict(cmd=strip(ln), views=io.get("views"), clients=io.get("clients"), waitedMs=io.get("waitedMs")))]
        st = io.get("store") or {}
        dts = st.get("datatypes") or []
        if len(dts) != 1:
            return [dict(step=idx, what="two-datatypes-for-one-key", detail=dict(cmd=strip(ln), datatypes=dts))]
        end = dts[0].get("end")
        for i, c in enumerate(io.get("clients") or []):
            if c.get("npending") or (c.get("cp") or [None])[0] != end:
                return [dict(step=idx, what="realtime-client-behind-log", detail=dict(cmd=strip(ln), client=i, state=c, end=end))]
        views = io.get("views") or []
        for u in st.get("userDocs") or []:
            if u.get("ver") == end and views:
                uv = {({"counter": "Counter", "list": "List"}.get(k, k)): v for k, v in (u["value"] or {}).items()} if isinstance(u["value"], dict) else u["value"]
                if first_diff(uv, views[0]):
                    return [dict(step=idx, what="server-copy-differs", detail=dict(cmd=strip(ln), server=uv, client=views[0]))]
    return []


def usable_after_rpc_refusal(case):
    """C16 (last clause, real client): after a push-pull RPC that was refused as a whole (the real server does not know the client id,
    or the transport failed) the refusal is RETURNED to the caller, and the client remains usable: its next Sync() returns without
    error, nothing stays pending, and the other client reaches the same value."""
    for idx, (ln, mo) in enumerate(case):
        if ln.get("k") != "rtcase" or ln.get("profile") != "rtrefuse":
            continue
        io = ln.get("obs", {})
        if io.get("setup"):
            return [dict(step=idx, what="realtime-setup-failed", detail=dict(cmd=strip(ln), msg=io.get("setup")))]
        if io.get("panic") or io.get("hang"):
            return [dict(step=idx, what="client-run-crashed", detail=dict(cmd=strip(ln), msg=str(io.get("panicMsg"))[-600:]))]
        for k, rf in enumerate(io.get("refused") or []):
            if not rf.get("returned"):
                return [dict(step=idx, what="sync-hangs-after-refused-rpc", detail=dict(cmd=strip(ln), refused=io.get("refused"), which=k))]
            if not str(rf.get("err", "")).startswith("error"):
                return [dict(step=idx, what="refused-rpc-not-reported", detail=dict(cmd=strip(ln), refused=io.get("refused"), which=k))]
        nx = io.get("next") or {}
        if not nx.get("returned"):
            return [dict(step=idx, what="sync-hangs-after-refused-rpc", detail=dict(cmd=strip(ln), refused=io.get("refused"), next=nx))]
        if nx.get("err"):
            return [dict(step=idx, what="client-unusable-after-refused-rpc", detail=dict(cmd=strip(ln), next=nx))]
        ot = io.get("other") or {}
        if not ot.get("returned") or ot.get("err"):
            return [dict(step=idx, what="other-client-cannot-sync", detail=dict(cmd=strip(ln), other=ot))]
        if io.get("npending"):
            return [dict(step=idx, what="operations-still-pending-after-sync", detail=dict(cmd=strip(ln), npending=io.get("npending")))]
        vs = io.get("views") or []
        if len(vs) != 2 or first_diff(vs[0], vs[1]):
            return [dict(step=idx, what="clients-differ-after-refused-rpc", detail=dict(cmd=strip(ln), views=vs))]
        # creation snapshot + every operation issued by the client
        if io.get("stored") != 1 + ln.get("ops", 0) + 1:
            return [dict(step=idx, what="stored-operations-differ", detail=dict(cmd=strip(ln), stored=io.get("stored"), expected=2 + ln.get("ops", 0)))]
    return []


def entry_contract_client(case):
    """C13 (real client): a second entry call of ONE client on a key it already holds (pending or subscribed) yields the datatype it
    holds, or nil with the refusal delivered to that call's error handler (another type: always refused) — never a second, unwired
    object; operations through the returned handle reach the server; one datatype per key; subscribed reported exactly once."""
    for idx, (ln, mo) in enumerate(case):
        if ln.get("k") != "rtcase" or ln.get("profile") != "rtentry":
            continue
        io = ln.get("obs", {})
        bad = None
        if io.get("setup"):
            bad = "realtime-setup-failed"
        elif io.get("panic") or io.get("hang"):
            bad = "client-run-crashed"
        elif io.get("syncProblem"):
            bad = "sync-failed-after-entry-calls"
        elif io.get("second") == "other":
            bad = "second-entry-call-returned-an-unwired-twin"
        elif ln.get("typ1") != ln.get("typ2") and not (io.get("second") == "nil" and io.get("errs2") == 1):
            bad = "type-conflict-not-refused-through-the-error-handler"
        elif io.get("second") == "nil" and not io.get("errs2"):
            bad = "entry-call-refused-silently"
        elif io.get("second") == "same" and (io.get("pending2") != 0 or io.get("stored") != 2):
            bad = "operation-through-returned-handle-not-pushed"
        elif io.get("second") == "nil" and io.get("stored") != 1:
            bad = "refused-entry-call-changed-the-store"
        elif io.get("datatypes") != 1:
            bad = "not-exactly-one-datatype-for-the-key"
        elif io.get("state1") != "SUBSCRIBED" or io.get("subscribedReports") != 1:
            bad = "subscribed-not-reported-exactly-once"
        if bad:
            return [dict(step=idx, what=bad, detail=dict(cmd=strip(ln), obs={k: v for k, v in io.items() if k != "store"}))]
    return []


def isolation(case):
    """C17: a request by a client of collection A leaves every document of the other collections
    unchanged; a foreign request is refused; resetting a collection removes exactly that collection's
    datatypes, operations, snapshots and CLIENTS: a client purged by a reset is not served any more."""
    reg = {}
    for ln, _ in case:
        if ln.get("k") == "client":
            reg[ln["c"]] = ln.get("reg", ln["col"])
    # clients purged by a reset of their collection (the harness never registers them again)
    purged, seen = set(), {}
    for idx, (ln, _) in enumerate(case):
        if ln.get("k") == "client" and ln.get("obs", {}).get("rpc", 0) == 0:
            seen[ln["c"]] = ln.get("reg", ln["col"])
        elif ln.get("k") == "reset" and ln.get("obs", {}).get("rpc", 0) == 0:
            purged |= {c for c, col in seen.items() if col == ln.get("name")}
        elif ln.get("k") == "sync" and ln.get("c") in purged and "rpc" in ln.get("obs", {}):
            if ln["obs"]["rpc"] == 0 and not (ln.get("mut") or {}).get("cuid"):
                return [dict(step=idx, what="purged-client-still-served", detail=dict(cmd=strip(ln), collection=seen.get(ln["c"])))]
    for idx, ln, prev, after in _adjacent(case):
        io = ln.get("obs", {})
        colname = (ln.get("mut") or {}).get("col") or reg.get(ln["c"])
        nums = {c["name"]: c["num"] for c in prev["collections"]}
        mine = nums.get(reg.get(ln["c"]))
        if (ln.get("mut") or {}).get("col") and nums.get(colname) != mine and io.get("rpc") == 0:
            return [dict(step=idx, what="foreign-collection-request-served", detail=dict(cmd=strip(ln)))]
        for coll in ("datatypes", "operations", "snapshots", "clients"):
            a = sorted((canon(x) for x in prev[coll] if x.get("colNum") != mine))
            b = sorted((canon(x) for x in after[coll] if x.get("colNum") != mine))
            if a != b:
                return [dict(step=idx, what="other-collection-changed:" + coll, detail=dict(cmd=strip(ln), collection=reg.get(ln["c"])))]
    return []


def notify(case):
    """C18: after a push that stored ≥1 operation exactly one notification is published on
    collection/key with the pusher's id, the datatype id and the new end of the log; otherwise none."""
    reg, cuid = {}, {}
    for ln, _ in case:
        if ln.get("k") == "client":
            reg[ln["c"]] = ln.get("reg", ln["col"])
            cuid[ln["c"]] = ln["cuid"]
    for idx, ln, prev, after in _adjacent(case):
        io = ln.get("obs", {})
        if "notifs" not in io:
            continue
        before_n, after_n = {}, {}
        for o in prev["operations"]:
            before_n[o["duid"]] = before_n.get(o["duid"], 0) + 1
        for o in after["operations"]:
            after_n[o["duid"]] = after_n.get(o["duid"], 0) + 1
        exp = []
        for d in after["datatypes"]:
            if after_n.get(d["duid"], 0) - before_n.get(d["duid"], 0) > 0:
                col = next((c["name"] for c in after["collections"] if c["num"] == d["colNum"]), "?")
                exp.append(("%s/%s" % (col, d["key"]), d["duid"]))
        got = [(n["topic"], n["duid"]) for n in io["notifs"]]
        dup = ln.get("fault") in ("dup", "dup1")
        if sorted(set(got)) != sorted(set(exp)) or (not dup and len(got) != len(exp)):
            return [dict(step=idx, what="notification-mismatch", detail=dict(cmd=strip(ln), expected=exp, got=io["notifs"]))]
        for n in io["notifs"]:
            d = next((d for d in after["datatypes"] if d["duid"] == n["duid"]), None)
            want_cuid = (ln.get("mut") or {}).get("cuid") or cuid.get(ln["c"])
            if d is None or (not dup and n["sseq"] != d["end"]) or n["cuid"] != want_cuid:
                return [dict(step=idx, what="notification-content", detail=dict(cmd=strip(ln), got=n, end=d and d["end"]))]
    return []


def contract(case):
    """C13: create on an existing key / subscribe to a missing key / another type under the key is
    refused through the client's error handler and changes nothing stored; the transition to SUBSCRIBED
    is reported exactly once per datatype instance; a collection never holds two datatypes under one key
    (racing SubscribeOrCreate requests included)."""
    subs = {}
    for idx, (ln, mo) in enumerate(case):
        io = ln.get("obs", {})
        if ln.get("k") == "store" and isinstance(io.get("store"), dict):
            seen = {}
            for d in io["store"].get("datatypes", []):
                k = (d.get("colNum"), d.get("key"))
                if k in seen:
                    return [dict(step=idx, what="two-datatypes-for-one-key", detail=dict(key=d.get("key"), duids=[seen[k], d.get("duid")]))]
                seen[k] = d.get("duid")
        for p in io.get("posts", []) or []:
            for h in p.get("handlers", []):
                if h.get("h") == "state" and h.get("new") == "SUBSCRIBED":
                    subs[p["r"]] = subs.get(p["r"], 0) + 1
                    if subs[p["r"]] > 1:
                        return [dict(step=idx, what="subscribed-reported-twice", detail=dict(cmd=strip(ln), r=p["r"]))]
            if p.get("dstate") == "SUBSCRIBED" and not subs.get(p["r"]) and not ln.get("k") == "newdt":
                return [dict(step=idx, what="subscribed-without-report", detail=dict(cmd=strip(ln), r=p["r"]))]
    return []


def patch_target(case):
    """C19: after PatchByJSON(target) the document's value IS the target, the emitted operations form
    one atomic unit (a single operation or one transaction announcing its length); the REST endpoint
    answers with the target and the stored user document becomes the target."""
    for idx, (ln, mo) in enumerate(case):
        io = ln.get("obs", {})
        if ln.get("k") == "pjson":
            if io.get("panic") or io.get("hang"):
                return [dict(step=idx, what="patch-panic", detail=dict(cmd=strip(ln), msg=io.get("panicMsg")))]
            if io.get("err"):
                return [dict(step=idx, what="patch-refused", detail=dict(cmd=strip(ln), err=io.get("err"), patch=io.get("patch")))]
            if first_diff(io.get("view"), ln.get("json")):
                return [dict(step=idx, what="patched-value-is-not-target", detail=dict(cmd=strip(ln), view=io.get("view"), patch=io.get("patch")))]
            em = io.get("emitted", [])
            if len(em) > 1 and not (em[0].get("t") == "tx" and em[0].get("n") == len(em)):
                return [dict(step=idx, what="patch-not-one-unit", detail=dict(cmd=strip(ln), emitted=em))]
        if ln.get("k") == "patch":
            if io.get("hang") or io.get("crash"):
                return [dict(step=idx, what="rest-patch-no-answer", detail=dict(cmd=strip(ln)))]
            if io.get("rpc") == 0:
                if first_diff(io.get("json"), ln.get("json")):
                    return [dict(step=idx, what="rest-answer-is-not-target", detail=dict(cmd=strip(ln), got=io.get("json")))]
                nxt = case[idx + 1][0] if idx + 1 < len(case) else {}
                if nxt.get("k") == "store" and ln.get("cuid"):
                    st = nxt["obs"]["store"]
                    ud = [u for u in st["userDocs"] if u["col"] == ln["col"] and u["key"] == ln["key"]]
                    if not ud or first_diff(ud[0]["value"], ln.get("json")):
                        return [dict(step=idx, what="stored-document-is-not-target", detail=dict(cmd=strip(ln), stored=ud))]
    return []


def enc_roundtrip(case):
    """C14: every operation survives protobuf, the store (BSON through the MongoDB stand-in) and the echo
    service with the same identifier, type and body; a value of any Go shape reads the same on the
    issuing replica and on a replica that received the operation through the wire."""
    for idx, (ln, mo) in enumerate(case):
        io = ln.get("obs", {})
        if ln.get("k") == "enc":
            for k in ("panic", "protoErr", "storeErr", "echoErr"):
                if io.get(k):
                    return [dict(step=idx, what="codec-failed:" + k, detail=dict(cmd=strip(ln), msg=io.get(k), panicMsg=io.get("panicMsg")))]
            for k in ("proto", "bson", "echo"):
                if first_diff(io.get(k), ln.get("op")):
                    return [dict(step=idx, what="operation-changed-by:" + k, detail=dict(cmd=strip(ln), got=io.get(k)))]
        if ln.get("k") == "shape":
            for k in ("panic", "protoErr", "storeErr", "echoErr", "roundtrip-differs"):
                if io.get(k):
                    return [dict(step=idx, what="shape:" + k, detail=dict(cmd=strip(ln), msg=io.get(k), panicMsg=io.get("panicMsg")))]
            if io.get("err") == 0 and (io.get("recvErr") or first_diff(io.get("viewA"), io.get("viewB"))):
                return [dict(step=idx, what="shape:sender-and-receiver-differ", detail=dict(cmd=strip(ln), a=io.get("viewA"), b=io.get("viewB"), recvErr=io.get("recvErr")))]
            if io.get("err") == 0 and io.get("hasWant") and io.get("want") is not None:
                va = io.get("viewA") or {}
                got = va.get("List", [None])[0] if ln.get("dt") == "list" else va.get("k")
                if first_diff(got, io.get("want")):
                    return [dict(step=idx, what="shape:value-is-not-the-json-value-of-the-input", detail=dict(cmd=strip(ln), got=got, want=io.get("want")))]
    return []


def fault_recovers(case):
    """C08: the faulted request is answered (error, not a hang or crash); the log invariant holds after
    the fault and after the retries; after all clients retried, every client holds the state of the
    fault-free run of the same scenario."""
    hdr = case[0][0]
    if "fault" not in hdr:
        return []
    for idx, (ln, mo) in enumerate(case):
        io = ln.get("obs", {})
        if io.get("hang") or io.get("crash") or io.get("panic"):
            return [dict(step=idx, what="fault-not-answered", detail=dict(cmd=strip(ln), fault=hdr["fault"], msg=io.get("panicMsg", "")[-300:]))]
        for p in io.get("posts", []) or []:
            if p.get("panic"):
                return [dict(step=idx, what="client-panicked-on-fault-response", detail=dict(cmd=strip(ln), fault=hdr["fault"]))]
    for idx, ln, st in _stores(case):
        # operation documents beyond the recorded end of the log are uncommitted leftovers of the failed
        # push: never handed out, removed by the next push (the datatype document is the commit point)
        ends = {d["duid"]: d["end"] for d in st["datatypes"]}
        view = dict(st, operations=[o for o in st["operations"] if o["duid"] in ends and o["sseq"] <= ends[o["duid"]]])
        m = check_loginv(view)
        if m:
            return [dict(step=idx, what="log-invariant-after-fault", detail=dict(fault=hdr["fault"], msg=m, cmd=strip(ln)))]
    end = case[-1][0]
    if end.get("k") == "send" and "final" in end:
        fin, ref = end["final"], hdr.get("ref") or []
        # all clients agree with each other …
        for v in fin[1:]:
            if first_diff(v, fin[0]):
                return [dict(step=len(case) - 1, what="retries-do-not-recover:clients-differ", detail=dict(fault=hdr["fault"], final=fin))]
        # … and with the fault-free run of the same scenario as far as the outcome does not depend on the
        # clocks (which the fault legitimately shifts): counter value, multiset of list elements, key set
        if ref and fin:
            a, b = fin[0], ref[0]
            bad = False
            if isinstance(a, dict) and "Counter" in a:
                bad = a != b
            elif isinstance(a, dict) and "List" in a:
                bad = sorted(map(canon, a["List"])) != sorted(map(canon, (b or {}).get("List", [])))
            if bad:
                return [dict(step=len(case) - 1, what="retries-do-not-recover", detail=dict(fault=hdr["fault"], final=fin, reference=ref))]
    return sconverge(case)


def goroutines_serial(case):
    """C20: in the forced witness schedule and in every stress run no update is lost, every issued
    operation is queued exactly once in identifier order, nothing panics, nothing deadlocks."""
    for idx, (ln, mo) in enumerate(case):
        io = ln.get("obs", {})
        if io.get("crash"):
            return [dict(step=idx, what="process-crashed", detail=dict(cmd=strip(ln), msg=io.get("panicMsg", "")[:600]))]
        if ln.get("k") == "witness" and ln.get("point") == "list.stale-validation":
            if "panic" in str(io.get("g2")) or "deadlock" in str(io.get("g2")) or io.get("g1panic"):
                return [dict(step=idx, what="stale-validation-panics", detail=dict(cmd=strip(ln), obs=io))]
            continue
        if ln.get("k") == "witness" and str(ln.get("point", "")).startswith("stale-validation."):
            # a call validated before the mutex and executed after another goroutine shrank the container behaves as if made
            # after the shrink: refused (the position no longer exists), nothing changed, identifiers gapless — never a panic
            if io.get("setup") or io.get("pointNotReached"):
                return [dict(step=idx, what="witness-setup-failed", detail=dict(cmd=strip(ln), obs=io))]
            if "panic" in str(io.get("g2")) or "deadlock" in str(io.get("g2")) or io.get("g1panic"):
                return [dict(step=idx, what="stale-validation-panics", detail=dict(cmd=strip(ln), obs=io))]
            vals = list((io.get("view") or {}).values())
            if io.get("g2") != "g2:err" or not vals or vals[0] != ["a", "b"]:
                return [dict(step=idx, what="stale-validation-not-serial", detail=dict(cmd=strip(ln), obs=io))]
            seqs = io.get("seqs") or []
            if not io.get("after") or seqs != list(range(1, len(seqs) + 1)):
                return [dict(step=idx, what="stale-validation-breaks-identifiers", detail=dict(cmd=strip(ln), obs=io))]
            continue
        if ln.get("k") == "witness" and str(ln.get("point", "")).startswith("tx.failing-with-waiter"):
            # the failing transaction leaves nothing; the caller that waited for the mutex is served as if alone
            remote = ln["point"].endswith("remote")
            want_value = 7 if remote else 1
            want_seqs = [1] if remote else [1, 2]
            if (io.get("outcomes") != ["g1:err", "g2:ok"] or io.get("readPanic") or io.get("value") != want_value
                    or io.get("seqs") != want_seqs or io.get("valueAfterOneMore") != want_value + 1
                    or io.get("queuedAfterOneMore") != len(want_seqs) + 1):
                return [dict(step=idx, what="waiter-behind-failing-transaction-lost-or-broken", detail=dict(cmd=strip(ln), obs=io))]
            continue
        if ln.get("k") == "witness":
            outs = [str(x) for x in io.get("outcomes", [])]
            bad = [x for x in outs if "panic" in x or "deadlock" in x]
            if bad or io.get("readPanic") or io.get("value") != 2 or io.get("seqs") != [1, 2, 3]:
                return [dict(step=idx, what="forced-schedule-breaks-mutual-exclusion", detail=dict(cmd=strip(ln), obs=io))]
        if ln.get("k") == "stress":
            if io.get("deadlock") or io.get("panics") or io.get("seqGap") or io.get("queued") != io.get("expectedQueued") or io.get("value") != io.get("expected"):
                return [dict(step=idx, what="concurrent-use-not-serial", detail=dict(cmd=strip(ln), obs=io))]
    return []


def lock_excludes(case):
    """C12/C13: the per-key lock of the server excludes its holders also on the first use of a name: no two holders at
    once, no lost update of a counter protected only by the lock, nobody refused (own live contexts)."""
    for idx, (ln, mo) in enumerate(case):
        if ln.get("k") != "lockstress":
            continue
        io = ln.get("obs", {})
        if io.get("panic") or io.get("hang"):
            return [dict(step=idx, what="lock-stress-" + ("panic" if io.get("panic") else "hang"), detail=dict(cmd=strip(ln), obs=io))]
        if io.get("overlaps") or io.get("lostUpdates") or io.get("refused") or io.get("leaks"):
            return [dict(step=idx, what="lock-does-not-exclude", detail=dict(cmd=strip(ln), obs=io))]
    return []


def doc_refs_unique(case):
    """C15 for documents: distinct elements never share an identifier.  In every observed node table of a document no
    identifier is referenced from two places (two keys, two slots, or a key and a slot), every node that is present names
    the parent that references it, and no identifier occurs twice in the table."""
    for idx, (ln, mo) in enumerate(case):
        io = ln.get("obs", {})
        d = io.get("dump")
        if not isinstance(d, dict) or "nodes" not in d:
            continue
        nodes = d["nodes"]
        ids = [json.dumps(n.get("c")) for n in nodes]
        if len(set(ids)) != len(ids):
            return [dict(step=idx, what="identifier-twice-in-node-table", detail=dict(cmd=strip(ln)))]
        by_id = dict(zip(ids, nodes))
        seen = {}
        for n in nodes:
            me = json.dumps(n.get("c"))
            refs = []
            if n.get("t") == "O":
                refs = [(k, json.dumps(v)) for k, v in (n.get("m") or {}).items()]
            elif n.get("t") == "A":
                refs = [(i, json.dumps(sl[1])) for i, sl in enumerate(n.get("n") or [])]
            for where, cid in refs:
                if cid in seen:
                    return [dict(step=idx, what="identifier-referenced-from-two-places",
                                 detail=dict(cmd=strip(ln), id=cid, first=seen[cid], second=[me, where]))]
                seen[cid] = [me, where]
                ch = by_id.get(cid)
                if ch is not None and json.dumps(ch.get("p")) != me:
                    return [dict(step=idx, what="child-names-another-parent",
                                 detail=dict(cmd=strip(ln), id=cid, parent=me, child_parent=ch.get("p")))]
    return []


def snapshot_replay(case):
    """C11: every stored snapshot at version v equals the replay of log operations 1..v (and v is within
    the log); the user document is the view of that replay at its recorded version, which belongs to a
    stored snapshot and never decreases; the latest rebuilt state equals the replay of the whole log."""
    last_ver = {}
    for idx, (ln, mo) in enumerate(case):
        io = ln.get("obs", {})
        if ln.get("k") == "snapcheck":
            if io.get("panic") or io.get("hang"):
                return [dict(step=idx, what="snapcheck-failed", detail=dict(msg=io.get("panicMsg")))]
            for s in io.get("snapshots", []):
                if not s["ok"] or not s["inLog"]:
                    return [dict(step=idx, what="snapshot-is-not-log-replay", detail=dict(cmd=strip(ln), snapshot=s))]
            for u in io.get("users", []):
                if not u["ok"] or not u["hasSnapshot"]:
                    return [dict(step=idx, what="user-document-is-not-log-replay", detail=dict(cmd=strip(ln), user=u))]
                k = u["key"]
                if u["ver"] < last_ver.get(k, 0):
                    return [dict(step=idx, what="user-document-version-decreased", detail=dict(cmd=strip(ln), user=u, before=last_ver[k]))]
                last_ver[k] = u["ver"]
            for l in io.get("latest", []):
                if not l["ok"]:
                    return [dict(step=idx, what="latest-is-not-full-replay", detail=dict(cmd=strip(ln), latest=l))]
        if ln.get("k") == "store" and isinstance(io.get("userVers"), dict):
            for k2, ver in io["userVers"].items():
                if ver is None:
                    continue
                kk = ("uv", k2)
                if ver < last_ver.get(kk, 0):
                    return [dict(step=idx, what="user-document-version-decreased", detail=dict(key=k2, ver=ver, before=last_ver[kk]))]
                last_ver[kk] = ver
        if ln.get("k") == "store" and isinstance(io.get("store"), dict):
            for u in io["store"].get("userDocs", []):
                k = (u["col"], u["key"])
                if u.get("ver") is not None:
                    if u["ver"] < last_ver.get(k, 0):
                        return [dict(step=idx, what="user-document-version-decreased", detail=dict(user=u, before=last_ver[k]))]
                    last_ver[k] = u["ver"]
    return []


def hash_unique(case):
    """C15: no two timestamps of the exhaustive grid share an identifier key."""
    for idx, (ln, mo) in enumerate(case):
        if ln.get("k") == "hashsummary" and ln["obs"].get("collisions"):
            return [dict(step=idx, what="hash-collision", detail=dict(cmd=strip(ln), collisions=ln["obs"]["collisions"], first=ln["obs"]["first"]))]
    return []


ORACLES = dict(rt_converge=rt_converge, entry_contract_client=entry_contract_client, usable_after_rpc_refusal=usable_after_rpc_refusal, usable_after_refusal=usable_after_refusal, hash_unique=hash_unique, snapshot_replay=snapshot_replay, goroutines_serial=goroutines_serial, fault_recovers=fault_recovers, enc_roundtrip=enc_roundtrip, patch_target=patch_target, loginv=loginv, sconverge=sconverge, refused_noop=refused_noop,
               isolation=isolation, notify=notify, contract=contract, corr=corr, spec=spec, converge=converge, err_noop=err_noop, no_panic=no_panic,
               seq_gapless=seq_gapless, list_order=list_order, twin=twin, tx_atomic=tx_atomic, plain_doc=plain_doc, lock_excludes=lock_excludes, doc_refs_unique=doc_refs_unique)
