"""Core of ./check: build (Lean + Go, from /repo's current tree), proof audit, correspondence
runs, oracles, known findings, evidence."""
import fcntl, hashlib, json, os, re, subprocess, sys, time, shutil

VERIF = os.path.dirname(os.path.dirname(os.path.abspath(__file__)))
REPO = os.environ.get("VERIF_REPO", "/repo")
WORK = os.path.join(VERIF, ".work")
LEAN = os.path.join(VERIF, "lean")
HARNESS = os.path.join(VERIF, "harness")
BIN = os.path.join(WORK, "bin")
GOENV = dict(os.environ, GOFLAGS="-mod=mod", GOPROXY="off", GOSUMDB="off", GOTOOLCHAIN="local",
             CGO_ENABLED=os.environ.get("CGO_ENABLED", "0"))
ALLOWED_AXIOMS = {"propext", "Classical.choice", "Quot.sound"}
FORBIDDEN = re.compile(r"sorry|\badmit\b|^axiom |native_decide|bv_decide|implemented_by|unsafe |maxHeartbeats 0", re.M)


def sh(cmd, cwd=None, env=None, timeout=3600, inp=None):
    p = subprocess.run(cmd, cwd=cwd, env=env, stdout=subprocess.PIPE, stderr=subprocess.STDOUT,
                       timeout=timeout, input=inp, text=True, shell=isinstance(cmd, str))
    return p.returncode, p.stdout


def repo_digest():
    h = hashlib.sha256()
    rc, out = sh("git -C %s rev-parse HEAD; git -C %s diff HEAD; git -C %s status --porcelain" % (REPO, REPO, REPO))
    h.update(out.encode())
    # untracked files matter too
    rc, out = sh("git -C %s ls-files --others --exclude-standard" % REPO)
    for f in out.split():
        try:
            h.update(open(os.path.join(REPO, f), "rb").read())
        except OSError:
            pass
    return h.hexdigest()[:16]


def verif_digest():
    h = hashlib.sha256()
    for root in ("lean/Orda", "lean/Orda.lean", "lean/lakefile.toml", "harness", "tools"):
        p = os.path.join(VERIF, root)
        if os.path.isfile(p):
            h.update(open(p, "rb").read())
            continue
        for d, ds, fs in sorted(os.walk(p)):
            ds.sort()
            for f in sorted(fs):
                if f.endswith((".lean", ".go", ".mod", ".sum", ".toml")) and "Gen/Generated" not in os.path.join(d, f):
                    h.update(f.encode())
                    h.update(open(os.path.join(d, f), "rb").read())
    return h.hexdigest()[:16]


class BuildResult:
    def __init__(self):
        self.gofacts_ok = True
        self.gofacts_msg = ""
        self.lean_ok = True
        self.lean_log = ""
        self.go_ok = True
        self.go_log = ""
        self.failed_modules = []


def build(lean_targets, need_go=True, log=print):
    """Regenerate Generated.lean from /repo, build the Lean targets and the driver, build the harness.
    Serialised by a lock; Lake and Go are incremental, so repeated calls on the same tree are cheap."""
    os.makedirs(BIN, exist_ok=True)
    res = BuildResult()
    lock = open(os.path.join(WORK, "build.lock"), "w")
    fcntl.flock(lock, fcntl.LOCK_EX)
    try:
        t0 = time.time()
        # 1. translator: go/ast facts -> Orda/Gen/Generated.lean
        gf = os.path.join(BIN, "gofacts")
        rc, out = sh(["go", "build", "-o", gf, "."], cwd=os.path.join(VERIF, "tools", "gofacts"), env=GOENV)
        if rc != 0:
            res.gofacts_ok, res.gofacts_msg = False, out
        else:
            gen = os.path.join(LEAN, "Orda", "Gen", "Generated.lean")
            rc, out = sh([gf, "-repo", REPO, "-out", gen + ".new", "-props", os.path.join(VERIF, "properties.jsonl"),
                          "-shape-out", os.path.join(LEAN, "Orda", "Gen", "Shape.lean"),
                          "-facts2-out", os.path.join(LEAN, "Orda", "Gen", "Facts2.lean"),
                          "-shape-json", os.path.join(WORK, "shape.json")], env=GOENV)
            if rc != 0:
                res.gofacts_ok, res.gofacts_msg = False, out
            else:
                new = open(gen + ".new").read()
                old = open(gen).read() if os.path.exists(gen) else None
                if new != old:
                    os.replace(gen + ".new", gen)
                else:
                    os.remove(gen + ".new")
                res.gofacts_msg = out
        # 2. Lean
        targets = list(dict.fromkeys(list(lean_targets) + ["ordamodel"]))
        rc, out = sh(["lake", "build"] + targets, cwd=LEAN, timeout=7200)
        res.lean_log = out
        if rc != 0:
            res.lean_ok = False
            res.failed_modules = re.findall(r"^- (\S+)", out, re.M)
        # 3. Go harness against /repo's working tree (the module's replace directives point there)
        if need_go:
            tags = os.environ.get("VERIF_GOTAGS", "verif")
            modargs = []
            if os.path.realpath(REPO) != "/repo":
                # another copy of the repository (VERIF_REPO): same module file with the replace directives redirected
                alt = os.path.join(WORK, "go.alt.mod")
                open(alt, "w").write(open(os.path.join(HARNESS, "go.mod")).read().replace("=> /repo", "=> " + os.path.realpath(REPO)))
                shutil.copy(os.path.join(HARNESS, "go.sum"), os.path.join(WORK, "go.alt.sum"))
                modargs = ["-modfile", alt]
            rc, out = sh(["go", "build"] + modargs + ["-tags", tags, "-o", os.path.join(BIN, "ordadrive"), "./cmd/ordadrive"],
                         cwd=HARNESS, env=GOENV, timeout=1800)
            res.go_log = out
            res.go_ok = rc == 0
        log("build: %.1fs lean_ok=%s go_ok=%s gofacts_ok=%s" % (time.time() - t0, res.lean_ok, res.go_ok, res.gofacts_ok))
    finally:
        fcntl.flock(lock, fcntl.LOCK_UN)
        lock.close()
    return res


def shape_diff(files=None):
    """functions of the anchored source files whose normalised text differs from the committed expectation
    (tools/gofacts/expected_shape.json): [(file, function, unified diff)]"""
    import difflib
    try:
        exp = json.load(open(os.path.join(VERIF, "tools", "gofacts", "expected_shape.json")))
        cur = json.load(open(os.path.join(WORK, "shape.json")))
    except Exception as e:
        return [("?", "?", "cannot read shape files: %s" % e)]
    out = []
    for f in sorted(set(exp) | set(cur)):
        if files is not None and f not in files:
            continue
        a, b = exp.get(f) or {}, cur.get(f) or {}
        for fn in sorted(set(a) | set(b)):
            if a.get(fn) != b.get(fn):
                d = "\n".join(difflib.unified_diff((a.get(fn) or "").splitlines(), (b.get(fn) or "").splitlines(),
                                                   "expected", "current", lineterm="", n=2))
                out.append((f, fn, d[:3000]))
    return out


def theorems_of(module):
    """names of the theorems stated in a Props module (property theorems only live there)"""
    path = os.path.join(LEAN, *module.split(".")) + ".lean"
    src = open(path).read()
    src_nc = re.sub(r"/-.*?-/", "", src, flags=re.S)
    src_nc = re.sub(r"--.*", "", src_nc)
    names = re.findall(r"^\s*theorem\s+([A-Za-z0-9_.']+)", src_nc, re.M)
    ns = re.findall(r"^namespace\s+(\S+)", src_nc, re.M)
    return path, src_nc, names, (ns[0] if ns else "")


def audit(modules, log=print):
    """#print axioms for every property theorem; grep for forbidden constructs in every Lean source."""
    obligations, discharged, axioms, problems = [], [], set(), []
    for mod in modules:
        path, src, names, ns = theorems_of(mod)
        if not names:
            continue
        lines = ["import %s" % mod]
        for n in names:
            full = (ns + "." + n) if ns else n
            obligations.append(full)
            lines.append("#print axioms %s" % full)
        aud = os.path.join(WORK, "audit_%s_%d.lean" % (mod.replace(".", "_"), os.getpid()))
        open(aud, "w").write("\n".join(lines) + "\n")
        rc, out = sh(["lake", "env", "lean", aud], cwd=LEAN, timeout=1800)
        os.remove(aud)
        cur = None
        seen = {}
        for m in re.finditer(r"'([^']+)' (depends on axioms: \[([^\]]*)\]|does not depend on any axioms)", out.replace("\n", " ")):
            ax = set(a.strip() for a in (m.group(3) or "").split(",") if a.strip())
            seen[m.group(1)] = ax
        for n in names:
            full = (ns + "." + n) if ns else n
            if full not in seen:
                problems.append("theorem %s: no axiom report (%s)" % (full, out.strip()[-300:]))
                continue
            bad = seen[full] - ALLOWED_AXIOMS
            axioms |= seen[full]
            if bad:
                problems.append("theorem %s depends on %s" % (full, sorted(bad)))
            else:
                discharged.append(full)
    # forbidden constructs anywhere in the part of the development the audited modules depend on (their transitive
    # `import Orda.…` closure; comments stripped).  Files outside the closure (work in progress of a proof task that no
    # property imports yet) cannot influence a theorem, and `#print axioms` above would expose a `sorry` anyway.
    todo, seen = list(modules), set()
    while todo:
        mod = todo.pop()
        if mod in seen or not mod.startswith("Orda"):
            continue
        seen.add(mod)
        path = os.path.join(LEAN, *mod.split(".")) + ".lean"
        if not os.path.exists(path):
            continue
        s = open(path).read()
        todo += re.findall(r"^import\s+(Orda\.\S+)", s, re.M)
        s = re.sub(r"/-.*?-/", "", s, flags=re.S)
        s = re.sub(r"--.*", "", s)
        m = FORBIDDEN.search(s)
        if m:
            problems.append("%s contains forbidden construct %r" % (path, m.group(0)))
    return obligations, discharged, sorted(axioms), problems


def run_slice(profile, cases, seed, scratch, extra=(), timeout=1800, start=0):
    """one correspondence slice: harness executes the real code, the model runs the same trace.
    If the code under test takes the harness process down (a Go panic in a goroutine of the server
    cannot be recovered), the trace ends with the `intent` line of the request that did it: that
    step is recorded as a crash and the slice continues with the next case."""
    trace = os.path.join(scratch, "%s_%d.trace" % (profile, seed))
    stats = trace + ".stats"
    env = dict(os.environ, GOMEMLIMIT="4GiB")
    first, crashes = start, 0
    while True:
        cmd = [os.path.join(BIN, "ordadrive"), "-profile", profile, "-cases", str(cases), "-seed", str(seed),
               "-out", trace, "-stats", stats, "-from", str(start)] + (["-append"] if start > first else []) + list(extra)
        rc, out = sh(cmd, timeout=timeout, env=env)
        if rc == 0:
            break
        # find the case that crashed
        last_case, last = None, None
        with open(trace) as f:
            for line in f:
                try:
                    j = json.loads(line)
                except Exception:
                    continue
                last = j
                if j.get("k") in ("case", "scase", "conccase"):
                    last_case = j.get("id")
        if last is None or last.get("k") != "intent" or last_case is None or crashes > 50:
            return None, None, "harness exited %d: %s" % (rc, out[-2000:])
        crashes += 1
        crash = dict(last)
        crash["k"] = crash.pop("of", "sync")
        crash["obs"] = dict(crash=True, panicMsg=out[-1500:])
        with open(trace, "a") as f:
            f.write(json.dumps(crash) + "\n")
        start = last_case + 1
        if start >= cases or profile in ("conc",):
            break
    st = json.load(open(stats)) if os.path.exists(stats) else {}
    if crashes:
        st["process-crash"] = crashes
    return pair_with_model(trace), st, None


def pair_with_model(trace):
    mout = trace + ".model"
    with open(trace) as fin, open(mout, "w") as fout:
        p = subprocess.run([os.path.join(LEAN, ".lake", "build", "bin", "ordamodel")], stdin=fin, stdout=fout,
                           stderr=subprocess.PIPE, timeout=3600)
    lines = []
    with open(trace) as a, open(mout) as b:
        for la in a:
            lb = b.readline()
            try:
                ja = json.loads(la)
            except Exception:
                continue
            try:
                jb = json.loads(lb) if lb.strip() else None
            except Exception:
                jb = None
            lines.append((ja, jb))
    return lines
