"""Per-property configuration: Lean modules holding the property theorems, correspondence slices
(generator profile, budget), the oracles that read the property on the implementation."""
import glob, hashlib, json, os
from . import core, oracles

TRUSTED_BASE = [
    "Lean 4.33 kernel (thorough tier: re-checked by leanchecker); axioms allowed: propext, Classical.choice, Quot.sound",
    "tools/gofacts (go/ast translator producing Orda/Gen/Generated.lean from /repo on every run)",
    "correspondence harness harness/cmd/ordadrive (drives the real Go code through exported API) and the compiled model driver ordamodel (Lean compiler/runtime trusted for the driver's outputs only)",
    "checklib oracles (Python) reading the property on the implementation's observations",
    "modelled, not verified: encoding/json, protobuf-go, mongo-driver/BSON, gRPC, paho MQTT, mapstructure, nanoid uniqueness, Go scheduler and memory model, time.Now()",
]

REPLICA_ASSUMPTIONS = [
    "JSON numbers are integers exactly representable as float64 (Go float semantics not modelled)",
    "distinct clients have distinct client ids (nanoid)",
    "the server log order is a linear extension of causality (each replica publishes in order and receives only from the log)",
]


SERVICE_ASSUMPTIONS = [
    "MongoDB is the in-memory wire-protocol stand-in memmongo (command semantics as implemented there); MQTT is the stand-in mqttstub",
    "one request is handled at a time in these slices (the per-key lock is the subject of C12)",
    "wall-clock fields (createdAt/updatedAt/at) are erased; consecutive requests are spaced by ≥2 ms",
    "JSON numbers are integers exactly representable as float64",
]


def anchor_files(pid):
    """the source files a property is anchored in (properties.jsonl), generated protobuf code excluded"""
    for l in open(os.path.join(core.VERIF, "properties.jsonl")):
        p = json.loads(l)
        if p["id"] == pid:
            return [f for f in p["anchors"]["files"] if not f.endswith(".pb.go")]
    return []


def S(profile, quick, thorough, oracles_, **kw):
    return dict(profile=profile, quick=quick, thorough=thorough, oracles=oracles_, **kw)


PROPS = {
    "C01": dict(lean=["Orda.Props.C01"], rule="a history is non-trivial when at least one operation of another replica was delivered after a concurrent local operation; distinct = distinct command sequences (client ids erased)",
                slices=[S("conv", 400, 6000, ["corr", "converge", "spec", "no_panic"]), S("tx", 200, 3000, ["corr", "converge", "doc_refs_unique"]), S("ids", 150, 2000, ["corr", "converge", "doc_refs_unique"])], assumptions=REPLICA_ASSUMPTIONS),
    "C02": dict(lean=["Orda.Props.C02"], rule="non-trivial: ≥2 replicas issued operations on the same key/position concurrently (a delivery happened after a local call); distinct command sequences",
                slices=[S("conf", 500, 8000, ["corr", "spec", "converge"]), S("hashgrid", 1, 2, ["corr", "hash_unique"])], assumptions=REPLICA_ASSUMPTIONS),
    "C03": dict(lean=["Orda.Props.C03"], rule="non-trivial: the single-replica history contains at least one refused (invalid) call and one accepted call; distinct command sequences",
                slices=[S("single", 400, 6000, ["corr", "spec", "plain_doc", "err_noop", "no_panic"])], assumptions=REPLICA_ASSUMPTIONS[:1]),
    "C04": dict(lean=["Orda.Props.C04"], rule="non-trivial: concurrent inserts or an insert next to a tombstone were delivered; every step observed on the acting replica (full node sequence incl. tombstones)",
                slices=[S("order", 300, 5000, ["corr", "list_order", "converge", "spec"]), S("tx", 200, 3000, ["corr", "converge", "list_order"]), S("hashgrid", 1, 2, ["corr", "hash_unique"])], assumptions=REPLICA_ASSUMPTIONS),
    "C09": dict(lean=["Orda.Props.C09"], rule="non-trivial: the history contains a failing transaction after ≥1 earlier operation, or a mutated remote unit; distinct command sequences",
                slices=[S("tx", 400, 6000, ["corr", "tx_atomic", "converge"])], assumptions=REPLICA_ASSUMPTIONS),
    "C10": dict(lean=["Orda.Props.C10"], rule="non-trivial: a snapshot round trip was taken from a state with ≥1 tombstone or remote operation and followed by ≥1 continuation step on both original and copy",
                slices=[S("snap", 400, 6000, ["corr", "twin", "converge"])], assumptions=REPLICA_ASSUMPTIONS),
    "C14": dict(lean=["Orda.Props.C14"], rule="every operation emitted by random histories of all four datatypes (all operation types) is pushed through protobuf, the store and the echo service; every Go value shape x {map, list, document} compares sender and receiver; non-trivial = operations with a non-empty body; distinct = distinct canonical operations",
                slices=[S("enc", 40, 600, ["enc_roundtrip"]), S("conv", 150, 2000, ["corr", "converge"])], assumptions=REPLICA_ASSUMPTIONS + ["invalid UTF-8 byte strings are outside the property's domain (not unicode strings) and are not generated"]),
    "C19": dict(lean=["Orda.Props.C19"], rule="non-trivial: a PatchByJSON / REST patch whose script has ≥2 operations or touches a nested path, on a document reached by a multi-replica history; jdiff lines: tree pairs with a non-empty script; distinct command sequences",
                slices=[S("patch", 80, 1200, ["corr", "patch_target", "converge", "no_panic"]), S("rest", 50, 700, ["corr", "patch_target", "sconverge", "loginv"])], assumptions=REPLICA_ASSUMPTIONS + SERVICE_ASSUMPTIONS[:2]),
    "C15": dict(lean=["Orda.Props.C15"], rule="non-trivial: history with failing calls, rollbacks or remote deliveries between local operations; grid slice: every (lamport, delimiter) pair of the grid",
                slices=[S("ids", 300, 5000, ["corr", "seq_gapless", "doc_refs_unique", "no_panic"]), S("hashgrid", 1, 4, ["corr", "hash_unique"])],
                assumptions=REPLICA_ASSUMPTIONS),
    "C05": dict(lean=["Orda.Props.C05"], rule="non-trivial: ≥2 clients pushed operations to one datatype through the real service and every client synced to quiescence; entry modes create/subscribe/subscribe-or-create and late subscribers occur; distinct command sequences",
                slices=[S("svc", 90, 1400, ["corr", "sconverge", "loginv", "no_panic"]), S("fault", 40, 500, ["corr", "sconverge", "loginv"])], assumptions=SERVICE_ASSUMPTIONS),
    "C07": dict(lean=["Orda.Props.C07"], rule="non-trivial: the case contains ≥1 message fault (duplicate request, dropped response, response applied after later exchanges) on a datatype that ≥2 clients push to; distinct command sequences",
                slices=[S("fault", 90, 1400, ["corr", "sconverge", "loginv", "no_panic"])], assumptions=SERVICE_ASSUMPTIONS),
    "C08": dict(lean=["Orda.Props.C08"], rule="each case is one scenario re-run with ONE database command of ONE request failing (mode fail) or being the last before the database goes away and the server restarts (mode crash), followed by retries of all clients; non-trivial: the faulted command belongs to a request that pushes operations; distinct = distinct (scenario, request, command, mode)",
                slices=[S("dbfault", 5, 40, ["corr", "fault_recovers", "no_panic"])], assumptions=SERVICE_ASSUMPTIONS + ["a failed command has no effect (memmongo semantics); a crash is modelled as: no command after the faulted one is executed, then the server process restarts against the same data"]),
    "C20": dict(lean=["Orda.Props.C20"], rule="forced witness schedules (3) through the verif schedule points, then stress runs: 2..8 goroutines x 30 calls (every 4th a transaction) on one datatype while another goroutine applies remote operations, randomised yields at the schedule points; non-trivial: every run; distinct by (datatype, goroutines, seed)",
                slices=[S("conc", 24, 400, ["goroutines_serial"])],
                assumptions=["schedule points exist only with build tag verif (client/pkg/verifhook)", "Go memory model / data races are not decided (named gap)"]),
    "C06": dict(lean=["Orda.Props.C06"], rule="non-trivial: ≥2 clients pushed to the same datatype and at least one request was a re-push, an empty push or came after other clients' pushes; store dumped and checked after EVERY request; distinct command sequences",
                slices=[S("svclog", 60, 900, ["corr", "loginv", "no_panic"]), S("mut", 60, 900, ["corr", "loginv", "refused_noop"]), S("par", 6, 60, ["corr", "loginv", "no_panic"])], assumptions=SERVICE_ASSUMPTIONS),
    "C11": dict(lean=["Orda.Props.C11"], rule="each case: 1..3 clients, 1..2 keys over all four datatypes; ~30% of the pushes have their background snapshot updater HELD and released later (after further pushes, several held at once, released in generator order); after every request the harness replays the stored log with fresh real datatypes and compares with every stored snapshot, the user document and GetLatestDatatype; non-trivial: ≥1 held updater released after a later push and ≥1 snapshot check; distinct command sequences",
                slices=[S("snap11", 50, 700, ["corr", "snapshot_replay", "loginv"]), S("rest", 20, 300, ["corr", "snapshot_replay"])], assumptions=SERVICE_ASSUMPTIONS + ["held updaters are released one at a time (the snapshot manager's own lock serialises them in the implementation); the order of release is the generator's"]),
    "C12": dict(lean=["Orda.Props.C12"], rule="each case: 2..16 clients over 1..2 keys; four rounds in which ALL clients call ProcessPushPull simultaneously (own contexts, cancelled on return); the derived serial order is replayed by the model; non-trivial: ≥2 clients pushed operations to the same key in one round; distinct command sequences",
                slices=[S("par", 14, 160, ["corr", "loginv", "sconverge", "refused_noop", "lock_excludes", "no_panic"])],
                race=dict(profile="par", cases=6), assumptions=SERVICE_ASSUMPTIONS[:1] + ["the serial order is derived from the responses (per key by committed end of log; pullers after the pusher that produced their end)", "data races / runtime deadlocks are looked for (race detector, deadline) but not excluded by proof"]),
    "C13": dict(lean=["Orda.Props.C13"], rule="non-trivial: a case exercises ≥2 entry modes on one key, or a refusal (create on existing / subscribe to missing / other type); distinct command sequences",
                slices=[S("svc", 70, 1000, ["corr", "contract", "sconverge", "loginv"]), S("mut", 40, 600, ["corr", "contract", "refused_noop"]), S("par", 8, 100, ["corr", "contract", "loginv", "lock_excludes"]), S("rtentry", 24, 240, ["entry_contract_client"])], assumptions=SERVICE_ASSUMPTIONS),
    "C16": dict(lean=["Orda.Props.C16"], rule="non-trivial: the case contains ≥1 mutated request that was refused and ≥1 later accepted request of the same client; distinct command sequences",
                slices=[S("mut", 90, 1500, ["corr", "refused_noop", "usable_after_refusal", "loginv", "no_panic"]), S("par", 6, 60, ["corr", "refused_noop", "no_panic"]), S("rtrefuse", 8, 80, ["usable_after_rpc_refusal"])], assumptions=SERVICE_ASSUMPTIONS),
    "C17": dict(lean=["Orda.Props.C17"], rule="non-trivial: ≥2 collections hold datatypes under the same key and a request named a foreign collection or carried a foreign datatype id; distinct command sequences",
                slices=[S("iso", 80, 1200, ["corr", "isolation", "loginv", "refused_noop"])], assumptions=SERVICE_ASSUMPTIONS),
    "C18": dict(lean=["Orda.Props.C18"], rule="non-trivial: the case has both pushes that stored operations and pull-only syncs; every request framed by two store dumps is checked; distinct command sequences",
                slices=[S("svc", 70, 1000, ["corr", "notify"]), S("fault", 40, 600, ["corr", "notify"]), S("rt", 14, 250, ["rt_converge"])],
                race=dict(profile="rt", cases=6),
                assumptions=SERVICE_ASSUMPTIONS + ["rt slice: real clients in realtime mode (the library's own SyncManager over gRPC on 127.0.0.1, NotifyManager over MQTT to the broker stand-in, DatatypeManager), 2..5 clients, 1..6 operations each from their own goroutines with random pauses, broker delay 0..5 ms; deadline 2.5 s for convergence without any Sync call; the run is not reproducible step by step (real goroutine scheduling): the model side of this slice is the regenerated guard record Gen.rtFacts"]),
}


def cmd_key(case):
    """canonical, client-id-free rendering of the commands of a case"""
    cu = {c: "c%d" % i for i, c in enumerate(case[0][0].get("cuids", []))}
    s = json.dumps([oracles.strip(ln) for ln, _ in case], sort_keys=True)
    for c, r in cu.items():
        s = s.replace(c, r)
    return s


def nontrivial(pid, case):
    hdr = case[0][0]
    ks = [ln.get("k") for ln, _ in case]
    errs = sum(1 for ln, _ in case if ln.get("k") == "call" and ln.get("obs", {}).get("err"))
    oks = sum(1 for ln, _ in case if ln.get("k") == "call" and not ln.get("obs", {}).get("err"))
    remote = sum(1 for ln, _ in case[3:] if ln.get("k") == "dlv" and ln.get("obs", {}).get("ids"))
    if pid in ("C14", "C20"):
        return True
    if pid == "C19":
        return any(ln.get("k") in ("pjson", "patch") and len(ln.get("obs", {}).get("patch", []) or []) >= 1 for ln, _ in case) or any(ln.get("k") == "patch" for ln, _ in case)
    if pid == "C03":
        return errs > 0 and oks > 0
    if pid == "C09":
        return any(ln.get("k") == "tx" and ln.get("obs", {}).get("err") for ln, _ in case) or any(ln.get("mut") for ln, _ in case)
    if pid == "C10":
        return "snap" in ks and ks.index("snap") < len(ks) - 4
    if hdr.get("k") == "scase":
        syncs = [ln for ln, _ in case if ln.get("k") == "sync"]
        pushers = set(ln.get("c") for ln in syncs if any((p or {}).get("ops") for p in ln.get("obs", {}).get("req", []) or []))
        refused = [ln for ln in syncs if ln.get("obs", {}).get("rpc") or any(((p or {}).get("opt", 0) & 32) for p in (ln.get("obs", {}).get("resp") or []))]
        if pid == "C12":
            par = [ln for ln in syncs if ln.get("parallel")]
            return len(set(ln.get("c") for ln in par if any((p or {}).get("ops") for p in ln.get("obs", {}).get("req", []) or []))) >= 2
        if pid == "C11":
            ks2 = [ln.get("k") for ln, _ in case]
            held = [i for i, (ln, _) in enumerate(case) if ln.get("k") == "sync" and ln.get("fault") in ("holdsnap", "holdbg", "holdread")]
            return bool(held) and "applylate" in ks2 and "snapcheck" in ks2 if hdr.get("profile", "snap11") != "rest" else "snapcheck" in ks2 or "patch" in ks2
        if pid == "C08":
            return "fault" in hdr
        if pid == "C07":
            return any(ln.get("fault") for ln in syncs) and len(pushers) >= 2
        if pid in ("C16",):
            return bool(refused) and len(syncs) > len(refused)
        if pid == "C17":
            return len([ln for ln, _ in case if ln.get("k") == "mkcol"]) >= 2 and bool(syncs)
        if pid == "C18":
            return any(ln.get("obs", {}).get("notifs") for ln in syncs) and any(not ln.get("obs", {}).get("notifs") for ln in syncs)
        return len(pushers) >= 2
    if hdr.get("k") == "rtcase":
        return hdr.get("n", 0) >= 2 and hdr.get("ops", 0) >= 1
    if hdr.get("k") != "case":
        return True
    return remote > 0 and oks > 1


def trace_of(case):
    return [oracles.strip(ln) for ln, _ in case]


def race_run(pid, P, seed, scratch, log):
    """search support (never the claim): the same slice under the Go race detector"""
    r = P.get("race")
    if not r:
        return []
    rb = os.path.join(core.BIN, "ordadrive_race")
    rc, out = core.sh(["go", "build", "-race", "-tags", "verif", "-o", rb, "./cmd/ordadrive"], cwd=core.HARNESS,
                      env=dict(core.GOENV, CGO_ENABLED="1"), timeout=1800)
    if rc != 0:
        log("race build not available: %s" % out[-300:])
        return []
    tr = os.path.join(scratch, "race.trace")
    rc, out = core.sh([rb, "-profile", r["profile"], "-cases", str(r["cases"]), "-seed", str(seed), "-out", tr], timeout=3600)
    reports = [b for b in out.split("==================") if "DATA RACE" in b and "/repo/server/" in b]
    log("race detector: %d report(s) touching /repo/server" % len(reports))
    if reports:
        return [dict(oracle="race", what="data-race", profile=r["profile"], seed=seed, trace=[], detail=reports[0][:3000], step=0)]
    return []


def run_slices(pid, P, tier, seed, scratch, cov, distinct, log):
    fails = []
    if tier == "thorough":
        fails += race_run(pid, P, seed, scratch, log)
    for sl in P["slices"]:
        n = sl["quick"] if tier == "quick" else sl["thorough"]
        if tier == "search":
            n = sl["quick"] * 8
        lines, stats, err = core.run_slice(sl["profile"], n, seed, scratch, extra=sl.get("extra", ()))
        if err:
            fails.append(dict(oracle="corr", what="harness-crash", profile=sl["profile"], seed=seed, trace=[], detail=err))
            continue
        nsteps = 0
        per_oracle_seen = set()
        ncases = 0
        for case in oracles.split_cases(lines):
            ncases += 1
            nsteps += len(case)
            if case[0][0].get("k") in ("conccase", "enccase") or (case[0][0].get("k") not in ("case", "scase")):
                # line-oriented slices: every executed line is one case
                for ln, _ in case:
                    if ln.get("k") not in ("intent", "conccase", "enccase"):
                        distinct.add(hashlib.sha1(json.dumps(ln, sort_keys=True).encode()).hexdigest())
            elif nontrivial(pid, case):
                distinct.add(hashlib.sha1(cmd_key(case).encode()).hexdigest())
            if len(cov["samples"]) < 3 and len(case) > 6 and nontrivial(pid, case):
                cov["samples"].append(dict(profile=sl["profile"], commands=trace_of(case)[:40]))
            for on in sl["oracles"]:
                if on in per_oracle_seen:
                    continue
                fn = oracles.ORACLES.get(on)
                if fn is None:
                    continue
                for f in fn(case)[:1]:
                    per_oracle_seen.add(on)
                    fails.append(dict(oracle=on, what=f["what"], profile=sl["profile"], seed=seed,
                                      trace=trace_of(case), detail=f["detail"], step=f["step"]))
        cov["evaluations"] += nsteps
        cov["traces_validated_against_impl"] += ncases
        cov["slices"].append(dict(profile=sl["profile"], cases=ncases, steps=nsteps, seed=seed, tier=tier))
        for k, v in (stats or {}).items():
            cov["generator"][sl["profile"] + ":" + k] = cov["generator"].get(sl["profile"] + ":" + k, 0) + v
        log("slice %s: %d cases, %d steps, failures so far: %s" % (sl["profile"], ncases, nsteps, [(f["oracle"], f["what"]) for f in fails]))
    return fails


def replay(pid, P, path, scratch, log):
    r = json.load(open(path))
    if r.get("kind") == "proof-obligation-broken":
        mods = list(P["lean"]) + ["Orda.Shape." + pid]
        b = core.build(mods, need_go=False, log=log)
        print("replay: lake build of %s -> %s" % (mods, "ok" if b.lean_ok else "FAILS %s" % b.failed_modules))
        if not b.lean_ok and ("Orda.Shape." + pid) in b.failed_modules:
            for f, fn, d in core.shape_diff(anchor_files(pid))[:12]:
                print("changed: %s %s\n%s" % (f, fn, d))
        print(b.lean_log[-2000:] if not b.lean_ok else b.gofacts_msg)
        return 0 if b.lean_ok and "UNTRANSLATABLE" not in b.gofacts_msg else 1
    b = core.build(P["lean"], need_go=True, log=log)
    hdr = r["trace"][0] if r.get("trace") else {}
    if hdr.get("k") in ("scase", "rtcase", "conccase", "enccase"):
        # service-level (and special) histories: every case is generated from (profile, seed, case id) alone, so the
        # recorded case is executed again on the implementation.  Client ids are random nanoids drawn by the real code
        # (they break timestamp ties) and the server works with goroutines: up to 12 executions.
        cid = int(hdr.get("id", 0))
        fn = oracles.ORACLES.get(r.get("oracle", "corr"), oracles.corr)
        extra = next((sl.get("extra", ()) for sl in P["slices"] if sl["profile"] == r["profile"]), ())
        for attempt in range(12):
            lines, _, err = core.run_slice(r["profile"], cid + 1, int(r["seed"]), scratch, extra=extra, start=cid)
            if lines is None:
                print("replay: harness failed", str(err)[-500:])
                return 2
            for case in oracles.split_cases(lines):
                fs = fn(case)
                if fs:
                    print("replay %d: %s fails at step %d of case %d (profile %s, seed %s): %s" % (attempt, r.get("oracle"), fs[0]["step"], cid, r["profile"], r["seed"], fs[0]["what"]))
                    print(json.dumps(fs[0]["detail"])[:1500])
                    print("replay: FAILS (violation reproduced)")
                    return 1
        print("replay: passes (12 executions of case %d, profile %s, seed %s)" % (cid, r["profile"], r["seed"]))
        return 0
    tr = os.path.join(scratch, "replay.in")
    with open(tr, "w") as f:
        for c in r["trace"]:
            f.write(json.dumps(c) + "\n")
    out = os.path.join(scratch, "replay.trace")
    bad = 0
    for attempt in range(8):
        rc, o = core.sh([os.path.join(core.BIN, "ordadrive"), "-replay", tr, "-out", out], timeout=600)
        if rc != 0:
            print("replay: harness failed", o[-500:])
            return 2
        lines = core.pair_with_model(out)
        fn = oracles.ORACLES.get(r.get("oracle", "corr"), oracles.corr)
        for case in oracles.split_cases(lines):
            fs = fn(case)
            if fs:
                print("replay %d: %s fails at step %d: %s" % (attempt, r.get("oracle"), fs[0]["step"], fs[0]["what"]))
                print(json.dumps(fs[0]["detail"])[:1500])
                bad += 1
                break
        if bad:
            break
    print("replay: %s" % ("FAILS (violation reproduced)" if bad else "passes (8 attempts)"))
    return 1 if bad else 0
