"""Known findings: committed list (known_findings.json), never written at run time.
An entry with status "known" suppresses exactly the failures its matcher recognises; an entry with
status "fixed" suppresses nothing."""
import json, os

PATH = os.path.join(os.path.dirname(os.path.dirname(os.path.abspath(__file__))), "known_findings.json")


def load():
    if not os.path.exists(PATH):
        return []
    return json.load(open(PATH)).get("findings", [])


def _get(d, path):
    for p in path.split("."):
        if isinstance(d, dict):
            d = d.get(p)
        else:
            return None
    return d


def match(prop, fail):
    """fail: dict(oracle, what, detail, trace…).  A finding matches when the property is listed,
    the oracle and the `what` prefix agree and every `where` clause (dotted path into the failure
    → expected value / substring) holds."""
    for f in load():
        if f.get("status") != "known" or prop not in f.get("properties", []):
            continue
        m = f.get("match", {})
        if m.get("oracle") and m["oracle"] != fail.get("oracle"):
            continue
        if m.get("what_prefix") and not str(fail.get("what", "")).startswith(m["what_prefix"]):
            continue
        ok = True
        for path, exp in m.get("where", {}).items():
            got = _get(fail, path)
            if isinstance(exp, dict) and "contains" in exp:
                if exp["contains"] not in json.dumps(got):
                    ok = False
            elif got != exp:
                ok = False
        if ok:
            return f
    return None
