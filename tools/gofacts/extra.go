package main

import "strings"

// extra: further generated tables (server decision table etc.) are added here.
func extra(repo string, b *strings.Builder) {}
