package main

import (
	"fmt"
	"go/ast"
	"go/printer"
	"go/token"
	"strings"
)

// Decision paths: every path from the entry of a function to a `return`, as the list of branch
// conditions taken.  Supported statements: if / else-if / else, switch on an identifier with constant
// cases (an empty case falls out of the switch), return, and expression statements without control
// flow (ignored).  Anything else makes the path end in `.other "<source>"`.

func src(n ast.Node) string {
	var b strings.Builder
	_ = printer.Fprint(&b, fset, n)
	return strings.Join(strings.Fields(b.String()), " ")
}

func leanStr(s string) string { return fmt.Sprintf("%q", s) }

func condOf(e ast.Expr) string {
	switch x := e.(type) {
	case *ast.ParenExpr:
		return condOf(x.X)
	case *ast.UnaryExpr:
		if x.Op == token.NOT {
			return "(.not " + condOf(x.X) + ")"
		}
	case *ast.BinaryExpr:
		switch x.Op {
		case token.LAND:
			return "(.and " + condOf(x.X) + " " + condOf(x.Y) + ")"
		case token.LOR:
			return "(.or " + condOf(x.X) + " " + condOf(x.Y) + ")"
		case token.EQL, token.NEQ:
			l, r := src(x.X), src(x.Y)
			pos := x.Op == token.EQL
			wrap := func(s string) string {
				if pos {
					return s
				}
				return "(.not " + s + ")"
			}
			if l == "code" && strings.HasPrefix(r, "case") {
				return wrap("(.codeIs " + leanStr(strings.TrimPrefix(r, "case")) + ")")
			}
			if l == "its.datatypeDoc" && r == "nil" {
				return wrap(".docNil")
			}
			if (l == "its.datatypeDoc.DUID" && r == "its.DUID") || (r == "its.datatypeDoc.DUID" && l == "its.DUID") {
				if pos {
					return "(.not .duidDiffers)"
				}
				return ".duidDiffers"
			}
		case token.GTR:
			if src(x.X) == "len(its.gotPushPullPack.Operations)" && src(x.Y) == "0" {
				return ".hasOps"
			}
		}
	case *ast.CallExpr:
		switch src(x) {
		case "its.gotOption.HasCreateBit()":
			return ".createBit"
		case "its.gotOption.HasSubscribeBit()":
			return ".subscribeBit"
		}
	case *ast.SelectorExpr:
		if src(x) == "its.isReadOnly" {
			return ".readOnly"
		}
	}
	return "(.other " + leanStr(src(e)) + ")"
}

func retOf(r *ast.ReturnStmt) string {
	if len(r.Results) != 1 {
		return "(.other " + leanStr(src(r)) + ")"
	}
	s := src(r.Results[0])
	switch {
	case s == "nil":
		return ".ok"
	case s == "its.createDatatype()":
		return ".create"
	case s == "its.subscribeDatatype()":
		return ".subscribe"
	case s == "its.initClientInfoWithDatatypeDoc()":
		return ".init"
	case strings.HasPrefix(s, "errors.") && strings.Contains(s, ".New("):
		name := strings.TrimPrefix(s[:strings.Index(s, ".New(")], "errors.")
		return "(.err " + leanStr(name) + ")"
	}
	return "(.other " + leanStr(s) + ")"
}

type dpath struct {
	conds []string
	ret   string
}

func with(conds []string, c string, v bool) []string {
	out := append([]string{}, conds...)
	return append(out, fmt.Sprintf("(%s, %v)", c, v))
}

// walk enumerates the paths through stmts followed by the continuation rest
func walk(stmts []ast.Stmt, conds []string, out *[]dpath, fallOff string) {
	if len(stmts) == 0 {
		*out = append(*out, dpath{conds, fallOff})
		return
	}
	st, rest := stmts[0], stmts[1:]
	switch x := st.(type) {
	case *ast.ReturnStmt:
		*out = append(*out, dpath{conds, retOf(x)})
	case *ast.ExprStmt, *ast.AssignStmt, *ast.IncDecStmt, *ast.EmptyStmt:
		walk(rest, conds, out, fallOff)
	case *ast.BlockStmt:
		walk(append(append([]ast.Stmt{}, x.List...), rest...), conds, out, fallOff)
	case *ast.IfStmt:
		if x.Init != nil {
			*out = append(*out, dpath{conds, "(.other " + leanStr(src(x.Init)) + ")"})
			return
		}
		c := condOf(x.Cond)
		walk(append(append([]ast.Stmt{}, x.Body.List...), rest...), with(conds, c, true), out, fallOff)
		if x.Else == nil {
			walk(rest, with(conds, c, false), out, fallOff)
		} else {
			walk(append([]ast.Stmt{x.Else}, rest...), with(conds, c, false), out, fallOff)
		}
	case *ast.SwitchStmt:
		tag := ""
		if x.Tag != nil {
			tag = src(x.Tag)
		}
		if x.Init != nil || tag != "code" {
			*out = append(*out, dpath{conds, "(.other " + leanStr("switch "+tag) + ")"})
			return
		}
		neg := conds
		var dflt *ast.CaseClause
		for _, cc := range x.Body.List {
			cl := cc.(*ast.CaseClause)
			if cl.List == nil {
				dflt = cl
				continue
			}
			c := ""
			for i, e := range cl.List {
				a := "(.codeIs " + leanStr(strings.TrimPrefix(src(e), "case")) + ")"
				if i == 0 {
					c = a
				} else {
					c = "(.or " + c + " " + a + ")"
				}
			}
			walk(append(append([]ast.Stmt{}, cl.Body...), rest...), with(neg, c, true), out, fallOff)
			neg = with(neg, c, false)
		}
		if dflt != nil {
			walk(append(append([]ast.Stmt{}, dflt.Body...), rest...), neg, out, fallOff)
		} else {
			walk(rest, neg, out, fallOff)
		}
	default:
		*out = append(*out, dpath{conds, "(.other " + leanStr(src(st)) + ")"})
	}
}

func decisionPaths(repo, rel, recv, name string) string {
	fd := method(parse(repo, rel), recv, name)
	if fd == nil || fd.Body == nil {
		problems = append(problems, rel+": "+name+" not found")
		return "[]"
	}
	var ps []dpath
	walk(fd.Body.List, nil, &ps, "(.other \"falls off the end\")")
	var out []string
	for _, p := range ps {
		if strings.Contains(p.ret, ".other") || strings.Contains(strings.Join(p.conds, " "), ".other") {
			problems = append(problems, fmt.Sprintf("%s: %s: path with an untranslated construct: %s => %s", rel, name, strings.Join(p.conds, " ∧ "), p.ret))
		}
		out = append(out, fmt.Sprintf("⟨[%s], %s⟩", strings.Join(p.conds, ", "), p.ret))
	}
	return "[\n  " + strings.Join(out, ",\n  ") + "]"
}

func extra(repo string, b *strings.Builder) {
	const f = "server/service/service_pushpull_datatype.go"
	fmt.Fprintf(b, "/-- decision paths of PushPullHandler.processSubscribeOrCreate (%s) -/\ndef dispatchPaths : List DPath := %s\n\n", f, decisionPaths(repo, f, "PushPullHandler", "processSubscribeOrCreate"))
	fmt.Fprintf(b, "/-- decision paths of PushPullHandler.validatePushPullPack -/\ndef validatePaths : List DPath := %s\n\n", decisionPaths(repo, f, "PushPullHandler", "validatePushPullPack"))
	fmt.Fprintf(b, "/-- guards of the realtime path of the client's DatatypeManager (client/pkg/internal/managers/datatype.go) -/\ndef rtFacts : RtFacts := %s\n\n", rtFacts(repo))
}

// ---- realtime manager facts (client/pkg/internal/managers/datatype.go) ----

func containsCall(n ast.Node, text string) bool {
	found := false
	ast.Inspect(n, func(x ast.Node) bool {
		if c, ok := x.(*ast.CallExpr); ok && strings.Contains(src(c.Fun), text) {
			found = true
		}
		return !found
	})
	return found
}

func rtFacts(repo string) string {
	const rel = "client/pkg/internal/managers/datatype.go"
	f := parse(repo, rel)
	b := func(v bool) string {
		if v {
			return "true"
		}
		return "false"
	}
	ownFilter, needPull, notifySema, tryAcq, rechecks, async := false, false, false, false, false, false
	// ReceiveNotification: first statement `if its.ctx.Client.CUID == notification.CUID { ...; return }`
	if fd := method(f, "DatatypeManager", "ReceiveNotification"); fd != nil && fd.Body != nil && len(fd.Body.List) > 0 {
		if is, ok := fd.Body.List[0].(*ast.IfStmt); ok && is.Else == nil {
			c := src(is.Cond)
			if (c == "its.ctx.Client.CUID == notification.CUID" || c == "notification.CUID == its.ctx.Client.CUID") && len(is.Body.List) > 0 {
				if _, ok := is.Body.List[len(is.Body.List)-1].(*ast.ReturnStmt); ok {
					ownFilter = true
				}
			}
		}
		if containsCall(fd, "sema.") {
			notifySema = true
		}
	} else {
		problems = append(problems, rel+": ReceiveNotification not found")
	}
	// syncIfNeedPull: `if data.NeedPull(sseq) { ... return its.sync(data) }; return nil`
	if fd := method(f, "DatatypeManager", "syncIfNeedPull"); fd != nil && fd.Body != nil {
		for _, st := range fd.Body.List {
			if is, ok := st.(*ast.IfStmt); ok && src(is.Cond) == "data.NeedPull(sseq)" && containsCall(is.Body, "its.sync") {
				needPull = true
			}
		}
		if containsCall(fd, "sema.") {
			notifySema = true
		}
		// a sync outside the NeedPull guard would make the guard void
		for _, st := range fd.Body.List {
			if _, ok := st.(*ast.IfStmt); !ok && containsCall(st, "its.sync") {
				needPull = false
			}
		}
	} else {
		problems = append(problems, rel+": syncIfNeedPull not found")
	}
	// sync (used by both paths) must not touch the semaphore itself
	if fd := method(f, "DatatypeManager", "sync"); fd != nil && containsCall(fd, "sema.") {
		notifySema = true
	}
	// DeliverTransaction: realtime → go func(){ if !TryAcquire {return}; defer{Release; if NeedPush {DeliverTransaction}}; sync }()
	if fd := method(f, "DatatypeManager", "DeliverTransaction"); fd != nil && fd.Body != nil {
		ast.Inspect(fd, func(x ast.Node) bool {
			switch n := x.(type) {
			case *ast.GoStmt:
				async = true
			case *ast.IfStmt:
				if src(n.Cond) == "!its.sema.TryAcquire(1)" && len(n.Body.List) > 0 {
					if _, ok := n.Body.List[len(n.Body.List)-1].(*ast.ReturnStmt); ok {
						tryAcq = true
					}
				}
			case *ast.DeferStmt:
				rel, re := false, false
				ast.Inspect(n, func(y ast.Node) bool {
					if c, ok := y.(*ast.CallExpr); ok && src(c.Fun) == "its.sema.Release" {
						rel = true
					}
					if is, ok := y.(*ast.IfStmt); ok && src(is.Cond) == "wired.NeedPush()" && containsCall(is.Body, "its.DeliverTransaction") {
						re = true
					}
					return true
				})
				if rel && re {
					rechecks = true
				}
			}
			return true
		})
	} else {
		problems = append(problems, rel+": DeliverTransaction not found")
	}
	return fmt.Sprintf("{ ownFilter := %s, needPullGuard := %s, notifySyncTakesSema := %s, deliverTryAcquire := %s, deliverRechecks := %s, deliverAsync := %s }",
		b(ownFilter), b(needPull), b(notifySema), b(tryAcq), b(rechecks), b(async))
}

// ---- success flag of TransactionDatatype (client/pkg/internal/datatypes/transaction.go) ----

func assignsSuccess(s ast.Stmt) (isAssign bool, value string) {
	as, ok := s.(*ast.AssignStmt)
	if !ok || len(as.Lhs) != 1 || len(as.Rhs) != 1 {
		return false, ""
	}
	if src(as.Lhs[0]) != "its.success" {
		return false, ""
	}
	return true, src(as.Rhs[0])
}

// txFacts writes Orda/Gen/Facts2.lean
func txFacts(repo string) string {
	const rel = "client/pkg/internal/datatypes/transaction.go"
	f := parse(repo, rel)
	b := func(v bool) string {
		if v {
			return "true"
		}
		return "false"
	}
	resetUnder, resetBefore, failFalse, endReads := false, false, false, false
	known := 0 // assignments to its.success at the known sites
	total := 0
	ast.Inspect(f, func(n ast.Node) bool {
		if s, ok := n.(ast.Stmt); ok {
			if is, _ := assignsSuccess(s); is {
				total++
			}
		}
		return true
	})
	// unlock(): inside `if its.isLocked { … }`: `its.success = true` before `its.mutex.Unlock()`
	if fd := method(f, "TransactionDatatype", "unlock"); fd != nil && fd.Body != nil {
		ast.Inspect(fd.Body, func(n ast.Node) bool {
			blk, ok := n.(*ast.BlockStmt)
			if !ok {
				return true
			}
			seenReset := false
			for _, st := range blk.List {
				if is, v := assignsSuccess(st); is {
					known++
					if v == "true" {
						seenReset = true
					}
				}
				if es, ok := st.(*ast.ExprStmt); ok && src(es.X) == "its.mutex.Unlock()" && seenReset {
					resetUnder = true
				}
			}
			return true
		})
	} else {
		problems = append(problems, rel+": unlock not found")
	}
	// setTransactionContextAndLock(): any assignment to its.success before its.mutex.Lock()
	if fd := method(f, "TransactionDatatype", "setTransactionContextAndLock"); fd != nil && fd.Body != nil {
		locked := false
		for _, st := range fd.Body.List {
			if es, ok := st.(*ast.ExprStmt); ok && src(es.X) == "its.mutex.Lock()" {
				locked = true
			}
			if is, _ := assignsSuccess(st); is {
				known++
				if !locked {
					resetBefore = true
				}
			}
		}
	} else {
		problems = append(problems, rel+": setTransactionContextAndLock not found")
	}
	if fd := method(f, "TransactionDatatype", "SetTransactionFail"); fd != nil && fd.Body != nil && len(fd.Body.List) == 1 {
		if is, v := assignsSuccess(fd.Body.List[0]); is && v == "false" {
			failFalse = true
			known++
		}
	}
	if fd := method(f, "TransactionDatatype", "EndTransaction"); fd != nil && fd.Body != nil {
		ast.Inspect(fd.Body, func(n ast.Node) bool {
			if is, ok := n.(*ast.IfStmt); ok && src(is.Cond) == "its.success" && is.Else != nil && containsCall(is.Else, "its.Rollback") {
				endReads = true
			}
			return true
		})
	}
	if total != known {
		problems = append(problems, fmt.Sprintf("%s: %d assignments to its.success, %d at the sites the model knows", rel, total, known))
	}
	return fmt.Sprintf("{ resetUnderLock := %s, resetBeforeLock := %s, failWritesFalse := %s, endReadsFlag := %s }",
		b(resetUnder), b(resetBefore), b(failFalse), b(endReads))
}
