// gofacts: a tiny go/ast translator.  It regenerates Orda/Gen/Generated.lean from /repo's current
// sources: DATA (format segments, comparison steps, constants, decision tables), never code.
// A function that leaves the supported shape is reported as "untranslatable" (exit 3) so that the
// check can name the broken tie.
package main

import (
	"flag"
	"fmt"
	"go/ast"
	"go/parser"
	"go/token"
	"os"
	"path/filepath"
	"sort"
	"strconv"
	"strings"
)

var fset = token.NewFileSet()
var problems []string

func parse(repo, rel string) *ast.File {
	f, err := parser.ParseFile(fset, filepath.Join(repo, rel), nil, 0)
	if err != nil {
		problems = append(problems, fmt.Sprintf("%s: %v", rel, err))
		return nil
	}
	return f
}

func method(f *ast.File, recv, name string) *ast.FuncDecl {
	if f == nil {
		return nil
	}
	for _, d := range f.Decls {
		fd, ok := d.(*ast.FuncDecl)
		if !ok || fd.Name.Name != name {
			continue
		}
		if recv == "" && fd.Recv == nil {
			return fd
		}
		if fd.Recv != nil && len(fd.Recv.List) == 1 {
			t := fd.Recv.List[0].Type
			if s, ok := t.(*ast.StarExpr); ok {
				t = s.X
			}
			if id, ok := t.(*ast.Ident); ok && id.Name == recv {
				return fd
			}
		}
	}
	return nil
}

func fieldOf(e ast.Expr) string {
	if s, ok := e.(*ast.SelectorExpr); ok {
		return s.Sel.Name
	}
	return ""
}

var leanField = map[string]string{"Era": ".era", "Lamport": ".lamport", "Delimiter": ".delim", "CUID": ".cuid", "Seq": ".seq"}

// hashFormat: the single fmt.Fprintf/Sprintf call of Timestamp.Hash -> list of HSeg
func hashFormat(repo string) string {
	fd := method(parse(repo, "client/pkg/model/timestamp.go"), "Timestamp", "Hash")
	if fd == nil {
		problems = append(problems, "Timestamp.Hash not found")
		return "[]"
	}
	var call *ast.CallExpr
	ast.Inspect(fd.Body, func(n ast.Node) bool {
		if c, ok := n.(*ast.CallExpr); ok {
			if s, ok := c.Fun.(*ast.SelectorExpr); ok && (s.Sel.Name == "Fprintf" || s.Sel.Name == "Sprintf") {
				if call != nil {
					problems = append(problems, "Timestamp.Hash: more than one format call")
				}
				call = c
			}
		}
		return true
	})
	if call == nil {
		problems = append(problems, "Timestamp.Hash: no fmt.Fprintf/Sprintf call")
		return "[]"
	}
	args := call.Args
	if call.Fun.(*ast.SelectorExpr).Sel.Name == "Fprintf" {
		args = args[1:]
	}
	lit, ok := args[0].(*ast.BasicLit)
	if !ok || lit.Kind != token.STRING {
		problems = append(problems, "Timestamp.Hash: format is not a string literal")
		return "[]"
	}
	format, _ := strconv.Unquote(lit.Value)
	args = args[1:]
	var segs []string
	cur := ""
	flush := func() {
		if cur != "" {
			segs = append(segs, fmt.Sprintf(".lit %q", cur))
			cur = ""
		}
	}
	ai := 0
	for i := 0; i < len(format); i++ {
		if format[i] != '%' {
			cur += string(format[i])
			continue
		}
		i++
		if i >= len(format) {
			problems = append(problems, "Timestamp.Hash: dangling %")
			break
		}
		if format[i] == '%' {
			cur += "%"
			continue
		}
		if ai >= len(args) {
			problems = append(problems, "Timestamp.Hash: too few arguments")
			break
		}
		f := fieldOf(args[ai])
		ai++
		flush()
		switch {
		case format[i] == 'd' && f == "Era":
			segs = append(segs, ".era")
		case format[i] == 'd' && f == "Lamport":
			segs = append(segs, ".lamport")
		case format[i] == 'd' && f == "Delimiter":
			segs = append(segs, ".delim")
		case format[i] == 's' && f == "CUID":
			segs = append(segs, ".cuid")
		default:
			problems = append(problems, fmt.Sprintf("Timestamp.Hash: unsupported verb %%%c on %s", format[i], f))
		}
	}
	flush()
	return "[" + strings.Join(segs, ", ") + "]"
}

// compareSpec: `x := intN(its.F - o.F); if x > 0 {return A} else if x < 0 {return B}` … `return strings.Compare(its.G, o.G)`
func compareSpec(repo, rel, recv string) string {
	fd := method(parse(repo, rel), recv, "Compare")
	if fd == nil {
		problems = append(problems, recv+".Compare not found")
		return "⟨[], .cuid, false⟩"
	}
	var steps []string
	final := ""
	stmts := fd.Body.List
	bad := func(msg string) string {
		problems = append(problems, fmt.Sprintf("%s.Compare: untranslatable (%s)", recv, msg))
		return "⟨[], .cuid, false⟩"
	}
	retInt := func(b *ast.BlockStmt) (string, bool) {
		if len(b.List) != 1 {
			return "", false
		}
		r, ok := b.List[0].(*ast.ReturnStmt)
		if !ok || len(r.Results) != 1 {
			return "", false
		}
		switch v := r.Results[0].(type) {
		case *ast.BasicLit:
			return v.Value, true
		case *ast.UnaryExpr:
			if v.Op == token.SUB {
				if l, ok := v.X.(*ast.BasicLit); ok {
					return "-" + l.Value, true
				}
			}
		}
		return "", false
	}
	for i := 0; i < len(stmts); i++ {
		switch s := stmts[i].(type) {
		case *ast.ReturnStmt:
			if len(s.Results) != 1 {
				return bad("return arity")
			}
			c, ok := s.Results[0].(*ast.CallExpr)
			if !ok {
				return bad("final return is not a call")
			}
			sel, ok := c.Fun.(*ast.SelectorExpr)
			if !ok || sel.Sel.Name != "Compare" || len(c.Args) != 2 {
				return bad("final return is not strings.Compare")
			}
			a, b := c.Args[0].(*ast.SelectorExpr), c.Args[1].(*ast.SelectorExpr)
			if a == nil || b == nil || a.Sel.Name != b.Sel.Name {
				return bad("strings.Compare operands")
			}
			rx, _ := a.X.(*ast.Ident)
			if rx == nil || rx.Name != fd.Recv.List[0].Names[0].Name {
				return bad("strings.Compare operand order")
			}
			final = leanField[a.Sel.Name]
		case *ast.AssignStmt, *ast.DeclStmt:
			var name string
			var rhs ast.Expr
			if as, ok := s.(*ast.AssignStmt); ok {
				name = as.Lhs[0].(*ast.Ident).Name
				rhs = as.Rhs[0]
			} else {
				vs := s.(*ast.DeclStmt).Decl.(*ast.GenDecl).Specs[0].(*ast.ValueSpec)
				name = vs.Names[0].Name
				rhs = vs.Values[0]
			}
			conv, ok := rhs.(*ast.CallExpr)
			if !ok || len(conv.Args) != 1 {
				return bad("diff is not a conversion")
			}
			ty, _ := conv.Fun.(*ast.Ident)
			bin, ok2 := conv.Args[0].(*ast.BinaryExpr)
			if ty == nil || !ok2 || bin.Op != token.SUB {
				return bad("diff is not intN(a - b)")
			}
			bits := map[string]string{"int32": "32", "int64": "64"}[ty.Name]
			l, r := bin.X.(*ast.SelectorExpr), bin.Y.(*ast.SelectorExpr)
			if bits == "" || l == nil || r == nil || l.Sel.Name != r.Sel.Name {
				return bad("diff operands")
			}
			lx, _ := l.X.(*ast.Ident)
			if lx == nil || lx.Name != fd.Recv.List[0].Names[0].Name {
				return bad("diff operand order")
			}
			i++
			if i >= len(stmts) {
				return bad("missing if")
			}
			ifs, ok := stmts[i].(*ast.IfStmt)
			if !ok {
				return bad("missing if")
			}
			c1, ok := ifs.Cond.(*ast.BinaryExpr)
			els, ok2 := ifs.Else.(*ast.IfStmt)
			if !ok || !ok2 || els.Else != nil {
				return bad("if/else-if shape")
			}
			c2, ok := els.Cond.(*ast.BinaryExpr)
			if !ok {
				return bad("else-if cond")
			}
			chk := func(c *ast.BinaryExpr, op token.Token) bool {
				id, _ := c.X.(*ast.Ident)
				z, _ := c.Y.(*ast.BasicLit)
				return c.Op == op && id != nil && id.Name == name && z != nil && z.Value == "0"
			}
			if !chk(c1, token.GTR) || !chk(c2, token.LSS) {
				return bad("conditions are not x > 0 / x < 0")
			}
			pos, ok1 := retInt(ifs.Body)
			neg, ok2b := retInt(els.Body)
			if !ok1 || !ok2b {
				return bad("branch is not a constant return")
			}
			steps = append(steps, fmt.Sprintf("⟨%s, %s, %s, %s⟩", leanField[l.Sel.Name], bits, pos, neg))
		default:
			return bad("unexpected statement")
		}
	}
	if final == "" {
		return bad("no final strings.Compare")
	}
	return "⟨[" + strings.Join(steps, ", ") + "], " + final + ", true⟩"
}

// constants of an enum block: name = base + iota, resolved by simple evaluation
func errorCodes(repo string) string {
	f := parse(repo, "client/pkg/errors/errorcode.go")
	if f == nil {
		return "[]"
	}
	vals := map[string]int{}
	var order []string
	for _, d := range f.Decls {
		gd, ok := d.(*ast.GenDecl)
		if !ok || gd.Tok != token.CONST {
			continue
		}
		var lastExpr ast.Expr
		for iota_, sp := range gd.Specs {
			vs := sp.(*ast.ValueSpec)
			if len(vs.Values) > 0 {
				lastExpr = vs.Values[0]
			}
			v, ok := evalConst(lastExpr, vals, iota_)
			if !ok {
				continue
			}
			for _, n := range vs.Names {
				vals[n.Name] = v
				order = append(order, n.Name)
			}
		}
	}
	var out []string
	for _, n := range order {
		if strings.HasPrefix(n, "base") {
			continue
		}
		out = append(out, fmt.Sprintf("(%q, %d)", n, vals[n]))
	}
	return "[" + strings.Join(out, ", ") + "]"
}

func evalConst(e ast.Expr, env map[string]int, iota_ int) (int, bool) {
	switch v := e.(type) {
	case *ast.BasicLit:
		n, err := strconv.ParseInt(v.Value, 0, 64)
		return int(n), err == nil
	case *ast.Ident:
		if v.Name == "iota" {
			return iota_, true
		}
		x, ok := env[v.Name]
		return x, ok
	case *ast.BinaryExpr:
		a, ok1 := evalConst(v.X, env, iota_)
		b, ok2 := evalConst(v.Y, env, iota_)
		if !ok1 || !ok2 {
			return 0, false
		}
		switch v.Op {
		case token.ADD:
			return a + b, true
		case token.SUB:
			return a - b, true
		case token.MUL:
			return a * b, true
		}
	case *ast.ParenExpr:
		return evalConst(v.X, env, iota_)
	case *ast.CallExpr:
		if len(v.Args) == 1 {
			return evalConst(v.Args[0], env, iota_)
		}
	}
	return 0, false
}

// pbEnum: constants of a generated protobuf enum, e.g. TypeOfOperation_X TypeOfOperation = 31
func pbEnum(repo, typ string) string {
	f := parse(repo, "client/pkg/model/orda.enum.pb.go")
	if f == nil {
		return "[]"
	}
	m := map[string]int{}
	for _, d := range f.Decls {
		gd, ok := d.(*ast.GenDecl)
		if !ok || gd.Tok != token.CONST {
			continue
		}
		for _, sp := range gd.Specs {
			vs := sp.(*ast.ValueSpec)
			id, _ := vs.Type.(*ast.Ident)
			if id == nil || id.Name != typ || len(vs.Values) != 1 {
				continue
			}
			if v, ok := evalConst(vs.Values[0], nil, 0); ok {
				m[strings.TrimPrefix(vs.Names[0].Name, typ+"_")] = v
			}
		}
	}
	keys := make([]string, 0, len(m))
	for k := range m {
		keys = append(keys, k)
	}
	sort.Slice(keys, func(i, j int) bool { return m[keys[i]] < m[keys[j]] || (m[keys[i]] == m[keys[j]] && keys[i] < keys[j]) })
	var out []string
	for _, k := range keys {
		out = append(out, fmt.Sprintf("(%q, %d)", k, m[k]))
	}
	return "[" + strings.Join(out, ", ") + "]"
}

func optionBits(repo string) string {
	f := parse(repo, "client/pkg/model/push_pull_pack.go")
	if f == nil {
		return "[]"
	}
	var out []string
	for _, d := range f.Decls {
		gd, ok := d.(*ast.GenDecl)
		if !ok || gd.Tok != token.CONST {
			continue
		}
		for _, sp := range gd.Specs {
			vs := sp.(*ast.ValueSpec)
			if len(vs.Values) != 1 || !strings.HasPrefix(vs.Names[0].Name, "PushPullBit") {
				continue
			}
			if v, ok := evalConst(vs.Values[0], nil, 0); ok {
				out = append(out, fmt.Sprintf("(%q, %d)", strings.TrimPrefix(vs.Names[0].Name, "PushPullBit"), v))
			}
		}
	}
	return "[" + strings.Join(out, ", ") + "]"
}

func main() {
	repo := flag.String("repo", "/repo", "repository root")
	out := flag.String("out", "", "output file")
	propsPath := flag.String("props", "/verif/properties.jsonl", "the properties (their anchor files define the source shape)")
	shapeOut := flag.String("shape-out", "", "write Orda/Gen/Shape.lean (hashes of the normalised functions of the anchored files) here")
	facts2Out := flag.String("facts2-out", "", "write Orda/Gen/Facts2.lean (facts that only single model modules use) here")
	shapeJSON := flag.String("shape-json", "", "write the normalised function texts of the anchored files here (JSON)")
	writeExpected := flag.String("write-expected", "", "write Expected.lean (the shape the model was written against) here and exit")
	expectedJSON := flag.String("expected-json", "", "with -write-expected: also write the normalised texts here (JSON)")
	flag.Parse()
	if *writeExpected != "" {
		var eb strings.Builder
		eb.WriteString("/- Source shape the model was written against (hashes of the normalised functions of the anchored files).\n   Written by `tools/gofacts -write-expected` from a tree on which all checks pass; committed; compared with the\n   REGENERATED `Orda.Gen.Shape` by the theorems of Orda/Shape/Cxx.lean. -/\nnamespace Orda.Gen\n")
		all := shape(*repo, *propsPath, &eb, "Expected")
		eb.WriteString("end Orda.Gen\n")
		if err := os.WriteFile(*writeExpected, []byte(eb.String()), 0644); err != nil {
			fmt.Println(err)
			os.Exit(2)
		}
		if *expectedJSON != "" {
			writeJSON(*expectedJSON, all)
		}
		for _, p := range problems {
			fmt.Println("UNTRANSLATABLE:", p)
		}
		return
	}
	var b strings.Builder
	b.WriteString("/- GENERATED by tools/gofacts from the current sources of the repository. Do not edit. -/\n")
	b.WriteString("import Orda.Model.GenTypes\nnamespace Orda.Gen\nopen Orda\n\n")
	fmt.Fprintf(&b, "/-- segments of the format of Timestamp.Hash (client/pkg/model/timestamp.go) -/\ndef hashFormat : List HSeg := %s\n\n", hashFormat(*repo))
	fmt.Fprintf(&b, "/-- Timestamp.Compare -/\ndef tsCompare : CmpSpec := %s\n\n", compareSpec(*repo, "client/pkg/model/timestamp.go", "Timestamp"))
	fmt.Fprintf(&b, "/-- OperationID.Compare -/\ndef opidCompare : CmpSpec := %s\n\n", compareSpec(*repo, "client/pkg/model/operation_id.go", "OperationID"))
	fmt.Fprintf(&b, "def errorCodes : List (String × Nat) := %s\n\n", errorCodes(*repo))
	fmt.Fprintf(&b, "def opTypes : List (String × Nat) := %s\n\n", pbEnum(*repo, "TypeOfOperation"))
	fmt.Fprintf(&b, "def dtTypes : List (String × Nat) := %s\n\n", pbEnum(*repo, "TypeOfDatatype"))
	fmt.Fprintf(&b, "def dtStates : List (String × Nat) := %s\n\n", pbEnum(*repo, "StateOfDatatype"))
	fmt.Fprintf(&b, "def optionBits : List (String × Nat) := %s\n\n", optionBits(*repo))
	extra(*repo, &b)
	b.WriteString("end Orda.Gen\n")
	if *facts2Out != "" {
		var fb strings.Builder
		fb.WriteString("/- GENERATED by tools/gofacts from the current sources of the repository. Do not edit. -/\nimport Orda.Model.TxFlagTypes\nnamespace Orda.Gen\nopen Orda\n\n")
		fmt.Fprintf(&fb, "/-- where transaction.go touches the success flag of TransactionDatatype -/\ndef txFacts : TxFacts := %s\n\nend Orda.Gen\n", txFacts(*repo))
		old, _ := os.ReadFile(*facts2Out)
		if string(old) != fb.String() {
			if err := os.WriteFile(*facts2Out, []byte(fb.String()), 0644); err != nil {
				fmt.Println(err)
				os.Exit(2)
			}
		}
	}
	if *shapeOut != "" {
		var sb strings.Builder
		sb.WriteString("/- GENERATED by tools/gofacts from the current sources of the repository. Do not edit. -/\nnamespace Orda.Gen\n")
		all := shape(*repo, *propsPath, &sb, "Shape")
		sb.WriteString("end Orda.Gen\n")
		old, _ := os.ReadFile(*shapeOut)
		if string(old) != sb.String() {
			if err := os.WriteFile(*shapeOut, []byte(sb.String()), 0644); err != nil {
				fmt.Println(err)
				os.Exit(2)
			}
		}
		if *shapeJSON != "" {
			writeJSON(*shapeJSON, all)
		}
	}
	if *out == "" {
		fmt.Print(b.String())
	} else if err := os.WriteFile(*out, []byte(b.String()), 0644); err != nil {
		fmt.Println(err)
		os.Exit(2)
	}
	for _, p := range problems {
		fmt.Println("UNTRANSLATABLE:", p)
	}
}
