module gofacts

go 1.18
