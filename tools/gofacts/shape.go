package main

// Source shape: for every anchored source file of the properties, a hash of the NORMALISED text of each of its
// functions (comments, logging statements and verifhook schedule points removed; printed by go/printer, so that
// formatting is irrelevant) and a hash per file.  Generated.lean carries the per-file hashes (namespace Orda.Gen.Shape);
// the committed Orda/Gen/Expected.lean carries the hashes of the source the model was written against; the bridge
// theorems `Orda.Shape.Cxx.source_shape` state their equality for the files a property is anchored in.  A change of any
// function of those files therefore breaks a proof obligation (the tie), and the check goes looking for a failing input.
// The normalised texts are written next to the hashes (JSON) so that the check can name and show what changed.

import (
	"bytes"
	"encoding/json"
	"fmt"
	"go/ast"
	"go/parser"
	"go/printer"
	"go/token"
	"hash/fnv"
	"os"
	"sort"
	"strings"
)

// isNoise: statements that cannot change behaviour: logging (`x.L().Infof(...)`, `log.Logger.…`), verifhook schedule points
func isNoise(s ast.Stmt) bool {
	var call *ast.CallExpr
	switch st := s.(type) {
	case *ast.ExprStmt:
		call, _ = st.X.(*ast.CallExpr)
	case *ast.DeferStmt:
		call = st.Call
	}
	if call == nil {
		return false
	}
	sel, ok := call.Fun.(*ast.SelectorExpr)
	if !ok {
		return false
	}
	if id, ok := sel.X.(*ast.Ident); ok && id.Name == "verifhook" && sel.Sel.Name == "Yield" {
		return true
	}
	switch sel.Sel.Name {
	case "Infof", "Warnf", "Errorf", "Debugf", "Tracef", "Info", "Warn", "Error", "Debug":
	default:
		return false
	}
	// receiver chain ends in .L() or is log.Logger
	switch x := sel.X.(type) {
	case *ast.CallExpr:
		if s2, ok := x.Fun.(*ast.SelectorExpr); ok && s2.Sel.Name == "L" {
			return true
		}
	case *ast.SelectorExpr:
		if id, ok := x.X.(*ast.Ident); ok && id.Name == "log" {
			return true
		}
	}
	return false
}

func stripBlock(b *ast.BlockStmt) {
	if b == nil {
		return
	}
	out := b.List[:0]
	for _, s := range b.List {
		if isNoise(s) {
			continue
		}
		out = append(out, s)
	}
	b.List = out
}

func stripNoise(n ast.Node) {
	ast.Inspect(n, func(x ast.Node) bool {
		switch b := x.(type) {
		case *ast.BlockStmt:
			stripBlock(b)
		case *ast.CaseClause:
			out := b.Body[:0]
			for _, s := range b.Body {
				if !isNoise(s) {
					out = append(out, s)
				}
			}
			b.Body = out
		case *ast.CommClause:
			out := b.Body[:0]
			for _, s := range b.Body {
				if !isNoise(s) {
					out = append(out, s)
				}
			}
			b.Body = out
		}
		return true
	})
}

func recvName(fd *ast.FuncDecl) string {
	if fd.Recv == nil || len(fd.Recv.List) == 0 {
		return ""
	}
	t := fd.Recv.List[0].Type
	if s, ok := t.(*ast.StarExpr); ok {
		t = s.X
	}
	if id, ok := t.(*ast.Ident); ok {
		return id.Name + "."
	}
	return "?."
}

func fnv64(s string) uint64 {
	h := fnv.New64a()
	h.Write([]byte(s))
	return h.Sum64()
}

// shapeOfFile: function name -> normalised text
func shapeOfFile(repo, rel string) (map[string]string, error) {
	fset := token.NewFileSet()
	f, err := parser.ParseFile(fset, repo+"/"+rel, nil, 0) // comments are not parsed at all
	if err != nil {
		return nil, err
	}
	out := map[string]string{}
	for _, d := range f.Decls {
		switch fd := d.(type) {
		case *ast.FuncDecl:
			stripNoise(fd)
			var buf bytes.Buffer
			cfg := printer.Config{Mode: printer.UseSpaces | printer.TabIndent, Tabwidth: 4}
			_ = cfg.Fprint(&buf, token.NewFileSet(), fd)
			out[recvName(fd)+fd.Name.Name] = buf.String()
		case *ast.GenDecl:
			// type, const and var declarations shape the code as well (struct fields, constants)
			if fd.Tok == token.IMPORT {
				continue
			}
			var buf bytes.Buffer
			cfg := printer.Config{Mode: printer.UseSpaces | printer.TabIndent, Tabwidth: 4}
			_ = cfg.Fprint(&buf, token.NewFileSet(), fd)
			key := "decl:" + fd.Tok.String()
			for i := 0; ; i++ {
				k := fmt.Sprintf("%s#%d", key, i)
				if _, ok := out[k]; !ok {
					out[k] = buf.String()
					break
				}
			}
		}
	}
	return out, nil
}

func leanIdent(rel string) string {
	r := strings.NewReplacer("/", "_", ".", "_", "-", "_")
	return r.Replace(rel)
}

// shapeFiles: the union of the anchor files of all properties (read from properties.jsonl next to the tool's caller)
func shapeFiles(propsPath string) ([]string, map[string][]string) {
	data, err := os.ReadFile(propsPath)
	if err != nil {
		problems = append(problems, "shape: cannot read "+propsPath)
		return nil, nil
	}
	seen := map[string]bool{}
	per := map[string][]string{}
	for _, line := range strings.Split(string(data), "\n") {
		if strings.TrimSpace(line) == "" {
			continue
		}
		var p struct {
			ID      string `json:"id"`
			Anchors struct {
				Files []string `json:"files"`
			} `json:"anchors"`
		}
		if json.Unmarshal([]byte(line), &p) != nil {
			continue
		}
		for _, f := range p.Anchors.Files {
			if strings.HasSuffix(f, ".pb.go") { // generated protobuf code: not hand-written logic
				continue
			}
			seen[f] = true
			per[p.ID] = append(per[p.ID], f)
		}
	}
	files := make([]string, 0, len(seen))
	for f := range seen {
		files = append(files, f)
	}
	sort.Strings(files)
	return files, per
}

// shape writes the Lean definitions into b and returns file -> function -> text
func shape(repo, propsPath string, b *strings.Builder, ns string) map[string]map[string]string {
	files, _ := shapeFiles(propsPath)
	all := map[string]map[string]string{}
	fmt.Fprintf(b, "namespace %s\n", ns)
	for _, rel := range files {
		fns, err := shapeOfFile(repo, rel)
		if err != nil {
			problems = append(problems, "shape: "+rel+": "+err.Error())
			continue
		}
		all[rel] = fns
		names := make([]string, 0, len(fns))
		for n := range fns {
			names = append(names, n)
		}
		sort.Strings(names)
		var cat strings.Builder
		for _, n := range names {
			fmt.Fprintf(&cat, "%s=%016x;", n, fnv64(fns[n]))
		}
		fmt.Fprintf(b, "/-- %s (%d declarations) -/\ndef %s : Nat := 0x%016x\n", rel, len(names), leanIdent(rel), fnv64(cat.String()))
	}
	fmt.Fprintf(b, "end %s\n\n", ns)
	return all
}

func writeJSON(path string, v interface{}) {
	data, _ := json.MarshalIndent(v, "", " ")
	_ = os.WriteFile(path, data, 0644)
}
