#!/usr/bin/env python3
"""Regenerates Appendix C of DESIGN.md (the table of seeded changes) from seeded/*/meta.json."""
import glob, json, os, re
V = os.path.dirname(os.path.dirname(os.path.abspath(__file__)))
rows = []
for mf in sorted(glob.glob(os.path.join(V, "seeded", "*", "meta.json"))):
    m = json.load(open(mf))
    demo = m.get("demonstration")
    demo_s = ("fails with / passes without" if isinstance(demo, dict) and demo.get("with_change") == "FAIL" and demo.get("without_change") == "PASS"
              else (json.dumps(demo) if isinstance(demo, dict) else "scenario"))
    checks = []
    for c, d in sorted(m.get("checks_run", {}).items()):
        v = d.get("violations") or []
        how = "-"
        if d.get("exit") == 1 and v:
            how = "no-failing-input-found" if all("no-failing-input-found" in x for x in v) else "failing input (" + ", ".join(sorted(set(re.sub(r".*replays/C\d\d-([a-z_]+)-.*", r"\1", x) for x in v if "no-failing" not in x))) + ")"
        checks.append("%s: %s" % (c, how))
    rows.append("| `%s` | %s | %s | %s | %s | %s |" % (m["id"], m["property"], ", ".join(os.path.basename(f) for f in m.get("files", [])),
                m.get("needs", "").replace("|", "/"), demo_s, "; ".join(checks)))
table = "| id | property | changed | needs, to manifest | demonstration | quick checks run with the change applied |\n|---|---|---|---|---|---|\n" + "\n".join(rows)
p = os.path.join(V, "DESIGN.md")
s = open(p).read()
marker = "## Appendix C — seeded changes"
i = s.index(marker)
s = s[:i] + marker + "\n" + "Each directory `seeded/<id>/` holds `patch.diff`, the demonstration and `meta.json` (what was run). Confirmed by `tools/seeded.py` in a fresh scratch worktree: applies, builds, the existing client tests pass with the change, the demonstration fails with it and passes without it; then the listed quick checks were run against /repo with the patch applied and the patch was removed again.\n\n" + table + "\n"
open(p, "w").write(s)
print(table)
