#!/usr/bin/env python3
"""Confirms a seeded change delivered in a scratch worktree and measures which checks catch it.
usage: seeded.py <id> <mutdir> <property> <check,check,...> [--demo-pkg ./pkg/orda/ --demo-run TestSeeded]
Steps: extract patch (production files only) + demonstration; confirm in a FRESH scratch worktree of /repo:
builds, existing client tests pass with the patch (demonstration excluded), demonstration FAILS with the
patch and PASSES without; then apply the patch to /repo, run the named checks (quick), undo; write
/verif/seeded/<id>/{patch.diff, demo, meta.json}."""
import json, os, subprocess, sys, shutil, glob, re
V = os.path.dirname(os.path.dirname(os.path.abspath(__file__)))
ENV = dict(os.environ, GOFLAGS="-mod=mod", GOPROXY="off", GOSUMDB="off", GOTOOLCHAIN="local", VERIF_EVIDENCE_DIR=os.path.join(V, ".work", "seeded-evidence"))

def sh(cmd, cwd=None, timeout=3600):
    p = subprocess.run(cmd, cwd=cwd, shell=isinstance(cmd, str), env=ENV, stdout=subprocess.PIPE, stderr=subprocess.STDOUT, text=True, timeout=timeout)
    return p.returncode, p.stdout

def main():
    sid, mutdir, prop, checks = sys.argv[1], sys.argv[2], sys.argv[3], sys.argv[4].split(",")
    out = os.path.join(V, "seeded", sid)
    os.makedirs(out, exist_ok=True)
    rc, patch = sh("git diff -- . ':(exclude)*_test.go'", cwd=mutdir)
    open(os.path.join(out, "patch.diff"), "w").write(patch)
    demos = [f for f in sh("git ls-files --others --exclude-standard", cwd=mutdir)[1].split() if f.endswith("_test.go") or f.endswith("DEMO.md")]
    for f in demos:
        shutil.copy(os.path.join(mutdir, f), os.path.join(out, os.path.basename(f)))
    for f in ("SEEDED.md",):
        if os.path.exists(os.path.join(mutdir, f)):
            shutil.copy(os.path.join(mutdir, f), os.path.join(out, f))
    meta = dict(id=sid, property=prop, files=[l.split()[-1] for l in patch.splitlines() if l.startswith("+++ b/")], demo=[os.path.basename(f) for f in demos], demo_paths=demos)
    # confirm in a fresh scratch worktree
    conf = "/tmp/conf_" + sid
    sh(["git", "-C", "/repo", "worktree", "remove", "--force", conf])
    sh(["git", "-C", "/repo", "worktree", "add", "--detach", "-q", conf, "HEAD"])
    try:
        rc, o = sh(["git", "apply", os.path.join(out, "patch.diff")], cwd=conf)
        meta["applies"] = rc == 0
        rc1, o1 = sh("cd client && go build ./... && cd ../server && go build ./...", cwd=conf)
        meta["builds"] = rc1 == 0
        rc2, o2 = sh("go test -vet=off -count=1 ./...", cwd=os.path.join(conf, "client"))
        meta["existing_tests_pass_with_change"] = rc2 == 0 and "FAIL" not in o2
        test_demos = [f for f in demos if f.endswith("_test.go")]
        if test_demos:
            res = {}
            for f in test_demos:
                dst = os.path.join(conf, f)
                shutil.copy(os.path.join(mutdir, f), dst)
            res_w, res_o, ow = [], [], ""
            mods = sorted(set(f.split("/")[0] for f in test_demos))
            def run_demos(count):
                ok, out_all = True, ""
                for m in mods:
                    pk = sorted(set("./" + os.path.dirname(f)[len(m) + 1:] + "/" for f in test_demos if f.startswith(m + "/")))
                    rc_, o_ = sh(["go", "test", "-vet=off", "-count=%d" % count, "-run", "Seeded"] + pk, cwd=os.path.join(conf, m))
                    ok = ok and rc_ == 0
                    out_all += o_
                return ok, out_all
            okw, ow = run_demos(1)
            res["with_change"] = "PASS" if okw else "FAIL"
            sh(["git", "apply", "-R", os.path.join(out, "patch.diff")], cwd=conf)
            oko, oo = run_demos(3)
            res["without_change"] = "PASS" if oko else "FAIL"
            meta["demonstration"] = res
            meta["demonstration_tail_with_change"] = ow[-600:]
        else:
            meta["demonstration"] = "scenario description only (server-side: needs MongoDB); reproduced by the checks below"
    finally:
        sh(["git", "-C", "/repo", "worktree", "remove", "--force", conf])
    # run the checks against /repo with the patch applied
    detected = {}
    rc, o = sh(["git", "-C", "/repo", "apply", os.path.join(out, "patch.diff")])
    try:
        if rc == 0:
            for c in checks:
                rcc, oc = sh(["./check", c, "--tier", "quick"], cwd=V, timeout=3600)
                vio = [l for l in oc.splitlines() if l.startswith("VIOLATION")]
                detected[c] = dict(exit=rcc, violations=vio[:4])
                for l in vio[:1]:
                    m = re.search(r"replay=(\S+)", l)
                    if m and os.path.exists(m.group(1)):
                        shutil.copy(m.group(1), os.path.join(out, "replay_%s.json" % c))
    finally:
        sh(["git", "-C", "/repo", "checkout", "--", "."])
        sh(["git", "-C", "/repo", "status", "--short"])
    meta["checks_run"] = detected
    meta["caught_by"] = [c for c, d in detected.items() if d["exit"] == 1 and d["violations"]]
    json.dump(meta, open(os.path.join(out, "meta.json"), "w"), indent=1)
    print(json.dumps({k: meta[k] for k in ("id", "applies", "builds", "existing_tests_pass_with_change", "demonstration", "caught_by")}, indent=1))
    for c, d in detected.items():
        print(c, d["exit"], d["violations"][:2])

main()
