#!/usr/bin/env python3
"""Measures how much of each property's anchored source the correspondence harness actually executes.

The correspondence check is differential testing: what it sees of the code is bounded by the generators' reach.
This tool builds the harness with Go's coverage instrumentation (`go build -cover -coverpkg=…orda/client/…,…orda/server/…`),
runs every slice of every property at the quick budget, and reports per property and anchor file the share of
statements executed and the uncovered line ranges (to steer the generators).  Output: docs/anchor_coverage.json (read by
./check into the evidence files) and docs/anchor_coverage.md.
usage: anchorcov.py [--tier quick|thorough] [--props C01,C02]"""
import argparse, json, os, re, subprocess, sys, shutil, collections
V = os.path.dirname(os.path.dirname(os.path.abspath(__file__)))
sys.path.insert(0, V)
from checklib import core, props

MODPFX = "github.com/orda-io/orda/"


def main():
    ap = argparse.ArgumentParser()
    ap.add_argument("--tier", default="quick")
    ap.add_argument("--props", default="")
    a = ap.parse_args()
    pids = [p for p in a.props.split(",") if p] or sorted(props.PROPS)
    os.makedirs(core.BIN, exist_ok=True)
    covbin = os.path.join(core.BIN, "ordadrive.cov")
    modargs = []
    if os.path.realpath(core.REPO) != "/repo":
        alt = os.path.join(core.WORK, "go.alt.mod")
        open(alt, "w").write(open(os.path.join(core.HARNESS, "go.mod")).read().replace("=> /repo", "=> " + os.path.realpath(core.REPO)))
        shutil.copy(os.path.join(core.HARNESS, "go.sum"), os.path.join(core.WORK, "go.alt.sum"))
        modargs = ["-modfile", alt]
    rc, out = core.sh(["go", "build"] + modargs + ["-tags", "verif", "-cover", "-covermode=set",
                       "-coverpkg=verifharness/...," + MODPFX + "client/...," + MODPFX + "server/...",
                       "-o", covbin, "./cmd/ordadrive"], cwd=core.HARNESS, env=core.GOENV, timeout=3600)
    if rc != 0:
        print(out[-3000:])
        sys.exit(2)
    covroot = os.path.join(core.WORK, "cov")
    shutil.rmtree(covroot, ignore_errors=True)
    # run each (profile, cases, extra) once
    runs = {}
    for pid in pids:
        for sl in props.PROPS[pid]["slices"]:
            n = sl["quick"] if a.tier == "quick" else sl["thorough"]
            key = (sl["profile"], tuple(sl.get("extra", ())))
            runs[key] = max(runs.get(key, 0), n)
    blocks = {}   # profile key -> {(file, range): (stmts, hit)}
    for (prof, extra), n in sorted(runs.items()):
        d = os.path.join(covroot, prof + "_" + str(abs(hash(extra)) % 1000))
        os.makedirs(d, exist_ok=True)
        env = dict(os.environ, GOCOVERDIR=d, GOMEMLIMIT="4GiB")
        start, guard = 0, 0
        while guard < 60:
            guard += 1
            cmd = [covbin, "-profile", prof, "-cases", str(n), "-seed", "1", "-out", os.path.join(d, "trace"), "-from", str(start)] + list(extra)
            p = subprocess.run(cmd, env=env, stdout=subprocess.PIPE, stderr=subprocess.STDOUT, text=True)
            if p.returncode == 0:
                break
            # a crash of the process loses that run's counters; continue after the crashed case
            last_case = None
            for line in open(os.path.join(d, "trace")):
                try:
                    j = json.loads(line)
                except Exception:
                    continue
                if j.get("k") in ("case", "scase", "conccase"):
                    last_case = j.get("id")
            if last_case is None:
                break
            start = last_case + 1
            if start >= n:
                break
        txt = os.path.join(d, "cov.txt")
        rc, out = core.sh(["go", "tool", "covdata", "textfmt", "-i=" + d, "-o", txt], env=core.GOENV)
        b = {}
        if rc == 0 and os.path.exists(txt):
            for line in open(txt):
                m = re.match(r"(\S+):(\d+)\.\d+,(\d+)\.\d+ (\d+) (\d+)", line)
                if not m:
                    continue
                f = m.group(1)
                if not f.startswith(MODPFX):
                    continue
                f = f[len(MODPFX):]
                k = (f, int(m.group(2)), int(m.group(3)))
                st, hit = int(m.group(4)), int(m.group(5))
                old = b.get(k, (st, 0))
                b[k] = (st, max(old[1], hit))
        blocks[(prof, extra)] = b
        print("profile %-10s cases %-5d blocks %d" % (prof, n, len(b)), flush=True)
    result = {}
    md = ["# Anchor coverage of the correspondence harness (tier %s, seed 1)\n" % a.tier,
          "Share of statements of each property's anchored files executed by that property's own slices "
          "(Go coverage instrumentation of the harness binary; files of generated protobuf code left out).\n"]
    for pid in pids:
        files = props.anchor_files(pid)
        merged = {}
        for sl in props.PROPS[pid]["slices"]:
            for k, (st, hit) in blocks.get((sl["profile"], tuple(sl.get("extra", ()))), {}).items():
                o = merged.get(k, (st, 0))
                merged[k] = (st, max(o[1], hit))
        per = {}
        md.append("\n## %s\n\n| file | statements | executed | uncovered line ranges |\n|---|---|---|---|" % pid)
        tot_s = tot_h = 0
        for f in files:
            ks = sorted(k for k in merged if k[0] == f)
            st = sum(merged[k][0] for k in ks)
            hit = sum(merged[k][0] for k in ks if merged[k][1] > 0)
            unc = ["%d-%d" % (k[1], k[2]) for k in ks if merged[k][1] == 0 and merged[k][0] > 0]
            per[f] = dict(statements=st, executed=hit, uncovered=unc)
            tot_s += st
            tot_h += hit
            md.append("| %s | %d | %d (%.0f%%) | %s |" % (f, st, hit, 100.0 * hit / st if st else 0, " ".join(unc[:40]) + (" …" if len(unc) > 40 else "")))
        result[pid] = dict(files=per, statements=tot_s, executed=tot_h, share=round(tot_h / tot_s, 3) if tot_s else None, tier=a.tier)
        md.append("\ntotal: %d of %d statements (%.0f%%)" % (tot_h, tot_s, 100.0 * tot_h / tot_s if tot_s else 0))
    os.makedirs(os.path.join(V, "docs"), exist_ok=True)
    json.dump(result, open(os.path.join(V, "docs", "anchor_coverage.json"), "w"), indent=1, sort_keys=True)
    open(os.path.join(V, "docs", "anchor_coverage.md"), "w").write("\n".join(md) + "\n")
    for pid in pids:
        print(pid, result[pid]["executed"], "/", result[pid]["statements"], result[pid]["share"])
    shutil.rmtree(covroot, ignore_errors=True)


main()
