#!/usr/bin/env python3
"""development helper: run one slice and list the distinct correspondence/oracle failures"""
import sys, json, os, tempfile, shutil
sys.path.insert(0, os.path.dirname(os.path.dirname(os.path.abspath(__file__))))
from checklib import core, oracles
prof, cases, seed = sys.argv[1], int(sys.argv[2]), int(sys.argv[3])
ors = sys.argv[4].split(",") if len(sys.argv) > 4 else ["corr"]
scr = tempfile.mkdtemp(dir=core.WORK)
lines, stats, err = core.run_slice(prof, cases, seed, scr)
if err:
    print("ERR", err[-1500:]); sys.exit(1)
seen = {}
n = 0
for case in oracles.split_cases(lines):
    n += 1
    for on in ors:
        for f in oracles.ORACLES[on](case)[:1]:
            key = (on, f["what"])
            seen.setdefault(key, []).append((case[0][0].get("id"), f))
print("cases", n, "stats", {k: v for k, v in stats.items() if k in ("process-crash", "panic", "hang", "cut-short")})
for key, fs in sorted(seen.items(), key=lambda x: -len(x[1])):
    cid, f = fs[0]
    d = f["detail"]
    print("==", key, "x%d" % len(fs), "case", cid, "step", f["step"])
    if isinstance(d, dict):
        print("   cmd  ", json.dumps(d.get("cmd"))[:400])
        for k in ("impl", "model", "spec", "msg", "before", "after"):
            if k in d:
                print("   %-5s" % k, json.dumps(d[k])[:600])
    else:
        print("  ", str(d)[:600])
if os.environ.get("KEEP"):
    print("scratch", scr)
else:
    shutil.rmtree(scr)
