#!/bin/bash
# runs every claimed check at the given tier on the current tree and prints one line per property
tier=${1:-quick}
cd "$(dirname "$0")/.."
for id in $(python3 -c "import json;print(' '.join(c['property_id'] for c in json.load(open('MANIFEST.json'))['checks']))"); do
  out=$(./check $id --tier $tier 2>&1); rc=$?
  echo "$id rc=$rc $(echo "$out" | grep -E "obligations=|VIOLATION|KNOWN-FINDING" | tr '\n' ' ')"
done
