#!/usr/bin/env python3
"""Writes MANIFEST.json from the table below (kept as code so that it stays consistent)."""
import json, os
V = os.path.dirname(os.path.dirname(os.path.abspath(__file__)))
BASE = "for m in $(cat /w/out/gomods.txt); do MF=$(cd /repo/$m && . /w/out/goenv.sh && gomodflag); (cd /repo/$m && go test $MF -json -vet=off -count=1 -timeout 25m ./...); done"
NOTE = ("Trusted: Lean 4.33 kernel (axioms propext, Classical.choice, Quot.sound only; no native_decide/bv_decide/sorry), "
        "the go/ast translator tools/gofacts, the correspondence harness (ordadrive ↔ ordamodel) and the Python oracles; "
        "modelled, not verified: encoding/json, protobuf, mongo-driver/BSON, gRPC, MQTT, nanoid uniqueness, Go scheduler/memory model, time.Now().")
CLAIMED = {
 "C15": dict(text="Lean theorems (Props/C15): the identifier key format regenerated from the source is injective for all naturals and client ids; Compare is a strict total order and the int32/int64 form as written agrees with it below 2^63. Tie: generated format/compare shape (gofacts) + differential run of Hash/Compare on an exhaustive grid and of op-id sequences on histories.",
             tech="Lean 4 proof (generic render_injective + decidable side condition on generated data) + differential correspondence", ref="§6 C15"),
}
def main():
    props = [json.loads(l) for l in open(os.path.join(V, "properties.jsonl"))]
    extra = json.load(open(os.path.join(V, "tools", "claims.json"))) if os.path.exists(os.path.join(V, "tools", "claims.json")) else {}
    claimed = dict(CLAIMED); claimed.update(extra.get("claimed", {}))
    na = extra.get("not_applicable", {})
    checks, notapp = [], []
    for p in props:
        i = p["id"]
        if i in claimed:
            c = claimed[i]
            checks.append(dict(property_id=i, quick_cmd="./check %s --tier quick" % i, thorough_cmd="./check %s --tier thorough" % i,
                               evidence_file="/verif/evidence/%s.json" % i, replay_cmd_template="./check %s --replay {path}" % i,
                               engine="lean-proof+correspondence",
                               level_claimed=dict(category="proof", text=c["text"], design_ref=c.get("ref", "DESIGN.md §6")),
                               level_note=c.get("note", NOTE), technique=c["tech"]))
        else:
            notapp.append(dict(property_id=i, reason=na.get(i, "check under construction in this development round: not yet claimed (see DESIGN.md §10 for the build order)")))
    m = dict(version=1,
             setup_cmd="./setup.sh",
             hooks=dict(guard="verif", enable="go build -tags verif (harness builds /repo's packages with the tag; hooks live in client/pkg/verifhook)",
                        baseline_off_cmd=BASE, source_commits=extra.get("hook_commits", []), add_only=True),
             engines=[dict(name="lean-proof+correspondence", path="/verif/check", serves_properties=[c["property_id"] for c in checks],
                           kind_free_text="Lean 4 theorems about an executable model tied to /repo by a go/ast translator (regenerated facts + bridge theorems) and by differential correspondence of the compiled model against the real Go code; Python oracles search the implementation for a failing input")],
             checks=checks, not_applicable=notapp,
             notes="See DESIGN.md. known_findings.json lists genuine defects (fixed ones suppress nothing).")
    json.dump(m, open(os.path.join(V, "MANIFEST.json"), "w"), indent=1)
if __name__ == "__main__":
    main()
