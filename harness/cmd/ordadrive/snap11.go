package main

// C11: stored snapshots, the user-visible document and the rebuilt latest state versus the replay of the log.

import (
	"context"
	"fmt"
	"sort"

	ocontext "github.com/orda-io/orda/client/pkg/context"
	"github.com/orda-io/orda/client/pkg/iface"
	"github.com/orda-io/orda/client/pkg/model"
	"github.com/orda-io/orda/client/pkg/orda"
	"github.com/orda-io/orda/server/constants"
	"github.com/orda-io/orda/server/snapshot"
)

var dtNames = map[string]string{"COUNTER": "counter", "MAP": "map", "LIST": "list", "DOCUMENT": "document"}

func lowerTop(v interface{}) interface{} {
	m, ok := v.(map[string]interface{})
	if !ok {
		return v
	}
	o := J{}
	for k, x := range m {
		switch k {
		case "Counter":
			o["counter"] = x
		case "List":
			o["list"] = x
		default:
			o[k] = x
		}
	}
	return o
}

// stepSnapCheck replays the stored log of every datatype on a fresh real replica and compares:
// every stored snapshot (state at its version), the user document (view at its version), and
// snapshot.Manager.GetLatestDatatype() (state at the end of the log).
func (w *sworld) stepSnapCheck() (J, J, bool) {
	obs := J{}
	hung := guarded(obs, func() {
		st := w.storeJ()
		ctx := ocontext.NewOrdaContext(context.Background(), constants.TagTest)
		snapsOut, usersOut, latestOut := []interface{}{}, []interface{}{}, []interface{}{}
		for _, dd := range st["datatypes"].([]interface{}) {
			d := dd.(J)
			duid, key := d["duid"].(string), d["key"].(string)
			typ := dtNames[d["typ"].(string)]
			end := d["end"].(int64)
			// the log, sorted
			type od struct {
				sseq int64
				op   *model.Operation
			}
			var ops []od
			raw, _, _ := w.kit.Mgrs.Mongo.GetOperations(ctx, duid, 1, uint64(end))
			for i, o := range raw {
				ops = append(ops, od{int64(i + 1), o})
			}
			sort.Slice(ops, func(a, b int) bool { return ops[a].sseq < ops[b].sseq })
			// versions of interest
			want := map[int64]bool{end: true}
			for _, ss := range st["snapshots"].([]interface{}) {
				s := ss.(J)
				if s["duid"] == duid {
					want[s["sseq"].(int64)] = true
				}
			}
			colName := ""
			for _, cc := range st["collections"].([]interface{}) {
				if cc.(J)["num"] == d["colNum"] {
					colName = cc.(J)["name"].(string)
				}
			}
			for _, uu := range st["userDocs"].([]interface{}) {
				u := uu.(J)
				if u["col"] == colName && u["key"] == key && u["ver"] != nil {
					want[u["ver"].(int64)] = true
				}
			}
			// replay
			rp := newRep(typ, false, 0)
			dumps, views := map[int64]interface{}{0: rp.dump()}, map[int64]interface{}{0: viewJ(rp.dt)}
			for _, o := range ops {
				// units are delivered whole: find the unit end
				_, err := rp.wired.ReceiveRemoteModelOperations([]*model.Operation{cloneOp(o.op)}, false)
				_ = err
				if want[o.sseq] {
					dumps[o.sseq] = rp.dump()
					views[o.sseq] = viewJ(rp.dt)
				}
			}
			for _, ss := range st["snapshots"].([]interface{}) {
				s := ss.(J)
				if s["duid"] != duid {
					continue
				}
				v := s["sseq"].(int64)
				okk := dumps[v] != nil && canonS(sortNodes(dumps[v])) == canonS(sortNodes(s["snap"]))
				snapsOut = append(snapsOut, J{"key": key, "ver": v, "ok": okk, "inLog": v <= end})
			}
			for _, uu := range st["userDocs"].([]interface{}) {
				u := uu.(J)
				if u["col"] != colName || u["key"] != key || u["ver"] == nil {
					continue
				}
				v := u["ver"].(int64)
				okk := views[v] != nil && canonS(lowerTop(views[v])) == canonS(lowerTop(u["value"]))
				hasSnap := false
				for _, ss := range st["snapshots"].([]interface{}) {
					if ss.(J)["duid"] == duid && ss.(J)["sseq"] == v {
						hasSnap = true
					}
				}
				usersOut = append(usersOut, J{"key": key, "ver": v, "ok": okk, "hasSnapshot": hasSnap})
			}
			// latest
			colDoc, _ := w.kit.Mgrs.Mongo.GetCollection(ctx, colName)
			dtDoc, _ := w.kit.Mgrs.Mongo.GetDatatypeByKey(ctx, int32(d["colNum"].(int64)), key)
			if colDoc != nil && dtDoc != nil {
				mgr := snapshot.NewManager(ctx, w.kit.Mgrs, dtDoc, colDoc)
				lt, last, err := mgr.GetLatestDatatype()
				okk := err == nil && lt != nil && int64(last) == end
				if okk {
					_, snap, _ := lt.(iface.Datatype).GetMetaAndSnapshot()
					okk = canonS(sortNodes(canonState(typ, snap))) == canonS(sortNodes(dumps[end]))
				}
				latestOut = append(latestOut, J{"key": key, "ok": okk, "last": last, "end": end, "err": fmt.Sprint(err)})
			}
		}
		obs["snapshots"] = snapsOut
		obs["users"] = usersOut
		obs["latest"] = latestOut
	})
	return J{"k": "snapcheck"}, obs, hung
}

func sortNodes(v interface{}) interface{} {
	m, ok := v.(J)
	if !ok {
		return v
	}
	ns, ok := m["nodes"].([]interface{})
	if !ok {
		return v
	}
	cp := append([]interface{}{}, ns...)
	sort.Slice(cp, func(a, b int) bool { return canonS(cp[a].(J)["c"]) < canonS(cp[b].(J)["c"]) })
	return J{"nodes": cp}
}

var _ = orda.NewClient
