package main

// Replica-level execution of the real orda client code through its exported API only.

import (
	"encoding/json"
	"fmt"
	"io"
	"os"

	"github.com/orda-io/orda/client/pkg/errors"
	"github.com/orda-io/orda/client/pkg/iface"
	"github.com/orda-io/orda/client/pkg/log"
	"github.com/orda-io/orda/client/pkg/model"
	"github.com/orda-io/orda/client/pkg/operations"
	"github.com/orda-io/orda/client/pkg/orda"
	"github.com/sirupsen/logrus"
)

func quiet() {
	devnull, err := os.OpenFile(os.DevNull, os.O_WRONLY, 0)
	if err == nil {
		os.Stderr = devnull
	}
	log.Logger.Logger.SetOutput(io.Discard)
	log.Logger.Logger.SetLevel(logrus.PanicLevel)
}

type J = map[string]interface{}

type rep struct {
	typ     string
	client  orda.Client
	dt      orda.Datatype
	wired   iface.Datatype
	cuid    string
	emitCur int // buffer ops already reported as emitted
	pubCur  int // buffer ops already published to the log
	dlvCur  int // next log index to look at
	handles map[string]orda.Document
	aid     int // author identity: index of the replica whose client id this one carries
}

type unit struct {
	author int
	ops    []*model.Operation
}

type world struct {
	reps    []*rep
	log     []unit
	svc     bool // service level: post-states are reported by spostFn
	spostFn func(i int, o J)
}

func newRep(typ string, create bool, idx int) *rep {
	c := orda.NewClient(orda.NewLocalClientConfig("col"), fmt.Sprintf("r%d", idx))
	var dt orda.Datatype
	switch typ {
	case "counter":
		if create {
			dt = c.CreateCounter("k", nil)
		} else {
			dt = c.SubscribeCounter("k", nil)
		}
	case "map":
		if create {
			dt = c.CreateMap("k", nil)
		} else {
			dt = c.SubscribeMap("k", nil)
		}
	case "list":
		if create {
			dt = c.CreateList("k", nil)
		} else {
			dt = c.SubscribeList("k", nil)
		}
	case "document":
		if create {
			dt = c.CreateDocument("k", nil)
		} else {
			dt = c.SubscribeDocument("k", nil)
		}
	}
	w := dt.(iface.Datatype)
	return &rep{typ: typ, client: c, dt: dt, wired: w, cuid: w.GetCUID(), aid: idx}
}

// buffer returns every operation of the local buffer that CreatePushPullPack exposes (checkpoint is
// never advanced at replica level, so this is the whole buffer since `base`).
func (r *rep) buffer() []*model.Operation {
	return r.wired.CreatePushPullPack().Operations
}

func tsJ(t *model.Timestamp) interface{} {
	if t == nil {
		return nil
	}
	return []interface{}{t.Era, t.Lamport, t.CUID, t.Delimiter}
}

func tsListJ(ts []*model.Timestamp) interface{} {
	out := make([]interface{}, 0, len(ts))
	for _, t := range ts {
		out = append(out, tsJ(t))
	}
	return out
}

func opidJ(o *model.OperationID) interface{} {
	if o == nil {
		return nil
	}
	return []interface{}{o.Era, o.Lamport, o.CUID, o.Seq}
}

func vals(v []interface{}) interface{} {
	if v == nil {
		return []interface{}{}
	}
	return v
}

// canonState turns a marshaled snapshot into the canonical dump shared with the model.
func canonState(typ string, snap []byte) interface{} {
	switch typ {
	case "counter":
		var s struct{ Counter int32 }
		_ = json.Unmarshal(snap, &s)
		return J{"c": s.Counter}
	case "map":
		var s struct {
			Map map[string]struct {
				V interface{}      `json:"v"`
				T *model.Timestamp `json:"t"`
			}
			Size int
		}
		_ = json.Unmarshal(snap, &s)
		m := J{}
		for k, e := range s.Map {
			m[k] = J{"v": e.V, "t": tsJ(e.T)}
		}
		return J{"m": m, "size": s.Size}
	case "list":
		var s struct {
			Nodes []struct {
				V interface{}
				T *model.Timestamp
				O *model.Timestamp
			}
			Size int
		}
		_ = json.Unmarshal(snap, &s)
		n := make([]interface{}, 0, len(s.Nodes))
		for _, e := range s.Nodes {
			n = append(n, J{"o": tsJ(e.O), "t": tsJ(e.T), "v": e.V})
		}
		return J{"n": n, "size": s.Size}
	case "document":
		return canonDoc(snap)
	}
	return nil
}

func typOfSnapshot(t model.TypeOfOperation) string {
	switch t {
	case model.TypeOfOperation_COUNTER_SNAPSHOT:
		return "counter"
	case model.TypeOfOperation_MAP_SNAPSHOT:
		return "map"
	case model.TypeOfOperation_LIST_SNAPSHOT:
		return "list"
	}
	return "document"
}

// opJ is the canonical form of a wire operation (what survives ToModelOperation/ModelToOperation).
func opJ(mop *model.Operation) (out interface{}) {
	defer func() {
		if r := recover(); r != nil {
			out = J{"id": opidJ(mop.ID), "t": "undecodable"}
		}
	}()
	op := operations.ModelToOperation(mop)
	id := opidJ(mop.ID)
	switch c := op.(type) {
	case *operations.SnapshotOperation:
		return J{"id": id, "t": "snap", "S": canonState(typOfSnapshot(mop.OpType), c.GetBody())}
	case *operations.ErrorOperation:
		return J{"id": id, "t": "err", "code": uint32(c.GetCode())}
	case *operations.TransactionOperation:
		return J{"id": id, "t": "tx", "tag": canonTag(c.GetBody().Tag), "n": c.GetNumOfOps()}
	case *operations.IncreaseOperation:
		var b struct{ Delta int32 }
		_ = json.Unmarshal(mop.Body, &b)
		return J{"id": id, "t": "inc", "d": b.Delta}
	case *operations.PutOperation:
		return J{"id": id, "t": "put", "K": c.GetBody().Key, "V": c.GetBody().Value}
	case *operations.RemoveOperation:
		return J{"id": id, "t": "rm", "K": c.GetBody().Key}
	case *operations.InsertOperation:
		return J{"id": id, "t": "ins", "T": tsJ(c.GetBody().T), "V": vals(c.GetBody().V)}
	case *operations.DeleteOperation:
		return J{"id": id, "t": "del", "T": tsListJ(c.GetBody().T)}
	case *operations.UpdateOperation:
		return J{"id": id, "t": "upd", "T": tsListJ(c.GetBody().T), "V": vals(c.GetBody().V)}
	case *operations.DocPutInObjOperation:
		return J{"id": id, "t": "dput", "P": tsJ(c.GetBody().P), "K": c.GetBody().K, "V": c.GetBody().V}
	case *operations.DocRemoveInObjOperation:
		return J{"id": id, "t": "drm", "P": tsJ(c.GetBody().P), "K": c.GetBody().K}
	case *operations.DocInsertToArrayOperation:
		return J{"id": id, "t": "dins", "P": tsJ(c.GetBody().P), "T": tsJ(c.GetBody().T), "V": vals(c.GetBody().V)}
	case *operations.DocDeleteInArrayOperation:
		return J{"id": id, "t": "ddel", "P": tsJ(c.GetBody().P), "T": tsListJ(c.GetBody().T)}
	case *operations.DocUpdateInArrayOperation:
		return J{"id": id, "t": "dupd", "P": tsJ(c.GetBody().P), "T": tsListJ(c.GetBody().T), "V": vals(c.GetBody().V)}
	}
	return J{"id": id, "t": "unknown"}
}

func viewJ(dt orda.Datatype) interface{} {
	b, err := json.Marshal(dt.ToJSON())
	if err != nil {
		return "marshal-error"
	}
	var v interface{}
	_ = json.Unmarshal(b, &v)
	return v
}

func (r *rep) sizeJ() interface{} {
	switch d := r.dt.(type) {
	case orda.Map:
		return d.Size()
	case orda.List:
		return d.Size()
	}
	return nil
}

func (r *rep) opid() interface{} {
	meta, _, err := r.wired.GetMetaAndSnapshot()
	if err != nil {
		return nil
	}
	var m model.DatatypeMeta
	_ = json.Unmarshal(meta, &m)
	return opidJ(m.OpID)
}

// post: summary of the replica after a step, with the operations emitted since the last summary.
func (r *rep) post(o J) {
	buf := r.buffer()
	em := make([]interface{}, 0)
	for i := r.emitCur; i < len(buf); i++ {
		em = append(em, opJ(buf[i]))
	}
	r.emitCur = len(buf)
	o["view"] = viewJ(r.dt)
	o["size"] = r.sizeJ()
	o["opid"] = r.opid()
	o["emitted"] = em
}

func (r *rep) dump() interface{} {
	_, snap, err := r.wired.GetMetaAndSnapshot()
	if err != nil {
		return nil
	}
	return canonState(r.typ, snap)
}

func errCode(err errors.OrdaError) uint32 {
	if err == nil {
		return 0
	}
	return uint32(err.GetCode())
}

// splitUnits groups a buffer suffix into push units (a transaction header announces its length).
func splitUnits(ops []*model.Operation) [][]*model.Operation {
	var out [][]*model.Operation
	for i := 0; i < len(ops); {
		n := 1
		if ops[i].OpType == model.TypeOfOperation_TRANSACTION {
			if tx, ok := operations.ModelToOperation(ops[i]).(*operations.TransactionOperation); ok {
				n = int(tx.GetNumOfOps())
			}
			if n < 1 {
				n = 1
			}
			if i+n > len(ops) {
				n = len(ops) - i
			}
		}
		out = append(out, ops[i:i+n])
		i += n
	}
	return out
}

func cloneOp(o *model.Operation) *model.Operation {
	id := *o.ID
	return &model.Operation{ID: &model.OperationID{Era: id.Era, Lamport: id.Lamport, CUID: id.CUID, Seq: id.Seq},
		OpType: o.OpType, Body: append([]byte(nil), o.Body...)}
}

func mutateUnit(mut string, u []*model.Operation) []*model.Operation {
	out := make([]*model.Operation, 0, len(u))
	for _, o := range u {
		out = append(out, cloneOp(o))
	}
	if mut == "truncate" {
		if len(out) > 0 {
			out = out[:len(out)-1]
		}
		return out
	}
	if len(out) == 0 || out[0].OpType != model.TypeOfOperation_TRANSACTION {
		return out
	}
	var b operations.TransactionBody
	_ = json.Unmarshal(out[0].Body, &b)
	switch mut {
	case "countplus":
		b.NumOfOps++
	case "countminus":
		b.NumOfOps--
	case "countzero":
		b.NumOfOps = 0
	case "countneg":
		b.NumOfOps = -1
	}
	out[0].Body, _ = json.Marshal(&b)
	return out
}
