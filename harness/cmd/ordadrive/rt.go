package main

// C18 (second clause): REAL realtime clients — the client library's own SyncManager (gRPC to the real
// OrdaService on 127.0.0.1), NotifyManager (MQTT to the broker stand-in) and DatatypeManager — issue
// local operations at arbitrary times from their own goroutines, with randomised notification
// delays, and NO Sync call after the first one.  The case passes when all clients reach the same state
// (equal to what the server stored) within the deadline.

import (
	"context"
	"fmt"
	"net"
	"sync"
	"time"

	"github.com/orda-io/orda/client/pkg/model"
	"github.com/orda-io/orda/client/pkg/orda"
	"google.golang.org/grpc"
)

type rtClient struct {
	c  orda.Client
	dt orda.Datatype
}

func rtOp(r *rng, typ string, dt orda.Datatype, who, k int) {
	defer func() { _ = recover() }()
	switch typ {
	case "counter":
		_, _ = dt.(orda.Counter).IncreaseBy(int32(1 + r.intn(9)))
	case "map":
		m := dt.(orda.Map)
		if r.intn(4) == 0 {
			_, _ = m.Remove(fmt.Sprintf("k%d", r.intn(3)))
		} else {
			_, _ = m.Put(fmt.Sprintf("k%d", r.intn(3)), fmt.Sprintf("c%d-%d", who, k))
		}
	case "list":
		l := dt.(orda.List)
		n := l.Size()
		switch {
		case n > 0 && r.intn(5) == 0:
			_, _ = l.Delete(r.intn(n))
		case n > 0 && r.intn(5) == 0:
			_, _ = l.Update(r.intn(n), fmt.Sprintf("u%d-%d", who, k))
		default:
			_, _ = l.InsertMany(r.intn(n+1), fmt.Sprintf("c%d-%d", who, k))
		}
	case "document":
		d := dt.(orda.Document)
		if r.intn(4) == 0 {
			_, _ = d.DeleteInObject(fmt.Sprintf("k%d", r.intn(3)))
		} else {
			_, _ = d.PutToObject(fmt.Sprintf("k%d", r.intn(3)), fmt.Sprintf("c%d-%d", who, k))
		}
	}
}

func runRtProfile(seed uint64, cases int, out func(cmd, obs J), stats string) {
	st := map[string]int{}
	r := &rng{s: seed*0x9e3779b97f4a7c15 + 777}
	for c := 0; c < cases; c++ {
		w := newSWorld()
		typ := []string{"counter", "map", "list", "document"}[r.intn(4)]
		n := 2 + r.intn(4)
		perClient := 1 + r.intn(6)
		delayMs := r.intn(6)
		respDelayMs := r.intn(7)
		cmd := J{"k": "rtcase", "id": c, "profile": "rt", "dt": typ, "n": n, "ops": perClient, "notifyDelayMs": delayMs, "respDelayMs": respDelayMs}
		obs := J{}
		hung := guarded(obs, func() {
			_, _, _ = w.stepMkCol("cola")
			lis, err := net.Listen("tcp", "127.0.0.1:0")
			if err != nil {
				obs["setup"] = err.Error()
				return
			}
			// responses travel for a while (0..respDelayMs): the window in which a delivery is in flight
			var dmu sync.Mutex
			dr := &rng{s: r.next()}
			gs := grpc.NewServer(grpc.UnaryInterceptor(func(ctx context.Context, req interface{}, info *grpc.UnaryServerInfo, h grpc.UnaryHandler) (interface{}, error) {
				resp, err := h(ctx, req)
				if respDelayMs > 0 {
					dmu.Lock()
					d := dr.intn(respDelayMs*1000 + 1)
					dmu.Unlock()
					time.Sleep(time.Duration(d) * time.Microsecond)
				}
				return resp, err
			}))
			model.RegisterOrdaServiceServer(gs, w.kit.Service)
			go func() { _ = gs.Serve(lis) }()
			defer gs.Stop()
			w.kit.MQTT.SetDelay(0)
			var cls []*rtClient
			defer func() {
				for _, rc := range cls {
					func() { defer func() { _ = recover() }(); _ = rc.c.Close() }()
				}
			}()
			for i := 0; i < n; i++ {
				conf := &orda.ClientConfig{ServerAddr: lis.Addr().String(), NotificationAddr: w.kit.MQTT.URL(),
					CollectionName: "cola", SyncType: model.SyncType_REALTIME}
				cl := orda.NewClient(conf, fmt.Sprintf("rt%d", i))
				if err := cl.Connect(); err != nil {
					obs["setup"] = "connect: " + err.Error()
					return
				}
				var dt orda.Datatype
				switch typ {
				case "counter":
					dt = cl.SubscribeOrCreateCounter("k", nil)
				case "map":
					dt = cl.SubscribeOrCreateMap("k", nil)
				case "list":
					dt = cl.SubscribeOrCreateList("k", nil)
				default:
					dt = cl.SubscribeOrCreateDocument("k", nil)
				}
				cls = append(cls, &rtClient{cl, dt})
				// the first sync (the only explicit one): until the datatype is subscribed
				for t := 0; t < 50 && dt.GetState() != model.StateOfDatatype_SUBSCRIBED; t++ {
					_ = cl.Sync()
					time.Sleep(time.Millisecond)
				}
				if dt.GetState() != model.StateOfDatatype_SUBSCRIBED {
					obs["setup"] = "not subscribed"
					return
				}
			}
			// everybody has the same starting point
			for _, rc := range cls {
				_ = rc.c.Sync()
			}
			time.Sleep(5 * time.Millisecond)
			w.kit.MQTT.SetDelay(time.Duration(delayMs) * time.Millisecond)
			seeds := make([]uint64, n)
			for i := range seeds {
				seeds[i] = r.next()
			}
			var wg sync.WaitGroup
			for i, rc := range cls {
				wg.Add(1)
				go func(i int, rc *rtClient) {
					defer wg.Done()
					lr := &rng{s: seeds[i]}
					for k := 0; k < perClient; k++ {
						time.Sleep(time.Duration(lr.intn(3000)) * time.Microsecond)
						rtOp(lr, typ, rc.dt, i, k)
					}
				}(i, rc)
			}
			wg.Wait()
			// no Sync call from here on: wait for the clients to converge by themselves
			deadline := time.Now().Add(2500 * time.Millisecond)
			same := func() (bool, []interface{}) {
				views := make([]interface{}, 0, n)
				ok := true
				for _, rc := range cls {
					v := viewJ(rc.dt)
					views = append(views, v)
					if canonS(v) != canonS(views[0]) {
						ok = false
					}
					if rc.dt.(interface{ NeedPush() bool }).NeedPush() {
						ok = false
					}
				}
				return ok, views
			}
			t0 := time.Now()
			var views []interface{}
			ok := false
			stable := 0
			for time.Now().Before(deadline) {
				ok, views = same()
				if ok {
					stable++
					if stable >= 3 {
						break
					}
				} else {
					stable = 0
				}
				time.Sleep(10 * time.Millisecond)
			}
			obs["converged"] = ok
			obs["views"] = views
			obs["waitedMs"] = time.Since(t0).Milliseconds()
			pend := make([]interface{}, 0, n)
			for _, rc := range cls {
				pk := rc.dt.(interface{ CreatePushPullPack() *model.PushPullPack }).CreatePushPullPack()
				pend = append(pend, J{"cp": []interface{}{pk.CheckPoint.Sseq, pk.CheckPoint.Cseq - uint64(len(pk.Operations))}, "npending": len(pk.Operations)})
			}
			obs["clients"] = pend
			w.kit.MQTT.SetDelay(0)
			time.Sleep(5 * time.Millisecond)
			w.waitBackground()
			obs["store"] = w.storeJ()
		})
		_ = hung
		out(cmd, obs)
		st["rtcase"]++
		st["dt:"+typ]++
		st[fmt.Sprintf("clients:%d", n)]++
		if obs["converged"] == true {
			st["converged"]++
		}
	}
	writeStats(stats, st)
}
