package main

// C18 (second clause): REAL realtime clients — the client library's own SyncManager (gRPC to the real
// OrdaService on 127.0.0.1), NotifyManager (MQTT to the broker stand-in) and DatatypeManager — issue
// local operations at arbitrary times from their own goroutines, with randomised notification
// delays, and NO Sync call after the first one.  The case passes when all clients reach the same state
// (equal to what the server stored) within the deadline.

import (
	"context"
	"fmt"
	"net"
	"sync"
	"sync/atomic"
	"time"

	"github.com/orda-io/orda/client/pkg/model"
	"github.com/orda-io/orda/client/pkg/orda"
	"google.golang.org/grpc"
)

type rtClient struct {
	c  orda.Client
	dt orda.Datatype
}

func rtOp(r *rng, typ string, dt orda.Datatype, who, k int) {
	defer func() { _ = recover() }()
	switch typ {
	case "counter":
		_, _ = dt.(orda.Counter).IncreaseBy(int32(1 + r.intn(9)))
	case "map":
		m := dt.(orda.Map)
		if r.intn(4) == 0 {
			_, _ = m.Remove(fmt.Sprintf("k%d", r.intn(3)))
		} else {
			_, _ = m.Put(fmt.Sprintf("k%d", r.intn(3)), fmt.Sprintf("c%d-%d", who, k))
		}
	case "list":
		l := dt.(orda.List)
		n := l.Size()
		switch {
		case n > 0 && r.intn(5) == 0:
			_, _ = l.Delete(r.intn(n))
		case n > 0 && r.intn(5) == 0:
			_, _ = l.Update(r.intn(n), fmt.Sprintf("u%d-%d", who, k))
		default:
			_, _ = l.InsertMany(r.intn(n+1), fmt.Sprintf("c%d-%d", who, k))
		}
	case "document":
		d := dt.(orda.Document)
		if r.intn(4) == 0 {
			_, _ = d.DeleteInObject(fmt.Sprintf("k%d", r.intn(3)))
		} else {
			_, _ = d.PutToObject(fmt.Sprintf("k%d", r.intn(3)), fmt.Sprintf("c%d-%d", who, k))
		}
	}
}

// rtOpSure: a local operation that always produces an operation
func rtOpSure(typ string, dt orda.Datatype, who, k int) {
	defer func() { _ = recover() }()
	switch typ {
	case "counter":
		_, _ = dt.(orda.Counter).IncreaseBy(int32(1 + k%7))
	case "map":
		_, _ = dt.(orda.Map).Put(fmt.Sprintf("h%d", k%2), fmt.Sprintf("c%d-%d", who, k))
	case "list":
		_, _ = dt.(orda.List).InsertMany(0, fmt.Sprintf("c%d-%d", who, k))
	case "document":
		_, _ = dt.(orda.Document).PutToObject(fmt.Sprintf("h%d", k%2), fmt.Sprintf("c%d-%d", who, k))
	}
}

func runRtProfile(seed uint64, cases int, out func(cmd, obs J), stats string) {
	st := map[string]int{}
	r := &rng{s: seed*0x9e3779b97f4a7c15 + 777}
	for c := 0; c < cases; c++ {
		w := newSWorld()
		typ := []string{"counter", "map", "list", "document"}[r.intn(4)]
		n := 2 + r.intn(4)
		perClient := 1 + r.intn(6)
		delayMs := r.intn(6)
		respDelayMs := r.intn(7)
		// hand-over: a local operation issued exactly when the running delivery has just decided that nothing is left to push
		handover := r.intn(2) == 0
		cmd := J{"k": "rtcase", "id": c, "profile": "rt", "dt": typ, "n": n, "ops": perClient, "notifyDelayMs": delayMs, "respDelayMs": respDelayMs, "handover": handover}
		obs := J{}
		hung := guardedFor(obs, 40*time.Second, func() {
			_, _, _ = w.stepMkCol("cola")
			lis, err := net.Listen("tcp", "127.0.0.1:0")
			if err != nil {
				obs["setup"] = err.Error()
				return
			}
			// responses travel for a while (0..respDelayMs): the window in which a delivery is in flight
			var dmu sync.Mutex
			dr := &rng{s: r.next()}
			gs := grpc.NewServer(grpc.UnaryInterceptor(func(ctx context.Context, req interface{}, info *grpc.UnaryServerInfo, h grpc.UnaryHandler) (interface{}, error) {
				resp, err := h(ctx, req)
				if respDelayMs > 0 {
					dmu.Lock()
					d := dr.intn(respDelayMs*1000 + 1)
					dmu.Unlock()
					time.Sleep(time.Duration(d) * time.Microsecond)
				}
				return resp, err
			}))
			model.RegisterOrdaServiceServer(gs, w.kit.Service)
			go func() { _ = gs.Serve(lis) }()
			defer gs.Stop()
			w.kit.MQTT.SetDelay(0)
			var cls []*rtClient
			defer func() {
				for _, rc := range cls {
					func() { defer func() { _ = recover() }(); _ = rc.c.Close() }()
				}
			}()
			for i := 0; i < n; i++ {
				conf := &orda.ClientConfig{ServerAddr: lis.Addr().String(), NotificationAddr: w.kit.MQTT.URL(),
					CollectionName: "cola", SyncType: model.SyncType_REALTIME}
				cl := orda.NewClient(conf, fmt.Sprintf("rt%d", i))
				if err := cl.Connect(); err != nil {
					obs["setup"] = "connect: " + err.Error()
					return
				}
				var dt orda.Datatype
				switch typ {
				case "counter":
					dt = cl.SubscribeOrCreateCounter("k", nil)
				case "map":
					dt = cl.SubscribeOrCreateMap("k", nil)
				case "list":
					dt = cl.SubscribeOrCreateList("k", nil)
				default:
					dt = cl.SubscribeOrCreateDocument("k", nil)
				}
				cls = append(cls, &rtClient{cl, dt})
				// the first sync (the only explicit one): until the datatype is subscribed
				for t := 0; t < 50 && dt.GetState() != model.StateOfDatatype_SUBSCRIBED; t++ {
					_ = cl.Sync()
					time.Sleep(time.Millisecond)
				}
				if dt.GetState() != model.StateOfDatatype_SUBSCRIBED {
					obs["setup"] = "not subscribed"
					return
				}
			}
			// everybody has the same starting point
			for _, rc := range cls {
				_ = rc.c.Sync()
			}
			time.Sleep(5 * time.Millisecond)
			w.kit.MQTT.SetDelay(time.Duration(delayMs) * time.Millisecond)
			seeds := make([]uint64, n)
			for i := range seeds {
				seeds[i] = r.next()
			}
			var wg sync.WaitGroup
			for i, rc := range cls {
				wg.Add(1)
				go func(i int, rc *rtClient) {
					defer wg.Done()
					lr := &rng{s: seeds[i]}
					for k := 0; k < perClient; k++ {
						time.Sleep(time.Duration(lr.intn(3000)) * time.Microsecond)
						rtOp(lr, typ, rc.dt, i, k)
					}
				}(i, rc)
			}
			wg.Wait()
			// no Sync call from here on: wait for the clients to converge by themselves
			// The library's reads (ToJSON, Get, Size) take no lock: a view must not be read while a response is being applied
			// (Go aborts the process on a map read during a map write).  Views are therefore read only when every client stands at
			// the end of the stored log with nothing to push and no delivery has completed in between (forced reads the report at the deadline).
			logEnd := func() uint64 {
				var end uint64
				if dts, ok := w.storeJ()["datatypes"].([]interface{}); ok && len(dts) > 0 {
					if dj, ok := dts[0].(J); ok {
						end = toU64(dj["end"])
					}
				}
				return end
			}
			settled := func() bool {
				end := logEnd()
				for _, rc := range cls {
					if rc.dt.(interface{ NeedPush() bool }).NeedPush() {
						return false
					}
					pk := rc.dt.(interface{ CreatePushPullPack() *model.PushPullPack }).CreatePushPullPack()
					if len(pk.Operations) > 0 || pk.CheckPoint.Sseq != end {
						return false
					}
				}
				return true
			}
			same := func(force bool) (bool, []interface{}) {
				if !force {
					h0 := atomic.LoadInt64(&hSpawned)
					if !settled() {
						return false, nil
					}
					time.Sleep(3 * time.Millisecond)
					if !settled() || atomic.LoadInt64(&hSpawned) != h0 || atomic.LoadInt64(&hDone) != h0 {
						return false, nil
					}
				}
				views := make([]interface{}, 0, n)
				ok := true
				for _, rc := range cls {
					v := viewJ(rc.dt)
					views = append(views, v)
					if canonS(v) != canonS(views[0]) {
						ok = false
					}
					if rc.dt.(interface{ NeedPush() bool }).NeedPush() {
						ok = false
					}
				}
				return ok, views
			}
			t0 := time.Now()
			var views []interface{}
			ok := false
			// the clients' visible progress: end of the stored log and every client's checkpoint and pending count
			progress := func() string {
				sig := fmt.Sprint(logEnd())
				for _, rc := range cls {
					pk := rc.dt.(interface{ CreatePushPullPack() *model.PushPullPack }).CreatePushPullPack()
					sig += fmt.Sprintf("|%d,%d,%d", pk.CheckPoint.Sseq, pk.CheckPoint.Cseq, len(pk.Operations))
				}
				return sig
			}
			// waits until the clients have converged, or NOTHING has moved for `limit` (a slow machine is not a stranded operation), at most 12 s
			waitConv := func(limit time.Duration) {
				hard := time.Now().Add(12 * time.Second)
				deadline := time.Now().Add(limit)
				last := progress()
				stable := 0
				for time.Now().Before(deadline) && time.Now().Before(hard) {
					if cur := progress(); cur != last {
						last = cur
						deadline = time.Now().Add(limit)
					}
					ok, views = same(false)
					if ok {
						stable++
						if stable >= 3 {
							break
						}
					} else {
						stable = 0
					}
					time.Sleep(10 * time.Millisecond)
				}
				if !ok {
					time.Sleep(20 * time.Millisecond)
					ok, views = same(true) // for the report
					ok = false
				}
			}
			waitConv(2500 * time.Millisecond)
			if handover && ok {
				parked := make(chan struct{}, 1)
				release := make(chan struct{})
				var once int32
				npParkFn.Store(func() chan struct{} {
					if atomic.CompareAndSwapInt32(&once, 0, 1) {
						parked <- struct{}{}
						return release
					}
					return nil
				})
				who := r.intn(n)
				rtOpSure(typ, cls[who].dt, who, 100)
				got := false
				select {
				case <-parked:
					got = true
				case <-time.After(1500 * time.Millisecond):
				}
				if got {
					// the delivery of the first operation stands right behind its "anything left?" reading: the next operation
					rtOpSure(typ, cls[who].dt, who, 101)
					time.Sleep(time.Duration(respDelayMs+40) * time.Millisecond)
				}
				npParkFn.Store((func() chan struct{})(nil))
				close(release)
				obs["handoverParked"] = got
				waitConv(2500 * time.Millisecond)
			}
			obs["converged"] = ok
			obs["views"] = views
			obs["waitedMs"] = time.Since(t0).Milliseconds()
			pend := make([]interface{}, 0, n)
			for _, rc := range cls {
				pk := rc.dt.(interface{ CreatePushPullPack() *model.PushPullPack }).CreatePushPullPack()
				pend = append(pend, J{"cp": []interface{}{pk.CheckPoint.Sseq, pk.CheckPoint.Cseq - uint64(len(pk.Operations))}, "npending": len(pk.Operations)})
			}
			obs["clients"] = pend
			w.kit.MQTT.SetDelay(0)
			time.Sleep(5 * time.Millisecond)
			w.waitBackground()
			obs["store"] = w.storeJ()
		})
		_ = hung
		out(cmd, obs)
		st["rtcase"]++
		st["dt:"+typ]++
		st[fmt.Sprintf("clients:%d", n)]++
		if obs["converged"] == true {
			st["converged"]++
		}
		if handover {
			st["handover"]++
		}
		if obs["handoverParked"] == true {
			st["handover-parked"]++
		}
	}
	writeStats(stats, st)
}

func toU64(v interface{}) uint64 {
	switch x := v.(type) {
	case int64:
		return uint64(x)
	case int:
		return uint64(x)
	case uint64:
		return x
	case float64:
		return uint64(x)
	case int32:
		return uint64(x)
	case uint32:
		return uint64(x)
	}
	return 0
}
