package main

import (
	"bufio"
	"encoding/json"
	"flag"
	"fmt"
	"os"
	"sort"
)

func main() {
	prof := flag.String("profile", "conv", "generator profile")
	seed := flag.Uint64("seed", 1, "PRNG seed")
	cases := flag.Int("cases", 100, "number of histories")
	steps := flag.Int("steps", 0, "override steps per history")
	dts := flag.String("dt", "", "restrict to one datatype")
	outPath := flag.String("out", "", "trace output (JSON lines: command fields + obs)")
	statsPath := flag.String("stats", "", "generator distribution output (JSON)")
	from := flag.Int("from", 0, "first case index to run (service-level slices restart after a crash)")
	appendOut := flag.Bool("append", false, "append to the trace instead of truncating it")
	replay := flag.String("replay", "", "re-execute the commands of a trace file on the implementation")
	flag.Parse()
	realStderr := os.Stderr
	quiet()

	var f *os.File = os.Stdout
	if *outPath != "" {
		var err error
		if *appendOut {
			f, err = os.OpenFile(*outPath, os.O_APPEND|os.O_WRONLY|os.O_CREATE, 0644)
		} else {
			f, err = os.Create(*outPath)
		}
		if err != nil {
			fmt.Fprintln(realStderr, err)
			os.Exit(2)
		}
		defer f.Close()
	}
	bw := bufio.NewWriterSize(f, 1<<20)
	defer bw.Flush()
	out := func(cmd, obs J) {
		line := J{}
		for k, v := range cmd {
			line[k] = v
		}
		line["obs"] = obs
		b, err := json.Marshal(line)
		if err != nil {
			b, _ = json.Marshal(J{"k": "bad", "obs": J{"marshal": err.Error()}})
		}
		bw.Write(b)
		bw.WriteByte('\n')
		bw.Flush()
	}
	if *replay != "" {
		replayTrace(*replay, out)
		return
	}
	p, ok := profiles[*prof]
	if !ok {
		if *prof == "dbfault" || *prof == "dbfaultall" {
			runDbFault(*seed, *cases, *from, out, *statsPath, *prof == "dbfaultall")
			return
		}
		if runService(*prof, *seed, *cases, *from, out, *statsPath) {
			return
		}
		if runSpecial(*prof, *seed, *cases, *from, out, *statsPath) {
			return
		}
		fmt.Fprintln(realStderr, "unknown profile", *prof)
		os.Exit(2)
	}
	if *steps > 0 {
		p.steps = *steps
	}
	if *dts != "" {
		p.dts = []string{*dts}
	}
	g := &gen{r: &rng{s: *seed*0x9e3779b97f4a7c15 + 12345}, p: p, out: out, stats: map[string]int{}}
	for c := 0; c < *cases; c++ {
		if !g.runCase(c) {
			g.stats["cut-short"]++
		}
	}
	writeStats(*statsPath, g.stats)
}

func writeStats(path string, stats map[string]int) {
	if path == "" {
		return
	}
	keys := make([]string, 0, len(stats))
	for k := range stats {
		keys = append(keys, k)
	}
	sort.Strings(keys)
	o := J{}
	for _, k := range keys {
		o[k] = stats[k]
	}
	b, _ := json.MarshalIndent(o, "", " ")
	_ = os.WriteFile(path, b, 0644)
}
