package main

import (
	"encoding/json"
	"regexp"
	"strings"

	"github.com/orda-io/orda/client/pkg/orda"
	"github.com/wI2L/jsondiff"
)

var patchTagRe = regexp.MustCompile(`^(\d+ patches)-.*$`)

// canonTag erases the hash suffix of the tag of a patch transaction ("3 patches-<hash>")
func canonTag(tag string) string {
	if m := patchTagRe.FindStringSubmatch(tag); m != nil {
		return m[1]
	}
	return tag
}

var unescaper = strings.NewReplacer("~1", "/", "~0", "~")

func patchesJ(ps []jsondiff.Operation) interface{} {
	out := make([]interface{}, 0, len(ps))
	for _, p := range ps {
		segs := make([]interface{}, 0)
		ptr := p.Path.String()
		if ptr != "" {
			for _, s := range strings.Split(ptr, "/")[1:] {
				segs = append(segs, unescaper.Replace(s))
			}
		}
		o := J{"op": p.Type, "path": segs}
		if p.Type != jsondiff.OperationRemove {
			o["value"] = p.Value
		}
		out = append(out, o)
	}
	return out
}

func (w *world) stepPatchJSON(i int, target interface{}) (J, J, bool) {
	cmd := J{"k": "pjson", "r": i, "json": target}
	obs := J{}
	r := w.reps[i]
	hung := guarded(obs, func() {
		b, _ := json.Marshal(target)
		ps, err := r.dt.(orda.Document).PatchByJSON(string(b))
		obs["patch"] = patchesJ(ps)
		obs["err"] = errCode(err)
	})
	if _, ok := obs["err"]; !ok {
		obs["err"] = 0
	}
	if !hung {
		guarded(obs, func() { r.post(obs) })
	}
	return cmd, obs, hung
}

func stepJDiff(src, tgt interface{}) (J, J) {
	obs := J{}
	guarded(obs, func() {
		a, _ := json.Marshal(src)
		b, _ := json.Marshal(tgt)
		ps, err := jsondiff.CompareJSON(a, b)
		if err != nil {
			obs["err"] = err.Error()
			return
		}
		obs["patch"] = patchesJ(ps)
	})
	return J{"k": "jdiff", "src": src, "tgt": tgt}, obs
}

var patchKeys = []string{"a", "b", "c", "a/b", "m~n", "x y", "0", "a~1b", "~01", "~10", "~", "/", "~0~1", "", "-", "a", "b", "", "01", "1"}

// randObj: a random JSON object without nulls (nested objects/arrays of primitives)
func (g *gen) randObj(depth int) J {
	n := g.r.intn(4)
	o := J{}
	for i := 0; i < n; i++ {
		o[g.r.pick(patchKeys)] = g.randVal(depth + 1)
	}
	return o
}

func (g *gen) randVal(depth int) interface{} {
	switch k := g.r.intn(10); {
	case k < 3:
		g.tag++
		return "s" + string(rune('a'+g.tag%26))
	case k < 5:
		return float64(g.r.intn(50))
	case k < 6:
		return g.r.intn(2) == 0
	case k < 8 && depth < 3:
		return g.randObj(depth)
	case depth < 3:
		n := g.r.intn(4)
		a := make([]interface{}, 0, n)
		for i := 0; i < n; i++ {
			a = append(a, g.randVal(depth+1))
		}
		return a
	}
	return float64(g.r.intn(5))
}

// mutateVal: a target close to the current value (so that paths go deep and arrays grow/shrink)
func (g *gen) mutateVal(v interface{}, depth int) interface{} {
	switch x := v.(type) {
	case map[string]interface{}:
		o := J{}
		for k, c := range x {
			switch g.r.intn(6) {
			case 0: // drop
			case 1:
				o[k] = g.randVal(depth + 1)
			default:
				o[k] = g.mutateVal(c, depth+1)
			}
		}
		if g.r.intn(3) == 0 {
			o[g.r.pick(patchKeys)] = g.randVal(depth + 1)
		}
		return o
	case []interface{}:
		if len(x) >= 2 && g.r.intn(4) == 0 {
			// the same elements in another order (rotation or one swap): a target that differs from the source by ORDER only
			a := append([]interface{}{}, x...)
			if g.r.intn(2) == 0 {
				a = append(a[1:], a[0])
			} else {
				i, j := g.r.intn(len(a)), g.r.intn(len(a))
				a[i], a[j] = a[j], a[i]
			}
			return a
		}
		a := make([]interface{}, 0, len(x)+1)
		for _, c := range x {
			switch g.r.intn(7) {
			case 0:
			case 1:
				a = append(a, g.randVal(depth+1))
			default:
				a = append(a, g.mutateVal(c, depth+1))
			}
		}
		for g.r.intn(3) == 0 {
			a = append(a, g.randVal(depth+1))
		}
		return a
	}
	if g.r.intn(4) == 0 {
		return g.randVal(depth)
	}
	return v
}

func runPatchProfile(seed uint64, cases int, out func(cmd, obs J), statsPath string) {
	r := &rng{s: seed*0x9e3779b97f4a7c15 + 999}
	stats := map[string]int{}
	g := &gen{r: r, p: profile{name: "patch", malformed: 0.02, bigBatch: 0.02, readsShare: 0.0}, out: out, stats: stats, twin: map[int]int{}}
	for c := 0; c < cases; c++ {
		// (a) the model of the external library against the library on random tree pairs
		for q := 0; q < 6; q++ {
			src := g.randObj(0)
			var tgt interface{} = g.mutateVal(map[string]interface{}(src), 0)
			if g.r.intn(4) == 0 {
				tgt = g.randObj(0)
			}
			cmd, obs := stepJDiff(src, tgt)
			out(cmd, obs)
			stats["jdiff"]++
		}
		// (b) PatchByJSON on documents reached by multi-replica histories
		n := 2 + g.r.intn(2)
		g.w = &world{}
		cuids := make([]interface{}, 0, n)
		for i := 0; i < n; i++ {
			rp := newRep("document", i == 0, i)
			g.w.reps = append(g.w.reps, rp)
			cuids = append(cuids, rp.cuid)
		}
		init := make([]interface{}, 0, n)
		for _, rp := range g.w.reps {
			o := J{}
			rp.post(o)
			init = append(init, o)
		}
		out(J{"k": "case", "id": c, "dt": "document", "n": n, "cuids": cuids, "profile": "patch"}, J{"init": init})
		stats["case:document"]++
		ok := !g.emit(g.w.stepPub(0))
		for j := 1; j < n && ok; j++ {
			ok = !g.emit(g.w.stepDlv(j, 1, ""))
		}
		for s := 0; s < 22 && ok; s++ {
			i := g.r.intn(n)
			var hung bool
			switch x := g.r.intn(10); {
			case x < 4:
				var cur interface{}
				func() {
					defer func() { _ = recover() }()
					cur = viewJ(g.w.reps[i].dt)
				}()
				var tgt interface{}
				if m, isObj := cur.(map[string]interface{}); isObj && g.r.intn(4) != 0 {
					tgt = g.mutateVal(m, 0)
				} else {
					tgt = g.randObj(0)
				}
				hung = g.emit(g.w.stepPatchJSON(i, tgt))
				stats["pjson"]++
			case x < 6:
				m, a := g.genCall(i, false)
				hung = g.emit(g.w.stepCall(i, m, a))
			case x < 8:
				hung = g.emit(g.w.stepPub(i))
			default:
				hung = g.emit(g.w.stepDlv(i, 1+g.r.intn(3), ""))
			}
			ok = !hung
			if ok {
				ok = !g.emit(g.w.stepObs(i))
			}
		}
		for i := 0; i < n && ok; i++ {
			ok = !g.emit(g.w.stepPub(i))
		}
		for i := 0; i < n && ok; i++ {
			ok = !g.emit(g.w.stepDlv(i, 1000000, ""))
		}
		for i := 0; i < n && ok; i++ {
			ok = !g.emit(g.w.stepObs(i))
		}
		out(J{"k": "end", "id": c, "quiescent": ok}, J{})
	}
	writeStats(statsPath, stats)
}
