//go:build verif

package main

// C20: several goroutines use one client datatype.  (1) the witness schedule of the flag/mutex
// protocol of transaction.go is FORCED through the verif schedule points; (2) stress runs with
// randomized yields at the same points look for lost updates, sequence gaps, panics and deadlocks.

import (
	"fmt"
	"runtime"
	"sort"
	"strings"
	"sync"
	"sync/atomic"
	"time"

	"github.com/orda-io/orda/client/pkg/iface"
	"github.com/orda-io/orda/client/pkg/model"
	"github.com/orda-io/orda/client/pkg/orda"
	"github.com/orda-io/orda/client/pkg/verifhook"
)

type goid struct {
	mu sync.Mutex
	of map[uint64]int
}

func curG() uint64 {
	var buf [64]byte
	n := runtime.Stack(buf[:], false)
	var id uint64
	for _, c := range buf[len("goroutine "):n] {
		if c < '0' || c > '9' {
			break
		}
		id = id*10 + uint64(c-'0')
	}
	return id
}

// forcedWitness: G1 pauses right after releasing the mutex in unlock(); G2 issues a whole call; G1 resumes.
func forcedWitness(point string) J {
	obs := J{}
	c := orda.NewClient(orda.NewLocalClientConfig("col"), "w")
	ctr := c.CreateCounter("k", nil)
	var g1 uint64
	atPoint := make(chan struct{})
	resume := make(chan struct{})
	var once sync.Once
	verifhook.SetHook(func(p string) {
		if p == point && curG() == g1 {
			once.Do(func() {
				close(atPoint)
				select {
				case <-resume:
				case <-time.After(3 * time.Second):
				}
			})
		}
	})
	defer verifhook.SetHook(nil)
	res := make(chan string, 2)
	run := func(name string, setG bool, wait <-chan struct{}) {
		go func() {
			defer func() {
				if r := recover(); r != nil {
					res <- name + ":panic:" + fmt.Sprint(r)
					return
				}
				res <- name + ":ok"
			}()
			if setG {
				g1 = curG()
			}
			if wait != nil {
				<-wait
			}
			_, _ = ctr.Increase()
		}()
	}
	run("g1", true, nil)
	select {
	case <-atPoint:
	case <-time.After(2 * time.Second):
		obs["pointNotReached"] = true
	}
	run("g2", false, nil)
	outcomes := []interface{}{}
	deadline := time.After(3 * time.Second)
	gotG2 := false
	for !gotG2 {
		select {
		case r := <-res:
			outcomes = append(outcomes, r)
			if len(r) > 2 && r[:2] == "g2" {
				gotG2 = true
			}
		case <-deadline:
			outcomes = append(outcomes, "g2:blocked")
			gotG2 = true
		}
	}
	close(resume)
	select {
	case r := <-res:
		outcomes = append(outcomes, r)
	case <-time.After(3 * time.Second):
		outcomes = append(outcomes, "g1:deadlock")
	}
	// a blocked g2 must finish once g1 has released everything
	for len(outcomes) < 2 || fmt.Sprint(outcomes[len(outcomes)-1]) == "g2:blocked" {
		select {
		case r := <-res:
			outcomes = append(outcomes, r)
		case <-time.After(3 * time.Second):
			outcomes = append(outcomes, "deadlock")
			goto done
		}
	}
done:
	obs["outcomes"] = outcomes
	func() {
		defer func() {
			if r := recover(); r != nil {
				obs["readPanic"] = fmt.Sprint(r)
			}
		}()
		obs["value"] = ctr.Get()
		seqs := []interface{}{}
		for _, op := range ctr.(iface.Datatype).CreatePushPullPack().Operations {
			seqs = append(seqs, op.ID.Seq)
		}
		obs["seqs"] = seqs
	}()
	return obs
}

// staleValidation: the insert position is validated before the datatype's mutex is taken.  G2 validates
// InsertMany(1, x) against size 1 and pauses before locking; G1 deletes the only element; G2 resumes.
// One-at-a-time semantics allow: x inserted at a valid position, or an error — not a panic.
func staleValidation() J {
	obs := J{}
	c := orda.NewClient(orda.NewLocalClientConfig("col"), "v")
	li := c.CreateList("k", nil)
	_, _ = li.InsertMany(0, "a")
	var g2 uint64
	atPoint := make(chan struct{})
	resume := make(chan struct{})
	var once sync.Once
	verifhook.SetHook(func(p string) {
		if p == "tx.begin.beforeLock" && curG() == atomic.LoadUint64(&g2) {
			once.Do(func() {
				close(atPoint)
				select {
				case <-resume:
				case <-time.After(3 * time.Second):
				}
			})
		}
	})
	defer verifhook.SetHook(nil)
	res := make(chan string, 2)
	go func() {
		defer func() {
			if r := recover(); r != nil {
				res <- "g2:panic:" + fmt.Sprint(r)
			}
		}()
		atomic.StoreUint64(&g2, curG())
		_, err := li.InsertMany(1, "x")
		if err != nil {
			res <- "g2:err"
		} else {
			res <- "g2:ok"
		}
	}()
	select {
	case <-atPoint:
	case <-time.After(2 * time.Second):
		obs["pointNotReached"] = true
	}
	func() {
		defer func() {
			if r := recover(); r != nil {
				obs["g1panic"] = fmt.Sprint(r)
			}
		}()
		_, _ = li.Delete(0)
	}()
	close(resume)
	select {
	case r := <-res:
		obs["g2"] = r
	case <-time.After(3 * time.Second):
		obs["g2"] = "g2:deadlock"
	}
	func() {
		defer func() { _ = recover() }()
		obs["view"] = viewJ(li)
	}()
	return obs
}

// staleValidationOp: the family of the witness above.  A list (or a document array) holds [a b c d e]; G2 issues an operation on its
// tail (valid when called), passes the validation that runs BEFORE the datatype's mutex is taken and pauses before locking; G1
// shrinks the container to [a b]; G2 resumes.  One-at-a-time semantics: G2's call behaves as if made after the shrink — an error (or
// a legal effect), never a panic; and every issued operation is queued once, in identifier order.
func staleValidationOp(kind string) J {
	obs := J{}
	c := orda.NewClient(orda.NewLocalClientConfig("col"), "v")
	var li orda.List
	var arr orda.Document
	var dt orda.Datatype
	if strings.HasPrefix(kind, "list.") {
		li = c.CreateList("k", nil)
		_, _ = li.InsertMany(0, "a", "b", "c", "d", "e")
		dt = li
	} else {
		doc := c.CreateDocument("k", nil)
		_, _ = doc.PutToObject("arr", []interface{}{"a", "b", "c", "d", "e"})
		arr, _ = doc.GetFromObject("arr")
		dt = doc
		if arr == nil {
			obs["setup"] = "no array"
			return obs
		}
	}
	var g2 uint64
	atPoint := make(chan struct{})
	resume := make(chan struct{})
	var once sync.Once
	verifhook.SetHook(func(p string) {
		if p == "tx.begin.beforeLock" && curG() == atomic.LoadUint64(&g2) {
			once.Do(func() {
				close(atPoint)
				select {
				case <-resume:
				case <-time.After(3 * time.Second):
				}
			})
		}
	})
	defer verifhook.SetHook(nil)
	res := make(chan string, 2)
	go func() {
		defer func() {
			if r := recover(); r != nil {
				res <- "g2:panic:" + fmt.Sprint(r)
			}
		}()
		atomic.StoreUint64(&g2, curG())
		var err error
		switch kind {
		case "list.update":
			_, e := li.Update(3, "x", "y")
			if e != nil {
				err = e
			}
		case "list.delete":
			_, e := li.DeleteMany(3, 2)
			if e != nil {
				err = e
			}
		case "list.insert":
			_, e := li.InsertMany(5, "x")
			if e != nil {
				err = e
			}
		case "doc.update":
			_, e := arr.UpdateManyInArray(3, "x", "y")
			if e != nil {
				err = e
			}
		case "doc.delete":
			_, e := arr.DeleteManyInArray(3, 2)
			if e != nil {
				err = e
			}
		case "doc.insert":
			_, e := arr.InsertToArray(5, "x")
			if e != nil {
				err = e
			}
		}
		if err != nil {
			res <- "g2:err"
		} else {
			res <- "g2:ok"
		}
	}()
	select {
	case <-atPoint:
	case <-time.After(2 * time.Second):
		obs["pointNotReached"] = true
	}
	func() {
		defer func() {
			if r := recover(); r != nil {
				obs["g1panic"] = fmt.Sprint(r)
			}
		}()
		if li != nil {
			_, _ = li.DeleteMany(2, 3)
		} else {
			_, _ = arr.DeleteManyInArray(2, 3)
		}
	}()
	close(resume)
	select {
	case r := <-res:
		obs["g2"] = r
	case <-time.After(3 * time.Second):
		obs["g2"] = "g2:deadlock"
	}
	func() {
		defer func() { _ = recover() }()
		obs["view"] = viewJ(dt)
		// one more call must work, and the queued identifiers are 1,2,3,…
		if li != nil {
			_, e := li.InsertMany(0, "z")
			obs["after"] = e == nil
		} else {
			_, e := arr.InsertToArray(0, "z")
			obs["after"] = e == nil
		}
		pk := dt.(interface{ CreatePushPullPack() *model.PushPullPack }).CreatePushPullPack()
		seqs := make([]interface{}, 0)
		for _, o := range pk.Operations {
			seqs = append(seqs, o.ID.Seq)
		}
		obs["seqs"] = seqs
	}()
	return obs
}

// failingTxWithWaiter: G1 is inside a user transaction that will return an error; a second caller (a local call, or
// the delivery of a remote operation) reaches the datatype and waits for its mutex; then G1's transaction fails and is
// rolled back.  One-at-a-time semantics: the waiter's operation is applied, queued (local) and nothing of G1's stays.
func failingTxWithWaiter(remote bool) J {
	obs := J{}
	c := orda.NewClient(orda.NewLocalClientConfig("col"), "f")
	ctr := c.CreateCounter("k", nil)
	var remoteOps []*model.Operation
	if remote {
		pc := orda.NewClient(orda.NewLocalClientConfig("col"), "fp")
		peer := pc.SubscribeCounter("k", nil)
		_, _ = peer.IncreaseBy(7)
		remoteOps = peer.(iface.Datatype).CreatePushPullPack().Operations
	}
	var g2 uint64
	g2AtLock := make(chan struct{})
	var once sync.Once
	verifhook.SetHook(func(p string) {
		if p == "tx.begin.beforeLock" && curG() == atomic.LoadUint64(&g2) {
			once.Do(func() { close(g2AtLock) })
		}
	})
	defer verifhook.SetHook(nil)
	inside := make(chan struct{})
	release := make(chan struct{})
	res := make(chan string, 2)
	go func() {
		defer func() {
			if r := recover(); r != nil {
				res <- "g1:panic:" + fmt.Sprint(r)
			}
		}()
		err := ctr.Transaction("failing", func(cc orda.CounterInTx) error {
			_, _ = cc.IncreaseBy(10)
			close(inside)
			select {
			case <-release:
			case <-time.After(3 * time.Second):
			}
			return fmt.Errorf("user error")
		})
		if err != nil {
			res <- "g1:err"
		} else {
			res <- "g1:ok"
		}
	}()
	select {
	case <-inside:
	case <-time.After(2 * time.Second):
		obs["notInside"] = true
	}
	go func() {
		defer func() {
			if r := recover(); r != nil {
				res <- "g2:panic:" + fmt.Sprint(r)
			}
		}()
		atomic.StoreUint64(&g2, curG())
		if remote {
			_, err := ctr.(iface.Datatype).ReceiveRemoteModelOperations(remoteOps, false)
			if err != nil {
				res <- "g2:err"
				return
			}
		} else if _, err := ctr.Increase(); err != nil {
			res <- "g2:err"
			return
		}
		res <- "g2:ok"
	}()
	select {
	case <-g2AtLock:
	case <-time.After(2 * time.Second):
		obs["waiterNotAtLock"] = true
	}
	time.Sleep(30 * time.Millisecond) // the waiter is now blocked on the mutex (or about to be)
	close(release)
	outcomes := []interface{}{}
	for i := 0; i < 2; i++ {
		select {
		case r := <-res:
			outcomes = append(outcomes, r)
		case <-time.After(3 * time.Second):
			outcomes = append(outcomes, "deadlock")
		}
	}
	sort.Slice(outcomes, func(a, b int) bool { return fmt.Sprint(outcomes[a]) < fmt.Sprint(outcomes[b]) })
	obs["outcomes"] = outcomes
	func() {
		defer func() {
			if r := recover(); r != nil {
				obs["readPanic"] = fmt.Sprint(r)
			}
		}()
		obs["value"] = ctr.Get()
		seqs := []interface{}{}
		for _, op := range ctr.(iface.Datatype).CreatePushPullPack().Operations {
			seqs = append(seqs, op.ID.Seq)
		}
		obs["seqs"] = seqs
		// a further call must get the next identifier
		_, _ = ctr.Increase()
		obs["valueAfterOneMore"] = ctr.Get()
		obs["queuedAfterOneMore"] = len(ctr.(iface.Datatype).CreatePushPullPack().Operations)
	}()
	return obs
}

// stress: n goroutines issue calls and transactions on one datatype while another one applies remote
// operations; schedule points yield at random.
func stress(r *rng, typ string, ngo, nops int) J {
	obs := J{}
	c := orda.NewClient(orda.NewLocalClientConfig("col"), "s")
	var dt orda.Datatype
	switch typ {
	case "counter":
		dt = c.CreateCounter("k", nil)
	case "map":
		dt = c.CreateMap("k", nil)
	default:
		dt = c.CreateList("k", nil)
	}
	// a remote peer producing operations to apply concurrently
	peerC := orda.NewClient(orda.NewLocalClientConfig("col"), "p")
	var peer orda.Datatype
	switch typ {
	case "counter":
		peer = peerC.SubscribeCounter("k", nil)
	case "map":
		peer = peerC.SubscribeMap("k", nil)
	default:
		peer = peerC.SubscribeList("k", nil)
	}
	seed := r.next()
	var cnt uint64
	verifhook.SetHook(func(p string) {
		n := atomic.AddUint64(&cnt, 1)
		x := (seed + n*0x9e3779b97f4a7c15) >> 60
		if x < 6 {
			runtime.Gosched()
		} else if x < 8 {
			time.Sleep(time.Microsecond * 20)
		}
	})
	defer verifhook.SetHook(nil)
	var wg sync.WaitGroup
	var mu sync.Mutex
	okIncs, panics := 0, []interface{}{}
	okCalls := 0
	worker := func(g int) {
		defer wg.Done()
		for i := 0; i < nops; i++ {
			func() {
				defer func() {
					if rr := recover(); rr != nil {
						mu.Lock()
						panics = append(panics, fmt.Sprint(rr))
						mu.Unlock()
					}
				}()
				switch d := dt.(type) {
				case orda.Counter:
					if i%7 == 5 {
						// a failing transaction: rolled back, nothing of it may stay, nobody else's operation may be lost
						_ = d.Transaction("f", func(cc orda.CounterInTx) error {
							_, _ = cc.IncreaseBy(1000)
							return fmt.Errorf("user error")
						})
					} else if i%4 == 3 {
						err := d.Transaction("t", func(cc orda.CounterInTx) error {
							_, _ = cc.IncreaseBy(1)
							_, _ = cc.IncreaseBy(1)
							return nil
						})
						if err == nil {
							mu.Lock()
							okIncs += 2
							okCalls += 3
							mu.Unlock()
						}
					} else if _, err := d.Increase(); err == nil {
						mu.Lock()
						okIncs++
						okCalls++
						mu.Unlock()
					}
				case orda.Map:
					if _, err := d.Put(fmt.Sprintf("g%d", g), float64(i)); err == nil {
						mu.Lock()
						okCalls++
						mu.Unlock()
					}
				case orda.List:
					if _, err := d.InsertMany(0, fmt.Sprintf("g%d-%d", g, i)); err == nil {
						mu.Lock()
						okCalls++
						mu.Unlock()
					}
				}
			}()
		}
	}
	// remote operations from the peer
	var remote []*model.Operation
	switch p := peer.(type) {
	case orda.Counter:
		for i := 0; i < nops; i++ {
			_, _ = p.IncreaseBy(100)
		}
	case orda.Map:
		for i := 0; i < nops; i++ {
			_, _ = p.Put("peer", float64(i))
		}
	case orda.List:
		for i := 0; i < nops; i++ {
			_, _ = p.InsertMany(0, fmt.Sprintf("p-%d", i))
		}
	}
	remote = peer.(iface.Datatype).CreatePushPullPack().Operations
	wg.Add(ngo + 1)
	for g := 0; g < ngo; g++ {
		go worker(g)
	}
	go func() {
		defer wg.Done()
		defer func() {
			if rr := recover(); rr != nil {
				mu.Lock()
				panics = append(panics, "remote:"+fmt.Sprint(rr))
				mu.Unlock()
			}
		}()
		for _, op := range remote {
			_, _ = dt.(iface.Datatype).ReceiveRemoteModelOperations([]*model.Operation{cloneOp(op)}, false)
		}
	}()
	done := make(chan struct{})
	go func() { wg.Wait(); close(done) }()
	select {
	case <-done:
	case <-time.After(10 * time.Second):
		obs["deadlock"] = true
		return obs
	}
	obs["panics"] = panics
	seqs := []uint64{}
	for _, op := range dt.(iface.Datatype).CreatePushPullPack().Operations {
		seqs = append(seqs, op.ID.Seq)
	}
	gap := false
	for i, s := range seqs {
		if s != uint64(i+1) {
			gap = true
		}
	}
	obs["queued"] = len(seqs)
	obs["expectedQueued"] = okCalls + 1 // + the creation snapshot operation
	obs["seqGap"] = gap
	if d, ok := dt.(orda.Counter); ok {
		obs["value"] = d.Get()
		obs["expected"] = int32(okIncs + 100*nops)
	}
	return obs
}

func runConcProfile(seed uint64, cases int, out func(cmd, obs J), statsPath string) {
	r := &rng{s: seed*0x9e3779b97f4a7c15 + 2020}
	stats := map[string]int{}
	out(J{"k": "conccase", "id": 0, "n": 0}, J{})
	for _, pt := range []string{"tx.unlock.afterMutexUnlock", "tx.begin.beforeLock"} {
		out(J{"k": "intent", "of": "witness", "point": pt}, J{})
		out(J{"k": "witness", "point": pt}, forcedWitness(pt))
		stats["witness"]++
	}
	for _, remote := range []bool{false, true} {
		pt := "tx.failing-with-waiter.local"
		if remote {
			pt = "tx.failing-with-waiter.remote"
		}
		out(J{"k": "intent", "of": "witness", "point": pt}, J{})
		out(J{"k": "witness", "point": pt}, failingTxWithWaiter(remote))
		stats["witness"]++
	}
	out(J{"k": "intent", "of": "witness", "point": "list.stale-validation"}, J{})
	out(J{"k": "witness", "point": "list.stale-validation"}, staleValidation())
	for _, kind := range []string{"list.update", "list.delete", "list.insert", "doc.update", "doc.delete", "doc.insert"} {
		out(J{"k": "intent", "of": "witness", "point": "stale-validation." + kind}, J{})
		out(J{"k": "witness", "point": "stale-validation." + kind}, staleValidationOp(kind))
		stats["witness"]++
	}
	for c := 0; c < cases; c++ {
		typ := []string{"counter", "map", "list"}[c%3]
		ngo := 2 + r.intn(7)
		out(J{"k": "intent", "of": "stress", "dt": typ, "goroutines": ngo, "ops": 30}, J{})
		out(J{"k": "stress", "dt": typ, "goroutines": ngo, "ops": 30}, stress(r, typ, ngo, 30))
		stats["stress:"+typ]++
	}
	writeStats(statsPath, stats)
}
