package main

import (
	"fmt"

	"github.com/orda-io/orda/client/pkg/model"
)

// runSpecial: slices that are not replica histories.
func runSpecial(name string, seed uint64, cases, from int, out func(cmd, obs J), stats string) bool {
	switch name {
	case "par":
		runParProfile(seed, cases, from, out, stats)
		return true
	case "conc":
		runConcProfile(seed, cases, out, stats)
		return true
	case "rt":
		runRtProfile(seed, cases, out, stats)
		return true
	case "rtentry":
		runRtEntryProfile(seed, cases, out, stats)
		return true
	case "rtrefuse":
		runRtRefuseProfile(seed, cases, out, stats)
		return true
	case "enc":
		runEncProfile(seed, cases, out, stats)
		return true
	case "patch":
		runPatchProfile(seed, cases, out, stats)
		return true
	case "hashgrid":
		hashGrid(seed, cases, out)
		writeStats(stats, map[string]int{"grid": 1})
		return true
	}
	return false
}

// hashGrid: Timestamp.Hash over an exhaustive (lamport, delimiter) grid for a few client ids and
// eras (collisions are bucketed here; a summary line carries the verdict), plus point-wise lines for
// the model to reproduce: a sub-grid, and random 32/64-bit values for Hash and Compare.
func hashGrid(seed uint64, scale int, out func(cmd, obs J)) {
	r := &rng{s: seed*0x9e3779b97f4a7c15 + 777}
	G := 400 * scale
	if G > 1600 {
		G = 1600
	}
	cuids := []string{"0000000000000000", "1AbC_-zZ09aaaaaa", "10AbC_-zZ09aaaaa"}
	eras := []uint32{0, 1, 10}
	seen := map[string][4]uint64{}
	collisions := 0
	var first interface{}
	n := 0
	for ci, c := range cuids {
		for _, e := range eras {
			for l := 0; l <= G; l++ {
				for d := 0; d <= G; d++ {
					t := model.NewTimestamp(e, uint64(l), c, uint32(d))
					h := t.Hash()
					n++
					if prev, ok := seen[h]; ok {
						collisions++
						if first == nil {
							first = J{"a": []interface{}{prev[0], prev[1], cuids[prev[3]], prev[2]}, "b": tsJ(t), "hash": h}
						}
					} else {
						seen[h] = [4]uint64{uint64(e), uint64(l), uint64(d), uint64(ci)}
					}
				}
			}
		}
	}
	out(J{"k": "hashsummary", "grid": G, "ncuids": len(cuids), "neras": len(eras)}, J{"points": n, "collisions": collisions, "first": first})
	// point-wise correspondence: sub-grid
	S := 40
	for l := 0; l <= S; l++ {
		for d := 0; d <= S; d++ {
			t := model.NewTimestamp(0, uint64(l), cuids[1], uint32(d))
			out(J{"k": "hash", "ts": tsJ(t)}, J{"hash": t.Hash()})
		}
	}
	big := func() uint64 {
		switch r.intn(4) {
		case 0:
			return r.next()
		case 1:
			return r.next() >> 32
		case 2:
			return uint64(r.intn(100000))
		default:
			return (uint64(1) << 63) - uint64(r.intn(5)) + uint64(r.intn(5))
		}
	}
	for i := 0; i < 3000; i++ {
		t := model.NewTimestamp(uint32(big()), big(), cuids[r.intn(3)], uint32(big()))
		out(J{"k": "hash", "ts": tsJ(t)}, J{"hash": t.Hash()})
	}
	for i := 0; i < 6000; i++ {
		a := model.NewTimestamp(uint32(big()), big(), cuids[r.intn(3)], uint32(r.intn(3)))
		b := model.NewTimestamp(uint32(big()), big(), cuids[r.intn(3)], uint32(r.intn(3)))
		if r.intn(3) == 0 {
			b.Era = a.Era
		}
		if r.intn(4) == 0 {
			b.Lamport = a.Lamport
		}
		oa := &model.OperationID{Era: a.Era, Lamport: a.Lamport, CUID: a.CUID, Seq: 1}
		ob := &model.OperationID{Era: b.Era, Lamport: b.Lamport, CUID: b.CUID, Seq: 2}
		out(J{"k": "cmp", "a": tsJ(a), "b": tsJ(b)}, J{"cmp": a.Compare(b), "cmpid": oa.Compare(ob)})
	}
	_ = fmt.Sprint
}
