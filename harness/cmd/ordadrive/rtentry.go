package main

// C13 at the level of the REAL client: the entry calls (Create / Subscribe / SubscribeOrCreate) of ONE client on a key it already
// holds — pending (before its first sync) or subscribed — with the same or another datatype type.  Contract observed: a second
// entry call yields the datatype the client already holds, or nil with the refusal delivered to the error handler of that call —
// never a second, unwired object: whatever handle is returned, operations issued through it reach the server, the key has exactly
// one datatype there, and the transition to subscribed is reported exactly once.

import (
	"fmt"
	"net"
	"sync/atomic"
	"time"

	"github.com/orda-io/orda/client/pkg/errors"
	"github.com/orda-io/orda/client/pkg/model"
	"github.com/orda-io/orda/client/pkg/orda"
	"google.golang.org/grpc"
)

func entryCall(cl orda.Client, typ, mode, key string, h *orda.Handlers) orda.Datatype {
	var dt orda.Datatype
	switch typ + "/" + mode {
	case "counter/create":
		if d := cl.CreateCounter(key, h); d != nil {
			dt = d
		}
	case "counter/subscribe":
		if d := cl.SubscribeCounter(key, h); d != nil {
			dt = d
		}
	case "counter/soc":
		if d := cl.SubscribeOrCreateCounter(key, h); d != nil {
			dt = d
		}
	case "map/create":
		if d := cl.CreateMap(key, h); d != nil {
			dt = d
		}
	case "map/subscribe":
		if d := cl.SubscribeMap(key, h); d != nil {
			dt = d
		}
	case "map/soc":
		if d := cl.SubscribeOrCreateMap(key, h); d != nil {
			dt = d
		}
	case "list/create":
		if d := cl.CreateList(key, h); d != nil {
			dt = d
		}
	case "list/subscribe":
		if d := cl.SubscribeList(key, h); d != nil {
			dt = d
		}
	case "list/soc":
		if d := cl.SubscribeOrCreateList(key, h); d != nil {
			dt = d
		}
	case "document/create":
		if d := cl.CreateDocument(key, h); d != nil {
			dt = d
		}
	case "document/subscribe":
		if d := cl.SubscribeDocument(key, h); d != nil {
			dt = d
		}
	case "document/soc":
		if d := cl.SubscribeOrCreateDocument(key, h); d != nil {
			dt = d
		}
	}
	return dt
}

func runRtEntryProfile(seed uint64, cases int, out func(cmd, obs J), stats string) {
	st := map[string]int{}
	r := &rng{s: seed*0x9e3779b97f4a7c15 + 1313}
	types := []string{"counter", "map", "list", "document"}
	modes := []string{"create", "subscribe", "soc"}
	for c := 0; c < cases; c++ {
		w := newSWorld()
		typ1 := types[r.intn(4)]
		typ2 := typ1
		if r.intn(2) == 0 {
			typ2 = types[r.intn(4)]
		}
		mode2 := modes[r.intn(3)]
		pending := r.intn(2) == 0
		cmd := J{"k": "rtcase", "id": c, "profile": "rtentry", "n": 2, "ops": 1, "typ1": typ1, "typ2": typ2, "mode2": mode2, "pending": pending}
		obs := J{}
		guardedFor(obs, 30*time.Second, func() {
			_, _, _ = w.stepMkCol("cola")
			lis, err := net.Listen("tcp", "127.0.0.1:0")
			if err != nil {
				obs["setup"] = err.Error()
				return
			}
			gs := grpc.NewServer()
			model.RegisterOrdaServiceServer(gs, w.kit.Service)
			go func() { _ = gs.Serve(lis) }()
			defer gs.Stop()
			w.kit.MQTT.SetDelay(0)
			conf := &orda.ClientConfig{ServerAddr: lis.Addr().String(), NotificationAddr: w.kit.MQTT.URL(),
				CollectionName: "cola", SyncType: model.SyncType_MANUALLY}
			cl := orda.NewClient(conf, "e0")
			if err := cl.Connect(); err != nil {
				obs["setup"] = "connect: " + err.Error()
				return
			}
			defer func() {
				done := make(chan struct{})
				go func() { defer close(done); defer func() { _ = recover() }(); _ = cl.Close() }()
				select {
				case <-done:
				case <-time.After(500 * time.Millisecond):
				}
			}()
			var subscribed1, errs1, errs2 int32
			h1 := orda.NewHandlers(func(dt orda.Datatype, o, n model.StateOfDatatype) {
				if n == model.StateOfDatatype_SUBSCRIBED {
					atomic.AddInt32(&subscribed1, 1)
				}
			}, nil, func(dt orda.Datatype, es ...errors.OrdaError) { atomic.AddInt32(&errs1, int32(len(es))) })
			h2 := orda.NewHandlers(func(dt orda.Datatype, o, n model.StateOfDatatype) {
				if n == model.StateOfDatatype_SUBSCRIBED {
					atomic.AddInt32(&subscribed1, 1)
				}
			}, nil, func(dt orda.Datatype, es ...errors.OrdaError) { atomic.AddInt32(&errs2, int32(len(es))) })
			d1 := entryCall(cl, typ1, "soc", "k", h1)
			if d1 == nil {
				obs["setup"] = "first entry call returned nil"
				return
			}
			if !pending {
				for t := 0; t < 50 && d1.GetState() != model.StateOfDatatype_SUBSCRIBED; t++ {
					_, _ = syncWithin(cl, 3*time.Second)
					time.Sleep(time.Millisecond)
				}
			}
			d2 := entryCall(cl, typ2, mode2, "k", h2)
			obs["second"] = "nil"
			if d2 != nil {
				if d2 == d1 {
					obs["second"] = "same"
				} else {
					obs["second"] = "other"
				}
				// an operation through the handle that was handed out
				rtOpSure(typ2, d2, 0, 1)
			}
			time.Sleep(20 * time.Millisecond)
			obs["errs2"] = atomic.LoadInt32(&errs2)
			for t := 0; t < 6; t++ {
				ret, e := syncWithin(cl, 3*time.Second)
				if !ret || e != "" {
					obs["syncProblem"] = fmt.Sprint(ret, " ", e)
					break
				}
				if d1.GetState() == model.StateOfDatatype_SUBSCRIBED && !d1.(interface{ NeedPush() bool }).NeedPush() {
					break
				}
			}
			time.Sleep(30 * time.Millisecond)
			obs["state1"] = fmt.Sprint(d1.GetState())
			obs["subscribedReports"] = atomic.LoadInt32(&subscribed1)
			obs["errs1"] = atomic.LoadInt32(&errs1)
			if d2 != nil {
				pk := d2.(interface{ CreatePushPullPack() *model.PushPullPack }).CreatePushPullPack()
				obs["pending2"] = len(pk.Operations)
				obs["state2"] = fmt.Sprint(d2.GetState())
			}
			w.waitBackground()
			stj := w.storeJ()
			obs["datatypes"] = len(stj["datatypes"].([]interface{}))
			obs["stored"] = len(stj["operations"].([]interface{}))
		})
		out(cmd, obs)
		st["rtcase"]++
		st["second:"+fmt.Sprint(obs["second"])]++
	}
	writeStats(stats, st)
}
