package main

import (
	"fmt"
	"sync/atomic"
)

// service-level generation --------------------------------------------------------------------

type sprofile struct {
	name      string
	steps     int
	maxCli    int
	maxKeys   int
	cols      int
	pCall     float64
	pSync     float64
	pNewDt    float64
	pFault    float64 // share of syncs that carry a message fault
	pMut      float64 // share of syncs whose request is mutated
	storeEach bool
	pPatch    float64
	pNoSnap   float64
	pHold     float64
	pReset    float64 // a collection is reset (purged) in the middle of the history; its clients go on
	lite      bool
	dts       []string
}

var sprofiles = map[string]sprofile{
	"svc":    {name: "svc", steps: 26, maxCli: 4, maxKeys: 2, cols: 1, pCall: 0.5, pSync: 0.38, pNewDt: 0.12, storeEach: true, dts: []string{"counter", "map", "list", "document"}},
	"svclog": {name: "svclog", steps: 30, maxCli: 5, maxKeys: 2, cols: 1, pCall: 0.45, pSync: 0.45, pNewDt: 0.1, storeEach: true, dts: []string{"counter", "list", "map"}},
	"fault":  {name: "fault", steps: 30, maxCli: 3, maxKeys: 1, cols: 1, pCall: 0.45, pSync: 0.5, pNewDt: 0.05, pFault: 0.45, storeEach: true, dts: []string{"counter", "list", "map", "document"}},
	"mut":    {name: "mut", steps: 24, maxCli: 3, maxKeys: 2, cols: 2, pCall: 0.35, pSync: 0.55, pNewDt: 0.1, pMut: 0.5, storeEach: true, dts: []string{"counter", "list", "map"}},
	"rest":   {name: "rest", steps: 22, maxCli: 3, maxKeys: 1, cols: 1, pCall: 0.35, pSync: 0.4, pNewDt: 0.05, pPatch: 0.2, pNoSnap: 0.3, storeEach: true, dts: []string{"document"}},
	"snap11": {name: "snap11", steps: 26, maxCli: 3, maxKeys: 2, cols: 1, pCall: 0.4, pSync: 0.42, pNewDt: 0.06, pPatch: 0.06, pHold: 0.3, storeEach: true, lite: true, dts: []string{"counter", "map", "list", "document"}},
	"iso":    {name: "iso", steps: 28, maxCli: 4, maxKeys: 2, cols: 3, pCall: 0.4, pSync: 0.45, pNewDt: 0.15, pMut: 0.25, pReset: 0.04, storeEach: true, dts: []string{"counter", "map", "list"}},
}

type sgen struct {
	r     *rng
	p     sprofile
	w     *sworld
	out   func(cmd, obs J)
	stats map[string]int
	g     *gen // reuse of the call generator
	keys  []string
	cols  []string
	ktyp  map[string]string
	hold  int
	held  int
}

func (s *sgen) emit(cmd, obs J, hung bool) bool {
	s.stats[fmt.Sprint(cmd["k"])]++
	if f, ok := cmd["fault"]; ok {
		s.stats["fault:"+fmt.Sprint(f)]++
	}
	if _, ok := cmd["mut"]; ok {
		s.stats["mutated"]++
	}
	if r, ok := obs["rpc"]; ok && fmt.Sprint(r) != "0" {
		s.stats["rpc:"+fmt.Sprint(r)]++
	}
	if _, ok := obs["panic"]; ok {
		s.stats["panic"]++
	}
	if _, ok := obs["hang"]; ok {
		s.stats["hang"]++
	}
	s.out(cmd, obs)
	return hung
}

func (s *sgen) repsOf(c int) []int {
	var rs []int
	for r, o := range s.w.owner {
		if o == c {
			rs = append(rs, r)
		}
	}
	return rs
}

func (s *sgen) newDt(c int) bool {
	col := s.w.clients[c].col
	key := s.keys[s.r.intn(len(s.keys))]
	for _, r := range s.repsOf(c) {
		if s.w.reps[r].wired.GetKey() == key {
			return false
		}
	}
	ck := col + "/" + key
	typ, seen := s.ktyp[ck]
	if !seen {
		typ = s.p.dts[s.r.intn(len(s.p.dts))]
		s.ktyp[ck] = typ
	}
	mode := []string{"create", "subscribe", "soc"}[s.r.intn(3)]
	if !seen && s.r.intn(4) != 0 {
		mode = []string{"create", "soc"}[s.r.intn(2)]
	} else if seen && s.r.intn(4) != 0 {
		mode = []string{"subscribe", "soc"}[s.r.intn(2)]
	}
	if s.p.pMut > 0 && s.r.intn(8) == 0 { // occasionally another type under the same key
		typ = s.p.dts[s.r.intn(len(s.p.dts))]
	}
	return s.emit(s.w.stepNewDt(c, key, typ, mode))
}

// currentDoc: the user-visible document stored for (col, key), if any
func (s *sgen) currentDoc(col, key string) map[string]interface{} {
	st := s.w.storeJ()
	for _, u := range st["userDocs"].([]interface{}) {
		uj := u.(J)
		if uj["col"] == col && uj["key"] == key {
			if m, ok := uj["value"].(map[string]interface{}); ok {
				return m
			}
		}
	}
	return nil
}

func (s *sgen) genMut(c int) *mutation {
	m := &mutation{}
	switch s.r.intn(11) {
	case 0:
		b := uint32(s.r.intn(128))
		m.Opt = &b
	case 1:
		m.CP = []uint64{uint64(s.r.intn(12)), uint64(s.r.intn(8))}
	case 2:
		m.DropOps = 1 + s.r.intn(2)
	case 3:
		m.DupOps = true
	case 4:
		m.NoOps = true
	case 5:
		if len(s.w.reps) > 0 {
			m.DUID = s.w.reps[s.r.intn(len(s.w.reps))].wired.GetDUID()
		} else {
			m.DUID = "AAAAAAAAAAAAAAAA"
		}
	case 6:
		m.Key = s.keys[s.r.intn(len(s.keys))]
	case 7:
		m.Typ = []string{"COUNTER", "MAP", "LIST", "DOCUMENT"}[s.r.intn(4)]
	case 8:
		if len(s.w.clients) > 0 {
			m.Cuid = s.w.clients[s.r.intn(len(s.w.clients))].cm.CUID
		}
	case 9:
		m.Col = s.cols[s.r.intn(len(s.cols))]
	default:
		b := []uint32{64, 65, 66, 2, 1, 3, 16}[s.r.intn(7)]
		m.Opt = &b
		if s.r.intn(2) == 0 {
			m.CP = []uint64{uint64(s.r.intn(12)), uint64(s.r.intn(8))}
		}
	}
	return m
}

func (s *sgen) runCase(id int) bool {
	s.w = newSWorld()
	s.w.svc = true
	s.w.spostFn = s.w.spost
	s.w.out = s.out
	s.w.lite = s.p.lite
	s.held = 0
	s.g.w = &s.w.world
	s.g.twin = map[int]int{}
	s.ktyp = map[string]string{}
	s.hold = 0
	s.cols = nil
	for i := 0; i < s.p.cols; i++ {
		s.cols = append(s.cols, fmt.Sprintf("col%c", 'a'+i))
	}
	s.keys = nil
	for i := 0; i < 1+s.r.intn(s.p.maxKeys); i++ {
		s.keys = append(s.keys, fmt.Sprintf("k%d", i))
	}
	s.out(J{"k": "scase", "id": id, "profile": s.p.name}, J{})
	s.stats["scase"]++
	for _, c := range s.cols {
		if s.emit(s.w.stepMkCol(c)) {
			return false
		}
	}
	ncli := 2 + s.r.intn(s.p.maxCli-1)
	for i := 0; i < ncli; i++ {
		col := s.cols[s.r.intn(len(s.cols))]
		if s.emit(s.w.stepClient(col, col, 0)) {
			return false
		}
		s.newDt(i)
	}
	for st := 0; st < s.p.steps; st++ {
		c := s.r.intn(len(s.w.clients))
		rs := s.repsOf(c)
		x := float64(s.r.next()%1000000) / 1000000.0
		var hung bool
		switch {
		case s.p.pReset > 0 && s.r.chance(s.p.pReset):
			// the collection is purged; the clients that were registered in it keep acting in the same server process
			hung = s.emit(s.w.stepReset(s.cols[s.r.intn(len(s.cols))]))
		case s.p.pPatch > 0 && s.r.chance(s.p.pPatch):
			key := s.keys[s.r.intn(len(s.keys))]
			col := s.cols[s.r.intn(len(s.cols))]
			var tgt interface{}
			cur := s.currentDoc(col, key)
			if cur != nil && s.r.intn(4) != 0 {
				tgt = s.g.mutateVal(cur, 0)
			} else {
				tgt = s.g.randObj(0)
			}
			bgMu.Lock()
			nHeld := len(s.w.bgHeld)
			bgMu.Unlock()
			pairOK := len(s.w.kit.Mongo.Held()) == 0 && atomic.LoadInt64(&bgParked) == 0 && nHeld == 0
			pair := s.r.intn(5) == 0
			if pair && !pairOK {
				// a fault scenario keeps a background goroutine stopped at the database gate (released by a later step):
				// the pair would release it; the two patches one after the other instead
				var tgt2 interface{} = s.g.randObj(0)
				hung = s.emit(s.w.stepPatch(col, key, tgt))
				if !hung {
					hung = s.emit(s.w.stepPatch(col, key, tgt2))
				}
			} else if pair {
				// two overlapping REST patches of one key
				var tgt2 interface{} = s.g.randObj(0)
				if m, ok := tgt.(J); ok && s.r.intn(2) == 0 {
					tgt2 = s.g.mutateVal(map[string]interface{}(m), 0)
				}
				hung = s.w.stepPatchPair(col, key, tgt, tgt2, s.emit)
			} else {
				hung = s.emit(s.w.stepPatch(col, key, tgt))
			}
		case x < s.p.pCall && len(rs) > 0:
			r := rs[s.r.intn(len(rs))]
			m, a := s.g.genCall(r, false)
			if s.w.reps[r].typ == "document" {
				a["_h"] = "root"
			}
			hung = s.emit(s.w.stepCall(r, m, a))
		case x < s.p.pCall+s.p.pSync && len(rs) > 0:
			sel := rs
			if len(rs) > 1 && s.r.intn(3) == 0 {
				sel = []int{rs[s.r.intn(len(rs))]}
			}
			fault := ""
			var mut *mutation
			if s.p.pHold > 0 && s.r.chance(s.p.pHold) {
				fault = []string{"holdsnap", "holdbg", "holdread"}[s.r.intn(3)]
				if fault == "holdread" && len(sel) > 1 { // one pack: the gate must not meet the reads of a second pack's request
					sel = []int{sel[s.r.intn(len(sel))]}
				}
				s.held++
			} else if s.p.pNoSnap > 0 && s.r.chance(s.p.pNoSnap) {
				fault = "nosnap"
			} else if s.r.chance(s.p.pFault) {
				fault = []string{"dup", "dup1", "drop", "late"}[s.r.intn(4)]
			} else if s.r.chance(s.p.pMut) {
				mut = s.genMut(c)
				if mut.Key != "" || mut.DUID != "" { // two packs of one request must not name the same datatype
					sel = []int{rs[s.r.intn(len(rs))]}
				}
			}
			s.hold++
			hung = s.emit(s.w.stepSync(c, sel, fault, s.hold, mut))
			if fault == "late" && !hung {
				// later exchanges happen before the stale response is applied: the same client issues
				// operations and syncs again (its checkpoint moves past the held one) while other
				// clients push (the log grows past the client's own sequence number)
				lateHold := s.hold
				callOn := func(rs2 []int) bool {
					if len(rs2) == 0 {
						return false
					}
					r := rs2[s.r.intn(len(rs2))]
					m, a := s.g.genCall(r, false)
					if s.w.reps[r].typ == "document" {
						a["_h"] = "root"
					}
					return s.emit(s.w.stepCall(r, m, a))
				}
				other := func() bool {
					if len(s.w.clients) < 2 {
						return false
					}
					oc := (c + 1 + s.r.intn(len(s.w.clients)-1)) % len(s.w.clients)
					ors := s.repsOf(oc)
					if len(ors) == 0 {
						return false
					}
					if callOn(ors) {
						return true
					}
					s.hold++
					return s.emit(s.w.stepSync(oc, ors, "", s.hold, nil))
				}
				k := 1 + s.r.intn(4)
				for q := 0; q < k && !hung; q++ {
					switch s.r.intn(5) {
					case 0, 1:
						hung = callOn(sel)
					case 2, 3:
						s.hold++
						hung = s.emit(s.w.stepSync(c, sel, "", s.hold, nil))
					default:
						hung = other()
					}
				}
				if !hung {
					hung = s.emit(s.w.stepApplyLate(lateHold))
				}
				if !hung && s.r.intn(2) == 0 {
					// what the stale response may have damaged shows at the next exchanges
					hung = other()
					if !hung {
						s.hold++
						hung = s.emit(s.w.stepSync(c, sel, "", s.hold, nil))
					}
				}
			}
		case len(s.w.clients) < s.p.maxCli+1 && s.r.intn(3) == 0:
			col := s.cols[s.r.intn(len(s.cols))]
			hung = s.emit(s.w.stepClient(col, col, 0))
			if !hung {
				s.newDt(len(s.w.clients) - 1)
			}
		default:
			hung = s.newDt(c)
		}
		if hung {
			return false
		}
		if s.p.pHold > 0 && s.held > 0 && (s.r.intn(4) == 0 || st == s.p.steps-1) {
			if s.emit(s.w.stepRelease()) {
				return false
			}
			s.held = 0
			if s.emit(s.w.stepSnapCheck()) {
				return false
			}
		}
		if s.p.storeEach {
			if s.emit(s.w.stepStore()) {
				return false
			}
		}
	}
	// quiescence: every client syncs until nothing is left to push or pull (three rounds suffice)
	for round := 0; round < 3; round++ {
		for c := range s.w.clients {
			rs := s.repsOf(c)
			if len(rs) == 0 {
				continue
			}
			s.hold++
			if s.emit(s.w.stepSync(c, rs, "", s.hold, nil)) {
				return false
			}
		}
	}
	if s.emit(s.w.stepStore()) {
		return false
	}
	if s.p.pHold > 0 {
		if s.emit(s.w.stepRelease()) {
			return false
		}
		if s.emit(s.w.stepSnapCheck()) {
			return false
		}
	}
	s.out(J{"k": "send", "id": id, "quiescent": true}, J{})
	return true
}

func runService(name string, seed uint64, cases, from int, out func(cmd, obs J), statsPath string) bool {
	p, ok := sprofiles[name]
	if !ok {
		return false
	}
	r := &rng{s: seed*0x9e3779b97f4a7c15 + 4242}
	stats := map[string]int{}
	s := &sgen{r: r, p: p, out: out, stats: stats}
	s.g = &gen{r: r, p: profile{malformed: 0.03, bigBatch: 0.03, readsShare: 0.0}, out: out, stats: stats, twin: map[int]int{}}
	for c := 0; c < cases; c++ {
		if c < from {
			// keep the PRNG stream aligned: cases are independent, so skipping means re-seeding per case
		}
		r.s = (seed*0x9e3779b97f4a7c15 + 4242) ^ (uint64(c+1) * 0xd1342543de82ef95)
		if c < from {
			continue
		}
		if !s.runCase(c) {
			stats["cut-short"]++
		}
	}
	writeStats(statsPath, stats)
	return true
}
