package main

import (
	"bufio"
	"encoding/json"
	"os"
	"sort"
)

// replayImpl re-executes the commands of a trace on the implementation.  Client ids are random
// nanoids, so fresh replicas are drawn until their ids sort in the same relative order as in the
// recorded run (timestamp ties are broken by client id).
func replayImpl(path string, out func(cmd, obs J)) {
	f, err := os.Open(path)
	if err != nil {
		return
	}
	defer f.Close()
	sc := bufio.NewScanner(f)
	sc.Buffer(make([]byte, 1<<20), 1<<26)
	var w *world
	for sc.Scan() {
		var c J
		if json.Unmarshal(sc.Bytes(), &c) != nil {
			continue
		}
		k, _ := c["k"].(string)
		r := asInt(c["r"])
		var a J
		if x, ok := c["a"].(map[string]interface{}); ok {
			a = J(x)
		} else {
			a = J{}
		}
		if h, ok := c["h"].(string); ok {
			a["_h"] = h
		}
		switch k {
		case "case":
			dt, _ := c["dt"].(string)
			n := asInt(c["n"])
			var want []string
			for _, x := range toIfaceSlice(c["cuids"]) {
				want = append(want, x.(string))
			}
			w = &world{}
			for try := 0; try < 5000; try++ {
				w.reps = nil
				var got []string
				for i := 0; i < n; i++ {
					rp := newRep(dt, i == 0, i)
					w.reps = append(w.reps, rp)
					got = append(got, rp.cuid)
				}
				if sameOrder(want, got) {
					break
				}
			}
			cu := make([]interface{}, 0, n)
			init := make([]interface{}, 0, n)
			for _, rp := range w.reps {
				cu = append(cu, rp.cuid)
				o := J{}
				rp.post(o)
				init = append(init, o)
			}
			c["cuids"] = cu
			out(c, J{"init": init})
		case "call":
			cmd, obs, _ := w.stepCall(r, c["m"].(string), a)
			out(cmd, obs)
		case "tx":
			var calls []J
			for _, x := range toIfaceSlice(c["calls"]) {
				cc := J(x.(map[string]interface{}))
				if aa, ok := cc["a"].(map[string]interface{}); ok {
					cc["a"] = J(aa)
				}
				calls = append(calls, cc)
			}
			stop, _ := c["stop"].(bool)
			fail, _ := c["fail"].(bool)
			tag, _ := c["tag"].(string)
			cmd, obs, _ := w.stepTx(r, tag, calls, stop, fail)
			out(cmd, obs)
		case "pub":
			cmd, obs, _ := w.stepPub(r)
			out(cmd, obs)
		case "dlv":
			mut, _ := c["mut"].(string)
			cmd, obs, _ := w.stepDlv(r, asInt(c["n"]), mut)
			out(cmd, obs)
		case "snap":
			cmd, obs, _ := w.stepSnap(r)
			out(cmd, obs)
		case "obs":
			cmd, obs, _ := w.stepObs(r)
			out(cmd, obs)
		case "pjson":
			cmd, obs, _ := w.stepPatchJSON(r, c["json"])
			out(cmd, obs)
		case "jdiff":
			cmd, obs := stepJDiff(c["src"], c["tgt"])
			out(cmd, obs)
		case "nav":
			var key interface{}
			if kk, ok := c["key"]; ok {
				key = kk
			}
			from, _ := c["from"].(string)
			to, _ := c["to"].(string)
			cmd, obs, _ := w.stepNav(r, from, key, asInt(c["pos"]), to)
			out(cmd, obs)
		default:
			out(c, J{})
		}
	}
}

func sameOrder(want, got []string) bool {
	if len(want) != len(got) {
		return true
	}
	rank := func(xs []string) []int {
		idx := make([]int, len(xs))
		for i := range idx {
			idx[i] = i
		}
		sort.Slice(idx, func(a, b int) bool { return xs[idx[a]] < xs[idx[b]] })
		r := make([]int, len(xs))
		for pos, i := range idx {
			r[i] = pos
		}
		return r
	}
	a, b := rank(want), rank(got)
	for i := range a {
		if a[i] != b[i] {
			return false
		}
	}
	return true
}
