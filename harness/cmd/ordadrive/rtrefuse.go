package main

// C16 (last clause, at the level of the REAL client): "a client that receives an error … remains usable".  A manual-sync client of
// the client library (its own SyncManager over gRPC to the real OrdaService) has its push-pull RPC refused AS A WHOLE — either the
// real server refuses it (the request arrives under a client id the server does not know: NotFound) or the transport fails
// (Unavailable, the request never reaches the service) — then goes on: the next Sync() must return, push what is pending and bring
// the other client to the same value.

import (
	"context"
	"fmt"
	"net"
	"sync/atomic"
	"time"

	"github.com/orda-io/orda/client/pkg/model"
	"github.com/orda-io/orda/client/pkg/orda"
	"google.golang.org/grpc"
	"google.golang.org/grpc/codes"
	"google.golang.org/grpc/status"
)

// syncWithin runs cl.Sync() and tells whether it returned within d
func syncWithin(cl orda.Client, d time.Duration) (returned bool, errText string) {
	done := make(chan string, 1)
	go func() {
		defer func() {
			if r := recover(); r != nil {
				done <- "panic: " + fmt.Sprint(r)
			}
		}()
		if err := cl.Sync(); err != nil {
			done <- "error: " + err.Error()
			return
		}
		done <- ""
	}()
	select {
	case s := <-done:
		return true, s
	case <-time.After(d):
		return false, ""
	}
}

func runRtRefuseProfile(seed uint64, cases int, out func(cmd, obs J), stats string) {
	st := map[string]int{}
	r := &rng{s: seed*0x9e3779b97f4a7c15 + 4242}
	for c := 0; c < cases; c++ {
		w := newSWorld()
		typ := []string{"counter", "map", "list", "document"}[r.intn(4)]
		mode := []string{"unknown-client", "transport"}[r.intn(2)]
		before := 1 + r.intn(3)
		refusals := 1 + r.intn(2)
		cmd := J{"k": "rtcase", "id": c, "profile": "rtrefuse", "dt": typ, "n": 2, "ops": before, "mode": mode, "refusals": refusals}
		obs := J{}
		guardedFor(obs, 30*time.Second, func() {
			_, _, _ = w.stepMkCol("cola")
			lis, err := net.Listen("tcp", "127.0.0.1:0")
			if err != nil {
				obs["setup"] = err.Error()
				return
			}
			var arm int32 // number of ProcessPushPull calls still to be refused
			gs := grpc.NewServer(grpc.UnaryInterceptor(func(ctx context.Context, req interface{}, info *grpc.UnaryServerInfo, h grpc.UnaryHandler) (interface{}, error) {
				if m, ok := req.(*model.PushPullMessage); ok && atomic.LoadInt32(&arm) > 0 {
					atomic.AddInt32(&arm, -1)
					if mode == "transport" {
						return nil, status.Error(codes.Unavailable, "injected transport failure")
					}
					// the REAL service refuses: it does not know this client
					m2 := &model.PushPullMessage{Header: m.Header, Collection: m.Collection, Cuid: "0000000000000000", PushPullPacks: m.PushPullPacks}
					return h(ctx, m2)
				}
				return h(ctx, req)
			}))
			model.RegisterOrdaServiceServer(gs, w.kit.Service)
			go func() { _ = gs.Serve(lis) }()
			defer gs.Stop()
			w.kit.MQTT.SetDelay(0)
			var cls []*rtClient
			defer func() {
				for _, rc := range cls {
					rc := rc
					done := make(chan struct{})
					go func() { defer close(done); defer func() { _ = recover() }(); _ = rc.c.Close() }()
					select {
					case <-done:
					case <-time.After(500 * time.Millisecond):
					}
				}
			}()
			for i := 0; i < 2; i++ {
				conf := &orda.ClientConfig{ServerAddr: lis.Addr().String(), NotificationAddr: w.kit.MQTT.URL(),
					CollectionName: "cola", SyncType: model.SyncType_MANUALLY}
				cl := orda.NewClient(conf, fmt.Sprintf("m%d", i))
				if err := cl.Connect(); err != nil {
					obs["setup"] = "connect: " + err.Error()
					return
				}
				var dt orda.Datatype
				switch typ {
				case "counter":
					dt = cl.SubscribeOrCreateCounter("k", nil)
				case "map":
					dt = cl.SubscribeOrCreateMap("k", nil)
				case "list":
					dt = cl.SubscribeOrCreateList("k", nil)
				default:
					dt = cl.SubscribeOrCreateDocument("k", nil)
				}
				cls = append(cls, &rtClient{cl, dt})
				for t := 0; t < 50 && dt.GetState() != model.StateOfDatatype_SUBSCRIBED; t++ {
					_ = cl.Sync()
					time.Sleep(time.Millisecond)
				}
				if dt.GetState() != model.StateOfDatatype_SUBSCRIBED {
					obs["setup"] = "not subscribed"
					return
				}
			}
			a, b := cls[0], cls[1]
			for k := 0; k < before; k++ {
				rtOpSure(typ, a.dt, 0, k)
			}
			// the refused exchange(s)
			refused := make([]interface{}, 0, refusals)
			atomic.StoreInt32(&arm, int32(refusals))
			for k := 0; k < refusals; k++ {
				ret, e := syncWithin(a.c, 3*time.Second)
				refused = append(refused, J{"returned": ret, "err": e})
				if !ret {
					break
				}
			}
			atomic.StoreInt32(&arm, 0)
			obs["refused"] = refused
			// the client goes on
			rtOpSure(typ, a.dt, 0, 50)
			ret, e := syncWithin(a.c, 3*time.Second)
			obs["next"] = J{"returned": ret, "err": e}
			if ret {
				ret2, e2 := syncWithin(b.c, 3*time.Second)
				obs["other"] = J{"returned": ret2, "err": e2}
				if ret2 {
					// manual clients: nothing runs in the background once Sync has returned
					obs["views"] = []interface{}{viewJ(a.dt), viewJ(b.dt)}
					pk := a.dt.(interface{ CreatePushPullPack() *model.PushPullPack }).CreatePushPullPack()
					obs["npending"] = len(pk.Operations)
				}
			}
			w.waitBackground()
			stj := w.storeJ()
			obs["stored"] = len(stj["operations"].([]interface{}))
		})
		out(cmd, obs)
		st["rtcase"]++
		st["dt:"+typ]++
		st["mode:"+mode]++
	}
	writeStats(stats, st)
}
