package main

// Service-level execution: the real OrdaService (in process) over memmongo/mqttstub, driven by
// requests the harness builds from real client datatypes and may duplicate, drop, delay or mutate.

import (
	"context"
	"encoding/json"
	"fmt"
	"github.com/orda-io/orda/client/pkg/verifhook"
	"sort"
	"sync"
	"sync/atomic"
	"time"

	"github.com/orda-io/orda/client/pkg/errors"
	"github.com/orda-io/orda/client/pkg/iface"
	"github.com/orda-io/orda/client/pkg/model"
	"github.com/orda-io/orda/client/pkg/orda"
	"github.com/orda-io/orda/server/wrapper"
	"go.mongodb.org/mongo-driver/bson"
	"go.mongodb.org/mongo-driver/bson/primitive"
	"google.golang.org/grpc/status"

	"verifharness/memmongo"
	"verifharness/srvkit"
)

type sclient struct {
	col    string
	client orda.Client
	cm     *model.Client
	seq    uint32
	typ    int
}

type hlog struct {
	mu  sync.Mutex
	evs []interface{}
}

func (h *hlog) add(e interface{}) {
	h.mu.Lock()
	h.evs = append(h.evs, e)
	h.mu.Unlock()
}

func (h *hlog) take() []interface{} {
	h.mu.Lock()
	defer h.mu.Unlock()
	out := h.evs
	h.evs = nil
	return out
}

type sworld struct {
	world
	kit       *srvkit.Kit
	clients   []*sclient
	owner     []int // rep index -> client index
	hl        []*hlog
	held      map[int][]*model.PushPullPack
	heldRep   map[int][]int
	pubSeen   int
	out       func(cmd, obs J)
	lite      bool            // store dumps without snapshots and user documents (their timing is schedule-dependent)
	bgHeld    []chan struct{} // post-push goroutines parked before their snapshot update (fault "holdbg"), oldest first
	bgTimeout bool
	spawn0    int64 // bgSpawned when this world was created (the broker stand-in was reset then)
}

var theKit *srvkit.Kit
var bgMu sync.Mutex

// The post-push goroutines of the server are counted through the schedule points of /repo's verifhook
// package (build tag verif): `spawn` fires in the request handler before the goroutine starts (hence before the
// response is returned), `done` when it ends.  waitBackground is exact, not a guess from quiet time.
var bgSpawned, bgDone, bgParked int64

// the client library calls the user's handlers in a goroutine of its own (wired.go: `go its.callHandlers`): counted exactly
var hSpawned, hDone int64
var bgOnSpawn atomic.Value // func(): called in the request handler right before its post-push goroutine starts
var npParkFn atomic.Value  // func() chan struct{}: same, for a client's delivery goroutine at `client.needpush.read`
var bgParkFn atomic.Value  // func() chan struct{}: the channel the next goroutine reaching `beforeSnapshot` parks on (or nil)

func installBgHook() {
	bgParkFn.Store((func() chan struct{})(nil))
	npParkFn.Store((func() chan struct{})(nil))
	bgOnSpawn.Store((func())(nil))
	verifhook.SetHook(func(p string) {
		switch p {
		case "server.postpush.spawn":
			atomic.AddInt64(&bgSpawned, 1)
			if f, ok := bgOnSpawn.Load().(func()); ok && f != nil {
				f()
			}
		case "server.postpush.done":
			atomic.AddInt64(&bgDone, 1)
		case "client.handlers.spawn":
			atomic.AddInt64(&hSpawned, 1)
		case "client.handlers.done":
			atomic.AddInt64(&hDone, 1)
		case "client.needpush.read":
			// a delivery goroutine of a realtime client has just read "is anything left to push?"
			if f, ok := npParkFn.Load().(func() chan struct{}); ok && f != nil {
				if ch := f(); ch != nil {
					<-ch
				}
			}
		case "server.postpush.beforeSnapshot":
			if f, ok := bgParkFn.Load().(func() chan struct{}); ok && f != nil {
				if ch := f(); ch != nil {
					atomic.AddInt64(&bgParked, 1)
					<-ch
					atomic.AddInt64(&bgParked, -1)
				}
			}
		}
	})
}

// bgRunning = post-push goroutines that are neither finished, nor parked by the harness, nor blocked at the
// database gate of the harness
func (w *sworld) bgRunning() int64 {
	return atomic.LoadInt64(&bgSpawned) - atomic.LoadInt64(&bgDone) - atomic.LoadInt64(&bgParked) - int64(len(w.kit.Mongo.Held()))
}

func pushedSomething(packs []*model.PushPullPack) bool {
	for _, p := range packs {
		if len(p.Operations) > 0 {
			return true
		}
	}
	return false
}

func getKit() *srvkit.Kit {
	if theKit == nil {
		k, err := srvkit.New()
		if err != nil {
			panic(err)
		}
		theKit = k
		installBgHook()
	}
	return theKit
}

func newSWorld() *sworld {
	k := getKit()
	k.Mongo.FailAt(0)
	k.Mongo.FailFrom(0)
	k.Mongo.SetGate(nil)
	k.Mongo.ReleaseAll()
	k.Mongo.Restore(k.DB, map[string][]bson.M{})
	k.MQTT.Reset()
	return &sworld{kit: k, held: map[int][]*model.PushPullPack{}, heldRep: map[int][]int{}, spawn0: atomic.LoadInt64(&bgSpawned)}
}

func rpcCode(err error) int {
	if err == nil {
		return 0
	}
	if s, ok := status.FromError(err); ok {
		return int(s.Code())
	}
	return 999
}

func (w *sworld) stepMkCol(name string) (J, J, bool) {
	obs := J{}
	hung := guarded(obs, func() {
		_, err := w.kit.Service.CreateCollection(context.Background(), &model.CollectionMessage{Collection: name})
		obs["rpc"] = rpcCode(err)
	})
	return J{"k": "mkcol", "name": name}, obs, hung
}

func (w *sworld) stepReset(name string) (J, J, bool) {
	obs := J{}
	hung := guarded(obs, func() {
		_, err := w.kit.Service.ResetCollection(context.Background(), &model.CollectionMessage{Collection: name})
		obs["rpc"] = rpcCode(err)
	})
	return J{"k": "reset", "name": name}, obs, hung
}

// stepClient creates a client object bound to `col` and registers it with `regCol` (normally the same).
func (w *sworld) stepClient(col, regCol string, typ int) (J, J, bool) {
	idx := len(w.clients)
	c := orda.NewClient(orda.NewLocalClientConfig(col), fmt.Sprintf("cl%d", idx))
	probe := c.CreateCounter("-probe-", nil)
	cm := wrapper.NewDatatypeWrapper(probe).GetClientModel()
	cm.Type = model.ClientType(typ)
	sc := &sclient{col: col, client: c, cm: cm, typ: typ}
	w.clients = append(w.clients, sc)
	cmd := J{"k": "client", "c": idx, "col": col, "reg": regCol, "cuid": cm.CUID, "alias": cm.Alias, "typ": typ}
	obs := J{}
	hung := guarded(obs, func() {
		msg := model.NewClientMessage(cm)
		msg.Collection = regCol
		ctx, cancel := context.WithCancel(context.Background())
		_, err := w.kit.Service.ProcessClient(ctx, msg)
		cancel()
		obs["rpc"] = rpcCode(err)
	})
	time.Sleep(2 * time.Millisecond)
	return cmd, obs, hung
}

func stateName(s model.StateOfDatatype) string { return s.String() }

func (w *sworld) stepNewDt(c int, key, typ, mode string) (J, J, bool) {
	sc := w.clients[c]
	idx := len(w.reps)
	hl := &hlog{}
	h := orda.NewHandlers(
		func(dt orda.Datatype, old, new model.StateOfDatatype) {
			hl.add(J{"h": "state", "old": stateName(old), "new": stateName(new)})
		},
		func(dt orda.Datatype, ops []interface{}) { hl.add(J{"h": "remote"}) },
		func(dt orda.Datatype, errs ...errors.OrdaError) {
			codes := make([]interface{}, 0)
			for _, e := range errs {
				codes = append(codes, uint32(e.GetCode()))
			}
			hl.add(J{"h": "errors", "codes": codes})
		})
	var dt orda.Datatype
	t := map[string]model.TypeOfDatatype{"counter": model.TypeOfDatatype_COUNTER, "map": model.TypeOfDatatype_MAP,
		"list": model.TypeOfDatatype_LIST, "document": model.TypeOfDatatype_DOCUMENT}[typ]
	cl := sc.client
	switch mode {
	case "create":
		dt = cl.CreateDatatype(key, t, h)
	case "subscribe":
		switch typ {
		case "counter":
			dt = cl.SubscribeCounter(key, h)
		case "map":
			dt = cl.SubscribeMap(key, h)
		case "list":
			dt = cl.SubscribeList(key, h)
		default:
			dt = cl.SubscribeDocument(key, h)
		}
	default:
		switch typ {
		case "counter":
			dt = cl.SubscribeOrCreateCounter(key, h)
		case "map":
			dt = cl.SubscribeOrCreateMap(key, h)
		case "list":
			dt = cl.SubscribeOrCreateList(key, h)
		default:
			dt = cl.SubscribeOrCreateDocument(key, h)
		}
	}
	wd := dt.(iface.Datatype)
	r := &rep{typ: typ, client: cl, dt: dt, wired: wd, cuid: wd.GetCUID(), aid: idx}
	w.reps = append(w.reps, r)
	w.owner = append(w.owner, c)
	w.hl = append(w.hl, hl)
	cmd := J{"k": "newdt", "c": c, "r": idx, "key": key, "dt": typ, "mode": mode, "duid": wd.GetDUID()}
	obs := J{}
	hung := guarded(obs, func() { w.spost(idx, obs) })
	return cmd, obs, hung
}

func packJ(p *model.PushPullPack) interface{} {
	if p == nil {
		return nil
	}
	ops := make([]interface{}, 0, len(p.Operations))
	for _, o := range p.Operations {
		ops = append(ops, opJ(o))
	}
	var cp interface{}
	if p.CheckPoint != nil {
		cp = []interface{}{p.CheckPoint.Sseq, p.CheckPoint.Cseq}
	}
	return J{"key": p.Key, "duid": p.DUID, "opt": p.Option, "cp": cp, "typ": p.Type.String(), "ops": ops}
}

// spost: post-state of a service-level datatype: as post, plus state, id and the checkpoint
func (w *sworld) spost(i int, o J) {
	r := w.reps[i]
	buf := r.buffer()
	r.emitCur = len(buf) // emitted operations are observed through the request packs
	o["view"] = viewJ(r.dt)
	o["size"] = r.sizeJ()
	o["opid"] = r.opid()
	o["dstate"] = stateName(r.dt.GetState())
	o["duid"] = r.wired.GetDUID()
	pk := r.wired.CreatePushPullPack()
	o["cp"] = []interface{}{pk.CheckPoint.Sseq, pk.CheckPoint.Cseq - uint64(len(pk.Operations))}
	o["npending"] = len(pk.Operations)
}

func (w *sworld) waitHandlers(i int) []interface{} {
	var all []interface{}
	// exact: every handler goroutine that was started has finished (schedule points client.handlers.spawn/done);
	// the deadline only guards against a handler that never returns
	dl := time.Now().Add(10 * time.Second)
	for atomic.LoadInt64(&hDone) < atomic.LoadInt64(&hSpawned) && time.Now().Before(dl) {
		time.Sleep(100 * time.Microsecond)
	}
	all = append(all, w.hl[i].take()...)
	sort.Slice(all, func(a, b int) bool { return canonS(all[a]) < canonS(all[b]) })
	if all == nil {
		all = []interface{}{}
	}
	return all
}

func canonS(v interface{}) string { b, _ := json.Marshal(v); return string(b) }

// waitBackground waits until every post-push goroutine (notification + snapshot update) has finished, is parked
// by the harness (fault holdbg) or is blocked at the harness's database gate (faults holdsnap / nosnap): exact
// counters fed by the schedule points of verifhook; two consecutive readings must agree.  The deadline only
// guards against a goroutine that never ends (reported in the observation of the step as `bgTimeout`).
func (w *sworld) waitBackground() {
	w.waitBackgroundGoroutines()
	// every post-push goroutine that is finished, parked or blocked at the gate has sent its notification before
	// (QoS 0: the broker stand-in may record it a little later than the client returns): wait for the record
	want := int(atomic.LoadInt64(&bgSpawned) - w.spawn0)
	dl := time.Now().Add(1500 * time.Millisecond)
	for len(w.kit.MQTT.Publishes()) < want && time.Now().Before(dl) && w.bgRunning() <= 0 {
		time.Sleep(200 * time.Microsecond)
	}
	if got := len(w.kit.MQTT.Publishes()); got < want && w.bgRunning() <= 0 {
		w.spawn0 += int64(want - got) // a notification was not sent (fault, crash): do not wait for it again
	}
}

func (w *sworld) waitBackgroundGoroutines() {
	deadline := time.Now().Add(20 * time.Second)
	ok := 0
	lastLog, quietSince := -1, time.Now()
	for ok < 2 {
		if w.bgRunning() <= 0 {
			ok++
		} else {
			ok = 0
			// While the harness keeps an updater parked or blocked at its database gate, a later updater of the same
			// datatype waits for the snapshot lock (up to the lock's lease time) and issues no database command: it
			// is neither finished nor visibly blocked.  Only in that situation (profile snap11, whose store dumps
			// leave out the schedule-dependent snapshots) quiet time decides.
			if atomic.LoadInt64(&bgParked) > 0 || len(w.kit.Mongo.Held()) > 0 {
				if n := len(w.kit.Mongo.Log()); n != lastLog {
					lastLog, quietSince = n, time.Now()
				} else if time.Since(quietSince) > 30*time.Millisecond {
					return
				}
			}
		}
		if ok < 2 {
			if time.Now().After(deadline) {
				w.bgTimeout = true
				return
			}
			time.Sleep(200 * time.Microsecond)
		}
	}
}

// waitGateOrDone: if the request spawned a post-push goroutine, wait until it is blocked at the database gate or done
func (w *sworld) waitGateOrDone(spawnedBefore int64) {
	if atomic.LoadInt64(&bgSpawned) <= spawnedBefore {
		return
	}
	dl := time.Now().Add(20 * time.Second)
	lastLog, quietSince := -1, time.Now()
	for time.Now().Before(dl) && w.bgRunning() > 0 {
		// an updater that waits for the snapshot lock behind one the harness already holds (an earlier hold on the same
		// datatype) never reaches the gate: quiet time decides, as in waitBackground
		if atomic.LoadInt64(&bgParked) > 0 || len(w.kit.Mongo.Held()) > 0 {
			if n := len(w.kit.Mongo.Log()); n != lastLog {
				lastLog, quietSince = n, time.Now()
			} else if time.Since(quietSince) > 30*time.Millisecond {
				return
			}
		}
		time.Sleep(200 * time.Microsecond)
	}
}

func (w *sworld) notifs() []interface{} {
	pubs := w.kit.MQTT.Publishes()
	out := make([]interface{}, 0)
	for _, p := range pubs[w.pubSeen:] {
		var n model.Notification
		_ = json.Unmarshal(p.Payload, &n)
		out = append(out, J{"topic": p.Topic, "cuid": n.CUID, "duid": n.DUID, "sseq": n.Sseq})
	}
	w.pubSeen = len(pubs)
	return out
}

type mutation struct {
	Opt     *uint32  `json:"opt,omitempty"`
	CP      []uint64 `json:"cp,omitempty"`
	NoCP    bool     `json:"nocp,omitempty"`
	DropOps int      `json:"dropops,omitempty"` // drop the first n operations (gap)
	DupOps  bool     `json:"dupops,omitempty"`  // repeat the operation list
	NoOps   bool     `json:"noops,omitempty"`
	DUID    string   `json:"duid,omitempty"`
	Key     string   `json:"key,omitempty"`
	Typ     string   `json:"typ,omitempty"`
	Cuid    string   `json:"cuid,omitempty"` // request-level: claim another client id
	Col     string   `json:"col,omitempty"`  // request-level: name another collection
	NilID   bool     `json:"nilid,omitempty"`
}

func applyMut(p *model.PushPullPack, m *mutation) {
	if m == nil {
		return
	}
	if m.Opt != nil {
		p.Option = *m.Opt
	}
	if len(m.CP) == 2 {
		p.CheckPoint = &model.CheckPoint{Sseq: m.CP[0], Cseq: m.CP[1]}
	}
	if m.DropOps > 0 && len(p.Operations) > 0 {
		n := m.DropOps
		if n > len(p.Operations) {
			n = len(p.Operations)
		}
		p.Operations = p.Operations[n:]
	}
	if m.DupOps {
		p.Operations = append(append([]*model.Operation{}, p.Operations...), p.Operations...)
	}
	if m.NoOps {
		p.Operations = nil
	}
	if m.DUID != "" {
		p.DUID = m.DUID
	}
	if m.Key != "" {
		p.Key = m.Key
	}
	if m.Typ != "" {
		p.Type = model.TypeOfDatatype(model.TypeOfDatatype_value[m.Typ])
	}
}

// stepSync: one push-pull exchange of client c for the datatypes rs.
// fault: "" (deliver once, apply), "dup" (deliver twice, apply the second response), "dup1" (deliver
// twice, apply the first), "drop" (deliver, response lost), "late" (deliver, response held as `hold`).
func (w *sworld) stepSync(c int, rs []int, fault string, hold int, mut *mutation) (J, J, bool) {
	sc := w.clients[c]
	cmd := J{"k": "sync", "c": c, "rs": rs}
	if fault != "" {
		cmd["fault"] = fault
	}
	if fault == "late" {
		cmd["hold"] = hold
	}
	if mut != nil {
		b, _ := json.Marshal(mut)
		var mj J
		_ = json.Unmarshal(b, &mj)
		cmd["mut"] = mj
	}
	obs := J{}
	if w.out != nil {
		// written before the request is sent: if the server code takes the process down, the trace
		// still names the request that did it
		ic := J{}
		for k, v := range cmd {
			ic[k] = v
		}
		ic["k"] = "intent"
		ic["of"] = "sync"
		w.out(ic, J{})
	}
	hung := guarded(obs, func() {
		var packs []*model.PushPullPack
		pre := make([]interface{}, 0)
		for _, r := range rs {
			p := w.reps[r].wired.CreatePushPullPack()
			// the client side before the exchange (what a refused exchange has to leave as it is)
			pre = append(pre, J{"r": r, "cp": []interface{}{p.CheckPoint.Sseq, p.CheckPoint.Cseq - uint64(len(p.Operations))},
				"npending": len(p.Operations), "view": viewJ(w.reps[r].dt), "key": w.reps[r].wired.GetKey()})
			applyMut(p, mut)
			packs = append(packs, p)
		}
		obs["pre"] = pre
		reqJ := make([]interface{}, 0)
		for _, p := range packs {
			reqJ = append(reqJ, packJ(p))
		}
		obs["req"] = reqJ
		send := func() (*model.PushPullMessage, error) {
			sc.seq++
			cm := sc.cm
			msg := model.NewPushPullMessage(sc.seq, cm, packs...)
			if mut != nil && mut.Cuid != "" {
				msg.Cuid = mut.Cuid
			}
			if mut != nil && mut.Col != "" {
				msg.Collection = mut.Col
			}
			// through the wire form, as gRPC would
			ctx, cancel := context.WithCancel(context.Background())
			defer cancel()
			return w.kit.Service.ProcessPushPull(ctx, cloneMsg(msg))
		}
		if fault == "nosnap" || fault == "holdsnap" {
			w.kit.Mongo.SetGate(func(c memmongo.CmdRecord) bool { return c.Coll == "-_-Snapshots" && c.Name == "find" })
		}
		if fault == "holdread" {
			// the background updater of this push is stopped AFTER it has read the latest snapshot, at its read of the later
			// operations (the request's own reads of that collection are over when the post-push goroutine is spawned):
			// between reading and writing.  Later pushes of the datatype run their updaters meanwhile.
			bgOnSpawn.Store(func() {
				w.kit.Mongo.SetGate(func(c memmongo.CmdRecord) bool { return c.Coll == "-_-Operations" && c.Name == "find" })
				bgOnSpawn.Store((func())(nil))
			})
		}
		spawnedBefore := atomic.LoadInt64(&bgSpawned)
		parkedBefore := atomic.LoadInt64(&bgParked)
		if fault == "holdbg" {
			// the post-push goroutine of this request is parked BEFORE it tries the snapshot lock: later
			// pushes update the snapshot first, this updater runs late with its old end of log
			var once sync.Once
			bgParkFn.Store(func() chan struct{} {
				var ch chan struct{}
				once.Do(func() {
					ch = make(chan struct{})
					bgMu.Lock()
					w.bgHeld = append(w.bgHeld, ch)
					bgMu.Unlock()
				})
				return ch
			})
		}
		resp, err := send()
		if fault == "holdbg" {
			// exact: the handler fired `spawn` before it returned; if it did, wait until that goroutine is parked
			if atomic.LoadInt64(&bgSpawned) > spawnedBefore {
				dl := time.Now().Add(20 * time.Second)
				for time.Now().Before(dl) {
					if atomic.LoadInt64(&bgParked) > parkedBefore || w.bgRunning() <= 0 {
						break
					}
					time.Sleep(200 * time.Microsecond)
				}
			}
			bgParkFn.Store((func() chan struct{})(nil))
		}
		if fault == "nosnap" {
			w.waitGateOrDone(spawnedBefore)
			if h := w.kit.Mongo.Held(); len(h) > 0 {
				w.kit.Mongo.FailFrom(h[0].Seq)
			}
			w.kit.Mongo.SetGate(nil)
			w.kit.Mongo.ReleaseAll()
			w.waitBackground()
			w.kit.Mongo.FailFrom(0)
		}
		if fault == "holdread" {
			bgOnSpawn.Store((func())(nil))
			w.waitGateOrDone(spawnedBefore)
			w.kit.Mongo.SetGate(nil)
		}
		if fault == "holdsnap" {
			// the background updater of this push stays blocked at its first command until `release`
			w.waitGateOrDone(spawnedBefore)
			w.kit.Mongo.SetGate(nil)
		}
		time.Sleep(2 * time.Millisecond)
		w.waitBackground()
		if fault == "dup" || fault == "dup1" {
			resp2, err2 := send()
			time.Sleep(2 * time.Millisecond)
			w.waitBackground()
			obs["rpc2"] = rpcCode(err2)
			if fault == "dup" {
				obs["resp1"] = respJ(resp)
				resp, err = resp2, err2
			} else {
				obs["resp2"] = respJ(resp2)
			}
		}
		obs["rpc"] = rpcCode(err)
		obs["resp"] = respJ(resp)
		obs["notifs"] = w.notifs()
		if err != nil || resp == nil {
			return
		}
		switch fault {
		case "drop":
		case "late":
			w.held[hold] = resp.PushPullPacks
			w.heldRep[hold] = rs
		default:
			obs["posts"] = w.applyPacks(rs, resp.PushPullPacks)
		}
	})
	return cmd, obs, hung
}

func respJ(resp *model.PushPullMessage) interface{} {
	if resp == nil {
		return nil
	}
	out := make([]interface{}, 0)
	for _, p := range resp.PushPullPacks {
		out = append(out, packJ(p))
	}
	sort.Slice(out, func(a, b int) bool { return out[a].(J)["key"].(string) < out[b].(J)["key"].(string) })
	return out
}

func cloneMsg(m *model.PushPullMessage) *model.PushPullMessage {
	b, err := json.Marshal(m)
	if err != nil {
		return m
	}
	var out model.PushPullMessage
	if json.Unmarshal(b, &out) != nil {
		return m
	}
	return &out
}

func (w *sworld) applyPacks(rs []int, packs []*model.PushPullPack) []interface{} {
	posts := make([]interface{}, 0)
	for _, r := range rs {
		rp := w.reps[r]
		o := J{"r": r}
		for _, p := range packs {
			if p.Key == rp.wired.GetKey() {
				pp := p
				guarded(o, func() { rp.wired.ApplyPushPullPack(pp) })
				break
			}
		}
		o["handlers"] = w.waitHandlers(r)
		guarded(o, func() { w.spost(r, o) })
		posts = append(posts, o)
	}
	return posts
}

func (w *sworld) stepRelease() (J, J, bool) {
	obs := J{}
	hung := guarded(obs, func() {
		obs["held"] = len(w.kit.Mongo.Held())
		w.kit.Mongo.ReleaseAll()
		time.Sleep(2 * time.Millisecond)
		w.waitBackground()
		bgMu.Lock()
		parked := w.bgHeld
		w.bgHeld = nil
		bgMu.Unlock()
		obs["parked"] = len(parked)
		for _, ch := range parked { // one at a time, oldest first
			close(ch)
			time.Sleep(2 * time.Millisecond)
			w.waitBackground()
		}
		w.notifs()
	})
	return J{"k": "release"}, obs, hung
}

func (w *sworld) stepApplyLate(hold int) (J, J, bool) {
	obs := J{}
	packs, rs := w.held[hold], w.heldRep[hold]
	delete(w.held, hold)
	hung := guarded(obs, func() {
		if packs != nil {
			obs["posts"] = w.applyPacks(rs, packs)
		} else {
			obs["posts"] = []interface{}{}
		}
	})
	return J{"k": "applylate", "hold": hold}, obs, hung
}

func (w *sworld) stepPatch(col, key string, target interface{}) (J, J, bool) {
	obs := J{}
	before := w.storeJ()
	hung := guarded(obs, func() {
		js, _ := json.Marshal(target)
		ctx, cancel := context.WithCancel(context.Background())
		res, err := w.kit.Service.PatchDocument(ctx, &model.PatchMessage{Collection: col, Key: key, Json: string(js)})
		cancel()
		obs["rpc"] = rpcCode(err)
		if res != nil {
			var v interface{}
			_ = json.Unmarshal([]byte(res.Json), &v)
			obs["json"] = v
		} else {
			obs["json"] = nil
		}
		time.Sleep(2 * time.Millisecond)
		w.waitBackground()
		obs["notifs"] = w.notifs()
	})
	// the temporary replica's random ids, read back from what it stored (the model is told them)
	cmd := J{"k": "patch", "col": col, "key": key, "json": target, "duid": "", "cuid": ""}
	after := w.storeJ()
	nb := len(before["operations"].([]interface{}))
	ops := after["operations"].([]interface{})
	if len(ops) > nb {
		last := ops[len(ops)-1].(J)
		cmd["duid"] = last["duid"]
		if id, ok := last["op"].(J)["id"].([]interface{}); ok && len(id) == 4 {
			cmd["cuid"] = id[2]
		}
	}
	return cmd, obs, hung
}

// stepPatchPair: two REST patches of one key that OVERLAP: the first is stopped at its commit point (it holds the patch lock and
// the push lock of the key), the second arrives meanwhile and has to wait; then the first is released.  One-at-a-time semantics:
// patch 1, then patch 2 computed against the document patch 1 left.  Emits two `patch` steps in that order.
func (w *sworld) stepPatchPair(col, key string, t1, t2 interface{}, emit func(J, J, bool) bool) bool {
	before := w.storeJ()
	nb := len(before["operations"].([]interface{}))
	type res struct {
		rpc  int
		json interface{}
		done chan struct{}
	}
	call := func(target interface{}, r *res) {
		defer close(r.done)
		defer func() { _ = recover() }()
		js, _ := json.Marshal(target)
		ctx, cancel := context.WithCancel(context.Background())
		out, err := w.kit.Service.PatchDocument(ctx, &model.PatchMessage{Collection: col, Key: key, Json: string(js)})
		cancel()
		r.rpc = rpcCode(err)
		if out != nil {
			var v interface{}
			_ = json.Unmarshal([]byte(out.Json), &v)
			r.json = v
		}
	}
	r1, r2 := &res{done: make(chan struct{})}, &res{done: make(chan struct{})}
	w.out(J{"k": "intent", "of": "patch", "col": col, "key": key, "pair": true}, J{})
	w.kit.Mongo.SetGate(func(cr memmongo.CmdRecord) bool { return cr.Name == "update" && cr.Coll == "-_-Datatypes" })
	go call(t1, r1)
	for t := 0; t < 20000 && len(w.kit.Mongo.Held()) == 0; t++ {
		select {
		case <-r1.done:
			t = 20000
		default:
			time.Sleep(200 * time.Microsecond)
		}
	}
	w.kit.Mongo.SetGate(nil)
	// operations are inserted before the datatype record is updated: what is stored now beyond nb is patch 1's
	n1 := len(w.storeJ()["operations"].([]interface{}))
	go call(t2, r2)
	time.Sleep(60 * time.Millisecond)
	// patch 2 is stopped at ITS commit point in turn, until the background snapshot update that patch 1 started has finished:
	// the order the one-at-a-time reading has (otherwise the two updaters race, which is legitimate but not what is compared here)
	var armed int32 = 1
	w.kit.Mongo.SetGate(func(cr memmongo.CmdRecord) bool {
		return cr.Name == "update" && cr.Coll == "-_-Datatypes" && atomic.CompareAndSwapInt32(&armed, 1, 0)
	})
	w.kit.Mongo.ReleaseAll()
	hung := false
	select {
	case <-r1.done:
	case <-time.After(20 * time.Second):
		hung = true
	}
	for t := 0; t < 25000 && atomic.LoadInt64(&bgSpawned) != atomic.LoadInt64(&bgDone); t++ {
		time.Sleep(200 * time.Microsecond)
	}
	w.kit.Mongo.SetGate(nil)
	w.kit.Mongo.ReleaseAll()
	select {
	case <-r2.done:
	case <-time.After(20 * time.Second):
		hung = true
	}
	time.Sleep(2 * time.Millisecond)
	w.waitBackground()
	notifs := w.notifs()
	after := w.storeJ()
	ops := after["operations"].([]interface{})
	// the temporary replicas' ids: patch 1's operations are ops[nb:n1], patch 2's the rest
	cuidOf := func(from, to int) (string, string) {
		if to > len(ops) {
			to = len(ops)
		}
		for _, o := range ops[from:to] {
			oj := o.(J)
			if id, ok := oj["op"].(J)["id"].([]interface{}); ok && len(id) == 4 {
				return fmt.Sprint(oj["duid"]), fmt.Sprint(id[2])
			}
		}
		return "", ""
	}
	var duids, cuids [2]string
	duids[0], cuids[0] = cuidOf(nb, n1)
	duids[1], cuids[1] = cuidOf(n1, len(ops))
	var nsplit [2][]interface{}
	nsplit[0], nsplit[1] = []interface{}{}, []interface{}{}
	for _, n := range notifs {
		if cuids[0] != "" && fmt.Sprint(n.(J)["cuid"]) == cuids[0] {
			nsplit[0] = append(nsplit[0], n)
		} else {
			nsplit[1] = append(nsplit[1], n)
		}
	}
	for i, pr := range []struct {
		t interface{}
		r *res
	}{{t1, r1}, {t2, r2}} {
		cmd := J{"k": "patch", "col": col, "key": key, "json": pr.t, "duid": duids[i], "cuid": cuids[i], "pair": i + 1}
		obs := J{"rpc": pr.r.rpc, "json": pr.r.json, "notifs": nsplit[i]}
		if hung {
			obs["hang"] = true
		}
		if emit(cmd, obs, hung) {
			return true
		}
	}
	return false
}

// --- canonical dump of the store ------------------------------------------------------------

func num(v interface{}) int64 {
	switch x := v.(type) {
	case int32:
		return int64(x)
	case int64:
		return x
	case float64:
		return int64(x)
	case int:
		return int64(x)
	}
	return 0
}

func str(v interface{}) string { s, _ := v.(string); return s }

func subClients(v interface{}) interface{} {
	out := J{}
	m, ok := v.(bson.M)
	if !ok {
		return out
	}
	for cuid, e := range m {
		em, _ := e.(bson.M)
		cp, _ := em["cp"].(bson.M)
		out[cuid] = J{"cp": []interface{}{num(cp["s"]), num(cp["c"])}, "t": num(em["t"])}
	}
	return out
}

func bytesOf(v interface{}) []byte {
	switch x := v.(type) {
	case primitive.Binary:
		return x.Data
	case []byte:
		return x
	}
	return nil
}

func (w *sworld) stepStore() (J, J, bool) {
	obs := J{}
	hung := guarded(obs, func() {
		st := w.storeJ()
		// the recorded version of every user-visible document, also in lite dumps (C11: it never decreases)
		uv := J{}
		for _, u := range st["userDocs"].([]interface{}) {
			if uj, ok := u.(J); ok {
				uv[fmt.Sprint(uj["col"])+"/"+fmt.Sprint(uj["key"])] = uj["ver"]
			}
		}
		obs["userVers"] = uv
		if w.lite {
			st["snapshots"] = []interface{}{}
			st["userDocs"] = []interface{}{}
		}
		obs["store"] = st
		if w.bgTimeout {
			obs["bgTimeout"] = true // a post-push goroutine did not end within the deadline: never equal to the model
		}
	})
	cmd := J{"k": "store"}
	if w.lite {
		cmd["lite"] = true
	}
	return cmd, obs, hung
}

func (w *sworld) storeJ() J {
	d := w.kit.Mongo.Dump(w.kit.DB)
	out := J{}
	cols := make([]interface{}, 0)
	colNames := map[string]bool{}
	for _, c := range d["-_-Collections"] {
		cols = append(cols, J{"name": str(c["_id"]), "num": num(c["num"])})
		colNames[str(c["_id"])] = true
	}
	out["collections"] = cols
	var counter interface{}
	for _, c := range d["-_-ColNumGenerator"] {
		counter = num(c["num"])
	}
	out["counter"] = counter
	cls := make([]interface{}, 0)
	for _, c := range d["-_-Clients"] {
		cls = append(cls, J{"cuid": str(c["_id"]), "alias": str(c["alias"]), "colNum": num(c["colNum"]), "typ": num(c["type"])})
	}
	out["clients"] = cls
	dts := make([]interface{}, 0)
	for _, c := range d["-_-Datatypes"] {
		sq, _ := c["sseq"].(bson.M)
		dts = append(dts, J{"duid": str(c["_id"]), "key": str(c["key"]), "colNum": num(c["colNum"]), "typ": str(c["type"]),
			"begin": num(sq["begin"]), "end": num(sq["end"]), "visible": c["visible"],
			"rw": subClients(c["rwClients"]), "ro": subClients(c["roClients"])})
	}
	out["datatypes"] = dts
	ops := make([]interface{}, 0)
	for _, c := range d["-_-Operations"] {
		id, _ := c["id"].(bson.M)
		mop := &model.Operation{
			ID:     &model.OperationID{Era: uint32(num(id["era"])), Lamport: uint64(num(id["lamport"])), CUID: str(id["cuid"]), Seq: uint64(num(id["seq"]))},
			OpType: model.TypeOfOperation(model.TypeOfOperation_value[str(c["type"])]),
			Body:   bytesOf(c["body"]),
		}
		ops = append(ops, J{"_id": str(c["_id"]), "duid": str(c["duid"]), "colNum": num(c["colNum"]), "sseq": num(c["sseq"]), "op": opJ(mop)})
	}
	out["operations"] = ops
	snaps := make([]interface{}, 0)
	for _, c := range d["-_-Snapshots"] {
		var meta model.DatatypeMeta
		_ = json.Unmarshal([]byte(str(c["meta"])), &meta)
		typ := map[model.TypeOfDatatype]string{0: "counter", 1: "map", 2: "list", 3: "document"}[meta.TypeOf]
		snaps = append(snaps, J{"_id": str(c["_id"]), "duid": str(c["duid"]), "colNum": num(c["colNum"]), "sseq": num(c["sseq"]),
			"key": meta.Key, "opid": opidJ(meta.OpID), "snap": canonState(typ, bytesOf(c["snapshot"]))})
	}
	out["snapshots"] = snaps
	uds := make([]interface{}, 0)
	for name, docs := range d {
		if len(name) > 3 && name[:3] == "-_-" {
			continue
		}
		for _, c := range docs {
			v := J{}
			var ver interface{}
			for k, x := range c {
				switch k {
				case "_id":
				case "_orda_ver_":
					ver = num(x)
				default:
					v[k] = x
				}
			}
			b, _ := bson.MarshalExtJSON(bson.M(v), false, false)
			var vv interface{}
			_ = json.Unmarshal(b, &vv)
			uds = append(uds, J{"col": name, "key": str(c["_id"]), "ver": ver, "value": vv})
		}
	}
	out["userDocs"] = uds
	return out
}
