package main

import (
	"fmt"
	"os"
	"runtime/debug"
	"sort"
	"time"

	"github.com/orda-io/orda/client/pkg/errors"
	"github.com/orda-io/orda/client/pkg/model"
	"github.com/orda-io/orda/client/pkg/orda"
)

var stepDeadline = 5 * time.Second

// guarded runs f with panic recovery and a deadline; sets obs["panic"] / obs["hang"].
func guarded(obs J, f func()) (hung bool) { return guardedFor(obs, stepDeadline, f) }

// guardedFor: the same with an explicit deadline (cases that run several real clients for a while)
func guardedFor(obs J, limit time.Duration, f func()) (hung bool) {
	done := make(chan struct{})
	go func() {
		defer close(done)
		defer func() {
			if r := recover(); r != nil {
				obs["panic"] = true
				obs["panicMsg"] = fmt.Sprint(r)
				if os.Getenv("VERIF_DEBUG") != "" {
					obs["panicStack"] = string(debug.Stack())
				}
			}
		}()
		f()
	}()
	select {
	case <-done:
		return false
	case <-time.After(limit):
		obs["hang"] = true
		return true
	}
}

func toIfaceSlice(v interface{}) []interface{} {
	if v == nil {
		return nil
	}
	if s, ok := v.([]interface{}); ok {
		return s
	}
	return nil
}

func asInt(v interface{}) int {
	switch x := v.(type) {
	case int:
		return x
	case int64:
		return int(x)
	case float64:
		return int(x)
	}
	return 0
}

// doCall performs one public API call `m` with arguments `a` on datatype dt (which may be the
// transaction-scoped clone); returns (ret, errCode).
func doCall(dt interface{}, m string, a J) (interface{}, uint32) {
	var ret interface{}
	var err errors.OrdaError
	switch m {
	case "inc":
		ret, err = dt.(orda.CounterInTx).IncreaseBy(int32(asInt(a["d"])))
		if err != nil {
			ret = nil
		}
	case "mput":
		ret, err = dt.(orda.MapInTx).Put(a["k"].(string), a["v"])
	case "mremove":
		ret, err = dt.(orda.MapInTx).Remove(a["k"].(string))
	case "mget":
		ret = dt.(orda.MapInTx).Get(a["k"].(string))
	case "msize":
		ret = dt.(orda.MapInTx).Size()
	case "linsert":
		ret, err = dt.(orda.ListInTx).InsertMany(asInt(a["pos"]), toIfaceSlice(a["vs"])...)
	case "ldelete":
		ret, err = dt.(orda.ListInTx).Delete(asInt(a["pos"]))
	case "ldeleteMany":
		var r []interface{}
		r, err = dt.(orda.ListInTx).DeleteMany(asInt(a["pos"]), asInt(a["n"]))
		ret = vals(r)
	case "lupdate":
		var r []interface{}
		r, err = dt.(orda.ListInTx).Update(asInt(a["pos"]), toIfaceSlice(a["vs"])...)
		ret = vals(r)
	case "lget":
		ret, err = dt.(orda.ListInTx).Get(asInt(a["pos"]))
	case "lgetMany":
		var r []interface{}
		r, err = dt.(orda.ListInTx).GetMany(asInt(a["pos"]), asInt(a["n"]))
		ret = vals(r)
	case "lsize":
		ret = dt.(orda.ListInTx).Size()
	default:
		return docCall(dt, m, a)
	}
	if err != nil {
		return nil, errCode(err)
	}
	return ret, 0
}

func splitHandle(a J) (string, J) {
	h, _ := a["_h"].(string)
	if _, ok := a["_h"]; !ok {
		return "", a
	}
	b := J{}
	for k, v := range a {
		if k != "_h" {
			b[k] = v
		}
	}
	return h, b
}

func (w *world) stepCall(i int, m string, a J) (J, J, bool) {
	hname, a := splitHandle(a)
	cmd := J{"k": "call", "r": i, "m": m, "a": a}
	if hname != "" {
		cmd["h"] = hname
	}
	obs := J{}
	r := w.reps[i]
	hung := guarded(obs, func() {
		var target interface{} = r.dt
		if hname != "" {
			target = r.handle(hname)
		}
		ret, code := doCall(target, m, a)
		obs["ret"] = ret
		obs["err"] = code
	})
	if _, ok := obs["err"]; !ok {
		obs["ret"] = nil
		obs["err"] = 0
	}
	if !hung {
		if w.svc && w.spostFn != nil {
			guarded(obs, func() { w.spostFn(i, obs) })
		} else {
			guarded(obs, func() { r.post(obs) })
		}
	}
	return cmd, obs, hung
}

type txErr struct{}

func (txErr) Error() string { return "body failed" }

func (w *world) stepTx(i int, tag string, calls []J, stop, fail bool) (J, J, bool) {
	cs := make([]interface{}, 0, len(calls))
	for ci, c := range calls {
		if c["a"] != nil {
			_, a := splitHandle(c["a"].(J))
			c = J{"m": c["m"], "a": a}
			calls[ci] = c
		}
		cs = append(cs, c)
	}
	cmd := J{"k": "tx", "r": i, "tag": tag, "calls": cs, "stop": stop, "fail": fail}
	obs := J{}
	r := w.reps[i]
	outs := make([]interface{}, 0)
	body := func(dt interface{}) error {
		for _, c := range calls {
			var a J
			if c["a"] != nil {
				a = c["a"].(J)
			}
			// inside a transaction the generator addresses the root document only (a handle obtained
			// outside the transaction must not be used inside its body)
			ret, code := doCall(dt, c["m"].(string), a)
			outs = append(outs, J{"ret": ret, "err": code})
			if code != 0 && stop {
				return txErr{}
			}
		}
		if fail {
			return txErr{}
		}
		return nil
	}
	hung := guarded(obs, func() {
		var err error
		switch d := r.dt.(type) {
		case orda.Counter:
			err = d.Transaction(tag, func(c orda.CounterInTx) error { return body(c) })
		case orda.Map:
			err = d.Transaction(tag, func(c orda.MapInTx) error { return body(c) })
		case orda.List:
			err = d.Transaction(tag, func(c orda.ListInTx) error { return body(c) })
		case orda.Document:
			err = d.Transaction(tag, func(c orda.DocumentInTx) error { return body(c) })
		}
		if err != nil {
			if oe, ok := err.(errors.OrdaError); ok {
				obs["err"] = errCode(oe)
			} else {
				obs["err"] = 999
			}
		} else {
			obs["err"] = 0
		}
	})
	if _, ok := obs["err"]; !ok {
		obs["err"] = 0
	}
	obs["outs"] = outs
	if !hung {
		guarded(obs, func() { r.post(obs) })
	}
	return cmd, obs, hung
}

func (w *world) stepPub(i int) (J, J, bool) {
	r := w.reps[i]
	buf := r.buffer()
	units := splitUnits(buf[r.pubCur:])
	for _, u := range units {
		w.log = append(w.log, unit{author: r.aid, ops: u})
	}
	r.pubCur = len(buf)
	return J{"k": "pub", "r": i}, J{"units": len(units)}, false
}

func (w *world) stepDlv(j, n int, mut string) (J, J, bool) {
	cmd := J{"k": "dlv", "r": j, "n": n}
	if mut != "" {
		cmd["mut"] = mut
	}
	r := w.reps[j]
	var ops []*model.Operation
	cnt := 0
	cur := r.dlvCur
	for cnt < n && cur < len(w.log) {
		u := w.log[cur]
		cur++
		if u.author == r.aid {
			continue
		}
		uo := u.ops
		if mut != "" {
			uo = mutateUnit(mut, uo)
		}
		for _, o := range uo {
			ops = append(ops, cloneOp(o))
		}
		cnt++
	}
	r.dlvCur = cur
	ids := make([]interface{}, 0, len(ops))
	for _, o := range ops {
		ids = append(ids, opidJ(o.ID))
	}
	obs := J{"n": cnt, "ids": ids}
	hung := guarded(obs, func() {
		_, err := r.wired.ReceiveRemoteModelOperations(ops, false)
		obs["err"] = errCode(err)
	})
	if _, ok := obs["err"]; !ok {
		obs["err"] = 0
	}
	if !hung {
		guarded(obs, func() { r.post(obs) })
	}
	return cmd, obs, hung
}

// stepSnap exports replica i and imports it into a fresh instance appended as a new replica (its twin).
func (w *world) stepSnap(i int) (J, J, bool) {
	src := w.reps[i]
	cmd := J{"k": "snap", "r": i}
	obs := J{}
	var nr *rep
	hung := guarded(obs, func() {
		meta, snap, err := src.wired.GetMetaAndSnapshot()
		if err != nil {
			obs["err"] = errCode(err)
			return
		}
		// the importing instance: every other time one that was CREATED through the client API (as
		// server/snapshot/manager.go does) and therefore has executed an operation of its own before the import
		created := len(w.reps)%2 == 1
		nr = newRep(src.typ, created, len(w.reps))
		if created {
			nr.wired.ResetWired() // its buffered creation operation is not part of the imported history
		}
		obs["created"] = created
		if err := nr.wired.SetMetaAndSnapshot(meta, snap); err != nil {
			obs["err"] = errCode(err)
			return
		}
		// make every later local operation of the copy visible through CreatePushPullPack
		pack := src.wired.CreatePushPullPack()
		nr.wired.SetCheckPoint(0, pack.CheckPoint.Cseq)
		nr.cuid = src.cuid
		nr.aid = src.aid
		nr.dlvCur = src.dlvCur
	})
	if nr == nil {
		obs["failed"] = true
		return cmd, obs, true
	}
	w.reps = append(w.reps, nr)
	if !hung {
		guarded(obs, func() { nr.post(obs) })
		obs["resetTwins"] = resetTwins(src)
	}
	return cmd, obs, hung
}

// resetTwins: what server/snapshot/manager.go does with a stored snapshot — import it into a created instance and call
// ResetWired() — must not change how the copy treats LATER local operations: two fresh copies of `src`, one reset after the
// import and one not, execute the same local operation (one that competes with state already in the snapshot) and are compared.
// Implementation-side only (the model's world does not contain these two instances).
func resetTwins(src *rep) J {
	out := J{}
	defer func() {
		if r := recover(); r != nil {
			out["panic"] = fmt.Sprint(r)
		}
	}()
	meta, snap, err := src.wired.GetMetaAndSnapshot()
	if err != nil {
		return out
	}
	mk := func(reset bool, idx int) *rep {
		nr := newRep(src.typ, true, idx)
		nr.wired.ResetWired()
		if e := nr.wired.SetMetaAndSnapshot(meta, snap); e != nil {
			return nil
		}
		if reset {
			nr.wired.ResetWired()
		}
		return nr
	}
	a, b := mk(false, 9000), mk(true, 9001)
	if a == nil || b == nil {
		return out
	}
	firstKey := func(v interface{}) string {
		m, ok := v.(map[string]interface{})
		if !ok {
			if mj, ok2 := v.(J); ok2 {
				m = map[string]interface{}(mj)
			}
		}
		keys := make([]string, 0, len(m))
		for k := range m {
			keys = append(keys, k)
		}
		sort.Strings(keys)
		if len(keys) > 0 {
			return keys[0]
		}
		return "rtk"
	}
	apply := func(r *rep) {
		defer func() { _ = recover() }()
		switch d := r.dt.(type) {
		case orda.Counter:
			_, _ = d.IncreaseBy(3)
		case orda.Map:
			_, _ = d.Put(firstKey(viewJ(d)), "rt")
		case orda.List:
			if d.Size() > 0 {
				_, _ = d.Update(0, "rt")
			} else {
				_, _ = d.InsertMany(0, "rt")
			}
		case orda.Document:
			_, _ = d.PutToObject(firstKey(viewJ(d)), "rt")
		}
	}
	apply(a)
	apply(b)
	out["plain"] = viewJ(a.dt)
	out["reset"] = viewJ(b.dt)
	return out
}

func (w *world) stepObs(i int) (J, J, bool) {
	r := w.reps[i]
	obs := J{}
	hung := guarded(obs, func() {
		obs["view"] = viewJ(r.dt)
		obs["size"] = r.sizeJ()
		obs["opid"] = r.opid()
		obs["dump"] = r.dump()
	})
	return J{"k": "obs", "r": i}, obs, hung
}
