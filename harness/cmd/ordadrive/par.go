package main

// C12: real parallel executions of ProcessPushPull (each call with its own request context that is
// cancelled when the call returns, as gRPC does) over shared and distinct keys.  The exchanges of one
// round are afterwards written to the trace as ordinary `sync` steps in a SERIAL order derived from the
// responses (per key: by the end of log each handler committed); the model then executes them one at a
// time — agreement means the parallel execution was equivalent to that one-at-a-time order.

import (
	"context"
	"fmt"
	"os"
	"runtime"
	"sort"
	"strings"
	"sync"
	"sync/atomic"
	"time"

	ocontext "github.com/orda-io/orda/client/pkg/context"
	"github.com/orda-io/orda/server/constants"

	"github.com/orda-io/orda/client/pkg/model"
	"verifharness/memmongo"
)

type parRes struct {
	c    int
	r    int
	req  []*model.PushPullPack
	resp *model.PushPullMessage
	err  error
	hung bool
}

func (s *sgen) parallelRound(clients []int) bool {
	w := s.w
	var results []*parRes
	for _, c := range clients {
		rs := s.repsOf(c)
		if len(rs) == 0 {
			continue
		}
		r := rs[0]
		p := w.reps[r].wired.CreatePushPullPack()
		results = append(results, &parRes{c: c, r: r, req: []*model.PushPullPack{p}})
	}
	var wg sync.WaitGroup
	start := make(chan struct{})
	for _, pr := range results {
		wg.Add(1)
		go func(pr *parRes) {
			defer wg.Done()
			sc := w.clients[pr.c]
			msg := model.NewPushPullMessage(0, sc.cm, pr.req...)
			done := make(chan struct{})
			<-start
			go func() {
				defer close(done)
				defer func() { _ = recover() }()
				ctx, cancel := context.WithCancel(context.Background())
				pr.resp, pr.err = w.kit.Service.ProcessPushPull(ctx, cloneMsg(msg))
				cancel()
			}()
			select {
			case <-done:
			case <-time.After(20 * time.Second):
				pr.hung = true
			}
		}(pr)
	}
	close(start)
	wg.Wait()
	time.Sleep(2 * time.Millisecond)
	w.waitBackground()
	notifs := w.notifs()
	endOf := func(pr *parRes) (string, uint64, int) {
		if pr.resp == nil || len(pr.resp.PushPullPacks) == 0 || pr.resp.PushPullPacks[0].CheckPoint == nil {
			return "", 0, 1
		}
		pk := pr.resp.PushPullPacks[0]
		pushed := 1
		if len(pr.req[0].Operations) > 0 {
			pushed = 0
		}
		return pk.Key, pk.CheckPoint.Sseq, pushed
	}
	sort.SliceStable(results, func(a, b int) bool {
		ka, ea, pa := endOf(results[a])
		kb, eb, pb := endOf(results[b])
		if ka != kb {
			return ka < kb
		}
		if ea != eb {
			return ea < eb
		}
		return pa < pb
	})
	for _, pr := range results {
		cmd := J{"k": "sync", "c": pr.c, "rs": []int{pr.r}, "parallel": true}
		obs := J{}
		if pr.hung {
			obs["hang"] = true
			s.emit(cmd, obs, true)
			return true
		}
		reqJ := make([]interface{}, 0)
		for _, p := range pr.req {
			reqJ = append(reqJ, packJ(p))
		}
		obs["req"] = reqJ
		obs["rpc"] = rpcCode(pr.err)
		obs["resp"] = respJ(pr.resp)
		mine := make([]interface{}, 0)
		for _, n := range notifs {
			if nj, ok := n.(J); ok && nj["cuid"] == w.clients[pr.c].cm.CUID {
				mine = append(mine, n)
			}
		}
		obs["notifs"] = mine
		if pr.err == nil && pr.resp != nil {
			obs["posts"] = w.applyPacks([]int{pr.r}, pr.resp.PushPullPacks)
		}
		if s.emit(cmd, obs, false) {
			return true
		}
	}
	return false
}

// stepLockStress: the lock the server takes per (collection, key) must exclude its holders also on the very first
// use of a name (when the lock object is created): `rounds` fresh names, `n` goroutines released together on each.
func (w *sworld) stepLockStress(caseID, rounds, n int) (J, J, bool) {
	obs := J{}
	hung := guarded(obs, func() {
		var overlaps, refused, lost int64
		for r := 0; r < rounds; r++ {
			name := fmt.Sprintf("LS:%d:%d:%d", os.Getpid(), caseID, r)
			var inside, counter int64
			start := make(chan struct{})
			var wg sync.WaitGroup
			wg.Add(n)
			for g := 0; g < n; g++ {
				go func() {
					defer wg.Done()
					cctx, cancel := context.WithCancel(context.Background())
					defer cancel()
					octx := ocontext.NewOrdaContext(cctx, constants.TagTest)
					<-start
					l := w.kit.Mgrs.GetLock(octx, name)
					if !l.TryLock() {
						atomic.AddInt64(&refused, 1)
						return
					}
					if atomic.AddInt64(&inside, 1) > 1 {
						atomic.AddInt64(&overlaps, 1)
					}
					c := atomic.LoadInt64(&counter) // unsynchronised read-modify-write, protected by the lock only
					runtime.Gosched()
					atomic.StoreInt64(&counter, c+1)
					atomic.AddInt64(&inside, -1)
					l.Unlock()
				}()
			}
			close(start)
			wg.Wait()
			if counter != int64(n)-atomic.LoadInt64(&refused) && atomic.LoadInt64(&refused) == 0 {
				lost++
			}
		}
		// a TryLock that reports failure must hold nothing: a caller whose context is already over (go-lock lets it take a
		// FREE mutex) either gets the lock — and releases it — or is refused and leaves the name free for the next caller
		var leaks int64
		for r := 0; r < 20; r++ {
			name := fmt.Sprintf("LS:%d:%d:c%d", os.Getpid(), caseID, r)
			cctx, cancel := context.WithCancel(context.Background())
			cancel()
			l1 := w.kit.Mgrs.GetLock(ocontext.NewOrdaContext(cctx, constants.TagTest), name)
			if l1.TryLock() {
				l1.Unlock()
			}
			lctx, lcancel := context.WithTimeout(context.Background(), 300*time.Millisecond)
			l2 := w.kit.Mgrs.GetLock(ocontext.NewOrdaContext(lctx, constants.TagTest), name)
			if l2.TryLock() {
				l2.Unlock()
			} else {
				leaks++
			}
			lcancel()
		}
		obs["overlaps"], obs["refused"], obs["lostUpdates"], obs["leaks"] = overlaps, refused, lost, leaks
	})
	return J{"k": "lockstress", "rounds": rounds, "goroutines": n}, obs, hung
}

// lockContend: request A of client a is stopped at its commit point (it holds the lock of the key); request B of client b
// waits for the lock until its own short deadline and is refused; request C of client c arrives while A still holds the
// lock; then A is released.  One-at-a-time semantics: A, (B refused: nothing read or written), C.
func (s *sgen) lockContend(a, b, c int) bool {
	w := s.w
	type one struct {
		c, r int
		req  []*model.PushPullPack
		resp *model.PushPullMessage
		err  error
		done chan struct{}
	}
	mk := func(c int) *one {
		r := s.repsOf(c)[0]
		return &one{c: c, r: r, req: []*model.PushPullPack{w.reps[r].wired.CreatePushPullPack()}, done: make(chan struct{})}
	}
	A, B, C := mk(a), mk(b), mk(c)
	call := func(o *one, timeout time.Duration) {
		defer close(o.done)
		defer func() { _ = recover() }()
		msg := model.NewPushPullMessage(0, w.clients[o.c].cm, o.req...)
		ctx, cancel := context.WithCancel(context.Background())
		if timeout > 0 {
			ctx, cancel = context.WithTimeout(context.Background(), timeout)
		}
		o.resp, o.err = w.kit.Service.ProcessPushPull(ctx, cloneMsg(msg))
		cancel()
	}
	if len(A.req[0].Operations) == 0 { // A must push something, otherwise it has no commit point
		return false
	}
	// a panic in a goroutine of the server takes the process down: the runner attributes it to this step
	s.out(J{"k": "intent", "of": "sync", "c": B.c, "rs": []int{B.r}, "parallel": true, "lockcontend": true}, J{})
	w.kit.Mongo.SetGate(func(cr memmongo.CmdRecord) bool { return cr.Name == "update" && cr.Coll == "-_-Datatypes" })
	go call(A, 0)
	for t := 0; t < 20000 && len(w.kit.Mongo.Held()) == 0; t++ {
		select {
		case <-A.done:
			t = 20000
		default:
			time.Sleep(200 * time.Microsecond)
		}
	}
	held := len(w.kit.Mongo.Held()) > 0
	w.kit.Mongo.SetGate(nil)
	if held {
		call(B, 80*time.Millisecond) // waits for the lock until its deadline
		go call(C, 0)
		time.Sleep(40 * time.Millisecond)
	} else {
		close(B.done)
		close(C.done)
	}
	w.kit.Mongo.ReleaseAll()
	hung := false
	for _, o := range []*one{A, B, C} {
		select {
		case <-o.done:
		case <-time.After(20 * time.Second):
			hung = true
		}
	}
	time.Sleep(2 * time.Millisecond)
	w.waitBackground()
	notifs := w.notifs()
	emitOne := func(o *one, lockfail bool) bool {
		cmd := J{"k": "sync", "c": o.c, "rs": []int{o.r}, "parallel": true}
		if lockfail {
			cmd["lockfail"] = true
		}
		obs := J{}
		if hung {
			obs["hang"] = true
			s.emit(cmd, obs, true)
			return true
		}
		reqJ := make([]interface{}, 0)
		for _, p := range o.req {
			reqJ = append(reqJ, packJ(p))
		}
		obs["req"], obs["rpc"], obs["resp"] = reqJ, rpcCode(o.err), respJ(o.resp)
		mine := make([]interface{}, 0)
		for _, n := range notifs {
			if nj, ok := n.(J); ok && nj["cuid"] == w.clients[o.c].cm.CUID {
				mine = append(mine, n)
			}
		}
		obs["notifs"] = mine
		if o.err == nil && o.resp != nil {
			obs["posts"] = w.applyPacks([]int{o.r}, o.resp.PushPullPacks)
		}
		return s.emit(cmd, obs, false)
	}
	if emitOne(A, false) {
		return true
	}
	if held {
		refused := B.resp != nil && len(B.resp.PushPullPacks) == 1 && len(B.resp.PushPullPacks[0].Operations) > 0 &&
			strings.Contains(string(B.resp.PushPullPacks[0].Operations[len(B.resp.PushPullPacks[0].Operations)-1].Body), "fail to lock")
		s.stats["lockcontend"]++
		if refused {
			s.stats["lockcontend:refused"]++
		}
		if emitOne(B, refused) {
			return true
		}
		if emitOne(C, false) {
			return true
		}
	}
	return false
}

func runParProfile(seed uint64, cases, from int, out func(cmd, obs J), statsPath string) {
	r := &rng{s: seed*0x9e3779b97f4a7c15 + 1212}
	stats := map[string]int{}
	s := &sgen{r: r, p: sprofile{name: "par", dts: []string{"counter", "list", "map", "document"}, maxKeys: 2, cols: 1}, out: out, stats: stats}
	s.g = &gen{r: r, p: profile{malformed: 0.0, bigBatch: 0.02}, out: out, stats: stats, twin: map[int]int{}}
	for c := 0; c < cases; c++ {
		r.s = (seed*0x9e3779b97f4a7c15 + 1212) ^ (uint64(c+1) * 0xd1342543de82ef95)
		if c < from { // cases are seeded independently: a run restarted after a crash skips the finished ones
			continue
		}
		s.w = newSWorld()
		s.w.svc = true
		s.w.spostFn = s.w.spost
		s.w.out = out
		s.w.lite = true
		s.g.w = &s.w.world
		s.ktyp = map[string]string{}
		s.cols = []string{"cola"}
		nkeys := 1 + r.intn(2)
		s.keys = []string{"k0", "k1"}[:nkeys]
		out(J{"k": "scase", "id": c, "profile": "par"}, J{})
		stats["scase"]++
		ok := !s.emit(s.w.stepMkCol("cola"))
		if ok {
			ok = !s.emit(s.w.stepLockStress(c, 150, 8))
		}
		ncli := 2 + r.intn(15)
		if ncli > 16 {
			ncli = 16
		}
		dtOf := map[string]string{}
		for i := 0; i < ncli && ok; i++ {
			ok = !s.emit(s.w.stepClient("cola", "cola", 0))
			key := s.keys[i%nkeys]
			typ, seen := dtOf[key]
			mode := "soc"
			if !seen {
				typ = s.p.dts[r.intn(len(s.p.dts))]
				dtOf[key] = typ
				mode = "create"
			}
			if ok {
				ok = !s.emit(s.w.stepNewDt(i, key, typ, mode))
			}
			if ok && !seen { // the creator registers the datatype before the others arrive
				s.hold++
				ok = !s.emit(s.w.stepSync(i, []int{i}, "", s.hold, nil))
			}
		}
		all := make([]int, 0, ncli)
		for i := 0; i < ncli; i++ {
			all = append(all, i)
		}
		for round := 0; round < 4 && ok; round++ {
			for _, c := range all {
				if r.intn(3) != 0 {
					m, a := s.g.genCall(c, false)
					if s.w.reps[c].typ == "document" {
						a["_h"] = "root"
					}
					if s.emit(s.w.stepCall(c, m, a)) {
						ok = false
						break
					}
				}
			}
			if ok {
				stats["parallel-round"]++
				stats["parallel-calls"] += len(all)
				ok = !s.parallelRound(all)
			}
			if ok {
				ok = !s.emit(s.w.stepStore())
			}
		}
		// three clients of one key: A stopped at its commit point, B refused at the lock, C behind A
		if ok && ncli >= 3*nkeys {
			var same []int
			for i := 0; i < ncli; i++ {
				if i%nkeys == 0 {
					same = append(same, i)
				}
			}
			if len(same) >= 3 {
				for _, cc := range same[:3] {
					m, a := s.g.genCall(cc, false)
					if s.w.reps[cc].typ == "document" {
						a["_h"] = "root"
					}
					if s.emit(s.w.stepCall(cc, m, a)) {
						ok = false
					}
				}
				if ok {
					ok = !s.lockContend(same[0], same[1], same[2])
				}
				if ok {
					ok = !s.emit(s.w.stepStore())
				}
			}
		}
		for round := 0; round < 2 && ok; round++ {
			for _, c := range all {
				s.hold++
				if s.emit(s.w.stepSync(c, []int{c}, "", s.hold, nil)) {
					ok = false
					break
				}
			}
		}
		if ok {
			ok = !s.emit(s.w.stepStore())
		}
		out(J{"k": "send", "id": c, "quiescent": ok}, J{})
	}
	writeStats(statsPath, stats)
}
