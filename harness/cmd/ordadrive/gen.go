package main

import (
	"fmt"

	"github.com/orda-io/orda/client/pkg/orda"
)

// splitmix64: every random choice of a run derives from one state seeded by VERIF_SEED.
type rng struct{ s uint64 }

func (r *rng) next() uint64 {
	r.s += 0x9e3779b97f4a7c15
	z := r.s
	z = (z ^ (z >> 30)) * 0xbf58476d1ce4e5b9
	z = (z ^ (z >> 27)) * 0x94d049bb133111eb
	return z ^ (z >> 31)
}
func (r *rng) intn(n int) int {
	if n <= 0 {
		return 0
	}
	return int(r.next() % uint64(n))
}
func (r *rng) chance(p float64) bool   { return float64(r.next()%1000000)/1000000.0 < p }
func (r *rng) pick(xs []string) string { return xs[r.intn(len(xs))] }

type profile struct {
	name       string
	dts        []string
	minRep     int
	maxRep     int
	steps      int
	pCall      float64
	pPub       float64
	pDlv       float64
	pTx        float64
	pSnap      float64
	pMutDlv    float64
	malformed  float64
	bigBatch   float64
	obsEvery   bool // full observation (dump) of the acting replica after every step
	readsShare float64
}

var profiles = map[string]profile{
	"conv":   {name: "conv", dts: []string{"counter", "map", "list", "document", "document"}, minRep: 2, maxRep: 4, steps: 30, pCall: 0.55, pPub: 0.2, pDlv: 0.25, malformed: 0.03, bigBatch: 0.05, readsShare: 0.05},
	"conf":   {name: "conf", dts: []string{"map", "list", "document", "document", "counter"}, minRep: 2, maxRep: 4, steps: 24, pCall: 0.6, pPub: 0.18, pDlv: 0.22, malformed: 0.0, bigBatch: 0.02, readsShare: 0.0},
	"single": {name: "single", dts: []string{"counter", "map", "list", "document", "document"}, minRep: 1, maxRep: 1, steps: 40, pCall: 0.9, pTx: 0.1, malformed: 0.3, bigBatch: 0.05, readsShare: 0.3, obsEvery: true},
	"order":  {name: "order", dts: []string{"list", "list", "document"}, minRep: 2, maxRep: 4, steps: 30, pCall: 0.5, pPub: 0.22, pDlv: 0.28, malformed: 0.0, bigBatch: 0.05, obsEvery: true},
	"tx":     {name: "tx", dts: []string{"counter", "map", "list", "document", "document"}, minRep: 2, maxRep: 3, steps: 26, pCall: 0.35, pPub: 0.15, pDlv: 0.2, pTx: 0.22, pMutDlv: 0.08, malformed: 0.15, readsShare: 0.1, obsEvery: true},
	"snap":   {name: "snap", dts: []string{"counter", "map", "list", "document", "document"}, minRep: 2, maxRep: 3, steps: 30, pCall: 0.42, pPub: 0.17, pDlv: 0.22, pTx: 0.09, pSnap: 0.1, malformed: 0.05, bigBatch: 0.03, readsShare: 0.1, obsEvery: true},
	"ids":    {name: "ids", dts: []string{"list", "document", "map"}, minRep: 2, maxRep: 3, steps: 30, pCall: 0.5, pPub: 0.2, pDlv: 0.22, pTx: 0.08, malformed: 0.1, bigBatch: 0.35, obsEvery: true},
}

var mapKeys = []string{"a", "b", "c", "d"}

// keyPool: the conflict-biased profile concentrates all replicas on two keys (so that put/remove/put and
// remove/remove/put chains by different replicas on ONE key are common), the others spread over four
func (g *gen) keyPool() []string {
	if g.p.name == "conf" {
		return mapKeys[:2]
	}
	return mapKeys
}

// putShare: puts out of 10 object/map writes (the rest are removes)
func (g *gen) putShare() int {
	if g.p.name == "conf" {
		return 5
	}
	return 6
}

type gen struct {
	r     *rng
	p     profile
	w     *world
	out   func(cmd, obs J)
	twin  map[int]int // source replica -> twin replica
	tag   int
	stats map[string]int
}

func (g *gen) value(depth int) interface{} {
	switch k := g.r.intn(10); {
	case k < 4:
		g.tag++
		return fmt.Sprintf("v%d", g.tag)
	case k < 7:
		return float64(g.r.intn(2000) - 1000)
	case k < 8:
		return g.r.intn(2) == 0
	case k < 9 && depth < 2:
		n := g.r.intn(3)
		a := make([]interface{}, 0, n)
		for i := 0; i < n; i++ {
			a = append(a, g.value(depth+1))
		}
		return a
	case depth < 2:
		n := g.r.intn(3)
		o := J{}
		for i := 0; i < n; i++ {
			o[g.r.pick(mapKeys)] = g.value(depth + 1)
		}
		return o
	}
	return float64(g.r.intn(10))
}

func (g *gen) values(n int, tagged bool, who int) []interface{} {
	vs := make([]interface{}, 0, n)
	for i := 0; i < n; i++ {
		if tagged {
			g.tag++
			vs = append(vs, fmt.Sprintf("r%d-%d", who, g.tag))
		} else {
			vs = append(vs, g.value(0))
		}
	}
	return vs
}

func (g *gen) batch() int {
	if g.r.chance(g.p.bigBatch) {
		return []int{11, 12, 25}[g.r.intn(3)]
	}
	return 1 + g.r.intn(3)
}

// genCall draws one public API call for replica i, mostly valid against its current size.
func (g *gen) genCall(i int, inTx bool) (string, J) {
	rp := g.w.reps[i]
	bad := g.r.chance(g.p.malformed)
	read := g.r.chance(g.p.readsShare)
	switch rp.typ {
	case "counter":
		d := g.r.intn(14) - 3
		if g.r.chance(0.03) {
			d = 2147483647
		}
		return "inc", J{"d": d}
	case "map":
		k := g.r.pick(g.keyPool())
		if read {
			if g.r.intn(3) == 0 {
				return "msize", J{}
			}
			return "mget", J{"k": k}
		}
		if bad {
			switch g.r.intn(3) {
			case 0:
				return "mput", J{"k": "", "v": g.value(0)}
			case 1:
				return "mput", J{"k": k, "v": nil}
			default:
				return "mremove", J{"k": ""}
			}
		}
		if g.r.intn(10) < g.putShare() {
			return "mput", J{"k": k, "v": g.value(0)}
		}
		return "mremove", J{"k": k}
	case "list":
		size := asInt(rp.sizeJ())
		if read {
			switch g.r.intn(3) {
			case 0:
				return "lsize", J{}
			case 1:
				return "lget", J{"pos": g.pos(size, bad, false)}
			default:
				p, n := g.rangeOf(size, bad)
				return "lgetMany", J{"pos": p, "n": n}
			}
		}
		switch k := g.r.intn(10); {
		case k < 5 || size == 0 && !bad:
			vs := g.values(g.batch(), true, i)
			if bad && g.r.intn(2) == 0 {
				vs[g.r.intn(len(vs))] = nil
				return "linsert", J{"pos": g.pos(size, false, true), "vs": vs}
			}
			return "linsert", J{"pos": g.pos(size, bad, true), "vs": vs}
		case k < 7:
			return "ldelete", J{"pos": g.pos(size, bad, false)}
		case k < 8:
			p, n := g.rangeOf(size, bad)
			return "ldeleteMany", J{"pos": p, "n": n}
		default:
			p, n := g.rangeOf(size, bad)
			if n < 0 {
				n = 0
			}
			return "lupdate", J{"pos": p, "vs": g.values(n, true, i)}
		}
	case "document":
		return g.genDocCall(i, bad, read, inTx)
	}
	return "nop", J{}
}

// pos draws a position; valid range is [0,size) or, for insert, [0,size].
func (g *gen) pos(size int, bad, insert bool) int {
	hi := size
	if insert {
		hi = size + 1
	}
	if bad {
		return []int{-1, hi, hi + 1, -7}[g.r.intn(4)]
	}
	if hi == 0 {
		return 0
	}
	return g.r.intn(hi)
}

func (g *gen) rangeOf(size int, bad bool) (int, int) {
	if bad || size == 0 {
		switch g.r.intn(4) {
		case 0:
			return size, 1
		case 1:
			return 0, size + 1
		case 2:
			return -1, 1
		default:
			return 0, 0
		}
	}
	p := g.r.intn(size)
	n := 1 + g.r.intn(size-p)
	if n > 3 {
		n = 1 + g.r.intn(3)
	}
	return p, n
}

func (g *gen) emit(cmd, obs J, hung bool) bool {
	g.stats[fmt.Sprint(cmd["k"])]++
	if m, ok := cmd["m"]; ok {
		g.stats["m:"+fmt.Sprint(m)]++
	}
	if e, ok := obs["err"]; ok && fmt.Sprint(e) != "0" {
		g.stats["err:"+fmt.Sprint(e)]++
	}
	if _, ok := obs["panic"]; ok {
		g.stats["panic"]++
	}
	g.out(cmd, obs)
	return hung
}

// runCase generates and executes one history; returns false if it was cut short by a hang.
func (g *gen) runCase(id int) bool {
	dt := g.p.dts[g.r.intn(len(g.p.dts))]
	n := g.p.minRep + g.r.intn(g.p.maxRep-g.p.minRep+1)
	g.w = &world{}
	g.twin = map[int]int{}
	cuids := make([]interface{}, 0, n)
	for i := 0; i < n; i++ {
		rp := newRep(dt, i == 0, i)
		g.w.reps = append(g.w.reps, rp)
		cuids = append(cuids, rp.cuid)
	}
	init := make([]interface{}, 0, n)
	for _, rp := range g.w.reps {
		o := J{}
		rp.post(o)
		init = append(init, o)
	}
	g.out(J{"k": "case", "id": id, "dt": dt, "n": n, "cuids": cuids, "profile": g.p.name}, J{"init": init})
	g.stats["case:"+dt]++
	// subscribers first receive the creator's snapshot operation, as the server would send it
	if g.emit(g.w.stepPub(0)) {
		return false
	}
	for j := 1; j < n; j++ {
		if g.emit(g.w.stepDlv(j, 1, "")) {
			return false
		}
	}
	for s := 0; s < g.p.steps; s++ {
		i := g.r.intn(n)
		x := float64(g.r.next()%1000000) / 1000000.0
		var hung bool
		_, hasTwin := g.twin[i]
		switch {
		case x < g.p.pCall && g.w.reps[i].typ == "document" && (g.r.intn(5) == 0 || hasTwin && g.r.intn(3) == 0):
			// handles into nested containers, also on a restored copy (same navigation on the original and its twin, so
			// that later calls — refused ones included — go through handles of nested nodes on both)
			from, key, pos, to := g.genNav(i)
			hung = g.emit(g.w.stepNav(i, from, key, pos, to))
			if t, ok := g.twin[i]; ok && !hung {
				hung = g.emit(g.w.stepNav(t, from, key, pos, to))
			}
		case x < g.p.pCall:
			m, a := g.genCall(i, false)
			hung = g.emit(g.w.stepCall(i, m, a))
			if t, ok := g.twin[i]; ok && !hung {
				hung = g.emit(g.w.stepCall(t, m, a))
			}
		case x < g.p.pCall+g.p.pPub:
			hung = g.emit(g.w.stepPub(i))
		case x < g.p.pCall+g.p.pPub+g.p.pDlv:
			k := 1 + g.r.intn(3)
			hung = g.emit(g.w.stepDlv(i, k, ""))
			if t, ok := g.twin[i]; ok && !hung {
				hung = g.emit(g.w.stepDlv(t, k, ""))
			}
		case x < g.p.pCall+g.p.pPub+g.p.pDlv+g.p.pTx:
			nc := 1 + g.r.intn(4)
			calls := make([]J, 0, nc)
			for c := 0; c < nc; c++ {
				m, a := g.genCall(i, true)
				calls = append(calls, J{"m": m, "a": a})
			}
			stop := g.r.intn(2) == 0
			fail := g.r.intn(3) == 0
			g.tag++
			tag := fmt.Sprintf("t%d", g.tag)
			txCmd, txObs, txHung := g.w.stepTx(i, tag, calls, stop, fail)
			hung = g.emit(txCmd, txObs, txHung)
			if fmt.Sprint(txObs["err"]) != "0" {
				// a rollback re-creates the document tree: Document handles obtained before are stale
				g.w.reps[i].handles = map[string]orda.Document{}
			}
			if t, ok := g.twin[i]; ok && !hung {
				hung = g.emit(g.w.stepTx(t, tag, calls, stop, fail))
			}
		case x < g.p.pCall+g.p.pPub+g.p.pDlv+g.p.pTx+g.p.pSnap:
			if _, ok := g.twin[i]; !ok && i < n {
				g.w.reps[i].handles = map[string]orda.Document{}
				hung = g.emit(g.w.stepSnap(i))
				if !hung {
					g.twin[i] = len(g.w.reps) - 1
				}
			}
		default:
			muts := []string{"truncate", "countplus", "countzero", "countneg"}
			hung = g.emit(g.w.stepDlv(i, 1, muts[g.r.intn(len(muts))]))
		}
		if hung {
			return false
		}
		if g.p.obsEvery {
			if g.emit(g.w.stepObs(i)) {
				return false
			}
		}
	}
	// quiescence: everything published, everything delivered, everyone observed
	for i := 0; i < n; i++ {
		if g.emit(g.w.stepPub(i)) {
			return false
		}
	}
	for i := 0; i < len(g.w.reps); i++ {
		if g.emit(g.w.stepDlv(i, 1000000, "")) {
			return false
		}
	}
	for i := 0; i < len(g.w.reps); i++ {
		if g.emit(g.w.stepObs(i)) {
			return false
		}
	}
	g.out(J{"k": "end", "id": id, "quiescent": true}, J{})
	return true
}
