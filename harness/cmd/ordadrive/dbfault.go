package main

// C08: every database command issued while serving every request of a scenario is made to fail
// (single command) or to be the last one before the database goes away and the server restarts;
// afterwards all clients retry.

import (
	"context"
	"fmt"
	"sort"
	"time"

	"github.com/orda-io/orda/client/pkg/model"
	"verifharness/memmongo"
)

type scenStep struct {
	kind string // "call" | "sync"
	c    int    // client
	m    string
	a    J
}

// classify maps the k-th (1-based) data command of a request to its fault class
func classify(log []memmongo.CmdRecord, k int) string {
	if k < 1 || k > len(log) {
		return ""
	}
	bg := false
	for i := 0; i < k-1; i++ {
		if log[i].Name == "update" && log[i].Coll == "-_-Datatypes" {
			bg = true
		}
	}
	c := log[k-1]
	if bg {
		if c.Name == "update" && len(c.Coll) > 0 && c.Coll[:1] != "-" {
			return "bg:userdoc"
		}
		return "bg:snapshot"
	}
	return c.Name + ":" + c.Coll
}

func (s *sgen) buildScenario(dt string, ncli int) []scenStep {
	var steps []scenStep
	n := 6 + s.r.intn(5)
	for i := 0; i < n; i++ {
		c := s.r.intn(ncli)
		if s.r.intn(5) < 3 {
			var m string
			var a J
			switch dt {
			case "counter":
				m, a = "inc", J{"d": 1 + s.r.intn(9)}
			case "map":
				if s.r.intn(4) == 0 {
					m, a = "mremove", J{"k": s.r.pick(mapKeys)}
				} else {
					s.g.tag++
					m, a = "mput", J{"k": s.r.pick(mapKeys), "v": fmt.Sprintf("v%d", s.g.tag)}
				}
			case "list":
				s.g.tag++
				m, a = "linsert", J{"pos": 0, "vs": []interface{}{fmt.Sprintf("e%d", s.g.tag)}}
			default:
				s.g.tag++
				m, a = "dput", J{"k": s.r.pick(mapKeys), "v": fmt.Sprintf("d%d", s.g.tag), "_h": "root"}
			}
			steps = append(steps, scenStep{kind: "call", c: c, m: m, a: a})
		} else {
			steps = append(steps, scenStep{kind: "sync", c: c})
		}
	}
	steps = append(steps, scenStep{kind: "sync", c: 0})
	return steps
}

// createStep is the scenario position of the creator's first request (negative positions -c are the
// subscribe requests of the other clients)
const createStep = -1000

type faultPoint struct {
	step int
	k    int
	mode string
}

// playScenario runs the scenario once.  fp == nil: fault-free; returns, per sync step, the command log.
func (s *sgen) playScenario(id int, dt string, ncli int, steps []scenStep, fp *faultPoint, cls string, ref []interface{}) (map[int][]memmongo.CmdRecord, []interface{}, bool) {
	s.w = newSWorld()
	s.w.svc = true
	s.w.spostFn = s.w.spost
	s.w.out = s.out
	s.g.w = &s.w.world
	hdr := J{"k": "scase", "id": id, "profile": "dbfault", "dt": dt}
	if fp != nil {
		hdr["fault"] = J{"step": fp.step, "k": fp.k, "mode": fp.mode, "cls": cls}
		hdr["ref"] = ref
	}
	s.out(hdr, J{})
	logs := map[int][]memmongo.CmdRecord{}
	if s.emit(s.w.stepMkCol("cola")) {
		return logs, nil, false
	}
	for i := 0; i < ncli; i++ {
		if s.emit(s.w.stepClient("cola", "cola", 0)) {
			return logs, nil, false
		}
		mode := "soc"
		if i == 0 {
			mode = "create"
		}
		if s.emit(s.w.stepNewDt(i, "k0", dt, mode)) {
			return logs, nil, false
		}
	}
	// the creator registers the datatype first, then everybody subscribes (fault-free): the faults of
	// this slice hit requests of subscribed clients; faults during create/subscribe requests are drawn
	// by the `subfault` scenarios (fp.step < 0), which skip this phase for the faulted client
	if fp != nil && fp.step == createStep {
		// the fault hits the request that CREATES the datatype; the sync below is the creator's retry
		if s.faultedSync(0, 0, fp, cls) {
			return logs, nil, false
		}
	}
	s.w.kit.Mongo.ResetLog()
	s.hold++
	if s.emit(s.w.stepSync(0, []int{0}, "", s.hold, nil)) {
		return logs, nil, false
	}
	logs[createStep] = s.w.kit.Mongo.Log()
	for c := 1; c < ncli; c++ {
		if fp != nil && fp.step == -c {
			if s.faultedSync(c, c, fp, cls) {
				return logs, nil, false
			}
		}
		s.w.kit.Mongo.ResetLog()
		s.hold++
		if s.emit(s.w.stepSync(c, []int{c}, "", s.hold, nil)) {
			return logs, nil, false
		}
		logs[-c] = s.w.kit.Mongo.Log()
	}
	for si, st := range steps {
		var hung bool
		if st.kind == "call" {
			a := J{}
			for k, v := range st.a {
				a[k] = v
			}
			hung = s.emit(s.w.stepCall(st.c, st.m, a))
		} else if fp != nil && fp.step == si {
			hung = s.faultedSync(st.c, st.c, fp, cls)
		} else {
			s.w.kit.Mongo.ResetLog()
			s.hold++
			hung = s.emit(s.w.stepSync(st.c, []int{st.c}, "", s.hold, nil))
			logs[si] = s.w.kit.Mongo.Log()
		}
		if hung {
			return logs, nil, false
		}
		if s.emit(s.w.stepStore()) {
			return logs, nil, false
		}
	}
	// retries: every client syncs until nothing is left (three rounds)
	for round := 0; round < 3; round++ {
		for c := 0; c < ncli; c++ {
			s.hold++
			if s.emit(s.w.stepSync(c, []int{c}, "", s.hold, nil)) {
				return logs, nil, false
			}
		}
	}
	if s.emit(s.w.stepStore()) {
		return logs, nil, false
	}
	final := make([]interface{}, 0, ncli)
	for c := 0; c < ncli; c++ {
		final = append(final, viewJ(s.w.reps[c].dt))
	}
	s.out(J{"k": "send", "id": id, "quiescent": true, "final": final}, J{})
	return logs, final, true
}

// faultedSync: the faulted exchange of a scenario.  Modes "fail"/"crash": a database command fails / the database is gone
// and the server restarts.  Mode "lost": the server dies right AFTER the request was committed and before the response
// leaves — the request is processed completely, the client never sees the response, the server restarts.
func (s *sgen) faultedSync(c, r int, fp *faultPoint, cls string) bool {
	if fp.mode == "lost" {
		s.hold++
		hung := s.emit(s.w.stepSync(c, []int{r}, "drop", s.hold, nil))
		if !hung {
			_ = s.w.kit.Restart()
		}
		return hung
	}
	return s.emit(s.w.stepFaultSync(c, r, fp.k, fp.mode, cls))
}

// stepFaultSync: one single-pack sync of datatype r of client c during which the k-th data command
// fails ("fail") or the database is gone from the k-th command on and the server restarts ("crash").
func (w *sworld) stepFaultSync(c, r, k int, mode, cls string) (J, J, bool) {
	sc := w.clients[c]
	cmd := J{"k": "fsync", "c": c, "r": r, "cls": cls, "mode": mode, "fk": k}
	obs := J{}
	if w.out != nil {
		ic := J{}
		for kk, v := range cmd {
			ic[kk] = v
		}
		ic["k"] = "intent"
		ic["of"] = "fsync"
		w.out(ic, J{})
	}
	hung := guarded(obs, func() {
		p := w.reps[r].wired.CreatePushPullPack()
		sc.seq++
		msg := model.NewPushPullMessage(sc.seq, sc.cm, p)
		w.kit.Mongo.ResetLog()
		if mode == "crash" {
			w.kit.Mongo.FailFrom(k)
		} else {
			w.kit.Mongo.FailAt(k)
		}
		ctx, cancel := context.WithCancel(context.Background())
		resp, err := w.kit.Service.ProcessPushPull(ctx, cloneMsg(msg))
		cancel()
		time.Sleep(2 * time.Millisecond)
		w.waitBackground()
		w.kit.Mongo.FailAt(0)
		w.kit.Mongo.FailFrom(0)
		if mode == "crash" {
			if e := w.kit.Restart(); e != nil {
				obs["restartErr"] = e.Error()
			}
		}
		obs["rpc"] = rpcCode(err)
		obs["notifs"] = w.notifs()
		if err != nil || resp == nil {
			obs["resperr"] = nil
			return
		}
		code := 0
		for _, pk := range resp.PushPullPacks {
			if pk.Option&32 != 0 && len(pk.Operations) > 0 {
				if e, ok := opJ(pk.Operations[len(pk.Operations)-1]).(J); ok {
					if cc, ok := e["code"]; ok {
						code = asInt2(cc)
					}
				}
			}
		}
		obs["resperr"] = code
		obs["posts"] = w.applyPacks([]int{r}, resp.PushPullPacks)
	})
	return cmd, obs, hung
}

func asInt2(v interface{}) int {
	switch x := v.(type) {
	case uint32:
		return int(x)
	}
	return asInt(v)
}

func runDbFault(seed uint64, cases, from int, out func(cmd, obs J), statsPath string, thorough bool) {
	r := &rng{s: seed*0x9e3779b97f4a7c15 + 8080}
	stats := map[string]int{}
	s := &sgen{r: r, p: sprofile{name: "dbfault"}, out: out, stats: stats}
	s.g = &gen{r: r, p: profile{}, out: out, stats: stats, twin: map[int]int{}}
	id := 0
	for c := 0; c < cases; c++ {
		r.s = (seed*0x9e3779b97f4a7c15 + 8080) ^ (uint64(c+1) * 0xd1342543de82ef95)
		dt := []string{"counter", "map", "list", "document"}[c%4]
		ncli := 2 + r.intn(2)
		steps := s.buildScenario(dt, ncli)
		if id < from {
			// cannot skip cheaply: fault points depend on the fault-free run; the ids are consumed below
		}
		logs, ref, ok := s.playScenario(id, dt, ncli, steps, nil, "", nil)
		id++
		if !ok {
			stats["cut-short"]++
			continue
		}
		var points []faultPoint
		var sis []int
		for si := range logs {
			sis = append(sis, si)
		}
		sort.Ints(sis)
		for _, si := range sis {
			for k := 1; k <= len(logs[si]); k++ {
				points = append(points, faultPoint{si, k, "fail"}, faultPoint{si, k, "crash"})
			}
			if len(logs[si]) > 0 {
				points = append(points, faultPoint{si, len(logs[si]) + 1, "lost"})
			}
		}
		budget := 10
		if thorough {
			budget = len(points)
		}
		for b := 0; b < budget && len(points) > 0; b++ {
			pi := r.intn(len(points))
			if thorough {
				pi = 0
			} else if b <= 2 {
				// three faults of every scenario hit the creating request: its commit point (the update of the datatype
				// document fails: operation documents stay behind without a datatype), a crash at that point, and any other
				var cr, commit []int
				for i, p := range points {
					if p.step == createStep {
						cr = append(cr, i)
						if classify(logs[p.step], p.k) == "update:-_-Datatypes" && ((b == 0) == (p.mode == "fail")) {
							commit = append(commit, i)
						}
					}
				}
				if b <= 1 && len(commit) > 0 {
					pi = commit[r.intn(len(commit))]
				} else if len(cr) > 0 {
					pi = cr[r.intn(len(cr))]
				}
			}
			if !thorough && (b == 3 || b == 4) {
				// two faults of every scenario are lost responses of ordinary syncs (committed, never answered)
				var lost []int
				for i, p := range points {
					if p.mode == "lost" && p.step >= 0 {
						lost = append(lost, i)
					}
				}
				if len(lost) > 0 {
					pi = lost[r.intn(len(lost))]
				}
			}
			fp := points[pi]
			points = append(points[:pi], points[pi+1:]...)
			cls := classify(logs[fp.step], fp.k)
			stats["fault:"+cls+":"+fp.mode]++
			if _, _, ok := s.playScenario(id, dt, ncli, steps, &fp, cls, ref); !ok {
				stats["cut-short"]++
			}
			id++
		}
	}
	writeStats(statsPath, stats)
}
