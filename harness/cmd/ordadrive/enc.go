package main

// C14: the real encode/decode chain on operations produced by the real client code.
//   operation -> model.Operation (JSON body) -> protobuf bytes -> model.Operation -> OperationDoc -> BSON ->
//   memmongo -> OperationDoc -> model.Operation -> operation,   and the echo service.

import (
	"context"
	"encoding/json"
	"fmt"
	"math"

	ocontext "github.com/orda-io/orda/client/pkg/context"
	"github.com/orda-io/orda/client/pkg/iface"
	"github.com/orda-io/orda/client/pkg/model"
	"github.com/orda-io/orda/client/pkg/orda"
	"github.com/orda-io/orda/server/constants"
	"github.com/orda-io/orda/server/schema"
	"google.golang.org/protobuf/proto"
)

type person struct {
	Name    string `json:"name"`
	Age     int    `json:"age,omitempty"`
	Secret  string `json:"-"`
	Tags    []string
	Nested  *person `json:"nested,omitempty"`
	private int
}

func shapes() []struct {
	name string
	v    interface{}
} {
	i8, u64, f32, str, b := int8(-128), uint64(18446744073709551615), float32(1.5), "p", true
	var nilSlice []interface{}
	umax := uint(math.MaxUint64)
	return []struct {
		name string
		v    interface{}
	}{
		{"int", int(-7)}, {"int8min", int8(-128)}, {"int16", int16(32767)}, {"int32", int32(-2147483648)},
		{"int64big", int64(9007199254740993)}, {"uint", uint(7)}, {"uint8", uint8(255)}, {"uint16", uint16(65535)},
		{"uint32", uint32(4294967295)}, {"uint64max", uint64(18446744073709551615)},
		{"float32", float32(0.25)}, {"float64", 1e21}, {"float64frac", -0.125},
		{"pint8", &i8}, {"puint64", &u64}, {"pfloat32", &f32}, {"pstring", &str}, {"pbool", &b},
		{"string-nul", "a\x00b"}, {"string-sep", "a/b:c~d e"}, {"string-emoji", "g\U0001F600h"}, {"string-empty", ""},
		{"bool", false},
		{"struct", person{Name: "n", Age: 0, Secret: "s", Tags: []string{"x"}, private: 1}},
		{"struct-nested", person{Name: "o", Age: 3, Nested: &person{Name: "i", Tags: []string{}}}},
		{"pstruct", &person{Name: "q", Tags: nil}},
		{"map-int", map[string]int{"a": 1, "b": 2}}, {"map-any", map[string]interface{}{"x": []interface{}{1, "y", map[string]interface{}{"z": true}}}},
		{"slice-int", []int{1, 2, 3}}, {"slice-empty", []interface{}{}}, {"slice-nil", nilSlice},
		{"array", [2]string{"u", "v"}}, {"map-empty", map[string]interface{}{}},
		// integer boundaries of every width (what a conversion through a narrower or signed type would change)
		{"uint-max", uint(math.MaxUint64)}, {"uint-2^63", uint(1) << 63}, {"uint-above", uint(1)<<63 + 12345},
		{"puint-max", &umax}, {"slice-uint", []uint{1, uint(math.MaxUint64), uint(1) << 63}},
		{"map-uint", map[string]uint{"m": uint(math.MaxUint64)}}, {"struct-uint", counts{N: uint(math.MaxUint64), M: []uint{uint(1) << 63}}},
		{"int-min", int(math.MinInt64)}, {"int-max", int(math.MaxInt64)}, {"int64-min", int64(math.MinInt64)},
		{"uint64-2^63", uint64(1) << 63}, {"uint32-max-in-slice", []uint32{math.MaxUint32, 0}}, {"int16-min", int16(math.MinInt16)},
		{"float32-max", float32(math.MaxFloat32)}, {"float32-tenth", float32(0.1)}, {"slice-float32", []float32{0.1, math.MaxFloat32}}, {"float64-max", math.MaxFloat64}, {"float64-tiny", math.SmallestNonzeroFloat64},
		{"float64-2^53+1", float64(1<<53) + 2}, {"negzero", math.Copysign(0, -1)},
		// nil containers INSIDE elements of slices/arrays (a nil is JSON null on the wire: either refused at the issuer or carried faithfully)
		{"slice-struct-nilfields", []item{{Name: "b"}}}, {"array-map-nil", [2]map[string]int{nil, {"a": 1}}},
		{"slice-array-nilslice", [][1][]int{{nil}}}, {"struct-slice-struct-nilmap", box{Items: []item{{Name: "c", Tags: []string{"t"}}}}},
		{"slice-struct-full", []item{{Name: "d", Tags: []string{}, M: map[string]int{}}}}, {"slice-pstruct-nilfield", []*item{{Name: "e"}}},
		{"map-slice-struct-nil", map[string][]item{"k": {{Name: "f"}}}},
	}
}

type item struct {
	Name string
	Tags []string
	M    map[string]int
}

type box struct {
	Items []item
}

type counts struct {
	N uint
	M []uint
}

func opEq(a, b interface{}) bool { return canonS(a) == canonS(b) }

// roundTrips returns the canonical forms of op after each stage of the chain.
func (w *sworld) roundTrips(op *model.Operation, dtType model.TypeOfDatatype, seq int) J {
	obs := J{}
	guarded(obs, func() {
		// protobuf
		bs, err := proto.Marshal(op)
		if err != nil {
			obs["protoErr"] = err.Error()
			return
		}
		var back model.Operation
		if err := proto.Unmarshal(bs, &back); err != nil {
			obs["protoErr"] = err.Error()
			return
		}
		obs["proto"] = opJ(&back)
		// store: OperationDoc -> BSON -> memmongo -> OperationDoc
		ctx := ocontext.NewOrdaContext(context.Background(), constants.TagTest)
		duid := fmt.Sprintf("encduid%09d", seq)
		doc := schema.NewOperationDoc(&back, duid, uint64(seq), 1)
		if e := w.kit.Mgrs.Mongo.InsertOperations(ctx, []interface{}{doc}); e != nil {
			obs["storeErr"] = e.Error()
			return
		}
		got, _, e := w.kit.Mgrs.Mongo.GetOperations(ctx, duid, 0, constants.InfinitySseq)
		if e != nil || len(got) != 1 {
			obs["storeErr"] = fmt.Sprint(e, len(got))
			return
		}
		obs["bson"] = opJ(got[0])
		// echo service
		res, err := w.kit.Service.TestEncodingOperation(context.Background(), &model.EncodingMessage{Type: dtType, Op: cloneOp(got[0])})
		if err != nil || res == nil {
			obs["echoErr"] = fmt.Sprint(err)
			return
		}
		obs["echo"] = opJ(res.Op)
	})
	return obs
}

func runEncProfile(seed uint64, cases int, out func(cmd, obs J), statsPath string) {
	r := &rng{s: seed*0x9e3779b97f4a7c15 + 31337}
	stats := map[string]int{}
	sw := newSWorld()
	g := &gen{r: r, p: profile{name: "enc", malformed: 0.0, bigBatch: 0.1, readsShare: 0.0}, out: out, stats: stats, twin: map[int]int{}}
	seq := 0
	tmap := map[string]model.TypeOfDatatype{"counter": 0, "map": 1, "list": 2, "document": 3}
	out(J{"k": "enccase", "id": 0}, J{})
	// (a) every operation emitted by random histories of all four datatypes (all 14 operation types occur)
	for c := 0; c < cases; c++ {
		dt := []string{"counter", "map", "list", "document"}[c%4]
		rp := newRep(dt, true, 0)
		g.w = &world{reps: []*rep{rp}}
		for s := 0; s < 14; s++ {
			if s%5 == 4 {
				nc := 1 + g.r.intn(3)
				calls := make([]J, 0, nc)
				for q := 0; q < nc; q++ {
					m, a := g.genCall(0, true)
					calls = append(calls, J{"m": m, "a": a})
				}
				g.w.stepTx(0, fmt.Sprintf("t%d", s), calls, false, false)
			} else {
				m, a := g.genCall(0, false)
				g.w.stepCall(0, m, a)
			}
		}
		for _, op := range rp.buffer() {
			seq++
			o := sw.roundTrips(op, tmap[dt], seq)
			stats["op:"+op.OpType.String()]++
			out(J{"k": "enc", "dt": dt, "op": opJ(op)}, o)
		}
	}
	// (b) Go value shapes: what the issuing replica holds vs what a replica holds that received the
	// operation through the wire and the store
	for _, sh := range shapes() {
		for _, dt := range []string{"map", "list", "document"} {
			obs := J{}
			cmd := J{"k": "shape", "name": sh.name, "dt": dt}
			guarded(obs, func() {
				a, b := newRep(dt, true, 0), newRep(dt, false, 1)
				switch dt {
				case "map":
					_, err := a.dt.(orda.Map).Put("k", sh.v)
					obs["err"] = errCode(err)
				case "list":
					_, err := a.dt.(orda.List).InsertMany(0, sh.v)
					obs["err"] = errCode(err)
				default:
					_, err := a.dt.(orda.Document).PutToObject("k", sh.v)
					obs["err"] = errCode(err)
				}
				var ops []*model.Operation
				for _, op := range a.buffer() {
					seq++
					rt := sw.roundTrips(op, tmap[dt], seq)
					for _, k := range []string{"proto", "bson", "echo"} {
						if rt[k] != nil && !opEq(rt[k], opJ(op)) {
							obs["roundtrip-differs"] = k
						}
					}
					for _, k := range []string{"protoErr", "storeErr", "echoErr", "panic"} {
						if rt[k] != nil {
							obs[k] = rt[k]
						}
					}
					bs, _ := proto.Marshal(op)
					var back model.Operation
					_ = proto.Unmarshal(bs, &back)
					ops = append(ops, &back)
				}
				_, err := b.wired.(iface.Datatype).ReceiveRemoteModelOperations(ops, false)
				obs["recvErr"] = errCode(err)
				obs["viewA"] = viewJ(a.dt)
				obs["viewB"] = viewJ(b.dt)
				// the JSON value of the input, as encoding/json sees it
				if wb, werr := json.Marshal(sh.v); werr == nil {
					var want interface{}
					if json.Unmarshal(wb, &want) == nil {
						obs["want"] = want
						obs["hasWant"] = true
					}
				}
			})
			stats["shape"]++
			out(cmd, obs)
		}
	}
	writeStats(statsPath, stats)
}
