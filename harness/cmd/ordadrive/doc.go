package main

// Document support of the harness (filled in with the Doc model).

func canonDoc(snap []byte) interface{} { return nil }

func docCall(dt interface{}, m string, a J) (interface{}, uint32) { return nil, 998 }

func (g *gen) genDocCall(i int, bad, read bool) (string, J) { return "nop", J{} }


func replayTrace(path string, out func(cmd, obs J)) {}
