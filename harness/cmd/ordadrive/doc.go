package main

// Document support of the harness: canonical dump of the marshaled node table, the public
// Document API on handles (a handle is a Document obtained by navigation and kept across steps,
// so that calls on deleted or superseded containers are reachable).

import (
	"encoding/json"
	"fmt"

	"github.com/orda-io/orda/client/pkg/errors"
	"github.com/orda-io/orda/client/pkg/model"
	"github.com/orda-io/orda/client/pkg/orda"
)

func canonDoc(snap []byte) interface{} {
	var s struct {
		NodeMap []struct {
			C *model.Timestamp `json:"c"`
			T string           `json:"t"`
			P *model.Timestamp `json:"p"`
			D *model.Timestamp `json:"d"`
			E interface{}      `json:"e"`
			A *struct {
				N [][2]*model.Timestamp `json:"n"`
				S int                   `json:"s"`
			} `json:"a"`
			O *struct {
				M map[string]*model.Timestamp `json:"m"`
				S int                         `json:"s"`
			} `json:"o"`
		} `json:"nm"`
	}
	if err := json.Unmarshal(snap, &s); err != nil {
		return J{"undecodable": err.Error()}
	}
	nodes := make([]interface{}, 0, len(s.NodeMap))
	for _, n := range s.NodeMap {
		c := n.C
		if c == nil {
			c = &model.Timestamp{}
		}
		o := J{"c": tsJ(c), "d": tsJ(n.D), "p": tsJ(n.P), "t": n.T}
		switch n.T {
		case "E":
			o["e"] = n.E
		case "O":
			m := J{}
			sz := 0
			if n.O != nil {
				for k, v := range n.O.M {
					m[k] = tsJ(v)
				}
				sz = n.O.S
			}
			o["m"] = m
			o["s"] = sz
		case "A":
			sl := make([]interface{}, 0)
			sz := 0
			if n.A != nil {
				for _, p := range n.A.N {
					cc := p[1]
					if cc == nil {
						cc = p[0]
					}
					sl = append(sl, []interface{}{tsJ(p[0]), tsJ(cc)})
				}
				sz = n.A.S
			}
			o["n"] = sl
			o["s"] = sz
		}
		nodes = append(nodes, o)
	}
	return J{"nodes": nodes}
}

func docVal(d orda.Document) interface{} {
	if d == nil {
		return nil
	}
	b, err := json.Marshal(d.GetValue())
	if err != nil {
		return "marshal-error"
	}
	var v interface{}
	_ = json.Unmarshal(b, &v)
	return v
}

func docVals(ds []orda.Document) interface{} {
	out := make([]interface{}, 0, len(ds))
	for _, d := range ds {
		out = append(out, docVal(d))
	}
	return out
}

// docCall: dt is the Document (or transaction-scoped DocumentInTx) the handle `a["_h"]` resolves from.
func docCall(dt interface{}, m string, a J) (interface{}, uint32) {
	d, ok := dt.(orda.DocumentInTx)
	if !ok {
		return nil, 998
	}
	var err errors.OrdaError
	var ret interface{}
	switch m {
	case "dput":
		var r orda.Document
		r, err = d.PutToObject(a["k"].(string), a["v"])
		ret = docVal(r)
	case "dremove":
		var r orda.Document
		r, err = d.DeleteInObject(a["k"].(string))
		ret = docVal(r)
	case "dinsert":
		_, err = d.InsertToArray(asInt(a["pos"]), toIfaceSlice(a["vs"])...)
	case "ddelete":
		var r orda.Document
		r, err = d.DeleteInArray(asInt(a["pos"]))
		ret = docVal(r)
	case "ddeleteMany":
		var r []orda.Document
		r, err = d.DeleteManyInArray(asInt(a["pos"]), asInt(a["n"]))
		ret = docVals(r)
	case "dupdate":
		var r []orda.Document
		r, err = d.UpdateManyInArray(asInt(a["pos"]), toIfaceSlice(a["vs"])...)
		ret = docVals(r)
	case "dgetObj":
		var r orda.Document
		r, err = d.GetFromObject(a["k"].(string))
		ret = docVal(r)
	case "dgetArr":
		var r []orda.Document
		r, err = d.GetManyFromArray(asInt(a["pos"]), asInt(a["n"]))
		ret = docVals(r)
	case "dvalue":
		b, _ := json.Marshal(d.GetValue())
		_ = json.Unmarshal(b, &ret)
	default:
		return nil, 998
	}
	if err != nil {
		return nil, errCode(err)
	}
	return ret, 0
}

// handle resolution -------------------------------------------------------------------------

func (r *rep) handle(name string) orda.Document {
	if r.handles == nil {
		r.handles = map[string]orda.Document{}
	}
	if name == "" || name == "root" {
		if d, ok := r.dt.(orda.Document); ok {
			return d
		}
		return nil
	}
	return r.handles[name]
}

func (w *world) stepNav(i int, from string, key interface{}, pos int, to string) (J, J, bool) {
	cmd := J{"k": "nav", "r": i, "from": from, "to": to}
	if key != nil {
		cmd["key"] = key
	} else {
		cmd["pos"] = pos
	}
	r := w.reps[i]
	obs := J{}
	hung := guarded(obs, func() {
		h := r.handle(from)
		var child orda.Document
		var err errors.OrdaError
		if key != nil {
			child, err = h.GetFromObject(key.(string))
		} else {
			child, err = h.GetFromArray(pos)
		}
		obs["err"] = errCode(err)
		if err == nil && child != nil {
			if child.GetTypeOfJSON() != orda.TypeJSONElement { // element handles are not kept (superseded elements leave the node table)
				r.handles[to] = child
			}
			obs["kind"] = map[orda.TypeOfJSON]string{orda.TypeJSONElement: "E", orda.TypeJSONObject: "O", orda.TypeJSONArray: "A"}[child.GetTypeOfJSON()]
			obs["value"] = docVal(child)
		} else {
			obs["kind"] = nil
			obs["value"] = nil
		}
	})
	if _, ok := obs["err"]; !ok {
		obs["err"] = 0
	}
	return cmd, obs, hung
}

// generation ---------------------------------------------------------------------------------

func (g *gen) docValue(depth int, bad bool) interface{} {
	if bad && g.r.intn(2) == 0 {
		return nil
	}
	switch k := g.r.intn(10); {
	case k < 3:
		g.tag++
		return fmt.Sprintf("v%d", g.tag)
	case k < 5:
		return float64(g.r.intn(100))
	case k < 6:
		return g.r.intn(2) == 0
	case k < 8 && depth < 3:
		n := g.r.intn(4)
		o := J{}
		for i := 0; i < n; i++ {
			o[g.r.pick(mapKeys)] = g.docValue(depth+1, bad)
		}
		return o
	case depth < 3:
		n := g.r.intn(4)
		a := make([]interface{}, 0, n)
		for i := 0; i < n; i++ {
			a = append(a, g.docValue(depth+1, bad))
		}
		return a
	}
	return float64(g.r.intn(10))
}

// pickHandle returns a handle name of replica i and the kind/size the harness believes it has.
func (g *gen) pickHandle(i int) (string, orda.Document) {
	r := g.w.reps[i]
	names := []string{"root"}
	for n := range r.handles {
		names = append(names, n)
	}
	// deterministic order
	for a := 1; a < len(names); a++ {
		for b := a; b > 1 && names[b] < names[b-1]; b-- {
			names[b], names[b-1] = names[b-1], names[b]
		}
	}
	n := names[g.r.intn(len(names))]
	return n, r.handle(n)
}

func (g *gen) genDocCall(i int, bad, read, inTx bool) (string, J) {
	name, h := g.pickHandle(i)
	if inTx {
		name, h = "root", g.w.reps[i].handle("root")
	}
	a := J{}
	m := "dvalue"
	kind := orda.TypeJSONObject
	size := 0
	func() {
		defer func() { _ = recover() }()
		kind = h.GetTypeOfJSON()
		if kind == orda.TypeJSONArray {
			if arr, ok := h.GetValue().([]interface{}); ok {
				size = len(arr)
			}
		}
	}()
	wrongKind := bad && g.r.intn(4) == 0
	asObj := (kind == orda.TypeJSONObject) != wrongKind
	if kind == orda.TypeJSONElement {
		if !bad && g.r.intn(4) != 0 { // mostly leave element handles alone: every write on them is refused
			name, h = "root", g.w.reps[i].handle("root")
			kind = orda.TypeJSONObject
			asObj = true
		} else {
			asObj = g.r.intn(2) == 0
		}
	}
	if read {
		switch {
		case g.r.intn(3) == 0:
			m = "dvalue"
		case asObj:
			m, a = "dgetObj", J{"k": g.r.pick(mapKeys)}
		default:
			p, n := g.rangeOf(size, bad)
			m, a = "dgetArr", J{"pos": p, "n": n}
		}
	} else if asObj {
		k := g.r.pick(g.keyPool())
		if g.r.intn(10) < g.putShare()+1 {
			m, a = "dput", J{"k": k, "v": g.docValue(0, bad)}
		} else {
			m, a = "dremove", J{"k": k}
		}
	} else {
		switch x := g.r.intn(10); {
		case x < 5 || size == 0 && !bad:
			n := g.batch()
			if n > 3 && !g.r.chance(0.3) {
				n = 1 + g.r.intn(3)
			}
			vs := make([]interface{}, 0, n)
			for j := 0; j < n; j++ {
				vs = append(vs, g.docValue(1, bad))
			}
			m, a = "dinsert", J{"pos": g.pos(size, bad && g.r.intn(2) == 0, true), "vs": vs}
		case x < 7:
			m, a = "ddelete", J{"pos": g.pos(size, bad, false)}
		case x < 8:
			p, n := g.rangeOf(size, bad)
			m, a = "ddeleteMany", J{"pos": p, "n": n}
		default:
			p, n := g.rangeOf(size, bad)
			if n < 0 {
				n = 0
			}
			vs := make([]interface{}, 0, n)
			for j := 0; j < n; j++ {
				vs = append(vs, g.docValue(1, bad))
			}
			m, a = "dupdate", J{"pos": p, "vs": vs}
		}
	}
	a["_h"] = name
	return m, a
}

// genNav: occasionally bind a new handle by navigating from an existing one.
func (g *gen) genNav(i int) (string, interface{}, int, string) {
	name, h := g.pickHandle(i)
	g.tag++
	to := fmt.Sprintf("h%d", g.tag)
	kind := orda.TypeJSONObject
	size := 0
	func() {
		defer func() { _ = recover() }()
		kind = h.GetTypeOfJSON()
		if arr, ok := h.GetValue().([]interface{}); ok {
			size = len(arr)
		}
	}()
	if kind == orda.TypeJSONArray {
		p := 0
		if size > 0 {
			p = g.r.intn(size)
		}
		return name, nil, p, to
	}
	return name, g.r.pick(mapKeys), 0, to
}

func replayTrace(path string, out func(cmd, obs J)) { replayImpl(path, out) }
