// Package srvkit boots the real orda server code (managers + service.OrdaService) fully in-process
// against memmongo (MongoDB stand-in) and mqttstub (MQTT broker stand-in).
package srvkit

import (
	gocontext "context"
	"fmt"
	"io"
	"os"
	"sync"

	"github.com/orda-io/orda/client/pkg/context"
	"github.com/orda-io/orda/client/pkg/iface"
	"github.com/orda-io/orda/client/pkg/log"
	"github.com/orda-io/orda/server/constants"
	"github.com/orda-io/orda/server/managers"
	"github.com/orda-io/orda/server/mongodb"
	"github.com/orda-io/orda/server/service"

	"verifharness/memmongo"
	"verifharness/mqttstub"
)

// DefaultDB is the database name used by New.
const DefaultDB = "orda_verif"

// Kit bundles the in-memory infrastructure and the real orda server objects built on it.
type Kit struct {
	Mongo   *memmongo.Server
	MQTT    *mqttstub.Broker
	Mgrs    *managers.Managers
	Service *service.OrdaService
	DB      string

	ctx iface.OrdaContext
}

// New starts memmongo + mqttstub, silences orda's logging (Quiet), and builds managers.New +
// service.NewOrdaService exactly like server.OrdaServer.Start does (minus the gRPC/REST listeners).
// Redis is nil, so redis.New falls back to the process-local lock (utils.GetLocalLock).
func New() (*Kit, error) {
	Quiet()
	mongo, err := memmongo.Start()
	if err != nil {
		return nil, err
	}
	broker, err := mqttstub.Start()
	if err != nil {
		mongo.Close()
		return nil, err
	}
	k := &Kit{Mongo: mongo, MQTT: broker, DB: DefaultDB}
	if err := k.boot(); err != nil {
		k.Close()
		return nil, err
	}
	return k, nil
}

// Config returns the server configuration used to (re)build the managers.
func (k *Kit) Config() *managers.OrdaServerConfig {
	return &managers.OrdaServerConfig{
		Notification: k.MQTT.URL(),
		Mongo: &mongodb.Config{
			Host:     k.Mongo.Addr(),
			OrdaDB:   k.DB,
			User:     "u",
			Password: "p",
			Options:  "authMechanism=PLAIN",
		},
		Redis: nil, // local lock
	}
}

func (k *Kit) boot() error {
	k.ctx = context.NewOrdaContext(gocontext.Background(), constants.TagServer)
	mgrs, oErr := managers.New(k.ctx, k.Config())
	if oErr != nil {
		// managers.New returns a partially filled struct on error; release what was opened
		if mgrs != nil && mgrs.Mongo != nil {
			_ = mgrs.Mongo.Close(k.ctx)
		}
		return fmt.Errorf("srvkit: managers.New: %v", oErr)
	}
	k.Mgrs = mgrs
	k.Service = service.NewOrdaService(mgrs)
	return nil
}

func (k *Kit) closeManagers() {
	if k.Mgrs != nil {
		// managers.Close closes redis + mongo; the notifier's MQTT connection has no exported
		// close and simply stays connected to the broker (harmless).
		k.Mgrs.Close(k.ctx)
		k.Mgrs, k.Service = nil, nil
	}
}

// Close shuts everything down.
func (k *Kit) Close() {
	if k.Mongo != nil {
		k.Mongo.SetGate(nil)
		k.Mongo.ReleaseAll()
	}
	k.closeManagers()
	if k.MQTT != nil {
		k.MQTT.Close()
	}
	if k.Mongo != nil {
		k.Mongo.Close()
	}
}

// Restart emulates a server process restart: closes managers/service, keeps the memmongo data, and
// builds fresh managers + service against the same memmongo and the same broker.
//
// Commands held by the memmongo gate are NOT released: the old process's connections are closed
// (its in-flight call fails with a network error), while the held command still executes against
// the data once released, like a command that reached mongod just before the server died.
//
// NOTE: orda's local locks live in a package-level map (server/utils.localLockMap) that cannot be
// reset from outside; a lock that is still held (e.g. by a push-pull blocked on a gated command)
// stays held across Restart, unlike in a real process restart.
func (k *Kit) Restart() error {
	k.closeManagers()
	return k.boot()
}

// ---- logging -----------------------------------------------------------------------------------------

var (
	quietMu sync.Mutex
	// Stderr is the process's original os.Stderr; use it to print diagnostics while Quiet is active.
	Stderr   = os.Stderr
	devNull  *os.File
	isQuiet  bool
	prevGlob io.Writer
)

// Quiet silences orda's logging. orda has no exported level/output switch: every OrdaContext makes
// its own logrus logger with logrus.New(), whose Out is whatever the variable os.Stderr holds at
// that moment. So Quiet (1) points the global log.Logger at io.Discard and (2) replaces the Go
// variable os.Stderr with /dev/null, so that all loggers created afterwards are mute. File
// descriptor 2 itself is untouched: runtime panics/tracebacks and the testing package (which writes
// to os.Stdout) are still visible; only code that reads the os.Stderr variable after this call is
// affected. Use Verbose to undo. Loggers created while quiet stay quiet.
func Quiet() {
	quietMu.Lock()
	defer quietMu.Unlock()
	if isQuiet {
		return
	}
	if devNull == nil {
		f, err := os.OpenFile(os.DevNull, os.O_WRONLY, 0)
		if err != nil {
			return
		}
		devNull = f
	}
	prevGlob = log.Logger.Logger.Out
	log.Logger.Logger.SetOutput(io.Discard)
	os.Stderr = devNull
	isQuiet = true
}

// Verbose undoes Quiet for loggers created from now on.
func Verbose() {
	quietMu.Lock()
	defer quietMu.Unlock()
	if !isQuiet {
		return
	}
	os.Stderr = Stderr
	log.Logger.Logger.SetOutput(prevGlob)
	isQuiet = false
}
