package srvkit

import (
	gocontext "context"
	"encoding/json"
	"fmt"
	"sort"
	"sync"
	"testing"
	"time"

	"github.com/orda-io/orda/client/pkg/context"
	"github.com/orda-io/orda/client/pkg/iface"
	"github.com/orda-io/orda/client/pkg/model"
	"github.com/orda-io/orda/client/pkg/operations"
	"github.com/orda-io/orda/client/pkg/orda"
	"github.com/orda-io/orda/client/pkg/types"
	srvconst "github.com/orda-io/orda/server/constants"
	"github.com/orda-io/orda/server/mongodb"
	"github.com/orda-io/orda/server/schema"
	"go.mongodb.org/mongo-driver/bson"

	"verifharness/memmongo"
)

var bg = gocontext.Background()

func newKit(t *testing.T) *Kit {
	t.Helper()
	k, err := New()
	if err != nil {
		t.Fatal(err)
	}
	t.Cleanup(k.Close)
	return k
}

func makeCollection(t *testing.T, k *Kit, name string) {
	t.Helper()
	if _, err := k.Service.CreateCollection(bg, &model.CollectionMessage{Collection: name}); err != nil {
		t.Fatalf("CreateCollection: %v", err)
	}
}

// peer is one hand-driven orda client holding one datatype.
type peer struct {
	t     *testing.T
	k     *Kit
	alias string
	coll  string
	dt    iface.Datatype
	seq   uint32
}

// clientModel rebuilds the *model.Client of the datatype's owner from cuid/alias/collection.
func (p *peer) clientModel() *model.Client {
	return &model.Client{CUID: p.dt.GetCUID(), Alias: p.alias, Collection: p.coll, Type: model.ClientType_PERSISTENT, SyncType: model.SyncType_MANUALLY}
}

func (p *peer) register() {
	p.t.Helper()
	if _, err := p.k.Service.ProcessClient(bg, model.NewClientMessage(p.clientModel())); err != nil {
		p.t.Fatalf("ProcessClient(%s): %v", p.alias, err)
	}
}

// pushPull does one ProcessPushPull round trip without applying the response.
func (p *peer) pushPull() (*model.PushPullMessage, error) {
	p.seq++
	return p.k.Service.ProcessPushPull(bg, model.NewPushPullMessage(p.seq, p.clientModel(), p.dt.CreatePushPullPack()))
}

func (p *peer) sync() {
	p.t.Helper()
	res, err := p.pushPull()
	if err != nil {
		p.t.Fatalf("ProcessPushPull(%s): %v", p.alias, err)
	}
	for _, pack := range res.PushPullPacks {
		if pack.GetPushPullPackOption().HasErrorBit() {
			p.t.Fatalf("ProcessPushPull(%s): error pack %s", p.alias, pack.ToString(true))
		}
		p.dt.ApplyPushPullPack(pack)
	}
}

func poll(d time.Duration, cond func() bool) bool {
	deadline := time.Now().Add(d)
	for !cond() {
		if time.Now().After(deadline) {
			return false
		}
		time.Sleep(5 * time.Millisecond)
	}
	return true
}

// 1. Kit starts; CreateCollection works; Dump shows the collection document and the counter document.
func TestKitCreateCollection(t *testing.T) {
	k := newKit(t)
	makeCollection(t, k, "c1")
	makeCollection(t, k, "c1") // idempotent
	d := k.Mongo.Dump(k.DB)
	cols := d[schema.CollectionNameCollections]
	if len(cols) != 1 || cols[0]["_id"] != "c1" || cols[0]["num"] != int32(1) {
		t.Fatalf("collections: %v", cols)
	}
	ctr := d[schema.CollectionNameColNumGenerator]
	if len(ctr) != 1 || ctr[0]["_id"] != "collectionID" || ctr[0]["num"] != int32(1) {
		t.Fatalf("counter: %v", ctr)
	}
	for _, n := range []string{schema.CollectionNameClients, schema.CollectionNameDatatypes, schema.CollectionNameOperations, schema.CollectionNameSnapshot} {
		if _, has := d[n]; !has {
			t.Fatalf("collection %s was not created: %v", n, d)
		}
	}
	if err := k.Restart(); err != nil {
		t.Fatal(err)
	}
	makeCollection(t, k, "c2")
	d = k.Mongo.Dump(k.DB)
	// NOTE (orda behaviour, reproduced faithfully): GetNextCollectionNum uses FindOneAndUpdate with the
	// default ReturnDocument=Before, so the 1st call (upsert, no previous doc) yields 1 and the 2nd
	// call yields the *previous* value 1 again: "c1" and "c2" both get num 1 on a fresh database.
	if cols = d[schema.CollectionNameCollections]; len(cols) != 2 || cols[1]["_id"] != "c2" || cols[1]["num"] != int32(1) {
		t.Fatalf("collections after restart: %v", cols)
	}
	if ctr = d[schema.CollectionNameColNumGenerator]; len(ctr) != 1 || ctr[0]["num"] != int32(2) {
		t.Fatalf("counter after second collection: %v", ctr)
	}
	// ResetCollection = PurgeCollection (drops the real collection, may not exist) + CreateCollection
	if _, err := k.Service.ResetCollection(bg, &model.CollectionMessage{Collection: "c2"}); err != nil {
		t.Fatalf("ResetCollection: %v", err)
	}
}

// 2 + 3. Two clients driven by hand; operations, notification, snapshot, real-collection document.
func TestTwoClientsCounter(t *testing.T) {
	k := newKit(t)
	makeCollection(t, k, "c1")

	clientA := orda.NewClient(orda.NewLocalClientConfig("c1"), "A")
	counterA := clientA.CreateCounter("k1", nil)
	a := &peer{t: t, k: k, alias: "A", coll: "c1", dt: counterA.(iface.Datatype)}
	a.register()
	if _, err := counterA.IncreaseBy(5); err != nil {
		t.Fatal(err)
	}
	a.sync()

	clientB := orda.NewClient(orda.NewLocalClientConfig("c1"), "B")
	counterB := clientB.SubscribeCounter("k1", nil)
	b := &peer{t: t, k: k, alias: "B", coll: "c1", dt: counterB.(iface.Datatype)}
	b.register()
	b.sync()
	if counterB.Get() != 5 {
		b.sync()
	}
	if got := counterB.Get(); got != 5 {
		t.Fatalf("B.Get() = %d, want 5", got)
	}
	if a.dt.GetDUID() != b.dt.GetDUID() {
		t.Fatalf("DUIDs differ: %s vs %s", a.dt.GetDUID(), b.dt.GetDUID())
	}

	d := k.Mongo.Dump(k.DB)
	ops := d[schema.CollectionNameOperations]
	if len(ops) < 2 {
		t.Fatalf("operations: %v", ops)
	}
	for i, op := range ops {
		if op["sseq"] != int64(i+1) || op["duid"] != a.dt.GetDUID() || op["_id"] != fmt.Sprintf("%s:%d", a.dt.GetDUID(), i+1) {
			t.Fatalf("operation %d: %v", i, op)
		}
	}
	if len(d[schema.CollectionNameClients]) != 2 || len(d[schema.CollectionNameDatatypes]) != 1 {
		t.Fatalf("clients %v datatypes %v", d[schema.CollectionNameClients], d[schema.CollectionNameDatatypes])
	}
	dtDoc := d[schema.CollectionNameDatatypes][0]
	if dtDoc["key"] != "k1" || dtDoc["sseq"].(bson.M)["end"] != int64(len(ops)) {
		t.Fatalf("datatype doc: %v", dtDoc)
	}

	// 3. notification + snapshot + real collection document (asynchronous, after the response)
	if !poll(2*time.Second, func() bool { return len(k.MQTT.Publishes()) >= 1 }) {
		t.Fatal("no MQTT publish recorded")
	}
	pubs := k.MQTT.Publishes()
	var note model.Notification
	if len(pubs) != 1 || pubs[0].Topic != "c1/k1" || json.Unmarshal(pubs[0].Payload, &note) != nil || note.DUID != a.dt.GetDUID() || note.CUID != a.dt.GetCUID() {
		t.Fatalf("publishes: %+v (%s)", pubs, pubs[0].Payload)
	}
	if !poll(2*time.Second, func() bool {
		d := k.Mongo.Dump(k.DB)
		return len(d[schema.CollectionNameSnapshot]) >= 1 && len(d["c1"]) >= 1
	}) {
		t.Fatalf("no snapshot / real document: %v", k.Mongo.Dump(k.DB))
	}
	d = k.Mongo.Dump(k.DB)
	snap, realDoc := d[schema.CollectionNameSnapshot][0], d["c1"][0]
	if snap["duid"] != a.dt.GetDUID() || snap["sseq"] != int64(len(ops)) || snap["colNum"] != int32(1) {
		t.Fatalf("snapshot: %v", snap)
	}
	if realDoc["_id"] != "k1" || realDoc["_orda_ver_"] != int64(len(ops)) {
		t.Fatalf("real doc: %v", realDoc)
	}
	t.Logf("real doc: %v", realDoc)

	// B pushes, A pulls; survives a server restart in between
	if _, err := counterB.IncreaseBy(2); err != nil {
		t.Fatal(err)
	}
	b.sync()
	// wait for the asynchronous snapshot: a restart closes the old managers' mongo client under it
	if !poll(2*time.Second, func() bool { return len(k.Mongo.Dump(k.DB)[schema.CollectionNameSnapshot]) >= 2 }) {
		t.Fatalf("second snapshot missing")
	}
	if err := k.Restart(); err != nil {
		t.Fatal(err)
	}
	a.sync()
	if got := counterA.Get(); got != 7 {
		t.Fatalf("A.Get() = %d, want 7", got)
	}
	if realDoc = k.Mongo.Dump(k.DB)["c1"][0]; realDoc["counter"] != int32(7) {
		t.Fatalf("real doc: %v", realDoc)
	}
}

// PatchDocument runs the snapshot manager + an internal push-pull.
func TestPatchDocument(t *testing.T) {
	k := newKit(t)
	makeCollection(t, k, "c1")
	res, err := k.Service.PatchDocument(bg, &model.PatchMessage{Collection: "c1", Key: "doc1", Json: `{"a":1,"b":["x","y"]}`})
	if err != nil {
		t.Fatalf("PatchDocument: %v", err)
	}
	var got map[string]interface{}
	if json.Unmarshal([]byte(res.Json), &got) != nil || got["a"] != 1.0 {
		t.Fatalf("patched json: %s", res.Json)
	}
	if !poll(2*time.Second, func() bool { return len(k.Mongo.Dump(k.DB)["c1"]) == 1 }) {
		t.Fatalf("no real document: %v", k.Mongo.Dump(k.DB))
	}
	res, err = k.Service.PatchDocument(bg, &model.PatchMessage{Collection: "c1", Key: "doc1", Json: `{"a":2,"b":["x","y"]}`})
	if err != nil {
		t.Fatalf("PatchDocument 2: %v", err)
	}
	if json.Unmarshal([]byte(res.Json), &got) != nil || got["a"] != 2.0 {
		t.Fatalf("patched json: %s", res.Json)
	}
}

// 4. FailAt(k) during ProcessPushPull yields an error pack or an RPC error, not a hang.
func TestFailAtDuringPushPull(t *testing.T) {
	k := newKit(t)
	makeCollection(t, k, "c1")
	clientA := orda.NewClient(orda.NewLocalClientConfig("c1"), "A")
	counterA := clientA.CreateCounter("k1", nil)
	a := &peer{t: t, k: k, alias: "A", coll: "c1", dt: counterA.(iface.Datatype)}
	a.register()
	_, _ = counterA.IncreaseBy(1)
	a.sync()                                                                       // creating push-pull
	poll(2*time.Second, func() bool { return len(k.Mongo.Dump(k.DB)["c1"]) == 1 }) // let the async snapshot finish

	// learn how many data commands an ordinary pushing push-pull issues (stop the count at the
	// datatype update, the last command of the synchronous part)
	_, _ = counterA.IncreaseBy(1)
	k.Mongo.ResetLog()
	a.sync()
	var nSync int
	for _, r := range k.Mongo.Log() {
		if r.Name == "update" && r.Coll == schema.CollectionNameDatatypes {
			nSync = r.Seq
		}
	}
	names := []string{}
	for _, r := range k.Mongo.Log() {
		names = append(names, fmt.Sprintf("%d:%s:%s", r.Seq, r.Name, r.Coll))
	}
	t.Logf("push-pull commands: %v (synchronous part: %d)", names, nSync)
	if nSync < 3 {
		t.Fatalf("unexpected command log: %v", names)
	}
	time.Sleep(50 * time.Millisecond) // let the async snapshot finish

	for fk := 1; fk <= nSync; fk++ {
		_, _ = counterA.IncreaseBy(1)
		k.Mongo.ResetLog()
		k.Mongo.FailAt(fk)
		type result struct {
			res *model.PushPullMessage
			err error
		}
		ch := make(chan result, 1)
		go func() {
			res, err := a.pushPull()
			ch <- result{res, err}
		}()
		select {
		case r := <-ch:
			k.Mongo.FailAt(0)
			failed := r.err != nil
			if r.err == nil {
				for _, pack := range r.res.PushPullPacks {
					failed = failed || pack.GetPushPullPackOption().HasErrorBit()
				}
			}
			var rec memmongo.CmdRecord
			for _, l := range k.Mongo.Log() {
				if l.Failed {
					rec = l
				}
			}
			t.Logf("FailAt(%d) [%s %s] -> err=%v failed=%v", fk, rec.Name, rec.Coll, r.err, failed)
			if rec.Seq != fk {
				t.Fatalf("FailAt(%d): failure not recorded: %+v", fk, k.Mongo.Log())
			}
			if !failed {
				t.Fatalf("FailAt(%d): push-pull reported success", fk)
			}
		case <-time.After(5 * time.Second):
			t.Fatalf("FailAt(%d): ProcessPushPull hung", fk)
		}
		// let any asynchronous post-processing settle before the next round
		time.Sleep(20 * time.Millisecond)
	}
}

// 5. Gate: hold the first find of a ProcessPushPull, observe Held(), release, call completes.
func TestGateDuringPushPull(t *testing.T) {
	k := newKit(t)
	makeCollection(t, k, "c1")
	clientA := orda.NewClient(orda.NewLocalClientConfig("c1"), "A")
	counterA := clientA.CreateCounter("k1", nil)
	a := &peer{t: t, k: k, alias: "A", coll: "c1", dt: counterA.(iface.Datatype)}
	a.register()
	_, _ = counterA.IncreaseBy(3)

	k.Mongo.ResetLog()
	var once sync.Once
	k.Mongo.SetGate(func(r memmongo.CmdRecord) bool {
		hold := false
		if r.Name == "find" {
			once.Do(func() { hold = true })
		}
		return hold
	})
	done := make(chan error, 1)
	go func() {
		res, err := a.pushPull()
		if err == nil {
			for _, pack := range res.PushPullPacks {
				a.dt.ApplyPushPullPack(pack)
			}
		}
		done <- err
	}()
	if !poll(2*time.Second, func() bool { return len(k.Mongo.Held()) > 0 }) {
		t.Fatal("nothing held")
	}
	held := k.Mongo.Held()
	if len(held) != 1 || held[0].Name != "find" || held[0].Coll != schema.CollectionNameCollections {
		t.Fatalf("held: %+v", held)
	}
	select {
	case err := <-done:
		t.Fatalf("push-pull finished while gated: %v", err)
	case <-time.After(50 * time.Millisecond):
	}
	// another request is served meanwhile (separate connection)
	makeCollection(t, k, "c-other")
	k.Mongo.Release(held[0].Seq)
	select {
	case err := <-done:
		if err != nil {
			t.Fatal(err)
		}
	case <-time.After(5 * time.Second):
		t.Fatal("push-pull did not complete after release")
	}
	k.Mongo.SetGate(nil)
	if len(k.Mongo.Held()) != 0 {
		t.Fatalf("still held: %+v", k.Mongo.Held())
	}
}

// 6. The repo's own repository tests (server/mongodb/mongo_collection_test.go) against memmongo,
// plus PurgeCollection and GetLatestSnapshot.
func TestRepoMongoRepository(t *testing.T) {
	k := newKit(t)
	ctx := context.NewOrdaContext(bg, srvconst.TagTest)
	repo := k.Mgrs.Mongo
	name := t.Name()
	// integration.InitTestDBCollection
	if err := repo.PurgeCollection(ctx, name); err != nil {
		t.Fatal(err)
	}
	collectionNum, err := mongodb.MakeCollection(ctx, repo, name)
	if err != nil {
		t.Fatal(err)
	}

	t.Run("Can make collections simultaneously", func(t *testing.T) {
		made := map[int32]*schema.CollectionDoc{}
		var mu sync.Mutex
		for i := 0; i < 10; i++ {
			if err := repo.DeleteCollection(ctx, fmt.Sprintf("hello_%d", i)); err != nil {
				t.Fatal(err)
			}
		}
		var wg sync.WaitGroup
		for i := 0; i < 10; i++ {
			wg.Add(1)
			go func(idx int) {
				defer wg.Done()
				c, err := repo.InsertCollection(ctx, fmt.Sprintf("hello_%d", idx))
				if err != nil {
					t.Error(err)
					return
				}
				mu.Lock()
				made[c.Num] = c
				mu.Unlock()
			}(i)
		}
		wg.Wait()
		if len(made) != 10 {
			t.Fatalf("made %d distinct collection numbers, want 10", len(made))
		}
		var nums []int
		for n := range made {
			nums = append(nums, int(n))
		}
		sort.Ints(nums)
		t.Logf("collection numbers: %v", nums)
	})

	t.Run("Can manipulate datatypeDoc", func(t *testing.T) {
		d := schema.NewDatatypeDoc("test_duid2", "test_key", collectionNum, "test_datatype")
		d.AddNewClient("aaaa", int8(model.ClientType_EPHEMERAL), true)
		if err := repo.UpdateDatatype(ctx, d); err != nil {
			t.Fatal(err)
		}
		d1, err := repo.GetDatatype(ctx, d.DUID)
		if err != nil || d1 == nil || d1.Key != "test_key" || d1.ROClients["aaaa"] == nil || d1.ROClients["aaaa"].Type != int8(model.ClientType_EPHEMERAL) {
			t.Fatalf("GetDatatype: %v %v", d1, err)
		}
		if d2, err := repo.GetDatatype(ctx, "not exist"); err != nil || d2 != nil {
			t.Fatalf("GetDatatype(not exist): %v %v", d2, err)
		}
		d3, err := repo.GetDatatypeByKey(ctx, d.CollectionNum, d.Key)
		if err != nil || d3 == nil || d3.DUID != d.DUID {
			t.Fatalf("GetDatatypeByKey: %v %v", d3, err)
		}
		// A second UpdateDatatype only "modifies" because UpdatedAt changes. BSON dates have millisecond
		// resolution, so within the same millisecond the document is byte-identical, nModified is 0
		// (as on a real MongoDB) and orda reports "fail to update datatype". Hence the sleep.
		time.Sleep(2 * time.Millisecond)
		if err := repo.UpdateDatatype(ctx, d); err != nil {
			t.Fatal(err)
		}
	})

	t.Run("Can manipulate operationDoc", func(t *testing.T) {
		snap, _ := json.Marshal(map[string]int{"value": 1})
		op := operations.NewSnapshotOperation(model.TypeOfDatatype_DOCUMENT, snap)
		op.ID = model.NewOperationIDWithCUID(types.NewUID())
		modelOp := op.ToModelOperation()
		var oplist []interface{}
		for sseq := uint64(1); sseq <= 3; sseq++ {
			oplist = append(oplist, schema.NewOperationDoc(modelOp, "test_duid", sseq, collectionNum))
		}
		if _, err := repo.DeleteOperation(ctx, "test_duid", 1); err != nil {
			t.Fatal(err)
		}
		if err := repo.InsertOperations(ctx, oplist); err != nil {
			t.Fatal(err)
		}
		if err := repo.InsertOperations(ctx, oplist[:1]); err == nil {
			t.Fatal("duplicate operation insert must fail")
		}
		ops, sseqs, err := repo.GetOperations(ctx, "test_duid", 2, srvconst.InfinitySseq)
		if err != nil || len(ops) != 2 || sseqs[0] != 2 || sseqs[1] != 3 || string(ops[0].Body) != string(modelOp.Body) {
			t.Fatalf("GetOperations: %v %v %v", ops, sseqs, err)
		}
		// NOTE (orda behaviour): GetOperations discards the result of f.AddFilterLTE(...), so the upper
		// bound `to` is never part of the query that reaches the database: all 3 operations come back.
		ops, _, err = repo.GetOperations(ctx, "test_duid", 1, 2)
		if err != nil || len(ops) != 3 {
			t.Fatalf("GetOperations(1,2): %v %v", ops, err)
		}
		if n, err := repo.DeleteOperation(ctx, "test_duid", 1); err != nil || n != 1 {
			t.Fatalf("DeleteOperation: %d %v", n, err)
		}
	})

	t.Run("Snapshots and purge", func(t *testing.T) {
		if s, err := repo.GetLatestSnapshot(ctx, collectionNum, "test_duid"); err != nil || s != nil {
			t.Fatalf("GetLatestSnapshot(empty): %v %v", s, err)
		}
		for _, sseq := range []uint64{2, 10, 5} {
			if err := repo.InsertSnapshot(ctx, collectionNum, "test_duid", sseq, []byte("meta"), []byte{byte(sseq)}); err != nil {
				t.Fatal(err)
			}
		}
		s, err := repo.GetLatestSnapshot(ctx, collectionNum, "test_duid")
		if err != nil || s == nil || s.Sseq != 10 || s.Meta != "meta" || len(s.Snapshot) != 1 || s.Snapshot[0] != 10 {
			t.Fatalf("GetLatestSnapshot: %+v %v", s, err)
		}
		if err := repo.InsertRealSnapshot(ctx, name, "key", map[string]interface{}{"x": 1}, 10); err != nil {
			t.Fatal(err)
		}
		real, err := repo.GetRealSnapshot(ctx, name, "key")
		if err != nil || real["x"] != int32(1) || real["_orda_ver_"] != int64(10) {
			t.Fatalf("GetRealSnapshot: %v %v", real, err)
		}
		client := &schema.ClientDoc{CUID: "cuid1", Alias: "al", CollectionNum: collectionNum, CreatedAt: time.Now()}
		if err := repo.UpdateClient(ctx, client); err != nil {
			t.Fatal(err)
		}
		if c, err := repo.GetClient(ctx, "cuid1"); err != nil || c == nil || c.Alias != "al" || c.UpdatedAt.IsZero() {
			t.Fatalf("GetClient: %+v %v", c, err)
		}
		if err := repo.PurgeDatatype(ctx, collectionNum, "test_key"); err != nil {
			t.Fatal(err)
		}
		if d, _ := repo.GetDatatype(ctx, "test_duid2"); d != nil {
			t.Fatalf("datatype survived PurgeDatatype")
		}
		if _, has := k.Mongo.Dump(k.DB)[name]; !has {
			t.Fatalf("real collection missing")
		}
		if err := repo.PurgeCollection(ctx, name); err != nil {
			t.Fatal(err)
		}
		d := k.Mongo.Dump(k.DB)
		if len(d[schema.CollectionNameOperations]) != 0 || len(d[schema.CollectionNameSnapshot]) != 0 || len(d[schema.CollectionNameClients]) != 0 {
			t.Fatalf("purge left data: %v", d)
		}
		if _, has := d[name]; has {
			t.Fatalf("real collection survived the purge")
		}
	})
}

// Restart while a write is held at the database: the in-flight call fails promptly, and the held
// write still lands once released (the command had already reached the database).
func TestRestartWithHeldCommand(t *testing.T) {
	k := newKit(t)
	makeCollection(t, k, "c1")
	clientA := orda.NewClient(orda.NewLocalClientConfig("c1"), "A")
	counterA := clientA.CreateCounter("k1", nil)
	a := &peer{t: t, k: k, alias: "A", coll: "c1", dt: counterA.(iface.Datatype)}
	a.register()
	_, _ = counterA.IncreaseBy(3)
	k.Mongo.SetGate(func(r memmongo.CmdRecord) bool { return r.Name == "update" && r.Coll == schema.CollectionNameDatatypes })
	type result struct {
		res *model.PushPullMessage
		err error
	}
	done := make(chan result, 1)
	go func() {
		res, err := a.pushPull()
		done <- result{res, err}
	}()
	if !poll(2*time.Second, func() bool { return len(k.Mongo.Held()) == 1 }) {
		t.Fatal("nothing held")
	}
	k.Mongo.SetGate(nil)
	if err := k.Restart(); err != nil {
		t.Fatal(err)
	}
	select {
	case r := <-done:
		failed := r.err != nil
		if r.err == nil {
			for _, pack := range r.res.PushPullPacks {
				failed = failed || pack.GetPushPullPackOption().HasErrorBit()
			}
		}
		if !failed {
			t.Fatalf("push-pull of the killed server reported success")
		}
	case <-time.After(5 * time.Second):
		t.Fatal("in-flight push-pull hung across Restart")
	}
	d := k.Mongo.Dump(k.DB)
	if len(d[schema.CollectionNameOperations]) != 2 || len(d[schema.CollectionNameDatatypes]) != 0 {
		t.Fatalf("state at restart: ops %v datatypes %v", d[schema.CollectionNameOperations], d[schema.CollectionNameDatatypes])
	}
	k.Mongo.ReleaseAll()
	if !poll(2*time.Second, func() bool { return len(k.Mongo.Dump(k.DB)[schema.CollectionNameDatatypes]) == 1 }) {
		t.Fatal("held update did not execute after release")
	}
	// the new server instance works
	makeCollection(t, k, "c2")
}
