// Package mqttstub is a minimal in-process MQTT 3.1/3.1.1 broker stand-in: CONNECT/CONNACK,
// PUBLISH (QoS 0, 1 and 2 handshakes towards the publisher), SUBSCRIBE/SUBACK, UNSUBSCRIBE/UNSUBACK,
// PINGREQ/PINGRESP, DISCONNECT, topic routing with `+` and `#` wildcards.
//
// Limitations: messages are always forwarded to subscribers with QoS 0 (SUBACK grants QoS 0), no
// retained messages, no wills, no persistent sessions, no authentication, no keep-alive timeouts.
package mqttstub

import (
	"bufio"
	"encoding/binary"
	"errors"
	"io"
	"net"
	"strings"
	"sync"
	"time"
)

// Publish is one PUBLISH packet received by the broker.
type Publish struct {
	Seq      int // 1-based arrival order since Start/Reset
	Topic    string
	Payload  []byte
	ClientID string // client id of the publisher ("" if it connected with an empty id)
}

// Broker is the MQTT stand-in.
type Broker struct {
	ln net.Listener

	mu        sync.Mutex
	publishes []Publish
	seq       int
	delay     time.Duration
	drop      func(Publish) bool
	sessions  map[*session]struct{}
	closed    bool
	wg        sync.WaitGroup

	// Forwarding is done by a single goroutine so that delayed messages keep their arrival order.
	fwd  chan fwdItem
	done chan struct{}
}

type fwdItem struct {
	at  time.Time
	pub Publish
}

type session struct {
	conn     net.Conn
	wmu      sync.Mutex
	clientID string
	subs     map[string]struct{}
}

// Start listens on 127.0.0.1:0 and serves in background goroutines.
func Start() (*Broker, error) {
	ln, err := net.Listen("tcp", "127.0.0.1:0")
	if err != nil {
		return nil, err
	}
	b := &Broker{ln: ln, sessions: map[*session]struct{}{}, fwd: make(chan fwdItem, 4096), done: make(chan struct{})}
	b.wg.Add(2)
	go b.acceptLoop()
	go b.forwardLoop()
	return b, nil
}

// URL returns "tcp://127.0.0.1:port".
func (b *Broker) URL() string { return "tcp://" + b.ln.Addr().String() }

// Close stops the broker and drops all connections. Messages still waiting for their delay are discarded.
func (b *Broker) Close() {
	b.mu.Lock()
	if b.closed {
		b.mu.Unlock()
		return
	}
	b.closed = true
	_ = b.ln.Close()
	for s := range b.sessions {
		_ = s.conn.Close()
	}
	close(b.fwd)
	close(b.done)
	b.mu.Unlock()
	b.wg.Wait()
}

// Publishes returns a copy of everything published so far, in arrival order.
func (b *Broker) Publishes() []Publish {
	b.mu.Lock()
	defer b.mu.Unlock()
	out := make([]Publish, len(b.publishes))
	for i, p := range b.publishes {
		p.Payload = append([]byte(nil), p.Payload...)
		out[i] = p
	}
	return out
}

// Reset forgets the recorded publishes and restarts Seq at 1 (connections and subscriptions stay).
func (b *Broker) Reset() {
	b.mu.Lock()
	b.publishes, b.seq = nil, 0
	b.mu.Unlock()
}

// SetDelay makes the broker hold each message for d before forwarding it to subscribers
// (recording in Publishes is immediate). It applies to messages received after the call.
func (b *Broker) SetDelay(d time.Duration) {
	b.mu.Lock()
	b.delay = d
	b.mu.Unlock()
}

// SetDrop installs a predicate; when it returns true the message is recorded but not forwarded.
// nil removes it. The predicate is evaluated on arrival, with the broker lock held.
func (b *Broker) SetDrop(pred func(Publish) bool) {
	b.mu.Lock()
	b.drop = pred
	b.mu.Unlock()
}

// Subscriptions returns the topic filters currently subscribed, per client id (for diagnostics).
func (b *Broker) Subscriptions() map[string][]string {
	b.mu.Lock()
	defer b.mu.Unlock()
	out := map[string][]string{}
	for s := range b.sessions {
		for f := range s.subs {
			out[s.clientID] = append(out[s.clientID], f)
		}
	}
	return out
}

func (b *Broker) acceptLoop() {
	defer b.wg.Done()
	for {
		c, err := b.ln.Accept()
		if err != nil {
			return
		}
		s := &session{conn: c, subs: map[string]struct{}{}}
		b.mu.Lock()
		if b.closed {
			b.mu.Unlock()
			_ = c.Close()
			return
		}
		b.sessions[s] = struct{}{}
		b.wg.Add(1)
		b.mu.Unlock()
		go b.serve(s)
	}
}

func (b *Broker) forwardLoop() {
	defer b.wg.Done()
	for it := range b.fwd {
		if d := time.Until(it.at); d > 0 {
			select {
			case <-time.After(d):
			case <-b.done:
				return
			}
		}
		pkt := encodePublish(it.pub.Topic, it.pub.Payload)
		b.mu.Lock()
		var targets []*session
		for s := range b.sessions {
			for f := range s.subs {
				if topicMatches(f, it.pub.Topic) {
					targets = append(targets, s)
					break
				}
			}
		}
		b.mu.Unlock()
		for _, s := range targets {
			s.write(pkt)
		}
	}
}

func (s *session) write(pkt []byte) {
	s.wmu.Lock()
	defer s.wmu.Unlock()
	_ = s.conn.SetWriteDeadline(time.Now().Add(5 * time.Second))
	_, _ = s.conn.Write(pkt)
}

func (b *Broker) serve(s *session) {
	defer b.wg.Done()
	defer func() {
		_ = recover()
		_ = s.conn.Close()
		b.mu.Lock()
		delete(b.sessions, s)
		b.mu.Unlock()
	}()
	r := bufio.NewReader(s.conn)
	for {
		typ, flags, body, err := readPacket(r)
		if err != nil {
			return
		}
		switch typ {
		case 1: // CONNECT
			_, rest := readStr(body) // protocol name
			if len(rest) < 4 {
				return
			}
			rest = rest[4:] // level, connect flags, keep alive
			id, _ := readStr(rest)
			b.mu.Lock()
			s.clientID = id
			b.mu.Unlock()
			s.write([]byte{0x20, 2, 0, 0})
		case 3: // PUBLISH
			qos := (flags >> 1) & 3
			topic, rest := readStr(body)
			var pid []byte
			if qos > 0 {
				if len(rest) < 2 {
					return
				}
				pid, rest = rest[:2], rest[2:]
			}
			b.record(s, topic, append([]byte(nil), rest...))
			if qos == 1 {
				s.write([]byte{0x40, 2, pid[0], pid[1]})
			} else if qos == 2 {
				s.write([]byte{0x50, 2, pid[0], pid[1]})
			}
		case 6: // PUBREL -> PUBCOMP
			if len(body) >= 2 {
				s.write([]byte{0x70, 2, body[0], body[1]})
			}
		case 8: // SUBSCRIBE
			if len(body) < 2 {
				return
			}
			ack := []byte{0x90, 0, body[0], body[1]}
			rest := body[2:]
			b.mu.Lock()
			for len(rest) > 2 {
				var f string
				f, rest = readStr(rest)
				if len(rest) < 1 {
					break
				}
				rest = rest[1:] // requested QoS
				s.subs[f] = struct{}{}
				ack = append(ack, 0) // granted QoS 0
			}
			b.mu.Unlock()
			ack[1] = byte(len(ack) - 2)
			s.write(ack)
		case 10: // UNSUBSCRIBE
			if len(body) < 2 {
				return
			}
			rest := body[2:]
			b.mu.Lock()
			for len(rest) > 2 {
				var f string
				f, rest = readStr(rest)
				delete(s.subs, f)
			}
			b.mu.Unlock()
			s.write([]byte{0xB0, 2, body[0], body[1]})
		case 12: // PINGREQ
			s.write([]byte{0xD0, 0})
		case 14: // DISCONNECT
			return
		case 4, 5, 7: // PUBACK / PUBREC / PUBCOMP from a subscriber: nothing to do
		default:
			return
		}
	}
}

func (b *Broker) record(s *session, topic string, payload []byte) {
	b.mu.Lock()
	defer b.mu.Unlock()
	if b.closed {
		return
	}
	b.seq++
	p := Publish{Seq: b.seq, Topic: topic, Payload: payload, ClientID: s.clientID}
	b.publishes = append(b.publishes, p)
	if b.drop != nil && b.drop(p) {
		return
	}
	select {
	case b.fwd <- fwdItem{at: time.Now().Add(b.delay), pub: p}:
	default: // forwarding queue full: drop rather than block the publisher
	}
}

// ---- packet helpers -------------------------------------------------------------------------------

func readPacket(r *bufio.Reader) (typ, flags byte, body []byte, err error) {
	h, err := r.ReadByte()
	if err != nil {
		return
	}
	n, mult := 0, 1
	for i := 0; ; i++ {
		var c byte
		if c, err = r.ReadByte(); err != nil {
			return
		}
		n += int(c&0x7f) * mult
		mult *= 128
		if c&0x80 == 0 {
			break
		}
		if i == 3 {
			return 0, 0, nil, errors.New("mqttstub: malformed remaining length")
		}
	}
	body = make([]byte, n)
	_, err = io.ReadFull(r, body)
	return h >> 4, h & 0x0f, body, err
}

func readStr(b []byte) (string, []byte) {
	if len(b) < 2 {
		return "", nil
	}
	n := int(binary.BigEndian.Uint16(b))
	if len(b) < 2+n {
		return "", nil
	}
	return string(b[2 : 2+n]), b[2+n:]
}

func encodePublish(topic string, payload []byte) []byte {
	n := 2 + len(topic) + len(payload)
	pkt := []byte{0x30}
	for {
		c := byte(n % 128)
		n /= 128
		if n > 0 {
			c |= 0x80
		}
		pkt = append(pkt, c)
		if n == 0 {
			break
		}
	}
	pkt = append(pkt, byte(len(topic)>>8), byte(len(topic)))
	pkt = append(pkt, topic...)
	return append(pkt, payload...)
}

// topicMatches implements MQTT topic filter matching with `+` (one level) and `#` (rest).
func topicMatches(filter, topic string) bool {
	if filter == topic {
		return true
	}
	f, t := strings.Split(filter, "/"), strings.Split(topic, "/")
	for i, seg := range f {
		if seg == "#" {
			return true
		}
		if i >= len(t) || (seg != "+" && seg != t[i]) {
			return false
		}
	}
	return len(f) == len(t)
}
