package mqttstub

import (
	"testing"
	"time"

	mqtt "github.com/eclipse/paho.mqtt.golang"
)

func client(t *testing.T, b *Broker, id string) mqtt.Client {
	t.Helper()
	c := mqtt.NewClient(mqtt.NewClientOptions().AddBroker(b.URL()).SetClientID(id))
	if tok := c.Connect(); !tok.WaitTimeout(3*time.Second) || tok.Error() != nil {
		t.Fatalf("connect %s: %v", id, tok.Error())
	}
	t.Cleanup(func() { c.Disconnect(0) })
	return c
}

func TestPubSub(t *testing.T) {
	b, err := Start()
	if err != nil {
		t.Fatal(err)
	}
	defer b.Close()
	pub, sub1, sub2 := client(t, b, ""), client(t, b, "s1"), client(t, b, "s2")
	got := make(chan string, 16)
	h := func(name string) mqtt.MessageHandler {
		return func(_ mqtt.Client, m mqtt.Message) { got <- name + ":" + m.Topic() + ":" + string(m.Payload()) }
	}
	for _, s := range []struct {
		c      mqtt.Client
		filter string
		name   string
	}{{sub1, "c1/k1", "s1"}, {sub2, "c1/+", "s2"}} {
		if tok := s.c.Subscribe(s.filter, 0, h(s.name)); !tok.WaitTimeout(3*time.Second) || tok.Error() != nil {
			t.Fatalf("subscribe: %v", tok.Error())
		}
	}
	expect := func(n int, within time.Duration) map[string]bool {
		t.Helper()
		seen := map[string]bool{}
		deadline := time.After(within)
		for len(seen) < n {
			select {
			case m := <-got:
				seen[m] = true
			case <-deadline:
				t.Fatalf("timeout: got %v, want %d messages", seen, n)
			}
		}
		return seen
	}
	for qos := byte(0); qos <= 2; qos++ {
		if tok := pub.Publish("c1/k1", qos, false, []byte{'m', '0' + qos}); !tok.WaitTimeout(3*time.Second) || tok.Error() != nil {
			t.Fatalf("publish qos %d: %v", qos, tok.Error())
		}
	}
	seen := expect(6, 3*time.Second)
	if !seen["s1:c1/k1:m0"] || !seen["s2:c1/k1:m2"] {
		t.Fatalf("seen: %v", seen)
	}
	pub.Publish("c1/other", 0, false, "x").Wait()
	if seen = expect(1, 3*time.Second); !seen["s2:c1/other:x"] {
		t.Fatalf("seen: %v", seen)
	}
	ps := b.Publishes()
	if len(ps) != 4 || ps[0].Seq != 1 || ps[3].Topic != "c1/other" || string(ps[3].Payload) != "x" || ps[0].ClientID != "" {
		t.Fatalf("publishes: %+v", ps)
	}

	// drop: recorded, not forwarded
	b.Reset()
	b.SetDrop(func(p Publish) bool { return string(p.Payload) == "dropme" })
	pub.Publish("c1/k1", 0, false, "dropme").Wait()
	pub.Publish("c1/k1", 0, false, "keep").Wait()
	seen = expect(2, 3*time.Second)
	if !seen["s1:c1/k1:keep"] || !seen["s2:c1/k1:keep"] || len(b.Publishes()) != 2 {
		t.Fatalf("seen: %v, publishes %+v", seen, b.Publishes())
	}
	b.SetDrop(nil)

	// delay
	b.SetDelay(300 * time.Millisecond)
	start := time.Now()
	pub.Publish("c1/k1", 0, false, "late").Wait()
	for len(b.Publishes()) < 3 && time.Since(start) < time.Second {
		time.Sleep(time.Millisecond)
	}
	if time.Since(start) > 200*time.Millisecond {
		t.Fatalf("recording was delayed")
	}
	expect(2, 3*time.Second)
	if d := time.Since(start); d < 290*time.Millisecond {
		t.Fatalf("delivered too early: %v", d)
	}

	// unsubscribe
	b.SetDelay(0)
	if tok := sub1.Unsubscribe("c1/k1"); !tok.WaitTimeout(3*time.Second) || tok.Error() != nil {
		t.Fatalf("unsubscribe: %v", tok.Error())
	}
	pub.Publish("c1/k1", 0, false, "after").Wait()
	if seen = expect(1, 3*time.Second); !seen["s2:c1/k1:after"] {
		t.Fatalf("seen: %v", seen)
	}
	select {
	case m := <-got:
		t.Fatalf("unexpected %s", m)
	case <-time.After(100 * time.Millisecond):
	}
}
