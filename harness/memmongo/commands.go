package memmongo

import (
	"encoding/hex"
	"fmt"
	"strings"
	"time"

	"go.mongodb.org/mongo-driver/bson"
	"go.mongodb.org/mongo-driver/bson/primitive"
)

// txn keeps the undo information of one multi-document transaction (lsid + txnNumber).
type txn struct {
	snaps map[[2]string]*coll // (db, collection) -> state before the transaction first touched it (nil: did not exist)
}

// call is the execution context of one data command (server lock held).
type call struct {
	s   *Server
	db  string
	cmd bson.D
	tx  *txn
	now time.Time
}

func ok(extra ...bson.E) bson.D { return append(bson.D(extra), bson.E{Key: "ok", Value: 1.0}) }

// handle executes one command and returns the reply document. It never panics.
func (s *Server) handle(cmd bson.D, db string, conn int) (res bson.D) {
	defer func() {
		if r := recover(); r != nil {
			if ce, isCmdErr := r.(*cmdErr); isCmdErr {
				res = errDoc(ce)
			} else {
				res = errDoc(&cmdErr{1, "InternalError", fmt.Sprintf("memmongo panic: %v", r)})
			}
		}
	}()
	if len(cmd) == 0 {
		fail(59, "CommandNotFound", "no such command")
	}
	name := cmd[0].Key
	switch name {
	case "hello", "isMaster", "ismaster":
		return ok(
			bson.E{Key: "ismaster", Value: true}, bson.E{Key: "isWritablePrimary", Value: true}, bson.E{Key: "helloOk", Value: true},
			bson.E{Key: "msg", Value: "isdbgrid"},
			bson.E{Key: "maxBsonObjectSize", Value: int32(16777216)}, bson.E{Key: "maxMessageSizeBytes", Value: int32(48000000)},
			bson.E{Key: "maxWriteBatchSize", Value: int32(100000)}, bson.E{Key: "localTime", Value: primitive.NewDateTimeFromTime(time.Now())},
			bson.E{Key: "logicalSessionTimeoutMinutes", Value: int32(30)}, bson.E{Key: "connectionId", Value: int32(conn)},
			bson.E{Key: "minWireVersion", Value: int32(0)}, bson.E{Key: "maxWireVersion", Value: int32(13)}, bson.E{Key: "readOnly", Value: false})
	case "ping", "endSessions", "logout", "refreshSessions", "killSessions":
		return ok()
	case "saslStart", "saslContinue":
		return ok(bson.E{Key: "conversationId", Value: int32(1)}, bson.E{Key: "done", Value: true}, bson.E{Key: "payload", Value: primitive.Binary{Data: []byte{}}})
	case "buildInfo", "buildinfo":
		return ok(bson.E{Key: "version", Value: "5.0.0"}, bson.E{Key: "versionArray", Value: primitive.A{int32(5), int32(0), int32(0), int32(0)}},
			bson.E{Key: "gitVersion", Value: "memmongo"}, bson.E{Key: "maxBsonObjectSize", Value: int32(16777216)})
	case "getMore":
		coll, _ := lookupD(cmd, "collection").(string)
		return ok(bson.E{Key: "cursor", Value: bson.D{{Key: "id", Value: int64(0)}, {Key: "ns", Value: db + "." + coll}, {Key: "nextBatch", Value: primitive.A{}}}})
	case "killCursors":
		ids, _ := lookupD(cmd, "cursors").(primitive.A)
		return ok(bson.E{Key: "cursorsKilled", Value: primitive.A{}}, bson.E{Key: "cursorsNotFound", Value: append(primitive.A{}, ids...)},
			bson.E{Key: "cursorsAlive", Value: primitive.A{}}, bson.E{Key: "cursorsUnknown", Value: primitive.A{}})
	case "dropDatabase":
		s.mu.Lock()
		delete(s.dbs, db)
		s.mu.Unlock()
		return ok(bson.E{Key: "dropped", Value: db})
	case "listIndexes":
		coll := str(cmd[0].Value)
		s.mu.Lock()
		defer s.mu.Unlock()
		c := s.getColl(db, coll, false)
		if c == nil {
			fail(26, "NamespaceNotFound", "ns does not exist: %s.%s", db, coll)
		}
		batch := primitive.A{bson.D{{Key: "v", Value: int32(2)}, {Key: "key", Value: bson.D{{Key: "_id", Value: int32(1)}}}, {Key: "name", Value: "_id_"}}}
		for _, ix := range c.indexes {
			batch = append(batch, ix)
		}
		return cursorReply(db+"."+coll, batch)
	case "dropIndexes":
		coll := str(cmd[0].Value)
		s.mu.Lock()
		defer s.mu.Unlock()
		c := s.getColl(db, coll, false)
		if c == nil {
			fail(26, "NamespaceNotFound", "ns not found %s.%s", db, coll)
		}
		n := len(c.indexes) + 1
		want := lookupD(cmd, "index")
		kept := c.indexes[:0:0]
		for _, ix := range c.indexes {
			if w, isStr := want.(string); isStr && w != "*" && lookupD(ix, "name") != w {
				kept = append(kept, ix)
			}
		}
		c.indexes = kept
		return ok(bson.E{Key: "nIndexesWas", Value: int32(n)})
	}
	if !dataCommands[name] {
		fail(59, "CommandNotFound", "no such command: '%s'", name)
	}
	collName, _ := cmd[0].Value.(string)
	if res := s.admit(name, db, collName, cmd, conn); res != nil {
		return res
	}
	s.mu.Lock()
	defer s.mu.Unlock()
	c := &call{s: s, db: db, cmd: cmd, now: time.Now()}
	c.bindTxn(name)
	switch name {
	case "insert":
		return c.insert(collName)
	case "find":
		return c.find(collName)
	case "update":
		return c.update(collName)
	case "delete":
		return c.delete(collName)
	case "findAndModify", "findandmodify":
		return c.findAndModify(collName)
	case "count":
		docs := window(s.getColl(db, collName, false).query(c.docArg("query")), c.intArg("skip"), c.intArg("limit"))
		return ok(bson.E{Key: "n", Value: int32(len(docs))})
	case "distinct":
		return c.distinct(collName)
	case "aggregate":
		return c.aggregate(collName)
	case "listCollections":
		return c.listCollections()
	case "create":
		if s.getColl(db, collName, false) != nil {
			fail(48, "NamespaceExists", "Collection already exists. NS: %s.%s", db, collName)
		}
		s.getColl(db, collName, true)
		return ok()
	case "createIndexes":
		existed := s.getColl(db, collName, false) != nil
		cl := s.getColl(db, collName, true)
		before := len(cl.indexes) + 1
		specs, _ := lookupD(cmd, "indexes").(primitive.A)
		for _, sp := range specs {
			spec, _ := sp.(bson.D)
			dup := false
			for _, ix := range cl.indexes {
				dup = dup || lookupD(ix, "name") == lookupD(spec, "name")
			}
			if !dup && spec != nil {
				cl.indexes = append(cl.indexes, append(bson.D{{Key: "v", Value: int32(2)}}, spec...))
			}
		}
		return ok(bson.E{Key: "numIndexesBefore", Value: int32(before)}, bson.E{Key: "numIndexesAfter", Value: int32(len(cl.indexes) + 1)},
			bson.E{Key: "createdCollectionAutomatically", Value: !existed})
	case "drop":
		cl := s.getColl(db, collName, false)
		if cl == nil {
			fail(26, "NamespaceNotFound", "ns not found")
		}
		n := len(cl.indexes) + 1
		s.dropColl(db, collName)
		return ok(bson.E{Key: "nIndexesWas", Value: int32(n)}, bson.E{Key: "ns", Value: db + "." + collName})
	case "commitTransaction":
		delete(s.txns, c.txnKey())
		return ok()
	case "abortTransaction":
		key := c.txnKey()
		if t := s.txns[key]; t != nil {
			for k, snap := range t.snaps {
				if snap == nil {
					s.dropColl(k[0], k[1])
				} else {
					*s.getColl(k[0], k[1], true) = *snap
				}
			}
			delete(s.txns, key)
		}
		return ok()
	}
	fail(59, "CommandNotFound", "no such command: '%s'", name)
	return nil
}

// ---- helpers ---------------------------------------------------------------------------------------

func cursorReply(ns string, batch primitive.A) bson.D {
	return ok(bson.E{Key: "cursor", Value: bson.D{{Key: "id", Value: int64(0)}, {Key: "ns", Value: ns}, {Key: "firstBatch", Value: batch}}})
}

func (c *call) docArg(key string) bson.D {
	switch v := lookupD(c.cmd, key).(type) {
	case bson.D:
		return v
	case nil:
		return nil
	default:
		fail(14, "TypeMismatch", "field '%s' must be an object", key)
	}
	return nil
}

func (c *call) intArg(key string) int {
	v := lookupD(c.cmd, key)
	if typeClass(v) != 3 {
		return 0
	}
	n := int(toFloat(v))
	if n < 0 {
		n = -n
	}
	return n
}

func window(docs []*doc, skip, limit int) []*doc {
	if skip > 0 {
		if skip >= len(docs) {
			return nil
		}
		docs = docs[skip:]
	}
	if limit > 0 && limit < len(docs) {
		docs = docs[:limit]
	}
	return docs
}

func (c *call) txnKey() string {
	l, _ := lookupD(c.cmd, "lsid").(bson.D)
	return hex.EncodeToString(mustMarshal(l)) + ":" + fmt.Sprint(lookupD(c.cmd, "txnNumber"))
}

// bindTxn attaches the command to its multi-document transaction, if any (autocommit:false).
func (c *call) bindTxn(name string) {
	if ac, isBool := lookupD(c.cmd, "autocommit").(bool); !isBool || ac || name == "commitTransaction" || name == "abortTransaction" {
		return
	}
	key := c.txnKey()
	if truthy(lookupD(c.cmd, "startTransaction")) {
		// a new transaction on a session implicitly forgets older ones of that session
		prefix := key[:strings.IndexByte(key, ':')+1]
		for k := range c.s.txns {
			if strings.HasPrefix(k, prefix) {
				delete(c.s.txns, k)
			}
		}
		c.s.txns[key] = &txn{snaps: map[[2]string]*coll{}}
	}
	c.tx = c.s.txns[key]
	if c.tx == nil {
		panic(&cmdErr{251, "NoSuchTransaction", "Given transaction number does not match any in-progress transactions"})
	}
}

// writable returns the collection for writing (creating it if asked), recording an undo snapshot
// when the command runs inside a transaction.
func (c *call) writable(name string, create bool) *coll {
	cl := c.s.getColl(c.db, name, false)
	if c.tx != nil {
		k := [2]string{c.db, name}
		if _, seen := c.tx.snaps[k]; !seen {
			if cl == nil {
				c.tx.snaps[k] = nil
			} else {
				c.tx.snaps[k] = cl.clone()
			}
		}
	}
	if cl == nil && create {
		cl = c.s.getColl(c.db, name, true)
	}
	return cl
}

// statements runs fn for every statement; a failing statement becomes a writeErrors entry and, for
// ordered writes, stops the batch.
func (c *call) statements(key string, fn func(i int, st bson.D)) (writeErrors primitive.A) {
	stmts, _ := lookupD(c.cmd, key).(primitive.A)
	ordered := true
	if o, isBool := lookupD(c.cmd, "ordered").(bool); isBool {
		ordered = o
	}
	for i, st := range stmts {
		d, _ := st.(bson.D)
		var werr *cmdErr
		func() {
			defer func() {
				if r := recover(); r != nil {
					ce, isCmdErr := r.(*cmdErr)
					if !isCmdErr {
						panic(r)
					}
					werr = ce
				}
			}()
			fn(i, d)
		}()
		if werr != nil {
			writeErrors = append(writeErrors, bson.D{{Key: "index", Value: int32(i)}, {Key: "code", Value: werr.code}, {Key: "codeName", Value: werr.name}, {Key: "errmsg", Value: werr.msg}})
			if ordered {
				break
			}
		}
	}
	return writeErrors
}

func withWriteErrors(res bson.D, we primitive.A) bson.D {
	if len(we) > 0 {
		res = append(res, bson.E{Key: "writeErrors", Value: we})
	}
	return append(res, bson.E{Key: "ok", Value: 1.0})
}

func dupKey(db, coll string, id interface{}) {
	fail(11000, "DuplicateKey", "E11000 duplicate key error collection: %s.%s index: _id_ dup key: { _id: %v }", db, coll, quoteID(id))
}

func quoteID(id interface{}) string {
	if s, isStr := id.(string); isStr {
		return fmt.Sprintf("%q", s)
	}
	return fmt.Sprint(id)
}

// ---- CRUD ------------------------------------------------------------------------------------------

func (c *call) insert(collName string) bson.D {
	cl := c.writable(collName, true)
	n := 0
	we := c.statements("documents", func(i int, d bson.D) {
		if lookupD(d, "_id") == nil {
			d = append(bson.D{{Key: "_id", Value: primitive.NewObjectID()}}, d...)
		}
		if _, isArr := lookupD(d, "_id").(primitive.A); isArr {
			fail(53, "InvalidIdField", "The '_id' value cannot be of type array")
		}
		nd := newDoc(d)
		if !cl.insert(nd) {
			dupKey(c.db, collName, lookupD(d, "_id"))
		}
		n++
	})
	return withWriteErrors(bson.D{{Key: "n", Value: int32(n)}}, we)
}

func (c *call) find(collName string) bson.D {
	docs := c.s.getColl(c.db, collName, false).query(c.docArg("filter"))
	docs = window(sortDocs(docs, c.docArg("sort")), c.intArg("skip"), c.intArg("limit"))
	proj := c.docArg("projection")
	batch := make(primitive.A, 0, len(docs))
	for _, d := range docs {
		if len(proj) > 0 {
			batch = append(batch, project(d.D(), proj))
		} else {
			batch = append(batch, bson.Raw(d.raw))
		}
	}
	return cursorReply(c.db+"."+collName, batch)
}

// updateOne applies u to old (nil: upsert-insert seeded from filter); returns the new doc and whether it changed.
func (c *call) applyTo(cl *coll, collName string, old *doc, filter, u bson.D) (nd *doc, changed bool) {
	if old == nil {
		seed := upsertBase(filter)
		if !isOperatorUpdate(u) {
			seed = bson.D{}
			if id := lookupD(upsertBase(filter), "_id"); id != nil {
				seed = bson.D{{Key: "_id", Value: id}}
			}
		}
		d := applyUpdate(seed, u, true, c.now)
		if lookupD(d, "_id") == nil {
			d = append(bson.D{{Key: "_id", Value: primitive.NewObjectID()}}, d...)
		}
		nd = newDoc(d)
		if !cl.insert(nd) {
			dupKey(c.db, collName, lookupD(d, "_id"))
		}
		return nd, true
	}
	nd = newDoc(applyUpdate(old.D(), u, false, c.now))
	if string(nd.raw) == string(old.raw) {
		return old, false
	}
	cl.replace(old, nd)
	return nd, true
}

func updateArg(st bson.D, key string) bson.D {
	switch u := lookupD(st, key).(type) {
	case bson.D:
		return u
	case primitive.A:
		fail(2, "BadValue", "memmongo: aggregation-pipeline updates are not supported")
	}
	fail(9, "FailedToParse", "missing or invalid update document")
	return nil
}

func (c *call) update(collName string) bson.D {
	n, nModified := 0, 0
	var upserted primitive.A
	we := c.statements("updates", func(i int, st bson.D) {
		q, _ := lookupD(st, "q").(bson.D)
		u := updateArg(st, "u")
		multi := truthy(lookupD(st, "multi"))
		if multi && !isOperatorUpdate(u) {
			fail(9, "FailedToParse", "multi update is not supported for replacement-style update")
		}
		upsert := truthy(lookupD(st, "upsert"))
		cl := c.writable(collName, upsert)
		targets := cl.query(q)
		if len(targets) == 0 {
			if upsert {
				nd, _ := c.applyTo(cl, collName, nil, q, u)
				n++
				upserted = append(upserted, bson.D{{Key: "index", Value: int32(i)}, {Key: "_id", Value: lookupD(nd.D(), "_id")}})
			}
			return
		}
		if !multi {
			targets = targets[:1]
		}
		for _, t := range targets {
			n++
			if _, changed := c.applyTo(cl, collName, t, q, u); changed {
				nModified++
			}
		}
	})
	res := bson.D{{Key: "n", Value: int32(n)}, {Key: "nModified", Value: int32(nModified)}}
	if len(upserted) > 0 {
		res = append(res, bson.E{Key: "upserted", Value: upserted})
	}
	return withWriteErrors(res, we)
}

func (c *call) delete(collName string) bson.D {
	n := 0
	we := c.statements("deletes", func(i int, st bson.D) {
		q, _ := lookupD(st, "q").(bson.D)
		cl := c.writable(collName, false)
		targets := cl.query(q)
		if typeClass(lookupD(st, "limit")) == 3 && toFloat(lookupD(st, "limit")) == 1 && len(targets) > 1 {
			targets = targets[:1]
		}
		if len(targets) == 0 {
			return
		}
		victims := map[*doc]bool{}
		for _, t := range targets {
			victims[t] = true
		}
		cl.remove(victims)
		n += len(targets)
	})
	return withWriteErrors(bson.D{{Key: "n", Value: int32(n)}}, we)
}

func (c *call) findAndModify(collName string) bson.D {
	q := c.docArg("query")
	remove, upsert, retNew := truthy(lookupD(c.cmd, "remove")), truthy(lookupD(c.cmd, "upsert")), truthy(lookupD(c.cmd, "new"))
	cl := c.writable(collName, upsert && !remove)
	targets := sortDocs(cl.query(q), c.docArg("sort"))
	var value interface{}
	leo := bson.D{}
	proj := c.docArg("fields")
	switch {
	case remove:
		leo = bson.D{{Key: "n", Value: int32(len(targets[:min(1, len(targets))]))}}
		if len(targets) > 0 {
			cl.remove(map[*doc]bool{targets[0]: true})
			value = project(targets[0].D(), proj)
		}
	case len(targets) == 0 && !upsert:
		updateArg(c.cmd, "update")
		leo = bson.D{{Key: "n", Value: int32(0)}, {Key: "updatedExisting", Value: false}}
	case len(targets) == 0:
		nd, _ := c.applyTo(cl, collName, nil, q, updateArg(c.cmd, "update"))
		leo = bson.D{{Key: "n", Value: int32(1)}, {Key: "updatedExisting", Value: false}, {Key: "upserted", Value: lookupD(nd.D(), "_id")}}
		if retNew {
			value = project(nd.D(), proj)
		}
	default:
		nd, _ := c.applyTo(cl, collName, targets[0], q, updateArg(c.cmd, "update"))
		leo = bson.D{{Key: "n", Value: int32(1)}, {Key: "updatedExisting", Value: true}}
		if retNew {
			value = project(nd.D(), proj)
		} else {
			value = project(targets[0].D(), proj)
		}
	}
	return ok(bson.E{Key: "lastErrorObject", Value: leo}, bson.E{Key: "value", Value: value})
}

func min(a, b int) int {
	if a < b {
		return a
	}
	return b
}

func (c *call) distinct(collName string) bson.D {
	key, _ := lookupD(c.cmd, "key").(string)
	values := primitive.A{}
	for _, d := range c.s.getColl(c.db, collName, false).query(c.docArg("query")) {
		var vals []interface{}
		pathValues(d.D(), strings.Split(key, "."), &vals)
		for _, v := range vals {
			cands := []interface{}{v}
			if a, isArr := v.(primitive.A); isArr {
				cands = a
			}
			for _, cand := range cands {
				dup := false
				for _, have := range values {
					dup = dup || compare(have, cand) == 0
				}
				if !dup {
					values = append(values, cand)
				}
			}
		}
	}
	return ok(bson.E{Key: "values", Value: values})
}

func (c *call) listCollections() bson.D {
	filter := c.docArg("filter")
	nameOnly := truthy(lookupD(c.cmd, "nameOnly"))
	batch := primitive.A{}
	if d := c.s.dbs[c.db]; d != nil {
		for _, name := range d.order {
			info := bson.D{{Key: "name", Value: name}, {Key: "type", Value: "collection"}}
			full := append(append(bson.D{}, info...),
				bson.E{Key: "options", Value: bson.D{}},
				bson.E{Key: "info", Value: bson.D{{Key: "readOnly", Value: false}}},
				bson.E{Key: "idIndex", Value: bson.D{{Key: "v", Value: int32(2)}, {Key: "key", Value: bson.D{{Key: "_id", Value: int32(1)}}}, {Key: "name", Value: "_id_"}}})
			if !matches(full, filter) {
				continue
			}
			if nameOnly {
				batch = append(batch, info)
			} else {
				batch = append(batch, full)
			}
		}
	}
	return cursorReply(c.db+".$cmd.listCollections", batch)
}

// evalExpr evaluates the tiny expression subset used by $group: constants and "$field" references.
func evalExpr(d bson.D, e interface{}) interface{} {
	if s, isStr := e.(string); isStr && strings.HasPrefix(s, "$") {
		v, _ := getPath(d, strings.Split(s[1:], "."))
		return v
	}
	return e
}

func (c *call) aggregate(collName string) bson.D {
	var docs []bson.D
	for _, d := range c.s.getColl(c.db, collName, false).query(nil) {
		docs = append(docs, d.D())
	}
	pipeline, _ := lookupD(c.cmd, "pipeline").(primitive.A)
	for _, st := range pipeline {
		stage, _ := st.(bson.D)
		if len(stage) != 1 {
			fail(40323, "Location40323", "A pipeline stage specification object must contain exactly one field.")
		}
		arg := stage[0].Value
		switch stage[0].Key {
		case "$match":
			f, _ := arg.(bson.D)
			kept := docs[:0:0]
			for _, d := range docs {
				if matches(d, f) {
					kept = append(kept, d)
				}
			}
			docs = kept
		case "$sort":
			tmp := make([]*doc, len(docs))
			for i, d := range docs {
				tmp[i] = &doc{raw: mustMarshal(d)}
			}
			spec, _ := arg.(bson.D)
			docs = docs[:0:0]
			for _, d := range sortDocs(tmp, spec) {
				docs = append(docs, d.D())
			}
		case "$skip":
			if n := int(toFloat(arg)); n >= len(docs) {
				docs = nil
			} else if n > 0 {
				docs = docs[n:]
			}
		case "$limit":
			if n := int(toFloat(arg)); n < len(docs) {
				docs = docs[:n]
			}
		case "$count":
			if len(docs) == 0 {
				docs = nil
			} else {
				docs = []bson.D{{{Key: str(arg), Value: int32(len(docs))}}}
			}
		case "$project":
			p, _ := arg.(bson.D)
			for i := range docs {
				docs[i] = project(docs[i], p)
			}
		case "$group":
			spec, _ := arg.(bson.D)
			var groups []bson.D
			for _, d := range docs {
				id := evalExpr(d, lookupD(spec, "_id"))
				var g *bson.D
				for i := range groups {
					if compare(groups[i][0].Value, id) == 0 {
						g = &groups[i]
					}
				}
				if g == nil {
					groups = append(groups, bson.D{{Key: "_id", Value: id}})
					g = &groups[len(groups)-1]
				}
				for _, f := range spec {
					if f.Key == "_id" {
						continue
					}
					acc, _ := f.Value.(bson.D)
					if len(acc) != 1 || acc[0].Key != "$sum" {
						fail(15952, "Location15952", "memmongo: only the $sum accumulator is supported")
					}
					add := evalExpr(d, acc[0].Value)
					if typeClass(add) != 3 {
						add = int32(0)
					}
					if old := lookupD(*g, f.Key); old == nil {
						*g = append(*g, bson.E{Key: f.Key, Value: add})
					} else {
						*g = setPath(*g, []string{f.Key}, addNum(old, add, false)).(bson.D)
					}
				}
			}
			docs = groups
		default:
			fail(40324, "Location40324", "Unrecognized pipeline stage name: '%s'", stage[0].Key)
		}
	}
	batch := make(primitive.A, 0, len(docs))
	for _, d := range docs {
		batch = append(batch, d)
	}
	return cursorReply(c.db+"."+collName, batch)
}
