// Package memmongo is an in-memory stand-in for a MongoDB server. It speaks just enough of the
// MongoDB wire protocol (legacy OP_QUERY handshake + OP_MSG) for go.mongodb.org/mongo-driver
// v1.10.x, so that code using the real driver can run fully in-process and offline.
//
// It advertises itself as a mongos ("isdbgrid") so that the driver allows sessions and
// transactions without a replica set. Authentication: only a single-step `saslStart` is answered
// (use authMechanism=PLAIN in the connection string).
//
// Known limitations (by design):
//   - transactions are NOT isolated: writes are applied immediately; abortTransaction restores a
//     whole-collection snapshot taken when the transaction first touched that collection (so
//     concurrent non-transactional writes to the same collection in that window are rolled back too);
//   - indexes are recorded but not enforced (only `_id` is unique);
//   - cursors: every result is returned in firstBatch with cursor id 0;
//   - query language: equality (top-level, dotted, array fan-out), $eq $ne $gt $gte $lt $lte $in $nin
//     $exists $not $size $all $regex $and $or $nor; update operators: $set $unset $inc $mul $min
//     $max $currentDate $setOnInsert $rename $push(+$each) $addToSet(+$each) $pull(equality) $pop;
//     aggregate: $match $sort $skip $limit $count and $group with `_id` constant + {$sum: 1}.
package memmongo

import (
	"encoding/hex"
	"fmt"
	"io"
	"net"
	"sync"

	"go.mongodb.org/mongo-driver/bson"
	"go.mongodb.org/mongo-driver/bson/primitive"
	"go.mongodb.org/mongo-driver/x/mongo/driver/wiremessage"
)

// CmdRecord describes one "data command" received by the server.
type CmdRecord struct {
	Seq    int    // 1-based, counted from the last ResetLog
	Name   string // command name as sent by the driver (e.g. "insert", "find", "findAndModify")
	DB     string
	Coll   string // "" for commands without a collection (listCollections, commit/abortTransaction)
	Conn   int    // server-side connection number (1-based, in accept order)
	Failed bool   // true if the command was answered with an injected failure
}

// Server is an in-memory MongoDB stand-in.
type Server struct {
	ln net.Listener

	mu       sync.Mutex // guards everything below
	dbs      map[string]*database
	txns     map[string]*txn
	log      []CmdRecord
	seq      int
	failAt   int
	failFrom int
	failCode int32
	failName string
	lastFail map[string]string // lsid -> signature of the last injected-failure command (retry detection)
	gate     func(CmdRecord) bool
	held     map[int]*heldCmd
	conns    map[net.Conn]struct{}
	nConn    int
	closed   bool
	done     chan struct{}
	wg       sync.WaitGroup
}

type heldCmd struct {
	rec CmdRecord
	ch  chan struct{}
}

// Default injected failure: code 11601 "Interrupted". See FailAt.
const (
	defaultFailCode = 11601
	defaultFailName = "Interrupted"
	failMsg         = "memmongo injected failure"
)

// Start listens on 127.0.0.1:0 and serves in background goroutines.
func Start() (*Server, error) {
	ln, err := net.Listen("tcp", "127.0.0.1:0")
	if err != nil {
		return nil, err
	}
	s := &Server{
		ln:       ln,
		dbs:      map[string]*database{},
		txns:     map[string]*txn{},
		held:     map[int]*heldCmd{},
		conns:    map[net.Conn]struct{}{},
		lastFail: map[string]string{},
		failCode: defaultFailCode,
		failName: defaultFailName,
		done:     make(chan struct{}),
	}
	s.wg.Add(1)
	go s.acceptLoop()
	return s, nil
}

// Addr returns "127.0.0.1:port".
func (s *Server) Addr() string { return s.ln.Addr().String() }

// Close stops the listener, closes all connections and releases all held commands.
func (s *Server) Close() {
	s.mu.Lock()
	if s.closed {
		s.mu.Unlock()
		return
	}
	s.closed = true
	close(s.done)
	_ = s.ln.Close()
	for c := range s.conns {
		_ = c.Close()
	}
	s.mu.Unlock()
	s.wg.Wait()
}

func (s *Server) acceptLoop() {
	defer s.wg.Done()
	for {
		c, err := s.ln.Accept()
		if err != nil {
			return
		}
		s.mu.Lock()
		if s.closed {
			s.mu.Unlock()
			_ = c.Close()
			return
		}
		s.nConn++
		id := s.nConn
		s.conns[c] = struct{}{}
		s.wg.Add(1)
		s.mu.Unlock()
		go s.serveConn(c, id)
	}
}

func (s *Server) serveConn(c net.Conn, id int) {
	defer s.wg.Done()
	defer func() {
		_ = recover()
		_ = c.Close()
		s.mu.Lock()
		delete(s.conns, c)
		s.mu.Unlock()
	}()
	var hdr [16]byte
	for {
		if _, err := io.ReadFull(c, hdr[:]); err != nil {
			return
		}
		length, reqID, _, opcode, _, _ := wiremessage.ReadHeader(hdr[:])
		if length < 16 || length > 64<<20 {
			return
		}
		body := make([]byte, length-16)
		if _, err := io.ReadFull(c, body); err != nil {
			return
		}
		var reply []byte
		switch opcode {
		case wiremessage.OpQuery:
			cmd, db, ok := parseOpQuery(body)
			if !ok {
				return
			}
			res := s.handle(cmd, db, id)
			reply = buildOpReply(reqID, res)
		case wiremessage.OpMsg:
			cmd, moreToCome, ok := parseOpMsg(body)
			if !ok {
				return
			}
			db, _ := lookupD(cmd, "$db").(string)
			res := s.handle(cmd, db, id)
			if moreToCome {
				continue // unacknowledged write: no reply expected
			}
			reply = buildOpMsg(reqID, res)
		default:
			return // unsupported opcode: drop the connection
		}
		if _, err := c.Write(reply); err != nil {
			return
		}
	}
}

// ---- wire encoding -------------------------------------------------------------------------------

func parseOpQuery(b []byte) (cmd bson.D, db string, ok bool) {
	_, b, ok = wiremessage.ReadQueryFlags(b)
	if !ok {
		return
	}
	ns, b, ok := wiremessage.ReadQueryFullCollectionName(b)
	if !ok {
		return
	}
	if _, b, ok = wiremessage.ReadQueryNumberToSkip(b); !ok {
		return
	}
	if _, b, ok = wiremessage.ReadQueryNumberToReturn(b); !ok {
		return
	}
	q, _, ok := wiremessage.ReadQueryQuery(b)
	if !ok {
		return
	}
	if err := bson.Unmarshal(q, &cmd); err != nil {
		return nil, "", false
	}
	for i := 0; i < len(ns); i++ {
		if ns[i] == '.' {
			db = ns[:i]
			break
		}
	}
	// legacy wrapped form {$query: {...}, $readPreference: ...}
	if len(cmd) > 0 && (cmd[0].Key == "$query" || cmd[0].Key == "query") {
		if inner, isD := cmd[0].Value.(bson.D); isD {
			cmd = inner
		}
	}
	return cmd, db, true
}

func parseOpMsg(b []byte) (cmd bson.D, moreToCome bool, ok bool) {
	flags, b, ok := wiremessage.ReadMsgFlags(b)
	if !ok {
		return
	}
	moreToCome = flags&wiremessage.MoreToCome != 0
	if flags&wiremessage.ChecksumPresent != 0 && len(b) >= 4 {
		b = b[:len(b)-4]
	}
	type seq struct {
		id   string
		docs primitive.A
	}
	var seqs []seq
	for len(b) > 0 {
		var st wiremessage.SectionType
		st, b, ok = wiremessage.ReadMsgSectionType(b)
		if !ok {
			return
		}
		switch st {
		case wiremessage.SingleDocument:
			var raw []byte
			raw, b, ok = wiremessage.ReadMsgSectionSingleDocument(b)
			if !ok {
				return
			}
			if err := bson.Unmarshal(raw, &cmd); err != nil {
				return nil, false, false
			}
		case wiremessage.DocumentSequence:
			id, docs, rem, ok2 := wiremessage.ReadMsgSectionDocumentSequence(b)
			if !ok2 {
				return nil, false, false
			}
			b = rem
			arr := primitive.A{}
			for _, raw := range docs {
				var d bson.D
				if err := bson.Unmarshal(raw, &d); err != nil {
					return nil, false, false
				}
				arr = append(arr, d)
			}
			seqs = append(seqs, seq{id, arr})
		default:
			return nil, false, false
		}
	}
	for _, sq := range seqs {
		cmd = append(cmd, bson.E{Key: sq.id, Value: sq.docs})
	}
	return cmd, moreToCome, cmd != nil
}

func mustMarshal(d bson.D) []byte {
	b, err := bson.Marshal(d)
	if err != nil {
		b, _ = bson.Marshal(bson.D{{Key: "ok", Value: 0.0}, {Key: "errmsg", Value: "memmongo: cannot marshal reply: " + err.Error()}, {Key: "code", Value: int32(1)}})
	}
	return b
}

func buildOpReply(respTo int32, res bson.D) []byte {
	doc := mustMarshal(res)
	var b []byte
	b = wiremessage.AppendHeader(b, int32(16+20+len(doc)), wiremessage.NextRequestID(), respTo, wiremessage.OpReply)
	b = wiremessage.AppendReplyFlags(b, wiremessage.AwaitCapable)
	b = wiremessage.AppendReplyCursorID(b, 0)
	b = wiremessage.AppendReplyStartingFrom(b, 0)
	b = wiremessage.AppendReplyNumberReturned(b, 1)
	return append(b, doc...)
}

func buildOpMsg(respTo int32, res bson.D) []byte {
	doc := mustMarshal(res)
	var b []byte
	b = wiremessage.AppendHeader(b, int32(16+4+1+len(doc)), wiremessage.NextRequestID(), respTo, wiremessage.OpMsg)
	b = wiremessage.AppendMsgFlags(b, 0)
	b = wiremessage.AppendMsgSectionType(b, wiremessage.SingleDocument)
	return append(b, doc...)
}

// ---- command log, fault injection, gate ---------------------------------------------------------

// dataCommands are the commands that are counted, logged, gated and subject to fault injection.
var dataCommands = map[string]bool{
	"insert": true, "find": true, "update": true, "delete": true, "findAndModify": true, "findandmodify": true,
	"count": true, "aggregate": true, "distinct": true, "drop": true, "create": true, "createIndexes": true,
	"listCollections": true, "commitTransaction": true, "abortTransaction": true,
}

// ResetLog clears the command log and sets the Seq counter to 0. (Commands currently held by the
// gate keep the Seq they were given before the reset.)
func (s *Server) ResetLog() {
	s.mu.Lock()
	defer s.mu.Unlock()
	s.log = nil
	s.seq = 0
	s.lastFail = map[string]string{}
}

// Log returns a copy of the data-command log since the last ResetLog.
func (s *Server) Log() []CmdRecord {
	s.mu.Lock()
	defer s.mu.Unlock()
	return append([]CmdRecord(nil), s.log...)
}

// FailAt makes the k-th (1-based, counted from the last ResetLog) data command NOT execute and be
// answered with {ok:0, code:11601, codeName:"Interrupted", errmsg:"memmongo injected failure"} and
// no error labels. k=0 disables.
//
// Driver retry behaviour (mongo-driver v1.10.1, x/mongo/driver/operation.go + errors.go), which is
// why the default is 11601 and not 11600 "InterruptedAtShutdown":
//   - retryable reads/writes are on by default and retry ONCE (RetryOncePerCommand);
//   - a WRITE against a server with maxWireVersion >= 9 (we advertise 13) is retried only when the
//     reply carries the error label "RetryableWriteError" (or on a network error); the code alone is
//     not enough. We never send labels, so writes, commitTransaction and abortTransaction are never
//     retried whatever the code;
//   - a READ (find, aggregate, count, distinct, listCollections) is retried once when the code is in
//     {11600, 11602, 10107, 13435, 13436, 189, 91, 7, 6, 89, 9001, 262};
//   - independently of retries, codes 11600/11602/13436/189/91 (node is recovering) and
//     10107/13435/10058 (not primary) make the driver's SDAM mark the server Unknown and, for
//     11600/91 (shutting down), clear the whole connection pool; the next operation then waits for
//     a fresh heartbeat (rate limited to one per 500 ms) and new authenticated connections.
//
// 11601 "Interrupted" is in none of these lists: the failing command is sent exactly once, the
// driver returns a mongo.CommandError{Code:11601} to the caller, and pool/topology state are
// untouched. SetFailCode can select another code (e.g. 11600); in that case the automatic retry of
// a read is recognised (same lsid, same command bytes, immediately following the failed attempt
// on that session), is NOT given a new Seq / log entry, and is failed as well.
func (s *Server) FailAt(k int) {
	s.mu.Lock()
	s.failAt = k
	s.mu.Unlock()
}

// FailFrom makes every data command with Seq >= k fail as described for FailAt (emulates the DB
// being down from that point on; the TCP connections stay up). 0 disables.
func (s *Server) FailFrom(k int) {
	s.mu.Lock()
	s.failFrom = k
	s.mu.Unlock()
}

// SetFailCode changes the error code/codeName used for injected failures (default 11601
// "Interrupted"). See FailAt for what the driver does with retryable / state-change codes.
func (s *Server) SetFailCode(code int32, codeName string) {
	s.mu.Lock()
	s.failCode, s.failName = code, codeName
	s.mu.Unlock()
}

// SetGate installs a predicate evaluated for every data command before it executes (after it was
// given its Seq and logged). When it returns true the command blocks, before executing and before
// the fault-injection check, until Release/ReleaseAll (or Close). nil removes the gate (commands
// already held stay held). The predicate is called with the server lock held: it must not call
// Server methods.
func (s *Server) SetGate(pred func(CmdRecord) bool) {
	s.mu.Lock()
	s.gate = pred
	s.mu.Unlock()
}

// Held lists the commands currently blocked by the gate, ordered by Seq.
func (s *Server) Held() []CmdRecord {
	s.mu.Lock()
	defer s.mu.Unlock()
	out := make([]CmdRecord, 0, len(s.held))
	for _, h := range s.held {
		out = append(out, h.rec)
	}
	for i := 1; i < len(out); i++ {
		for j := i; j > 0 && out[j-1].Seq > out[j].Seq; j-- {
			out[j-1], out[j] = out[j], out[j-1]
		}
	}
	return out
}

// Release releases the held command with that Seq (no-op if there is none).
func (s *Server) Release(seq int) {
	s.mu.Lock()
	if h, ok := s.held[seq]; ok {
		delete(s.held, seq)
		close(h.ch)
	}
	s.mu.Unlock()
}

// ReleaseAll releases every held command.
func (s *Server) ReleaseAll() {
	s.mu.Lock()
	for k, h := range s.held {
		delete(s.held, k)
		close(h.ch)
	}
	s.mu.Unlock()
}

func retryableReadCode(c int32) bool {
	switch c {
	case 11600, 11602, 10107, 13435, 13436, 189, 91, 7, 6, 89, 9001, 262:
		return true
	}
	return false
}

var readCommands = map[string]bool{"find": true, "aggregate": true, "count": true, "distinct": true, "listCollections": true}

// admit registers a data command: assigns Seq, logs, gates, and decides on fault injection.
// It returns a non-nil reply when the command must not be executed.
func (s *Server) admit(name, db, coll string, cmd bson.D, conn int) bson.D {
	lsid, sig := "", ""
	if l, ok := lookupD(cmd, "lsid").(bson.D); ok {
		lsid = hex.EncodeToString(mustMarshal(l))
		stripped := bson.D{}
		for _, e := range cmd {
			if e.Key != "$clusterTime" && e.Key != "$readPreference" {
				stripped = append(stripped, e)
			}
		}
		sig = string(mustMarshal(stripped))
	}
	s.mu.Lock()
	// Driver-side automatic retry of a read that we failed with a retryable code: same Seq, fail again.
	if lsid != "" && readCommands[name] {
		if prev, ok := s.lastFail[lsid]; ok {
			delete(s.lastFail, lsid)
			if prev == sig && retryableReadCode(s.failCode) {
				res := s.failDoc()
				s.mu.Unlock()
				return res
			}
		}
	} else if lsid != "" {
		delete(s.lastFail, lsid)
	}
	s.seq++
	rec := CmdRecord{Seq: s.seq, Name: name, DB: db, Coll: coll, Conn: conn}
	idx := len(s.log)
	s.log = append(s.log, rec)
	var wait chan struct{}
	if s.gate != nil && s.gate(rec) {
		wait = make(chan struct{})
		s.held[rec.Seq] = &heldCmd{rec: rec, ch: wait}
	}
	s.mu.Unlock()
	if wait != nil {
		select {
		case <-wait:
		case <-s.done:
		}
	}
	s.mu.Lock()
	defer s.mu.Unlock()
	if (s.failAt != 0 && rec.Seq == s.failAt) || (s.failFrom != 0 && rec.Seq >= s.failFrom) {
		if idx < len(s.log) && s.log[idx].Seq == rec.Seq {
			s.log[idx].Failed = true
		}
		if lsid != "" {
			s.lastFail[lsid] = sig
		}
		return s.failDoc()
	}
	return nil
}

func (s *Server) failDoc() bson.D {
	return bson.D{{Key: "ok", Value: 0.0}, {Key: "errmsg", Value: failMsg}, {Key: "code", Value: s.failCode}, {Key: "codeName", Value: s.failName}}
}

// ---- errors ---------------------------------------------------------------------------------------

type cmdErr struct {
	code int32
	name string
	msg  string
}

func (e *cmdErr) Error() string { return e.msg }

func fail(code int32, name, format string, args ...interface{}) {
	panic(&cmdErr{code, name, fmt.Sprintf(format, args...)})
}

func errDoc(e *cmdErr) bson.D {
	return bson.D{{Key: "ok", Value: 0.0}, {Key: "errmsg", Value: e.msg}, {Key: "code", Value: e.code}, {Key: "codeName", Value: e.name}}
}

// lookupD returns the value of a top-level key of d (nil if absent).
func lookupD(d bson.D, key string) interface{} {
	for _, e := range d {
		if e.Key == key {
			return e.Value
		}
	}
	return nil
}
