package memmongo

import (
	"bytes"
	"encoding/hex"
	"math"
	"regexp"
	"sort"
	"strconv"
	"strings"
	"time"

	"go.mongodb.org/mongo-driver/bson"
	"go.mongodb.org/mongo-driver/bson/primitive"
)

// ---- data model -----------------------------------------------------------------------------------

type database struct {
	colls map[string]*coll
	order []string // creation order
}

// doc is an immutable stored document; updates replace the *doc.
type doc struct {
	raw   []byte // canonical BSON bytes
	idKey string
}

func (d *doc) D() bson.D {
	var out bson.D
	if err := bson.Unmarshal(d.raw, &out); err != nil {
		fail(1, "InternalError", "memmongo: corrupt stored document: %v", err)
	}
	return out
}

type coll struct {
	docs    []*doc
	byID    map[string]*doc
	indexes []bson.D
}

func newColl() *coll { return &coll{byID: map[string]*doc{}} }

func (c *coll) clone() *coll {
	n := &coll{docs: append([]*doc(nil), c.docs...), byID: make(map[string]*doc, len(c.byID)), indexes: append([]bson.D(nil), c.indexes...)}
	for k, v := range c.byID {
		n.byID[k] = v
	}
	return n
}

func newDoc(d bson.D) *doc {
	// `_id` always first, like mongod does
	for i, e := range d {
		if e.Key == "_id" && i != 0 {
			nd := make(bson.D, 0, len(d))
			nd = append(nd, e)
			nd = append(nd, d[:i]...)
			nd = append(nd, d[i+1:]...)
			d = nd
			break
		}
	}
	raw, err := bson.Marshal(d)
	if err != nil {
		fail(2, "BadValue", "cannot encode document: %v", err)
	}
	return &doc{raw: raw, idKey: idKey(lookupD(d, "_id"))}
}

// idKey returns a canonical map key for an _id value (numeric types compare across int32/int64/double).
func idKey(v interface{}) string {
	switch x := v.(type) {
	case int32:
		return "n:" + strconv.FormatInt(int64(x), 10)
	case int64:
		return "n:" + strconv.FormatInt(x, 10)
	case float64:
		if x == math.Trunc(x) && math.Abs(x) < 1<<62 {
			return "n:" + strconv.FormatInt(int64(x), 10)
		}
		return "f:" + strconv.FormatFloat(x, 'g', -1, 64)
	case string:
		return "s:" + x
	}
	t, b, err := bson.MarshalValue(v)
	if err != nil {
		fail(2, "BadValue", "cannot encode _id: %v", err)
	}
	return "x:" + strconv.Itoa(int(t)) + ":" + hex.EncodeToString(b)
}

func (s *Server) getColl(db, name string, create bool) *coll {
	d := s.dbs[db]
	if d == nil {
		if !create {
			return nil
		}
		d = &database{colls: map[string]*coll{}}
		s.dbs[db] = d
	}
	c := d.colls[name]
	if c == nil && create {
		c = newColl()
		d.colls[name] = c
		d.order = append(d.order, name)
	}
	return c
}

func (s *Server) dropColl(db, name string) bool {
	d := s.dbs[db]
	if d == nil || d.colls[name] == nil {
		return false
	}
	delete(d.colls, name)
	for i, n := range d.order {
		if n == name {
			d.order = append(d.order[:i:i], d.order[i+1:]...)
			break
		}
	}
	if len(d.colls) == 0 {
		delete(s.dbs, db)
	}
	return true
}

func (c *coll) insert(d *doc) bool {
	if _, dup := c.byID[d.idKey]; dup {
		return false
	}
	c.byID[d.idKey] = d
	c.docs = append(c.docs, d)
	return true
}

func (c *coll) replace(old, nd *doc) {
	for i, x := range c.docs {
		if x == old {
			c.docs[i] = nd
			break
		}
	}
	delete(c.byID, old.idKey)
	c.byID[nd.idKey] = nd
}

func (c *coll) remove(victims map[*doc]bool) {
	kept := c.docs[:0:0]
	for _, x := range c.docs {
		if victims[x] {
			delete(c.byID, x.idKey)
		} else {
			kept = append(kept, x)
		}
	}
	c.docs = kept
}

// Dump returns a deep copy of all documents of database db: collection name -> documents in
// insertion order, each as bson.M (nested documents are bson.M, arrays bson.A). Existing but empty
// collections map to an empty (non-nil) slice.
func (s *Server) Dump(db string) map[string][]bson.M {
	s.mu.Lock()
	defer s.mu.Unlock()
	out := map[string][]bson.M{}
	d := s.dbs[db]
	if d == nil {
		return out
	}
	for name, c := range d.colls {
		docs := make([]bson.M, 0, len(c.docs))
		for _, x := range c.docs {
			m := bson.M{}
			if err := bson.Unmarshal(x.raw, &m); err == nil {
				docs = append(docs, m)
			}
		}
		out[name] = docs
	}
	return out
}

// Restore replaces the whole content of database db (used to emulate a server restart with
// persisted state). Field order inside documents is not preserved by bson.M (except `_id` first).
// Documents with duplicate `_id` within a collection are silently dropped.
func (s *Server) Restore(db string, data map[string][]bson.M) {
	nd := &database{colls: map[string]*coll{}}
	names := make([]string, 0, len(data))
	for n := range data {
		names = append(names, n)
	}
	sort.Strings(names)
	for _, n := range names {
		c := newColl()
		for _, m := range data[n] {
			raw, err := bson.Marshal(m)
			if err != nil {
				continue
			}
			var d bson.D
			if bson.Unmarshal(raw, &d) != nil {
				continue
			}
			if lookupD(d, "_id") == nil {
				d = append(bson.D{{Key: "_id", Value: primitive.NewObjectID()}}, d...)
			}
			c.insert(newDoc(d))
		}
		nd.colls[n] = c
		nd.order = append(nd.order, n)
	}
	s.mu.Lock()
	defer s.mu.Unlock()
	if len(nd.colls) == 0 {
		delete(s.dbs, db)
	} else {
		s.dbs[db] = nd
	}
}

// ---- value comparison (BSON comparison order) -----------------------------------------------------

func typeClass(v interface{}) int {
	switch v.(type) {
	case primitive.MinKey:
		return 1
	case nil, primitive.Null, primitive.Undefined:
		return 2
	case int32, int64, float64, primitive.Decimal128:
		return 3
	case string, primitive.Symbol:
		return 4
	case bson.D, bson.M:
		return 5
	case primitive.A:
		return 6
	case primitive.Binary:
		return 7
	case primitive.ObjectID:
		return 8
	case bool:
		return 9
	case primitive.DateTime:
		return 10
	case primitive.Timestamp:
		return 11
	case primitive.Regex:
		return 12
	case primitive.MaxKey:
		return 14
	}
	return 13
}

func toFloat(v interface{}) float64 {
	switch x := v.(type) {
	case int32:
		return float64(x)
	case int64:
		return float64(x)
	case float64:
		return x
	case primitive.Decimal128:
		f, _ := strconv.ParseFloat(x.String(), 64)
		return f
	}
	return 0
}

func toInt(v interface{}) (int64, bool) {
	switch x := v.(type) {
	case int32:
		return int64(x), true
	case int64:
		return x, true
	}
	return 0, false
}

func sign(b bool) int {
	if b {
		return -1
	}
	return 1
}

func compare(a, b interface{}) int {
	ca, cb := typeClass(a), typeClass(b)
	if ca != cb {
		return sign(ca < cb)
	}
	switch ca {
	case 3:
		ia, oka := toInt(a)
		ib, okb := toInt(b)
		if oka && okb {
			if ia == ib {
				return 0
			}
			return sign(ia < ib)
		}
		fa, fb := toFloat(a), toFloat(b)
		if fa == fb || (math.IsNaN(fa) && math.IsNaN(fb)) {
			return 0
		}
		if math.IsNaN(fa) {
			return -1
		}
		if math.IsNaN(fb) {
			return 1
		}
		return sign(fa < fb)
	case 4:
		return strings.Compare(str(a), str(b))
	case 5:
		da, db := asD(a), asD(b)
		for i := 0; i < len(da) && i < len(db); i++ {
			if ta, tb := typeClass(da[i].Value), typeClass(db[i].Value); ta != tb {
				return sign(ta < tb)
			}
			if c := strings.Compare(da[i].Key, db[i].Key); c != 0 {
				return c
			}
			if c := compare(da[i].Value, db[i].Value); c != 0 {
				return c
			}
		}
		if len(da) == len(db) {
			return 0
		}
		return sign(len(da) < len(db))
	case 6:
		aa, ab := a.(primitive.A), b.(primitive.A)
		for i := 0; i < len(aa) && i < len(ab); i++ {
			if c := compare(aa[i], ab[i]); c != 0 {
				return c
			}
		}
		if len(aa) == len(ab) {
			return 0
		}
		return sign(len(aa) < len(ab))
	case 7:
		ba, bb := a.(primitive.Binary), b.(primitive.Binary)
		if len(ba.Data) != len(bb.Data) {
			return sign(len(ba.Data) < len(bb.Data))
		}
		if ba.Subtype != bb.Subtype {
			return sign(ba.Subtype < bb.Subtype)
		}
		return bytes.Compare(ba.Data, bb.Data)
	case 8:
		oa, ob := a.(primitive.ObjectID), b.(primitive.ObjectID)
		return bytes.Compare(oa[:], ob[:])
	case 9:
		if a.(bool) == b.(bool) {
			return 0
		}
		return sign(!a.(bool))
	case 10:
		da, db := a.(primitive.DateTime), b.(primitive.DateTime)
		if da == db {
			return 0
		}
		return sign(da < db)
	case 11:
		ta, tb := a.(primitive.Timestamp), b.(primitive.Timestamp)
		return primitive.CompareTimestamp(ta, tb)
	case 1, 2, 14:
		return 0
	}
	// other types: compare canonical bytes
	_, ba, _ := bson.MarshalValue(a)
	_, bb, _ := bson.MarshalValue(b)
	return bytes.Compare(ba, bb)
}

func str(v interface{}) string {
	switch x := v.(type) {
	case string:
		return x
	case primitive.Symbol:
		return string(x)
	}
	return ""
}

func asD(v interface{}) bson.D {
	switch x := v.(type) {
	case bson.D:
		return x
	case bson.M:
		keys := make([]string, 0, len(x))
		for k := range x {
			keys = append(keys, k)
		}
		sort.Strings(keys)
		d := bson.D{}
		for _, k := range keys {
			d = append(d, bson.E{Key: k, Value: x[k]})
		}
		return d
	}
	return nil
}

// ---- path access ----------------------------------------------------------------------------------

// pathValues collects all values reachable at path with MongoDB's array fan-out semantics.
func pathValues(v interface{}, parts []string, out *[]interface{}) {
	if len(parts) == 0 {
		*out = append(*out, v)
		return
	}
	switch x := v.(type) {
	case bson.D:
		for _, e := range x {
			if e.Key == parts[0] {
				pathValues(e.Value, parts[1:], out)
				return
			}
		}
	case primitive.A:
		if i, err := strconv.Atoi(parts[0]); err == nil && i >= 0 && i < len(x) {
			pathValues(x[i], parts[1:], out)
		}
		for _, el := range x {
			if _, isDoc := el.(bson.D); isDoc {
				pathValues(el, parts, out)
			}
		}
	}
}

func getPath(d bson.D, parts []string) (interface{}, bool) {
	var cur interface{} = d
	for _, p := range parts {
		switch x := cur.(type) {
		case bson.D:
			found := false
			for _, e := range x {
				if e.Key == p {
					cur, found = e.Value, true
					break
				}
			}
			if !found {
				return nil, false
			}
		case primitive.A:
			i, err := strconv.Atoi(p)
			if err != nil || i < 0 || i >= len(x) {
				return nil, false
			}
			cur = x[i]
		default:
			return nil, false
		}
	}
	return cur, true
}

func setPath(cur interface{}, parts []string, v interface{}) interface{} {
	if len(parts) == 0 {
		return v
	}
	p := parts[0]
	switch x := cur.(type) {
	case primitive.A:
		i, err := strconv.Atoi(p)
		if err != nil || i < 0 {
			fail(28, "PathNotViable", "Cannot create field '%s' in element of array", p)
		}
		for len(x) <= i {
			x = append(x, nil)
		}
		x[i] = setPath(x[i], parts[1:], v)
		return x
	case bson.D:
		for i, e := range x {
			if e.Key == p {
				x[i].Value = setPath(e.Value, parts[1:], v)
				return x
			}
		}
		return append(x, bson.E{Key: p, Value: setPath(nil, parts[1:], v)})
	case nil:
		return bson.D{{Key: p, Value: setPath(nil, parts[1:], v)}}
	}
	fail(28, "PathNotViable", "Cannot create field '%s' in element {%v}", p, cur)
	return nil
}

func unsetPath(cur interface{}, parts []string) interface{} {
	switch x := cur.(type) {
	case bson.D:
		for i, e := range x {
			if e.Key == parts[0] {
				if len(parts) == 1 {
					return append(x[:i:i], x[i+1:]...)
				}
				x[i].Value = unsetPath(e.Value, parts[1:])
				return x
			}
		}
	case primitive.A:
		if i, err := strconv.Atoi(parts[0]); err == nil && i >= 0 && i < len(x) {
			if len(parts) == 1 {
				x[i] = nil
			} else {
				x[i] = unsetPath(x[i], parts[1:])
			}
		}
	}
	return cur
}

// ---- filter matching ------------------------------------------------------------------------------

func matches(d bson.D, filter bson.D) bool {
	for _, e := range filter {
		switch e.Key {
		case "$and", "$or", "$nor":
			arr, ok := e.Value.(primitive.A)
			if !ok || len(arr) == 0 {
				fail(2, "BadValue", "%s must be a nonempty array", e.Key)
			}
			any, all := false, true
			for _, sub := range arr {
				sd, ok := sub.(bson.D)
				if !ok {
					fail(2, "BadValue", "%s entries need to be full objects", e.Key)
				}
				if matches(d, sd) {
					any = true
				} else {
					all = false
				}
			}
			if (e.Key == "$and" && !all) || (e.Key == "$or" && !any) || (e.Key == "$nor" && any) {
				return false
			}
		case "$comment":
		default:
			if strings.HasPrefix(e.Key, "$") {
				fail(2, "BadValue", "unknown top level operator: %s", e.Key)
			}
			var vals []interface{}
			pathValues(d, strings.Split(e.Key, "."), &vals)
			if !matchCond(vals, e.Value) {
				return false
			}
		}
	}
	return true
}

func isOpDoc(v interface{}) (bson.D, bool) {
	d, ok := v.(bson.D)
	if ok && len(d) > 0 && strings.HasPrefix(d[0].Key, "$") {
		return d, true
	}
	return nil, false
}

// expand adds the elements of array values (a field holding an array matches if any element matches).
func expand(vals []interface{}) []interface{} {
	out := append([]interface{}(nil), vals...)
	for _, v := range vals {
		if a, ok := v.(primitive.A); ok {
			out = append(out, a...)
		}
	}
	return out
}

func eqAny(vals []interface{}, operand interface{}) bool {
	if re, ok := operand.(primitive.Regex); ok {
		return regexAny(vals, re.Pattern, re.Options)
	}
	if typeClass(operand) == 2 && len(vals) == 0 {
		return true // null matches missing
	}
	for _, v := range expand(vals) {
		if compare(v, operand) == 0 {
			return true
		}
	}
	return false
}

func regexAny(vals []interface{}, pattern, opts string) bool {
	flags := ""
	for _, o := range opts {
		if strings.ContainsRune("ims", o) {
			flags += string(o)
		}
	}
	if flags != "" {
		pattern = "(?" + flags + ")" + pattern
	}
	re, err := regexp.Compile(pattern)
	if err != nil {
		fail(51091, "Location51091", "Regular expression is invalid: %v", err)
	}
	for _, v := range expand(vals) {
		if s, ok := v.(string); ok && re.MatchString(s) {
			return true
		}
	}
	return false
}

func truthy(v interface{}) bool {
	switch x := v.(type) {
	case nil:
		return false
	case bool:
		return x
	case int32, int64, float64:
		return toFloat(x) != 0
	}
	return true
}

func matchCond(vals []interface{}, cond interface{}) bool {
	ops, ok := isOpDoc(cond)
	if !ok {
		return eqAny(vals, cond)
	}
	for _, op := range ops {
		arg := op.Value
		var res bool
		switch op.Key {
		case "$eq":
			res = eqAny(vals, arg)
		case "$ne":
			res = !eqAny(vals, arg)
		case "$gt", "$gte", "$lt", "$lte":
			for _, v := range expand(vals) {
				if typeClass(v) != typeClass(arg) {
					continue
				}
				c := compare(v, arg)
				if (op.Key == "$gt" && c > 0) || (op.Key == "$gte" && c >= 0) || (op.Key == "$lt" && c < 0) || (op.Key == "$lte" && c <= 0) {
					res = true
					break
				}
			}
		case "$in", "$nin":
			arr, ok := arg.(primitive.A)
			if !ok {
				fail(2, "BadValue", "%s needs an array", op.Key)
			}
			for _, a := range arr {
				if eqAny(vals, a) {
					res = true
					break
				}
			}
			if op.Key == "$nin" {
				res = !res
			}
		case "$exists":
			res = truthy(arg) == (len(vals) > 0)
		case "$not":
			res = !matchCond(vals, arg)
		case "$size":
			for _, v := range vals {
				if a, ok := v.(primitive.A); ok && float64(len(a)) == toFloat(arg) {
					res = true
				}
			}
		case "$all":
			arr, _ := arg.(primitive.A)
			res = len(arr) > 0
			for _, a := range arr {
				if !eqAny(vals, a) {
					res = false
				}
			}
		case "$regex":
			opts, _ := lookupD(ops, "$options").(string)
			switch p := arg.(type) {
			case string:
				res = regexAny(vals, p, opts)
			case primitive.Regex:
				res = regexAny(vals, p.Pattern, p.Options+opts)
			}
		case "$options":
			res = true
		default:
			fail(2, "BadValue", "unknown operator: %s", op.Key)
		}
		if !res {
			return false
		}
	}
	return true
}

// query returns the documents of c matching filter, in insertion order.
func (c *coll) query(filter bson.D) []*doc {
	if c == nil {
		return nil
	}
	// fast path: exact _id equality
	if len(filter) == 1 && filter[0].Key == "_id" {
		if _, isOp := isOpDoc(filter[0].Value); !isOp {
			switch filter[0].Value.(type) {
			case primitive.Regex, nil, primitive.A:
			default:
				if d, ok := c.byID[idKey(filter[0].Value)]; ok {
					return []*doc{d}
				}
				return nil
			}
		}
	}
	var out []*doc
	for _, x := range c.docs {
		if matches(x.D(), filter) {
			out = append(out, x)
		}
	}
	return out
}

func sortDocs(docs []*doc, spec bson.D) []*doc {
	if len(spec) == 0 || len(docs) < 2 {
		return docs
	}
	type keyed struct {
		d    *doc
		keys []interface{}
	}
	ks := make([]keyed, len(docs))
	for i, x := range docs {
		full := x.D()
		ks[i].d = x
		for _, e := range spec {
			var vals []interface{}
			pathValues(full, strings.Split(e.Key, "."), &vals)
			// arrays sort by their min (ascending) / max (descending) element; missing sorts as null
			var cands []interface{}
			for _, v := range vals {
				if a, ok := v.(primitive.A); ok {
					cands = append(cands, a...)
				} else {
					cands = append(cands, v)
				}
			}
			var k interface{}
			desc := toFloat(e.Value) < 0
			for j, v := range cands {
				if j == 0 || (desc && compare(v, k) > 0) || (!desc && compare(v, k) < 0) {
					k = v
				}
			}
			ks[i].keys = append(ks[i].keys, k)
		}
	}
	sort.SliceStable(ks, func(a, b int) bool {
		for i, e := range spec {
			c := compare(ks[a].keys[i], ks[b].keys[i])
			if c != 0 {
				if toFloat(e.Value) < 0 {
					return c > 0
				}
				return c < 0
			}
		}
		return false
	})
	out := make([]*doc, len(ks))
	for i := range ks {
		out[i] = ks[i].d
	}
	return out
}

func project(d bson.D, proj bson.D) bson.D {
	if len(proj) == 0 {
		return d
	}
	include, idIncl := false, true
	for _, e := range proj {
		if e.Key == "_id" {
			idIncl = truthy(e.Value)
		} else if truthy(e.Value) {
			include = true
		}
	}
	if include {
		var out interface{} = bson.D{}
		if id, ok := getPath(d, []string{"_id"}); ok && idIncl {
			out = setPath(out, []string{"_id"}, id)
		}
		for _, e := range proj {
			if e.Key == "_id" || !truthy(e.Value) {
				continue
			}
			parts := strings.Split(e.Key, ".")
			if v, ok := getPath(d, parts); ok {
				out = setPath(out, parts, v)
			}
		}
		return out.(bson.D)
	}
	var out interface{} = d
	for _, e := range proj {
		if !truthy(e.Value) {
			out = unsetPath(out, strings.Split(e.Key, "."))
		}
	}
	return out.(bson.D)
}

// ---- updates --------------------------------------------------------------------------------------

func isOperatorUpdate(u bson.D) bool {
	return len(u) > 0 && strings.HasPrefix(u[0].Key, "$")
}

func addNum(a, b interface{}, mul bool) interface{} {
	if typeClass(a) != 3 || typeClass(b) != 3 {
		fail(14, "TypeMismatch", "Cannot apply arithmetic to a value of non-numeric type")
	}
	ia, oka := toInt(a)
	ib, okb := toInt(b)
	if oka && okb {
		var r int64
		if mul {
			r = ia * ib
		} else {
			r = ia + ib
		}
		_, a32 := a.(int32)
		_, b32 := b.(int32)
		if a32 && b32 && r >= math.MinInt32 && r <= math.MaxInt32 {
			return int32(r)
		}
		return r
	}
	if mul {
		return toFloat(a) * toFloat(b)
	}
	return toFloat(a) + toFloat(b)
}

// applyUpdate applies an operator update (or a replacement) to a copy of the document.
func applyUpdate(orig bson.D, u bson.D, isInsert bool, now time.Time) bson.D {
	if !isOperatorUpdate(u) {
		out := bson.D{}
		if id, ok := getPath(orig, []string{"_id"}); ok {
			if nid := lookupD(u, "_id"); nid != nil && compare(nid, id) != 0 {
				fail(66, "ImmutableField", "the (immutable) field '_id' was found to have been altered")
			}
			out = append(out, bson.E{Key: "_id", Value: id})
		}
		for _, e := range u {
			if strings.HasPrefix(e.Key, "$") {
				fail(52, "DollarPrefixedFieldName", "The dollar ($) prefixed field '%s' is not valid for storage", e.Key)
			}
			if e.Key == "_id" && len(out) > 0 && out[0].Key == "_id" {
				continue
			}
			out = append(out, e)
		}
		return out
	}
	var cur interface{} = orig
	origID, hadID := getPath(orig, []string{"_id"})
	for _, op := range u {
		args, ok := op.Value.(bson.D)
		if !ok {
			fail(9, "FailedToParse", "Modifiers operate on fields but we found type %T instead", op.Value)
		}
		for _, f := range args {
			parts := strings.Split(f.Key, ".")
			old, exists := getPath(cur.(bson.D), parts)
			switch op.Key {
			case "$set":
				cur = setPath(cur, parts, f.Value)
			case "$setOnInsert":
				if isInsert {
					cur = setPath(cur, parts, f.Value)
				}
			case "$unset":
				cur = unsetPath(cur, parts)
			case "$inc", "$mul":
				if !exists {
					if op.Key == "$mul" {
						cur = setPath(cur, parts, addNum(f.Value, int32(0), true))
					} else {
						cur = setPath(cur, parts, f.Value)
					}
				} else {
					cur = setPath(cur, parts, addNum(old, f.Value, op.Key == "$mul"))
				}
			case "$min", "$max":
				if !exists || (op.Key == "$min" && compare(f.Value, old) < 0) || (op.Key == "$max" && compare(f.Value, old) > 0) {
					cur = setPath(cur, parts, f.Value)
				}
			case "$currentDate":
				var v interface{} = primitive.NewDateTimeFromTime(now)
				if spec, ok := f.Value.(bson.D); ok {
					if t, _ := lookupD(spec, "$type").(string); t == "timestamp" {
						v = primitive.Timestamp{T: uint32(now.Unix()), I: 1}
					}
				}
				cur = setPath(cur, parts, v)
			case "$rename":
				if exists {
					cur = unsetPath(cur, parts)
					cur = setPath(cur, strings.Split(str(f.Value), "."), old)
				}
			case "$push", "$addToSet":
				arr, _ := old.(primitive.A)
				if exists && old != nil && arr == nil {
					fail(2, "BadValue", "The field '%s' must be an array", f.Key)
				}
				items := primitive.A{f.Value}
				if spec, ok := isOpDoc(f.Value); ok {
					if each, ok := lookupD(spec, "$each").(primitive.A); ok {
						items = each
					}
				}
				arr = append(primitive.A(nil), arr...)
				for _, it := range items {
					dup := false
					if op.Key == "$addToSet" {
						for _, a := range arr {
							dup = dup || compare(a, it) == 0
						}
					}
					if !dup {
						arr = append(arr, it)
					}
				}
				cur = setPath(cur, parts, arr)
			case "$pull":
				if arr, ok := old.(primitive.A); ok {
					kept := primitive.A{}
					for _, a := range arr {
						drop := false
						if cond, isOp := isOpDoc(f.Value); isOp {
							drop = matchCond([]interface{}{a}, cond)
						} else if fd, isD := f.Value.(bson.D); isD {
							if ad, ok := a.(bson.D); ok {
								drop = matches(ad, fd)
							}
						} else {
							drop = compare(a, f.Value) == 0
						}
						if !drop {
							kept = append(kept, a)
						}
					}
					cur = setPath(cur, parts, kept)
				}
			case "$pop":
				if arr, ok := old.(primitive.A); ok && len(arr) > 0 {
					if toFloat(f.Value) < 0 {
						arr = arr[1:]
					} else {
						arr = arr[:len(arr)-1]
					}
					cur = setPath(cur, parts, append(primitive.A{}, arr...))
				}
			default:
				fail(9, "FailedToParse", "Unknown modifier: %s", op.Key)
			}
		}
	}
	out := cur.(bson.D)
	if hadID {
		if nid, ok := getPath(out, []string{"_id"}); !ok || compare(nid, origID) != 0 {
			fail(66, "ImmutableField", "Performing an update on the path '_id' would modify the immutable field '_id'")
		}
	}
	return out
}

// upsertBase builds the seed document for an upsert from the equality conditions of the query.
func upsertBase(filter bson.D) bson.D {
	var cur interface{} = bson.D{}
	var walk func(f bson.D)
	walk = func(f bson.D) {
		for _, e := range f {
			if e.Key == "$and" {
				if arr, ok := e.Value.(primitive.A); ok {
					for _, sub := range arr {
						if sd, ok := sub.(bson.D); ok {
							walk(sd)
						}
					}
				}
				continue
			}
			if strings.HasPrefix(e.Key, "$") {
				continue
			}
			v := e.Value
			if ops, isOp := isOpDoc(v); isOp {
				eq := lookupD(ops, "$eq")
				if eq == nil {
					continue
				}
				v = eq
			}
			cur = setPath(cur, strings.Split(e.Key, "."), v)
		}
	}
	walk(filter)
	return cur.(bson.D)
}
