package memmongo

import (
	"context"
	"errors"
	"testing"
	"time"

	"go.mongodb.org/mongo-driver/bson"
	"go.mongodb.org/mongo-driver/bson/primitive"
	"go.mongodb.org/mongo-driver/mongo"
	"go.mongodb.org/mongo-driver/mongo/options"
)

func connect(t *testing.T) (*Server, *mongo.Client, *mongo.Database) {
	t.Helper()
	s, err := Start()
	if err != nil {
		t.Fatal(err)
	}
	ctx, cancel := context.WithTimeout(context.Background(), 5*time.Second)
	defer cancel()
	cl, err := mongo.Connect(ctx, options.Client().ApplyURI("mongodb://u:p@"+s.Addr()+"/?authMechanism=PLAIN"))
	if err != nil {
		t.Fatal(err)
	}
	if err := cl.Ping(ctx, nil); err != nil {
		t.Fatal(err)
	}
	t.Cleanup(func() {
		c, cancel := context.WithTimeout(context.Background(), 2*time.Second)
		defer cancel()
		_ = cl.Disconnect(c)
		s.Close()
	})
	return s, cl, cl.Database("tdb")
}

func must(t *testing.T, err error) {
	t.Helper()
	if err != nil {
		t.Fatal(err)
	}
}

func eq(t *testing.T, what string, got, want interface{}) {
	t.Helper()
	if got != want {
		t.Fatalf("%s: got %v (%T), want %v (%T)", what, got, got, want, want)
	}
}

var bg = context.Background()

func TestCRUD(t *testing.T) {
	s, _, db := connect(t)
	c := db.Collection("c")

	r, err := c.InsertOne(bg, bson.D{{"_id", "a"}, {"n", int32(1)}, {"sub", bson.D{{"x", int64(7)}}}})
	must(t, err)
	eq(t, "inserted id", r.InsertedID, "a")
	_, err = c.InsertOne(bg, bson.D{{"_id", "a"}})
	if !mongo.IsDuplicateKeyError(err) {
		t.Fatalf("want duplicate key error, got %v", err)
	}
	// ordered InsertMany stops at the first duplicate
	res, err := c.InsertMany(bg, []interface{}{bson.D{{"_id", "b"}, {"n", 2}}, bson.D{{"_id", "a"}}, bson.D{{"_id", "z"}}})
	var bwe mongo.BulkWriteException
	if !errors.As(err, &bwe) || len(bwe.WriteErrors) != 1 || bwe.WriteErrors[0].Index != 1 || bwe.WriteErrors[0].Code != 11000 {
		t.Fatalf("want BulkWriteException index 1 code 11000, got %v", err)
	}
	eq(t, "inserted before error", len(res.InsertedIDs), 1)
	_, err = c.InsertMany(bg, []interface{}{bson.D{{"_id", "c"}, {"n", int64(3)}}, bson.D{{"_id", "d"}, {"n", 4.0}}, bson.D{{"n", 5}}})
	must(t, err)
	n, err := c.CountDocuments(bg, bson.D{})
	must(t, err)
	eq(t, "count", n, int64(5))
	n, err = c.EstimatedDocumentCount(bg)
	must(t, err)
	eq(t, "estimated count", n, int64(5))

	// numeric comparison across int32/int64/double, sort desc, limit, skip
	cur, err := c.Find(bg, bson.D{{"n", bson.D{{"$gte", uint64(2)}, {"$lte", 4.5}}}}, options.Find().SetSort(bson.D{{"n", -1}}))
	must(t, err)
	var out []bson.M
	must(t, cur.All(bg, &out))
	eq(t, "range find len", len(out), 3)
	eq(t, "range find first", out[0]["_id"], "d")
	eq(t, "range find last", out[2]["_id"], "b")
	cur, err = c.Find(bg, bson.D{}, options.Find().SetSort(bson.D{{"n", 1}}).SetSkip(1).SetLimit(2).SetBatchSize(1))
	must(t, err)
	out = nil
	must(t, cur.All(bg, &out))
	eq(t, "skip/limit len", len(out), 2)
	eq(t, "skip/limit first", out[0]["_id"], "b")

	// dotted equality, $in, $ne, $and, $exists
	n, _ = c.CountDocuments(bg, bson.D{{"sub.x", 7}})
	eq(t, "dotted", n, int64(1))
	n, _ = c.CountDocuments(bg, bson.D{{"_id", bson.D{{"$in", bson.A{"a", "c", "nope"}}}}})
	eq(t, "$in", n, int64(2))
	n, _ = c.CountDocuments(bg, bson.D{{"$and", bson.A{bson.D{{"n", bson.D{{"$ne", 1}}}}, bson.D{{"n", bson.D{{"$lt", 4}}}}}}})
	eq(t, "$and/$ne/$lt", n, int64(2))
	n, _ = c.CountDocuments(bg, bson.D{{"sub", bson.D{{"$exists", true}}}})
	eq(t, "$exists", n, int64(1))

	// update: true n / nModified / upserted
	ur, err := c.UpdateOne(bg, bson.D{{"_id", "a"}}, bson.D{{"$set", bson.D{{"n", int32(1)}}}})
	must(t, err)
	eq(t, "no-op matched", ur.MatchedCount, int64(1))
	eq(t, "no-op modified", ur.ModifiedCount, int64(0))
	ur, err = c.UpdateOne(bg, bson.D{{"_id", "a"}}, bson.D{{"$set", bson.D{{"sub.y", "q"}}}, {"$inc", bson.D{{"n", 10}}}, {"$currentDate", bson.D{{"at", true}}}, {"$unset", bson.D{{"sub.x", ""}}}})
	must(t, err)
	eq(t, "modified", ur.ModifiedCount, int64(1))
	var a bson.M
	must(t, c.FindOne(bg, bson.D{{"_id", "a"}}).Decode(&a))
	eq(t, "$inc keeps int32", a["n"], int32(11))
	if _, isDate := a["at"].(primitive.DateTime); !isDate {
		t.Fatalf("$currentDate: %T", a["at"])
	}
	sub := a["sub"].(bson.M)
	if _, has := sub["x"]; has || sub["y"] != "q" {
		t.Fatalf("sub after update: %v", sub)
	}
	ur, err = c.UpdateOne(bg, bson.D{{"_id", "new"}, {"k", "v"}}, bson.D{{"$set", bson.D{{"n", 9}}}, {"$setOnInsert", bson.D{{"ins", true}}}}, options.Update().SetUpsert(true))
	must(t, err)
	eq(t, "upserted count", ur.UpsertedCount, int64(1))
	eq(t, "upserted id", ur.UpsertedID, "new")
	eq(t, "upsert matched", ur.MatchedCount, int64(0))
	must(t, c.FindOne(bg, bson.D{{"_id", "new"}}).Decode(&a))
	if a["k"] != "v" || a["ins"] != true || a["n"] != int32(9) {
		t.Fatalf("upserted doc %v", a)
	}
	um, err := c.UpdateMany(bg, bson.D{{"n", bson.D{{"$gt", 2}}}}, bson.D{{"$set", bson.D{{"big", true}}}})
	must(t, err)
	eq(t, "updateMany matched", um.MatchedCount, int64(5))
	// replace (+ upsert)
	rr, err := c.ReplaceOne(bg, bson.D{{"_id", "r"}}, bson.M{"v": 1}, options.Replace().SetUpsert(true))
	must(t, err)
	eq(t, "replace upsert", rr.UpsertedCount, int64(1))
	rr, err = c.ReplaceOne(bg, bson.D{{"_id", "r"}}, bson.M{"v": 1}, options.Replace().SetUpsert(true))
	must(t, err)
	eq(t, "replace same: modified", rr.ModifiedCount, int64(0))
	rr, err = c.ReplaceOne(bg, bson.D{{"_id", "r"}}, bson.M{"v": 2}, options.Replace().SetUpsert(true))
	must(t, err)
	eq(t, "replace diff: modified", rr.ModifiedCount, int64(1))

	// findAndModify
	var cd bson.M
	err = c.FindOneAndUpdate(bg, bson.D{{"_id", "ctr"}}, bson.M{"$inc": bson.M{"num": 1}}, options.FindOneAndUpdate().SetUpsert(true)).Decode(&cd)
	eq(t, "first upsert returns no doc", err, mongo.ErrNoDocuments)
	must(t, c.FindOneAndUpdate(bg, bson.D{{"_id", "ctr"}}, bson.M{"$inc": bson.M{"num": 1}}, options.FindOneAndUpdate().SetUpsert(true)).Decode(&cd))
	eq(t, "before doc", cd["num"], int32(1))
	must(t, c.FindOneAndUpdate(bg, bson.D{{"_id", "ctr"}}, bson.M{"$inc": bson.M{"num": 1}}, options.FindOneAndUpdate().SetReturnDocument(options.After)).Decode(&cd))
	eq(t, "after doc", cd["num"], int32(3))
	must(t, c.FindOneAndDelete(bg, bson.D{{"_id", "ctr"}}).Decode(&cd))
	eq(t, "deleted doc", cd["num"], int32(3))

	// delete
	dr, err := c.DeleteOne(bg, bson.D{{"big", true}})
	must(t, err)
	eq(t, "deleteOne", dr.DeletedCount, int64(1))
	dr, err = c.DeleteMany(bg, bson.D{{"big", true}})
	must(t, err)
	eq(t, "deleteMany", dr.DeletedCount, int64(4))

	// collections
	names, err := db.ListCollectionNames(bg, bson.D{})
	must(t, err)
	eq(t, "names", len(names), 1)
	names, err = db.ListCollectionNames(bg, bson.D{{"name", "zzz"}})
	must(t, err)
	eq(t, "filtered names", len(names), 0)
	must(t, db.CreateCollection(bg, "made"))
	_, err = c.Indexes().CreateMany(bg, []mongo.IndexModel{{Keys: bson.D{{"n", 1}}}})
	must(t, err)
	must(t, db.Collection("made").Drop(bg))
	must(t, db.Collection("missing").Drop(bg)) // ns not found is swallowed by the driver
	dump := s.Dump("tdb")
	if _, has := dump["made"]; has || len(dump["c"]) != 2 {
		t.Fatalf("dump: %v", dump)
	}
	// Dump/Restore round trip
	s.Restore("other", dump)
	n, err = db.Client().Database("other").Collection("c").CountDocuments(bg, bson.D{})
	must(t, err)
	eq(t, "restored", n, int64(2))
	must(t, db.Drop(bg))
	eq(t, "after dropDatabase", len(s.Dump("tdb")), 0)

	var res2 bson.M
	err = db.RunCommand(bg, bson.D{{"frobnicate", 1}}).Decode(&res2)
	var ce mongo.CommandError
	if !errors.As(err, &ce) || ce.Code != 59 {
		t.Fatalf("unknown command: %v", err)
	}
}

func TestTransactionAbortRollsBack(t *testing.T) {
	s, cl, db := connect(t)
	c := db.Collection("c")
	_, err := c.InsertOne(bg, bson.D{{"_id", 1}, {"v", "keep"}})
	must(t, err)
	sess, err := cl.StartSession()
	must(t, err)
	defer sess.EndSession(bg)
	must(t, sess.StartTransaction())
	must(t, mongo.WithSession(bg, sess, func(sc mongo.SessionContext) error {
		if _, err := c.InsertOne(sc, bson.D{{"_id", 2}}); err != nil {
			return err
		}
		if _, err := c.UpdateOne(sc, bson.D{{"_id", 1}}, bson.D{{"$set", bson.D{{"v", "changed"}}}}); err != nil {
			return err
		}
		if _, err := db.Collection("fresh").InsertOne(sc, bson.D{{"_id", 1}}); err != nil {
			return err
		}
		return sess.AbortTransaction(sc)
	}))
	d := s.Dump("tdb")
	if len(d["c"]) != 1 || d["c"][0]["v"] != "keep" {
		t.Fatalf("abort did not roll back: %v", d)
	}
	if _, has := d["fresh"]; has {
		t.Fatalf("collection created in aborted txn survived: %v", d)
	}
	// commit keeps
	must(t, sess.StartTransaction())
	must(t, mongo.WithSession(bg, sess, func(sc mongo.SessionContext) error {
		if _, err := c.InsertOne(sc, bson.D{{"_id", 3}}); err != nil {
			return err
		}
		return sess.CommitTransaction(sc)
	}))
	eq(t, "after commit", len(s.Dump("tdb")["c"]), 2)
	names := []string{}
	for _, r := range s.Log() {
		names = append(names, r.Name)
	}
	t.Logf("log: %v", names)
}

// TestFailInjection verifies that an injected failure is seen exactly once by the caller and that
// the driver does not retry it (default code), for reads and writes.
func TestFailInjection(t *testing.T) {
	s, _, db := connect(t)
	c := db.Collection("c")
	_, err := c.InsertOne(bg, bson.D{{"_id", 1}})
	must(t, err)

	s.ResetLog()
	s.FailAt(2)
	must(t, c.FindOne(bg, bson.D{{"_id", 1}}).Err())
	err = c.FindOne(bg, bson.D{{"_id", 1}}).Err()
	var ce mongo.CommandError
	if !errors.As(err, &ce) || ce.Code != 11601 {
		t.Fatalf("want injected CommandError 11601, got %v", err)
	}
	must(t, c.FindOne(bg, bson.D{{"_id", 1}}).Err())
	log := s.Log()
	eq(t, "log len (no retry)", len(log), 3)
	if log[0].Failed || !log[1].Failed || log[2].Failed || log[1].Name != "find" || log[1].Coll != "c" || log[1].DB != "tdb" {
		t.Fatalf("log: %+v", log)
	}

	// writes
	s.ResetLog()
	s.FailAt(1)
	_, err = c.InsertOne(bg, bson.D{{"_id", 2}})
	if !errors.As(err, &ce) || ce.Code != 11601 {
		t.Fatalf("want injected CommandError, got %v", err)
	}
	eq(t, "not executed", len(s.Dump("tdb")["c"]), 1)
	_, err = c.UpdateOne(bg, bson.D{{"_id", 1}}, bson.D{{"$set", bson.D{{"x", 1}}}})
	must(t, err)
	eq(t, "log len", len(s.Log()), 2)

	// FailFrom: everything fails from k on
	s.ResetLog()
	s.FailAt(0)
	s.FailFrom(2)
	must(t, c.FindOne(bg, bson.D{{"_id", 1}}).Err())
	for i := 0; i < 3; i++ {
		if err = c.FindOne(bg, bson.D{{"_id", 1}}).Err(); !errors.As(err, &ce) {
			t.Fatalf("want failure, got %v", err)
		}
	}
	eq(t, "log len", len(s.Log()), 4)
	s.FailFrom(0)
	must(t, c.FindOne(bg, bson.D{{"_id", 1}}).Err())
}

// TestFailInjectionRetryableCode: with 11600 the driver retries a read once; the retry must not get
// a new Seq and must fail too.
func TestFailInjectionRetryableCode(t *testing.T) {
	s, _, db := connect(t)
	c := db.Collection("c")
	_, err := c.InsertOne(bg, bson.D{{"_id", 1}})
	must(t, err)
	s.SetFailCode(11600, "InterruptedAtShutdown")
	s.ResetLog()
	s.FailAt(1)
	start := time.Now()
	err = c.FindOne(bg, bson.D{{"_id", 1}}).Err()
	var ce mongo.CommandError
	if !errors.As(err, &ce) || ce.Code != 11600 {
		t.Fatalf("want injected CommandError 11600, got %v", err)
	}
	t.Logf("11600 read failure surfaced after %v", time.Since(start))
	eq(t, "log len", len(s.Log()), 1)
	must(t, c.FindOne(bg, bson.D{{"_id", 1}}).Err())
	eq(t, "log len", len(s.Log()), 2)
}

func TestGate(t *testing.T) {
	s, _, db := connect(t)
	c := db.Collection("c")
	_, err := c.InsertOne(bg, bson.D{{"_id", 1}})
	must(t, err)
	s.ResetLog()
	s.SetGate(func(r CmdRecord) bool { return r.Name == "find" })
	done := make(chan error, 1)
	go func() { done <- c.FindOne(bg, bson.D{{"_id", 1}}).Err() }()
	deadline := time.Now().Add(2 * time.Second)
	for len(s.Held()) == 0 && time.Now().Before(deadline) {
		time.Sleep(time.Millisecond)
	}
	held := s.Held()
	if len(held) != 1 || held[0].Name != "find" {
		t.Fatalf("held: %+v", held)
	}
	// other connections are not blocked
	_, err = c.InsertOne(bg, bson.D{{"_id", 2}})
	must(t, err)
	select {
	case <-done:
		t.Fatal("gated find completed before release")
	case <-time.After(50 * time.Millisecond):
	}
	s.SetGate(nil)
	s.Release(held[0].Seq)
	select {
	case err := <-done:
		must(t, err)
	case <-time.After(2 * time.Second):
		t.Fatal("find did not complete after release")
	}
	eq(t, "held after release", len(s.Held()), 0)
}
