/-
The "obvious plain structures" of C03: a 32-bit integer, a string-keyed map, a slice.
`Plain.step` gives, for every public call, the result the plain structure returns and its next
value; refused calls return an error code and leave the structure unchanged.
-/
import Orda.Model.Api
namespace Orda.Plain
open Orda

inductive PState where
  | counter (v : Int)
  | map (kvs : List (String × JVal))     -- at most one binding per key
  | list (vs : List JVal)
deriving Repr, Inhabited

def mapGet (k : String) (kvs : List (String × JVal)) : Option JVal := alFind k kvs
def mapPut (k : String) (v : JVal) (kvs : List (String × JVal)) : List (String × JVal) := alSet k v kvs
def mapDel (k : String) (kvs : List (String × JVal)) : List (String × JVal) := kvs.filter (fun p => p.1 ≠ k)

def inRange (pos n len : Int) : Bool := 0 ≤ pos && 1 ≤ n && pos ≤ len - 1 && pos + n ≤ len

/-- the plain structure's reaction to a public call: (next value, result) -/
def step : PState → Call → PState × Outcome Ret
  | .counter v, .inc d => let v' := wrap32 (v + d); (.counter v', .ok (.int v'))
  | .map kvs, .mput k v =>
    if k = "" || v.isNull then (.map kvs, .err Err.illegalParameters)
    else (.map (mapPut k v kvs), .ok (.val (mapGet k kvs)))
  | .map kvs, .mremove k =>
    if k = "" then (.map kvs, .err Err.illegalParameters)
    else match mapGet k kvs with
      | some v => (.map (mapDel k kvs), .ok (.val (some v)))
      | none => (.map kvs, .err Err.noOp)
  | .map kvs, .mget k => (.map kvs, .ok (.val (mapGet k kvs)))
  | .map kvs, .msize => (.map kvs, .ok (.int kvs.length))
  | .list vs, .linsert pos xs =>
    if pos < 0 || pos > vs.length then (.list vs, .err Err.illegalParameters)
    else if xs.any JVal.isNull then (.list vs, .err Err.illegalParameters)
    else (.list (vs.take pos.toNat ++ xs ++ vs.drop pos.toNat), .ok (.vals xs))
  | .list vs, .ldelete pos =>
    if !inRange pos 1 vs.length then (.list vs, .err Err.illegalParameters)
    else (.list (vs.take pos.toNat ++ vs.drop (pos.toNat + 1)), .ok (.val (vs.drop pos.toNat).head?))
  | .list vs, .ldeleteMany pos n =>
    if !inRange pos n vs.length then (.list vs, .err Err.illegalParameters)
    else (.list (vs.take pos.toNat ++ vs.drop (pos.toNat + n.toNat)), .ok (.vals ((vs.drop pos.toNat).take n.toNat)))
  | .list vs, .lupdate pos xs =>
    if !inRange pos xs.length vs.length then (.list vs, .err Err.illegalParameters)
    else if xs.any JVal.isNull then (.list vs, .err Err.illegalParameters)
    else (.list (vs.take pos.toNat ++ xs ++ vs.drop (pos.toNat + xs.length)),
          .ok (.vals ((vs.drop pos.toNat).take xs.length)))
  | .list vs, .lget pos =>
    if pos < 0 || pos ≥ vs.length then (.list vs, .err Err.illegalParameters)
    else (.list vs, .ok (.val (vs.drop pos.toNat).head?))
  | .list vs, .lgetMany pos n =>
    if !inRange pos n vs.length then (.list vs, .err Err.illegalParameters)
    else (.list vs, .ok (.vals ((vs.drop pos.toNat).take n.toNat)))
  | .list vs, .lsize => (.list vs, .ok (.int vs.length))
  | s, _ => (s, .err Err.illegalOperation)

/-- abstraction of a replica's datatype state to the plain structure (documents: see Spec/PlainDoc) -/
def abs : DState → PState
  | .counter v => .counter v
  | .map m => .map m.live
  | .list l => .list l.live
  | .doc _ => .map []

/-- plain states are compared as structures: maps by their bindings (and cardinality), not by the
    incidental order of an association list -/
def equiv : PState → PState → Prop
  | .counter a, .counter b => a = b
  | .list a, .list b => a = b
  | .map a, .map b => (∀ k, mapGet k a = mapGet k b) ∧ a.length = b.length
  | _, _ => False

end Orda.Plain
