/-
Abstract specification: the observable state of a datatype as a function of the SET of applied
operations (order-independent by construction: every definition below first normalises the
operation list by a selection that does not depend on its order, given distinct timestamps).
-/
import Orda.Model.Replica
namespace Orda.Spec
open Orda

/-- counter: the sum of all increments with 32-bit wrap-around -/
def counter (ops : List Op) : Int :=
  wrap32 (ops.foldl (fun acc o => match o.body with | .increase d => acc + d | _ => acc) 0)

/-- the newest element of a list under `Ts.cmp` on a key (first one wins ties) -/
def maxBy {α} (key : α → Ts) : List α → Option α
  | [] => none
  | x :: xs =>
    match maxBy key xs with
    | none => some x
    | some y => if (key x).cmp (key y) == .lt then some y else some x

/-- map: a key holds the value of the put/remove with the greatest timestamp -/
def mapKeyOps (k : String) (ops : List Op) : List Op :=
  ops.filter fun o => match o.body with
    | .put k' _ => k' = k
    | .remove k' => k' = k
    | _ => false

def mapGet (ops : List Op) (k : String) : Option JVal :=
  match maxBy (fun (o : Op) => o.id.ts) (mapKeyOps k ops) with
  | some ⟨_, .put _ v⟩ => some v
  | _ => none

def mapKeys (ops : List Op) : List String :=
  (ops.filterMap fun o => match o.body with | .put k _ => some k | _ => none).eraseDups

def mapView (ops : List Op) : List (String × JVal) :=
  (mapKeys ops).filterMap fun k => (mapGet ops k).map fun v => (k, v)

/-- list: elements with identity, parent (anchor or previous element of the batch), initial value -/
structure Elem where
  id : Ts
  parent : Ts
  v : JVal
deriving Repr, Inhabited

def elemsOfInsert (ts : Ts) (anchor : Ts) : List JVal → List Elem
  | [] => []
  | v :: vs => ⟨ts, anchor, v⟩ :: elemsOfInsert ts.nextDelim ts vs

def listElems (ops : List Op) : List Elem :=
  ops.flatMap fun o => match o.body with
    | .insert _ (some a) vs => elemsOfInsert o.id.ts a vs
    | _ => []

def listDeleted (ops : List Op) : List Ts :=
  ops.flatMap fun o => match o.body with
    | .delete _ _ tg => tg
    | _ => []

/-- (target, value, stamp) triples of all updates -/
def listUpdates (ops : List Op) : List (Ts × JVal × Ts) :=
  ops.flatMap fun o => match o.body with
    | .update _ tg vs => (tg.zip (vs.zip (delimSeq o.id.ts tg.length)))
    | _ => []

/-- the path of an element: the identities from its top-level ancestor down to itself
    (the parent of a batch's first element is the anchor, of a later one the previous element) -/
def pathOf (all : List Elem) : Nat → Ts → List Ts
  | 0, _ => []
  | fuel + 1, id =>
    if id = Ts.oldest then []
    else match all.find? (fun e => e.id = id) with
      | some e => pathOf all fuel e.parent ++ [id]
      | none => [id]

/-- path order: an ancestor precedes its descendants; siblings (and their subtrees) are ordered
    newest first by `Ts.cmp` -/
def pathLt : List Ts → List Ts → Bool
  | [], [] => false
  | [], _ :: _ => true
  | _ :: _, [] => false
  | a :: as, b :: bs =>
    if a = b then pathLt as bs else a.cmp b == .gt

def insertByPath (all : List Elem) (fuel : Nat) (e : Elem) : List Elem → List Elem
  | [] => [e]
  | x :: xs =>
    if pathLt (pathOf all fuel e.id) (pathOf all fuel x.id) then e :: x :: xs
    else x :: insertByPath all fuel e xs

/-- the list order determined by the set of insert operations alone -/
def listOrder (ops : List Op) : List Elem :=
  let all := listElems ops
  all.foldr (insertByPath all (all.length + 1)) []

/-- current value of a live element: its newest update, else its inserted value -/
def elemValue (ops : List Op) (e : Elem) : JVal :=
  match maxBy (fun (u : Ts × JVal × Ts) => u.2.2) ((listUpdates ops).filter fun u => u.1 = e.id) with
  | some (_, v, _) => v
  | none => e.v

def listView (ops : List Op) : List JVal :=
  let dead := listDeleted ops
  ((listOrder ops).filter fun e => !dead.contains e.id).map (elemValue ops)

end Orda.Spec
