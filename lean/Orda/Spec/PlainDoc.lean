/-
The "obvious plain structure" of C03 for documents: a JSON tree (`JVal`, objects key-sorted = canonical).
A Document handle is a pointer to a container node; at any moment a live handle sits at exactly one path
of the tree (object keys / array indices).  `PlainDoc.step t π c` is the reaction of the plain tree `t` to
the public call `c` issued through a handle that currently sits at path `π`: the result the plain tree
returns and its next value; refused calls return the error code and leave the tree unchanged.
`Doc.locate` is the model-side reading of "the handle sits at path π" (live keys, live array indices).
The refinement theorems are in Proofs/DocPlain.lean, the property statements in Props/C03.lean.
-/
import Orda.Model.Patch
namespace Orda.PlainDoc
open Orda

inductive Seg where
  | key (k : String)
  | idx (i : Nat)
deriving Repr, DecidableEq, Inhabited

/-- the subtree at a path -/
def sub : List Seg → JVal → Option JVal
  | [], v => some v
  | .key k :: r, .obj kvs =>
    match alFind k kvs with
    | some c => sub r c
    | none => none
  | .idx i :: r, .arr l =>
    match l[i]? with
    | some c => sub r c
    | none => none
  | _ :: _, _ => none

/-- replace the subtree at a path (the spine above it is rebuilt, nothing else changes) -/
def replace (new : JVal) : List Seg → JVal → Option JVal
  | [], _ => some new
  | .key k :: r, .obj kvs =>
    match alFind k kvs with
    | some c => (replace new r c).map (fun c' => .obj (objPut k c' kvs))
    | none => none
  | .idx i :: r, .arr l =>
    match l[i]? with
    | some c => (replace new r c).map (fun c' => .arr (l.set i c'))
    | none => none
  | _ :: _, _ => none

def retCanon : Ret → Ret
  | .val (some v) => .val (some v.canon)
  | .vals vs => .vals (vs.map JVal.canon)
  | r => r

def outCanon : Outcome Ret → Outcome Ret
  | .ok r => .ok (retCanon r)
  | o => o

def inRange (pos n len : Int) : Bool := 0 ≤ pos && 1 ≤ n && pos ≤ len - 1 && pos + n ≤ len

/-- the handle a document call goes through -/
def handleOf : Call → Option Ts
  | .dput h _ _ | .dremove h _ | .dinsert h _ _ | .ddelete h _ | .ddeleteMany h _ _ | .dupdate h _ _
  | .dgetObj h _ | .dgetArr h _ _ | .dvalue h => some h
  | _ => none

/-- put the new subtree `s'` at `π`; `t` itself when the path is absent (never the case below a `sub π t = some _`) -/
def put (t : JVal) (π : List Seg) (s' : JVal) : JVal := (replace s' π t).getD t

/-- reaction of the plain tree `t` (canonical) to the call `c` made through a handle located at `π` -/
def step (t : JVal) (π : List Seg) (c : Call) : JVal × Outcome Ret :=
  match sub π t with
  | none => (t, .err Err.noOp)
  | some s =>
    match c, s with
    | .dput _ k v, .obj kvs =>
      if v.hasNull then (t, .err Err.illegalParameters)
      else (put t π (.obj (objPut k v.canon kvs)), .ok (.val (alFind k kvs)))
    | .dput _ _ _, _ => (t, .err Err.invalidParent)
    | .dremove _ k, .obj kvs =>
      (match alFind k kvs with
       | some old => (put t π (.obj (objDel k kvs)), .ok (.val (some old)))
       | none => (t, .err Err.noOp))
    | .dremove _ _, _ => (t, .err Err.invalidParent)
    | .dinsert _ pos vs, .arr l =>
      if pos < 0 || pos > l.length then (t, .err Err.illegalParameters)
      else if vs.any JVal.hasNull then (t, .err Err.illegalParameters)
      else (put t π (.arr (l.take pos.toNat ++ vs.map JVal.canon ++ l.drop pos.toNat)), .ok .none)
    | .dinsert _ _ _, _ => (t, .err Err.invalidParent)
    | .ddelete _ pos, .arr l =>
      if !inRange pos 1 l.length then (t, .err Err.illegalParameters)
      else (put t π (.arr (l.take pos.toNat ++ l.drop (pos.toNat + 1))), .ok (.val (l.drop pos.toNat).head?))
    | .ddelete _ _, _ => (t, .err Err.invalidParent)
    | .ddeleteMany _ pos n, .arr l =>
      if !inRange pos n l.length then (t, .err Err.illegalParameters)
      else (put t π (.arr (l.take pos.toNat ++ l.drop (pos.toNat + n.toNat))),
            .ok (.vals ((l.drop pos.toNat).take n.toNat)))
    | .ddeleteMany _ _ _, _ => (t, .err Err.invalidParent)
    | .dupdate _ pos vs, .arr l =>
      if !inRange pos vs.length l.length then (t, .err Err.illegalParameters)
      else if vs.any JVal.hasNull then (t, .err Err.illegalParameters)
      else (put t π (.arr (l.take pos.toNat ++ vs.map JVal.canon ++ l.drop (pos.toNat + vs.length))),
            .ok (.vals ((l.drop pos.toNat).take vs.length)))
    | .dupdate _ _ _, _ => (t, .err Err.invalidParent)
    | .dgetObj _ k, .obj kvs => (t, .ok (.val (alFind k kvs)))
    | .dgetObj _ _, _ => (t, .err Err.invalidParent)
    | .dgetArr _ pos n, .arr l =>
      if !inRange pos n l.length then (t, .err Err.illegalParameters)
      else (t, .ok (.vals ((l.drop pos.toNat).take n.toNat)))
    | .dgetArr _ _ _, _ => (t, .err Err.invalidParent)
    | .dvalue _, s => (t, .ok (.val (some s)))
    | _, _ => (t, .err Err.illegalOperation)

end Orda.PlainDoc

namespace Orda
open PlainDoc

/-- "the handle `c` sits at path π below the node `cur`": object steps follow LIVE keys, array steps the
    i-th LIVE slot (what GetFromObject / GetFromArray hand out) -/
def Doc.locate (d : Doc) : List Seg → Ts → Option Ts
  | [], cur => some cur
  | .key k :: r, cur =>
    match d.findObj cur with
    | some (_, m, _) =>
      (match alFind k m with
       | some ch => if d.isTomb ch then none else d.locate r ch
       | none => none)
    | none => none
  | .idx i :: r, cur =>
    match d.findArr cur with
    | some _ =>
      (match (d.liveChildren cur)[i]? with
       | some ch => d.locate r ch
       | none => none)
    | none => none

end Orda
