/-
C06 — source shape (part of the tie to /repo, regenerated on every run).
The functions, types and constants of the files this property is anchored in have, after removing comments, logging and
verification schedule points, exactly the text the model was written against (`Gen.Expected`, committed) — as hashes
regenerated from the current sources by tools/gofacts (`Gen.Shape`).  When this theorem fails, some function of
  server/service/service_pushpull_datatype.go
  server/schema/operations.go
  server/schema/datatypes.go
  server/mongodb/collection_operations.go
  server/mongodb/collection_datatypes.go
  client/pkg/model/checkpoint.go
changed: the model is no longer known to follow the code, and the check searches for an input on which the property fails.
-/
import Orda.Gen.Shape
import Orda.Gen.Expected
namespace Orda.Shape.C06
open Orda

theorem source_shape :
    Gen.Shape.server_service_service_pushpull_datatype_go = Gen.Expected.server_service_service_pushpull_datatype_go ∧
    Gen.Shape.server_schema_operations_go = Gen.Expected.server_schema_operations_go ∧
    Gen.Shape.server_schema_datatypes_go = Gen.Expected.server_schema_datatypes_go ∧
    Gen.Shape.server_mongodb_collection_operations_go = Gen.Expected.server_mongodb_collection_operations_go ∧
    Gen.Shape.server_mongodb_collection_datatypes_go = Gen.Expected.server_mongodb_collection_datatypes_go ∧
    Gen.Shape.client_pkg_model_checkpoint_go = Gen.Expected.client_pkg_model_checkpoint_go := by
  decide

end Orda.Shape.C06
