/-
C20 — source shape (part of the tie to /repo, regenerated on every run).
The functions, types and constants of the files this property is anchored in have, after removing comments, logging and
verification schedule points, exactly the text the model was written against (`Gen.Expected`, committed) — as hashes
regenerated from the current sources by tools/gofacts (`Gen.Shape`).  When this theorem fails, some function of
  client/pkg/internal/datatypes/transaction.go
  client/pkg/internal/datatypes/wired.go
  client/pkg/internal/managers/datatype.go
changed: the model is no longer known to follow the code, and the check searches for an input on which the property fails.
-/
import Orda.Gen.Shape
import Orda.Gen.Expected
import Orda.Gen.Facts2
import Orda.Model.TxFlag
namespace Orda.Shape.C20
open Orda

theorem source_shape :
    Gen.Shape.client_pkg_internal_datatypes_transaction_go = Gen.Expected.client_pkg_internal_datatypes_transaction_go ∧
    Gen.Shape.client_pkg_internal_datatypes_wired_go = Gen.Expected.client_pkg_internal_datatypes_wired_go ∧
    Gen.Shape.client_pkg_internal_managers_datatype_go = Gen.Expected.client_pkg_internal_managers_datatype_go := by
  decide

/-- the source writes the success flag of TransactionDatatype where `Model/TxFlag` assumes: `true` inside unlock() before the
    mutex is released, nowhere before `mutex.Lock()`; SetTransactionFail writes `false`; EndTransaction commits iff the flag is on -/
theorem source_flag_facts : Gen.txFacts = TxFlag.currentFacts := by decide

end Orda.Shape.C20
