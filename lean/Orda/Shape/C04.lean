/-
C04 — source shape (part of the tie to /repo, regenerated on every run).
The functions, types and constants of the files this property is anchored in have, after removing comments, logging and
verification schedule points, exactly the text the model was written against (`Gen.Expected`, committed) — as hashes
regenerated from the current sources by tools/gofacts (`Gen.Shape`).  When this theorem fails, some function of
  client/pkg/orda/list.go
  client/pkg/orda/ordered.go
  client/pkg/orda/json_array.go
  client/pkg/model/timestamp.go
changed: the model is no longer known to follow the code, and the check searches for an input on which the property fails.
-/
import Orda.Gen.Shape
import Orda.Gen.Expected
namespace Orda.Shape.C04
open Orda

theorem source_shape :
    Gen.Shape.client_pkg_orda_list_go = Gen.Expected.client_pkg_orda_list_go ∧
    Gen.Shape.client_pkg_orda_ordered_go = Gen.Expected.client_pkg_orda_ordered_go ∧
    Gen.Shape.client_pkg_orda_json_array_go = Gen.Expected.client_pkg_orda_json_array_go ∧
    Gen.Shape.client_pkg_model_timestamp_go = Gen.Expected.client_pkg_model_timestamp_go := by
  decide

end Orda.Shape.C04
