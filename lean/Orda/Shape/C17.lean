/-
C17 — source shape (part of the tie to /repo, regenerated on every run).
The functions, types and constants of the files this property is anchored in have, after removing comments, logging and
verification schedule points, exactly the text the model was written against (`Gen.Expected`, committed) — as hashes
regenerated from the current sources by tools/gofacts (`Gen.Shape`).  When this theorem fails, some function of
  server/service/service_pushpull_client.go
  server/service/service_client.go
  server/service/service_pushpull_datatype.go
  server/service/service_collections.go
  server/mongodb/collection_datatypes.go
  server/mongodb/collection_collections.go
  server/mongodb/collection_clients.go
  server/mongodb/repository_mongo.go
  server/mongodb/collection_col_num_generator.go
changed: the model is no longer known to follow the code, and the check searches for an input on which the property fails.
-/
import Orda.Gen.Shape
import Orda.Gen.Expected
namespace Orda.Shape.C17
open Orda

theorem source_shape :
    Gen.Shape.server_service_service_pushpull_client_go = Gen.Expected.server_service_service_pushpull_client_go ∧
    Gen.Shape.server_service_service_client_go = Gen.Expected.server_service_service_client_go ∧
    Gen.Shape.server_service_service_pushpull_datatype_go = Gen.Expected.server_service_service_pushpull_datatype_go ∧
    Gen.Shape.server_service_service_collections_go = Gen.Expected.server_service_service_collections_go ∧
    Gen.Shape.server_mongodb_collection_datatypes_go = Gen.Expected.server_mongodb_collection_datatypes_go ∧
    Gen.Shape.server_mongodb_collection_collections_go = Gen.Expected.server_mongodb_collection_collections_go ∧
    Gen.Shape.server_mongodb_collection_clients_go = Gen.Expected.server_mongodb_collection_clients_go ∧
    Gen.Shape.server_mongodb_repository_mongo_go = Gen.Expected.server_mongodb_repository_mongo_go ∧
    Gen.Shape.server_mongodb_collection_col_num_generator_go = Gen.Expected.server_mongodb_collection_col_num_generator_go := by
  decide

end Orda.Shape.C17
