/-
C18 — source shape (part of the tie to /repo, regenerated on every run).
The functions, types and constants of the files this property is anchored in have, after removing comments, logging and
verification schedule points, exactly the text the model was written against (`Gen.Expected`, committed) — as hashes
regenerated from the current sources by tools/gofacts (`Gen.Shape`).  When this theorem fails, some function of
  server/notification/notifier.go
  server/service/service_pushpull_datatype.go
  client/pkg/internal/managers/notify.go
  client/pkg/internal/managers/datatype.go
  client/pkg/internal/datatypes/wired.go
changed: the model is no longer known to follow the code, and the check searches for an input on which the property fails.
-/
import Orda.Gen.Shape
import Orda.Gen.Expected
namespace Orda.Shape.C18
open Orda

theorem source_shape :
    Gen.Shape.server_notification_notifier_go = Gen.Expected.server_notification_notifier_go ∧
    Gen.Shape.server_service_service_pushpull_datatype_go = Gen.Expected.server_service_service_pushpull_datatype_go ∧
    Gen.Shape.client_pkg_internal_managers_notify_go = Gen.Expected.client_pkg_internal_managers_notify_go ∧
    Gen.Shape.client_pkg_internal_managers_datatype_go = Gen.Expected.client_pkg_internal_managers_datatype_go ∧
    Gen.Shape.client_pkg_internal_datatypes_wired_go = Gen.Expected.client_pkg_internal_datatypes_wired_go := by
  decide

end Orda.Shape.C18
