/-
C11 — source shape (part of the tie to /repo, regenerated on every run).
The functions, types and constants of the files this property is anchored in have, after removing comments, logging and
verification schedule points, exactly the text the model was written against (`Gen.Expected`, committed) — as hashes
regenerated from the current sources by tools/gofacts (`Gen.Shape`).  When this theorem fails, some function of
  server/snapshot/manager.go
  server/mongodb/collection_snapshots.go
  server/mongodb/collection_real_collection.go
  server/service/service_pushpull_datatype.go
  server/service/service_patch_document.go
changed: the model is no longer known to follow the code, and the check searches for an input on which the property fails.
-/
import Orda.Gen.Shape
import Orda.Gen.Expected
namespace Orda.Shape.C11
open Orda

theorem source_shape :
    Gen.Shape.server_snapshot_manager_go = Gen.Expected.server_snapshot_manager_go ∧
    Gen.Shape.server_mongodb_collection_snapshots_go = Gen.Expected.server_mongodb_collection_snapshots_go ∧
    Gen.Shape.server_mongodb_collection_real_collection_go = Gen.Expected.server_mongodb_collection_real_collection_go ∧
    Gen.Shape.server_service_service_pushpull_datatype_go = Gen.Expected.server_service_service_pushpull_datatype_go ∧
    Gen.Shape.server_service_service_patch_document_go = Gen.Expected.server_service_service_patch_document_go := by
  decide

end Orda.Shape.C11
