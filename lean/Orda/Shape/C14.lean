/-
C14 — source shape (part of the tie to /repo, regenerated on every run).
The functions, types and constants of the files this property is anchored in have, after removing comments, logging and
verification schedule points, exactly the text the model was written against (`Gen.Expected`, committed) — as hashes
regenerated from the current sources by tools/gofacts (`Gen.Shape`).  When this theorem fails, some function of
  client/pkg/operations/converter.go
  client/pkg/operations/base.go
  client/pkg/operations/list.go
  client/pkg/operations/document.go
  client/pkg/operations/map.go
  client/pkg/operations/meta.go
  client/pkg/types/json_values.go
  server/schema/operations.go
  server/service/service_test_encoding_operations.go
changed: the model is no longer known to follow the code, and the check searches for an input on which the property fails.
-/
import Orda.Gen.Shape
import Orda.Gen.Expected
namespace Orda.Shape.C14
open Orda

theorem source_shape :
    Gen.Shape.client_pkg_operations_converter_go = Gen.Expected.client_pkg_operations_converter_go ∧
    Gen.Shape.client_pkg_operations_base_go = Gen.Expected.client_pkg_operations_base_go ∧
    Gen.Shape.client_pkg_operations_list_go = Gen.Expected.client_pkg_operations_list_go ∧
    Gen.Shape.client_pkg_operations_document_go = Gen.Expected.client_pkg_operations_document_go ∧
    Gen.Shape.client_pkg_operations_map_go = Gen.Expected.client_pkg_operations_map_go ∧
    Gen.Shape.client_pkg_operations_meta_go = Gen.Expected.client_pkg_operations_meta_go ∧
    Gen.Shape.client_pkg_types_json_values_go = Gen.Expected.client_pkg_types_json_values_go ∧
    Gen.Shape.server_schema_operations_go = Gen.Expected.server_schema_operations_go ∧
    Gen.Shape.server_service_service_test_encoding_operations_go = Gen.Expected.server_service_service_test_encoding_operations_go := by
  decide

end Orda.Shape.C14
