/-
C15 — source shape (part of the tie to /repo, regenerated on every run).
The functions, types and constants of the files this property is anchored in have, after removing comments, logging and
verification schedule points, exactly the text the model was written against (`Gen.Expected`, committed) — as hashes
regenerated from the current sources by tools/gofacts (`Gen.Shape`).  When this theorem fails, some function of
  client/pkg/model/timestamp.go
  client/pkg/model/operation_id.go
  client/pkg/internal/datatypes/base.go
  client/pkg/internal/datatypes/wired.go
  client/pkg/orda/list.go
  client/pkg/orda/json_primitive.go
  client/pkg/types/uid.go
changed: the model is no longer known to follow the code, and the check searches for an input on which the property fails.
-/
import Orda.Gen.Shape
import Orda.Gen.Expected
namespace Orda.Shape.C15
open Orda

theorem source_shape :
    Gen.Shape.client_pkg_model_timestamp_go = Gen.Expected.client_pkg_model_timestamp_go ∧
    Gen.Shape.client_pkg_model_operation_id_go = Gen.Expected.client_pkg_model_operation_id_go ∧
    Gen.Shape.client_pkg_internal_datatypes_base_go = Gen.Expected.client_pkg_internal_datatypes_base_go ∧
    Gen.Shape.client_pkg_internal_datatypes_wired_go = Gen.Expected.client_pkg_internal_datatypes_wired_go ∧
    Gen.Shape.client_pkg_orda_list_go = Gen.Expected.client_pkg_orda_list_go ∧
    Gen.Shape.client_pkg_orda_json_primitive_go = Gen.Expected.client_pkg_orda_json_primitive_go ∧
    Gen.Shape.client_pkg_types_uid_go = Gen.Expected.client_pkg_types_uid_go := by
  decide

end Orda.Shape.C15
