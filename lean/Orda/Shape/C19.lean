/-
C19 — source shape (part of the tie to /repo, regenerated on every run).
The functions, types and constants of the files this property is anchored in have, after removing comments, logging and
verification schedule points, exactly the text the model was written against (`Gen.Expected`, committed) — as hashes
regenerated from the current sources by tools/gofacts (`Gen.Shape`).  When this theorem fails, some function of
  client/pkg/orda/document.go
  client/pkg/orda/json_primitive.go
  server/service/service_patch_document.go
  server/snapshot/manager.go
  server/admin/admin.go
changed: the model is no longer known to follow the code, and the check searches for an input on which the property fails.
-/
import Orda.Gen.Shape
import Orda.Gen.Expected
namespace Orda.Shape.C19
open Orda

theorem source_shape :
    Gen.Shape.client_pkg_orda_document_go = Gen.Expected.client_pkg_orda_document_go ∧
    Gen.Shape.client_pkg_orda_json_primitive_go = Gen.Expected.client_pkg_orda_json_primitive_go ∧
    Gen.Shape.server_service_service_patch_document_go = Gen.Expected.server_service_service_patch_document_go ∧
    Gen.Shape.server_snapshot_manager_go = Gen.Expected.server_snapshot_manager_go ∧
    Gen.Shape.server_admin_admin_go = Gen.Expected.server_admin_admin_go := by
  decide

end Orda.Shape.C19
