/-
C12 — source shape (part of the tie to /repo, regenerated on every run).
The functions, types and constants of the files this property is anchored in have, after removing comments, logging and
verification schedule points, exactly the text the model was written against (`Gen.Expected`, committed) — as hashes
regenerated from the current sources by tools/gofacts (`Gen.Shape`).  When this theorem fails, some function of
  server/service/service_pushpull_datatype.go
  server/service/service_pushpull_client.go
  server/utils/local_lock.go
  server/utils/redis_lock.go
  server/redis/client.go
  server/managers/managers.go
changed: the model is no longer known to follow the code, and the check searches for an input on which the property fails.
-/
import Orda.Gen.Shape
import Orda.Gen.Expected
namespace Orda.Shape.C12
open Orda

theorem source_shape :
    Gen.Shape.server_service_service_pushpull_datatype_go = Gen.Expected.server_service_service_pushpull_datatype_go ∧
    Gen.Shape.server_service_service_pushpull_client_go = Gen.Expected.server_service_service_pushpull_client_go ∧
    Gen.Shape.server_utils_local_lock_go = Gen.Expected.server_utils_local_lock_go ∧
    Gen.Shape.server_utils_redis_lock_go = Gen.Expected.server_utils_redis_lock_go ∧
    Gen.Shape.server_redis_client_go = Gen.Expected.server_redis_client_go ∧
    Gen.Shape.server_managers_managers_go = Gen.Expected.server_managers_managers_go := by
  decide

end Orda.Shape.C12
