/-
C10 — source shape (part of the tie to /repo, regenerated on every run).
The functions, types and constants of the files this property is anchored in have, after removing comments, logging and
verification schedule points, exactly the text the model was written against (`Gen.Expected`, committed) — as hashes
regenerated from the current sources by tools/gofacts (`Gen.Shape`).  When this theorem fails, some function of
  client/pkg/internal/datatypes/snapshot.go
  client/pkg/internal/datatypes/base.go
  client/pkg/orda/list.go
  client/pkg/orda/map.go
  client/pkg/orda/counter.go
  client/pkg/orda/json_object.go
  client/pkg/orda/json_array.go
  client/pkg/orda/document_marshal.go
  server/snapshot/manager.go
changed: the model is no longer known to follow the code, and the check searches for an input on which the property fails.
-/
import Orda.Gen.Shape
import Orda.Gen.Expected
namespace Orda.Shape.C10
open Orda

theorem source_shape :
    Gen.Shape.client_pkg_internal_datatypes_snapshot_go = Gen.Expected.client_pkg_internal_datatypes_snapshot_go ∧
    Gen.Shape.client_pkg_internal_datatypes_base_go = Gen.Expected.client_pkg_internal_datatypes_base_go ∧
    Gen.Shape.client_pkg_orda_list_go = Gen.Expected.client_pkg_orda_list_go ∧
    Gen.Shape.client_pkg_orda_map_go = Gen.Expected.client_pkg_orda_map_go ∧
    Gen.Shape.client_pkg_orda_counter_go = Gen.Expected.client_pkg_orda_counter_go ∧
    Gen.Shape.client_pkg_orda_json_object_go = Gen.Expected.client_pkg_orda_json_object_go ∧
    Gen.Shape.client_pkg_orda_json_array_go = Gen.Expected.client_pkg_orda_json_array_go ∧
    Gen.Shape.client_pkg_orda_document_marshal_go = Gen.Expected.client_pkg_orda_document_marshal_go ∧
    Gen.Shape.server_snapshot_manager_go = Gen.Expected.server_snapshot_manager_go := by
  decide

end Orda.Shape.C10
