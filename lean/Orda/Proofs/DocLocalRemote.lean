/-
What a document call EMITS is an applicable remote operation with the SAME effect (C01/C02/C05 for documents).
Everything lives in namespace `Orda.DLR`.

RESULT.  The two statements of the task are FALSE as given (`Counter.local_call_statement_false`,
`Counter.receiver_statement_false`), for reasons the invariant `DP.DocInv` cannot see:
  (a) `dinsert h pos []` succeeds and queues an insert of an EMPTY batch, which `GoodD` (`ACausal.nonempty`) refuses — in
      a reachable state;
  (b) `DP.DInv` records neither a causal insertion history of the arrays (`OrdOK` inside `GoodD` asks for one) nor that no
      slot carries the head's identity `Ts.oldest`; in such a (non-reachable) state a local insert reports the anchor
      `Ts.oldest`, the receiver inserts at the head: the replicas show different JSON (`Counter.dX`).
What IS proved:
* `local_call_is_applicable_remote_op_partial` — the first statement verbatim under two extra hypotheses that are void for
  every call but `dinsert`: `HistOK d` (every array has a causal insertion history) and "not an insert of an empty batch";
  the documents are EQUAL (`local_call_is_applicable_remote_op_eq`: `(r.call c).1.state = .doc (applyD d x)`);
* `local_call_is_applicable_remote_op_noInsert` — verbatim, no extra hypothesis, for every call but `dinsert`;
* `local_call_is_applicable_remote_op_weak` — no extra hypothesis, `GoodD` replaced by `GoodW` (= `GoodD` without `OrdOK`;
  `goodD_of_goodW`, `goodW_of_goodD`), which still carries `DR.docInv_remote` (`docInv_remote_weak`) and
  `execRemoteBase_is_applyD` (`execRemoteBase_is_applyD_weak`); for `DM.mixed_converge` the clause `OrdOK` is what is missing;
* `receiver_reaches_senders_state_partial` — the second statement verbatim under "no slot carries `Ts.oldest`";
* `histOK_life` — `HistOK` holds in EVERY state reachable by public calls and deliveries of applicable operations
  (`DR.Life`), hence `life_local_call_is_applicable_remote_op` (first statement verbatim for reachable replicas, proviso:
  no empty insert) and `life_receiver_reaches_senders_state` (second statement verbatim for reachable senders).

Contents
* 1. inversion of a successful mutating call (`Prepared`, `call_ok_inv`).
* 2. the local operations against the remote ones, on `Doc`: `put_local_remote`, `remove_local_remote`,
  `insert_local_remote` (the skip loop of `insertAfterId` stops at once), `delete_local_remote`, `upd_local_remote_go`
  — EXACT equality of the resulting documents.
* 3. applicability of the single-target operations of a local delete / update (`goodE_flatDel`, `goodE_flatUpd`).
* 4. causal insertion histories of the arrays: `ArrHist`, `HistOK`, `foldIds_mem_iff`, `hist_extend`.
* 5. `update_local_remote`, `GoodW`, `exec_core`, the theorems for one call.
* 6. the histories are an invariant: `histOK_run`, `histOK_applyE`, `histOK_applyOp`, `histOK_applyD`, `histOK_life`; the
  theorems for reachable replicas; `docInv_remote_weak`.
* 7. `ExLR`: non-vacuity (nested array, insert in the middle, update; emitted operations shown; theorems instantiated).
* 8. `Counter`: the counterexamples (both statements as given, formally refuted).
-/
import Orda.Proofs.DocRemoteInv
set_option linter.unusedSimpArgs false
set_option linter.unusedVariables false
namespace Orda.DLR
open Orda Orda.DC Orda.DA Orda.DM Orda.DR
open Orda.DP (DInv DocInv St)

/-! ## 1. a successful mutating call -/
/-- the bodies the document calls prepare -/
inductive Prepared (d : Doc) : Call → OpBody → Prop
  | put (h k v) (hn : JVal.hasNull v = false) : Prepared d (.dput h k v) (.docPut h k v)
  | remove (h k) : Prepared d (.dremove h k) (.docRemove h k)
  | insert (h) (pos : Int) (vs) (hn : JVal.hasNullList vs = false) : Prepared d (.dinsert h pos vs) (.docInsert h pos.toNat none vs)
  | delete (h) (pos : Int) : Prepared d (.ddelete h pos) (.docDelete h pos.toNat 1 [])
  | deleteMany (h) (pos n : Int) : Prepared d (.ddeleteMany h pos n) (.docDelete h pos.toNat n.toNat [])
  | update (h) (pos : Int) (vs) (hn : JVal.hasNullList vs = false) (hr : (d.arrRga h).validateRange pos vs.length = none) :
      Prepared d (.dupdate h pos vs) (.docUpdate h pos.toNat [] vs)

theorem prepare_mut (d : Doc) (c : Call) (hm : DP.isMutating c = true) :
    (∃ e, c.prepare (.doc d) = .done (.err e)) ∨ ∃ b post, c.prepare (.doc d) = .op b post ∧ Prepared d c b := by
  cases c <;> simp only [DP.isMutating, Bool.false_eq_true] at hm
  case dput h k v =>
    show (∃ e, (Call.dput h k v).prepareDoc d = _) ∨ ∃ b post, (Call.dput h k v).prepareDoc d = _ ∧ _
    simp only [Call.prepareDoc]
    split
    · exact Or.inl ⟨_, rfl⟩
    · split
      · exact Or.inl ⟨_, rfl⟩
      · rename_i hn
        exact Or.inr ⟨_, _, rfl, .put h k v (by simpa using hn)⟩
  case dremove h k =>
    show (∃ e, (Call.dremove h k).prepareDoc d = _) ∨ ∃ b post, (Call.dremove h k).prepareDoc d = _ ∧ _
    simp only [Call.prepareDoc]
    split
    · exact Or.inl ⟨_, rfl⟩
    · exact Or.inr ⟨_, _, rfl, .remove h k⟩
  case dinsert h pos vs =>
    show (∃ e, (Call.dinsert h pos vs).prepareDoc d = _) ∨ ∃ b post, (Call.dinsert h pos vs).prepareDoc d = _ ∧ _
    simp only [Call.prepareDoc]
    split
    · exact Or.inl ⟨_, rfl⟩
    · split
      · exact Or.inl ⟨_, rfl⟩
      · split
        · exact Or.inl ⟨_, rfl⟩
        · rename_i hn
          exact Or.inr ⟨_, _, rfl, .insert h pos vs (by rw [← DP.any_hasNull_iff]; simpa using hn)⟩
  case ddelete h pos =>
    show (∃ e, (Call.ddelete h pos).prepareDoc d = _) ∨ ∃ b post, (Call.ddelete h pos).prepareDoc d = _ ∧ _
    simp only [Call.prepareDoc]
    split
    · exact Or.inl ⟨_, rfl⟩
    · split
      · exact Or.inl ⟨_, rfl⟩
      · exact Or.inr ⟨_, _, rfl, .delete h pos⟩
  case ddeleteMany h pos n =>
    show (∃ e, (Call.ddeleteMany h pos n).prepareDoc d = _) ∨ ∃ b post, (Call.ddeleteMany h pos n).prepareDoc d = _ ∧ _
    simp only [Call.prepareDoc]
    split
    · exact Or.inl ⟨_, rfl⟩
    · split
      · exact Or.inl ⟨_, rfl⟩
      · exact Or.inr ⟨_, _, rfl, .deleteMany h pos n⟩
  case dupdate h pos vs =>
    show (∃ e, (Call.dupdate h pos vs).prepareDoc d = _) ∨ ∃ b post, (Call.dupdate h pos vs).prepareDoc d = _ ∧ _
    simp only [Call.prepareDoc]
    split
    · exact Or.inl ⟨_, rfl⟩
    · split
      · exact Or.inl ⟨_, rfl⟩
      · rename_i hr
        split
        · exact Or.inl ⟨_, rfl⟩
        · rename_i hn
          exact Or.inr ⟨_, _, rfl, .update h pos vs (by rw [← DP.any_hasNull_iff]; simpa using hn) hr⟩

theorem prepared_notMeta {d : Doc} {c : Call} {b : OpBody} (h : Prepared d c b) : b.isMeta = false := by
  cases h <;> rfl

/-- a successful mutating call: the prepared body ran locally and its wire form was queued -/
theorem call_ok_inv {r : Replica} {d : Doc} (hs : r.state = .doc d) {c : Call} (hm : DP.isMutating c = true) {v : Ret}
    (hok : (r.call c).2 = .ok v) :
    ∃ b s' b' ret, Prepared d c b ∧ execLocal (.doc d) r.opId.next.ts b = .ok (s', b', ret) ∧
      (r.call c).1 = { r with opId := r.opId.next, state := s', rbOps := r.rbOps ++ [⟨r.opId.next, b'⟩],
                              buffer := r.buffer ++ [Op.wire ⟨r.opId.next, b'⟩] } := by
  rcases prepare_mut d c hm with ⟨e, he⟩ | ⟨b, post, hb, hp⟩
  · rw [← hs] at he
    rw [DP.call_of_done he] at hok
    cases hok
  · rw [← hs] at hb
    have hmeta := prepared_notMeta hp
    cases he : execLocal r.state r.opId.next.ts b with
    | ok x =>
      obtain ⟨s', b', ret⟩ := x
      rw [DP.call_of_ok hb hmeta he]
      rw [hs] at he
      exact ⟨b, s', b', ret, hp, he, rfl⟩
    | err e =>
      rw [DP.call_of_err hb hmeta he] at hok
      cases hok
    | panic w =>
      exfalso
      unfold Replica.call at hok
      rw [hb] at hok
      simp only [Replica.callLocal, Replica.execLocalBase, hmeta, Bool.false_eq_true, if_false, he, mapOut] at hok
      cases hok


/-! ## 2. local against remote, on documents -/


/-- a local remove that succeeds is the remote remove -/
theorem remove_local_remote {d : Doc} {p : Ts} {k : String} {ts : Ts} {d' : Doc} {old : Option Ts}
    (h : d.deleteInObject p k ts true = .ok (d', old)) :
    d.deleteInObject p k ts false = .ok (d', old) ∧ HasKey d p k := by
  unfold Doc.deleteInObject at h ⊢
  cases hp : d.findObj p with
  | none => rw [hp] at h; cases h
  | some x =>
    obtain ⟨pn, m, size⟩ := x
    rw [hp] at h
    simp only at h ⊢
    cases hk : alFind k m with
    | none => rw [hk] at h; simp at h
    | some c =>
      rw [hk] at h
      simp only [if_true] at h
      simp only [Bool.false_eq_true, if_false]
      obtain ⟨h1, h2⟩ := findObj_some_iff.mp hp
      refine ⟨?_, pn, m, size, c, h1, h2, hk⟩
      by_cases hc : (!d.isTomb c && (d.timeOf c).cmp ts == Ordering.lt) = true
      · rw [if_pos hc] at h
        simp only [Bool.and_eq_true, Bool.not_eq_true'] at hc
        rw [if_pos hc.2]
        simp only [hc.1, Bool.false_eq_true, if_false]
        exact h
      · rw [if_neg hc] at h; cases h

theorem fresh_of_block {L : OpId} {d : Doc} (I : DInv L 0 d) {t t' : Ts} {ns : List DNode} (hb : Block t ns t')
    (he : t.era = L.era) (hl : t.lamport = L.lamport + 1) : Fresh d ns :=
  DP.fresh_of_newst (b' := t'.delim) I (fun c hc => by
    obtain ⟨a1, a2, a3, a4⟩ := DP.block_newst (L := L) hb he hl c hc
    exact ⟨a1, a2, Nat.zero_le _, a4⟩)

/-- a local put that succeeds is an applicable remote put with the same result -/
theorem put_local_remote {L : OpId} {d : Doc} (I : DInv L 0 d) {p : Ts} {k : String} {v : JVal} {d' : Doc}
    {old : Option Ts} (h : d.putInObject p k v L.next.ts = .ok (d', old)) :
    OpOK d (.put p k v L.next.ts) ∧ applyOp d (.put p k v L.next.ts) = d' := by
  refine ⟨?_, by simp only [applyOp, h]⟩
  unfold Doc.putInObject at h
  cases hp : d.findObj p with
  | none => rw [hp] at h; cases h
  | some x =>
    obtain ⟨pn, m, size⟩ := x
    rw [hp] at h
    simp only at h
    obtain ⟨h1, h2⟩ := findObj_some_iff.mp hp
    cases hc : createNode p L.next.ts v with
    | err e => rw [hc] at h; cases h
    | panic w => rw [hc] at h; cases h
    | ok y =>
      obtain ⟨ns, c, t'⟩ := y
      refine ⟨⟨pn, m, size, h1, h2⟩, ⟨ns, c, t', hc⟩, ?_⟩
      have hn : nodesOf (.put p k v L.next.ts) = ns := by simp only [nodesOf, hc]
      rw [hn]
      exact fresh_of_block I (createNode_spec p _ v _ hc).1 rfl rfl

/-- a local array insert that succeeds is the remote insert after the anchor it reports -/
theorem insert_local_remote {d : Doc} {p : Ts} {pos : Nat} {ts : Ts} {vs : List JVal} {d' : Doc} {a : Ts}
    (hnd : (slotIds d p).Nodup) (hnh : Ts.oldest ∉ slotIds d p) (hlt : ∀ o ∈ slotIds d p, o.cmp ts = .lt)
    (h : d.insertLocalInArray p pos ts vs = .ok (d', a)) :
    d.insertRemoteInArray p a ts vs = .ok d' ∧ (a = Ts.oldest ∨ a ∈ slotIds d p) := by
  unfold Doc.insertLocalInArray at h
  unfold Doc.insertRemoteInArray
  cases hp : d.findArr p with
  | none => rw [hp] at h; cases h
  | some x =>
    obtain ⟨pn, slots, size⟩ := x
    rw [hp] at h
    simp only at h ⊢
    have hsl : slotIds d p = slots.map (·.1) := by unfold slotIds; rw [slotsOf_of_findArr hp]
    rw [hsl] at hnd hnh hlt
    cases hc : createMany p ts vs with
    | err e => rw [hc] at h; cases h
    | panic w => rw [hc] at h; cases h
    | ok y =>
      obtain ⟨ns, cs, t'⟩ := y
      rw [hc] at h
      simp only at h ⊢
      obtain ⟨_, hcsk, _⟩ := createMany_ids_key hc
      have hgt : ∀ n ∈ cs.map (fun c => (c, c)), ∀ y ∈ slots, y.1.cmp n.1 ≠ .gt := by
        intro n hn y hy
        obtain ⟨c, hc', rfl⟩ := List.mem_map.mp hn
        rw [cmp_congr_key y.1 y.1 c ts rfl (hcsk c hc'), hlt y.1 (List.mem_map.mpr ⟨y, hy, rfl⟩)]
        decide
      cases pos with
      | zero =>
        simp only [if_true, insertAtLive] at h
        simp only [Outcome.ok.injEq, Prod.mk.injEq] at h
        obtain ⟨rfl, rfl⟩ := h
        rw [insertAfterId_oldest, skipInsMany_of_not_gt (fun (s : Ts × Ts) => s.1) _ _
          (fun n hn y hy => hgt n hn y (List.mem_of_mem_head? hy))]
        exact ⟨rfl, Or.inl rfl⟩
      | succ q =>
        simp only [Nat.add_one_ne_zero, if_false, Nat.add_sub_cancel] at h
        cases hx : nthLive (slotLive (d.addAll ns)) q slots with
        | none => rw [hx] at h; simp at h
        | some x =>
          rw [hx] at h
          cases hi : insertAtLive (slotLive (d.addAll ns)) (cs.map fun c => (c, c)) (q + 1) slots with
          | none => rw [hi] at h; simp at h
          | some sl =>
            rw [hi] at h
            simp only [Option.map_some, Outcome.ok.injEq, Prod.mk.injEq] at h
            obtain ⟨rfl, rfl⟩ := h
            have hxm := nthLive_mem _ slots q x hx
            have hne : x.1 ≠ Ts.oldest := fun e => hnh (e ▸ List.mem_map.mpr ⟨x, hxm, rfl⟩)
            rw [insertAfterId_ne (fun (s : Ts × Ts) => s.1) x.1 hne,
              insertAtLive_eq_go (fun (s : Ts × Ts) => s.1) _ _ slots q x sl hnd hgt hx hi]
            exact ⟨rfl, Or.inr (hsl ▸ List.mem_map.mpr ⟨x, hxm, rfl⟩)⟩

theorem find?_of_nodup {slots : List (Ts × Ts)} (hnd : (slots.map (·.1)).Nodup) {s : Ts × Ts} (hs : s ∈ slots) :
    slots.find? (fun x => x.1 = s.1) = some s := by
  induction slots with
  | nil => cases hs
  | cons y ys ih =>
    simp only [List.map_cons, List.nodup_cons] at hnd
    rcases List.mem_cons.mp hs with rfl | hs'
    · simp
    · have : y.1 ≠ s.1 := fun e => hnd.1 (e ▸ List.mem_map.mpr ⟨s, hs', rfl⟩)
      simp only [List.find?_cons, this, decide_false]
      exact ih hnd.2 hs'

theorem isTomb_makeTomb_ne (d : Doc) {x c : Ts} (t : Ts) (h : c ≠ x) : (d.makeTomb x t).isTomb c = d.isTomb c :=
  isTomb_of_find (by rw [find_makeTomb, if_neg h])

theorem findArr_foldTomb {p : Ts} {sl : List (Ts × Ts)} {sz : Int} : ∀ (l : List ((Ts × Ts) × Ts)) (d : Doc) (pn : DNode),
    d.findArr p = some (pn, sl, sz) → ∃ pn', (DP.foldTomb d l).findArr p = some (pn', sl, sz)
  | [], d, pn, h => ⟨pn, h⟩
  | x :: l, d, pn, h => by
    obtain ⟨pn1, h1⟩ := findArr_makeTomb (x := x.1.2) (t := x.2) h
    exact findArr_foldTomb l _ pn1 h1

/-- the remote delete loop over the slots the local delete has chosen: every target is found and live -/
theorem del_go_live (slots : List (Ts × Ts)) : ∀ (live : List (Ts × Ts)) (t : Ts) (D : Doc) (k : Int),
    (∀ s ∈ live, slots.find? (fun x => x.1 = s.1) = some s) → (live.map (·.2)).Nodup →
    (∀ s ∈ live, D.isTomb s.2 = false) →
    Doc.deleteRemoteInArray.go slots (live.map (·.1)) t D k =
      (DP.foldTomb D (live.zip (delimSeq t live.length)), k + live.length)
  | [], t, D, k, _, _, _ => by simp [Doc.deleteRemoteInArray.go, DP.foldTomb]
  | s :: rest, t, D, k, hf, hnd, hl => by
    simp only [List.map_cons, List.nodup_cons] at hnd
    have hs := hf s (by simp)
    have hls := hl s (by simp)
    simp only [List.map_cons, Doc.deleteRemoteInArray.go, hs, hls, Bool.not_false, if_true, List.length_cons,
      delimSeq, List.zip_cons_cons]
    rw [del_go_live slots rest t.nextDelim (D.makeTomb s.2 t) (k + 1) (fun s' hs' => hf s' (by simp [hs'])) hnd.2
      (fun s' hs' => by
        rw [isTomb_makeTomb_ne]
        · exact hl s' (by simp [hs'])
        · intro e; exact hnd.1 (e ▸ List.mem_map.mpr ⟨s', hs', rfl⟩))]
    simp only [DP.foldTomb, List.foldl_cons, Prod.mk.injEq, true_and]
    push_cast; omega

/-- a local array delete that succeeds is the remote delete of the targets it reports -/
theorem delete_local_remote {d : Doc} {p : Ts} {pos num : Nat} {ts : Ts} {d' : Doc} {tgs olds : List Ts}
    (hnd : (slotIds d p).Nodup) (hkn : ((slotsOf d p).map (·.2)).Nodup)
    (h : d.deleteLocalInArray p pos num ts = .ok (d', tgs, olds)) :
    d.deleteRemoteInArray p tgs ts = .ok d' ∧ (∀ tg ∈ tgs, tg ∈ slotIds d p) ∧ tgs.Nodup := by
  unfold Doc.deleteLocalInArray at h
  unfold Doc.deleteRemoteInArray
  cases hp : d.findArr p with
  | none => rw [hp] at h; cases h
  | some x =>
    obtain ⟨pn, slots, size⟩ := x
    rw [hp] at h
    simp only at h ⊢
    have hsl : slotsOf d p = slots := slotsOf_of_findArr hp
    unfold slotIds at hnd ⊢
    rw [hsl] at hnd hkn ⊢
    generalize hlive : ((slots.filter (slotLive d)).drop pos).take num = live at h
    have hsub : live.Sublist slots := by
      rw [← hlive]
      exact ((List.take_sublist _ _).trans (List.drop_sublist _ _)).trans List.filter_sublist
    have hmem : ∀ s ∈ live, s ∈ slots := fun s hs => hsub.subset hs
    have hlv : ∀ s ∈ live, d.isTomb s.2 = false := by
      intro s hs
      have : s ∈ slots.filter (slotLive d) := by
        rw [← hlive] at hs
        exact (List.drop_sublist _ _).subset ((List.take_sublist _ _).subset hs)
      have := (List.mem_filter.mp this).2
      simpa [slotLive] using this
    by_cases hlen : live.length < num
    · rw [if_pos hlen] at h; cases h
    · rw [if_neg hlen] at h
      have hlen' : live.length = num := by
        have : live.length ≤ num := by rw [← hlive]; exact List.length_take_le _ _
        omega
      have hgo := del_go_live slots live ts d 0 (fun s hs => find?_of_nodup hnd (hmem s hs))
        (List.Nodup.sublist (hsub.map _) hkn) hlv
      rw [hlen'] at hgo
      obtain ⟨pn', hp'⟩ := findArr_foldTomb (live.zip (delimSeq ts num)) d pn hp
      have hfind' := (findArr_some_iff.mp hp').1
      have e : (List.foldl (fun acc (x : (Ts × Ts) × Ts) => acc.makeTomb x.1.2 x.2) d (live.zip (delimSeq ts num))) =
          DP.foldTomb d (live.zip (delimSeq ts num)) := rfl
      have h' : Outcome.ok ((DP.foldTomb d (live.zip (delimSeq ts num))).set { pn' with kind := .arr slots (size - num) },
          live.map (·.1), live.map (·.2)) = Outcome.ok (d', tgs, olds) := by
        rw [← h]
        show _ = (match (List.foldl (fun acc (x : (Ts × Ts) × Ts) => acc.makeTomb x.1.2 x.2) d
          (live.zip (delimSeq ts num))).find p with
          | some pn' => _
          | none => _)
        rw [e, hfind']
      simp only [Outcome.ok.injEq, Prod.mk.injEq] at h'
      obtain ⟨rfl, rfl, rfl⟩ := h'
      refine ⟨?_, ?_, ?_⟩
      · rw [hgo]
        simp only [hp']
        congr 3
        simp
      · intro tg htg
        obtain ⟨s, hs, rfl⟩ := List.mem_map.mp htg
        exact List.mem_map.mpr ⟨s, hmem s hs, rfl⟩
      · exact List.Nodup.sublist (hsub.map _) hnd

/-- what the update loops need to know about the slots still to be updated, in the running document -/
structure UInv (p : Ts) (T : Ts) (D : Doc) (ss : List (Ts × Ts)) : Prop where
  slot : ∀ pn sl size, D.findArr p = some (pn, sl, size) → ∀ s ∈ ss, sl.find? (fun x => x.1 = s.1) = some s
  live : ∀ s ∈ ss, D.isTomb s.2 = false ∧ (D.timeOf s.2).cmp T = .lt
  nd1 : (ss.map (·.1)).Nodup
  nd2 : (ss.map (·.2)).Nodup
  away : ∀ s ∈ ss, s.2.key ≠ T.key ∧ s.2 ≠ p
  pkey : p.key ≠ T.key

/-- one step of the update leaves the entries of the other children alone -/
theorem upd_step_find {D : Doc} {p : Ts} {pn : DNode} {ns : List DNode} {K : DKind} {x newC c : Ts}
    (hpn : pn.c = p) (h1 : c ≠ x) (h2 : c ≠ p) (h3 : c ∉ ids ns) :
    ((((D.addAll ns).set { pn with kind := K }).funeral x newC).find c) = D.find c := by
  rw [find_funeral, if_neg h1, find_set]
  have : ¬ pn.c = c := by rw [hpn]; exact fun e => h2 e.symm
  simp only [this, if_false]
  exact find_addAll_not_mem h3

theorem upd_local_remote_go (p T : Ts) : ∀ (ss : List (Ts × Ts)) (vs : List JVal) (t : Ts) (D d' : Doc),
    UInv p T D ss → t.key = T.key → ss.length ≤ vs.length →
    Doc.updateLocalInArray.go p ss vs t D = .ok d' →
    Doc.updateRemoteInArray.go p (ss.map (·.1)) vs t D = .ok d'
  | [], vs, t, D, d', _, _, _, h => by
    rw [Doc.updateLocalInArray.go] at h
    simpa [Doc.updateRemoteInArray.go] using h
  | s :: ss, [], t, D, d', _, _, hl, _ => by simp at hl
  | s :: ss, v :: vs, t, D, d', I, ht, hl, h => by
    simp only [Doc.updateLocalInArray.go] at h
    simp only [List.map_cons, Doc.updateRemoteInArray.go]
    cases hc : createNode p t v with
    | err e => rw [hc] at h; cases h
    | panic w => rw [hc] at h; cases h
    | ok y =>
      obtain ⟨ns, newC, t'⟩ := y
      rw [hc] at h
      simp only at h ⊢
      obtain ⟨hkeys, hk'⟩ := createNode_ids_key hc
      have hroot := createNode_root hc
      subst hroot
      have hnk : ∀ c, c.key ≠ T.key → c ∉ ids ns := fun c hcne hm => hcne ((hkeys c hm).trans ht)
      have hpn : p ∉ ids ns := hnk p I.pkey
      have hfa : (D.addAll ns).findArr p = D.findArr p := findArr_congr (find_addAll_not_mem hpn)
      cases hp : (D.addAll ns).findArr p with
      | none => rw [hp] at h; cases h
      | some z =>
        obtain ⟨pn, sl, size⟩ := z
        rw [hp] at h
        simp only at h ⊢
        have hpD : D.findArr p = some (pn, sl, size) := by rw [← hfa]; exact hp
        have hs := I.slot pn sl size hpD s (by simp)
        obtain ⟨hlv, hlt⟩ := I.live s (by simp)
        obtain ⟨hsk, hsp⟩ := I.away s (by simp)
        have hsn : s.2 ∉ ids ns := hnk s.2 hsk
        have hcond : (!(D.addAll ns).isTomb s.2 && ((D.addAll ns).timeOf s.2).cmp newC == Ordering.lt) = true := by
          rw [isTomb_addAll_old hsn, timeOf_addAll_old hsn, hlv,
            cmp_congr_key (D.timeOf s.2) (D.timeOf s.2) newC T rfl ht, hlt]
          rfl
        rw [hs]
        simp only [hcond, if_true]
        have hpnc : pn.c = p := find_some_c (findArr_some_iff.mp hp).1
        have hnd1 := I.nd1
        have hnd2 := I.nd2
        simp only [List.map_cons, List.nodup_cons] at hnd1 hnd2
        have hsame : ∀ s' ∈ ss, ((((D.addAll ns).set { pn with kind := .arr (setSlotChild s.1 newC sl) size }).funeral s.2 newC).find s'.2)
            = D.find s'.2 := by
          intro s' hs'
          apply upd_step_find hpnc
          · intro e; exact hnd2.1 (e ▸ List.mem_map.mpr ⟨s', hs', rfl⟩)
          · exact (I.away s' (by simp [hs'])).2
          · exact hnk _ (I.away s' (by simp [hs'])).1
        apply upd_local_remote_go p T ss vs t' _ d' ?_ (hk'.trans ht) (by simpa using hl) h
        refine ⟨?_, ?_, hnd1.2, hnd2.2, fun s' hs' => I.away s' (by simp [hs']), I.pkey⟩
        · intro pn2 sl2 size2 hp2 s' hs'
          obtain ⟨hf2, hk2⟩ := findArr_some_iff.mp hp2
          rw [find_funeral, if_neg (fun e => hsp e.symm), find_set, hpnc] at hf2
          simp only [if_true, Option.some.injEq] at hf2
          subst hf2
          simp only [DKind.arr.injEq] at hk2
          rw [← hk2.1, find?_setSlotChild_ne]
          · exact I.slot pn sl size hpD s' (by simp [hs'])
          · intro e; exact hnd1.1 (e ▸ List.mem_map.mpr ⟨s', hs', rfl⟩)
        · intro s' hs'
          obtain ⟨a1, a2⟩ := I.live s' (by simp [hs'])
          rw [isTomb_of_find (hsame s' hs'), timeOf_of_find (hsame s' hs')]
          exact ⟨a1, a2⟩


/-! ## 3. applicability of the single-target operations -/


/-! ### the single-target operations of a local delete / update are applicable -/

theorem noIns_ordOK (d : Doc) (l : List EOp) (h : ∀ e ∈ l, ∀ p, insOnE p e = none) : OrdOK d l := by
  intro p ⟨e, he, hi⟩
  rw [h e he p] at hi
  cases hi

theorem flatDel_mem {p : Ts} : ∀ {tgs : List Ts} {t : Ts} {e : EOp}, e ∈ flatDel p tgs t →
    ∃ tg t1, tg ∈ tgs ∧ e = .del1 p tg t1
  | [], _, _, h => by simp [flatDel] at h
  | tg :: tgs, t, e, h => by
    simp only [flatDel, List.mem_cons] at h
    rcases h with rfl | h
    · exact ⟨tg, t, by simp, rfl⟩
    · obtain ⟨tg', t1, h1, h2⟩ := flatDel_mem h
      exact ⟨tg', t1, by simp [h1], h2⟩

theorem flatDel_pairwise (p : Ts) : ∀ (tgs : List Ts) (t : Ts), tgs.Nodup → (flatDel p tgs t).Pairwise Compat
  | [], _, _ => by simp [flatDel]
  | tg :: tgs, t, hnd => by
    simp only [List.nodup_cons] at hnd
    simp only [flatDel, List.pairwise_cons]
    refine ⟨?_, flatDel_pairwise p tgs _ hnd.2⟩
    intro e he
    obtain ⟨tg', t1, h1, rfl⟩ := flatDel_mem he
    refine ⟨fun c hc _ => by simp [nodesE, ids] at hc, ?_⟩
    intro _ htg
    simp only [EOp.tgt, Option.some.injEq] at htg
    exact absurd (htg ▸ h1) hnd.1

/-- the targets a local delete reports make an applicable remote delete -/
theorem goodE_flatDel {d : Doc} (hwf : d.WF) {p : Ts} (harr : IsArr d p) {tgs : List Ts} (t : Ts)
    (hmem : ∀ tg ∈ tgs, tg ∈ slotIds d p) (hnd : tgs.Nodup) : GoodE d (flatDel p tgs t) := by
  refine ⟨hwf, ?_, flatDel_pairwise p tgs t hnd, noIns_ordOK d _ ?_⟩
  · intro e he
    obtain ⟨tg, t1, h1, rfl⟩ := flatDel_mem he
    exact ⟨harr, hmem tg h1⟩
  · intro e he q
    obtain ⟨tg, t1, h1, rfl⟩ := flatDel_mem he
    rfl

/-- the timestamps of the values of a batch: same era / clock / client, delimiters not below the start -/
def After (t t1 : Ts) : Prop := t1.era = t.era ∧ t1.lamport = t.lamport ∧ t1.cuid = t.cuid ∧ t.delim ≤ t1.delim

theorem flatUpd_mem {p : Ts} : ∀ {tgs : List Ts} {vs : List JVal} {t : Ts} {e : EOp}, JVal.hasNullList vs = false →
    e ∈ flatUpd p tgs vs t → ∃ tg v t1, tg ∈ tgs ∧ v.hasNull = false ∧ After t t1 ∧ e = .upd1 p tg t1 v
  | [], _, _, _, _, h => by simp [flatUpd] at h
  | _ :: _, [], _, _, _, h => by simp [flatUpd] at h
  | tg :: tgs, v :: vs, t, e, hn, h => by
    simp only [JVal.hasNullList, Bool.or_eq_false_iff] at hn
    simp only [flatUpd, List.mem_cons] at h
    rcases h with rfl | h
    · exact ⟨tg, v, t, by simp, hn.1, ⟨rfl, rfl, rfl, Nat.le_refl _⟩, rfl⟩
    · obtain ⟨tg', v', t1, h1, h2, h3, h4⟩ := flatUpd_mem hn.2 h
      refine ⟨tg', v', t1, by simp [h1], h2, ?_, h4⟩
      obtain ⟨⟨ns, c, t'⟩, hc⟩ := DP.createNode_ok p t v hn.1
      rw [hc] at h3
      simp only at h3
      obtain ⟨_, _, _, ht', _⟩ := createNode_ids hc
      obtain ⟨a1, a2, a3, a4⟩ := h3
      rw [ht'] at a1 a2 a3 a4
      simp only [addDelim] at a1 a2 a3 a4
      exact ⟨a1, a2, a3, by omega⟩

theorem nodesE_upd1_delim {p tg t : Ts} {v : JVal} {c : Ts} (h : c ∈ ids (nodesE (.upd1 p tg t v))) :
    t.delim ≤ c.delim ∧ ∀ ns c0 t', createNode p t v = .ok (ns, c0, t') → c.delim < t'.delim := by
  simp only [nodesE] at h
  cases hc : createNode p t v with
  | err e => rw [hc] at h; simp [ids] at h
  | panic w => rw [hc] at h; simp [ids] at h
  | ok y =>
    obtain ⟨ns, c0, t'⟩ := y
    rw [hc] at h
    simp only at h
    have hb := (createNode_spec p t v _ hc).1
    obtain ⟨a1, a2, _⟩ := block_delim hb h
    refine ⟨a1, ?_⟩
    intro ns' c0' t'' he
    simp only [Outcome.ok.injEq, Prod.mk.injEq] at he
    obtain ⟨rfl, rfl, rfl⟩ := he
    exact a2

theorem flatUpd_pairwise (p : Ts) : ∀ (tgs : List Ts) (vs : List JVal) (t : Ts), tgs.Nodup →
    JVal.hasNullList vs = false → (flatUpd p tgs vs t).Pairwise Compat
  | [], _, _, _, _ => by simp [flatUpd]
  | _ :: _, [], _, _, _ => by simp [flatUpd]
  | tg :: tgs, v :: vs, t, hnd, hn => by
    simp only [List.nodup_cons] at hnd
    simp only [JVal.hasNullList, Bool.or_eq_false_iff] at hn
    simp only [flatUpd, List.pairwise_cons]
    refine ⟨?_, flatUpd_pairwise p tgs vs _ hnd.2 hn.2⟩
    intro e he
    obtain ⟨tg', v', t1, h1, h2, h3, rfl⟩ := flatUpd_mem hn.2 he
    obtain ⟨⟨ns, c, t'⟩, hc⟩ := DP.createNode_ok p t v hn.1
    rw [hc] at h3
    simp only at h3
    refine ⟨?_, ?_⟩
    · intro x hx1 hx2
      have a := (nodesE_upd1_delim hx1).2 ns c t' hc
      have b := (nodesE_upd1_delim hx2).1
      have := h3.2.2.2
      omega
    · intro _ htg
      simp only [EOp.tgt, Option.some.injEq] at htg
      exact absurd (htg ▸ h1) hnd.1

/-- the targets a local update reports make an applicable remote update -/
theorem goodE_flatUpd {L : OpId} {d : Doc} (I : DInv L 0 d) {p : Ts} (harr : IsArr d p) {tgs : List Ts} {vs : List JVal}
    (hmem : ∀ tg ∈ tgs, tg ∈ slotIds d p) (hnd : tgs.Nodup) (hn : JVal.hasNullList vs = false) :
    GoodE d (flatUpd p tgs vs L.next.ts) := by
  refine ⟨I.wf, ?_, flatUpd_pairwise p tgs vs _ hnd hn, noIns_ordOK d _ ?_⟩
  · intro e he
    obtain ⟨tg, v, t1, h1, h2, h3, rfl⟩ := flatUpd_mem hn he
    obtain ⟨⟨ns, c, t'⟩, hc⟩ := DP.createNode_ok p t1 v h2
    refine ⟨harr, ⟨ns, c, t', hc⟩, ?_, hmem tg h1⟩
    have : nodesE (.upd1 p tg t1 v) = ns := by simp only [nodesE, hc]
    rw [this]
    exact fresh_of_block I (createNode_spec p t1 v _ hc).1 h3.1 h3.2.1
  · intro e he q
    obtain ⟨tg, v, t1, h1, h2, h3, rfl⟩ := flatUpd_mem hn he
    rfl


/-! ## 4. histories -/


/-! ### causal insertion histories of the arrays -/

/-- the slot order of the array `p` was produced by a causal history of inserts -/
def ArrHist (d : Doc) (p : Ts) : Prop := ∃ M0, slotIds d p = foldIds [] M0 ∧ ACausal M0

/-- every array of the document has a causal insertion history (what `DP.DInv` does not record) -/
def HistOK (d : Doc) : Prop := ∀ p, IsArr d p → ArrHist d p

theorem foldIds_snoc (M : List AIns) (o : AIns) :
    foldIds [] (M ++ [o]) = stepIds (foldIds [] M) o.anchor o.cs := by
  rw [foldIds_append]; rfl

theorem getElem_snoc_last {α : Type} (M : List α) (o : α) (h : M.length < (M ++ [o]).length) :
    (M ++ [o])[M.length]'h = o := by
  simp

/-- a causal history leaves exactly its batch identifiers in the array -/
theorem foldIds_mem_iff : ∀ (M : List AIns), ACausal M → ∀ x, x ∈ foldIds [] M ↔ ∃ o ∈ M, x ∈ o.cs := by
  intro M
  induction M using List.reverseRecOn with
  | nil => intro _ x; simp [foldIds]
  | append_singleton M o ih =>
    intro hc x
    have ih' := ih hc.prefix
    rw [foldIds_snoc]
    have hanch : o.anchor = Ts.oldest ∨ o.anchor ∈ (foldIds [] M).map id := by
      have hlen : M.length < (M ++ [o]).length := by simp
      rcases hc.anchored M.length hlen with h | ⟨j, hj, h1, _⟩
      · left; rw [getElem_snoc_last] at h; exact h
      · right
        rw [getElem_snoc_last] at h1
        rw [List.getElem_append_left hj] at h1
        rw [List.map_id]
        exact (ih' _).mpr ⟨M[j], List.getElem_mem _, h1⟩
    have hs := insertAfterId_isSome id o.anchor o.cs (foldIds [] M) hanch
    unfold stepIds
    cases hi : insertAfterId id o.anchor o.cs (foldIds [] M) with
    | none => rw [hi] at hs; cases hs
    | some l' =>
      simp only [Option.getD_some]
      rw [(insertAfterId_perm id o.anchor o.cs _ l' hi).mem_iff, List.mem_append, ih' x]
      constructor
      · rintro (h | ⟨o', ho', h⟩)
        · exact ⟨o, by simp, h⟩
        · exact ⟨o', by simp [ho'], h⟩
      · rintro ⟨o', ho', h⟩
        rcases List.mem_append.mp ho' with h' | h'
        · exact Or.inr ⟨o', h', h⟩
        · simp only [List.mem_singleton] at h'
          subst h'
          exact Or.inl h

theorem ts0_key_of_mem {o : AIns} {k : Nat × Nat × String} (hne : o.cs ≠ []) (h : ∀ x ∈ o.cs, x.key = k) :
    o.ts0.key = k := by
  cases hcs : o.cs with
  | nil => exact absurd hcs hne
  | cons y ys =>
    have := h y (by rw [hcs]; simp)
    simpa [AIns.ts0, hcs, Ts.key] using this

theorem next_key_ne_of_st {L : OpId} {t : Ts} (h : St L 0 t) : t.key ≠ L.next.ts.key := by
  intro e
  simp only [Ts.key, DP.next_ts, Prod.mk.injEq] at e
  have := h.2
  omega

theorem next_key_ne_oldest (L : OpId) : L.next.ts.key ≠ Ts.oldest.key := by
  intro e
  simp only [Ts.key, DP.next_ts, Ts.oldest, Prod.mk.injEq] at e
  omega

/-- a history stays causal when the replica appends a batch of its own, stamped with its next timestamp, after the
    head or after a slot of the array -/
theorem hist_extend {L : OpId} {d : Doc} {p : Ts} {M0 : List AIns} (hb : slotIds d p = foldIds [] M0) (hc : ACausal M0)
    (hst : ∀ o ∈ slotIds d p, St L 0 o) {a : Ts} {cs : List Ts} (ha : a = Ts.oldest ∨ a ∈ slotIds d p)
    (hne : cs ≠ []) (hnd : cs.Nodup) (hk : ∀ x ∈ cs, x.key = L.next.ts.key) : ACausal (M0 ++ [⟨a, cs⟩]) := by
  have hmem := foldIds_mem_iff M0 hc
  have hnewkey : (AIns.mk a cs).ts0.key = L.next.ts.key := ts0_key_of_mem hne hk
  have holdkey : ∀ o ∈ M0, ∃ y ∈ slotIds d p, o.ts0.key = y.key := by
    intro o ho
    cases hcs : o.cs with
    | nil => exact absurd hcs (hc.nonempty o ho)
    | cons y ys =>
      have hy : y ∈ o.cs := by rw [hcs]; simp
      exact ⟨y, by rw [hb]; exact (hmem y).mpr ⟨o, ho, hy⟩, (hc.samekey o ho y hy).symm⟩
  refine ⟨?_, ?_, ?_, ?_, ?_, ?_⟩
  · intro o ho
    rcases List.mem_append.mp ho with h | h
    · exact hc.nonempty o h
    · simp only [List.mem_singleton] at h; subst h; exact hne
  · intro o ho x hx
    rcases List.mem_append.mp ho with h | h
    · exact hc.samekey o h x hx
    · simp only [List.mem_singleton] at h; subst h
      rw [hnewkey]; exact hk x hx
  · intro o ho
    rcases List.mem_append.mp ho with h | h
    · exact hc.nodup o h
    · simp only [List.mem_singleton] at h; subst h; exact hnd
  · intro o ho
    rcases List.mem_append.mp ho with h | h
    · exact hc.notHead o h
    · simp only [List.mem_singleton] at h; subst h
      rw [hnewkey]; exact next_key_ne_oldest L
  · rw [List.pairwise_append]
    refine ⟨hc.distinct, by simp, ?_⟩
    intro o ho o' ho'
    simp only [List.mem_singleton] at ho'
    subst ho'
    obtain ⟨y, hy, hyk⟩ := holdkey o ho
    rw [hyk, hnewkey]
    exact next_key_ne_of_st (hst y hy)
  · intro i hi
    by_cases hlt : i < M0.length
    · rcases hc.anchored i hlt with h | ⟨j, hj, h1, h2⟩
      · left; rw [List.getElem_append_left hlt]; exact h
      · right
        have hjl : j < M0.length := by omega
        refine ⟨j, hj, ?_, ?_⟩
        · rw [List.getElem_append_left hlt, List.getElem_append_left hjl]; exact h1
        · rw [List.getElem_append_left hlt, List.getElem_append_left hjl]; exact h2
    · have hi' : i = M0.length := by simp at hi; omega
      subst hi'
      rw [getElem_snoc_last]
      rcases ha with h | h
      · exact Or.inl h
      · right
        rw [hb] at h
        obtain ⟨o, ho, hao⟩ := (hmem a).mp h
        obtain ⟨j, hj, rfl⟩ := List.getElem_of_mem ho
        refine ⟨j, hj, ?_, ?_⟩
        · rw [List.getElem_append_left hj]; exact hao
        · rw [List.getElem_append_left hj]
          have hak : (M0[j]).ts0.key = a.key := (hc.samekey _ ho a hao).symm
          rw [cmp_congr_key _ a _ L.next.ts hak hnewkey]
          exact DP.cmp_lt_of_st (hst a (by rw [hb]; exact h))

/-- no slot of an array with a causal history carries the identity of the head -/
theorem hist_noHead {d : Doc} {p : Ts} (h : ArrHist d p) : Ts.oldest ∉ slotIds d p := by
  obtain ⟨M0, hb, hc⟩ := h
  intro hm
  rw [hb] at hm
  obtain ⟨o, ho, hx⟩ := (foldIds_mem_iff M0 hc _).mp hm
  exact hc.notHead o ho (hc.samekey o ho _ hx).symm

/-! ## 5. one call: the remote operation its wire form denotes -/

/-- facts about an array of a document with the invariant -/
theorem arr_facts {L : OpId} {d : Doc} (I : DInv L 0 d) {p : Ts} {pn : DNode} {slots : List (Ts × Ts)} {size : Int}
    (hp : d.findArr p = some (pn, slots, size)) :
    slotIds d p = slots.map (·.1) ∧ slotsOf d p = slots ∧ (slots.map (·.1)).Nodup ∧ (slots.map (·.2)).Nodup ∧
    (∀ o ∈ slots.map (·.1), St L 0 o) ∧
    (∀ s ∈ slots, ∃ n, d.find s.2 = some n ∧ St L 0 s.2 ∧ s.2 ≠ p) ∧ St L 0 p := by
  obtain ⟨h1, h2⟩ := findArr_some_iff.mp hp
  have hsl : slotsOf d p = slots := slotsOf_of_findArr hp
  have hkids : kids pn.kind = slots.map (·.2) := by rw [h2]; rfl
  refine ⟨by unfold slotIds; rw [hsl], hsl, ?_, ?_, ?_, ?_, ?_⟩
  · have := I.ordnd p pn h1; rwa [h2] at this
  · have := I.wf.inj p pn h1; rwa [hkids] at this
  · have := (I.stamps p pn h1).2.2; rwa [h2] at this
  · intro s hs
    have hk : s.2 ∈ kids pn.kind := by rw [hkids]; exact List.mem_map.mpr ⟨s, hs, rfl⟩
    obtain ⟨n, hn, _⟩ := I.wf.child p pn h1 s.2 hk
    refine ⟨n, hn, ?_, I.kid_ne h1 hk⟩
    have := (I.stamps s.2 n hn).1
    rwa [find_some_c hn] at this
  · have := (I.stamps p pn h1).1
    rwa [find_some_c h1] at this

/-- a local array update that succeeds is the remote update of the targets it reports -/
theorem update_local_remote {L : OpId} {d : Doc} (I : DInv L 0 d) {p : Ts} {pos : Nat} {vs : List JVal} {d' : Doc}
    {tgs olds : List Ts} (h : d.updateLocalInArray p pos L.next.ts vs = .ok (d', tgs, olds)) :
    d.updateRemoteInArray p L.next.ts tgs vs = .ok d' ∧ (∀ tg ∈ tgs, tg ∈ slotIds d p) ∧ tgs.Nodup ∧
      tgs.length ≤ vs.length := by
  unfold Doc.updateLocalInArray at h
  unfold Doc.updateRemoteInArray
  cases hp : d.findArr p with
  | none => rw [hp] at h; cases h
  | some x =>
    obtain ⟨pn, slots, size⟩ := x
    rw [hp] at h
    simp only at h ⊢
    obtain ⟨hids, hsl, hnd1, hnd2, host, hch, hpst⟩ := arr_facts I hp
    rw [hids]
    generalize hlive : ((slots.filter (slotLive d)).drop pos).take vs.length = live at h
    have hsub : live.Sublist slots := by
      rw [← hlive]
      exact ((List.take_sublist _ _).trans (List.drop_sublist _ _)).trans List.filter_sublist
    have hmem : ∀ s ∈ live, s ∈ slots := fun s hs => hsub.subset hs
    have hlv : ∀ s ∈ live, d.isTomb s.2 = false := by
      intro s hs
      have : s ∈ slots.filter (slotLive d) := by
        rw [← hlive] at hs
        exact (List.drop_sublist _ _).subset ((List.take_sublist _ _).subset hs)
      have := (List.mem_filter.mp this).2
      simpa [slotLive] using this
    have hle : live.length ≤ vs.length := by rw [← hlive]; exact List.length_take_le _ _
    by_cases hlen : live.length < vs.length
    · rw [if_pos hlen] at h; cases h
    · rw [if_neg hlen] at h
      cases hg : Doc.updateLocalInArray.go p live vs L.next.ts d with
      | err e => rw [hg] at h; cases h
      | panic w => rw [hg] at h; cases h
      | ok d1 =>
        rw [hg] at h
        simp only [Outcome.ok.injEq, Prod.mk.injEq] at h
        obtain ⟨rfl, rfl, rfl⟩ := h
        have hinv : UInv p L.next.ts d live := by
          refine ⟨?_, ?_, List.Nodup.sublist (hsub.map _) hnd1, List.Nodup.sublist (hsub.map _) hnd2, ?_,
            next_key_ne_of_st hpst⟩
          · intro pn2 sl2 size2 hp2 s hs
            rw [hp] at hp2
            simp only [Option.some.injEq, Prod.mk.injEq] at hp2
            obtain ⟨_, rfl, _⟩ := hp2
            exact find?_of_nodup hnd1 (hmem s hs)
          · intro s hs
            obtain ⟨n, hn, _, _⟩ := hch s (hmem s hs)
            exact ⟨hlv s hs, DP.timeOf_lt I hn⟩
          · intro s hs
            obtain ⟨n, hn, hst, hne⟩ := hch s (hmem s hs)
            exact ⟨next_key_ne_of_st hst, hne⟩
        refine ⟨upd_local_remote_go p L.next.ts live vs L.next.ts d d1 hinv rfl hle hg, ?_, ?_, ?_⟩
        · intro tg htg
          obtain ⟨s, hs, rfl⟩ := List.mem_map.mp htg
          exact List.mem_map.mpr ⟨s, hmem s hs, rfl⟩
        · exact List.Nodup.sublist (hsub.map _) hnd1
        · simpa using hle

/-! ### applicability without the history clause -/

/-- `GoodD d [x]` without the clause `OrdOK` (a causal insertion history of the array that receives an insert) -/
def GoodW (d : Doc) : DOp → Prop
  | .o y => d.WF ∧ OpOK d y
  | .a y => d.WF ∧ (∀ e ∈ flat y, EOK d e) ∧ (flat y).Pairwise Compat ∧ BatchOK y

theorem goodW_of_goodD {d : Doc} {x : DOp} (h : GoodD d [x]) : GoodW d x := by
  cases x with
  | o y => exact goodD_obj h
  | a y =>
    obtain ⟨hg, hb⟩ := goodD_arr h
    exact ⟨hg.1, hg.2.1, hg.2.2.1, hb⟩

/-- … and back, when the history clause is supplied -/
theorem goodD_of_goodW {d : Doc} {x : DOp} (h : GoodW d x) (ho : ∀ y, x = .a y → OrdOK d (flat y)) : GoodD d [x] := by
  cases x with
  | o y => exact goodD_single_obj h.1 h.2
  | a y => exact goodD_single_arr h.1 ⟨h.1, h.2.1, h.2.2.1, ho y rfl⟩ h.2.2.2

theorem flat_noIns {y : AOp} (hy : ∀ p a ts vs, y ≠ .ins p a ts vs) : ∀ e ∈ flat y, ∀ q, insOnE q e = none := by
  intro e he q
  cases y with
  | ins p a ts vs => exact absurd rfl (hy p a ts vs)
  | del p tgs t =>
    obtain ⟨tg, t1, _, rfl⟩ := flatDel_mem he
    rfl
  | upd p t tgs vs =>
    simp only [flat] at he
    cases e with
    | ins p' a' t' vs' =>
      exfalso
      clear hy
      induction tgs generalizing vs t with
      | nil => simp [flatUpd] at he
      | cons tg tgs ih =>
        cases vs with
        | nil => simp [flatUpd] at he
        | cons v vs =>
          simp only [flatUpd, List.mem_cons] at he
          rcases he with he | he
          · cases he
          · exact ih _ _ he
    | del1 _ _ _ => rfl
    | upd1 _ _ _ _ => rfl

/-- for everything but an insert the history clause is void -/
theorem goodD_of_goodW_noIns {d : Doc} {x : DOp} (h : GoodW d x) (hx : ∀ p a ts vs, x ≠ .a (.ins p a ts vs)) :
    GoodD d [x] :=
  goodD_of_goodW h (fun y hy => noIns_ordOK d _ (flat_noIns (fun p a ts vs e => hx p a ts vs (by rw [hy, e]))))

/-- executing the wire operation remotely IS applying the denoted operation — `OrdOK` is not needed for that -/
theorem execRemoteBase_is_applyD_weak (q : Replica) (d : Doc) (hq : q.state = .doc d) (o : Op) (x : DOp)
    (hx : toDOp o = some x) (hok : GoodW d x) :
    (q.execRemoteBase o).1.state = .doc (applyD d x) ∧ (q.execRemoteBase o).2 = none := by
  by_cases hins : ∃ p a ts vs, x = .a (.ins p a ts vs)
  · obtain ⟨p, a, ts, vs, rfl⟩ := hins
    have he : EOK d (.ins p a ts vs) := hok.2.1 _ (by simp [flat])
    obtain ⟨d', h1⟩ := execRemote_ins he
    obtain ⟨oid, body⟩ := o
    unfold toDOp at hx
    cases body <;> simp only [Option.some.injEq, reduceCtorEq] at hx
    case docInsert p' pos t' vs' =>
      cases t' with
      | none => simp at hx
      | some a' =>
        simp only [Option.some.injEq, DOp.a.injEq, AOp.ins.injEq] at hx
        obtain ⟨rfl, rfl, rfl, rfl⟩ := hx
        unfold Replica.execRemoteBase
        simp only [hq, execRemote, h1, applyD, applyA, and_self]
    case docDelete => cases hx
    case docUpdate => cases hx
  · exact execRemoteBase_is_applyD q d hq o x hx
      (goodD_of_goodW_noIns hok (fun p a ts vs e => hins ⟨p, a, ts, vs, e⟩))


/-- the anchor a local insert reports is the head or a slot of the array -/
theorem insert_local_anchor {d : Doc} {p : Ts} {pos : Nat} {ts : Ts} {vs : List JVal} {d' : Doc} {a : Ts}
    (h : d.insertLocalInArray p pos ts vs = .ok (d', a)) : a = Ts.oldest ∨ a ∈ slotIds d p := by
  unfold Doc.insertLocalInArray at h
  cases hp : d.findArr p with
  | none => rw [hp] at h; cases h
  | some x =>
    obtain ⟨pn, slots, size⟩ := x
    rw [hp] at h
    simp only at h
    have hsl : slotIds d p = slots.map (·.1) := by unfold slotIds; rw [slotsOf_of_findArr hp]
    cases hc : createMany p ts vs with
    | err e => rw [hc] at h; cases h
    | panic w => rw [hc] at h; cases h
    | ok y =>
      obtain ⟨ns, cs, t'⟩ := y
      rw [hc] at h
      simp only at h
      cases pos with
      | zero =>
        simp only [if_true, insertAtLive] at h
        simp only [Outcome.ok.injEq, Prod.mk.injEq] at h
        exact Or.inl h.2.symm
      | succ q =>
        simp only [Nat.add_one_ne_zero, if_false, Nat.add_sub_cancel] at h
        cases hx : nthLive (slotLive (d.addAll ns)) q slots with
        | none => rw [hx] at h; simp at h
        | some x =>
          rw [hx] at h
          cases hi : insertAtLive (slotLive (d.addAll ns)) (cs.map fun c => (c, c)) (q + 1) slots with
          | none => rw [hi] at h; simp at h
          | some sl =>
            rw [hi] at h
            simp only [Option.map_some, Outcome.ok.injEq, Prod.mk.injEq] at h
            right
            rw [hsl, ← h.2]
            exact List.mem_map.mpr ⟨x, nthLive_mem _ slots q x hx, rfl⟩

theorem isArr_of_insertLocal {d : Doc} {p : Ts} {pos : Nat} {ts : Ts} {vs : List JVal} {r : Doc × Ts}
    (h : d.insertLocalInArray p pos ts vs = .ok r) : IsArr d p := by
  unfold Doc.insertLocalInArray at h
  unfold IsArr
  cases hp : d.findArr p with
  | none => rw [hp] at h; cases h
  | some x => rfl

theorem isArr_of_deleteLocal {d : Doc} {p : Ts} {pos num : Nat} {ts : Ts} {r : Doc × List Ts × List Ts}
    (h : d.deleteLocalInArray p pos num ts = .ok r) : IsArr d p := by
  unfold Doc.deleteLocalInArray at h
  unfold IsArr
  cases hp : d.findArr p with
  | none => rw [hp] at h; cases h
  | some x => rfl

theorem isArr_of_updateLocal {d : Doc} {p : Ts} {pos : Nat} {ts : Ts} {vs : List JVal} {r : Doc × List Ts × List Ts}
    (h : d.updateLocalInArray p pos ts vs = .ok r) : IsArr d p := by
  unfold Doc.updateLocalInArray at h
  unfold IsArr
  cases hp : d.findArr p with
  | none => rw [hp] at h; cases h
  | some x => rfl

/-- the remote insert denoted by a local one is applicable (all of `EOK`) -/
theorem eok_of_insertLocal {L : OpId} {d : Doc} (I : DInv L 0 d) {p : Ts} {pos : Nat} {vs : List JVal} {d' : Doc} {a : Ts}
    (hn : JVal.hasNullList vs = false) (h : d.insertLocalInArray p pos L.next.ts vs = .ok (d', a)) :
    EOK d (.ins p a L.next.ts vs) := by
  have harr := isArr_of_insertLocal h
  obtain ⟨pn, slots, size, hp⟩ := isArr_iff.mp harr
  obtain ⟨hids, _, _, _, host, _, _⟩ := arr_facts I hp
  obtain ⟨⟨ns, cs, t'⟩, hc⟩ := DP.createArrItems_ok p L.next.ts vs hn
  have hc' : createMany p L.next.ts vs = .ok (ns, cs, t') := hc
  obtain ⟨hblock, _, _⟩ := createMany_block (p := p) hc
  obtain ⟨_, hcsk, _⟩ := createMany_ids_key hc'
  refine ⟨harr, ⟨ns, cs, t', hc'⟩, ?_, ?_, insert_local_anchor h⟩
  · have : nodesE (.ins p a L.next.ts vs) = ns := by simp only [nodesE, hc']
    rw [this]
    exact fresh_of_block I hblock rfl rfl
  · have : newSlots (.ins p a L.next.ts vs) = cs := by simp only [newSlots, hc']
    rw [this, hids]
    intro c hc1 hc2
    exact next_key_ne_of_st (host c hc2) (hcsk c hc1)

/-- no slot of the array that receives an insert carries the identity of the head -/
def NoHead (d : Doc) : DOp → Prop
  | .a (.ins p _ _ _) => Ts.oldest ∉ slotIds d p
  | _ => True

/-- the array that receives an insert has a causal insertion history, and the batch is not empty -/
def InsReady (d : Doc) : DOp → Prop
  | .a (.ins p _ _ vs) => ArrHist d p ∧ vs ≠ []
  | _ => True

theorem insReady_noHead {d : Doc} {x : DOp} (h : InsReady d x) : NoHead d x := by
  cases x with
  | o y => trivial
  | a y =>
    cases y with
    | ins p a ts vs => exact hist_noHead h.1
    | del p tgs ts => trivial
    | upd p ts tgs vs => trivial

/-- what the local execution of a prepared body is, in terms of the remote operation `x` its wire form denotes -/
structure Core (L : OpId) (d : Doc) (c : Call) (b' : OpBody) (s' : DState) (x : DOp) (d' : Doc) : Prop where
  st : s' = .doc d'
  den : toDOp (Op.wire ⟨L.next, b'⟩) = some x
  vals : ValuesOK x
  weak : GoodW d x
  eq : NoHead d x → applyD d x = d'
  good : InsReady d x → GoodD d [x]
  src : ∀ p a ts vs, x = .a (.ins p a ts vs) → ∃ pos : Int, c = .dinsert p pos vs

theorem ordOK_single_ins {L : OpId} {d : Doc} (I : DInv L 0 d) {p a : Ts} {vs : List JVal}
    (he : EOK d (.ins p a L.next.ts vs)) (hh : ArrHist d p) (hne : vs ≠ []) : OrdOK d [.ins p a L.next.ts vs] := by
  intro q ⟨e, he', hi⟩
  simp only [List.mem_singleton] at he'
  subst he'
  have hq : p = q := by
    simp only [insOnE] at hi
    by_contra hne'
    simp [hne'] at hi
  subst hq
  obtain ⟨M0, hb, hc⟩ := hh
  refine ⟨M0, hb, ?_⟩
  intro l' hl'
  simp only [List.filterMap_cons, List.filterMap_nil, insOnE, if_true] at hl'
  rw [List.perm_singleton.mp hl']
  obtain ⟨harr, ⟨ns, cs, t', hc'⟩, _, _, hanch⟩ := he
  obtain ⟨pn, slots, size, hp⟩ := isArr_iff.mp harr
  obtain ⟨hids, _, _, _, host, _, _⟩ := arr_facts I hp
  have hns : newSlots (.ins p a L.next.ts vs) = cs := by simp only [newSlots, hc']
  rw [hns]
  obtain ⟨_, hcsk, hcsnd⟩ := createMany_ids_key hc'
  have hlen := DP.createArrItems_len p vs _ _ _ _ hc'
  apply hist_extend hb hc (by rw [hids]; exact host) hanch ?_ hcsnd hcsk
  intro e
  rw [e] at hlen
  exact hne (List.length_eq_zero_iff.mp hlen.symm)

theorem exec_core {L : OpId} {d : Doc} (I : DInv L 0 d) {c : Call} {b : OpBody} {s' : DState} {b' : OpBody} {ret : Ret}
    (hp : Prepared d c b) (hk : DP.CallKeysND c) (he : execLocal (.doc d) L.next.ts b = .ok (s', b', ret)) :
    ∃ x d', Core L d c b' s' x d' := by
  cases hp with
  | put h k v hn =>
    simp only [execLocal] at he
    cases hput : d.putInObject h k v L.next.ts with
    | err e => rw [hput] at he; cases he
    | panic w => rw [hput] at he; cases he
    | ok y =>
      obtain ⟨d', old⟩ := y
      rw [hput] at he
      simp only [Outcome.ok.injEq, Prod.mk.injEq] at he
      obtain ⟨rfl, rfl, rfl⟩ := he
      obtain ⟨hok, heq⟩ := put_local_remote I hput
      exact ⟨.o (.put h k v L.next.ts), d', rfl, rfl, ⟨hn, hk⟩, ⟨I.wf, hok⟩, fun _ => heq,
        fun _ => goodD_single_obj I.wf hok, by intro p a ts vs e; cases e⟩
  | remove h k =>
    simp only [execLocal] at he
    cases hrm : d.deleteInObject h k L.next.ts true with
    | err e => rw [hrm] at he; cases he
    | panic w => rw [hrm] at he; cases he
    | ok y =>
      obtain ⟨d', old⟩ := y
      rw [hrm] at he
      simp only [Outcome.ok.injEq, Prod.mk.injEq] at he
      obtain ⟨rfl, rfl, rfl⟩ := he
      obtain ⟨hrem, hkey⟩ := remove_local_remote hrm
      have hok : OpOK d (.del h k L.next.ts) := hkey
      exact ⟨.o (.del h k L.next.ts), d', rfl, rfl, trivial, ⟨I.wf, hok⟩,
        fun _ => by simp only [applyD, applyOp, hrem], fun _ => goodD_single_obj I.wf hok,
        by intro p a ts vs e; cases e⟩
  | insert h pos vs hn =>
    simp only [execLocal] at he
    cases hins : d.insertLocalInArray h pos.toNat L.next.ts vs with
    | err e => rw [hins] at he; cases he
    | panic w => rw [hins] at he; cases he
    | ok y =>
      obtain ⟨d', a⟩ := y
      rw [hins] at he
      simp only [Outcome.ok.injEq, Prod.mk.injEq] at he
      obtain ⟨rfl, rfl, rfl⟩ := he
      have heok := eok_of_insertLocal I hn hins
      obtain ⟨pn, slots, size, hp⟩ := isArr_iff.mp heok.1
      obtain ⟨hids, _, hnd1, _, host, _, _⟩ := arr_facts I hp
      have hw : GoodW d (.a (.ins h a L.next.ts vs)) :=
        ⟨I.wf, by intro e he'; simp only [flat, List.mem_singleton] at he'; subst he'; exact heok,
          by simp [flat], trivial⟩
      refine ⟨.a (.ins h a L.next.ts vs), d', rfl, rfl, ⟨hn, hk⟩, hw, ?_, ?_, ?_⟩
      rotate_left 2
      · intro p a' ts vs' e
        simp only [DOp.a.injEq, AOp.ins.injEq] at e
        obtain ⟨rfl, _, _, rfl⟩ := e
        exact ⟨pos, rfl⟩
      · intro hnh
        have := (insert_local_remote (by rw [hids]; exact hnd1) hnh
          (fun o ho => DP.cmp_lt_of_st (host o (by rw [← hids]; exact ho))) hins).1
        simp only [applyD, applyA, this]
      · intro hr
        exact goodD_of_goodW hw (fun y hy => by
          simp only [DOp.a.injEq] at hy
          subst hy
          exact ordOK_single_ins I heok hr.1 hr.2)
  | delete h pos =>
    simp only [execLocal] at he
    cases hdel : d.deleteLocalInArray h pos.toNat 1 L.next.ts with
    | err e => rw [hdel] at he; cases he
    | panic w => rw [hdel] at he; cases he
    | ok y =>
      obtain ⟨d', tgs, olds⟩ := y
      rw [hdel] at he
      simp only [Outcome.ok.injEq, Prod.mk.injEq] at he
      obtain ⟨rfl, rfl, rfl⟩ := he
      have harr := isArr_of_deleteLocal hdel
      obtain ⟨pn, slots, size, hp⟩ := isArr_iff.mp harr
      obtain ⟨hids, hsl, hnd1, hnd2, _, _, _⟩ := arr_facts I hp
      obtain ⟨h1, h2, h3⟩ := delete_local_remote (by rw [hids]; exact hnd1) (by rw [hsl]; exact hnd2) hdel
      have hg := goodE_flatDel I.wf harr L.next.ts h2 h3
      have hw : GoodW d (.a (.del h tgs L.next.ts)) := ⟨I.wf, hg.2.1, hg.2.2.1, trivial⟩
      exact ⟨.a (.del h tgs L.next.ts), d', rfl, rfl, trivial, hw, fun _ => by simp only [applyD, applyA, h1],
        fun _ => goodD_of_goodW_noIns hw (by intro p a ts vs e; cases e), by intro p a ts vs e; cases e⟩
  | deleteMany h pos n =>
    simp only [execLocal] at he
    cases hdel : d.deleteLocalInArray h pos.toNat n.toNat L.next.ts with
    | err e => rw [hdel] at he; cases he
    | panic w => rw [hdel] at he; cases he
    | ok y =>
      obtain ⟨d', tgs, olds⟩ := y
      rw [hdel] at he
      simp only [Outcome.ok.injEq, Prod.mk.injEq] at he
      obtain ⟨rfl, rfl, rfl⟩ := he
      have harr := isArr_of_deleteLocal hdel
      obtain ⟨pn, slots, size, hp⟩ := isArr_iff.mp harr
      obtain ⟨hids, hsl, hnd1, hnd2, _, _, _⟩ := arr_facts I hp
      obtain ⟨h1, h2, h3⟩ := delete_local_remote (by rw [hids]; exact hnd1) (by rw [hsl]; exact hnd2) hdel
      have hg := goodE_flatDel I.wf harr L.next.ts h2 h3
      have hw : GoodW d (.a (.del h tgs L.next.ts)) := ⟨I.wf, hg.2.1, hg.2.2.1, trivial⟩
      exact ⟨.a (.del h tgs L.next.ts), d', rfl, rfl, trivial, hw, fun _ => by simp only [applyD, applyA, h1],
        fun _ => goodD_of_goodW_noIns hw (by intro p a ts vs e; cases e), by intro p a ts vs e; cases e⟩
  | update h pos vs hn hr =>
    simp only [execLocal] at he
    cases hupd : d.updateLocalInArray h pos.toNat L.next.ts vs with
    | err e => rw [hupd] at he; cases he
    | panic w => rw [hupd] at he; cases he
    | ok y =>
      obtain ⟨d', tgs, olds⟩ := y
      rw [hupd] at he
      simp only [Outcome.ok.injEq, Prod.mk.injEq] at he
      obtain ⟨rfl, rfl, rfl⟩ := he
      have harr := isArr_of_updateLocal hupd
      obtain ⟨h1, h2, h3, h4⟩ := update_local_remote I hupd
      have hg := goodE_flatUpd I harr h2 h3 hn
      have hw : GoodW d (.a (.upd h L.next.ts tgs vs)) := ⟨I.wf, hg.2.1, hg.2.2.1, h4⟩
      exact ⟨.a (.upd h L.next.ts tgs vs), d', rfl, rfl, ⟨hn, hk⟩, hw, fun _ => by simp only [applyD, applyA, h1],
        fun _ => goodD_of_goodW_noIns hw (by intro p a ts vs e; cases e), by intro p a ts vs e; cases e⟩

/-! ### the theorems for one call -/

/-- the common core: a successful mutating document call queues exactly one operation; it denotes a remote operation `x`
    that carries acceptable values, belongs to the replica's era and is applicable up to the history clause (`GoodW`);
    applying `x` to the state before the call gives EXACTLY the state after the call (no slot of a receiving array carries
    the head's identity), and `x` is fully applicable (`GoodD`) when the receiving array has a causal insertion history
    and the inserted batch is not empty -/
theorem local_call_core (r : Replica) (d : Doc) (hs : r.state = .doc d) (h : DP.DocInv r) (c : Call)
    (hk : DP.CallKeysND c) (hm : DP.isMutating c = true) (v : Ret) (hok : (r.call c).2 = .ok v) :
    ∃ (o : Op) (x : DOp) (d' : Doc),
      (r.call c).1.buffer = r.buffer ++ [o] ∧ o.id = r.opId.next ∧ (r.call c).1.state = .doc d' ∧
      toDOp o = some x ∧ ValuesOK x ∧ o.id.era = r.opId.era ∧ GoodW d x ∧
      (NoHead d x → applyD d x = d') ∧ (InsReady d x → GoodD d [x]) ∧
      (∀ p a ts vs, x = .a (.ins p a ts vs) → ∃ pos : Int, c = .dinsert p pos vs) := by
  obtain ⟨d0, hs0, I, hkeys⟩ := h
  rw [hs] at hs0
  simp only [DState.doc.injEq] at hs0
  subst hs0
  obtain ⟨b, s', b', ret, hp, he, hcall⟩ := call_ok_inv hs hm hok
  obtain ⟨x, d', hc⟩ := exec_core I hp hk he
  refine ⟨Op.wire ⟨r.opId.next, b'⟩, x, d', by rw [hcall], rfl, by rw [hcall]; exact hc.st, hc.den, hc.vals, rfl,
    hc.weak, hc.eq, hc.good, hc.src⟩

/-- **THE theorem, as far as it is true** (see `local_call_statement_false` for the statement as given).
    Extra hypotheses, both void for every call but `dinsert`: `hh` — the arrays of the document have causal insertion
    histories (`HistOK`; `DP.DInv` does not record them; invariant along `DR.Life`, see `histOK_life`); `hne` — the call
    does not insert an EMPTY batch (`GoodD`'s `ACausal` refuses empty batches).  Conclusion exactly as asked, with
    `applyD d x = d'` (plain equality) behind the `DocEq`. -/
theorem local_call_is_applicable_remote_op_partial (r : Replica) (d : Doc) (hs : r.state = .doc d) (h : DP.DocInv r)
    (c : Call) (hk : DP.CallKeysND c) (hm : DP.isMutating c = true) (v : Ret) (hok : (r.call c).2 = .ok v)
    (hh : HistOK d) (hne : ∀ hd pos, c ≠ .dinsert hd pos []) :
    ∃ (o : Op) (x : DOp) (d' : Doc),
      (r.call c).1.buffer = r.buffer ++ [o] ∧ o.id = r.opId.next ∧
      (r.call c).1.state = .doc d' ∧
      toDOp o = some x ∧ GoodD d [x] ∧ ValuesOK x ∧ o.id.era = r.opId.era ∧
      DocEq (applyD d x) d' := by
  obtain ⟨o, x, d', h1, h2, h3, h4, h5, h6, h7, h8, h9, h10⟩ := local_call_core r d hs h c hk hm v hok
  have hready : InsReady d x := by
    cases x with
    | o y => trivial
    | a y =>
      cases y with
      | ins p a ts vs =>
        obtain ⟨pos, rfl⟩ := h10 p a ts vs rfl
        have he : EOK d (.ins p a ts vs) := h7.2.1 _ (by simp [flat])
        exact ⟨hh p he.1, fun e => hne p pos (by rw [e])⟩
      | del p tgs ts => trivial
      | upd p ts tgs vs => trivial
  exact ⟨o, x, d', h1, h2, h3, h4, h9 hready, h5, h6, by rw [h8 (insReady_noHead hready)]; exact docEq_refl _⟩

/-- the same with plain equality of the documents -/
theorem local_call_is_applicable_remote_op_eq (r : Replica) (d : Doc) (hs : r.state = .doc d) (h : DP.DocInv r)
    (c : Call) (hk : DP.CallKeysND c) (hm : DP.isMutating c = true) (v : Ret) (hok : (r.call c).2 = .ok v)
    (hh : HistOK d) (hne : ∀ hd pos, c ≠ .dinsert hd pos []) :
    ∃ (o : Op) (x : DOp),
      (r.call c).1.buffer = r.buffer ++ [o] ∧ o.id = r.opId.next ∧
      (r.call c).1.state = .doc (applyD d x) ∧
      toDOp o = some x ∧ GoodD d [x] ∧ ValuesOK x ∧ o.id.era = r.opId.era := by
  obtain ⟨o, x, d', h1, h2, h3, h4, h5, h6, h7, h8, h9, h10⟩ := local_call_core r d hs h c hk hm v hok
  have hready : InsReady d x := by
    cases x with
    | o y => trivial
    | a y =>
      cases y with
      | ins p a ts vs =>
        obtain ⟨pos, rfl⟩ := h10 p a ts vs rfl
        have he : EOK d (.ins p a ts vs) := h7.2.1 _ (by simp [flat])
        exact ⟨hh p he.1, fun e => hne p pos (by rw [e])⟩
      | del p tgs ts => trivial
      | upd p ts tgs vs => trivial
  exact ⟨o, x, h1, h2, by rw [h8 (insReady_noHead hready)]; exact h3, h4, h9 hready, h5, h6⟩

/-- every call but `dinsert`: the statement exactly as given holds -/
theorem local_call_is_applicable_remote_op_noInsert (r : Replica) (d : Doc) (hs : r.state = .doc d) (h : DP.DocInv r)
    (c : Call) (hk : DP.CallKeysND c) (hm : DP.isMutating c = true) (v : Ret) (hok : (r.call c).2 = .ok v)
    (hni : ∀ hd pos vs, c ≠ .dinsert hd pos vs) :
    ∃ (o : Op) (x : DOp) (d' : Doc),
      (r.call c).1.buffer = r.buffer ++ [o] ∧ o.id = r.opId.next ∧
      (r.call c).1.state = .doc d' ∧
      toDOp o = some x ∧ GoodD d [x] ∧ ValuesOK x ∧ o.id.era = r.opId.era ∧
      DocEq (applyD d x) d' := by
  obtain ⟨o, x, d', h1, h2, h3, h4, h5, h6, h7, h8, h9, h10⟩ := local_call_core r d hs h c hk hm v hok
  have hready : InsReady d x := by
    cases x with
    | o y => trivial
    | a y =>
      cases y with
      | ins p a ts vs =>
        obtain ⟨pos, rfl⟩ := h10 p a ts vs rfl
        exact absurd rfl (hni p pos vs)
      | del p tgs ts => trivial
      | upd p ts tgs vs => trivial
  exact ⟨o, x, d', h1, h2, h3, h4, h9 hready, h5, h6, by rw [h8 (insReady_noHead hready)]; exact docEq_refl _⟩

/-- the weakest form: NO extra hypothesis on the history, `GoodD` replaced by `GoodW` (= `GoodD` without `OrdOK`;
    `goodD_of_goodW` gives `GoodD` back from `OrdOK`), equality of the documents under `NoHead` -/
theorem local_call_is_applicable_remote_op_weak (r : Replica) (d : Doc) (hs : r.state = .doc d) (h : DP.DocInv r)
    (c : Call) (hk : DP.CallKeysND c) (hm : DP.isMutating c = true) (v : Ret) (hok : (r.call c).2 = .ok v) :
    ∃ (o : Op) (x : DOp) (d' : Doc),
      (r.call c).1.buffer = r.buffer ++ [o] ∧ o.id = r.opId.next ∧
      (r.call c).1.state = .doc d' ∧
      toDOp o = some x ∧ GoodW d x ∧ ValuesOK x ∧ o.id.era = r.opId.era ∧
      (NoHead d x → DocEq (applyD d x) d') := by
  obtain ⟨o, x, d', h1, h2, h3, h4, h5, h6, h7, h8, h9, h10⟩ := local_call_core r d hs h c hk hm v hok
  exact ⟨o, x, d', h1, h2, h3, h4, h7, h5, h6, fun hn => by rw [h8 hn]; exact docEq_refl _⟩

/-- **the receiver**, as far as it is true: extra hypothesis `hnh` — no array slot carries the identity of the head
    (`Ts.oldest`), which `DP.DInv` does not exclude and `HistOK` implies (`histOK_noHeadSlots`).  No history is needed:
    a second replica holding the same document that receives the emitted operation reaches the SAME document (plain
    equality, hence `DocEq` and the same JSON view) without error or panic. -/
theorem receiver_reaches_senders_state_partial (r q : Replica) (d : Doc) (hs : r.state = .doc d) (hq : q.state = .doc d)
    (h : DP.DocInv r) (c : Call) (hk : DP.CallKeysND c) (hm : DP.isMutating c = true) (v : Ret)
    (hok : (r.call c).2 = .ok v) (hnh : ∀ p, Ts.oldest ∉ slotIds d p) :
    ∃ (o : Op) (d' dq : Doc), (r.call c).1.buffer = r.buffer ++ [o] ∧ (r.call c).1.state = .doc d' ∧
      (q.execRemoteBase o).1.state = .doc dq ∧ (q.execRemoteBase o).2 = none ∧ DocEq dq d' ∧ dq.view = d'.view := by
  obtain ⟨o, x, d', h1, h2, h3, h4, h5, h6, h7, h8, h9, h10⟩ := local_call_core r d hs h c hk hm v hok
  have hn : NoHead d x := by
    cases x with
    | o y => trivial
    | a y =>
      cases y with
      | ins p a ts vs => exact hnh p
      | del p tgs ts => trivial
      | upd p ts tgs vs => trivial
  obtain ⟨e1, e2⟩ := execRemoteBase_is_applyD_weak q d hq o x h4 h7
  rw [h8 hn] at e1
  exact ⟨o, d', d', h1, h3, e1, e2, docEq_refl _, rfl⟩

theorem histOK_noHeadSlots {d : Doc} (h : HistOK d) : ∀ p, Ts.oldest ∉ slotIds d p := by
  intro p
  by_cases hp : IsArr d p
  · exact hist_noHead (h p hp)
  · unfold slotIds slotsOf
    unfold IsArr at hp
    cases hf : d.findArr p with
    | none => simp
    | some x => rw [hf] at hp; exact absurd rfl hp

/-! ## 6. the histories are an invariant -/

/-- a list of order identifiers with a causal insertion history -/
def Hist (l : List Ts) : Prop := ∃ M0, l = foldIds [] M0 ∧ ACausal M0

theorem hist_nil : Hist [] :=
  ⟨[], rfl, ⟨by simp, by simp, by simp, by simp, List.Pairwise.nil, by intro i hi; simp at hi⟩⟩

theorem acausal_single {cs : List Ts} {k : Nat × Nat × String} (hne : cs ≠ []) (hnd : cs.Nodup)
    (hk : ∀ x ∈ cs, x.key = k) (hko : k ≠ Ts.oldest.key) : ACausal [⟨Ts.oldest, cs⟩] := by
  have hkey : (AIns.mk Ts.oldest cs).ts0.key = k := ts0_key_of_mem hne hk
  refine ⟨?_, ?_, ?_, ?_, by simp, ?_⟩
  · intro o ho; simp only [List.mem_singleton] at ho; subst ho; exact hne
  · intro o ho x hx; simp only [List.mem_singleton] at ho; subst ho; rw [hkey]; exact hk x hx
  · intro o ho; simp only [List.mem_singleton] at ho; subst ho; exact hnd
  · intro o ho; simp only [List.mem_singleton] at ho; subst ho; rw [hkey]; exact hko
  · intro i hi
    have : i = 0 := by simpa using hi
    subst this
    exact Or.inl rfl

/-- a batch of fresh identifiers of one key (the children of a freshly created array) has a history -/
theorem hist_fresh {cs : List Ts} {k : Nat × Nat × String} (hnd : cs.Nodup) (hk : ∀ x ∈ cs, x.key = k)
    (hko : k ≠ Ts.oldest.key) : Hist cs := by
  by_cases hne : cs = []
  · subst hne; exact hist_nil
  · exact ⟨[⟨Ts.oldest, cs⟩], (foldIds_fresh cs).symm, acausal_single hne hnd hk hko⟩

theorem isArr_iff_arrV {d : Doc} {q : Ts} : IsArr d q ↔ (arrV (d.find q)).isSome := by
  unfold IsArr
  rw [findArr_isSome_iff]
  unfold idsOf
  cases arrV (d.find q) <;> simp

theorem slotIds_of_arrV (d : Doc) (q : Ts) : slotIds d q = ((arrV (d.find q)).map (List.map (·.1))).getD [] := by
  rw [slotIds_eq_idsOf]; rfl

theorem arrHist_iff {d : Doc} {p : Ts} : ArrHist d p ↔ Hist (slotIds d p) := Iff.rfl

/-- history of one array: only the slots of the node matter -/
theorem arrHist_congr {d d' : Doc} {q : Ts} (h : arrV (d'.find q) = arrV (d.find q)) (hh : IsArr d q → ArrHist d q) :
    IsArr d' q → ArrHist d' q := by
  intro hq
  rw [isArr_iff_arrV, h, ← isArr_iff_arrV] at hq
  have := hh hq
  rw [arrHist_iff, slotIds_of_arrV] at this ⊢
  rw [h]; exact this

theorem histOK_docEq {a b : Doc} (h : DocEq a b) (hh : HistOK a) : HistOK b :=
  fun q => arrHist_congr (by rw [h q]) (hh q)

/-- the arrays among freshly created nodes have a history (one insert at the head) -/
theorem hist_new_node {t t' : Ts} {ns : List DNode} (hb : Block t ns t') (hok : ∀ n ∈ ns, DP.NodeOK n)
    (hkey : t.key ≠ Ts.oldest.key) {n : DNode} (hn : n ∈ ns) {sl : List (Ts × Ts)} (h : arrV (some n) = some sl) :
    Hist (sl.map (·.1)) := by
  have hk : ∃ s, n.kind = .arr sl s := by
    obtain ⟨nc, nd, np, nk⟩ := n
    cases nk with
    | elem v => simp [arrV] at h
    | obj m s => simp [arrV] at h
    | arr sl' s =>
      simp only [arrV, Option.some.injEq] at h
      exact ⟨s, by rw [h]⟩
  obtain ⟨s, hk⟩ := hk
  have hno := hok n hn
  unfold DP.NodeOK at hno
  rw [hk] at hno
  simp only at hno
  have hkids : kids n.kind = sl.map (·.2) := by rw [hk]; rfl
  rw [hno.2]
  apply hist_fresh (k := t.key) _ _ hkey
  · have := hb.inj n hn; rwa [hkids] at this
  · intro x hx
    obtain ⟨nc, hnc, rfl, _⟩ := hb.links n hn x (by rw [hkids]; exact hx)
    have : nc.c ∈ ids ns := List.mem_map.mpr ⟨nc, hnc, rfl⟩
    rw [hb.ids] at this
    obtain ⟨i, _, hi⟩ := DC.mem_delimSeq.mp this
    rw [hi]; rfl

/-- the slots of a node after an effect -/
theorem run_arrV (e : Eff) (F : Ts → Option DNode) (hg : ∀ o, arrV (e.g o) = arrV o) (hp : e.p ∉ ids e.ns) (q : Ts) :
    arrV (e.run F q) = if q ∈ ids e.ns then arrV (nfind e.ns q) else if q = e.p then arrV (e.s (F q)) else arrV (F q) := by
  unfold Eff.run
  have h1 : arrV (upd e.x e.g (upd e.p e.s (U e.ns F)) q) = arrV (upd e.p e.s (U e.ns F) q) := by
    by_cases hx : q = e.x
    · subst hx; rw [upd_same, hg]
    · rw [upd_other _ _ hx]
  rw [h1]
  by_cases hn : q ∈ ids e.ns
  · have hqp : q ≠ e.p := fun e' => hp (e' ▸ hn)
    rw [upd_other _ _ hqp, if_pos hn]
    unfold U
    obtain ⟨n, hn'⟩ := Option.isSome_iff_exists.mp (nfind_isSome_iff.mpr hn)
    rw [hn']; rfl
  · rw [if_neg hn]
    by_cases hqp : q = e.p
    · subst hqp; rw [upd_same, U_old hn, if_pos rfl]
    · rw [upd_other _ _ hqp, U_old hn, if_neg hqp]

/-- the histories after an effect: new nodes bring theirs, the parent's is supplied, the rest is untouched -/
theorem histOK_run {d d' : Doc} {e : Eff} (hf : d'.find = e.run d.find) (hh : HistOK d)
    (hg : ∀ o, arrV (e.g o) = arrV o) (hp : e.p ∉ ids e.ns)
    (hnew : ∀ n ∈ e.ns, ∀ sl, arrV (some n) = some sl → Hist (sl.map (·.1)))
    (hs : IsArr d' e.p → ArrHist d' e.p) : HistOK d' := by
  intro q
  have hrun := run_arrV e d.find hg hp q
  rw [← hf] at hrun
  by_cases hn : q ∈ ids e.ns
  · rw [if_pos hn] at hrun
    intro hq
    rw [arrHist_iff, slotIds_of_arrV, hrun]
    obtain ⟨n, hn'⟩ := Option.isSome_iff_exists.mp (nfind_isSome_iff.mpr hn)
    rw [isArr_iff_arrV, hrun, hn'] at hq
    obtain ⟨sl, hsl⟩ := Option.isSome_iff_exists.mp hq
    rw [hn', hsl]
    exact hnew n (nfind_some hn').1 sl hsl
  · rw [if_neg hn] at hrun
    by_cases hqp : q = e.p
    · subst hqp; exact hs
    · rw [if_neg hqp] at hrun
      exact arrHist_congr hrun (hh q)

theorem stepIds_nil (l : List Ts) (a : Ts) : stepIds l a [] = l := by
  unfold stepIds
  cases h : insertAfterId id a [] l with
  | none => rfl
  | some l' =>
    simp only [Option.getD_some]
    have hp := insertAfterId_perm id a [] l l' h
    have hs := insertAfterId_sublist id a [] l l' h
    exact (hs.eq_of_length (by simpa using hp.length_eq.symm)).symm

/-- the nodes of an elementary operation form a block of well-shaped nodes -/
theorem nodesE_block (e : EOp) : ∃ t', Block e.ts (nodesE e) t' ∧ ∀ n ∈ nodesE e, DP.NodeOK n := by
  cases e with
  | ins p a ts vs =>
    simp only [nodesE, EOp.ts]
    cases hc : createMany p ts vs with
    | err c => exact ⟨ts, block_nil _, by simp⟩
    | panic w => exact ⟨ts, block_nil _, by simp⟩
    | ok y =>
      obtain ⟨ns, cs, t'⟩ := y
      exact ⟨t', (createMany_block hc).1, (DP.createArrItems_spec2 p ts vs ns cs t' hc).1⟩
  | del1 p tg t => exact ⟨t, block_nil _, by simp [nodesE]⟩
  | upd1 p tg t v =>
    simp only [nodesE, EOp.ts]
    cases hc : createNode p t v with
    | err c => exact ⟨t, block_nil _, by simp⟩
    | panic w => exact ⟨t, block_nil _, by simp⟩
    | ok y =>
      obtain ⟨ns, c, t'⟩ := y
      exact ⟨t', (createNode_spec p t v _ hc).1, (DP.createNode_spec2 p t v _ hc).1⟩

/-- **elementary array operations keep the histories**: an insert extends the history of its array (`hins`: the batch
    is empty or the extended history is causal), the arrays among the new nodes start theirs (`hkey`) -/
theorem histOK_applyE {d : Doc} (hwf : d.WF) (hh : HistOK d) (e : EOp) (he : EOK d e)
    (hkey : nodesE e = [] ∨ e.ts.key ≠ Ts.oldest.key)
    (hins : ∀ p a ts vs, e = .ins p a ts vs → newSlots e = [] ∨ Hist (stepIds (slotIds d p) a (newSlots e))) :
    HistOK (applyE d e) := by
  have hsh := eshape e he
  have hf := find_applyE hwf e he
  obtain ⟨pn, sl, sz, hp⟩ := isArr_iff.mp he.isArr
  obtain ⟨hp1, _⟩ := findArr_some_iff.mp hp
  apply histOK_run hf hh hsh.g_arrV
  · rw [hsh.p, hsh.ns]; exact fresh_not_mem he.fresh hp1
  · rw [hsh.ns]
    intro n hn sl' hsl'
    rcases hkey with hk | hk
    · rw [hk] at hn; cases hn
    · obtain ⟨t', hb, hok⟩ := nodesE_block e
      exact hist_new_node hb hok hk hn hsl'
  · rw [hsh.p]
    intro hq
    rw [arrHist_iff, slotIds_applyE hwf he (isArr_find he.isArr)]
    cases hi : insOnE e.p e with
    | none => exact hh e.p he.isArr
    | some o =>
      simp only
      cases e with
      | ins p a ts vs =>
        simp only [insOnE, EOp.p, if_true, Option.some.injEq] at hi
        subst hi
        simp only [EOp.p]
        rcases hins p a ts vs rfl with h | h
        · rw [h, stepIds_nil]; exact hh p he.isArr
        · exact h
      | del1 p tg t => simp [insOnE] at hi
      | upd1 p tg t v => simp [insOnE] at hi

theorem histOK_applyAllE : ∀ (l : List EOp) {d : Doc}, GoodE d l → HistOK d →
    (∀ e ∈ l, (nodesE e = [] ∨ e.ts.key ≠ Ts.oldest.key) ∧ ∀ q, insOnE q e = none) → HistOK (applyAllE d l)
  | [], d, _, hh, _ => hh
  | e :: l, d, hg, hh, hk => by
    have hok : EOK d e := hg.2.1 e (by simp)
    have h1 := histOK_applyE hg.1 hh e hok (hk e (by simp)).1 (by
      intro p a ts vs he
      have := (hk e (by simp)).2 p
      rw [he] at this
      simp [insOnE] at this)
    exact histOK_applyAllE l (goodE_step hg) h1 (fun e' he' => hk e' (List.mem_cons_of_mem _ he'))

theorem arrV_skG_obj (m : List (String × Ts)) (s : Int) (o : Option DNode) : arrV (skG (.obj m s) o) = none := by
  cases o with
  | none => rfl
  | some n =>
    obtain ⟨nc, nd, np, nk⟩ := n
    cases nk <;> rfl

/-- **object operations keep the histories** -/
theorem histOK_applyOp {d : Doc} (hwf : d.WF) (hh : HistOK d) (o : ObjOp) (ho : OpOK d o)
    (hkey : nodesOf o = [] ∨ o.ts.key ≠ Ts.oldest.key) : HistOK (applyOp d o) := by
  have hsh := effShape hwf o ho
  have hf := find_applyOp_eff hwf o ho
  obtain ⟨no, hno⟩ := parent_in_table ho
  apply histOK_run hf hh
  · intro x
    rcases hsh.g with h | ⟨t, h⟩ | ⟨t, h⟩ <;> rw [h]
    · rfl
    · exact arrV_fun1 t x
    · exact arrV_setD t x
  · rw [hsh.p, hsh.ns]; exact not_mem_nodes_of_table ho hno
  · rw [hsh.ns]
    intro n hn sl' hsl'
    rcases hkey with hk | hk
    · rw [hk] at hn; cases hn
    · cases o with
      | put p k v ts =>
        simp only [nodesOf] at hn
        cases hc : createNode p ts v with
        | err c => rw [hc] at hn; cases hn
        | panic w => rw [hc] at hn; cases hn
        | ok y =>
          obtain ⟨ns, c, t'⟩ := y
          rw [hc] at hn
          exact hist_new_node (createNode_spec p ts v _ hc).1 (DP.createNode_spec2 p ts v _ hc).1 hk hn hsl'
      | del p k ts => simp [nodesOf] at hn
  · rw [hsh.p]
    intro hq
    exact absurd rfl (obj_ne_arr (isObj_after_op hwf o ho (opOK_isObj ho)) hq)

/-- the new nodes of an operation (if any) do not carry the key of the head -/
def KeyOK : DOp → Prop
  | .o y => nodesOf y = [] ∨ y.ts.key ≠ Ts.oldest.key
  | .a y => ∀ e ∈ flat y, nodesE e = [] ∨ e.ts.key ≠ Ts.oldest.key

theorem goodE_of_goodW_noIns {d : Doc} {y : AOp} (h : GoodW d (.a y)) (hy : ∀ p a ts vs, y ≠ .ins p a ts vs) :
    GoodE d (flat y) :=
  ⟨h.1, h.2.1, h.2.2.1, noIns_ordOK d _ (flat_noIns hy)⟩

/-- **a remote operation keeps the histories**: applicable up to the history clause, new nodes away from the head's
    key; an insert brings the history clause for its array (or an empty batch) -/
theorem histOK_applyD {d : Doc} {x : DOp} (hh : HistOK d) (hw : GoodW d x) (hk : KeyOK x)
    (hins : ∀ p a ts vs, x = .a (.ins p a ts vs) → vs = [] ∨ OrdOK d [.ins p a ts vs]) : HistOK (applyD d x) := by
  cases x with
  | o y => exact histOK_applyOp hw.1 hh y hw.2 hk
  | a y =>
    by_cases hy : ∃ p a ts vs, y = .ins p a ts vs
    · obtain ⟨p, a, ts, vs, rfl⟩ := hy
      have he : EOK d (.ins p a ts vs) := hw.2.1 _ (by simp [flat])
      show HistOK (applyE d (.ins p a ts vs))
      apply histOK_applyE hw.1 hh _ he (hk _ (by simp [flat]))
      intro p' a' ts' vs' e
      simp only [EOp.ins.injEq] at e
      obtain ⟨rfl, rfl, rfl, rfl⟩ := e
      rcases hins p a ts vs rfl with h | h
      · left; subst h; simp [newSlots, createMany, createArrItems]
      · right
        obtain ⟨M0, hb, hc⟩ := h p ⟨.ins p a ts vs, by simp, by simp [insOnE]⟩
        have := hc [⟨a, newSlots (.ins p a ts vs)⟩] (by simp [insOnE])
        exact ⟨M0 ++ [⟨a, newSlots (.ins p a ts vs)⟩], by rw [foldIds_snoc, ← hb], this⟩
    · have hy' : ∀ p a ts vs, y ≠ .ins p a ts vs := fun p a ts vs e => hy ⟨p, a, ts, vs, e⟩
      have hg := goodE_of_goodW_noIns hw hy'
      have heq : DocEq (applyA d y) (applyAllE d (flat y)) := applyA_flat (rest := []) (by simpa using hg) hw.2.2.2
      exact histOK_docEq (docEq_symm heq)
        (histOK_applyAllE (flat y) hg hh (fun e he => ⟨hk e he, flat_noIns hy' e he⟩))

theorem key_ne_of_absent {d : Doc} (hroot : (d.find Ts.oldest).isSome) {t : Ts} (h0 : t.delim = 0)
    (hf : d.find t = none) : t.key ≠ Ts.oldest.key := by
  intro e
  have : t = Ts.oldest := by
    obtain ⟨a, b, c, dl⟩ := t
    simp only [Ts.key, Ts.oldest, Prod.mk.injEq] at e h0 ⊢
    obtain ⟨rfl, rfl, rfl⟩ := e
    subst h0
    rfl
  rw [this] at hf
  rw [hf] at hroot
  cases hroot

theorem flatUpd_after {p : Ts} : ∀ {tgs : List Ts} {vs : List JVal} {t : Ts} {e : EOp},
    e ∈ flatUpd p tgs vs t → ∃ tg v t1, After t t1 ∧ e = .upd1 p tg t1 v
  | [], _, _, _, h => by simp [flatUpd] at h
  | _ :: _, [], _, _, h => by simp [flatUpd] at h
  | tg :: tgs, v :: vs, t, e, h => by
    simp only [flatUpd, List.mem_cons] at h
    rcases h with rfl | h
    · exact ⟨tg, v, t, ⟨rfl, rfl, rfl, Nat.le_refl _⟩, rfl⟩
    · obtain ⟨tg', v', t1, h3, h4⟩ := flatUpd_after h
      refine ⟨tg', v', t1, ?_, h4⟩
      cases hc : createNode p t v with
      | ok y =>
        obtain ⟨ns, c, t'⟩ := y
        rw [hc] at h3
        simp only at h3
        obtain ⟨_, _, _, ht', _⟩ := createNode_ids hc
        obtain ⟨a1, a2, a3, a4⟩ := h3
        rw [ht'] at a1 a2 a3 a4
        simp only [addDelim] at a1 a2 a3 a4
        exact ⟨a1, a2, a3, by omega⟩
      | err c => rw [hc] at h3; exact h3
      | panic w => rw [hc] at h3; exact h3

/-- the timestamp of a wire operation has delimiter 0; its first new node carries it and is fresh, the head is in the
    table: the new nodes are away from the head's key -/
theorem keyOK_of_goodW {d : Doc} {x : DOp} (hroot : (d.find Ts.oldest).isSome) (h0 : (dts x).delim = 0)
    (hw : GoodW d x) : KeyOK x := by
  cases x with
  | o y =>
    cases y with
    | put p k v ts =>
      right
      obtain ⟨_, ⟨ns, c, t', hc⟩, hf⟩ := hw.2
      have hn : nodesOf (.put p k v ts) = ns := by simp only [nodesOf, hc]
      rw [hn] at hf
      obtain ⟨_, _, n0, rest, hns, hn0, _⟩ := createNode_spec p ts v _ hc
      simp only at hns hn0
      exact key_ne_of_absent hroot h0 (hf ts (by rw [hns]; simp [ids, hn0]))
    | del p k ts => left; rfl
  | a y =>
    cases y with
    | ins p a ts vs =>
      intro e he
      simp only [flat, List.mem_singleton] at he
      subst he
      obtain ⟨_, ⟨ns, cs, t', hc⟩, hf, _, _⟩ := hw.2.1 (.ins p a ts vs) (by simp [flat])
      have hn : nodesE (.ins p a ts vs) = ns := by simp only [nodesE, hc]
      rw [hn] at hf ⊢
      cases hns : ns with
      | nil => left; rfl
      | cons n0 rest =>
        right
        have hb := (createMany_block hc).1
        have hids := hb.ids
        rw [hns] at hids
        simp only [ids, List.map_cons, List.length_cons, delimSeq, List.cons.injEq] at hids
        exact key_ne_of_absent hroot (t := ts) h0 (hf ts (by rw [hns]; simp [ids, hids.1]))
    | del p tgs ts =>
      intro e he
      obtain ⟨tg, t1, _, rfl⟩ := flatDel_mem he
      left; rfl
    | upd p ts tgs vs =>
      intro e he
      simp only [flat] at he
      obtain ⟨tg', v', t1, haft, rfl⟩ := flatUpd_after he
      right
      have hkey : t1.key = ts.key := by
        simp only [Ts.key, haft.1, haft.2.1, haft.2.2.1]
      simp only [EOp.ts]
      rw [hkey]
      cases tgs with
      | nil => simp [flatUpd] at he
      | cons tg tgs =>
        cases vs with
        | nil => simp [flatUpd] at he
        | cons v vs =>
          obtain ⟨_, ⟨ns, c, t', hc⟩, hf, _⟩ := hw.2.1 (.upd1 p tg ts v) (by simp [flat, flatUpd])
          have hn : nodesE (.upd1 p tg ts v) = ns := by simp only [nodesE, hc]
          rw [hn] at hf
          obtain ⟨_, _, n0, rest, hns, hn0, _⟩ := createNode_spec p ts v _ hc
          simp only at hns hn0
          exact key_ne_of_absent hroot h0 (hf ts (by rw [hns]; simp [ids, hn0]))

/-! ### along a replica's life -/

/-- a call that is not a mutating document call leaves the replica alone -/
theorem call_nonmut {r : Replica} {d : Doc} (hs : r.state = .doc d) {c : Call} (hm : DP.isMutating c = false) :
    (r.call c).1 = r := by
  have hdone : ∀ o, c.prepare r.state = .done o → (r.call c).1 = r := fun o h => by rw [DP.call_of_done h]
  have herr : ∀ (b : OpBody) (post : Ret → Ret), c.prepare r.state = .op b post → b.isMeta = false →
      execLocal r.state r.opId.next.ts b = .err Err.illegalOperation → (r.call c).1 = r :=
    fun b post h1 h2 h3 => by rw [DP.call_of_err h1 h2 h3]
  cases c with
  | inc x => exact herr _ _ (by rw [hs]; rfl) rfl (by rw [hs]; rfl)
  | mput k v =>
    by_cases hkv : (k = "" || v.isNull) = true
    · exact hdone (.err Err.illegalParameters) (by rw [hs]; simp only [Call.prepare, hkv, if_true])
    · exact herr (.put k v) id (by rw [hs]; simp only [Call.prepare, hkv]; rfl) rfl (by rw [hs]; rfl)
  | mremove k =>
    by_cases hkv : k = ""
    · exact hdone (.err Err.illegalParameters) (by rw [hs]; simp only [Call.prepare, hkv, if_true])
    · exact herr (.remove k) id (by rw [hs]; simp only [Call.prepare, hkv]; rfl) rfl (by rw [hs]; rfl)
  | mget k => exact hdone (.err Err.illegalOperation) (by rw [hs]; rfl)
  | msize => exact hdone (.err Err.illegalOperation) (by rw [hs]; rfl)
  | linsert p vs => exact hdone (.err Err.illegalOperation) (by rw [hs]; rfl)
  | ldelete p => exact hdone (.err Err.illegalOperation) (by rw [hs]; rfl)
  | ldeleteMany p n => exact hdone (.err Err.illegalOperation) (by rw [hs]; rfl)
  | lupdate p vs => exact hdone (.err Err.illegalOperation) (by rw [hs]; rfl)
  | lget p => exact hdone (.err Err.illegalOperation) (by rw [hs]; rfl)
  | lgetMany p n => exact hdone (.err Err.illegalOperation) (by rw [hs]; rfl)
  | lsize => exact hdone (.err Err.illegalOperation) (by rw [hs]; rfl)
  | dput h k v => simp [DP.isMutating] at hm
  | dremove h k => simp [DP.isMutating] at hm
  | dinsert h p vs => simp [DP.isMutating] at hm
  | ddelete h p => simp [DP.isMutating] at hm
  | ddeleteMany h p n => simp [DP.isMutating] at hm
  | dupdate h p vs => simp [DP.isMutating] at hm
  | dgetObj h k =>
    have : ∃ o, (Call.dgetObj h k).prepare r.state = .done o := by
      rw [hs]
      show ∃ o, (Call.dgetObj h k).prepareDoc d = .done o
      simp only [Call.prepareDoc]
      repeat' split
      all_goals exact ⟨_, rfl⟩
    obtain ⟨o, ho⟩ := this
    exact hdone o ho
  | dgetArr h p n =>
    have : ∃ o, (Call.dgetArr h p n).prepare r.state = .done o := by
      rw [hs]
      show ∃ o, (Call.dgetArr h p n).prepareDoc d = .done o
      simp only [Call.prepareDoc]
      repeat' split
      all_goals exact ⟨_, rfl⟩
    obtain ⟨o, ho⟩ := this
    exact hdone o ho
  | dvalue h => exact hdone _ (by rw [hs]; rfl)

theorem histOK_empty : HistOK Doc.empty := by
  intro p hp
  exfalso
  obtain ⟨pn, sl, sz, h⟩ := isArr_iff.mp hp
  obtain ⟨h1, h2⟩ := findArr_some_iff.mp h
  obtain ⟨_, rfl⟩ := DP.find_empty h1
  cases h2

theorem ordOK_of_goodD_ins {d : Doc} {p a ts : Ts} {vs : List JVal} (h : GoodD d [.a (.ins p a ts vs)]) :
    OrdOK d [.ins p a ts vs] := by
  have := (goodD_arr h).1.2.2.2
  simpa [flat] using this

/-- a call keeps the histories -/
theorem histOK_call (r : Replica) (d : Doc) (hs : r.state = .doc d) (h : DP.DocInv r) (hh : HistOK d) (c : Call)
    (hk : DP.CallKeysND c) : ∀ d', (r.call c).1.state = .doc d' → HistOK d' := by
  intro d' hd'
  have same : (r.call c).1 = r → HistOK d' := by
    intro e
    rw [e, hs] at hd'
    simp only [DState.doc.injEq] at hd'
    exact hd' ▸ hh
  by_cases hm : DP.isMutating c = true
  · cases hres : (r.call c).2 with
    | err e => exact same (DP.doc_call_err_noop r c h e hres)
    | panic w => exact absurd hres (DP.doc_call_no_panic r c h w)
    | ok v =>
      obtain ⟨o, x, d1, h1, h2, h3, h4, h5, h6, h7, h8, h9, h10⟩ := local_call_core r d hs h c hk hm v hres
      obtain ⟨d0, hs0, I, _⟩ := h
      rw [hs] at hs0
      simp only [DState.doc.injEq] at hs0
      subst hs0
      have hn : NoHead d x := by
        cases x with
        | o y => trivial
        | a y =>
          cases y with
          | ins p a ts vs => exact histOK_noHeadSlots hh p
          | del p tgs ts => trivial
          | upd p ts tgs vs => trivial
      rw [h3] at hd'
      simp only [DState.doc.injEq] at hd'
      rw [← hd', ← h8 hn]
      obtain ⟨m, s, hroot⟩ := I.root
      apply histOK_applyD hh h7 (keyOK_of_goodW (by simp [hroot]) (by rw [toDOp_ts h4]; rfl) h7)
      intro p a ts vs e
      subst e
      by_cases hv : vs = []
      · exact Or.inl hv
      · right
        have he : EOK d (.ins p a ts vs) := h7.2.1 _ (by simp [flat])
        exact ordOK_of_goodD_ins (h9 ⟨hh p he.1, hv⟩)
  · exact same (call_nonmut hs (by simpa using hm))

/-- the delivery of an applicable remote operation keeps the histories -/
theorem histOK_remote (r : Replica) (d : Doc) (hs : r.state = .doc d) (h : DP.DocInv r) (hh : HistOK d) (o : Op) (x : DOp)
    (hx : toDOp o = some x) (hok : GoodD d [x]) : ∀ d', (r.execRemoteBase o).1.state = .doc d' → HistOK d' := by
  intro d' hd'
  rw [(execRemoteBase_is_applyD r d hs o x hx hok).1] at hd'
  simp only [DState.doc.injEq] at hd'
  rw [← hd']
  obtain ⟨d0, hs0, I, _⟩ := h
  rw [hs] at hs0
  simp only [DState.doc.injEq] at hs0
  subst hs0
  obtain ⟨m, s, hroot⟩ := I.root
  have hw := goodW_of_goodD hok
  apply histOK_applyD hh hw (keyOK_of_goodW (by simp [hroot]) (by rw [toDOp_ts hx]; rfl) hw)
  intro p a ts vs e
  subst e
  exact Or.inr (ordOK_of_goodD_ins hok)

/-- **in every state reachable by calls and deliveries all arrays have causal insertion histories** -/
theorem histOK_life (cuid : String) (create : Bool) (r : Replica) (h : Life cuid create r) :
    ∀ d, r.state = .doc d → HistOK d := by
  induction h with
  | new =>
    intro d hd
    have : (Replica.new .document cuid create).state = .doc Doc.empty := by cases create <;> rfl
    rw [this] at hd
    simp only [DState.doc.injEq] at hd
    exact hd ▸ histOK_empty
  | step hl hs ih =>
    have hinv := docInv_life _ _ _ hl
    obtain ⟨d0, hs0, _, _⟩ := docInv_life _ _ _ hl
    cases hs with
    | call c hk => exact histOK_call _ d0 hs0 hinv (ih d0 hs0) c hk
    | deliver d hs' o x hx hok hera hv => exact histOK_remote _ d hs' hinv (ih d hs') o x hx hok

/-- **THE theorem for every reachable replica**: the statement exactly as given, for a replica reached by public calls and
    deliveries of applicable remote operations (`DR.Life`); the only proviso: the call is not an insert of an EMPTY batch
    (for which `GoodD` is false, see `local_call_statement_false`) -/
theorem life_local_call_is_applicable_remote_op (cuid : String) (create : Bool) (r : Replica) (hl : Life cuid create r)
    (d : Doc) (hs : r.state = .doc d) (c : Call) (hk : DP.CallKeysND c) (hm : DP.isMutating c = true) (v : Ret)
    (hok : (r.call c).2 = .ok v) (hne : ∀ hd pos, c ≠ .dinsert hd pos []) :
    ∃ (o : Op) (x : DOp) (d' : Doc),
      (r.call c).1.buffer = r.buffer ++ [o] ∧ o.id = r.opId.next ∧
      (r.call c).1.state = .doc d' ∧
      toDOp o = some x ∧ GoodD d [x] ∧ ValuesOK x ∧ o.id.era = r.opId.era ∧
      DocEq (applyD d x) d' :=
  local_call_is_applicable_remote_op_partial r d hs (docInv_life cuid create r hl) c hk hm v hok
    (histOK_life cuid create r hl d hs) hne

/-- **the receiver, for every reachable sender**: exactly as given -/
theorem life_receiver_reaches_senders_state (cuid : String) (create : Bool) (r q : Replica) (hl : Life cuid create r)
    (d : Doc) (hs : r.state = .doc d) (hq : q.state = .doc d) (c : Call) (hk : DP.CallKeysND c)
    (hm : DP.isMutating c = true) (v : Ret) (hok : (r.call c).2 = .ok v) :
    ∃ (o : Op) (d' dq : Doc), (r.call c).1.buffer = r.buffer ++ [o] ∧ (r.call c).1.state = .doc d' ∧
      (q.execRemoteBase o).1.state = .doc dq ∧ (q.execRemoteBase o).2 = none ∧ DocEq dq d' ∧ dq.view = d'.view :=
  receiver_reaches_senders_state_partial r q d hs hq (docInv_life cuid create r hl) c hk hm v hok
    (histOK_noHeadSlots (histOK_life cuid create r hl d hs))

/-! ### `GoodW` is enough for the invariant under deliveries (`DR.docInv_remote` without the history clause) -/

theorem dinv_applyD_weak {L : OpId} {d : Doc} (I : DInv L 0 d) (hkeys : KeysND d) (x : DOp) (hok : GoodW d x)
    (hst : St L 0 (dts x)) (hv : ValuesOK x) : DInv L 0 (applyD d x) ∧ KeysND (applyD d x) := by
  by_cases hins : ∃ p a ts vs, x = .a (.ins p a ts vs)
  · obtain ⟨p, a, ts, vs, rfl⟩ := hins
    have he : EOK d (.ins p a ts vs) := hok.2.1 _ (by simp [flat])
    exact dinv_applyE I hkeys (.ins p a ts vs) he hst hv.2
  · exact dinv_applyD I hkeys x (goodD_of_goodW_noIns hok (fun p a ts vs e => hins ⟨p, a, ts, vs, e⟩)) hst hv

/-- a remote operation that is applicable up to the history clause keeps the document invariant -/
theorem docInv_remote_weak (r : Replica) (d : Doc) (hs : r.state = .doc d) (h : DP.DocInv r) (o : Op) (x : DOp)
    (hx : toDOp o = some x) (hok : GoodW d x) (hera : o.id.era = r.opId.era) (hv : ValuesOK x) :
    DP.DocInv (r.execRemoteBase o).1 := by
  obtain ⟨d0, hs0, I, hkeys⟩ := h
  rw [hs] at hs0
  simp only [DState.doc.injEq] at hs0
  subst hs0
  obtain ⟨h1, _⟩ := execRemoteBase_is_applyD_weak r d hs o x hx hok
  have hstx : St (r.opId.syncLamport o.id.lamport) 0 (dts x) := by
    rw [toDOp_ts hx]; exact st_sync_new r.opId o.id hera
  obtain ⟨I', hk'⟩ := dinv_applyD_weak (dinv_sync o.id.lamport I) hkeys x hok hstx hv
  refine ⟨applyD d x, h1, ?_, hk'⟩
  rw [execRemoteBase_opId]
  exact I'

/-! ## 7. non-vacuity: a document with a nested array, a local insert in the middle of the array, a local update -/

namespace ExLR
def docOf (r : Replica) : Doc := match r.state with | .doc d => d | _ => Doc.empty

def r0 : Replica := Replica.new .document "c" true
/-- `{"a": [1, {"x": 5}, [7, 8]]}` -/
def c1 : Call := .dput Ts.oldest "a" (.arr [.num 1, .obj [("x", .num 5)], .arr [.num 7, .num 8]])
def r1 : Replica := (r0.call c1).1
def arrId : Ts := ⟨0, 2, "c", 0⟩
/-- a local insert in the middle of the array, one of the values nested -/
def c2 : Call := .dinsert arrId 1 [.str "m", .arr [.num 3]]
def r2 : Replica := (r1.call c2).1
/-- a local update of two slots (the two just inserted) -/
def c3 : Call := .dupdate arrId 1 [.obj [("k", .num 1)], .num 9]
def r3 : Replica := (r2.call c3).1

theorem life1 : Life "c" true r1 :=
  .step .new (.call _ c1 (by simp [c1, DP.CallKeysND, JKeysND, JKeysNDList, JKeysNDKvs]))
theorem life2 : Life "c" true r2 :=
  .step life1 (.call _ c2 (by simp [c2, DP.CallKeysND, JKeysND, JKeysNDList, JKeysNDKvs]))

/-- the operation the insert emits: anchor = the order identifier of the slot before position 1 -/
def o2 : Op := ⟨⟨0, 3, "c", 3⟩, .docInsert arrId 0 (some ⟨0, 2, "c", 1⟩) [.str "m", .arr [.num 3]]⟩
def x2 : DOp := .a (.ins arrId ⟨0, 2, "c", 1⟩ ⟨0, 3, "c", 0⟩ [.str "m", .arr [.num 3]])
/-- the operation the update emits: targets = the order identifiers of the live slots 1, 2 -/
def o3 : Op := ⟨⟨0, 4, "c", 4⟩, .docUpdate arrId 0 [⟨0, 3, "c", 0⟩, ⟨0, 3, "c", 1⟩] [.obj [("k", .num 1)], .num 9]⟩
def x3 : DOp := .a (.upd arrId ⟨0, 4, "c", 0⟩ [⟨0, 3, "c", 0⟩, ⟨0, 3, "c", 1⟩] [.obj [("k", .num 1)], .num 9])

example : r2.buffer = r1.buffer ++ [o2] := rfl
example : toDOp o2 = some x2 := rfl
example : r3.buffer = r2.buffer ++ [o3] := rfl
example : toDOp o3 = some x3 := rfl
/-- applying the denoted operations to the state before the call gives the state after the call, exactly -/
example : applyD (docOf r1) x2 = docOf r2 := rfl
example : applyD (docOf r2) x3 = docOf r3 := rfl
example : ((docOf r3).view ==
    .obj [("a", .arr [.num 1, .obj [("k", .num 1)], .num 9, .obj [("x", .num 5)], .arr [.num 7, .num 8]])]) = true := by
  decide

/-- THE theorem instantiated on the insert … -/
example : ∃ (o : Op) (x : DOp) (d' : Doc),
    (r1.call c2).1.buffer = r1.buffer ++ [o] ∧ o.id = r1.opId.next ∧ (r1.call c2).1.state = .doc d' ∧
    toDOp o = some x ∧ GoodD (docOf r1) [x] ∧ ValuesOK x ∧ o.id.era = r1.opId.era ∧ DocEq (applyD (docOf r1) x) d' :=
  life_local_call_is_applicable_remote_op "c" true r1 life1 (docOf r1) rfl c2
    (by simp [c2, DP.CallKeysND, JKeysND, JKeysNDList, JKeysNDKvs]) rfl .none rfl (by intro hd pos e; cases e)

/-- … and on the update -/
example : ∃ (o : Op) (x : DOp) (d' : Doc),
    (r2.call c3).1.buffer = r2.buffer ++ [o] ∧ o.id = r2.opId.next ∧ (r2.call c3).1.state = .doc d' ∧
    toDOp o = some x ∧ GoodD (docOf r2) [x] ∧ ValuesOK x ∧ o.id.era = r2.opId.era ∧ DocEq (applyD (docOf r2) x) d' :=
  life_local_call_is_applicable_remote_op "c" true r2 life2 (docOf r2) rfl c3
    (by simp [c3, DP.CallKeysND, JKeysND, JKeysNDList, JKeysNDKvs]) rfl
    (.vals [.str "m", .arr [.num 3]]) rfl (by intro hd pos e; cases e)

/-- hence the emitted insert is ready for `DM.mixed_converge` / `DR.docInv_remote` at any replica holding the document -/
example : GoodD (docOf r1) [x2] := by
  obtain ⟨o, x, d', h1, _, _, h4, h5, _⟩ :=
    life_local_call_is_applicable_remote_op "c" true r1 life1 (docOf r1) rfl c2
      (by simp [c2, DP.CallKeysND, JKeysND, JKeysNDList, JKeysNDKvs]) rfl .none rfl (by intro hd pos e; cases e)
  have e : (r1.call c2).1.buffer = r1.buffer ++ [o2] := rfl
  rw [e] at h1
  have := List.append_cancel_left h1
  simp only [List.cons.injEq, and_true] at this
  subst this
  have e2 : toDOp o2 = some x2 := rfl
  rw [e2] at h4
  simp only [Option.some.injEq] at h4
  subst h4
  exact h5

/-- a subscriber holding the same document (another client, its own clock) that receives the emitted operation -/
def q1 : Replica := { Replica.new .document "s" false with state := r1.state }

example : ∃ (o : Op) (d' dq : Doc), (r1.call c2).1.buffer = r1.buffer ++ [o] ∧ (r1.call c2).1.state = .doc d' ∧
    (q1.execRemoteBase o).1.state = .doc dq ∧ (q1.execRemoteBase o).2 = none ∧ DocEq dq d' ∧ dq.view = d'.view :=
  life_receiver_reaches_senders_state "c" true r1 q1 life1 (docOf r1) rfl rfl c2
    (by simp [c2, DP.CallKeysND, JKeysND, JKeysNDList, JKeysNDKvs]) rfl .none rfl

example : (q1.execRemoteBase o2).1.state = r2.state := rfl

end ExLR

/-! ## 8. the statements as given are false: two counterexamples -/

namespace Counter
open ExLR

/-- (a) a REACHABLE state, an insert of an EMPTY batch: the call succeeds and queues an operation, but `GoodD` refuses an
    insert without identifiers (`ACausal.nonempty`) -/
def cE : Call := .dinsert arrId 0 []
def oE : Op := ⟨⟨0, 3, "c", 3⟩, .docInsert arrId 0 (some Ts.oldest) []⟩

theorem local_call_statement_false :
    ¬ (∀ (r : Replica) (d : Doc) (hs : r.state = .doc d) (h : DP.DocInv r) (c : Call)
        (hk : DP.CallKeysND c) (hm : DP.isMutating c = true) (v : Ret) (hok : (r.call c).2 = .ok v),
        ∃ (o : Op) (x : DOp) (d' : Doc),
          (r.call c).1.buffer = r.buffer ++ [o] ∧ o.id = r.opId.next ∧
          (r.call c).1.state = .doc d' ∧
          toDOp o = some x ∧ GoodD d [x] ∧ ValuesOK x ∧ o.id.era = r.opId.era ∧
          DocEq (applyD d x) d') := by
  intro H
  obtain ⟨o, x, d', h1, _, _, h4, h5, _⟩ := H r1 (docOf r1) rfl (docInv_life _ _ _ life1) cE trivial rfl .none rfl
  have e : (r1.call cE).1.buffer = r1.buffer ++ [oE] := rfl
  rw [e] at h1
  have := List.append_cancel_left h1
  simp only [List.cons.injEq, and_true] at this
  subst this
  have e2 : toDOp oE = some (.a (.ins arrId Ts.oldest ⟨0, 3, "c", 0⟩ [])) := rfl
  rw [e2] at h4
  simp only [Option.some.injEq] at h4
  subst h4
  obtain ⟨M0, _, hc⟩ := ordOK_of_goodD_ins h5 arrId ⟨.ins arrId Ts.oldest ⟨0, 3, "c", 0⟩ [], by simp, by simp [insOnE]⟩
  have hca := hc [⟨Ts.oldest, newSlots (.ins arrId Ts.oldest ⟨0, 3, "c", 0⟩ [])⟩] (by simp [insOnE])
  exact hca.nonempty ⟨Ts.oldest, newSlots (.ins arrId Ts.oldest ⟨0, 3, "c", 0⟩ [])⟩ (by simp) rfl

/-- (b) a state that satisfies `DP.DocInv` but is NOT reachable: the first slot of the array carries the order identifier
    `Ts.oldest`, the identity of the head.  The local insert after that slot reports the anchor `Ts.oldest`, which a
    receiver reads as "at the head". -/
def A : Ts := ⟨0, 1, "c", 0⟩
def k1 : Ts := ⟨0, 1, "c", 1⟩
def k2 : Ts := ⟨0, 1, "c", 2⟩
def nR : DNode := ⟨Ts.oldest, none, none, .obj [("a", A)] 1⟩
def nA : DNode := ⟨A, none, some Ts.oldest, .arr [(Ts.oldest, k1), (k2, k2)] 2⟩
def n1 : DNode := ⟨k1, none, some A, .elem (.num 1)⟩
def n2 : DNode := ⟨k2, none, some A, .elem (.num 2)⟩
def dX : Doc := ⟨[nR, nA, n1, n2]⟩
def rX : Replica :=
  { typ := .document, opId := ⟨0, 5, "c", 5⟩, state := .doc dX, buffer := [], cp := ⟨0, 0⟩,
    rbOpId := ⟨0, 5, "c", 5⟩, rbSnap := .doc dX, rbOps := [] }

theorem findX {p : Ts} {n : DNode} (h : dX.find p = some n) :
    (p = Ts.oldest ∧ n = nR) ∨ (p = A ∧ n = nA) ∨ (p = k1 ∧ n = n1) ∨ (p = k2 ∧ n = n2) := by
  have hm := find_some_mem h
  have hc := find_some_c h
  simp only [dX, List.mem_cons, List.not_mem_nil, or_false] at hm
  rcases hm with rfl | rfl | rfl | rfl
  · exact Or.inl ⟨hc.symm, rfl⟩
  · exact Or.inr (Or.inl ⟨hc.symm, rfl⟩)
  · exact Or.inr (Or.inr (Or.inl ⟨hc.symm, rfl⟩))
  · exact Or.inr (Or.inr (Or.inr ⟨hc.symm, rfl⟩))

theorem stX (t : Ts) (h1 : t.era = 0) (h2 : t.lamport ≤ 5) : St rX.opId 0 t := ⟨h1, Or.inl h2⟩

def rkX (c : Ts) : Nat := if c = Ts.oldest then 2 else if c = A then 1 else 0

theorem dinvX : DInv rX.opId 0 dX := by
  refine ⟨⟨by decide, ?_, ?_⟩, ⟨rkX, ?_⟩, ⟨_, _, rfl⟩, ?_, ?_, ?_, ?_, ?_⟩
  · intro p n h c hc
    rcases findX h with ⟨rfl, rfl⟩ | ⟨rfl, rfl⟩ | ⟨rfl, rfl⟩ | ⟨rfl, rfl⟩
    · simp only [nR, kids, List.map_cons, List.map_nil, List.mem_singleton] at hc
      subst hc; exact ⟨nA, rfl, rfl⟩
    · simp only [nA, kids, List.map_cons, List.map_nil, List.mem_cons, List.not_mem_nil, or_false] at hc
      rcases hc with rfl | rfl
      · exact ⟨n1, rfl, rfl⟩
      · exact ⟨n2, rfl, rfl⟩
    · simp [n1, kids] at hc
    · simp [n2, kids] at hc
  · intro p n h
    rcases findX h with ⟨rfl, rfl⟩ | ⟨rfl, rfl⟩ | ⟨rfl, rfl⟩ | ⟨rfl, rfl⟩ <;> decide
  · intro p n h c hc
    rcases findX h with ⟨rfl, rfl⟩ | ⟨rfl, rfl⟩ | ⟨rfl, rfl⟩ | ⟨rfl, rfl⟩
    · simp only [nR, kids, List.map_cons, List.map_nil, List.mem_singleton] at hc
      subst hc; decide
    · simp only [nA, kids, List.map_cons, List.map_nil, List.mem_cons, List.not_mem_nil, or_false] at hc
      rcases hc with rfl | rfl <;> decide
    · simp [n1, kids] at hc
    · simp [n2, kids] at hc
  · intro c n h
    rcases findX h with ⟨rfl, rfl⟩ | ⟨rfl, rfl⟩ | ⟨rfl, rfl⟩ | ⟨rfl, rfl⟩
    · show (1 : Int) = _; rfl
    · show (2 : Int) = _; rfl
    · trivial
    · trivial
  · intro c n h
    rcases findX h with ⟨rfl, rfl⟩ | ⟨rfl, rfl⟩ | ⟨rfl, rfl⟩ | ⟨rfl, rfl⟩
    · exact ⟨stX _ rfl (by decide), (by intro t ht; cases ht), by simp [nR, DP.ordIds]⟩
    · refine ⟨stX _ rfl (by decide), (by intro t ht; cases ht), ?_⟩
      intro o ho
      simp only [nA, DP.ordIds, List.map_cons, List.map_nil, List.mem_cons, List.not_mem_nil, or_false] at ho
      rcases ho with rfl | rfl <;> exact stX _ rfl (by decide)
    · exact ⟨stX _ rfl (by decide), (by intro t ht; cases ht), by simp [n1, DP.ordIds]⟩
    · exact ⟨stX _ rfl (by decide), (by intro t ht; cases ht), by simp [n2, DP.ordIds]⟩
  · intro c n h
    rcases findX h with ⟨rfl, rfl⟩ | ⟨rfl, rfl⟩ | ⟨rfl, rfl⟩ | ⟨rfl, rfl⟩ <;> decide
  · intro c n h _
    rcases findX h with ⟨rfl, rfl⟩ | ⟨rfl, rfl⟩ | ⟨rfl, rfl⟩ | ⟨rfl, rfl⟩
    · exact Or.inl rfl
    · exact Or.inr ⟨Ts.oldest, nR, rfl, rfl, by decide⟩
    · exact Or.inr ⟨A, nA, rfl, rfl, by decide⟩
    · exact Or.inr ⟨A, nA, rfl, rfl, by decide⟩
  · intro c n v h hk
    rcases findX h with ⟨rfl, rfl⟩ | ⟨rfl, rfl⟩ | ⟨rfl, rfl⟩ | ⟨rfl, rfl⟩
    · cases hk
    · cases hk
    · simp only [n1, DKind.elem.injEq] at hk; subst hk; trivial
    · simp only [n2, DKind.elem.injEq] at hk; subst hk; trivial

theorem docInvX : DP.DocInv rX := by
  refine ⟨dX, rfl, dinvX, ?_⟩
  intro p n m s h hk
  rcases findX h with ⟨rfl, rfl⟩ | ⟨rfl, rfl⟩ | ⟨rfl, rfl⟩ | ⟨rfl, rfl⟩
  · simp only [nR, DKind.obj.injEq] at hk
    obtain ⟨rfl, _⟩ := hk
    decide
  · cases hk
  · cases hk
  · cases hk

/-- insert `9` after the first element -/
def cX : Call := .dinsert A 1 [.num 9]
def oX : Op := ⟨⟨0, 6, "c", 6⟩, .docInsert A 0 (some Ts.oldest) [.num 9]⟩

/-- the sender shows `[1, 9, 2]`, the receiver `[9, 1, 2]` -/
example : (docOf (rX.call cX).1).view = .obj [("a", .arr [.num 1, .num 9, .num 2])] := rfl
example : (docOf (rX.execRemoteBase oX).1).view = .obj [("a", .arr [.num 9, .num 1, .num 2])] := rfl

theorem receiver_statement_false :
    ¬ (∀ (r q : Replica) (d : Doc) (hs : r.state = .doc d) (hq : q.state = .doc d)
        (h : DP.DocInv r) (c : Call) (hk : DP.CallKeysND c) (hm : DP.isMutating c = true) (v : Ret)
        (hok : (r.call c).2 = .ok v),
        ∃ (o : Op) (d' dq : Doc), (r.call c).1.buffer = r.buffer ++ [o] ∧ (r.call c).1.state = .doc d' ∧
          (q.execRemoteBase o).1.state = .doc dq ∧ (q.execRemoteBase o).2 = none ∧ DocEq dq d' ∧ dq.view = d'.view) := by
  intro H
  obtain ⟨o, d', dq, h1, h2, h3, _, _, h6⟩ := H rX rX dX rfl rfl docInvX cX
    (by simp [cX, DP.CallKeysND, JKeysND, JKeysNDList]) rfl .none rfl
  have e : (rX.call cX).1.buffer = rX.buffer ++ [oX] := rfl
  rw [e] at h1
  have := List.append_cancel_left h1
  simp only [List.cons.injEq, and_true] at this
  subst this
  have e2 : (rX.call cX).1.state = .doc (docOf (rX.call cX).1) := rfl
  have e3 : (rX.execRemoteBase oX).1.state = .doc (docOf (rX.execRemoteBase oX).1) := rfl
  rw [e2] at h2
  rw [e3] at h3
  simp only [DState.doc.injEq] at h2 h3
  subst h2 h3
  have a : (docOf (rX.execRemoteBase oX).1).view = .obj [("a", .arr [.num 9, .num 1, .num 2])] := rfl
  have b : (docOf (rX.call cX).1).view = .obj [("a", .arr [.num 1, .num 9, .num 2])] := rfl
  rw [a, b] at h6
  simp at h6

/-- the same state refutes the first statement for a NON-empty insert: the array has no causal history, so `GoodD` fails
    (and so does `DocEq (applyD d x) d'`) — `HistOK` in `local_call_is_applicable_remote_op_partial` cannot be dropped -/
theorem not_histOK_X : ¬ HistOK dX := by
  intro h
  exact histOK_noHeadSlots h A (by decide)

/-- … for the insert of `9` above: the emitted operation is NOT `GoodD` in `dX` (no history exists), although `dX` satisfies
    `DP.DocInv` -/
theorem local_call_goodD_fails_X :
    ¬ ∃ (o : Op) (x : DOp), (rX.call cX).1.buffer = rX.buffer ++ [o] ∧ toDOp o = some x ∧ GoodD dX [x] := by
  rintro ⟨o, x, h1, h4, h5⟩
  have e : (rX.call cX).1.buffer = rX.buffer ++ [oX] := rfl
  rw [e] at h1
  have := List.append_cancel_left h1
  simp only [List.cons.injEq, and_true] at this
  subst this
  have e2 : toDOp oX = some (.a (.ins A Ts.oldest ⟨0, 6, "c", 0⟩ [.num 9])) := rfl
  rw [e2] at h4
  simp only [Option.some.injEq] at h4
  subst h4
  obtain ⟨M0, hb, hc⟩ := ordOK_of_goodD_ins h5 A ⟨.ins A Ts.oldest ⟨0, 6, "c", 0⟩ [.num 9], by simp, by simp [insOnE]⟩
  have hca := hc [⟨Ts.oldest, newSlots (.ins A Ts.oldest ⟨0, 6, "c", 0⟩ [.num 9])⟩] (by simp [insOnE])
  exact hist_noHead ⟨M0, hb, hca.prefix⟩ (by decide)

end Counter

end Orda.DLR
