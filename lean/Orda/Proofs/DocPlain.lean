import Orda.Spec.PlainDoc
import Orda.Proofs.DocConv
import Orda.Proofs.DocArr
import Orda.Proofs.PlainRefine
import Orda.Proofs.PatchDiff
import Mathlib.Tactic.SplitIfs
import Mathlib.Tactic.Tauto
namespace Orda.DP
open Orda DC

/-! ## 1. fuel-free views -/

theorem countP_lt {α : Type} (p q : α → Bool) : ∀ (l : List α), (∀ x ∈ l, p x = true → q x = true) →
    (∃ x ∈ l, p x = false ∧ q x = true) → l.countP p < l.countP q := by
  intro l
  induction l with
  | nil => intro _ h; obtain ⟨x, hx, _⟩ := h; cases hx
  | cons a l ih =>
    intro hm hx
    obtain ⟨x, hx, hpx, hqx⟩ := hx
    have hm' : ∀ x ∈ l, p x = true → q x = true := fun y hy => hm y (List.mem_cons_of_mem _ hy)
    have hle := List.countP_mono_left hm'
    rw [List.countP_cons, List.countP_cons]
    rcases List.mem_cons.mp hx with rfl | hx
    · simp only [hpx, hqx, Bool.false_eq_true, if_false, if_true]; omega
    · have := ih hm' ⟨x, hx, hpx, hqx⟩
      by_cases hpa : p a = true
      · have hqa := hm a List.mem_cons_self hpa
        rw [if_pos hpa, if_pos hqa]; omega
      · rw [if_neg hpa]
        split <;> omega

/-- the rank of a node counted inside the table: at most the table length -/
def crk (d : Doc) (rk : Ts → Nat) (c : Ts) : Nat := d.table.countP (fun n => decide (rk n.c < rk c))

theorem crk_le (d : Doc) (rk : Ts → Nat) (c : Ts) : crk d rk c ≤ d.table.length := List.countP_le_length

theorem crk_ranked {d : Doc} {rk : Ts → Nat} (hw : d.WF) (hr : Ranked d rk) : Ranked d (crk d rk) := by
  intro p n hp c hc
  have hlt := hr p n hp c hc
  obtain ⟨nc, hnc, _⟩ := hw.child p n hp c hc
  unfold crk
  apply countP_lt
  · intro x _ hx
    simp only [decide_eq_true_eq] at hx ⊢
    omega
  · refine ⟨nc, find_some_mem hnc, ?_, ?_⟩
    · simp [find_some_c hnc]
    · simp [find_some_c hnc, hlt]

/-- what the view reasoning needs -/
structure DG (d : Doc) : Prop where
  wf : d.WF
  acyc : ∃ rk, Ranked d rk
  keys : KeysND d

theorem DG.rank {d : Doc} (hg : DG d) : ∃ rk, Ranked d rk ∧ ∀ c, rk c ≤ d.table.length := by
  obtain ⟨rk, hr⟩ := hg.acyc
  exact ⟨crk d rk, crk_ranked hg.wf hr, crk_le d rk⟩

theorem viewOf_big {d : Doc} (hg : DG d) (c : Ts) (f : Nat) (hf : d.table.length < f) :
    d.viewOf f c = d.viewAt c := by
  obtain ⟨rk, hr, hb⟩ := hg.rank
  have := hb c
  exact viewOf_stable hr f (d.table.length + 1) c (by omega) (by omega)

def objView (d : Doc) (m : List (String × Ts)) : List (String × JVal) :=
  m.filterMap fun (k, ch) => if d.isTomb ch then none else some (k, d.viewAt ch)
def arrView (d : Doc) (sl : List (Ts × Ts)) : List JVal :=
  sl.filterMap fun (_, ch) => if d.isTomb ch then none else some (d.viewAt ch)

theorem viewAt_none {d : Doc} {c : Ts} (h : d.find c = none) : d.viewAt c = .null := by
  simp [Doc.viewAt, Doc.viewOf, h]

theorem viewAt_elem {d : Doc} {c : Ts} {n : DNode} {v : JVal} (h : d.find c = some n) (hk : n.kind = .elem v) :
    d.viewAt c = v := by
  obtain ⟨nc, nd, np, nk⟩ := n
  simp only at hk; subst hk
  simp [Doc.viewAt, Doc.viewOf, h]

theorem viewAt_obj {d : Doc} (hg : DG d) {c : Ts} {n : DNode} {m : List (String × Ts)} {s : Int}
    (h : d.find c = some n) (hk : n.kind = .obj m s) : d.viewAt c = .obj (objView d m) := by
  obtain ⟨rk, hr, hb⟩ := hg.rank
  obtain ⟨nc, nd, np, nk⟩ := n
  simp only at hk; subst hk
  unfold Doc.viewAt
  simp only [Doc.viewOf, h, objView, JVal.obj.injEq]
  apply List.filterMap_congr
  intro x hx
  have h1 : rk x.2 < rk c := hr c _ h x.2 (List.mem_map.mpr ⟨x, hx, rfl⟩)
  have h2 := hb c
  unfold Doc.viewAt
  rw [viewOf_stable hr d.table.length (d.table.length + 1) x.2 (by omega) (by omega)]

theorem viewAt_arr {d : Doc} (hg : DG d) {c : Ts} {n : DNode} {sl : List (Ts × Ts)} {s : Int}
    (h : d.find c = some n) (hk : n.kind = .arr sl s) : d.viewAt c = .arr (arrView d sl) := by
  obtain ⟨rk, hr, hb⟩ := hg.rank
  obtain ⟨nc, nd, np, nk⟩ := n
  simp only at hk; subst hk
  unfold Doc.viewAt
  simp only [Doc.viewOf, h, arrView, JVal.arr.injEq]
  apply List.filterMap_congr
  intro x hx
  have h1 : rk x.2 < rk c := hr c _ h x.2 (List.mem_map.mpr ⟨x, hx, rfl⟩)
  have h2 := hb c
  unfold Doc.viewAt
  rw [viewOf_stable hr d.table.length (d.table.length + 1) x.2 (by omega) (by omega)]

theorem view_eq_viewAt (d : Doc) : d.view = d.viewAt Ts.oldest := rfl

/-! ### reachability along child links -/

inductive Reach (d : Doc) (a : Ts) : Ts → Prop where
  | refl : Reach d a a
  | snoc {q : Ts} {nq : DNode} {x : Ts} : Reach d a q → d.find q = some nq → x ∈ kids nq.kind → Reach d a x

theorem Reach.trans {d : Doc} {a b c : Ts} (h1 : Reach d a b) (h2 : Reach d b c) : Reach d a c := by
  induction h2 with
  | refl => exact h1
  | snoc _ hq hx ih => exact Reach.snoc ih hq hx

theorem Reach.cons {d : Doc} {a ch x : Ts} {n : DNode} (ha : d.find a = some n) (hc : ch ∈ kids n.kind)
    (h : Reach d ch x) : Reach d a x :=
  Reach.trans (Reach.snoc Reach.refl ha hc) h

theorem Reach.rank_le {d : Doc} {rk : Ts → Nat} (hr : Ranked d rk) {a x : Ts} (h : Reach d a x) : rk x ≤ rk a := by
  induction h with
  | refl => exact Nat.le_refl _
  | snoc _ hq hx ih => have := hr _ _ hq _ hx; omega

/-- the child links form a forest: two nodes that reach a common node are comparable -/
theorem Reach.linear {d : Doc} (hw : d.WF) {a b x : Ts} (h1 : Reach d a x) (h2 : Reach d b x) :
    Reach d a b ∨ Reach d b a := by
  induction h1 with
  | refl => exact Or.inr h2
  | @snoc q nq x hq hf hx ih =>
    cases h2 with
    | refl => exact Or.inl (Reach.snoc hq hf hx)
    | @snoc q' nq' _ hq' hf' hx' =>
      have : q = q' := wf_unique_parent hw hf hf' hx hx'
      subst this
      exact ih hq'

/-- a child does not reach its parent -/
theorem not_reach_up {d : Doc} (ha : ∃ rk, Ranked d rk) {p ch : Ts} {n : DNode} (hp : d.find p = some n)
    (hc : ch ∈ kids n.kind) : ¬ Reach d ch p := by
  obtain ⟨rk, hr⟩ := ha
  intro h
  have := h.rank_le hr
  have := hr p n hp ch hc
  omega

/-- two different children of a node do not reach a common node -/
theorem sibling_disjoint {d : Doc} (hw : d.WF) (ha : ∃ rk, Ranked d rk) {p a b x : Ts} {n : DNode}
    (hp : d.find p = some n) (hac : a ∈ kids n.kind) (hbc : b ∈ kids n.kind) (hne : a ≠ b)
    (h1 : Reach d a x) (h2 : Reach d b x) : False := by
  have key : ∀ {a b : Ts}, a ∈ kids n.kind → b ∈ kids n.kind → a ≠ b → Reach d a b → False := by
    intro a b hac hbc hne h
    cases h with
    | refl => exact hne rfl
    | @snoc q nq _ hq hf hx =>
      have : q = p := wf_unique_parent hw hf hp hx hbc
      subst this
      exact not_reach_up ha hp hac hq
  rcases Reach.linear hw h1 h2 with h | h
  · exact key hac hbc hne h
  · exact key hbc hac (fun e => hne e.symm) h


/-! ### nodes whose subtree is not touched keep their view -/

/-- the subtree below `c` contains neither `hd` nor a touched child of `hd` -/
def Safe (d : Doc) (hd : Ts) (TK : Ts → Prop) (c : Ts) : Prop :=
  ¬ Reach d c hd ∧ ∀ x, TK x → ¬ Reach d c x

theorem Safe.kid {d : Doc} {hd : Ts} {TK : Ts → Prop} {c ch : Ts} {n : DNode} (h : Safe d hd TK c)
    (hf : d.find c = some n) (hc : ch ∈ kids n.kind) : Safe d hd TK ch :=
  ⟨fun r => h.1 (Reach.cons hf hc r), fun x hx r => h.2 x hx (Reach.cons hf hc r)⟩

/-- `d'` differs from `d` only at `hd`, at touched children of `hd`, and at identifiers unknown to `d` -/
def Same (d d' : Doc) (hd : Ts) (TK : Ts → Prop) : Prop :=
  ∀ c n, d.find c = some n → c ≠ hd → ¬ TK c → d'.find c = some n

theorem safe_find {d d' : Doc} {hd : Ts} {TK : Ts → Prop} (hs : Same d d' hd TK) {c : Ts} {n : DNode}
    (h : Safe d hd TK c) (hf : d.find c = some n) : d'.find c = some n :=
  hs c n hf (fun e => h.1 (e ▸ Reach.refl)) (fun t => h.2 c t Reach.refl)

theorem safe_viewOf {d d' : Doc} {hd : Ts} {TK : Ts → Prop} (hw : d.WF) (hs : Same d d' hd TK) :
    ∀ (f : Nat) (c : Ts), Safe d hd TK c → (d.find c).isSome → d'.viewOf f c = d.viewOf f c := by
  intro f
  induction f with
  | zero => intro c _ _; rfl
  | succ f ih =>
    intro c hc hsome
    obtain ⟨n, hf⟩ := Option.isSome_iff_exists.mp hsome
    have hf' := safe_find hs hc hf
    obtain ⟨nc, nd, np, nk⟩ := n
    have kidfact : ∀ x ∈ kids nk, d'.isTomb x = d.isTomb x ∧ d'.viewOf f x = d.viewOf f x := by
      intro x hx
      obtain ⟨nx, hnx, _⟩ := hw.child c _ hf x hx
      have hsx := hc.kid hf hx
      refine ⟨isTomb_of_find ((safe_find hs hsx hnx).trans hnx.symm), ih x hsx (by simp [hnx])⟩
    cases nk with
    | elem v => simp only [Doc.viewOf, hf, hf']
    | obj m s =>
      simp only [Doc.viewOf, hf, hf', JVal.obj.injEq]
      apply List.filterMap_congr
      intro x hx
      obtain ⟨h1, h2⟩ := kidfact x.2 (List.mem_map.mpr ⟨x, hx, rfl⟩)
      rw [h1, h2]
    | arr sl s =>
      simp only [Doc.viewOf, hf, hf', JVal.arr.injEq]
      apply List.filterMap_congr
      intro x hx
      obtain ⟨h1, h2⟩ := kidfact x.2 (List.mem_map.mpr ⟨x, hx, rfl⟩)
      rw [h1, h2]

theorem safe_viewAt {d d' : Doc} {hd : Ts} {TK : Ts → Prop} (hg : DG d) (hg' : DG d') (hs : Same d d' hd TK)
    {c : Ts} (hc : Safe d hd TK c) (hsome : (d.find c).isSome) : d'.viewAt c = d.viewAt c := by
  rw [← viewOf_big hg' c (max d.table.length d'.table.length + 1) (by omega),
    ← viewOf_big hg c (max d.table.length d'.table.length + 1) (by omega)]
  exact safe_viewOf hg.wf hs _ c hc hsome

theorem safe_isTomb {d d' : Doc} {hd : Ts} {TK : Ts → Prop} (hs : Same d d' hd TK)
    {c : Ts} (hc : Safe d hd TK c) (hsome : (d.find c).isSome) : d'.isTomb c = d.isTomb c := by
  obtain ⟨n, hf⟩ := Option.isSome_iff_exists.mp hsome
  exact isTomb_of_find ((safe_find hs hc hf).trans hf.symm)

/-- an untouched child of `hd` is safe -/
theorem kid_safe {d : Doc} {hd : Ts} {TK : Ts → Prop} (hw : d.WF) (ha : ∃ rk, Ranked d rk) {n : DNode}
    (hp : d.find hd = some n) {x : Ts} (hx : x ∈ kids n.kind) (hnt : ¬ TK x)
    (hTK : ∀ y, TK y → y ∈ kids n.kind) : Safe d hd TK x := by
  refine ⟨not_reach_up ha hp hx, ?_⟩
  intro y hy r
  cases r with
  | refl => exact hnt hy
  | @snoc q nq _ hq hf hyq =>
    have : q = hd := wf_unique_parent hw hf hp hyq (hTK y hy)
    subst this
    exact not_reach_up ha hp hx hq

/-! ### `locate` -/

theorem liveChildren_eq {d : Doc} {c : Ts} {n : DNode} {sl : List (Ts × Ts)} {s : Int}
    (h : d.find c = some n) (hk : n.kind = .arr sl s) :
    d.liveChildren c = (sl.filter (slotLive d)).map (·.2) := by
  unfold Doc.liveChildren
  rw [DA.findArr_some_iff.mpr ⟨h, hk⟩]

theorem locate_key_inv {d : Doc} {k : String} {r : List PlainDoc.Seg} {cur hd : Ts}
    (h : d.locate (.key k :: r) cur = some hd) :
    ∃ n m s ch, d.find cur = some n ∧ n.kind = .obj m s ∧ alFind k m = some ch ∧ d.isTomb ch = false ∧
      d.locate r ch = some hd := by
  simp only [Doc.locate] at h
  split at h
  · rename_i n m s hfo
    obtain ⟨h1, h2⟩ := findObj_some_iff.mp hfo
    split at h
    · rename_i ch hch
      split at h
      · cases h
      · rename_i ht
        exact ⟨n, m, s, ch, h1, h2, hch, by simpa using ht, h⟩
    · cases h
  · cases h

theorem locate_idx_inv {d : Doc} {i : Nat} {r : List PlainDoc.Seg} {cur hd : Ts}
    (h : d.locate (.idx i :: r) cur = some hd) :
    ∃ n sl s ch, d.find cur = some n ∧ n.kind = .arr sl s ∧
      ((sl.filter (slotLive d)).map (·.2))[i]? = some ch ∧ d.locate r ch = some hd := by
  simp only [Doc.locate] at h
  split at h
  · rename_i x hfa
    obtain ⟨n, sl, s⟩ := x
    obtain ⟨h1, h2⟩ := DA.findArr_some_iff.mp hfa
    split at h
    · rename_i ch hch
      rw [liveChildren_eq h1 h2] at hch
      exact ⟨n, sl, s, ch, h1, h2, hch, h⟩
    · cases h
  · cases h

theorem mem_of_getElem?_filter {d : Doc} {sl : List (Ts × Ts)} {i : Nat} {ch : Ts}
    (h : ((sl.filter (slotLive d)).map (·.2))[i]? = some ch) :
    ch ∈ sl.map (·.2) ∧ d.isTomb ch = false := by
  have hm := List.mem_of_getElem? h
  obtain ⟨s, hs, rfl⟩ := List.mem_map.mp hm
  obtain ⟨h1, h2⟩ := List.mem_filter.mp hs
  exact ⟨List.mem_map.mpr ⟨s, h1, rfl⟩, by simpa [slotLive] using h2⟩

theorem locate_reach {d : Doc} {hd : Ts} : ∀ (π : List PlainDoc.Seg) (cur : Ts),
    d.locate π cur = some hd → Reach d cur hd := by
  intro π
  induction π with
  | nil => intro cur h; simp only [Doc.locate, Option.some.injEq] at h; subst h; exact Reach.refl
  | cons sg r ih =>
    intro cur h
    cases sg with
    | key k =>
      obtain ⟨n, m, s, ch, h1, h2, h3, _, h5⟩ := locate_key_inv h
      exact Reach.cons h1 (by rw [h2]; exact alFind_mem_vals h3) (ih ch h5)
    | idx i =>
      obtain ⟨n, sl, s, ch, h1, h2, h3, h5⟩ := locate_idx_inv h
      exact Reach.cons h1 (by rw [h2]; exact (mem_of_getElem?_filter h3).1) (ih ch h5)

theorem objView_find {d : Doc} {m : List (String × Ts)} (hk : (m.map (·.1)).Nodup) (k : String) :
    alFind k (objView d m) = (alFind k m).bind (fun ch => if d.isTomb ch then none else some (d.viewAt ch)) :=
  alFind_filterMap_view d.isTomb d.viewAt k m hk

theorem arrView_eq (d : Doc) (sl : List (Ts × Ts)) :
    arrView d sl = ((sl.filter (slotLive d)).map (·.2)).map d.viewAt := by
  induction sl with
  | nil => rfl
  | cons x xs ih =>
    unfold arrView at ih ⊢
    simp only [List.filterMap_cons, List.filter_cons, slotLive]
    by_cases h : d.isTomb x.2 = true
    · simp [h, ih]
    · simp [h, ih]

theorem locate_sub {d : Doc} (hg : DG d) {hd : Ts} : ∀ (π : List PlainDoc.Seg) (cur : Ts),
    d.locate π cur = some hd → PlainDoc.sub π (d.viewAt cur).canon = some (d.viewAt hd).canon := by
  intro π
  induction π with
  | nil => intro cur h; simp only [Doc.locate, Option.some.injEq] at h; subst h; rfl
  | cons sg r ih =>
    intro cur h
    cases sg with
    | key k =>
      obtain ⟨n, m, s, ch, h1, h2, h3, h4, h5⟩ := locate_key_inv h
      rw [viewAt_obj hg h1 h2, canon_obj]
      simp only [PlainDoc.sub]
      rw [alFind_canonKvs, objView_find (hg.keys cur n m s h1 h2), h3]
      simp only [Option.bind_some, h4, Bool.false_eq_true, if_false, Option.map_some]
      exact ih ch h5
    | idx i =>
      obtain ⟨n, sl, s, ch, h1, h2, h3, h5⟩ := locate_idx_inv h
      rw [viewAt_arr hg h1 h2, canon_arr, canonList_eq_map, arrView_eq]
      simp only [PlainDoc.sub, List.getElem?_map, h3, Option.map_some]
      exact ih ch h5

theorem map_set_of_nodup {α β : Type} {f f' : α → β} : ∀ (l : List α), l.Nodup → ∀ (i : Nat) (a : α),
    l[i]? = some a → (∀ x ∈ l, x ≠ a → f' x = f x) → (l.map f).set i (f' a) = l.map f' := by
  intro l
  induction l with
  | nil => intro _ i a h; simp at h
  | cons x xs ih =>
    intro hnd i a hi h
    rw [List.nodup_cons] at hnd
    cases i with
    | zero =>
      simp only [List.getElem?_cons_zero, Option.some.injEq] at hi
      subst hi
      simp only [List.map_cons, List.set_cons_zero, List.cons.injEq, true_and]
      apply List.map_congr_left
      intro y hy
      exact (h y (List.mem_cons_of_mem _ hy) (fun e => hnd.1 (e ▸ hy))).symm
    | succ j =>
      simp only [List.getElem?_cons_succ] at hi
      have hmem := List.mem_of_getElem? hi
      have hx : f' x = f x := h x List.mem_cons_self (fun e => hnd.1 (e ▸ hmem))
      simp only [List.map_cons, List.set_cons_succ, hx, List.cons.injEq, true_and]
      exact ih hnd.2 j a hi (fun y hy => h y (List.mem_cons_of_mem _ hy))

/-- THE frame property: a change at `hd` shows in the root view exactly at the path of `hd` -/
theorem frame {d d' : Doc} {hd : Ts} {TK : Ts → Prop} (hg : DG d) (hg' : DG d') (hs : Same d d' hd TK)
    (hTK : ∀ x, TK x → ∃ n, d.find hd = some n ∧ x ∈ kids n.kind) (hhd : d'.isTomb hd = false) :
    ∀ (π : List PlainDoc.Seg) (cur : Ts), d.locate π cur = some hd →
      PlainDoc.replace (d'.viewAt hd).canon π (d.viewAt cur).canon = some (d'.viewAt cur).canon := by
  intro π
  induction π with
  | nil => intro cur h; simp only [Doc.locate, Option.some.injEq] at h; subst h; rfl
  | cons sg r ih =>
    intro cur h
    have hw := hg.wf
    have ha := hg.acyc
    -- facts common to both kinds of step
    have common : ∀ {n : DNode} {ch : Ts}, d.find cur = some n → ch ∈ kids n.kind → d.isTomb ch = false →
        d.locate r ch = some hd →
        d'.find cur = some n ∧ d'.isTomb ch = false ∧ (∀ x ∈ kids n.kind, x ≠ ch → Safe d hd TK x ∧ (d.find x).isSome) := by
      intro n ch h1 hch hlive h5
      have hr : Reach d ch hd := locate_reach r ch h5
      have hne : cur ≠ hd := fun e => not_reach_up ha h1 hch (e ▸ hr)
      have hntk : ¬ TK cur := by
        intro t
        obtain ⟨nh, hnh, hk⟩ := hTK cur t
        exact not_reach_up ha hnh hk (Reach.cons h1 hch hr)
      have hcnt : ¬ TK ch := by
        intro t
        obtain ⟨nh, hnh, hk⟩ := hTK ch t
        exact hne (wf_unique_parent hw h1 hnh hch hk)
      refine ⟨hs cur n h1 hne hntk, ?_, ?_⟩
      · by_cases e : ch = hd
        · rw [e]; exact hhd
        · obtain ⟨nc, hnc, _⟩ := hw.child cur n h1 ch hch
          rw [isTomb_of_find ((hs ch nc hnc e hcnt).trans hnc.symm)]; exact hlive
      · intro x hx hxne
        obtain ⟨nx, hnx, _⟩ := hw.child cur n h1 x hx
        refine ⟨⟨fun rx => sibling_disjoint hw ha h1 hx hch hxne rx hr, ?_⟩, by simp [hnx]⟩
        intro y hy ry
        obtain ⟨nh, hnh, hk⟩ := hTK y hy
        cases ry with
        | refl => exact hne (wf_unique_parent hw h1 hnh hx hk)
        | @snoc q nq _ hq hf hyq =>
          have : q = hd := wf_unique_parent hw hf hnh hyq hk
          subst this
          exact sibling_disjoint hw ha h1 hx hch hxne hq hr
    cases sg with
    | key k =>
      obtain ⟨n, m, s, ch, h1, h2, h3, h4, h5⟩ := locate_key_inv h
      have hchk : ch ∈ kids n.kind := by rw [h2]; exact alFind_mem_vals h3
      obtain ⟨hf', hlive', hsib⟩ := common h1 hchk h4 h5
      have hkn := hg.keys cur n m s h1 h2
      have hinj : (m.map (·.2)).Nodup := by have := hw.inj cur n h1; rwa [h2] at this
      rw [viewAt_obj hg h1 h2, viewAt_obj hg' hf' h2, canon_obj, canon_obj]
      simp only [PlainDoc.replace]
      have hfind : alFind k (JVal.canonKvs (objView d m)) = some (d.viewAt ch).canon := by
        rw [alFind_canonKvs, objView_find hkn, h3]
        simp [h4]
      rw [hfind]
      simp only [ih ch h5, Option.map_some, Option.some.injEq, JVal.obj.injEq]
      symm
      apply ksorted_ext (ksorted_canonKvs _) (ksorted_objPut _ _ (ksorted_canonKvs _))
      intro k'
      rw [alFind_objPut, alFind_canonKvs, alFind_canonKvs, objView_find hkn, objView_find hkn]
      by_cases e : k = k'
      · subst e
        simp [h3, hlive']
      · simp only [e, if_false]
        cases hx : alFind k' m with
        | none => rfl
        | some x =>
          have hxk : x ∈ kids n.kind := by rw [h2]; exact alFind_mem_vals hx
          have hxne : x ≠ ch := fun e' => e (alFind_inj_of_vals_nodup hinj h3 (e' ▸ hx))
          obtain ⟨hsafe, hsome⟩ := hsib x hxk hxne
          simp only [Option.bind_some, safe_isTomb hs hsafe hsome, safe_viewAt hg hg' hs hsafe hsome]
    | idx i =>
      obtain ⟨n, sl, s, ch, h1, h2, h3, h5⟩ := locate_idx_inv h
      obtain ⟨hchk', h4⟩ := mem_of_getElem?_filter h3
      have hchk : ch ∈ kids n.kind := by rw [h2]; exact hchk'
      obtain ⟨hf', hlive', hsib⟩ := common h1 hchk h4 h5
      have hinj : (sl.map (·.2)).Nodup := by have := hw.inj cur n h1; rwa [h2] at this
      have hfilt : sl.filter (slotLive d') = sl.filter (slotLive d) := by
        apply List.filter_congr
        intro x hx
        have hxk : x.2 ∈ kids n.kind := by rw [h2]; exact List.mem_map.mpr ⟨x, hx, rfl⟩
        unfold slotLive
        by_cases e : x.2 = ch
        · rw [e, h4, hlive']
        · obtain ⟨hsafe, hsome⟩ := hsib x.2 hxk e
          rw [safe_isTomb hs hsafe hsome]
      rw [viewAt_arr hg h1 h2, viewAt_arr hg' hf' h2, canon_arr, canon_arr, canonList_eq_map, canonList_eq_map,
        arrView_eq, arrView_eq, hfilt]
      simp only [PlainDoc.replace, List.getElem?_map, h3, Option.map_some, ih ch h5, Option.some.injEq,
        JVal.arr.injEq]
      have e1 : ∀ (g : Ts → JVal) (L : List Ts),
          List.map JVal.canon (List.map g L) = List.map (fun x => (g x).canon) L :=
        fun g L => by rw [List.map_map]; rfl
      rw [e1, e1]
      have hnd : ((sl.filter (slotLive d)).map (·.2)).Nodup :=
        List.Nodup.sublist (List.Sublist.map _ List.filter_sublist) hinj
      apply map_set_of_nodup (f := fun x => (d.viewAt x).canon) (f' := fun x => (d'.viewAt x).canon) _ hnd i ch h3
      intro x hx hxne
      obtain ⟨sx, hsx, rfl⟩ := List.mem_map.mp hx
      have hxk : sx.2 ∈ kids n.kind := by rw [h2]; exact List.mem_map.mpr ⟨sx, (List.mem_filter.mp hsx).1, rfl⟩
      obtain ⟨hsafe, hsome⟩ := hsib sx.2 hxk hxne
      simp only [safe_viewAt hg hg' hs hsafe hsome]

/-! ## 2. creation of nodes: further facts -/

def Scalar : JVal → Prop
  | .bool _ | .num _ | .str _ => True
  | _ => False

/-- shape of a freshly created node -/
def NodeOK (n : DNode) : Prop :=
  match n.kind with
  | .elem v => Scalar v
  | .obj m s => s = (m.length : Int)
  | .arr sl s => s = (sl.length : Int) ∧ sl.map (·.1) = sl.map (·.2)

/-- every created node is a root (child of `parent`) or is referenced by the created node that is its parent -/
def Lnk (ns : List DNode) (roots : List Ts) (parent : Ts) : Prop :=
  ∀ n ∈ ns, (n.c ∈ roots ∧ n.parent = some parent) ∨ ∃ p ∈ ns, n.parent = some p.c ∧ n.c ∈ kids p.kind

theorem lnk_append {a b : List DNode} {c : Ts} {cs : List Ts} {parent : Ts} (ha : Lnk a [c] parent)
    (hb : Lnk b cs parent) : Lnk (a ++ b) (c :: cs) parent := by
  intro n hn
  rcases List.mem_append.mp hn with h | h
  · rcases ha n h with ⟨h1, h2⟩ | ⟨p, hp, h2⟩
    · simp only [List.mem_singleton] at h1
      exact Or.inl ⟨by rw [h1]; exact List.mem_cons_self, h2⟩
    · exact Or.inr ⟨p, List.mem_append_left _ hp, h2⟩
  · rcases hb n h with ⟨h1, h2⟩ | ⟨p, hp, h2⟩
    · exact Or.inl ⟨List.mem_cons_of_mem _ h1, h2⟩
    · exact Or.inr ⟨p, List.mem_append_right _ hp, h2⟩

theorem lnk_container {ns : List DNode} {cs : List Ts} {ts parent : Ts} (kind : DKind) (hk : kids kind = cs)
    (h : Lnk ns cs ts) : Lnk (⟨ts, none, some parent, kind⟩ :: ns) [ts] parent := by
  intro n hn
  rcases List.mem_cons.mp hn with rfl | hn
  · exact Or.inl ⟨List.mem_singleton.mpr rfl, rfl⟩
  · rcases h n hn with ⟨h1, h2⟩ | ⟨p, hp, h2⟩
    · exact Or.inr ⟨_, List.mem_cons_self, h2, by rw [hk]; exact h1⟩
    · exact Or.inr ⟨p, List.mem_cons_of_mem _ hp, h2⟩

theorem createArrItems_len (parent : Ts) : ∀ (vs : List JVal) (ts : Ts) (ns : List DNode) (cs : List Ts) (ts' : Ts),
    createArrItems parent ts vs = .ok (ns, cs, ts') → cs.length = vs.length
  | [], ts, ns, cs, ts', h => by
    simp only [createArrItems, Outcome.ok.injEq, Prod.mk.injEq] at h
    obtain ⟨_, rfl, _⟩ := h
    rfl
  | v :: vs, ts, ns, cs, ts', h => by
    simp only [createArrItems] at h
    split at h
    · rename_i ns1 c ts1 h1
      split at h
      · rename_i ns2 cs2 ts2 h2
        simp only [Outcome.ok.injEq, Prod.mk.injEq] at h
        obtain ⟨_, rfl, _⟩ := h
        simp only [List.length_cons, createArrItems_len parent vs ts1 ns2 cs2 ts2 h2]
      · cases h
      · cases h
    · cases h
    · cases h

mutual
theorem createNode_spec2 (parent ts : Ts) : ∀ (v : JVal) (r : List DNode × Ts × Ts),
    createNode parent ts v = .ok r → (∀ n ∈ r.1, NodeOK n) ∧ Lnk r.1 [r.2.1] parent
  | .null, r, h => by simp [createNode] at h
  | .bool b, r, h => by
    simp only [createNode, Outcome.ok.injEq] at h; subst h
    refine ⟨fun n hn => ?_, fun n hn => ?_⟩
    · simp only [List.mem_singleton] at hn; subst hn; simp [NodeOK, Scalar]
    · simp only [List.mem_singleton] at hn; subst hn; exact Or.inl ⟨by simp, rfl⟩
  | .num b, r, h => by
    simp only [createNode, Outcome.ok.injEq] at h; subst h
    refine ⟨fun n hn => ?_, fun n hn => ?_⟩
    · simp only [List.mem_singleton] at hn; subst hn; simp [NodeOK, Scalar]
    · simp only [List.mem_singleton] at hn; subst hn; exact Or.inl ⟨by simp, rfl⟩
  | .str b, r, h => by
    simp only [createNode, Outcome.ok.injEq] at h; subst h
    refine ⟨fun n hn => ?_, fun n hn => ?_⟩
    · simp only [List.mem_singleton] at hn; subst hn; simp [NodeOK, Scalar]
    · simp only [List.mem_singleton] at hn; subst hn; exact Or.inl ⟨by simp, rfl⟩
  | .obj kvs, r, h => by
    simp only [createNode] at h
    split at h
    · rename_i ns m ts' hi
      simp only [Outcome.ok.injEq] at h; subst h
      obtain ⟨i1, i2⟩ := createObjItems_spec2 ts ts.nextDelim kvs ns m ts' hi
      refine ⟨fun n hn => ?_, lnk_container _ rfl i2⟩
      rcases List.mem_cons.mp hn with rfl | hn
      · simp [NodeOK]
      · exact i1 n hn
    · cases h
    · cases h
  | .arr vs, r, h => by
    simp only [createNode] at h
    split at h
    · rename_i ns cs ts' hi
      simp only [Outcome.ok.injEq] at h; subst h
      obtain ⟨i1, i2⟩ := createArrItems_spec2 ts ts.nextDelim vs ns cs ts' hi
      refine ⟨fun n hn => ?_, lnk_container _ (by simp [kids, Function.comp_def]) i2⟩
      rcases List.mem_cons.mp hn with rfl | hn
      · simp [NodeOK, Function.comp_def]
      · exact i1 n hn
    · cases h
    · cases h
theorem createArrItems_spec2 (parent ts : Ts) : ∀ (vs : List JVal) (ns : List DNode) (cs : List Ts) (ts' : Ts),
    createArrItems parent ts vs = .ok (ns, cs, ts') → (∀ n ∈ ns, NodeOK n) ∧ Lnk ns cs parent
  | [], ns, cs, ts', h => by
    simp only [createArrItems, Outcome.ok.injEq, Prod.mk.injEq] at h
    obtain ⟨rfl, rfl, rfl⟩ := h
    exact ⟨by simp, fun n hn => by cases hn⟩
  | v :: vs, ns, cs, ts', h => by
    simp only [createArrItems] at h
    split at h
    · rename_i ns1 c ts1 h1
      split at h
      · rename_i ns2 cs2 ts2 h2
        simp only [Outcome.ok.injEq, Prod.mk.injEq] at h
        obtain ⟨rfl, rfl, rfl⟩ := h
        obtain ⟨a1, a2⟩ := createNode_spec2 parent ts v _ h1
        obtain ⟨b1, b2⟩ := createArrItems_spec2 parent ts1 vs _ _ _ h2
        refine ⟨fun n hn => ?_, lnk_append a2 b2⟩
        rcases List.mem_append.mp hn with h | h
        · exact a1 n h
        · exact b1 n h
      · cases h
      · cases h
    · cases h
    · cases h
theorem createObjItems_spec2 (parent ts : Ts) : ∀ (kvs : List (String × JVal)) (ns : List DNode)
    (m : List (String × Ts)) (ts' : Ts),
    createObjItems parent ts kvs = .ok (ns, m, ts') → (∀ n ∈ ns, NodeOK n) ∧ Lnk ns (m.map (·.2)) parent
  | [], ns, cs, ts', h => by
    simp only [createObjItems, Outcome.ok.injEq, Prod.mk.injEq] at h
    obtain ⟨rfl, rfl, rfl⟩ := h
    exact ⟨by simp, fun n hn => by cases hn⟩
  | (k, v) :: kvs, ns, cs, ts', h => by
    simp only [createObjItems] at h
    split at h
    · rename_i ns1 c ts1 h1
      split at h
      · rename_i ns2 cs2 ts2 h2
        simp only [Outcome.ok.injEq, Prod.mk.injEq] at h
        obtain ⟨rfl, rfl, rfl⟩ := h
        obtain ⟨a1, a2⟩ := createNode_spec2 parent ts v _ h1
        obtain ⟨b1, b2⟩ := createObjItems_spec2 parent ts1 kvs _ _ _ h2
        refine ⟨fun n hn => ?_, lnk_append a2 b2⟩
        rcases List.mem_append.mp hn with h | h
        · exact a1 n h
        · exact b1 n h
      · cases h
      · cases h
    · cases h
    · cases h
end

mutual
theorem createNode_ok (parent ts : Ts) : ∀ (v : JVal), v.hasNull = false → ∃ r, createNode parent ts v = .ok r
  | .null, h => by simp [JVal.hasNull] at h
  | .bool b, _ => by simp only [createNode]; exact ⟨_, rfl⟩
  | .num b, _ => by simp only [createNode]; exact ⟨_, rfl⟩
  | .str b, _ => by simp only [createNode]; exact ⟨_, rfl⟩
  | .obj kvs, h => by
    simp only [JVal.hasNull] at h
    obtain ⟨r, hr⟩ := createObjItems_ok ts ts.nextDelim kvs h
    simp only [createNode, hr]; exact ⟨_, rfl⟩
  | .arr vs, h => by
    simp only [JVal.hasNull] at h
    obtain ⟨r, hr⟩ := createArrItems_ok ts ts.nextDelim vs h
    simp only [createNode, hr]; exact ⟨_, rfl⟩
theorem createArrItems_ok (parent ts : Ts) : ∀ (vs : List JVal), JVal.hasNullList vs = false →
    ∃ r, createArrItems parent ts vs = .ok r
  | [], _ => by simp only [createArrItems]; exact ⟨_, rfl⟩
  | v :: vs, h => by
    simp only [JVal.hasNullList, Bool.or_eq_false_iff] at h
    obtain ⟨⟨ns, c, ts1⟩, h1⟩ := createNode_ok parent ts v h.1
    obtain ⟨⟨ns2, cs, ts2⟩, h2⟩ := createArrItems_ok parent ts1 vs h.2
    simp only [createArrItems, h1, h2]; exact ⟨_, rfl⟩
theorem createObjItems_ok (parent ts : Ts) : ∀ (kvs : List (String × JVal)), JVal.hasNullKvs kvs = false →
    ∃ r, createObjItems parent ts kvs = .ok r
  | [], _ => by simp only [createObjItems]; exact ⟨_, rfl⟩
  | (k, v) :: kvs, h => by
    simp only [JVal.hasNullKvs, Bool.or_eq_false_iff] at h
    obtain ⟨⟨ns, c, ts1⟩, h1⟩ := createNode_ok parent ts v h.1
    obtain ⟨⟨ns2, cs, ts2⟩, h2⟩ := createObjItems_ok parent ts1 kvs h.2
    simp only [createObjItems, h1, h2]; exact ⟨_, rfl⟩
end

theorem any_hasNull_iff (vs : List JVal) : vs.any JVal.hasNull = JVal.hasNullList vs := by
  induction vs with
  | nil => rfl
  | cons v vs ih => simp [JVal.hasNullList, ih]

end Orda.DP
