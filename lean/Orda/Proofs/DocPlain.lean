/-
C03 for documents: on a single replica the JSON document behaves as a plain JSON tree (`Spec/PlainDoc`).
All lemmas live in namespace `Orda.DP`.

Contents
* 1. fuel-free views: acyclicity (`∃ rk, DC.Ranked d rk`) is enough for the fuel `table.length + 1` (`crk`,
  `viewOf_big`, `viewAt_obj`, `viewAt_arr`); reachability along child links (`Reach`), untouched subtrees keep
  their view (`Safe`, `Same`, `safe_viewAt`); `locate_sub` and THE frame property `frame`: a change at a
  located node shows in the root view exactly at its path.
* 2. further facts about `createNode` (`createNode_spec2`: shape and linkage of the created nodes, `createNode_ok`:
  a value without null is creatable).
* 3. the invariant `DInv L b d` / `DocInv r`, and a generic step `Stp` (new nodes, a new kind for the node `hd`,
  some children of `hd` buried or tombstoned) that preserves it (`Stp.next`, `Stp.next_keys`).
* 4. the local operations as steps: `put_run`, `remove_run`, `insert_run`, `delete_run`, `upd1_run` + `update_loop`
  (`update_run`).
* 5. the public calls: `call_full` (effect on the replica `Eff` and refinement `Refines`, per call).
* 6. the theorems asked for: `docInv_new`, `docInv_call`, `docInv_calls`, `doc_call_no_panic`, `doc_call_err_noop`,
  `doc_call_ok_queues_one`, `doc_call_refines`, `doc_live_handle_has_path`, `doc_located_not_garbage`,
  `doc_deleted_container_refused`.
* 7. `DP.Ex`: a nested document, a handle below an array, `doc_call_refines` instantiated.
-/
import Orda.Spec.PlainDoc
import Orda.Proofs.DocConv
import Orda.Proofs.DocArr
import Orda.Proofs.PlainRefine
import Orda.Proofs.PatchDiff
import Mathlib.Tactic.SplitIfs
import Mathlib.Tactic.Tauto
import Mathlib.Tactic.Set
namespace Orda.DP
open Orda DC

/-! ## 1. fuel-free views -/

theorem countP_lt {α : Type} (p q : α → Bool) : ∀ (l : List α), (∀ x ∈ l, p x = true → q x = true) →
    (∃ x ∈ l, p x = false ∧ q x = true) → l.countP p < l.countP q := by
  intro l
  induction l with
  | nil => intro _ h; obtain ⟨x, hx, _⟩ := h; cases hx
  | cons a l ih =>
    intro hm hx
    obtain ⟨x, hx, hpx, hqx⟩ := hx
    have hm' : ∀ x ∈ l, p x = true → q x = true := fun y hy => hm y (List.mem_cons_of_mem _ hy)
    have hle := List.countP_mono_left hm'
    rw [List.countP_cons, List.countP_cons]
    rcases List.mem_cons.mp hx with rfl | hx
    · simp only [hpx, hqx, Bool.false_eq_true, if_false, if_true]; omega
    · have := ih hm' ⟨x, hx, hpx, hqx⟩
      by_cases hpa : p a = true
      · have hqa := hm a List.mem_cons_self hpa
        rw [if_pos hpa, if_pos hqa]; omega
      · rw [if_neg hpa]
        split <;> omega

/-- the rank of a node counted inside the table: at most the table length -/
def crk (d : Doc) (rk : Ts → Nat) (c : Ts) : Nat := d.table.countP (fun n => decide (rk n.c < rk c))

theorem crk_le (d : Doc) (rk : Ts → Nat) (c : Ts) : crk d rk c ≤ d.table.length := List.countP_le_length

theorem crk_ranked {d : Doc} {rk : Ts → Nat} (hw : d.WF) (hr : Ranked d rk) : Ranked d (crk d rk) := by
  intro p n hp c hc
  have hlt := hr p n hp c hc
  obtain ⟨nc, hnc, _⟩ := hw.child p n hp c hc
  unfold crk
  apply countP_lt
  · intro x _ hx
    simp only [decide_eq_true_eq] at hx ⊢
    omega
  · refine ⟨nc, find_some_mem hnc, ?_, ?_⟩
    · simp [find_some_c hnc]
    · simp [find_some_c hnc, hlt]

/-- what the view reasoning needs -/
structure DG (d : Doc) : Prop where
  wf : d.WF
  acyc : ∃ rk, Ranked d rk
  keys : KeysND d

theorem DG.rank {d : Doc} (hg : DG d) : ∃ rk, Ranked d rk ∧ ∀ c, rk c ≤ d.table.length := by
  obtain ⟨rk, hr⟩ := hg.acyc
  exact ⟨crk d rk, crk_ranked hg.wf hr, crk_le d rk⟩

theorem viewOf_big {d : Doc} (hg : DG d) (c : Ts) (f : Nat) (hf : d.table.length < f) :
    d.viewOf f c = d.viewAt c := by
  obtain ⟨rk, hr, hb⟩ := hg.rank
  have := hb c
  exact viewOf_stable hr f (d.table.length + 1) c (by omega) (by omega)

def objView (d : Doc) (m : List (String × Ts)) : List (String × JVal) :=
  m.filterMap fun (k, ch) => if d.isTomb ch then none else some (k, d.viewAt ch)
def arrView (d : Doc) (sl : List (Ts × Ts)) : List JVal :=
  sl.filterMap fun (_, ch) => if d.isTomb ch then none else some (d.viewAt ch)

theorem viewAt_none {d : Doc} {c : Ts} (h : d.find c = none) : d.viewAt c = .null := by
  simp [Doc.viewAt, Doc.viewOf, h]

theorem viewAt_elem {d : Doc} {c : Ts} {n : DNode} {v : JVal} (h : d.find c = some n) (hk : n.kind = .elem v) :
    d.viewAt c = v := by
  obtain ⟨nc, nd, np, nk⟩ := n
  simp only at hk; subst hk
  simp [Doc.viewAt, Doc.viewOf, h]

theorem viewAt_obj {d : Doc} (hg : DG d) {c : Ts} {n : DNode} {m : List (String × Ts)} {s : Int}
    (h : d.find c = some n) (hk : n.kind = .obj m s) : d.viewAt c = .obj (objView d m) := by
  obtain ⟨rk, hr, hb⟩ := hg.rank
  obtain ⟨nc, nd, np, nk⟩ := n
  simp only at hk; subst hk
  unfold Doc.viewAt
  simp only [Doc.viewOf, h, objView, JVal.obj.injEq]
  apply List.filterMap_congr
  intro x hx
  have h1 : rk x.2 < rk c := hr c _ h x.2 (List.mem_map.mpr ⟨x, hx, rfl⟩)
  have h2 := hb c
  unfold Doc.viewAt
  rw [viewOf_stable hr d.table.length (d.table.length + 1) x.2 (by omega) (by omega)]

theorem viewAt_arr {d : Doc} (hg : DG d) {c : Ts} {n : DNode} {sl : List (Ts × Ts)} {s : Int}
    (h : d.find c = some n) (hk : n.kind = .arr sl s) : d.viewAt c = .arr (arrView d sl) := by
  obtain ⟨rk, hr, hb⟩ := hg.rank
  obtain ⟨nc, nd, np, nk⟩ := n
  simp only at hk; subst hk
  unfold Doc.viewAt
  simp only [Doc.viewOf, h, arrView, JVal.arr.injEq]
  apply List.filterMap_congr
  intro x hx
  have h1 : rk x.2 < rk c := hr c _ h x.2 (List.mem_map.mpr ⟨x, hx, rfl⟩)
  have h2 := hb c
  unfold Doc.viewAt
  rw [viewOf_stable hr d.table.length (d.table.length + 1) x.2 (by omega) (by omega)]

theorem view_eq_viewAt (d : Doc) : d.view = d.viewAt Ts.oldest := rfl

/-! ### reachability along child links -/

inductive Reach (d : Doc) (a : Ts) : Ts → Prop where
  | refl : Reach d a a
  | snoc {q : Ts} {nq : DNode} {x : Ts} : Reach d a q → d.find q = some nq → x ∈ kids nq.kind → Reach d a x

theorem Reach.trans {d : Doc} {a b c : Ts} (h1 : Reach d a b) (h2 : Reach d b c) : Reach d a c := by
  induction h2 with
  | refl => exact h1
  | snoc _ hq hx ih => exact Reach.snoc ih hq hx

theorem Reach.cons {d : Doc} {a ch x : Ts} {n : DNode} (ha : d.find a = some n) (hc : ch ∈ kids n.kind)
    (h : Reach d ch x) : Reach d a x :=
  Reach.trans (Reach.snoc Reach.refl ha hc) h

theorem Reach.rank_le {d : Doc} {rk : Ts → Nat} (hr : Ranked d rk) {a x : Ts} (h : Reach d a x) : rk x ≤ rk a := by
  induction h with
  | refl => exact Nat.le_refl _
  | snoc _ hq hx ih => have := hr _ _ hq _ hx; omega

/-- the child links form a forest: two nodes that reach a common node are comparable -/
theorem Reach.linear {d : Doc} (hw : d.WF) {a b x : Ts} (h1 : Reach d a x) (h2 : Reach d b x) :
    Reach d a b ∨ Reach d b a := by
  induction h1 with
  | refl => exact Or.inr h2
  | @snoc q nq x hq hf hx ih =>
    cases h2 with
    | refl => exact Or.inl (Reach.snoc hq hf hx)
    | @snoc q' nq' _ hq' hf' hx' =>
      have : q = q' := wf_unique_parent hw hf hf' hx hx'
      subst this
      exact ih hq'

/-- a child does not reach its parent -/
theorem not_reach_up {d : Doc} (ha : ∃ rk, Ranked d rk) {p ch : Ts} {n : DNode} (hp : d.find p = some n)
    (hc : ch ∈ kids n.kind) : ¬ Reach d ch p := by
  obtain ⟨rk, hr⟩ := ha
  intro h
  have := h.rank_le hr
  have := hr p n hp ch hc
  omega

/-- two different children of a node do not reach a common node -/
theorem sibling_disjoint {d : Doc} (hw : d.WF) (ha : ∃ rk, Ranked d rk) {p a b x : Ts} {n : DNode}
    (hp : d.find p = some n) (hac : a ∈ kids n.kind) (hbc : b ∈ kids n.kind) (hne : a ≠ b)
    (h1 : Reach d a x) (h2 : Reach d b x) : False := by
  have key : ∀ {a b : Ts}, a ∈ kids n.kind → b ∈ kids n.kind → a ≠ b → Reach d a b → False := by
    intro a b hac hbc hne h
    cases h with
    | refl => exact hne rfl
    | @snoc q nq _ hq hf hx =>
      have : q = p := wf_unique_parent hw hf hp hx hbc
      subst this
      exact not_reach_up ha hp hac hq
  rcases Reach.linear hw h1 h2 with h | h
  · exact key hac hbc hne h
  · exact key hbc hac (fun e => hne e.symm) h


/-! ### nodes whose subtree is not touched keep their view -/

/-- the subtree below `c` contains neither `hd` nor a touched child of `hd` -/
def Safe (d : Doc) (hd : Ts) (TK : Ts → Prop) (c : Ts) : Prop :=
  ¬ Reach d c hd ∧ ∀ x, TK x → ¬ Reach d c x

theorem Safe.kid {d : Doc} {hd : Ts} {TK : Ts → Prop} {c ch : Ts} {n : DNode} (h : Safe d hd TK c)
    (hf : d.find c = some n) (hc : ch ∈ kids n.kind) : Safe d hd TK ch :=
  ⟨fun r => h.1 (Reach.cons hf hc r), fun x hx r => h.2 x hx (Reach.cons hf hc r)⟩

/-- `d'` differs from `d` only at `hd`, at touched children of `hd`, and at identifiers unknown to `d` -/
def Same (d d' : Doc) (hd : Ts) (TK : Ts → Prop) : Prop :=
  ∀ c n, d.find c = some n → c ≠ hd → ¬ TK c → d'.find c = some n

theorem safe_find {d d' : Doc} {hd : Ts} {TK : Ts → Prop} (hs : Same d d' hd TK) {c : Ts} {n : DNode}
    (h : Safe d hd TK c) (hf : d.find c = some n) : d'.find c = some n :=
  hs c n hf (fun e => h.1 (e ▸ Reach.refl)) (fun t => h.2 c t Reach.refl)

theorem safe_viewOf {d d' : Doc} {hd : Ts} {TK : Ts → Prop} (hw : d.WF) (hs : Same d d' hd TK) :
    ∀ (f : Nat) (c : Ts), Safe d hd TK c → (d.find c).isSome → d'.viewOf f c = d.viewOf f c := by
  intro f
  induction f with
  | zero => intro c _ _; rfl
  | succ f ih =>
    intro c hc hsome
    obtain ⟨n, hf⟩ := Option.isSome_iff_exists.mp hsome
    have hf' := safe_find hs hc hf
    obtain ⟨nc, nd, np, nk⟩ := n
    have kidfact : ∀ x ∈ kids nk, d'.isTomb x = d.isTomb x ∧ d'.viewOf f x = d.viewOf f x := by
      intro x hx
      obtain ⟨nx, hnx, _⟩ := hw.child c _ hf x hx
      have hsx := hc.kid hf hx
      refine ⟨isTomb_of_find ((safe_find hs hsx hnx).trans hnx.symm), ih x hsx (by simp [hnx])⟩
    cases nk with
    | elem v => simp only [Doc.viewOf, hf, hf']
    | obj m s =>
      simp only [Doc.viewOf, hf, hf', JVal.obj.injEq]
      apply List.filterMap_congr
      intro x hx
      obtain ⟨h1, h2⟩ := kidfact x.2 (List.mem_map.mpr ⟨x, hx, rfl⟩)
      rw [h1, h2]
    | arr sl s =>
      simp only [Doc.viewOf, hf, hf', JVal.arr.injEq]
      apply List.filterMap_congr
      intro x hx
      obtain ⟨h1, h2⟩ := kidfact x.2 (List.mem_map.mpr ⟨x, hx, rfl⟩)
      rw [h1, h2]

theorem safe_viewAt {d d' : Doc} {hd : Ts} {TK : Ts → Prop} (hg : DG d) (hg' : DG d') (hs : Same d d' hd TK)
    {c : Ts} (hc : Safe d hd TK c) (hsome : (d.find c).isSome) : d'.viewAt c = d.viewAt c := by
  rw [← viewOf_big hg' c (max d.table.length d'.table.length + 1) (by omega),
    ← viewOf_big hg c (max d.table.length d'.table.length + 1) (by omega)]
  exact safe_viewOf hg.wf hs _ c hc hsome

theorem safe_isTomb {d d' : Doc} {hd : Ts} {TK : Ts → Prop} (hs : Same d d' hd TK)
    {c : Ts} (hc : Safe d hd TK c) (hsome : (d.find c).isSome) : d'.isTomb c = d.isTomb c := by
  obtain ⟨n, hf⟩ := Option.isSome_iff_exists.mp hsome
  exact isTomb_of_find ((safe_find hs hc hf).trans hf.symm)

/-- an untouched child of `hd` is safe -/
theorem kid_safe {d : Doc} {hd : Ts} {TK : Ts → Prop} (hw : d.WF) (ha : ∃ rk, Ranked d rk) {n : DNode}
    (hp : d.find hd = some n) {x : Ts} (hx : x ∈ kids n.kind) (hnt : ¬ TK x)
    (hTK : ∀ y, TK y → y ∈ kids n.kind) : Safe d hd TK x := by
  refine ⟨not_reach_up ha hp hx, ?_⟩
  intro y hy r
  cases r with
  | refl => exact hnt hy
  | @snoc q nq _ hq hf hyq =>
    have : q = hd := wf_unique_parent hw hf hp hyq (hTK y hy)
    subst this
    exact not_reach_up ha hp hx hq

/-! ### `locate` -/

theorem liveChildren_eq {d : Doc} {c : Ts} {n : DNode} {sl : List (Ts × Ts)} {s : Int}
    (h : d.find c = some n) (hk : n.kind = .arr sl s) :
    d.liveChildren c = (sl.filter (slotLive d)).map (·.2) := by
  unfold Doc.liveChildren
  rw [DA.findArr_some_iff.mpr ⟨h, hk⟩]

theorem locate_key_inv {d : Doc} {k : String} {r : List PlainDoc.Seg} {cur hd : Ts}
    (h : d.locate (.key k :: r) cur = some hd) :
    ∃ n m s ch, d.find cur = some n ∧ n.kind = .obj m s ∧ alFind k m = some ch ∧ d.isTomb ch = false ∧
      d.locate r ch = some hd := by
  simp only [Doc.locate] at h
  split at h
  · rename_i n m s hfo
    obtain ⟨h1, h2⟩ := findObj_some_iff.mp hfo
    split at h
    · rename_i ch hch
      split at h
      · cases h
      · rename_i ht
        exact ⟨n, m, s, ch, h1, h2, hch, by simpa using ht, h⟩
    · cases h
  · cases h

theorem locate_idx_inv {d : Doc} {i : Nat} {r : List PlainDoc.Seg} {cur hd : Ts}
    (h : d.locate (.idx i :: r) cur = some hd) :
    ∃ n sl s ch, d.find cur = some n ∧ n.kind = .arr sl s ∧
      ((sl.filter (slotLive d)).map (·.2))[i]? = some ch ∧ d.locate r ch = some hd := by
  simp only [Doc.locate] at h
  split at h
  · rename_i x hfa
    obtain ⟨n, sl, s⟩ := x
    obtain ⟨h1, h2⟩ := DA.findArr_some_iff.mp hfa
    split at h
    · rename_i ch hch
      rw [liveChildren_eq h1 h2] at hch
      exact ⟨n, sl, s, ch, h1, h2, hch, h⟩
    · cases h
  · cases h

theorem mem_of_getElem?_filter {d : Doc} {sl : List (Ts × Ts)} {i : Nat} {ch : Ts}
    (h : ((sl.filter (slotLive d)).map (·.2))[i]? = some ch) :
    ch ∈ sl.map (·.2) ∧ d.isTomb ch = false := by
  have hm := List.mem_of_getElem? h
  obtain ⟨s, hs, rfl⟩ := List.mem_map.mp hm
  obtain ⟨h1, h2⟩ := List.mem_filter.mp hs
  exact ⟨List.mem_map.mpr ⟨s, h1, rfl⟩, by simpa [slotLive] using h2⟩

theorem locate_reach {d : Doc} {hd : Ts} : ∀ (π : List PlainDoc.Seg) (cur : Ts),
    d.locate π cur = some hd → Reach d cur hd := by
  intro π
  induction π with
  | nil => intro cur h; simp only [Doc.locate, Option.some.injEq] at h; subst h; exact Reach.refl
  | cons sg r ih =>
    intro cur h
    cases sg with
    | key k =>
      obtain ⟨n, m, s, ch, h1, h2, h3, _, h5⟩ := locate_key_inv h
      exact Reach.cons h1 (by rw [h2]; exact alFind_mem_vals h3) (ih ch h5)
    | idx i =>
      obtain ⟨n, sl, s, ch, h1, h2, h3, h5⟩ := locate_idx_inv h
      exact Reach.cons h1 (by rw [h2]; exact (mem_of_getElem?_filter h3).1) (ih ch h5)

theorem objView_find {d : Doc} {m : List (String × Ts)} (hk : (m.map (·.1)).Nodup) (k : String) :
    alFind k (objView d m) = (alFind k m).bind (fun ch => if d.isTomb ch then none else some (d.viewAt ch)) :=
  alFind_filterMap_view d.isTomb d.viewAt k m hk

theorem arrView_eq (d : Doc) (sl : List (Ts × Ts)) :
    arrView d sl = ((sl.filter (slotLive d)).map (·.2)).map d.viewAt := by
  induction sl with
  | nil => rfl
  | cons x xs ih =>
    unfold arrView at ih ⊢
    simp only [List.filterMap_cons, List.filter_cons, slotLive]
    by_cases h : d.isTomb x.2 = true
    · simp [h, ih]
    · simp [h, ih]

theorem locate_sub {d : Doc} (hg : DG d) {hd : Ts} : ∀ (π : List PlainDoc.Seg) (cur : Ts),
    d.locate π cur = some hd → PlainDoc.sub π (d.viewAt cur).canon = some (d.viewAt hd).canon := by
  intro π
  induction π with
  | nil => intro cur h; simp only [Doc.locate, Option.some.injEq] at h; subst h; rfl
  | cons sg r ih =>
    intro cur h
    cases sg with
    | key k =>
      obtain ⟨n, m, s, ch, h1, h2, h3, h4, h5⟩ := locate_key_inv h
      rw [viewAt_obj hg h1 h2, canon_obj]
      simp only [PlainDoc.sub]
      rw [alFind_canonKvs, objView_find (hg.keys cur n m s h1 h2), h3]
      simp only [Option.bind_some, h4, Bool.false_eq_true, if_false, Option.map_some]
      exact ih ch h5
    | idx i =>
      obtain ⟨n, sl, s, ch, h1, h2, h3, h5⟩ := locate_idx_inv h
      rw [viewAt_arr hg h1 h2, canon_arr, canonList_eq_map, arrView_eq]
      simp only [PlainDoc.sub, List.getElem?_map, h3, Option.map_some]
      exact ih ch h5

theorem map_set_of_nodup {α β : Type} {f f' : α → β} : ∀ (l : List α), l.Nodup → ∀ (i : Nat) (a : α),
    l[i]? = some a → (∀ x ∈ l, x ≠ a → f' x = f x) → (l.map f).set i (f' a) = l.map f' := by
  intro l
  induction l with
  | nil => intro _ i a h; simp at h
  | cons x xs ih =>
    intro hnd i a hi h
    rw [List.nodup_cons] at hnd
    cases i with
    | zero =>
      simp only [List.getElem?_cons_zero, Option.some.injEq] at hi
      subst hi
      simp only [List.map_cons, List.set_cons_zero, List.cons.injEq, true_and]
      apply List.map_congr_left
      intro y hy
      exact (h y (List.mem_cons_of_mem _ hy) (fun e => hnd.1 (e ▸ hy))).symm
    | succ j =>
      simp only [List.getElem?_cons_succ] at hi
      have hmem := List.mem_of_getElem? hi
      have hx : f' x = f x := h x List.mem_cons_self (fun e => hnd.1 (e ▸ hmem))
      simp only [List.map_cons, List.set_cons_succ, hx, List.cons.injEq, true_and]
      exact ih hnd.2 j a hi (fun y hy => h y (List.mem_cons_of_mem _ hy))

/-- THE frame property: a change at `hd` shows in the root view exactly at the path of `hd` -/
theorem frame {d d' : Doc} {hd : Ts} {TK : Ts → Prop} (hg : DG d) (hg' : DG d') (hs : Same d d' hd TK)
    (hTK : ∀ x, TK x → ∃ n, d.find hd = some n ∧ x ∈ kids n.kind) (hhd : d'.isTomb hd = false) :
    ∀ (π : List PlainDoc.Seg) (cur : Ts), d.locate π cur = some hd →
      PlainDoc.replace (d'.viewAt hd).canon π (d.viewAt cur).canon = some (d'.viewAt cur).canon := by
  intro π
  induction π with
  | nil => intro cur h; simp only [Doc.locate, Option.some.injEq] at h; subst h; rfl
  | cons sg r ih =>
    intro cur h
    have hw := hg.wf
    have ha := hg.acyc
    -- facts common to both kinds of step
    have common : ∀ {n : DNode} {ch : Ts}, d.find cur = some n → ch ∈ kids n.kind → d.isTomb ch = false →
        d.locate r ch = some hd →
        d'.find cur = some n ∧ d'.isTomb ch = false ∧ (∀ x ∈ kids n.kind, x ≠ ch → Safe d hd TK x ∧ (d.find x).isSome) := by
      intro n ch h1 hch hlive h5
      have hr : Reach d ch hd := locate_reach r ch h5
      have hne : cur ≠ hd := fun e => not_reach_up ha h1 hch (e ▸ hr)
      have hntk : ¬ TK cur := by
        intro t
        obtain ⟨nh, hnh, hk⟩ := hTK cur t
        exact not_reach_up ha hnh hk (Reach.cons h1 hch hr)
      have hcnt : ¬ TK ch := by
        intro t
        obtain ⟨nh, hnh, hk⟩ := hTK ch t
        exact hne (wf_unique_parent hw h1 hnh hch hk)
      refine ⟨hs cur n h1 hne hntk, ?_, ?_⟩
      · by_cases e : ch = hd
        · rw [e]; exact hhd
        · obtain ⟨nc, hnc, _⟩ := hw.child cur n h1 ch hch
          rw [isTomb_of_find ((hs ch nc hnc e hcnt).trans hnc.symm)]; exact hlive
      · intro x hx hxne
        obtain ⟨nx, hnx, _⟩ := hw.child cur n h1 x hx
        refine ⟨⟨fun rx => sibling_disjoint hw ha h1 hx hch hxne rx hr, ?_⟩, by simp [hnx]⟩
        intro y hy ry
        obtain ⟨nh, hnh, hk⟩ := hTK y hy
        cases ry with
        | refl => exact hne (wf_unique_parent hw h1 hnh hx hk)
        | @snoc q nq _ hq hf hyq =>
          have : q = hd := wf_unique_parent hw hf hnh hyq hk
          subst this
          exact sibling_disjoint hw ha h1 hx hch hxne hq hr
    cases sg with
    | key k =>
      obtain ⟨n, m, s, ch, h1, h2, h3, h4, h5⟩ := locate_key_inv h
      have hchk : ch ∈ kids n.kind := by rw [h2]; exact alFind_mem_vals h3
      obtain ⟨hf', hlive', hsib⟩ := common h1 hchk h4 h5
      have hkn := hg.keys cur n m s h1 h2
      have hinj : (m.map (·.2)).Nodup := by have := hw.inj cur n h1; rwa [h2] at this
      rw [viewAt_obj hg h1 h2, viewAt_obj hg' hf' h2, canon_obj, canon_obj]
      simp only [PlainDoc.replace]
      have hfind : alFind k (JVal.canonKvs (objView d m)) = some (d.viewAt ch).canon := by
        rw [alFind_canonKvs, objView_find hkn, h3]
        simp [h4]
      rw [hfind]
      simp only [ih ch h5, Option.map_some, Option.some.injEq, JVal.obj.injEq]
      symm
      apply ksorted_ext (ksorted_canonKvs _) (ksorted_objPut _ _ (ksorted_canonKvs _))
      intro k'
      rw [alFind_objPut, alFind_canonKvs, alFind_canonKvs, objView_find hkn, objView_find hkn]
      by_cases e : k = k'
      · subst e
        simp [h3, hlive']
      · simp only [e, if_false]
        cases hx : alFind k' m with
        | none => rfl
        | some x =>
          have hxk : x ∈ kids n.kind := by rw [h2]; exact alFind_mem_vals hx
          have hxne : x ≠ ch := fun e' => e (alFind_inj_of_vals_nodup hinj h3 (e' ▸ hx))
          obtain ⟨hsafe, hsome⟩ := hsib x hxk hxne
          simp only [Option.bind_some, safe_isTomb hs hsafe hsome, safe_viewAt hg hg' hs hsafe hsome]
    | idx i =>
      obtain ⟨n, sl, s, ch, h1, h2, h3, h5⟩ := locate_idx_inv h
      obtain ⟨hchk', h4⟩ := mem_of_getElem?_filter h3
      have hchk : ch ∈ kids n.kind := by rw [h2]; exact hchk'
      obtain ⟨hf', hlive', hsib⟩ := common h1 hchk h4 h5
      have hinj : (sl.map (·.2)).Nodup := by have := hw.inj cur n h1; rwa [h2] at this
      have hfilt : sl.filter (slotLive d') = sl.filter (slotLive d) := by
        apply List.filter_congr
        intro x hx
        have hxk : x.2 ∈ kids n.kind := by rw [h2]; exact List.mem_map.mpr ⟨x, hx, rfl⟩
        unfold slotLive
        by_cases e : x.2 = ch
        · rw [e, h4, hlive']
        · obtain ⟨hsafe, hsome⟩ := hsib x.2 hxk e
          rw [safe_isTomb hs hsafe hsome]
      rw [viewAt_arr hg h1 h2, viewAt_arr hg' hf' h2, canon_arr, canon_arr, canonList_eq_map, canonList_eq_map,
        arrView_eq, arrView_eq, hfilt]
      simp only [PlainDoc.replace, List.getElem?_map, h3, Option.map_some, ih ch h5, Option.some.injEq,
        JVal.arr.injEq]
      have e1 : ∀ (g : Ts → JVal) (L : List Ts),
          List.map JVal.canon (List.map g L) = List.map (fun x => (g x).canon) L :=
        fun g L => by rw [List.map_map]; rfl
      rw [e1, e1]
      have hnd : ((sl.filter (slotLive d)).map (·.2)).Nodup :=
        List.Nodup.sublist (List.Sublist.map _ List.filter_sublist) hinj
      apply map_set_of_nodup (f := fun x => (d.viewAt x).canon) (f' := fun x => (d'.viewAt x).canon) _ hnd i ch h3
      intro x hx hxne
      obtain ⟨sx, hsx, rfl⟩ := List.mem_map.mp hx
      have hxk : sx.2 ∈ kids n.kind := by rw [h2]; exact List.mem_map.mpr ⟨sx, (List.mem_filter.mp hsx).1, rfl⟩
      obtain ⟨hsafe, hsome⟩ := hsib sx.2 hxk hxne
      simp only [safe_viewAt hg hg' hs hsafe hsome]

/-! ## 2. creation of nodes: further facts -/

def Scalar : JVal → Prop
  | .bool _ | .num _ | .str _ => True
  | _ => False

/-- shape of a freshly created node -/
def NodeOK (n : DNode) : Prop :=
  match n.kind with
  | .elem v => Scalar v
  | .obj m s => s = (m.length : Int)
  | .arr sl s => s = (sl.length : Int) ∧ sl.map (·.1) = sl.map (·.2)

/-- every created node is a root (child of `parent`) or is referenced by the created node that is its parent -/
def Lnk (ns : List DNode) (roots : List Ts) (parent : Ts) : Prop :=
  ∀ n ∈ ns, (n.c ∈ roots ∧ n.parent = some parent) ∨ ∃ p ∈ ns, n.parent = some p.c ∧ n.c ∈ kids p.kind

theorem lnk_append {a b : List DNode} {c : Ts} {cs : List Ts} {parent : Ts} (ha : Lnk a [c] parent)
    (hb : Lnk b cs parent) : Lnk (a ++ b) (c :: cs) parent := by
  intro n hn
  rcases List.mem_append.mp hn with h | h
  · rcases ha n h with ⟨h1, h2⟩ | ⟨p, hp, h2⟩
    · simp only [List.mem_singleton] at h1
      exact Or.inl ⟨by rw [h1]; exact List.mem_cons_self, h2⟩
    · exact Or.inr ⟨p, List.mem_append_left _ hp, h2⟩
  · rcases hb n h with ⟨h1, h2⟩ | ⟨p, hp, h2⟩
    · exact Or.inl ⟨List.mem_cons_of_mem _ h1, h2⟩
    · exact Or.inr ⟨p, List.mem_append_right _ hp, h2⟩

theorem lnk_container {ns : List DNode} {cs : List Ts} {ts parent : Ts} (kind : DKind) (hk : kids kind = cs)
    (h : Lnk ns cs ts) : Lnk (⟨ts, none, some parent, kind⟩ :: ns) [ts] parent := by
  intro n hn
  rcases List.mem_cons.mp hn with rfl | hn
  · exact Or.inl ⟨List.mem_singleton.mpr rfl, rfl⟩
  · rcases h n hn with ⟨h1, h2⟩ | ⟨p, hp, h2⟩
    · exact Or.inr ⟨_, List.mem_cons_self, h2, by rw [hk]; exact h1⟩
    · exact Or.inr ⟨p, List.mem_cons_of_mem _ hp, h2⟩

theorem createArrItems_len (parent : Ts) : ∀ (vs : List JVal) (ts : Ts) (ns : List DNode) (cs : List Ts) (ts' : Ts),
    createArrItems parent ts vs = .ok (ns, cs, ts') → cs.length = vs.length
  | [], ts, ns, cs, ts', h => by
    simp only [createArrItems, Outcome.ok.injEq, Prod.mk.injEq] at h
    obtain ⟨_, rfl, _⟩ := h
    rfl
  | v :: vs, ts, ns, cs, ts', h => by
    simp only [createArrItems] at h
    split at h
    · rename_i ns1 c ts1 h1
      split at h
      · rename_i ns2 cs2 ts2 h2
        simp only [Outcome.ok.injEq, Prod.mk.injEq] at h
        obtain ⟨_, rfl, _⟩ := h
        simp only [List.length_cons, createArrItems_len parent vs ts1 ns2 cs2 ts2 h2]
      · cases h
      · cases h
    · cases h
    · cases h

mutual
theorem createNode_spec2 (parent ts : Ts) : ∀ (v : JVal) (r : List DNode × Ts × Ts),
    createNode parent ts v = .ok r → (∀ n ∈ r.1, NodeOK n) ∧ Lnk r.1 [r.2.1] parent
  | .null, r, h => by simp [createNode] at h
  | .bool b, r, h => by
    simp only [createNode, Outcome.ok.injEq] at h; subst h
    refine ⟨fun n hn => ?_, fun n hn => ?_⟩
    · simp only [List.mem_singleton] at hn; subst hn; simp [NodeOK, Scalar]
    · simp only [List.mem_singleton] at hn; subst hn; exact Or.inl ⟨by simp, rfl⟩
  | .num b, r, h => by
    simp only [createNode, Outcome.ok.injEq] at h; subst h
    refine ⟨fun n hn => ?_, fun n hn => ?_⟩
    · simp only [List.mem_singleton] at hn; subst hn; simp [NodeOK, Scalar]
    · simp only [List.mem_singleton] at hn; subst hn; exact Or.inl ⟨by simp, rfl⟩
  | .str b, r, h => by
    simp only [createNode, Outcome.ok.injEq] at h; subst h
    refine ⟨fun n hn => ?_, fun n hn => ?_⟩
    · simp only [List.mem_singleton] at hn; subst hn; simp [NodeOK, Scalar]
    · simp only [List.mem_singleton] at hn; subst hn; exact Or.inl ⟨by simp, rfl⟩
  | .obj kvs, r, h => by
    simp only [createNode] at h
    split at h
    · rename_i ns m ts' hi
      simp only [Outcome.ok.injEq] at h; subst h
      obtain ⟨i1, i2⟩ := createObjItems_spec2 ts ts.nextDelim kvs ns m ts' hi
      refine ⟨fun n hn => ?_, lnk_container _ rfl i2⟩
      rcases List.mem_cons.mp hn with rfl | hn
      · simp [NodeOK]
      · exact i1 n hn
    · cases h
    · cases h
  | .arr vs, r, h => by
    simp only [createNode] at h
    split at h
    · rename_i ns cs ts' hi
      simp only [Outcome.ok.injEq] at h; subst h
      obtain ⟨i1, i2⟩ := createArrItems_spec2 ts ts.nextDelim vs ns cs ts' hi
      refine ⟨fun n hn => ?_, lnk_container _ (by simp [kids, Function.comp_def]) i2⟩
      rcases List.mem_cons.mp hn with rfl | hn
      · simp [NodeOK, Function.comp_def]
      · exact i1 n hn
    · cases h
    · cases h
theorem createArrItems_spec2 (parent ts : Ts) : ∀ (vs : List JVal) (ns : List DNode) (cs : List Ts) (ts' : Ts),
    createArrItems parent ts vs = .ok (ns, cs, ts') → (∀ n ∈ ns, NodeOK n) ∧ Lnk ns cs parent
  | [], ns, cs, ts', h => by
    simp only [createArrItems, Outcome.ok.injEq, Prod.mk.injEq] at h
    obtain ⟨rfl, rfl, rfl⟩ := h
    exact ⟨by simp, fun n hn => by cases hn⟩
  | v :: vs, ns, cs, ts', h => by
    simp only [createArrItems] at h
    split at h
    · rename_i ns1 c ts1 h1
      split at h
      · rename_i ns2 cs2 ts2 h2
        simp only [Outcome.ok.injEq, Prod.mk.injEq] at h
        obtain ⟨rfl, rfl, rfl⟩ := h
        obtain ⟨a1, a2⟩ := createNode_spec2 parent ts v _ h1
        obtain ⟨b1, b2⟩ := createArrItems_spec2 parent ts1 vs _ _ _ h2
        refine ⟨fun n hn => ?_, lnk_append a2 b2⟩
        rcases List.mem_append.mp hn with h | h
        · exact a1 n h
        · exact b1 n h
      · cases h
      · cases h
    · cases h
    · cases h
theorem createObjItems_spec2 (parent ts : Ts) : ∀ (kvs : List (String × JVal)) (ns : List DNode)
    (m : List (String × Ts)) (ts' : Ts),
    createObjItems parent ts kvs = .ok (ns, m, ts') → (∀ n ∈ ns, NodeOK n) ∧ Lnk ns (m.map (·.2)) parent
  | [], ns, cs, ts', h => by
    simp only [createObjItems, Outcome.ok.injEq, Prod.mk.injEq] at h
    obtain ⟨rfl, rfl, rfl⟩ := h
    exact ⟨by simp, fun n hn => by cases hn⟩
  | (k, v) :: kvs, ns, cs, ts', h => by
    simp only [createObjItems] at h
    split at h
    · rename_i ns1 c ts1 h1
      split at h
      · rename_i ns2 cs2 ts2 h2
        simp only [Outcome.ok.injEq, Prod.mk.injEq] at h
        obtain ⟨rfl, rfl, rfl⟩ := h
        obtain ⟨a1, a2⟩ := createNode_spec2 parent ts v _ h1
        obtain ⟨b1, b2⟩ := createObjItems_spec2 parent ts1 kvs _ _ _ h2
        refine ⟨fun n hn => ?_, lnk_append a2 b2⟩
        rcases List.mem_append.mp hn with h | h
        · exact a1 n h
        · exact b1 n h
      · cases h
      · cases h
    · cases h
    · cases h
end

mutual
theorem createNode_ok (parent ts : Ts) : ∀ (v : JVal), v.hasNull = false → ∃ r, createNode parent ts v = .ok r
  | .null, h => by simp [JVal.hasNull] at h
  | .bool b, _ => by simp only [createNode]; exact ⟨_, rfl⟩
  | .num b, _ => by simp only [createNode]; exact ⟨_, rfl⟩
  | .str b, _ => by simp only [createNode]; exact ⟨_, rfl⟩
  | .obj kvs, h => by
    simp only [JVal.hasNull] at h
    obtain ⟨r, hr⟩ := createObjItems_ok ts ts.nextDelim kvs h
    simp only [createNode, hr]; exact ⟨_, rfl⟩
  | .arr vs, h => by
    simp only [JVal.hasNull] at h
    obtain ⟨r, hr⟩ := createArrItems_ok ts ts.nextDelim vs h
    simp only [createNode, hr]; exact ⟨_, rfl⟩
theorem createArrItems_ok (parent ts : Ts) : ∀ (vs : List JVal), JVal.hasNullList vs = false →
    ∃ r, createArrItems parent ts vs = .ok r
  | [], _ => by simp only [createArrItems]; exact ⟨_, rfl⟩
  | v :: vs, h => by
    simp only [JVal.hasNullList, Bool.or_eq_false_iff] at h
    obtain ⟨⟨ns, c, ts1⟩, h1⟩ := createNode_ok parent ts v h.1
    obtain ⟨⟨ns2, cs, ts2⟩, h2⟩ := createArrItems_ok parent ts1 vs h.2
    simp only [createArrItems, h1, h2]; exact ⟨_, rfl⟩
theorem createObjItems_ok (parent ts : Ts) : ∀ (kvs : List (String × JVal)), JVal.hasNullKvs kvs = false →
    ∃ r, createObjItems parent ts kvs = .ok r
  | [], _ => by simp only [createObjItems]; exact ⟨_, rfl⟩
  | (k, v) :: kvs, h => by
    simp only [JVal.hasNullKvs, Bool.or_eq_false_iff] at h
    obtain ⟨⟨ns, c, ts1⟩, h1⟩ := createNode_ok parent ts v h.1
    obtain ⟨⟨ns2, cs, ts2⟩, h2⟩ := createObjItems_ok parent ts1 kvs h.2
    simp only [createObjItems, h1, h2]; exact ⟨_, rfl⟩
end

theorem any_hasNull_iff (vs : List JVal) : vs.any JVal.hasNull = JVal.hasNullList vs := by
  induction vs with
  | nil => rfl
  | cons v vs ih => simp [JVal.hasNullList, ih]

/-! ## 3. the single-replica invariant of a document -/

/-- stamp bound: the era of the replica; a clock value not beyond `L`, or the value being handed out right
    now with a delimiter below `b` -/
def St (L : OpId) (b : Nat) (t : Ts) : Prop :=
  t.era = L.era ∧ (t.lamport ≤ L.lamport ∨ (t.lamport = L.lamport + 1 ∧ t.delim < b))

theorem St.mono {L : OpId} {b b' : Nat} {t : Ts} (h : St L b t) (hb : b ≤ b') : St L b' t :=
  ⟨h.1, h.2.imp id (fun ⟨a, c⟩ => ⟨a, by omega⟩)⟩

def ordIds : DKind → List Ts
  | .arr sl _ => sl.map (·.1)
  | _ => []

/-- the stored size is the number of live children -/
def SizeOK (d : Doc) : DKind → Prop
  | .elem _ => True
  | .obj m s => s = ((m.filter fun e => !d.isTomb e.2).length : Int)
  | .arr sl s => s = ((sl.filter (slotLive d)).length : Int)

theorem sizeOK_congr {d d' : Doc} {K : DKind} (h : ∀ c ∈ kids K, d'.isTomb c = d.isTomb c) (hs : SizeOK d K) :
    SizeOK d' K := by
  cases K with
  | elem v => trivial
  | obj m s =>
    unfold SizeOK at hs ⊢
    rw [hs]
    congr 2
    apply List.filter_congr
    intro x hx
    rw [h x.2 (List.mem_map.mpr ⟨x, hx, rfl⟩)]
  | arr sl s =>
    unfold SizeOK at hs ⊢
    rw [hs]
    congr 2
    apply List.filter_congr
    intro x hx
    unfold slotLive
    rw [h x.2 (List.mem_map.mpr ⟨x, hx, rfl⟩)]

structure DInv (L : OpId) (b : Nat) (d : Doc) : Prop where
  wf : d.WF
  acyc : ∃ rk, Ranked d rk
  root : ∃ m s, d.find Ts.oldest = some ⟨Ts.oldest, none, none, .obj m s⟩
  sizes : ∀ c n, d.find c = some n → SizeOK d n.kind
  stamps : ∀ c n, d.find c = some n →
    St L b n.c ∧ (∀ t, n.d = some t → St L b t) ∧ ∀ o ∈ ordIds n.kind, St L b o
  ordnd : ∀ c n, d.find c = some n → (ordIds n.kind).Nodup
  linked : ∀ c n, d.find c = some n → n.d = none →
    c = Ts.oldest ∨ ∃ p pn, n.parent = some p ∧ d.find p = some pn ∧ c ∈ kids pn.kind
  scalar : ∀ c n v, d.find c = some n → n.kind = .elem v → Scalar v

theorem DInv.dg {L : OpId} {b : Nat} {d : Doc} (h : DInv L b d) (hk : KeysND d) : DG d := ⟨h.wf, h.acyc, hk⟩

theorem DInv.mono {L : OpId} {b b' : Nat} {d : Doc} (h : DInv L b d) (hb : b ≤ b') : DInv L b' d :=
  ⟨h.wf, h.acyc, h.root, h.sizes, fun c n hf => by
      obtain ⟨s1, s2, s3⟩ := h.stamps c n hf
      exact ⟨s1.mono hb, fun t ht => (s2 t ht).mono hb, fun o ho => (s3 o ho).mono hb⟩,
    h.ordnd, h.linked, h.scalar⟩

/-- the single-replica invariant of a document replica -/
def DocInv (r : Replica) : Prop := ∃ d, r.state = .doc d ∧ DInv r.opId 0 d ∧ KeysND d

/-- identifiers that are being handed out are not in the table -/
theorem fresh_of_newst {L : OpId} {b b' : Nat} {d : Doc} {ns : List DNode} (h : DInv L b d)
    (hn : ∀ c ∈ ids ns, c.era = L.era ∧ c.lamport = L.lamport + 1 ∧ b ≤ c.delim ∧ c.delim < b') : Fresh d ns := by
  intro c hc
  cases hf : d.find c with
  | none => rfl
  | some n =>
    obtain ⟨h1, _, _⟩ := h.stamps c n hf
    rw [find_some_c hf] at h1
    obtain ⟨_, h3, h4, _⟩ := hn c hc
    rcases h1.2 with h5 | h5 <;> omega

theorem block_newst {L : OpId} {ts ts' : Ts} {ns : List DNode} (hb : Block ts ns ts') (h1 : ts.era = L.era)
    (h2 : ts.lamport = L.lamport + 1) :
    ∀ c ∈ ids ns, c.era = L.era ∧ c.lamport = L.lamport + 1 ∧ ts.delim ≤ c.delim ∧ c.delim < ts'.delim := by
  intro c hc
  have hd := DA.block_delim hb hc
  rw [hb.ids] at hc
  obtain ⟨i, _, rfl⟩ := DC.mem_delimSeq.mp hc
  exact ⟨h1, h2, hd.1, hd.2.1⟩

/-! ### a generic step: new nodes, a new kind for `hd`, some children of `hd` buried or tombstoned -/

/-- the new kind of `hd` is of the old sort; distinct keys / distinct stamped order identifiers -/
def ShapeOK (L : OpId) (b' : Nat) : DKind → DKind → Prop
  | .obj _ _, .obj _ _ => True
  | .arr _ _, .arr sl' _ => (sl'.map (·.1)).Nodup ∧ ∀ o ∈ sl'.map (·.1), St L b' o
  | _, _ => False

structure Stp (L : OpId) (b b' : Nat) (d : Doc) (hd : Ts) (pn : DNode) (K' : DKind) (ns : List DNode)
    (bury tm : Ts → Option Ts) (d' : Doc) : Prop where
  inv : DInv L b d
  hp : d.find hd = some pn
  find' : ∀ c, d'.find c = if c = hd then some { pn with kind := K' } else
      match bury c with
      | some t => fun1 t (d.find c)
      | none => match tm c with
        | some t => setD t (d.find c)
        | none => (nfind ns c).or (d.find c)
  nodup : (ids d'.table).Nodup
  block : ∃ ts ts', Block ts ns ts'
  newst : ∀ c ∈ ids ns, c.era = L.era ∧ c.lamport = L.lamport + 1 ∧ b ≤ c.delim ∧ c.delim < b'
  bb : b ≤ b'
  nodeok : ∀ n ∈ ns, NodeOK n
  lnk : ∀ n ∈ ns, (n.c ∈ kids K' ∧ n.parent = some hd) ∨ ∃ p ∈ ns, n.parent = some p.c ∧ n.c ∈ kids p.kind
  touched : ∀ x t, (bury x = some t ∨ tm x = some t) → x ∈ kids pn.kind ∧ St L b' t
  buryK : ∀ x t, bury x = some t → x ∉ kids K'
  kidsK : ∀ c ∈ kids K', c ∈ kids pn.kind ∨ ∃ n ∈ ns, n.c = c ∧ n.parent = some hd
  keep : ∀ c ∈ kids pn.kind, bury c = none → c ∈ kids K'
  kidsnd : (kids K').Nodup
  shape : ShapeOK L b' pn.kind K'

namespace Stp
variable {L : OpId} {b b' : Nat} {d d' : Doc} {hd : Ts} {pn : DNode} {K' : DKind} {ns : List DNode}
  {bury tm : Ts → Option Ts}

theorem fresh (h : Stp L b b' d hd pn K' ns bury tm d') : Fresh d ns := fresh_of_newst h.inv h.newst

theorem idsnd (h : Stp L b b' d hd pn K' ns bury tm d') : (ids ns).Nodup := by
  obtain ⟨ts, ts', hb⟩ := h.block
  exact block_ids_nodup hb

theorem kid_in (h : Stp L b b' d hd pn K' ns bury tm d') {x : Ts} (hx : x ∈ kids pn.kind) :
    ∃ nx, d.find x = some nx ∧ nx.parent = some hd := h.inv.wf.child hd pn h.hp x hx

theorem kid_ne_hd (h : Stp L b b' d hd pn K' ns bury tm d') {x : Ts} (hx : x ∈ kids pn.kind) : x ≠ hd := by
  obtain ⟨rk, hr⟩ := h.inv.acyc
  intro e
  have := hr hd pn h.hp x hx
  rw [e] at this
  exact Nat.lt_irrefl _ this

theorem kid_not_new (h : Stp L b b' d hd pn K' ns bury tm d') {x : Ts} (hx : x ∈ kids pn.kind) : x ∉ ids ns := by
  intro hn
  obtain ⟨nx, h1, _⟩ := h.kid_in hx
  rw [h.fresh x hn] at h1; cases h1

theorem hd_not_new (h : Stp L b b' d hd pn K' ns bury tm d') : hd ∉ ids ns := by
  intro hn
  have := h.fresh hd hn
  rw [h.hp] at this; cases this

theorem bury_kid (h : Stp L b b' d hd pn K' ns bury tm d') {x t : Ts} (hx : bury x = some t) : x ∈ kids pn.kind :=
  (h.touched x t (Or.inl hx)).1

theorem tm_kid (h : Stp L b b' d hd pn K' ns bury tm d') {x t : Ts} (hx : tm x = some t) : x ∈ kids pn.kind :=
  (h.touched x t (Or.inr hx)).1

theorem find_hd (h : Stp L b b' d hd pn K' ns bury tm d') : d'.find hd = some { pn with kind := K' } := by
  rw [h.find']; simp

theorem find_new (h : Stp L b b' d hd pn K' ns bury tm d') {n : DNode} (hn : n ∈ ns) : d'.find n.c = some n := by
  have hmem : n.c ∈ ids ns := List.mem_map.mpr ⟨n, hn, rfl⟩
  have h1 : n.c ≠ hd := fun e => h.hd_not_new (e ▸ hmem)
  have h2 : bury n.c = none := by
    cases hb : bury n.c with
    | none => rfl
    | some t => exact absurd hmem (h.kid_not_new (h.bury_kid hb))
  have h3 : tm n.c = none := by
    cases hb : tm n.c with
    | none => rfl
    | some t => exact absurd hmem (h.kid_not_new (h.tm_kid hb))
  rw [h.find', if_neg h1, h2, h3, nfind_of_mem h.idsnd hn]
  rfl

theorem find_old (h : Stp L b b' d hd pn K' ns bury tm d') {c : Ts} {n : DNode} (hf : d.find c = some n)
    (h1 : c ≠ hd) (h2 : bury c = none) (h3 : tm c = none) : d'.find c = some n := by
  have : nfind ns c = none := by
    rw [nfind_none_iff]
    intro hc
    rw [h.fresh c hc] at hf; cases hf
  rw [h.find', if_neg h1, h2, h3, this, hf]
  rfl

theorem inversion (h : Stp L b b' d hd pn K' ns bury tm d') {c : Ts} {n : DNode} (hf : d'.find c = some n) :
    (c = hd ∧ n = { pn with kind := K' }) ∨ (n ∈ ns ∧ n.c = c) ∨
    (c ≠ hd ∧ c ∉ ids ns ∧ ∃ n0, d.find c = some n0 ∧ n.kind = n0.kind ∧ n.parent = n0.parent ∧ n.c = n0.c ∧
      ((n.d = n0.d ∧ bury c = none ∧ tm c = none) ∨ (∃ t, n.d = some t ∧ St L b' t ∧ c ∈ kids pn.kind))) := by
  rw [h.find'] at hf
  by_cases e : c = hd
  · simp only [e, if_true, Option.some.injEq] at hf
    exact Or.inl ⟨e, hf.symm⟩
  · simp only [e, if_false] at hf
    cases hb : bury c with
    | some t =>
      simp only [hb] at hf
      obtain ⟨hk, hst⟩ := h.touched c t (Or.inl hb)
      cases h0 : d.find c with
      | none => simp [h0, fun1] at hf
      | some n0 =>
        simp only [h0, fun1] at hf
        split at hf
        · cases hf
        · simp only [Option.some.injEq] at hf
          subst hf
          exact Or.inr (Or.inr ⟨e, h.kid_not_new hk, n0, rfl, rfl, rfl, rfl, Or.inr ⟨t, rfl, hst, hk⟩⟩)
    | none =>
      simp only [hb] at hf
      cases ht : tm c with
      | some t =>
        simp only [ht] at hf
        obtain ⟨hk, hst⟩ := h.touched c t (Or.inr ht)
        cases h0 : d.find c with
        | none => simp [h0, setD] at hf
        | some n0 =>
          simp only [h0, setD, Option.map_some, Option.some.injEq] at hf
          subst hf
          exact Or.inr (Or.inr ⟨e, h.kid_not_new hk, n0, rfl, rfl, rfl, rfl, Or.inr ⟨t, rfl, hst, hk⟩⟩)
      | none =>
        simp only [ht] at hf
        cases hn : nfind ns c with
        | some m =>
          rw [hn] at hf
          have hf' : some m = some n := hf
          simp only [Option.some.injEq] at hf'
          subst hf'
          exact Or.inr (Or.inl (nfind_some hn))
        | none =>
          rw [hn] at hf
          have hf' : d.find c = some n := hf
          exact Or.inr (Or.inr ⟨e, nfind_none_iff.mp hn, n, hf', rfl, rfl, rfl, Or.inl ⟨rfl, rfl, rfl⟩⟩)

theorem isTomb_hd (h : Stp L b b' d hd pn K' ns bury tm d') : d'.isTomb hd = d.isTomb hd := by
  unfold Doc.isTomb
  rw [h.find_hd, h.hp]

/-- the children of an old node other than `hd` keep their tombstone flag -/
theorem isTomb_kid (h : Stp L b b' d hd pn K' ns bury tm d') {q y : Ts} {nq : DNode} (hq : d.find q = some nq)
    (hne : q ≠ hd) (hy : y ∈ kids nq.kind) : d'.isTomb y = d.isTomb y := by
  obtain ⟨ny, hny, _⟩ := h.inv.wf.child q nq hq y hy
  by_cases e : y = hd
  · rw [e]; exact h.isTomb_hd
  · have h2 : bury y = none := by
      cases hb : bury y with
      | none => rfl
      | some t => exact absurd (wf_unique_parent h.inv.wf hq h.hp hy (h.bury_kid hb)) hne
    have h3 : tm y = none := by
      cases hb : tm y with
      | none => rfl
      | some t => exact absurd (wf_unique_parent h.inv.wf hq h.hp hy (h.tm_kid hb)) hne
    exact isTomb_of_find ((h.find_old hny e h2 h3).trans hny.symm)

theorem isTomb_new (h : Stp L b b' d hd pn K' ns bury tm d') {n : DNode} (hn : n ∈ ns) : d'.isTomb n.c = false := by
  obtain ⟨ts, ts', hb⟩ := h.block
  simp [Doc.isTomb, h.find_new hn, hb.live n hn]

theorem new_kid (h : Stp L b b' d hd pn K' ns bury tm d') {n : DNode} (hn : n ∈ ns) {c : Ts} (hc : c ∈ kids n.kind) :
    ∃ nc ∈ ns, nc.c = c ∧ nc.parent = some n.c ∧ n.c.delim < c.delim := by
  obtain ⟨ts, ts', hb⟩ := h.block
  exact hb.links n hn c hc

theorem shape_arr (h : Stp L b b' d hd pn K' ns bury tm d') {sl : List (Ts × Ts)} {s : Int} (hk : K' = .arr sl s) :
    (sl.map (·.1)).Nodup ∧ ∀ o ∈ sl.map (·.1), St L b' o := by
  have := h.shape
  rw [hk] at this
  unfold ShapeOK at this
  split at this
  · rename_i e2; cases e2
  · rename_i e2
    simp only [DKind.arr.injEq] at e2
    rw [e2.1]; exact this
  · exact this.elim

theorem shape_not_elem (h : Stp L b b' d hd pn K' ns bury tm d') {v : JVal} (hk : K' = .elem v) : False := by
  have := h.shape
  rw [hk] at this
  unfold ShapeOK at this
  split at this
  · rename_i e2; cases e2
  · rename_i e2; cases e2
  · exact this

theorem next_wf (h : Stp L b b' d hd pn K' ns bury tm d') : d'.WF := by
  obtain ⟨ts, ts', hb⟩ := h.block
  refine ⟨h.nodup, ?_, ?_⟩
  · intro p n hf c hc
    rcases h.inversion hf with ⟨rfl, rfl⟩ | ⟨hn, rfl⟩ | ⟨hne, _, n0, h0, hk, _, _, _⟩
    · simp only at hc
      rcases h.kidsK c hc with hold | ⟨n', hn', rfl, hpar⟩
      · obtain ⟨nc, hnc, hpar⟩ := h.kid_in hold
        have hb0 : bury c = none := by
          cases hbc : bury c with
          | none => rfl
          | some t => exact absurd hc (h.buryK c t hbc)
        cases ht : tm c with
        | none => exact ⟨nc, h.find_old hnc (h.kid_ne_hd hold) hb0 ht, hpar⟩
        | some t =>
          refine ⟨{ nc with d := some t }, ?_, hpar⟩
          rw [h.find', if_neg (h.kid_ne_hd hold), hb0, ht, hnc]
          rfl
      · exact ⟨n', h.find_new hn', hpar⟩
    · obtain ⟨nc, hnc, rfl, hpar, _⟩ := h.new_kid hn hc
      exact ⟨nc, h.find_new hnc, hpar⟩
    · rw [hk] at hc
      obtain ⟨nc, hnc, hpar⟩ := h.inv.wf.child p n0 h0 c hc
      by_cases e : c = hd
      · subst e
        rw [h.hp] at hnc
        simp only [Option.some.injEq] at hnc
        subst hnc
        exact ⟨_, h.find_hd, hpar⟩
      · have h2 : bury c = none := by
          cases hbc : bury c with
          | none => rfl
          | some t => exact absurd (wf_unique_parent h.inv.wf h0 h.hp hc (h.bury_kid hbc)) hne
        have h3 : tm c = none := by
          cases hbc : tm c with
          | none => rfl
          | some t => exact absurd (wf_unique_parent h.inv.wf h0 h.hp hc (h.tm_kid hbc)) hne
        exact ⟨nc, h.find_old hnc e h2 h3, hpar⟩
  · intro p n hf
    rcases h.inversion hf with ⟨rfl, rfl⟩ | ⟨hn, rfl⟩ | ⟨_, _, n0, h0, hk, _, _, _⟩
    · exact h.kidsnd
    · exact hb.inj n hn
    · rw [hk]; exact h.inv.wf.inj p n0 h0

theorem next_acyc (h : Stp L b b' d hd pn K' ns bury tm d') : ∃ rk, Ranked d' rk := by
  obtain ⟨ts, ts', hb⟩ := h.block
  obtain ⟨rk, hr⟩ := h.inv.acyc
  refine ⟨newRank rk ns ts' (ns.length + 1), ?_⟩
  have hnew : ∀ c, c ∈ ids ns → newRank rk ns ts' (ns.length + 1) c < ns.length + 1 := by
    intro c hc
    have := (DA.newRank_new_le (rk := rk) hb (ns.length + 1) hc).1
    omega
  have hold : ∀ c, c ∉ ids ns → newRank rk ns ts' (ns.length + 1) c = rk c + (ns.length + 1) :=
    fun c hc => newRank_old hc
  intro p n hf c hc
  rcases h.inversion hf with ⟨rfl, rfl⟩ | ⟨hn, rfl⟩ | ⟨hne, hnn, n0, h0, hk, _, _, _⟩
  · simp only at hc
    rw [hold _ h.hd_not_new]
    rcases h.kidsK c hc with hc' | ⟨n', hn', rfl, _⟩
    · rw [hold c (h.kid_not_new hc')]
      have := hr p pn h.hp c hc'
      omega
    · have := hnew n'.c (List.mem_map.mpr ⟨n', hn', rfl⟩)
      omega
  · obtain ⟨nc, hnc, rfl, _, hlt⟩ := h.new_kid hn hc
    have hq' : n.c ∈ ids ns := List.mem_map.mpr ⟨n, hn, rfl⟩
    have hc' : nc.c ∈ ids ns := List.mem_map.mpr ⟨nc, hnc, rfl⟩
    rw [newRank_new hq', newRank_new hc']
    have := DA.block_delim hb hc'
    omega
  · rw [hk] at hc
    obtain ⟨nc, hnc, _⟩ := h.inv.wf.child p n0 h0 c hc
    have hcn : c ∉ ids ns := fun e => by rw [h.fresh c e] at hnc; cases hnc
    rw [hold c hcn, hold p hnn]
    have := hr p n0 h0 c hc
    omega

theorem next_keys (h : Stp L b b' d hd pn K' ns bury tm d') (hkeys : KeysND d) (hnk : NodesKeysND ns)
    (hK : ∀ m s, K' = .obj m s → (m.map (·.1)).Nodup) : KeysND d' := by
  intro p n m s hf hk
  rcases h.inversion hf with ⟨rfl, rfl⟩ | ⟨hn, rfl⟩ | ⟨_, _, n0, h0, hk0, _, _, _⟩
  · exact hK m s hk
  · exact hnk n hn m s hk
  · exact hkeys p n0 m s h0 (hk0 ▸ hk)

theorem next_root (h : Stp L b b' d hd pn K' ns bury tm d') :
    ∃ m s, d'.find Ts.oldest = some ⟨Ts.oldest, none, none, .obj m s⟩ := by
  obtain ⟨m, s, hr⟩ := h.inv.root
  by_cases e : hd = Ts.oldest
  · have hp := h.hp
    rw [e, hr] at hp
    simp only [Option.some.injEq] at hp
    have hf := h.find_hd
    rw [e] at hf
    cases hK : K' with
    | elem v => exact (h.shape_not_elem hK).elim
    | obj m' s' => exact ⟨m', s', by rw [hf, ← hp, hK]⟩
    | arr sl' s' =>
      have := h.shape
      rw [← hp, hK] at this
      exact this.elim
  · have hnk : Ts.oldest ∉ kids pn.kind := by
      intro hk
      obtain ⟨nx, h1, h2⟩ := h.kid_in hk
      rw [hr] at h1
      simp only [Option.some.injEq] at h1
      subst h1
      cases h2
    have h2 : bury Ts.oldest = none := by
      cases hb : bury Ts.oldest with
      | none => rfl
      | some t => exact absurd (h.bury_kid hb) hnk
    have h3 : tm Ts.oldest = none := by
      cases hb : tm Ts.oldest with
      | none => rfl
      | some t => exact absurd (h.tm_kid hb) hnk
    exact ⟨m, s, h.find_old hr (fun e' => e e'.symm) h2 h3⟩

theorem next_sizes (h : Stp L b b' d hd pn K' ns bury tm d') (hsize : SizeOK d' K') :
    ∀ c n, d'.find c = some n → SizeOK d' n.kind := by
  intro c n hf
  rcases h.inversion hf with ⟨rfl, rfl⟩ | ⟨hn, rfl⟩ | ⟨hne, _, n0, h0, hk0, _, _, _⟩
  · exact hsize
  · have hok := h.nodeok n hn
    have hlive : ∀ x ∈ kids n.kind, d'.isTomb x = false := by
      intro x hx
      obtain ⟨nc, hnc, rfl, _⟩ := h.new_kid hn hx
      exact h.isTomb_new hnc
    unfold NodeOK at hok
    cases hk : n.kind with
    | elem v => trivial
    | obj m s =>
      rw [hk] at hok hlive
      simp only at hok
      unfold SizeOK
      rw [hok]
      congr 1
      symm
      rw [List.filter_eq_self.mpr]
      intro x hx
      simp [hlive x.2 (List.mem_map.mpr ⟨x, hx, rfl⟩)]
    | arr sl s =>
      rw [hk] at hok hlive
      simp only at hok
      unfold SizeOK
      rw [hok.1]
      congr 1
      symm
      rw [List.filter_eq_self.mpr]
      intro x hx
      simp [slotLive, hlive x.2 (List.mem_map.mpr ⟨x, hx, rfl⟩)]
  · rw [hk0]
    apply sizeOK_congr _ (h.inv.sizes c n0 h0)
    intro y hy
    exact h.isTomb_kid h0 hne hy

theorem next_stamps (h : Stp L b b' d hd pn K' ns bury tm d') : ∀ c n, d'.find c = some n →
    St L b' n.c ∧ (∀ t, n.d = some t → St L b' t) ∧ ∀ o ∈ ordIds n.kind, St L b' o := by
  intro c n hf
  rcases h.inversion hf with ⟨rfl, rfl⟩ | ⟨hn, rfl⟩ | ⟨hne, _, n0, h0, hk0, _, hc0, hd0⟩
  · obtain ⟨s1, s2, _⟩ := h.inv.stamps c pn h.hp
    refine ⟨s1.mono h.bb, fun t ht => (s2 t ht).mono h.bb, ?_⟩
    simp only
    cases hK : K' with
    | elem v => simp [ordIds]
    | obj m s => simp [ordIds]
    | arr sl s => exact (h.shape_arr hK).2
  · have hst : ∀ x ∈ ids ns, St L b' x := by
      intro x hx
      obtain ⟨e1, e2, _, e4⟩ := h.newst x hx
      exact ⟨e1, Or.inr ⟨e2, e4⟩⟩
    obtain ⟨ts, ts', hb⟩ := h.block
    refine ⟨hst _ (List.mem_map.mpr ⟨n, hn, rfl⟩), (fun t ht => by rw [hb.live n hn] at ht; cases ht), ?_⟩
    have hok := h.nodeok n hn
    unfold NodeOK at hok
    cases hk : n.kind with
    | elem v => simp [ordIds]
    | obj m s => simp [ordIds]
    | arr sl s =>
      rw [hk] at hok
      simp only at hok
      intro o ho
      simp only [ordIds] at ho
      rw [hok.2] at ho
      obtain ⟨nc, hnc, rfl, _⟩ := h.new_kid hn (by rw [hk]; exact ho)
      exact hst _ (List.mem_map.mpr ⟨nc, hnc, rfl⟩)
  · obtain ⟨s1, s2, s3⟩ := h.inv.stamps c n0 h0
    refine ⟨by rw [hc0]; exact s1.mono h.bb, ?_, by rw [hk0]; exact fun o ho => (s3 o ho).mono h.bb⟩
    intro t ht
    rcases hd0 with ⟨e, _, _⟩ | ⟨t', e, hst, _⟩
    · exact (s2 t (e ▸ ht)).mono h.bb
    · rw [e] at ht
      simp only [Option.some.injEq] at ht
      exact ht ▸ hst

theorem next_ordnd (h : Stp L b b' d hd pn K' ns bury tm d') : ∀ c n, d'.find c = some n → (ordIds n.kind).Nodup := by
  intro c n hf
  rcases h.inversion hf with ⟨rfl, rfl⟩ | ⟨hn, rfl⟩ | ⟨_, _, n0, h0, hk0, _, _, _⟩
  · simp only
    cases hK : K' with
    | elem v => simp [ordIds]
    | obj m s => simp [ordIds]
    | arr sl s => exact (h.shape_arr hK).1
  · have hok := h.nodeok n hn
    obtain ⟨ts, ts', hb⟩ := h.block
    have hinj := hb.inj n hn
    unfold NodeOK at hok
    cases hk : n.kind with
    | elem v => simp [ordIds]
    | obj m s => simp [ordIds]
    | arr sl s =>
      rw [hk] at hok hinj
      simp only at hok
      simp only [ordIds]
      rw [hok.2]; exact hinj
  · rw [hk0]; exact h.inv.ordnd c n0 h0

theorem next_scalar (h : Stp L b b' d hd pn K' ns bury tm d') :
    ∀ c n v, d'.find c = some n → n.kind = .elem v → Scalar v := by
  intro c n v hf hk
  rcases h.inversion hf with ⟨rfl, rfl⟩ | ⟨hn, rfl⟩ | ⟨_, _, n0, h0, hk0, _, _, _⟩
  · exact (h.shape_not_elem hk).elim
  · have hok := h.nodeok n hn
    unfold NodeOK at hok
    rw [hk] at hok
    exact hok
  · exact h.inv.scalar c n0 v h0 (hk0 ▸ hk)

theorem next_linked (h : Stp L b b' d hd pn K' ns bury tm d') : ∀ c n, d'.find c = some n → n.d = none →
    c = Ts.oldest ∨ ∃ p pn', n.parent = some p ∧ d'.find p = some pn' ∧ c ∈ kids pn'.kind := by
  intro c n hf hlive
  obtain ⟨rk, hr⟩ := h.inv.acyc
  -- an old node that references a child is still there with the same children, unless it is `hd`
  have oldparent : ∀ (p : Ts) (np : DNode) (x : Ts), d.find p = some np → x ∈ kids np.kind → p ≠ hd →
      ∃ np', d'.find p = some np' ∧ x ∈ kids np'.kind := by
    intro p np x hp hx hne
    by_cases hb : (bury p).isSome ∨ (tm p).isSome
    · have hpk : p ∈ kids pn.kind := by
        rcases hb with hb | hb
        · obtain ⟨t, ht⟩ := Option.isSome_iff_exists.mp hb; exact h.bury_kid ht
        · obtain ⟨t, ht⟩ := Option.isSome_iff_exists.mp hb; exact h.tm_kid ht
      cases hf' : d'.find p with
      | none =>
        -- a buried element: it has no children
        have := h.find' p
        rw [hf', if_neg hne] at this
        cases hbp : bury p with
        | some t =>
          simp only [hbp, hp, fun1] at this
          split at this
          · rename_i v hkv; rw [hkv] at hx; simp [kids] at hx
          · cases this
        | none =>
          simp only [hbp] at this
          cases htp : tm p with
          | some t => simp [htp, hp, setD] at this
          | none => simp [hbp, htp] at hb
      | some np' =>
        rcases h.inversion hf' with ⟨e, _⟩ | ⟨hn, e⟩ | ⟨_, _, n0, h0, hk0, _, _, _⟩
        · exact absurd e hne
        · exact absurd (List.mem_map.mpr ⟨np', hn, e⟩) (h.kid_not_new hpk)
        · rw [hp] at h0
          simp only [Option.some.injEq] at h0
          subst h0
          exact ⟨np', rfl, hk0 ▸ hx⟩
    · have h2 : bury p = none := by
        cases hbp : bury p with
        | none => rfl
        | some t => exact absurd (Or.inl (by simp [hbp])) hb
      have h3 : tm p = none := by
        cases hbp : tm p with
        | none => rfl
        | some t => exact absurd (Or.inr (by simp [hbp])) hb
      exact ⟨np, h.find_old hp hne h2 h3, hx⟩
  rcases h.inversion hf with ⟨rfl, rfl⟩ | ⟨hn, rfl⟩ | ⟨hne, _, n0, h0, hk0, hp0, _, hd0⟩
  · rcases h.inv.linked c pn h.hp hlive with e | ⟨p, np, h1, h2, h3⟩
    · exact Or.inl e
    · have hpne : p ≠ c := by
        intro e
        have := hr p np h2 c h3
        rw [e] at this
        exact Nat.lt_irrefl _ this
      obtain ⟨np', h4, h5⟩ := oldparent p np c h2 h3 hpne
      exact Or.inr ⟨p, np', h1, h4, h5⟩
  · rcases h.lnk n hn with ⟨h1, h2⟩ | ⟨p, hp, h1, h2⟩
    · exact Or.inr ⟨hd, _, h2, h.find_hd, h1⟩
    · exact Or.inr ⟨p.c, p, h1, h.find_new hp, h2⟩
  · rcases hd0 with ⟨e, hb0, _⟩ | ⟨t, e, _, _⟩
    · rw [e] at hlive
      rcases h.inv.linked c n0 h0 hlive with e' | ⟨p, np, h1, h2, h3⟩
      · exact Or.inl e'
      · by_cases hph : p = hd
        · subst hph
          rw [h.hp] at h2
          simp only [Option.some.injEq] at h2
          subst h2
          exact Or.inr ⟨p, _, by rw [hp0]; exact h1, h.find_hd, h.keep c h3 hb0⟩
        · obtain ⟨np', h4, h5⟩ := oldparent p np c h2 h3 hph
          exact Or.inr ⟨p, np', by rw [hp0]; exact h1, h4, h5⟩
    · rw [e] at hlive; cases hlive

/-- the invariant after the step -/
theorem next (h : Stp L b b' d hd pn K' ns bury tm d') (hsize : SizeOK d' K') : DInv L b' d' :=
  ⟨h.next_wf, h.next_acyc, h.next_root, h.next_sizes hsize, h.next_stamps, h.next_ordnd,
    h.next_linked, h.next_scalar⟩

/-- tombstone flags of the children of `hd` after the step -/
theorem isTomb_old_kid (h : Stp L b b' d hd pn K' ns bury tm d') {x : Ts} (hx : x ∈ kids pn.kind)
    (h2 : bury x = none) (h3 : tm x = none) : d'.isTomb x = d.isTomb x := by
  obtain ⟨nx, hnx, _⟩ := h.kid_in hx
  exact isTomb_of_find ((h.find_old hnx (h.kid_ne_hd hx) h2 h3).trans hnx.symm)

theorem isTomb_tm (h : Stp L b b' d hd pn K' ns bury tm d') {x t : Ts} (h2 : bury x = none) (h3 : tm x = some t) :
    d'.isTomb x = true := by
  have hx := h.tm_kid h3
  obtain ⟨nx, hnx, _⟩ := h.kid_in hx
  unfold Doc.isTomb
  rw [h.find', if_neg (h.kid_ne_hd hx), h2, h3, hnx]
  rfl

/-- what the frame property needs -/
theorem same (h : Stp L b b' d hd pn K' ns bury tm d') :
    Same d d' hd (fun x => (bury x).isSome ∨ (tm x).isSome) := by
  intro c n hf hne hnt
  have h2 : bury c = none := by
    cases hbp : bury c with
    | none => rfl
    | some t => exact absurd (Or.inl (by simp [hbp])) hnt
  have h3 : tm c = none := by
    cases hbp : tm c with
    | none => rfl
    | some t => exact absurd (Or.inr (by simp [hbp])) hnt
  exact h.find_old hf hne h2 h3

theorem tk_kid (h : Stp L b b' d hd pn K' ns bury tm d') (x : Ts) (hx : (bury x).isSome ∨ (tm x).isSome) :
    x ∈ kids pn.kind := by
  rcases hx with hb | hb
  · obtain ⟨t, ht⟩ := Option.isSome_iff_exists.mp hb; exact h.bury_kid ht
  · obtain ⟨t, ht⟩ := Option.isSome_iff_exists.mp hb; exact h.tm_kid ht

end Stp

/-! ## 4. the local operations, one by one -/

theorem next_ts (L : OpId) : L.next.ts = ⟨L.era, L.lamport + 1, L.cuid, 0⟩ := rfl

/-- everything in the table is older than the timestamp of the next local operation -/
theorem cmp_lt_of_st {L : OpId} {t : Ts} (h : St L 0 t) : t.cmp L.next.ts = .lt := by
  obtain ⟨h1, h2⟩ := h
  have h3 : t.lamport ≤ L.lamport := by
    rcases h2 with h2 | h2
    · exact h2
    · omega
  have a1 : ¬ L.next.ts.era < t.era := by simp only [next_ts]; omega
  have a2 : ¬ t.era < L.next.ts.era := by simp only [next_ts]; omega
  have a3 : ¬ L.next.ts.lamport < t.lamport := by simp only [next_ts]; omega
  have a4 : t.lamport < L.next.ts.lamport := by simp only [next_ts]; omega
  unfold Ts.cmp
  rw [if_neg a1, if_neg a2, if_neg a3, if_pos a4]

theorem timeOf_lt {L : OpId} {d : Doc} (I : DInv L 0 d) {c : Ts} {n : DNode} (hf : d.find c = some n) :
    (d.timeOf c).cmp L.next.ts = .lt := by
  obtain ⟨s1, s2, _⟩ := I.stamps c n hf
  simp only [Doc.timeOf, hf]
  cases hd : n.d with
  | none => exact cmp_lt_of_st s1
  | some t => exact cmp_lt_of_st (s2 t hd)

theorem alFind_split {α : Type} {k : String} {c : α} : ∀ {m : List (String × α)}, alFind k m = some c →
    ∃ A B, m = A ++ (k, c) :: B ∧ alFind k A = none ∧ ∀ e, alSet k e m = A ++ (k, e) :: B := by
  intro m
  induction m with
  | nil => intro h; simp [alFind] at h
  | cons x r ih =>
    obtain ⟨k0, c0⟩ := x
    intro h
    simp only [alFind] at h
    by_cases h0 : k0 = k
    · simp only [h0, if_true, Option.some.injEq] at h
      subst h; subst h0
      exact ⟨[], r, rfl, rfl, fun e => by simp [alSet]⟩
    · simp only [h0, if_false] at h
      obtain ⟨A, B, e1, e2, e3⟩ := ih h
      refine ⟨(k0, c0) :: A, B, by rw [e1]; rfl, by simp [alFind, h0, e2], fun e => ?_⟩
      simp [alSet, h0, e3 e]

/-- the node buried by a put / an update -/
def buryOf (o : Option Ts) (t : Ts) : Ts → Option Ts := fun x => if o = some x then some t else none

theorem buryOf_none (t x : Ts) : buryOf none t x = none := by simp [buryOf]
theorem buryOf_self (o t : Ts) : buryOf (some o) t o = some t := by simp [buryOf]
theorem buryOf_ne {o t x : Ts} (h : x ≠ o) : buryOf (some o) t x = none := by
  simp only [buryOf, Option.some.injEq]
  rw [if_neg (fun e => h e.symm)]
theorem buryOf_some {o : Option Ts} {t x t' : Ts} (h : buryOf o t x = some t') : o = some x ∧ t' = t := by
  unfold buryOf at h
  split at h
  · rename_i e; exact ⟨e, by simpa using h.symm⟩
  · cases h

/-- DocPut on an object: the outcome, the step, the size -/
theorem put_run {L : OpId} {d : Doc} {hd : Ts} {pn : DNode} {m : List (String × Ts)} {s : Int}
    (I : DInv L 0 d) (hp : d.find hd = some pn) (hk : pn.kind = .obj m s) (k : String) (v : JVal)
    (hnn : v.hasNull = false) :
    ∃ ns ts' s' d', createNode hd L.next.ts v = .ok (ns, L.next.ts, ts') ∧
      d.putInObject hd k v L.next.ts =
        .ok (d', (alFind k m).bind (fun c => if d.isTomb c then none else some c)) ∧
      Stp L 0 ts'.delim d hd pn (.obj (alSet k L.next.ts m) s') ns (buryOf (alFind k m) L.next.ts)
        (fun _ => none) d' ∧
      SizeOK d' (.obj (alSet k L.next.ts m) s') := by
  obtain ⟨⟨ns, c, ts'⟩, hc⟩ := createNode_ok hd L.next.ts v hnn
  have hroot := createNode_root hc
  subst hroot
  obtain ⟨hblock, _, n0, rest, hns, hn0c, hn0p⟩ := createNode_spec hd L.next.ts v _ hc
  simp only at hblock hns
  obtain ⟨hnodeok, hlnk⟩ := createNode_spec2 hd L.next.ts v _ hc
  simp only at hnodeok hlnk
  have hnewst := block_newst (L := L) hblock rfl rfl
  have hfresh : Fresh d ns := fresh_of_newst I hnewst
  have hpre : PutPre d hd v L.next.ts pn m s ns ts' := ⟨I.wf, hp, hk, hc, hfresh⟩
  have hpc := find_some_c hp
  have hlen : 1 ≤ ns.length := hpre.ns_length_pos
  have hts' : ts'.delim = ns.length := by rw [hblock.next]; simp [addDelim, next_ts]
  have hvnd : (m.map (·.2)).Nodup := hpre.vals_nodup
  have hkids : kids pn.kind = m.map (·.2) := by rw [hk]; rfl
  have hstts : St L ts'.delim L.next.ts := ⟨rfl, Or.inr ⟨rfl, by rw [hts']; exact hlen⟩⟩
  have hn0mem : n0 ∈ ns := by rw [hns]; simp
  -- the parts of the step that do not depend on the case
  have mk : ∀ (s' : Int) (d' : Doc),
      (∀ c, d'.find c = if c = hd then some { pn with kind := .obj (alSet k L.next.ts m) s' } else
        match buryOf (alFind k m) L.next.ts c with
        | some t => fun1 t (d.find c)
        | none => (nfind ns c).or (d.find c)) →
      (ids d'.table).Nodup →
      Stp L 0 ts'.delim d hd pn (.obj (alSet k L.next.ts m) s') ns (buryOf (alFind k m) L.next.ts)
        (fun _ => none) d' := by
    intro s' d' hfind hnd
    refine ⟨I, hp, hfind, hnd, ⟨_, _, hblock⟩, hnewst, Nat.zero_le _, hnodeok, ?_, ?_, ?_, ?_, ?_, ?_, ?_⟩
    · intro n hn
      rcases hlnk n hn with ⟨h1, h2⟩ | h
      · refine Or.inl ⟨?_, h2⟩
        simp only [List.mem_singleton] at h1
        rw [h1]
        simp only [kids]
        cases hf : alFind k m with
        | none => rw [alSet_vals_none _ hf]; simp
        | some oldC =>
          obtain ⟨A, B, _, _, e3⟩ := alFind_split hf
          rw [e3]; simp
      · exact Or.inr h
    · intro x t hx
      rcases hx with hx | hx
      · obtain ⟨e1, e2⟩ := buryOf_some hx
        exact ⟨by rw [hkids]; exact alFind_mem_vals e1, e2 ▸ hstts⟩
      · cases hx
    · intro x t hx
      obtain ⟨e1, _⟩ := buryOf_some hx
      simp only [kids]
      exact (alSet_vals_some hvnd e1 hpre.ts_notin).2.1
    · intro c hc
      simp only [kids] at hc
      obtain ⟨x, hx, rfl⟩ := List.mem_map.mp hc
      rcases mem_alSet _ _ _ _ hx with e | e
      · exact Or.inr ⟨n0, hn0mem, by rw [e]; exact hn0c, hn0p⟩
      · exact Or.inl (by rw [hkids]; exact List.mem_map.mpr ⟨x, e, rfl⟩)
    · intro c hc hb
      rw [hkids] at hc
      simp only [kids]
      cases hf : alFind k m with
      | none => rw [alSet_vals_none _ hf]; exact List.mem_append_left _ hc
      | some oldC =>
        obtain ⟨A, B, e1, _, e3⟩ := alFind_split hf
        have hne : c ≠ oldC := by
          intro e
          rw [hf, e, buryOf_self] at hb
          cases hb
        rw [e3]
        rw [e1] at hc
        simp only [List.map_append, List.map_cons, List.mem_append, List.mem_cons] at hc ⊢
        rcases hc with h | h | h
        · exact Or.inl h
        · exact absurd h hne
        · exact Or.inr (Or.inr h)
    · simp only [kids]
      cases hf : alFind k m with
      | none =>
        rw [alSet_vals_none _ hf, List.nodup_append]
        refine ⟨hvnd, by simp, ?_⟩
        intro a ha b hb
        simp only [List.mem_singleton] at hb
        subst hb
        intro e; subst e; exact hpre.ts_notin ha
      | some oldC => exact (alSet_vals_some hvnd hf hpre.ts_notin).1
    · rw [hk]; trivial
  cases hf : alFind k m with
  | none =>
    have hrun := put_new hpre hf
    refine ⟨ns, ts', s + 1, (d.addAll ns).set { pn with kind := .obj (alSet k L.next.ts m) (s + 1) }, hc,
      by rw [hrun]; rfl, ?_⟩
    have hstp := mk (s + 1) ((d.addAll ns).set { pn with kind := .obj (alSet k L.next.ts m) (s + 1) }) (by
      intro c
      rw [find_set, find_addAll, hf]
      simp only [hpc, buryOf_none]
      by_cases e : c = hd
      · simp [e]
      · have : ¬ hd = c := fun e' => e e'.symm
        simp [e, this]) (nodup_set _ (nodup_addAll ns I.wf.nodup))
    rw [hf] at hstp
    refine ⟨hstp, ?_⟩
    generalize (d.addAll ns).set { pn with kind := .obj (alSet k L.next.ts m) (s + 1) } = D at hstp ⊢
    -- size
    have hsz := I.sizes hd pn hp
    rw [hk] at hsz
    simp only [SizeOK] at hsz ⊢
    rw [alSet_of_none k _ m hf, List.filter_append, List.length_append]
    have h1 : (m.filter fun e => !D.isTomb e.2) = m.filter fun e => !d.isTomb e.2 := by
      apply List.filter_congr
      intro x hx
      rw [hstp.isTomb_old_kid (by rw [hkids]; exact List.mem_map.mpr ⟨x, hx, rfl⟩) (buryOf_none _ _) rfl]
    have h2 := hstp.isTomb_new hn0mem
    rw [hn0c] at h2
    rw [h1, hsz]
    simp [h2]
  | some oldC =>
    obtain ⟨no, hno, _⟩ := hpre.old_find hf
    have hlt := timeOf_lt I hno
    have hrun := put_win hpre hf hlt
    have hone : oldC ≠ hd := by
      obtain ⟨rk, hr⟩ := I.acyc
      intro e
      have := hr hd pn hp oldC (by rw [hkids]; exact alFind_mem_vals hf)
      rw [e] at this
      exact Nat.lt_irrefl _ this
    have holdnew : nfind ns oldC = none := by
      rw [nfind_none_iff]
      intro hmem
      rw [hfresh oldC hmem] at hno; cases hno
    refine ⟨ns, ts', if d.isTomb oldC then s + 1 else s,
      ((d.addAll ns).set { pn with kind := .obj (alSet k L.next.ts m) (if d.isTomb oldC then s + 1 else s) }).funeral
        oldC L.next.ts, hc, by rw [hrun]; rfl, ?_⟩
    have hstp := mk (if d.isTomb oldC then s + 1 else s)
      (((d.addAll ns).set { pn with kind := .obj (alSet k L.next.ts m) (if d.isTomb oldC then s + 1 else s) }).funeral
        oldC L.next.ts) (by
      intro c
      rw [find_funeral, find_set, find_set, find_addAll, find_addAll, hf]
      simp only [hpc]
      by_cases e : c = hd
      · rw [e]
        have : ¬ hd = oldC := fun e' => hone e'.symm
        simp [this]
      · have e' : ¬ hd = c := fun e' => e e'.symm
        by_cases e2 : c = oldC
        · subst e2
          have : ¬ hd = c := fun e' => hone e'.symm
          simp [e, this, buryOf_self, holdnew]
        · simp [e, e', e2, buryOf_ne e2]) (nodup_funeral _ _ (nodup_set _ (nodup_addAll ns I.wf.nodup)))
    rw [hf] at hstp
    refine ⟨hstp, ?_⟩
    generalize ((d.addAll ns).set { pn with kind := .obj (alSet k L.next.ts m) (if d.isTomb oldC then s + 1 else s) }).funeral
        oldC L.next.ts = D at hstp ⊢
    -- size
    have hsz := I.sizes hd pn hp
    rw [hk] at hsz
    obtain ⟨A, B, e1, _, e3⟩ := alFind_split hf
    simp only [SizeOK] at hsz ⊢
    rw [e3]
    rw [e1] at hsz hvnd
    have hcong : ∀ (X : List (String × Ts)), (∀ x ∈ X, x.2 ∈ m.map (·.2) ∧ x.2 ≠ oldC) →
        (X.filter fun e => !D.isTomb e.2) = X.filter fun e => !d.isTomb e.2 := by
      intro X hX
      apply List.filter_congr
      intro x hx
      obtain ⟨hx1, hx2⟩ := hX x hx
      rw [hstp.isTomb_old_kid (by rw [hkids]; exact hx1) (buryOf_ne hx2) rfl]
    simp only [List.map_append, List.map_cons, List.nodup_append, List.nodup_cons, List.mem_cons] at hvnd
    have hA : ∀ x ∈ A, x.2 ∈ m.map (·.2) ∧ x.2 ≠ oldC := by
      intro x hx
      refine ⟨by rw [e1]; simp only [List.map_append, List.mem_append]; exact Or.inl (List.mem_map.mpr ⟨x, hx, rfl⟩), ?_⟩
      intro e
      exact hvnd.2.2 x.2 (List.mem_map.mpr ⟨x, hx, rfl⟩) oldC (Or.inl rfl) e
    have hB : ∀ x ∈ B, x.2 ∈ m.map (·.2) ∧ x.2 ≠ oldC := by
      intro x hx
      refine ⟨by rw [e1]; simp only [List.map_append, List.map_cons, List.mem_append, List.mem_cons]; exact Or.inr (Or.inr (List.mem_map.mpr ⟨x, hx, rfl⟩)), ?_⟩
      intro e
      exact hvnd.2.1.1 (e ▸ List.mem_map.mpr ⟨x, hx, rfl⟩)
    have h2 := hstp.isTomb_new hn0mem
    rw [hn0c] at h2
    rw [List.filter_append, List.filter_cons, hcong A hA, hcong B hB]
    rw [List.filter_append, List.filter_cons] at hsz
    simp only [h2, Bool.not_false, if_true, List.length_append, List.length_cons]
    by_cases ht : d.isTomb oldC = true
    · simp only [ht, Bool.not_true, Bool.false_eq_true, if_false, List.length_append, if_true] at hsz ⊢
      rw [hsz]; push_cast; omega
    · simp only [ht, Bool.not_false, if_true, List.length_append, List.length_cons, Bool.false_eq_true,
        if_false] at hsz ⊢
      exact hsz

theorem nfind_nil (c : Ts) : nfind [] c = none := by simp [nfind]

theorem remove_err {d : Doc} {hd : Ts} {pn : DNode} {m : List (String × Ts)} {s : Int}
    (hp : d.find hd = some pn) (hk : pn.kind = .obj m s) (k : String) (ts : Ts)
    (h : alFind k m = none ∨ ∃ c, alFind k m = some c ∧ d.isTomb c = true) :
    d.deleteInObject hd k ts true = .err Err.noOp := by
  unfold Doc.deleteInObject
  rw [findObj_some_iff.mpr ⟨hp, hk⟩]
  rcases h with h | ⟨c, h, ht⟩
  · simp [h]
  · simp [h, ht]

/-- DocRemove of a live key: the outcome, the step, the size -/
theorem remove_run {L : OpId} {d : Doc} {hd : Ts} {pn : DNode} {m : List (String × Ts)} {s : Int}
    (I : DInv L 0 d) (hp : d.find hd = some pn) (hk : pn.kind = .obj m s) (k : String) {c : Ts}
    (hf : alFind k m = some c) (hlive : d.isTomb c = false) :
    ∃ d', d.deleteInObject hd k L.next.ts true = .ok (d', some c) ∧
      Stp L 0 1 d hd pn (.obj m (s - 1)) [] (fun _ => none) (buryOf (some c) L.next.ts) d' ∧
      SizeOK d' (.obj m (s - 1)) := by
  have hkids : kids pn.kind = m.map (·.2) := by rw [hk]; rfl
  have hck : c ∈ kids pn.kind := by rw [hkids]; exact alFind_mem_vals hf
  obtain ⟨nc, hnc, _⟩ := I.wf.child hd pn hp c hck
  have hlt := timeOf_lt I hnc
  have hpc := find_some_c hp
  have hvnd : (m.map (·.2)).Nodup := by have := I.wf.inj hd pn hp; rwa [hkids] at this
  have hne : c ≠ hd := by
    obtain ⟨rk, hr⟩ := I.acyc
    intro e
    have := hr hd pn hp c hck
    rw [e] at this
    exact Nat.lt_irrefl _ this
  have hrun : d.deleteInObject hd k L.next.ts true =
      .ok ((d.set { pn with kind := .obj m (s - 1) }).makeTomb c L.next.ts, some c) := by
    unfold Doc.deleteInObject
    rw [findObj_some_iff.mpr ⟨hp, hk⟩]
    simp [hf, hlive, hlt]
  refine ⟨_, hrun, ?_⟩
  have hstp : Stp L 0 1 d hd pn (.obj m (s - 1)) [] (fun _ => none) (buryOf (some c) L.next.ts)
      ((d.set { pn with kind := .obj m (s - 1) }).makeTomb c L.next.ts) := by
    refine ⟨I, hp, ?_, nodup_makeTomb _ _ (nodup_set _ I.wf.nodup), ⟨L.next.ts, L.next.ts, block_nil _⟩,
      ?_, Nat.zero_le _, ?_, ?_, ?_, ?_, ?_, ?_, hvnd, ?_⟩
    · intro x
      rw [find_makeTomb, find_set, find_set]
      simp only [hpc, nfind_nil]
      by_cases e : x = hd
      · rw [e]
        have : ¬ hd = c := fun e' => hne e'.symm
        simp [this]
      · have e' : ¬ hd = x := fun e' => e e'.symm
        by_cases e2 : x = c
        · subst e2
          simp [e, e', buryOf_self, setD]
        · simp [e, e', e2, buryOf_ne e2]
    · intro x hx; simp [ids] at hx
    · intro n hn; cases hn
    · intro n hn; cases hn
    · intro x t hx
      rcases hx with hx | hx
      · cases hx
      · obtain ⟨e1, e2⟩ := buryOf_some hx
        simp only [Option.some.injEq] at e1
        exact ⟨e1 ▸ hck, e2 ▸ ⟨rfl, Or.inr ⟨rfl, Nat.zero_lt_one⟩⟩⟩
    · intro x t hx; cases hx
    · exact fun x hx => Or.inl (by rw [hkids]; exact hx)
    · exact fun x hx _ => by rw [hkids] at hx; exact hx
    · rw [hk]; trivial
  refine ⟨hstp, ?_⟩
  generalize (d.set { pn with kind := .obj m (s - 1) }).makeTomb c L.next.ts = D at hstp ⊢
  have hsz := I.sizes hd pn hp
  rw [hk] at hsz
  obtain ⟨A, B, e1, _, _⟩ := alFind_split hf
  simp only [SizeOK] at hsz ⊢
  rw [e1] at hsz hvnd ⊢
  have hcong : ∀ (X : List (String × Ts)), (∀ x ∈ X, x.2 ∈ m.map (·.2) ∧ x.2 ≠ c) →
      (X.filter fun e => !D.isTomb e.2) = X.filter fun e => !d.isTomb e.2 := by
    intro X hX
    apply List.filter_congr
    intro x hx
    obtain ⟨hx1, hx2⟩ := hX x hx
    rw [hstp.isTomb_old_kid (by rw [hkids]; exact hx1) rfl (buryOf_ne hx2)]
  simp only [List.map_append, List.map_cons, List.nodup_append, List.nodup_cons, List.mem_cons] at hvnd
  have hA : ∀ x ∈ A, x.2 ∈ m.map (·.2) ∧ x.2 ≠ c := by
    intro x hx
    refine ⟨by rw [e1]; simp only [List.map_append, List.mem_append]; exact Or.inl (List.mem_map.mpr ⟨x, hx, rfl⟩), ?_⟩
    intro e
    exact hvnd.2.2 x.2 (List.mem_map.mpr ⟨x, hx, rfl⟩) c (Or.inl rfl) e
  have hB : ∀ x ∈ B, x.2 ∈ m.map (·.2) ∧ x.2 ≠ c := by
    intro x hx
    refine ⟨by rw [e1]; simp only [List.map_append, List.map_cons, List.mem_append, List.mem_cons]; exact Or.inr (Or.inr (List.mem_map.mpr ⟨x, hx, rfl⟩)), ?_⟩
    intro e
    exact hvnd.2.1.1 (e ▸ List.mem_map.mpr ⟨x, hx, rfl⟩)
  have h2 : D.isTomb c = true := hstp.isTomb_tm rfl (buryOf_self _ _)
  rw [List.filter_append, List.filter_cons, hcong A hA, hcong B hB]
  rw [List.filter_append, List.filter_cons] at hsz
  simp only [h2, hlive, Bool.not_true, Bool.not_false, Bool.false_eq_true, if_false, if_true, List.length_append,
    List.length_cons] at hsz ⊢
  rw [hsz]; push_cast; omega

/-! ### arrays: the generic walk over live slots -/

theorem insertAtLive_spec {β : Type} (isLive : β → Bool) (ns : List β) : ∀ (l : List β) (pos : Nat),
    pos ≤ (l.filter isLive).length →
    ∃ pre suf, l = pre ++ suf ∧ insertAtLive isLive ns pos l = some (pre ++ ns ++ suf) ∧
      (pre.filter isLive).length = pos := by
  intro l
  induction l with
  | nil =>
    intro pos h
    have : pos = 0 := by simpa using h
    subst this
    exact ⟨[], [], rfl, by simp [insertAtLive], rfl⟩
  | cons x xs ih =>
    intro pos h
    cases pos with
    | zero => exact ⟨[], x :: xs, rfl, by simp [insertAtLive], rfl⟩
    | succ p =>
      by_cases hl : isLive x = true
      · by_cases hp : p = 0
        · subst hp
          exact ⟨[x], xs, rfl, by simp [insertAtLive, hl], by simp [hl]⟩
        · have h' : p ≤ (xs.filter isLive).length := by
            simp only [List.filter_cons, hl, if_true, List.length_cons] at h; omega
          obtain ⟨pre, suf, e1, e2, e3⟩ := ih p h'
          refine ⟨x :: pre, suf, by rw [e1]; rfl, ?_, by simp [hl, e3]⟩
          simp [insertAtLive, hl, hp, e2]
      · have h' : p + 1 ≤ (xs.filter isLive).length := by
          simp only [List.filter_cons, hl, Bool.false_eq_true, if_false] at h; exact h
        obtain ⟨pre, suf, e1, e2, e3⟩ := ih (p + 1) h'
        refine ⟨x :: pre, suf, by rw [e1]; rfl, ?_, by simp [hl, e3]⟩
        simp [insertAtLive, hl, e2]

theorem nthLive_some {β : Type} (isLive : β → Bool) : ∀ (l : List β) (p : Nat), p < (l.filter isLive).length →
    ∃ x, nthLive isLive p l = some x := by
  intro l
  induction l with
  | nil => intro p h; simp at h
  | cons x xs ih =>
    intro p h
    by_cases hl : isLive x = true
    · by_cases hp : p = 0
      · exact ⟨x, by simp [nthLive, hl, hp]⟩
      · have h' : p - 1 < (xs.filter isLive).length := by
          simp only [List.filter_cons, hl, if_true, List.length_cons] at h; omega
        obtain ⟨y, hy⟩ := ih (p - 1) h'
        exact ⟨y, by simp [nthLive, hl, hp, hy]⟩
    · have h' : p < (xs.filter isLive).length := by
        simp only [List.filter_cons, hl, Bool.false_eq_true, if_false] at h; exact h
      obtain ⟨y, hy⟩ := ih p h'
      exact ⟨y, by simp [nthLive, hl, hy]⟩

theorem slotLive_addAll {d : Doc} {ns : List DNode} (hf : Fresh d ns) {sl : List (Ts × Ts)}
    (hin : ∀ s ∈ sl, (d.find s.2).isSome) : sl.filter (slotLive (d.addAll ns)) = sl.filter (slotLive d) := by
  apply List.filter_congr
  intro s hs
  unfold slotLive
  rw [DA.isTomb_addAll_old]
  intro hmem
  have := hin s hs
  rw [hf s.2 hmem] at this
  cases this

/-- the step of an operation that only creates nodes and relinks `hd` -/
theorem stp_create {L : OpId} {d : Doc} {hd : Ts} {pn : DNode} {ts ts' : Ts} {ns : List DNode} {cs : List Ts}
    {K' : DKind} (I : DInv L 0 d) (hp : d.find hd = some pn)
    (hts : ts = L.next.ts) (hblock : Block ts ns ts') (hnodeok : ∀ n ∈ ns, NodeOK n) (hlnk : Lnk ns cs hd)
    (hcs : ∀ c ∈ cs, ∃ nc ∈ ns, nc.c = c ∧ nc.parent = some hd)
    (hcsK : ∀ c ∈ cs, c ∈ kids K')
    (hK : ∀ c ∈ kids K', c ∈ kids pn.kind ∨ c ∈ cs) (hkeep : ∀ c ∈ kids pn.kind, c ∈ kids K')
    (hKnd : (kids K').Nodup) (hshape : ShapeOK L ts'.delim pn.kind K') :
    Stp L 0 ts'.delim d hd pn K' ns (fun _ => none) (fun _ => none) ((d.addAll ns).set { pn with kind := K' }) := by
  subst hts
  have hnewst := block_newst (L := L) hblock rfl rfl
  have hpc := find_some_c hp
  refine ⟨I, hp, ?_, nodup_set _ (nodup_addAll ns I.wf.nodup), ⟨_, _, hblock⟩, hnewst, Nat.zero_le _, hnodeok,
    ?_, ?_, ?_, ?_, fun c hc _ => hkeep c hc, hKnd, hshape⟩
  · intro c
    rw [find_set, find_addAll]
    simp only [hpc]
    by_cases e : c = hd
    · simp [e]
    · have : ¬ hd = c := fun e' => e e'.symm
      simp [e, this]
  · intro n hn
    rcases hlnk n hn with ⟨h1, h2⟩ | h
    · exact Or.inl ⟨hcsK _ h1, h2⟩
    · exact Or.inr h
  · intro x t hx; rcases hx with hx | hx <;> cases hx
  · intro x t hx; cases hx
  · intro c hc
    rcases hK c hc with h | h
    · exact Or.inl h
    · exact Or.inr (hcs c h)

/-- DocInsert into an array: the outcome, the step, the size -/
theorem insert_run {L : OpId} {d : Doc} {hd : Ts} {pn : DNode} {slots : List (Ts × Ts)} {size : Int}
    (I : DInv L 0 d) (hp : d.find hd = some pn) (hk : pn.kind = .arr slots size) (pos : Nat) (vs : List JVal)
    (hpos : pos ≤ (slots.filter (slotLive d)).length) (hnn : JVal.hasNullList vs = false) :
    ∃ ns cs ts' pre suf d' a, createArrItems hd L.next.ts vs = .ok (ns, cs, ts') ∧ slots = pre ++ suf ∧
      (pre.filter (slotLive d)).length = pos ∧
      d.insertLocalInArray hd pos L.next.ts vs = .ok (d', a) ∧
      Stp L 0 ts'.delim d hd pn (.arr (pre ++ cs.map (fun c => (c, c)) ++ suf) (size + cs.length)) ns
        (fun _ => none) (fun _ => none) d' ∧
      SizeOK d' (.arr (pre ++ cs.map (fun c => (c, c)) ++ suf) (size + cs.length)) := by
  obtain ⟨⟨ns, cs, ts'⟩, hc⟩ := createArrItems_ok hd L.next.ts vs hnn
  obtain ⟨hblock, hcsnd, hcs⟩ := DA.createMany_block (p := hd) hc
  obtain ⟨hnodeok, hlnk⟩ := createArrItems_spec2 hd L.next.ts vs ns cs ts' hc
  have hnewst := block_newst (L := L) hblock rfl rfl
  have hfresh : Fresh d ns := fresh_of_newst I hnewst
  have hkids : kids pn.kind = slots.map (·.2) := by rw [hk]; rfl
  have hin : ∀ s ∈ slots, (d.find s.2).isSome := by
    intro s hs
    obtain ⟨nc, hnc, _⟩ := I.wf.child hd pn hp s.2 (by rw [hkids]; exact List.mem_map.mpr ⟨s, hs, rfl⟩)
    simp [hnc]
  have hfilt := slotLive_addAll hfresh hin
  obtain ⟨pre, suf, e1, e2, e3⟩ := insertAtLive_spec (slotLive (d.addAll ns)) (cs.map fun c => (c, c)) slots pos
    (by rw [hfilt]; exact hpos)
  have hanchor : ∃ a, (if pos = 0 then some Ts.oldest
      else (nthLive (slotLive (d.addAll ns)) (pos - 1) slots).map (·.1)) = some a := by
    by_cases h0 : pos = 0
    · exact ⟨Ts.oldest, by simp [h0]⟩
    · obtain ⟨x, hx⟩ := nthLive_some (slotLive (d.addAll ns)) slots (pos - 1) (by rw [hfilt]; omega)
      exact ⟨x.1, by simp [h0, hx]⟩
  obtain ⟨a, ha⟩ := hanchor
  have hrun : d.insertLocalInArray hd pos L.next.ts vs =
      .ok ((d.addAll ns).set { pn with kind := .arr (pre ++ cs.map (fun c => (c, c)) ++ suf) (size + cs.length) }, a) := by
    unfold Doc.insertLocalInArray
    rw [DA.findArr_some_iff.mpr ⟨hp, hk⟩]
    simp only [createMany, hc, ha, e2]
  have hpre3 : (pre.filter (slotLive d)).length = pos := by
    rw [← e3]
    congr 1
    apply List.filter_congr
    intro s hs
    have hs' : s ∈ slots := by rw [e1]; exact List.mem_append_left _ hs
    unfold slotLive
    rw [DA.isTomb_addAll_old]
    intro hmem
    have := hin s hs'
    rw [hfresh s.2 hmem] at this
    cases this
  have hcsnew : ∀ c ∈ cs, c ∈ ids ns := by
    intro c hc'
    obtain ⟨nc, h1, h2, _⟩ := hcs c hc'
    exact List.mem_map.mpr ⟨nc, h1, h2⟩
  have hvnd : (slots.map (·.2)).Nodup := by have := I.wf.inj hd pn hp; rwa [hkids] at this
  have hond : (slots.map (·.1)).Nodup := by have := I.ordnd hd pn hp; rwa [hk] at this
  have hostamp : ∀ o ∈ slots.map (·.1), St L 0 o := by
    have := (I.stamps hd pn hp).2.2; rwa [hk] at this
  have hKkids : kids (.arr (pre ++ cs.map (fun c => (c, c)) ++ suf) (size + cs.length)) =
      pre.map (·.2) ++ cs ++ suf.map (·.2) := by
    simp [kids, Function.comp_def]
  have hKord : (pre ++ cs.map (fun c => (c, c)) ++ suf).map (·.1) = pre.map (·.1) ++ cs ++ suf.map (·.1) := by
    simp [Function.comp_def]
  have hkidold : ∀ c ∈ slots.map (·.2), c ∉ cs := by
    intro c hc' hcc
    obtain ⟨s, hs, rfl⟩ := List.mem_map.mp hc'
    have := hin s hs
    rw [hfresh s.2 (hcsnew _ hcc)] at this
    cases this
  have hstp := stp_create (K' := .arr (pre ++ cs.map (fun c => (c, c)) ++ suf) (size + cs.length)) I hp rfl hblock
    hnodeok hlnk hcs
    (by intro c hc'; rw [hKkids]; simp [hc'])
    (by
      intro c hc'
      rw [hKkids] at hc'
      rw [hkids, e1]
      simp only [List.mem_append, List.map_append] at hc' ⊢
      tauto)
    (by
      intro c hc'
      rw [hKkids]
      rw [hkids, e1] at hc'
      simp only [List.mem_append, List.map_append] at hc' ⊢
      tauto)
    (by
      rw [hKkids]
      rw [e1, List.map_append, List.nodup_append] at hvnd
      rw [e1, List.map_append] at hkidold
      rw [List.nodup_append, List.nodup_append]
      refine ⟨⟨hvnd.1, hcsnd, ?_⟩, hvnd.2.1, ?_⟩
      · intro a ha b hb e
        exact hkidold a (List.mem_append_left _ ha) (e ▸ hb)
      · intro a ha b hb e
        rcases List.mem_append.mp ha with ha | ha
        · exact hvnd.2.2 a ha b hb e
        · exact hkidold b (List.mem_append_right _ hb) (e ▸ ha))
    (by
      rw [hk]
      simp only [ShapeOK]
      rw [hKord]
      have hcsst : ∀ c ∈ cs, St L ts'.delim c := by
        intro c hc'
        obtain ⟨q1, q2, _, q4⟩ := hnewst c (hcsnew c hc')
        exact ⟨q1, Or.inr ⟨q2, q4⟩⟩
      have hdisj : ∀ o ∈ slots.map (·.1), o ∉ cs := by
        intro o ho hoc
        obtain ⟨q1, q2, _, _⟩ := hnewst o (hcsnew o hoc)
        have := (hostamp o ho).2
        omega
      rw [e1, List.map_append] at hond hdisj hostamp
      rw [List.nodup_append] at hond
      refine ⟨?_, ?_⟩
      · rw [List.nodup_append, List.nodup_append]
        refine ⟨⟨hond.1, hcsnd, ?_⟩, hond.2.1, ?_⟩
        · intro a ha b hb e
          exact hdisj a (List.mem_append_left _ ha) (e ▸ hb)
        · intro a ha b hb e
          rcases List.mem_append.mp ha with ha | ha
          · exact hond.2.2 a ha b hb e
          · exact hdisj b (List.mem_append_right _ hb) (e ▸ ha)
      · intro o ho
        simp only [List.mem_append] at ho
        rcases ho with (ho | ho) | ho
        · exact (hostamp o (List.mem_append_left _ ho)).mono (Nat.zero_le _)
        · exact hcsst o ho
        · exact (hostamp o (List.mem_append_right _ ho)).mono (Nat.zero_le _))
  refine ⟨ns, cs, ts', pre, suf, _, a, hc, e1, hpre3, hrun, hstp, ?_⟩
  generalize (d.addAll ns).set { pn with kind := .arr (pre ++ cs.map (fun c => (c, c)) ++ suf) (size + cs.length) } = D
    at hstp ⊢
  have hsz := I.sizes hd pn hp
  rw [hk] at hsz
  simp only [SizeOK] at hsz ⊢
  have hold : ∀ (X : List (Ts × Ts)), (∀ x ∈ X, x ∈ slots) → X.filter (slotLive D) = X.filter (slotLive d) := by
    intro X hX
    apply List.filter_congr
    intro x hx
    unfold slotLive
    rw [hstp.isTomb_old_kid (by rw [hkids]; exact List.mem_map.mpr ⟨x, hX x hx, rfl⟩) rfl rfl]
  have hnew : (cs.map fun c => (c, c)).filter (slotLive D) = cs.map fun c => (c, c) := by
    rw [List.filter_eq_self]
    intro x hx
    obtain ⟨c, hc', rfl⟩ := List.mem_map.mp hx
    obtain ⟨nc, h1, h2, _⟩ := hcs c hc'
    have := hstp.isTomb_new h1
    rw [h2] at this
    simp [slotLive, this]
  rw [List.filter_append, List.filter_append, hnew, hold pre (by intro x hx; rw [e1]; exact List.mem_append_left _ hx),
    hold suf (by intro x hx; rw [e1]; exact List.mem_append_right _ hx)]
  rw [e1, List.filter_append] at hsz
  simp only [List.length_append, List.length_map] at hsz ⊢
  rw [hsz]; push_cast; omega

/-! ### deleting a range of live slots -/

/-- the stamp a deleted child gets -/
def tmOf (l : List ((Ts × Ts) × Ts)) (x : Ts) : Option Ts := (l.find? (fun st => st.1.2 = x)).map (·.2)

def foldTomb (d : Doc) (l : List ((Ts × Ts) × Ts)) : Doc := l.foldl (fun acc x => acc.makeTomb x.1.2 x.2) d

theorem find_foldTomb : ∀ (l : List ((Ts × Ts) × Ts)) (d : Doc), (l.map (·.1.2)).Nodup → ∀ c,
    (foldTomb d l).find c = match tmOf l c with
      | some t => setD t (d.find c)
      | none => d.find c := by
  intro l
  induction l with
  | nil => intro d _ c; simp [foldTomb, tmOf]
  | cons x r ih =>
    intro d hnd c
    simp only [List.map_cons, List.nodup_cons] at hnd
    have e : foldTomb d (x :: r) = foldTomb (d.makeTomb x.1.2 x.2) r := rfl
    rw [e, ih _ hnd.2 c, find_makeTomb]
    by_cases hc : x.1.2 = c
    · subst hc
      have hnone : tmOf r x.1.2 = none := by
        unfold tmOf
        rw [List.find?_eq_none.mpr]
        · rfl
        · intro y hy hyc
          exact hnd.1 (List.mem_map.mpr ⟨y, hy, by simpa using hyc⟩)
      have hsome : tmOf (x :: r) x.1.2 = some x.2 := by
        unfold tmOf
        rw [List.find?_cons_of_pos (by simp)]
        rfl
      rw [hnone, hsome]
      simp [setD]
    · have hc' : ¬ c = x.1.2 := fun e' => hc e'.symm
      have : tmOf (x :: r) c = tmOf r c := by
        unfold tmOf
        rw [List.find?_cons_of_neg (by simpa using hc)]
      rw [this]
      simp [hc']

theorem nodup_foldTomb : ∀ (l : List ((Ts × Ts) × Ts)) (d : Doc), (ids d.table).Nodup →
    (ids (foldTomb d l).table).Nodup := by
  intro l
  induction l with
  | nil => intro d h; exact h
  | cons x r ih => intro d h; exact ih _ (nodup_makeTomb _ _ h)

theorem tmOf_some {l : List ((Ts × Ts) × Ts)} {x t : Ts} (h : tmOf l x = some t) : ∃ s, ((s, x), t) ∈ l := by
  unfold tmOf at h
  cases hf : l.find? (fun st => st.1.2 = x) with
  | none => simp [hf] at h
  | some st =>
    rw [hf] at h
    simp only [Option.map_some, Option.some.injEq] at h
    have h1 := List.mem_of_find?_eq_some hf
    have h2 := List.find?_some hf
    simp only [decide_eq_true_eq] at h2
    obtain ⟨⟨s, y⟩, t'⟩ := st
    simp only at h h2
    subst h; subst h2
    exact ⟨s, h1⟩

theorem tmOf_isSome_iff {l : List ((Ts × Ts) × Ts)} {x : Ts} : (tmOf l x).isSome ↔ x ∈ l.map (·.1.2) := by
  unfold tmOf
  rw [Option.isSome_map, List.find?_isSome]
  constructor
  · rintro ⟨st, h1, h2⟩
    exact List.mem_map.mpr ⟨st, h1, by simpa using h2⟩
  · intro h
    obtain ⟨st, h1, h2⟩ := List.mem_map.mp h
    exact ⟨st, h1, by simpa using h2⟩

theorem length_delimSeq : ∀ (n : Nat) (t : Ts), (delimSeq t n).length = n := by
  intro n
  induction n with
  | zero => intro t; rfl
  | succ n ih => intro t; simp [delimSeq, ih]

theorem range_split {α : Type} (F : List α) (pos num : Nat) :
    F = F.take pos ++ ((F.drop pos).take num ++ F.drop (pos + num)) := by
  conv_lhs => rw [← List.take_append_drop pos F, ← List.take_append_drop num (F.drop pos), List.drop_drop]

/-- DocDelete of a range of an array: the outcome, the step, the size -/
theorem delete_run {L : OpId} {d : Doc} {hd : Ts} {pn : DNode} {slots : List (Ts × Ts)} {size : Int}
    (I : DInv L 0 d) (hp : d.find hd = some pn) (hk : pn.kind = .arr slots size) (pos num : Nat)
    (hrange : pos + num ≤ (slots.filter (slotLive d)).length) :
    ∃ d', d.deleteLocalInArray hd pos num L.next.ts =
        .ok (d', (((slots.filter (slotLive d)).drop pos).take num).map (·.1),
          (((slots.filter (slotLive d)).drop pos).take num).map (·.2)) ∧
      Stp L 0 num d hd pn (.arr slots (size - num)) [] (fun _ => none)
        (tmOf ((((slots.filter (slotLive d)).drop pos).take num).zip (delimSeq L.next.ts num))) d' ∧
      SizeOK d' (.arr slots (size - num)) ∧
      slots.filter (slotLive d') =
        (slots.filter (slotLive d)).take pos ++ (slots.filter (slotLive d)).drop (pos + num) ∧
      ∀ s ∈ (slots.filter (slotLive d)).take pos ++ (slots.filter (slotLive d)).drop (pos + num),
        tmOf ((((slots.filter (slotLive d)).drop pos).take num).zip (delimSeq L.next.ts num)) s.2 = none := by
  generalize hlive : ((slots.filter (slotLive d)).drop pos).take num = live
  generalize hF : slots.filter (slotLive d) = F at hlive hrange
  have hkids : kids pn.kind = slots.map (·.2) := by rw [hk]; rfl
  have hvnd : (slots.map (·.2)).Nodup := by have := I.wf.inj hd pn hp; rwa [hkids] at this
  have hlen : live.length = num := by rw [← hlive, List.length_take, List.length_drop]; omega
  have hsplit : F = F.take pos ++ (live ++ F.drop (pos + num)) := by rw [← hlive]; exact range_split F pos num
  have hFsub : F.Sublist slots := by rw [← hF]; exact List.filter_sublist
  have hFnd : (F.map (·.2)).Nodup := List.Nodup.sublist (List.Sublist.map _ hFsub) hvnd
  have hlivesub : ∀ s ∈ live, s ∈ slots := by
    intro s hs
    apply hFsub.subset
    rw [hsplit]; simp [hs]
  have hlivend : (live.map (·.2)).Nodup := by
    rw [hsplit] at hFnd
    simp only [List.map_append, List.nodup_append] at hFnd
    exact hFnd.2.1.1
  set l := live.zip (delimSeq L.next.ts num) with hl
  have hlmap : l.map (·.1.2) = live.map (·.2) := by
    have : l.map Prod.fst = live := List.map_fst_zip (by rw [hlen, length_delimSeq])
    rw [← this, List.map_map]; rfl
  have hne : ∀ x ∈ kids pn.kind, x ≠ hd := by
    obtain ⟨rk, hr⟩ := I.acyc
    intro x hx e
    have := hr hd pn hp x hx
    rw [e] at this
    exact Nat.lt_irrefl _ this
  have htmhd : tmOf l hd = none := by
    cases h : tmOf l hd with
    | none => rfl
    | some t =>
      have : hd ∈ l.map (·.1.2) := tmOf_isSome_iff.mp (by simp [h])
      rw [hlmap] at this
      obtain ⟨s, hs, e⟩ := List.mem_map.mp this
      exact absurd e (hne s.2 (by rw [hkids]; exact List.mem_map.mpr ⟨s, hlivesub s hs, rfl⟩))
  have hfold := find_foldTomb l d (by rw [hlmap]; exact hlivend)
  have hpc := find_some_c hp
  have hrun : d.deleteLocalInArray hd pos num L.next.ts =
      .ok ((foldTomb d l).set { pn with kind := .arr slots (size - num) }, live.map (·.1), live.map (·.2)) := by
    unfold Doc.deleteLocalInArray
    rw [DA.findArr_some_iff.mpr ⟨hp, hk⟩]
    simp only []
    rw [hF, hlive, if_neg (by omega)]
    have : (List.foldl (fun acc x => acc.makeTomb x.1.2 x.2) d (live.zip (delimSeq L.next.ts num))).find hd = some pn := by
      have := hfold hd
      rw [htmhd] at this
      exact this.trans hp
    rw [this]
    rfl
  have hstp : Stp L 0 num d hd pn (.arr slots (size - num)) [] (fun _ => none) (tmOf l)
      ((foldTomb d l).set { pn with kind := .arr slots (size - num) }) := by
    refine ⟨I, hp, ?_, nodup_set _ (nodup_foldTomb l d I.wf.nodup), ⟨L.next.ts, L.next.ts, block_nil _⟩,
      ?_, Nat.zero_le _, ?_, ?_, ?_, ?_, ?_, ?_, hvnd, ?_⟩
    · intro x
      rw [find_set, hfold]
      simp only [hpc, nfind_nil]
      by_cases e : x = hd
      · rw [e]; simp
      · have e' : ¬ hd = x := fun e' => e e'.symm
        simp only [e, e', if_false]
        cases tmOf l x <;> rfl
    · intro x hx; simp [ids] at hx
    · intro n hn; cases hn
    · intro n hn; cases hn
    · intro x t hx
      rcases hx with hx | hx
      · cases hx
      · obtain ⟨s, hs⟩ := tmOf_some hx
        obtain ⟨h1, h2⟩ := List.of_mem_zip hs
        refine ⟨by rw [hkids]; exact List.mem_map.mpr ⟨(s, x), hlivesub _ h1, rfl⟩, ?_⟩
        obtain ⟨i, hi, rfl⟩ := DC.mem_delimSeq.mp h2
        exact ⟨rfl, Or.inr ⟨rfl, by simpa [addDelim, next_ts] using hi⟩⟩
    · intro x t hx; cases hx
    · exact fun x hx => Or.inl (by rw [hkids]; exact hx)
    · exact fun x hx _ => by rw [hkids] at hx; exact hx
    · rw [hk]
      simp only [ShapeOK]
      refine ⟨by have := I.ordnd hd pn hp; rwa [hk] at this, ?_⟩
      intro o ho
      have := (I.stamps hd pn hp).2.2
      rw [hk] at this
      exact (this o ho).mono (Nat.zero_le _)
  refine ⟨_, hrun, hstp, ?_⟩
  generalize (foldTomb d l).set { pn with kind := .arr slots (size - num) } = D at hstp ⊢
  have hFnd' := hFnd
  rw [hsplit] at hFnd'
  simp only [List.map_append, List.nodup_append] at hFnd'
  have hnone : ∀ s ∈ F.take pos ++ F.drop (pos + num), tmOf l s.2 = none := by
    intro s hs
    cases h : tmOf l s.2 with
    | none => rfl
    | some t =>
      have hm : s.2 ∈ l.map (·.1.2) := tmOf_isSome_iff.mp (by simp [h])
      rw [hlmap] at hm
      rcases List.mem_append.mp hs with hs | hs
      · exact absurd rfl (hFnd'.2.2 s.2 (List.mem_map.mpr ⟨s, hs, rfl⟩) s.2 (List.mem_append_left _ hm))
      · exact absurd rfl (hFnd'.2.1.2.2 s.2 hm s.2 (List.mem_map.mpr ⟨s, hs, rfl⟩))
  have hsz := I.sizes hd pn hp
  rw [hk] at hsz
  simp only [SizeOK] at hsz ⊢
  have hslot : ∀ s ∈ slots, slotLive D s = ((tmOf l s.2).isNone && slotLive d s) := by
    intro s hs
    have hsk : s.2 ∈ kids pn.kind := by rw [hkids]; exact List.mem_map.mpr ⟨s, hs, rfl⟩
    unfold slotLive
    cases h : tmOf l s.2 with
    | none => simp [hstp.isTomb_old_kid hsk rfl h]
    | some t => simp [hstp.isTomb_tm rfl h]
  have h1 : slots.filter (slotLive D) = F.filter (fun s => (tmOf l s.2).isNone) := by
    rw [← hF, List.filter_filter]
    exact List.filter_congr hslot
  have hin : ∀ s ∈ live, (tmOf l s.2).isNone = false := by
    intro s hs
    have : (tmOf l s.2).isSome := tmOf_isSome_iff.mpr (by rw [hlmap]; exact List.mem_map.mpr ⟨s, hs, rfl⟩)
    cases h : tmOf l s.2 with
    | none => rw [h] at this; cases this
    | some t => rfl
  have hout : ∀ s ∈ F, s ∉ live → s.2 ∉ live.map (·.2) → (tmOf l s.2).isNone = true := by
    intro s _ _ hs2
    cases h : tmOf l s.2 with
    | none => rfl
    | some t =>
      have : s.2 ∈ l.map (·.1.2) := tmOf_isSome_iff.mp (by simp [h])
      rw [hlmap] at this
      exact absurd this hs2
  have e1 : (F.take pos).filter (fun s => (tmOf l s.2).isNone) = F.take pos := by
    rw [List.filter_eq_self]
    intro s hs
    rw [hnone s (List.mem_append_left _ hs)]; rfl
  have e2 : live.filter (fun s => (tmOf l s.2).isNone) = [] := by
    rw [List.filter_eq_nil_iff]
    intro s hs
    simp [hin s hs]
  have e3 : (F.drop (pos + num)).filter (fun s => (tmOf l s.2).isNone) = F.drop (pos + num) := by
    rw [List.filter_eq_self]
    intro s hs
    rw [hnone s (List.mem_append_right _ hs)]; rfl
  have hfl : F.filter (fun s => (tmOf l s.2).isNone) = F.take pos ++ F.drop (pos + num) := by
    conv_lhs => rw [hsplit]
    rw [List.filter_append, List.filter_append, e1, e2, e3]
    simp
  have hfilt : slots.filter (slotLive D) = F.take pos ++ F.drop (pos + num) := by rw [h1, hfl]
  refine ⟨?_, hfilt, hnone⟩
  rw [hfilt]
  rw [hF] at hsz
  rw [hsz]
  simp only [List.length_append, List.length_take, List.length_drop]
  omega

/-! ### replacing the child of one live slot -/

theorem setSlotChild_split {c : Ts} : ∀ {sl : List (Ts × Ts)} {s : Ts × Ts}, s ∈ sl → (sl.map (·.1)).Nodup →
    ∃ A B, sl = A ++ s :: B ∧ setSlotChild s.1 c sl = A ++ (s.1, c) :: B := by
  intro sl
  induction sl with
  | nil => intro s hs; cases hs
  | cons x xs ih =>
    intro s hs hnd
    simp only [List.map_cons, List.nodup_cons] at hnd
    by_cases hx : x.1 = s.1
    · have : s = x := by
        rcases List.mem_cons.mp hs with h | h
        · exact h
        · exact absurd (List.mem_map.mpr ⟨s, h, hx.symm⟩) hnd.1
      subst this
      exact ⟨[], xs, rfl, by simp [setSlotChild]⟩
    · have hs' : s ∈ xs := by
        rcases List.mem_cons.mp hs with h | h
        · rw [h] at hx; exact absurd rfl hx
        · exact h
      obtain ⟨A, B, e1, e2⟩ := ih hs' hnd.2
      exact ⟨x :: A, B, by rw [e1]; rfl, by simp [setSlotChild, hx, e2]⟩

theorem DInv.kid_ne {L : OpId} {b : Nat} {d : Doc} (I : DInv L b d) {hd : Ts} {pn : DNode} (hp : d.find hd = some pn)
    {x : Ts} (hx : x ∈ kids pn.kind) : x ≠ hd := by
  obtain ⟨rk, hr⟩ := I.acyc
  intro e
  have := hr hd pn hp x hx
  rw [e] at this
  exact Nat.lt_irrefl _ this

/-- the timestamp handed out at delimiter `b` -/
def tsAt (L : OpId) (b : Nat) : Ts := ⟨L.era, L.lamport + 1, L.cuid, b⟩

theorem tsAt_zero (L : OpId) : tsAt L 0 = L.next.ts := rfl

/-- one iteration of updateLocalInArray.go -/
theorem upd1_run {L : OpId} {b : Nat} {d : Doc} {hd : Ts} {pn : DNode} {sl : List (Ts × Ts)} {size : Int}
    (I : DInv L b d) (hp : d.find hd = some pn) (hk : pn.kind = .arr sl size) {s : Ts × Ts} (hs : s ∈ sl)
    (hlive : d.isTomb s.2 = false) (v : JVal) (hnn : v.hasNull = false) :
    ∃ ns t' A B, createNode hd (tsAt L b) v = .ok (ns, tsAt L b, t') ∧ sl = A ++ s :: B ∧
      setSlotChild s.1 (tsAt L b) sl = A ++ (s.1, tsAt L b) :: B ∧
      (d.addAll ns).findArr hd = some (pn, sl, size) ∧ b < t'.delim ∧
      Stp L b t'.delim d hd pn (.arr (A ++ (s.1, tsAt L b) :: B) size) ns (buryOf (some s.2) (tsAt L b))
        (fun _ => none)
        (((d.addAll ns).set { pn with kind := .arr (A ++ (s.1, tsAt L b) :: B) size }).funeral s.2 (tsAt L b)) ∧
      SizeOK (((d.addAll ns).set { pn with kind := .arr (A ++ (s.1, tsAt L b) :: B) size }).funeral s.2 (tsAt L b))
        (.arr (A ++ (s.1, tsAt L b) :: B) size) ∧
      (((d.addAll ns).set { pn with kind := .arr (A ++ (s.1, tsAt L b) :: B) size }).funeral s.2 (tsAt L b)).isTomb
        (tsAt L b) = false := by
  obtain ⟨⟨ns, c, t'⟩, hc⟩ := createNode_ok hd (tsAt L b) v hnn
  have hroot := createNode_root hc
  subst hroot
  obtain ⟨hblock, _, n0, rest, hns, hn0c, hn0p⟩ := createNode_spec hd (tsAt L b) v _ hc
  simp only at hblock hns
  obtain ⟨hnodeok, hlnk⟩ := createNode_spec2 hd (tsAt L b) v _ hc
  simp only at hnodeok hlnk
  have hnewst := block_newst (L := L) hblock rfl rfl
  have hfresh : Fresh d ns := fresh_of_newst I hnewst
  have hpc := find_some_c hp
  have hn0mem : n0 ∈ ns := by rw [hns]; simp
  have hlen : 1 ≤ ns.length := by rw [hns]; simp
  have ht' : t'.delim = b + ns.length := by rw [hblock.next]; simp [addDelim, tsAt]
  have hkids : kids pn.kind = sl.map (·.2) := by rw [hk]; rfl
  have hvnd : (sl.map (·.2)).Nodup := by have := I.wf.inj hd pn hp; rwa [hkids] at this
  have hond : (sl.map (·.1)).Nodup := by have := I.ordnd hd pn hp; rwa [hk] at this
  obtain ⟨A, B, e1, e2⟩ := setSlotChild_split (c := tsAt L b) hs hond
  have hsk : s.2 ∈ kids pn.kind := by rw [hkids]; exact List.mem_map.mpr ⟨s, hs, rfl⟩
  obtain ⟨nold, hnold, _⟩ := I.wf.child hd pn hp s.2 hsk
  have hone : s.2 ≠ hd := I.kid_ne hp hsk
  have htfresh : d.find (tsAt L b) = none := hfresh _ (by rw [hns]; simp [ids, hn0c])
  have htnot : tsAt L b ∉ sl.map (·.2) := by
    intro hm
    obtain ⟨nc, hnc, _⟩ := I.wf.child hd pn hp (tsAt L b) (by rw [hkids]; exact hm)
    rw [htfresh] at hnc; cases hnc
  have holdnew : nfind ns s.2 = none := by
    rw [nfind_none_iff]
    intro hmem
    rw [hfresh s.2 hmem] at hnold; cases hnold
  have hstt : St L t'.delim (tsAt L b) := ⟨rfl, Or.inr ⟨rfl, by rw [ht']; simp only [tsAt]; omega⟩⟩
  have hfa : (d.addAll ns).findArr hd = some (pn, sl, size) :=
    DA.findArr_some_iff.mpr ⟨find_addAll_old hfresh hp, hk⟩
  have hKkids : kids (.arr (A ++ (s.1, tsAt L b) :: B) size) = A.map (·.2) ++ tsAt L b :: B.map (·.2) := by
    simp [kids]
  have hslkids : sl.map (·.2) = A.map (·.2) ++ s.2 :: B.map (·.2) := by rw [e1]; simp
  have hvnd' := hvnd
  rw [hslkids] at hvnd' htnot
  simp only [List.nodup_append, List.nodup_cons, List.mem_cons, List.mem_append, not_or] at hvnd' htnot
  refine ⟨ns, t', A, B, hc, e1, e2, hfa, by omega, ?_⟩
  have hstp : Stp L b t'.delim d hd pn (.arr (A ++ (s.1, tsAt L b) :: B) size) ns (buryOf (some s.2) (tsAt L b))
      (fun _ => none)
      (((d.addAll ns).set { pn with kind := .arr (A ++ (s.1, tsAt L b) :: B) size }).funeral s.2 (tsAt L b)) := by
    refine ⟨I, hp, ?_, nodup_funeral _ _ (nodup_set _ (nodup_addAll ns I.wf.nodup)), ⟨_, _, hblock⟩, hnewst,
      by omega, hnodeok, ?_, ?_, ?_, ?_, ?_, ?_, ?_⟩
    · intro c
      rw [find_funeral, find_set, find_set, find_addAll, find_addAll]
      simp only [hpc]
      by_cases e : c = hd
      · rw [e]
        have : ¬ hd = s.2 := fun e' => hone e'.symm
        simp [this]
      · have e' : ¬ hd = c := fun e' => e e'.symm
        by_cases e2 : c = s.2
        · subst e2
          simp [e, e', buryOf_self, holdnew]
        · simp [e, e', e2, buryOf_ne e2]
    · intro n hn
      rcases hlnk n hn with ⟨h1, h2⟩ | h
      · refine Or.inl ⟨?_, h2⟩
        simp only [List.mem_singleton] at h1
        rw [h1, hKkids]; simp
      · exact Or.inr h
    · intro x t hx
      rcases hx with hx | hx
      · obtain ⟨e1', e2'⟩ := buryOf_some hx
        simp only [Option.some.injEq] at e1'
        exact ⟨e1' ▸ hsk, e2' ▸ hstt⟩
      · cases hx
    · intro x t hx
      obtain ⟨e1', _⟩ := buryOf_some hx
      simp only [Option.some.injEq] at e1'
      subst e1'
      rw [hKkids]
      simp only [List.mem_append, List.mem_cons, not_or]
      exact ⟨fun h => hvnd'.2.2 _ h _ (Or.inl rfl) rfl, fun h => htnot.2.1 h.symm, hvnd'.2.1.1⟩
    · intro c hc'
      rw [hKkids] at hc'
      simp only [List.mem_append, List.mem_cons] at hc'
      rw [hkids, hslkids]
      simp only [List.mem_append, List.mem_cons]
      rcases hc' with h | h | h
      · exact Or.inl (Or.inl h)
      · exact Or.inr ⟨n0, hn0mem, by rw [h]; exact hn0c, hn0p⟩
      · exact Or.inl (Or.inr (Or.inr h))
    · intro c hc' hb
      rw [hkids, hslkids] at hc'
      rw [hKkids]
      simp only [List.mem_append, List.mem_cons] at hc' ⊢
      rcases hc' with h | h | h
      · exact Or.inl h
      · rw [h, buryOf_self] at hb; cases hb
      · exact Or.inr (Or.inr h)
    · rw [hKkids]
      simp only [List.nodup_append, List.nodup_cons, List.mem_cons]
      refine ⟨hvnd'.1, ⟨htnot.2.2, hvnd'.2.1.2⟩, ?_⟩
      intro a ha b' hb'
      rcases hb' with rfl | hb'
      · intro e; exact htnot.1 (e ▸ ha)
      · exact hvnd'.2.2 a ha b' (Or.inr hb')
    · rw [hk]
      simp only [ShapeOK]
      have : (A ++ (s.1, tsAt L b) :: B).map (·.1) = sl.map (·.1) := by rw [e1]; simp
      rw [this]
      refine ⟨hond, ?_⟩
      intro o ho
      have := (I.stamps hd pn hp).2.2
      rw [hk] at this
      exact (this o ho).mono (by omega)
  have hnew := hstp.isTomb_new hn0mem
  rw [hn0c] at hnew
  refine ⟨hstp, ?_, hnew⟩
  generalize ((d.addAll ns).set { pn with kind := .arr (A ++ (s.1, tsAt L b) :: B) size }).funeral s.2 (tsAt L b) = D
    at hstp hnew ⊢
  have hsz := I.sizes hd pn hp
  rw [hk] at hsz
  simp only [SizeOK] at hsz ⊢
  have hold : ∀ (X : List (Ts × Ts)), (∀ x ∈ X, x.2 ∈ sl.map (·.2) ∧ x.2 ≠ s.2) →
      X.filter (slotLive D) = X.filter (slotLive d) := by
    intro X hX
    apply List.filter_congr
    intro x hx
    obtain ⟨h1, h2⟩ := hX x hx
    unfold slotLive
    rw [hstp.isTomb_old_kid (by rw [hkids]; exact h1) (buryOf_ne h2) rfl]
  have hA : ∀ x ∈ A, x.2 ∈ sl.map (·.2) ∧ x.2 ≠ s.2 := by
    intro x hx
    have hm : x.2 ∈ A.map (·.2) := List.mem_map.mpr ⟨x, hx, rfl⟩
    exact ⟨by rw [hslkids]; exact List.mem_append_left _ hm, fun e => hvnd'.2.2 _ hm _ (Or.inl rfl) e⟩
  have hB : ∀ x ∈ B, x.2 ∈ sl.map (·.2) ∧ x.2 ≠ s.2 := by
    intro x hx
    have hm : x.2 ∈ B.map (·.2) := List.mem_map.mpr ⟨x, hx, rfl⟩
    exact ⟨by rw [hslkids]; exact List.mem_append_right _ (List.mem_cons_of_mem _ hm),
      fun e => hvnd'.2.1.1 (e ▸ hm)⟩
  rw [List.filter_append, List.filter_cons, hold A hA, hold B hB]
  rw [e1, List.filter_append, List.filter_cons] at hsz
  simp only [slotLive, hnew, hlive, Bool.not_false, if_true, List.length_append, List.length_cons] at hsz ⊢
  exact hsz

/-! ### views after a step -/

namespace Stp
variable {L : OpId} {b b' : Nat} {d d' : Doc} {hd : Ts} {pn : DNode} {K' : DKind} {ns : List DNode}
  {bury tm : Ts → Option Ts}

/-- an untouched child of `hd` shows what it showed -/
theorem view_old (h : Stp L b b' d hd pn K' ns bury tm d') (hg : DG d) (hg' : DG d') {x : Ts}
    (hx : x ∈ kids pn.kind) (hb : bury x = none) (ht : tm x = none) :
    d'.viewAt x = d.viewAt x ∧ d'.isTomb x = d.isTomb x := by
  have hsafe : Safe d hd (fun x => (bury x).isSome ∨ (tm x).isSome) x :=
    kid_safe h.inv.wf h.inv.acyc h.hp hx (by simp [hb, ht]) h.tk_kid
  obtain ⟨nx, hnx, _⟩ := h.kid_in hx
  exact ⟨safe_viewAt hg hg' h.same hsafe (by simp [hnx]), safe_isTomb h.same hsafe (by simp [hnx])⟩

theorem present (h : Stp L b b' d hd pn K' ns bury tm d') : Present d' ns := fun _ hn => h.find_new hn

/-- the root of a created value shows the value -/
theorem view_created (h : Stp L b b' d hd pn K' ns bury tm d') (hg' : DG d') {p t t' : Ts} {v : JVal}
    {ns' : List DNode} (hc : createNode p t v = .ok (ns', t, t')) (hsub : ∀ n ∈ ns', n ∈ ns) :
    d'.viewAt t = v := by
  obtain ⟨F, hF⟩ := viewOf_createNode d' p t v _ hc (fun n hn => h.find_new (hsub n hn))
  rw [← viewOf_big hg' t (max F d'.table.length + 1) (by omega)]
  exact hF _ (by omega)

/-- the roots of several created values show the values -/
theorem view_createdMany (h : Stp L b b' d hd pn K' ns bury tm d') (hg' : DG d') {p t t' : Ts} {vs : List JVal}
    {cs : List Ts} (hc : createArrItems p t vs = .ok (ns, cs, t')) :
    arrView d' (cs.map fun c => (c, c)) = vs := by
  obtain ⟨F, hF⟩ := viewOf_arrItems d' p t vs ns cs t' hc h.present
  have := hF (max F d'.table.length + 1) (by omega)
  rw [← this]
  unfold arrView
  apply List.filterMap_congr
  intro x _
  obtain ⟨a, ch⟩ := x
  simp only
  rw [viewOf_big hg' ch _ (by omega)]

end Stp

theorem append_cons_unique {α : Type} {a : α} : ∀ {l1 l2 l3 l4 : List α}, l1 ++ a :: l2 = l3 ++ a :: l4 →
    a ∉ l1 → a ∉ l3 → l1 = l3 ∧ l2 = l4 := by
  intro l1
  induction l1 with
  | nil =>
    intro l2 l3 l4 h _ h3
    cases l3 with
    | nil => simpa using h
    | cons x xs =>
      simp only [List.nil_append, List.cons_append, List.cons.injEq] at h
      exact absurd (by rw [h.1]; exact List.mem_cons_self) h3
  | cons y ys ih =>
    intro l2 l3 l4 h h1 h3
    cases l3 with
    | nil =>
      simp only [List.nil_append, List.cons_append, List.cons.injEq] at h
      exact absurd (by rw [← h.1]; exact List.mem_cons_self) h1
    | cons x xs =>
      simp only [List.cons_append, List.cons.injEq] at h
      obtain ⟨e1, e2⟩ := ih h.2 (fun hm => h1 (List.mem_cons_of_mem _ hm)) (fun hm => h3 (List.mem_cons_of_mem _ hm))
      exact ⟨by rw [h.1, e1], e2⟩

theorem tsAt_next {L : OpId} {b : Nat} {t' : Ts} {ns : List DNode} (hb : Block (tsAt L b) ns t') :
    t' = tsAt L t'.delim := by
  rw [hb.next]; rfl

theorem DInv.finish {L : OpId} {b : Nat} {d : Doc} (I : DInv L b d) : DInv L.next 0 d := by
  have key : ∀ t, St L b t → St L.next 0 t := by
    intro t ht
    refine ⟨ht.1, Or.inl ?_⟩
    have : L.next.lamport = L.lamport + 1 := rfl
    rcases ht.2 with h | h <;> omega
  exact ⟨I.wf, I.acyc, I.root, I.sizes, fun c n hf => by
      obtain ⟨s1, s2, s3⟩ := I.stamps c n hf
      exact ⟨key _ s1, fun t ht => key _ (s2 t ht), fun o ho => key _ (s3 o ho)⟩,
    I.ordnd, I.linked, I.scalar⟩

/-- the loop of updateLocalInArray -/
theorem update_loop {L : OpId} {hd : Ts} {size : Int} : ∀ (todo : List (Ts × Ts)) (vs : List JVal) (b : Nat)
    (d : Doc) (pn : DNode) (sl : List (Ts × Ts)),
    DInv L b d → d.find hd = some pn → pn.kind = .arr sl size →
    (∀ s ∈ todo, s ∈ sl ∧ d.isTomb s.2 = false) → (todo.map (·.2)).Nodup → vs.length = todo.length →
    JVal.hasNullList vs = false →
    ∃ d' b' pn' sl', Doc.updateLocalInArray.go hd todo vs (tsAt L b) d = .ok d' ∧ DInv L b' d' ∧
      d'.find hd = some pn' ∧ pn'.kind = .arr sl' size ∧ d'.isTomb hd = d.isTomb hd ∧
      (∀ c n, d.find c = some n → c ≠ hd → c ∉ todo.map (·.2) → d'.find c = some n) ∧
      (KeysND d → JKeysNDList vs → KeysND d' ∧ ∀ P Q, sl.filter (slotLive d) = P ++ todo ++ Q →
        arrView d' sl' = P.map (fun x => d.viewAt x.2) ++ vs ++ Q.map (fun x => d.viewAt x.2)) := by
  intro todo
  induction todo with
  | nil =>
    intro vs b d pn sl I hp hk _ _ hlen _
    have : vs = [] := List.length_eq_zero_iff.mp hlen
    subst this
    refine ⟨d, b, pn, sl, by rw [Doc.updateLocalInArray.go], I, hp, hk, rfl, fun c n h _ _ => h, ?_⟩
    intro hkeys _
    refine ⟨hkeys, ?_⟩
    intro P Q hPQ
    rw [arrView_eq, hPQ]
    simp [List.map_map, Function.comp_def]
  | cons s ss ih =>
    intro vs b d pn sl I hp hk htodo hnd hlen hnn
    cases vs with
    | nil => simp at hlen
    | cons v vs' =>
      simp only [JVal.hasNullList, Bool.or_eq_false_iff] at hnn
      simp only [List.map_cons, List.nodup_cons] at hnd
      obtain ⟨hs, hlive⟩ := htodo s List.mem_cons_self
      obtain ⟨ns, t', A, B, hc, e1, e2, hfa, hbt, hstp, hsize, hnewlive⟩ := upd1_run I hp hk hs hlive v hnn.1
      have hblock := (createNode_spec hd (tsAt L b) v _ hc).1
      simp only at hblock
      have I1 := hstp.next hsize
      set D1 := ((d.addAll ns).set { pn with kind := .arr (A ++ (s.1, tsAt L b) :: B) size }).funeral s.2 (tsAt L b)
        with hD1
      have hkids : kids pn.kind = sl.map (·.2) := by rw [hk]; rfl
      have hvnd : (sl.map (·.2)).Nodup := by have := I.wf.inj hd pn hp; rwa [hkids] at this
      have hslkids : sl.map (·.2) = A.map (·.2) ++ s.2 :: B.map (·.2) := by rw [e1]; simp
      have hothers : ∀ x ∈ sl, x.2 ≠ s.2 → x ∈ A ++ (s.1, tsAt L b) :: B := by
        intro x hx hne
        rw [e1] at hx
        simp only [List.mem_append, List.mem_cons] at hx ⊢
        rcases hx with h | h | h
        · exact Or.inl h
        · rw [h] at hne; exact absurd rfl hne
        · exact Or.inr (Or.inr h)
      have htodo1 : ∀ s' ∈ ss, s' ∈ A ++ (s.1, tsAt L b) :: B ∧ D1.isTomb s'.2 = false := by
        intro s' hs'
        obtain ⟨h1, h2⟩ := htodo s' (List.mem_cons_of_mem _ hs')
        have hne : s'.2 ≠ s.2 := fun e => hnd.1 (e ▸ List.mem_map.mpr ⟨s', hs', rfl⟩)
        refine ⟨hothers s' h1 hne, ?_⟩
        rw [hstp.isTomb_old_kid (by rw [hkids]; exact List.mem_map.mpr ⟨s', h1, rfl⟩) (buryOf_ne hne) rfl]
        exact h2
      obtain ⟨d', b', pn', sl', hgo, I', hp', hk', htomb', hsame', hview'⟩ :=
        ih vs' t'.delim D1 _ _ I1 hstp.find_hd rfl htodo1 hnd.2 (by simpa using hlen) hnn.2
      refine ⟨d', b', pn', sl', ?_, I', hp', hk', htomb'.trans hstp.isTomb_hd, ?_, ?_⟩
      · rw [Doc.updateLocalInArray.go]
        simp only [hc, hfa, e2]
        have hgo' := hgo
        rw [← tsAt_next hblock] at hgo'
        exact hgo'
      · intro c n hf hne hnot
        simp only [List.map_cons, List.mem_cons, not_or] at hnot
        exact hsame' c n (hstp.find_old hf hne (buryOf_ne hnot.1) rfl) hne hnot.2
      · intro hkeys hjk
        simp only [JKeysNDList] at hjk
        have hkeys1 : KeysND D1 := hstp.next_keys hkeys (createNode_keysND hd (tsAt L b) v _ hc hjk.1)
          (by intro m s' hh; cases hh)
        obtain ⟨hkeys', hv'⟩ := hview' hkeys1 hjk.2
        refine ⟨hkeys', ?_⟩
        intro P Q hPQ
        have hg := I.dg hkeys
        have hg1 := I1.dg hkeys1
        -- the filtered lists before and after the step
        have hfilt : ∀ (X : List (Ts × Ts)), (∀ x ∈ X, x ∈ sl ∧ x.2 ≠ s.2) →
            X.filter (slotLive D1) = X.filter (slotLive d) := by
          intro X hX
          apply List.filter_congr
          intro x hx
          obtain ⟨h1, h2⟩ := hX x hx
          unfold slotLive
          rw [hstp.isTomb_old_kid (by rw [hkids]; exact List.mem_map.mpr ⟨x, h1, rfl⟩) (buryOf_ne h2) rfl]
        have hvnd' := hvnd
        rw [hslkids] at hvnd'
        simp only [List.nodup_append, List.nodup_cons, List.mem_cons] at hvnd'
        have hA : ∀ x ∈ A, x ∈ sl ∧ x.2 ≠ s.2 := by
          intro x hx
          have hm : x.2 ∈ A.map (·.2) := List.mem_map.mpr ⟨x, hx, rfl⟩
          exact ⟨by rw [e1]; exact List.mem_append_left _ hx, fun e => hvnd'.2.2 _ hm _ (Or.inl rfl) e⟩
        have hB : ∀ x ∈ B, x ∈ sl ∧ x.2 ≠ s.2 := by
          intro x hx
          have hm : x.2 ∈ B.map (·.2) := List.mem_map.mpr ⟨x, hx, rfl⟩
          exact ⟨by rw [e1]; exact List.mem_append_right _ (List.mem_cons_of_mem _ hx), fun e => hvnd'.2.1.1 (e ▸ hm)⟩
        have hF0 : sl.filter (slotLive d) = A.filter (slotLive d) ++ s :: B.filter (slotLive d) := by
          rw [e1, List.filter_append, List.filter_cons]
          simp [slotLive, hlive]
        have hF1 : (A ++ (s.1, tsAt L b) :: B).filter (slotLive D1) =
            A.filter (slotLive d) ++ (s.1, tsAt L b) :: B.filter (slotLive d) := by
          rw [List.filter_append, List.filter_cons, hfilt A hA, hfilt B hB]
          simp [slotLive, hnewlive]
        have hsA : s ∉ A.filter (slotLive d) := by
          intro hm
          exact (hA s (List.mem_filter.mp hm).1).2 rfl
        have hsP : s ∉ P := by
          intro hm
          have hFnd : ((sl.filter (slotLive d)).map (·.2)).Nodup :=
            List.Nodup.sublist (List.Sublist.map _ List.filter_sublist) hvnd
          have hPQ2 : sl.filter (slotLive d) = P ++ s :: (ss ++ Q) := by rw [hPQ]; simp
          rw [hPQ2, List.map_append, List.map_cons, List.nodup_append] at hFnd
          exact hFnd.2.2 s.2 (List.mem_map.mpr ⟨s, hm, rfl⟩) s.2 List.mem_cons_self rfl
        have hPQ' : A.filter (slotLive d) ++ s :: B.filter (slotLive d) = P ++ s :: (ss ++ Q) := by
          rw [← hF0, hPQ]; simp
        obtain ⟨eA, eB⟩ := append_cons_unique hPQ' hsA hsP
        have hv := hv' (P ++ [(s.1, tsAt L b)]) Q (by rw [hF1, eA, eB]; simp)
        rw [hv]
        have hnewv : D1.viewAt (tsAt L b) = v := hstp.view_created hg1 hc (fun n hn => hn)
        have hPv : ∀ x ∈ P, D1.viewAt x.2 = d.viewAt x.2 := by
          intro x hx
          have hxA : x ∈ A.filter (slotLive d) := by rw [eA]; exact hx
          obtain ⟨h1, h2⟩ := hA x (List.mem_filter.mp hxA).1
          exact (hstp.view_old hg hg1 (by rw [hkids]; exact List.mem_map.mpr ⟨x, h1, rfl⟩) (buryOf_ne h2) rfl).1
        have hQv : ∀ x ∈ Q, D1.viewAt x.2 = d.viewAt x.2 := by
          intro x hx
          have hxB : x ∈ B.filter (slotLive d) := by rw [eB]; exact List.mem_append_right _ hx
          obtain ⟨h1, h2⟩ := hB x (List.mem_filter.mp hxB).1
          exact (hstp.view_old hg hg1 (by rw [hkids]; exact List.mem_map.mpr ⟨x, h1, rfl⟩) (buryOf_ne h2) rfl).1
        rw [List.map_append, List.map_congr_left hPv, List.map_congr_left hQv]
        simp [hnewv]

/-- DocUpdate of a range of an array -/
theorem update_run {L : OpId} {d : Doc} {hd : Ts} {pn : DNode} {slots : List (Ts × Ts)} {size : Int}
    (I : DInv L 0 d) (hp : d.find hd = some pn) (hk : pn.kind = .arr slots size) (pos : Nat) (vs : List JVal)
    (hrange : pos + vs.length ≤ (slots.filter (slotLive d)).length) (hnn : JVal.hasNullList vs = false) :
    ∃ d' b' pn' sl', d.updateLocalInArray hd pos L.next.ts vs =
        .ok (d', (((slots.filter (slotLive d)).drop pos).take vs.length).map (·.1),
          (((slots.filter (slotLive d)).drop pos).take vs.length).map (·.2)) ∧
      DInv L b' d' ∧ d'.find hd = some pn' ∧ pn'.kind = .arr sl' size ∧ d'.isTomb hd = d.isTomb hd ∧
      (∀ c n, d.find c = some n → c ≠ hd →
        c ∉ (((slots.filter (slotLive d)).drop pos).take vs.length).map (·.2) → d'.find c = some n) ∧
      (KeysND d → JKeysNDList vs → KeysND d' ∧
        arrView d' sl' = ((slots.filter (slotLive d)).take pos).map (fun x => d.viewAt x.2) ++ vs ++
          ((slots.filter (slotLive d)).drop (pos + vs.length)).map (fun x => d.viewAt x.2)) := by
  generalize hlive : ((slots.filter (slotLive d)).drop pos).take vs.length = live
  have hkids : kids pn.kind = slots.map (·.2) := by rw [hk]; rfl
  have hvnd : (slots.map (·.2)).Nodup := by have := I.wf.inj hd pn hp; rwa [hkids] at this
  have hlen : live.length = vs.length := by rw [← hlive, List.length_take, List.length_drop]; omega
  have hsplit := range_split (slots.filter (slotLive d)) pos vs.length
  rw [hlive] at hsplit
  have hFnd : ((slots.filter (slotLive d)).map (·.2)).Nodup :=
    List.Nodup.sublist (List.Sublist.map _ List.filter_sublist) hvnd
  have hlivemem : ∀ s ∈ live, s ∈ slots ∧ d.isTomb s.2 = false := by
    intro s hs
    have : s ∈ slots.filter (slotLive d) := by rw [hsplit]; simp [hs]
    obtain ⟨h1, h2⟩ := List.mem_filter.mp this
    exact ⟨h1, by simpa [slotLive] using h2⟩
  have hlivend : (live.map (·.2)).Nodup := by
    rw [hsplit] at hFnd
    simp only [List.map_append, List.nodup_append] at hFnd
    exact hFnd.2.1.1
  obtain ⟨d', b', pn', sl', hgo, I', hp', hk', htomb', hsame', hview'⟩ :=
    update_loop (L := L) (hd := hd) (size := size) live vs 0 d pn slots I hp hk hlivemem hlivend hlen.symm hnn
  refine ⟨d', b', pn', sl', ?_, I', hp', hk', htomb', hsame', ?_⟩
  · unfold Doc.updateLocalInArray
    rw [DA.findArr_some_iff.mpr ⟨hp, hk⟩]
    simp only []
    rw [hlive, if_neg (by omega)]
    rw [tsAt_zero] at hgo
    rw [hgo]
  · intro hkeys hjk
    obtain ⟨h1, h2⟩ := hview' hkeys hjk
    exact ⟨h1, h2 _ _ (by rw [List.append_assoc]; exact hsplit)⟩

/-! ## 5. the public calls -/

def CallKeysND : Call → Prop
  | .mput _ v => JKeysND v
  | .linsert _ vs => JKeysNDList vs
  | .lupdate _ vs => JKeysNDList vs
  | .dput _ _ v => JKeysND v
  | .dinsert _ _ vs => JKeysNDList vs
  | .dupdate _ _ vs => JKeysNDList vs
  | _ => True

def isMutating : Call → Bool
  | .dput _ _ _ | .dremove _ _ | .dinsert _ _ _ | .ddelete _ _ | .ddeleteMany _ _ _ | .dupdate _ _ _ => true
  | _ => false

theorem rollBack_next (o : OpId) : o.next.rollBack = o := by
  cases o; simp [OpId.next, OpId.rollBack]

theorem call_of_done {r : Replica} {c : Call} {o : Outcome Ret} (h : c.prepare r.state = .done o) :
    r.call c = (r, o) := by
  unfold Replica.call; rw [h]

theorem call_of_err {r : Replica} {c : Call} {b : OpBody} {post : Ret → Ret} {e : Nat}
    (h : c.prepare r.state = .op b post) (hm : b.isMeta = false)
    (he : execLocal r.state r.opId.next.ts b = .err e) : r.call c = (r, .err e) := by
  unfold Replica.call
  rw [h]
  simp only [Replica.callLocal, Replica.execLocalBase, hm, Bool.false_eq_true, if_false, he, rollBack_next, mapOut]

theorem call_of_ok {r : Replica} {c : Call} {b : OpBody} {post : Ret → Ret} {s' : DState} {b' : OpBody} {ret : Ret}
    (h : c.prepare r.state = .op b post) (hm : b.isMeta = false)
    (he : execLocal r.state r.opId.next.ts b = .ok (s', b', ret)) :
    r.call c = ({ r with opId := r.opId.next, state := s', rbOps := r.rbOps ++ [⟨r.opId.next, b'⟩],
                         buffer := r.buffer ++ [Op.wire ⟨r.opId.next, b'⟩] }, .ok (post ret)) := by
  unfold Replica.call
  rw [h]
  simp only [Replica.callLocal, Replica.execLocalBase, hm, Bool.false_eq_true, if_false, he, mapOut]

theorem kindOf_obj {d : Doc} {h : Ts} : d.kindOf h = .obj ↔ ∃ pn m s, d.find h = some pn ∧ pn.kind = .obj m s := by
  unfold Doc.kindOf
  constructor
  · intro hk
    split at hk
    · rename_i c dd p m s hf; exact ⟨_, m, s, hf, rfl⟩
    · cases hk
    · cases hk
  · rintro ⟨pn, m, s, hf, hk⟩
    obtain ⟨c, dd, p, k⟩ := pn
    simp only at hk; subst hk
    simp [hf]

theorem kindOf_arr {d : Doc} {h : Ts} : d.kindOf h = .arr ↔ ∃ pn sl s, d.find h = some pn ∧ pn.kind = .arr sl s := by
  unfold Doc.kindOf
  constructor
  · intro hk
    split at hk
    · cases hk
    · rename_i c dd p sl s hf; exact ⟨_, sl, s, hf, rfl⟩
    · cases hk
  · rintro ⟨pn, sl, s, hf, hk⟩
    obtain ⟨c, dd, p, k⟩ := pn
    simp only at hk; subst hk
    simp [hf]

/-- a located handle: the node and all its ancestors are live -/
theorem located_live {L : OpId} {b : Nat} {d : Doc} (I : DInv L b d) {hd : Ts} : ∀ (π : List PlainDoc.Seg) (cur : Ts),
    d.locate π cur = some hd → (∀ f, d.isGarbage f cur = false) → (d.find cur).isSome →
    (∀ f, d.isGarbage f hd = false) ∧ (d.find hd).isSome := by
  intro π
  induction π with
  | nil => intro cur h h1 h2; simp only [Doc.locate, Option.some.injEq] at h; subst h; exact ⟨h1, h2⟩
  | cons sg r ih =>
    intro cur h h1 h2
    have step : ∀ (n : DNode) (ch : Ts), d.find cur = some n → ch ∈ kids n.kind → d.isTomb ch = false →
        (∀ f, d.isGarbage f ch = false) ∧ (d.find ch).isSome := by
      intro n ch hn hch hlive
      obtain ⟨nc, hnc, hpar⟩ := I.wf.child cur n hn ch hch
      refine ⟨?_, by simp [hnc]⟩
      intro f
      cases f with
      | zero => rfl
      | succ f =>
        have : nc.d.isSome = false := by simpa [Doc.isTomb, hnc] using hlive
        simp [Doc.isGarbage, hnc, this, hpar, h1 f]
    cases sg with
    | key k =>
      obtain ⟨n, m, s, ch, q1, q2, q3, q4, q5⟩ := locate_key_inv h
      obtain ⟨a1, a2⟩ := step n ch q1 (by rw [q2]; exact alFind_mem_vals q3) q4
      exact ih ch q5 a1 a2
    | idx i =>
      obtain ⟨n, sl, s, ch, q1, q2, q3, q5⟩ := locate_idx_inv h
      obtain ⟨q3a, q4⟩ := mem_of_getElem?_filter q3
      obtain ⟨a1, a2⟩ := step n ch q1 (by rw [q2]; exact q3a) q4
      exact ih ch q5 a1 a2

theorem root_live {L : OpId} {b : Nat} {d : Doc} (I : DInv L b d) :
    (∀ f, d.isGarbage f Ts.oldest = false) ∧ (d.find Ts.oldest).isSome := by
  obtain ⟨m, s, hr⟩ := I.root
  refine ⟨?_, by simp [hr]⟩
  intro f
  cases f with
  | zero => rfl
  | succ f => simp [Doc.isGarbage, hr]

theorem located_facts {L : OpId} {b : Nat} {d : Doc} (I : DInv L b d) {hd : Ts} {π : List PlainDoc.Seg}
    (h : d.locate π Ts.oldest = some hd) :
    d.garbage hd = false ∧ d.isTomb hd = false ∧ ∃ pn, d.find hd = some pn := by
  obtain ⟨r1, r2⟩ := root_live I
  obtain ⟨a1, a2⟩ := located_live I π Ts.oldest h r1 r2
  obtain ⟨pn, hpn⟩ := Option.isSome_iff_exists.mp a2
  refine ⟨a1 _, ?_, pn, hpn⟩
  have := a1 1
  simp only [Doc.isGarbage, hpn, Bool.or_eq_false_iff] at this
  simp [Doc.isTomb, hpn, this.1]

/-- what a call may do to the replica: refuse, read, or execute one operation -/
def Eff (r : Replica) (d : Doc) (c : Call) : Prop :=
  ((r.call c).1 = r ∧ ∃ e, (r.call c).2 = .err e) ∨ ((r.call c).1 = r ∧ ∃ v, (r.call c).2 = .ok v) ∨
  ∃ d' b' bd v, r.call c = ({ r with opId := r.opId.next, state := .doc d', rbOps := r.rbOps ++ [⟨r.opId.next, bd⟩],
                                     buffer := r.buffer ++ [Op.wire ⟨r.opId.next, bd⟩] }, .ok v) ∧
    DInv r.opId b' d' ∧ (KeysND d → CallKeysND c → KeysND d')

/-- the refinement statement for one call -/
def Refines (r : Replica) (d : Doc) (c : Call) : Prop :=
  ∀ (π : List PlainDoc.Seg) (hd : Ts), KeysND d → CallKeysND c → d.locate π Ts.oldest = some hd →
    PlainDoc.handleOf c = some hd →
    ∃ d', (r.call c).1.state = .doc d' ∧ d'.view.canon = (PlainDoc.step d.view.canon π c).1 ∧
      PlainDoc.outCanon (r.call c).2 = (PlainDoc.step d.view.canon π c).2

theorem eff_err {r : Replica} {d : Doc} {c : Call} {e : Nat} (h : r.call c = (r, .err e)) : Eff r d c :=
  Or.inl ⟨by rw [h], e, by rw [h]⟩

theorem eff_ok {r : Replica} {d : Doc} {c : Call} {v : Ret} (h : r.call c = (r, .ok v)) : Eff r d c :=
  Or.inr (Or.inl ⟨by rw [h], v, by rw [h]⟩)

/-- a call that leaves the replica alone refines the plain tree if the plain tree answers the same -/
theorem refines_same {r : Replica} {d : Doc} {c : Call} {o : Outcome Ret} (hs : r.state = .doc d)
    (hcall : r.call c = (r, o))
    (hstep : ∀ (π : List PlainDoc.Seg) (hd : Ts), KeysND d → d.locate π Ts.oldest = some hd →
      PlainDoc.handleOf c = some hd → PlainDoc.step d.view.canon π c = (d.view.canon, PlainDoc.outCanon o)) :
    Refines r d c := by
  intro π hd hk _ hloc hh
  refine ⟨d, by rw [hcall]; exact hs, ?_, ?_⟩
  · rw [hstep π hd hk hloc hh]
  · rw [hcall, hstep π hd hk hloc hh]

/-- the frame property in the form the plain tree uses -/
theorem view_put {d d' : Doc} {hd : Ts} {TK : Ts → Prop} (hg : DG d) (hg' : DG d') (hs : Same d d' hd TK)
    (hTK : ∀ x, TK x → ∃ n, d.find hd = some n ∧ x ∈ kids n.kind) (hhd : d'.isTomb hd = false)
    {π : List PlainDoc.Seg} (hloc : d.locate π Ts.oldest = some hd) :
    d'.view.canon = PlainDoc.put d.view.canon π (d'.viewAt hd).canon := by
  have := frame hg hg' hs hTK hhd π Ts.oldest hloc
  unfold PlainDoc.put
  rw [view_eq_viewAt, view_eq_viewAt, this]
  rfl

theorem Stp.view_put {L : OpId} {b b' : Nat} {d d' : Doc} {hd : Ts} {pn : DNode} {K' : DKind} {ns : List DNode}
    {bury tm : Ts → Option Ts} (h : Stp L b b' d hd pn K' ns bury tm d') (hg : DG d) (hg' : DG d')
    (hlive : d.isTomb hd = false) {π : List PlainDoc.Seg} (hloc : d.locate π Ts.oldest = some hd) :
    d'.view.canon = PlainDoc.put d.view.canon π (d'.viewAt hd).canon :=
  DP.view_put hg hg' h.same (fun x hx => ⟨pn, h.hp, h.tk_kid x hx⟩) (by rw [h.isTomb_hd]; exact hlive) hloc

/-! ### the kind of the node behind a handle and the shape of its view -/

theorem kindOf_elem {d : Doc} {h : Ts} {pn : DNode} {v : JVal} (hf : d.find h = some pn) (hk : pn.kind = .elem v) :
    d.kindOf h = .elem := by
  obtain ⟨c, dd, p, k⟩ := pn
  simp only at hk; subst hk
  simp [Doc.kindOf, hf]

theorem kindOf_none {d : Doc} {h : Ts} (hf : d.find h = none) : d.kindOf h = .elem := by
  simp [Doc.kindOf, hf]

theorem scalar_canon {v : JVal} (h : Scalar v) : v.canon = v ∧ (∀ kvs, v ≠ .obj kvs) ∧ ∀ l, v ≠ .arr l := by
  cases v <;> simp_all [Scalar, JVal.canon]

theorem garbage_kid {L : OpId} {b : Nat} {d : Doc} (I : DInv L b d) {hd c : Ts} {pn : DNode}
    (hp : d.find hd = some pn) (hg : ∀ f, d.isGarbage f hd = false) (hc : c ∈ kids pn.kind) :
    d.garbage c = d.isTomb c := by
  obtain ⟨nc, hnc, hpar⟩ := I.wf.child hd pn hp c hc
  simp [Doc.garbage, Doc.isGarbage, Doc.isTomb, hnc, hpar, hg]

theorem validateRange_eq (sz pos n : Int) :
    (⟨[], sz⟩ : Rga).validateRange pos n = if PlainDoc.inRange pos n sz then none else some Err.illegalParameters := by
  unfold Rga.validateRange PlainDoc.inRange
  by_cases h1 : pos < 0
  · have : ¬ (0 ≤ pos) := by omega
    simp [h1, this]
  · by_cases h2 : n < 1
    · have : ¬ (1 ≤ n) := by omega
      simp [h1, h2, this]
    · by_cases h3 : sz - 1 < pos
      · have : ¬ (pos ≤ sz - 1) := by omega
        simp [h1, h2, h3, this]
      · by_cases h4 : pos + n > sz
        · have : ¬ (pos + n ≤ sz) := by omega
          simp [h1, h2, h3, h4, this]
        · have a1 : 0 ≤ pos := by omega
          have a2 : 1 ≤ n := by omega
          have a3 : pos ≤ sz - 1 := by omega
          have a4 : pos + n ≤ sz := by omega
          simp [h1, h2, h3, h4, a1, a2, a3, a4]

theorem validateInsert_eq (sz pos : Int) :
    (⟨[], sz⟩ : Rga).validateInsert pos = if pos < 0 || pos > sz then some Err.illegalParameters else none := by
  unfold Rga.validateInsert
  by_cases h1 : pos < 0
  · simp [h1]
  · by_cases h2 : pos > sz
    · simp [h1, h2]
    · simp [h1, h2]

theorem arrRga_eq {d : Doc} {h : Ts} {pn : DNode} {sl : List (Ts × Ts)} {s : Int} (hf : d.find h = some pn)
    (hk : pn.kind = .arr sl s) : d.arrRga h = ⟨[], s⟩ := by
  unfold Doc.arrRga
  rw [DA.findArr_some_iff.mpr ⟨hf, hk⟩]

theorem arrView_length (d : Doc) (sl : List (Ts × Ts)) : (arrView d sl).length = (sl.filter (slotLive d)).length := by
  rw [arrView_eq]; simp

/-- the array behind a handle: stored size = length of the visible list -/
theorem arr_size {L : OpId} {b : Nat} {d : Doc} (I : DInv L b d) {h : Ts} {pn : DNode} {sl : List (Ts × Ts)} {s : Int}
    (hf : d.find h = some pn) (hk : pn.kind = .arr sl s) : s = ((sl.filter (slotLive d)).length : Int) := by
  have := I.sizes h pn hf
  rw [hk] at this
  exact this

/-- everything known about a located handle -/
structure Loc (d : Doc) (π : List PlainDoc.Seg) (hd : Ts) : Prop where
  sub : PlainDoc.sub π d.view.canon = some (d.viewAt hd).canon
  garbage : d.garbage hd = false
  live : d.isTomb hd = false
  anc : ∀ f, d.isGarbage f hd = false

theorem loc_of {L : OpId} {b : Nat} {d : Doc} (I : DInv L b d) (hk : KeysND d) {π : List PlainDoc.Seg} {hd : Ts}
    (h : d.locate π Ts.oldest = some hd) : Loc d π hd ∧ ∃ pn, d.find hd = some pn := by
  obtain ⟨r1, r2⟩ := root_live I
  obtain ⟨a1, _⟩ := located_live I π Ts.oldest h r1 r2
  obtain ⟨g, l, pn, hpn⟩ := located_facts I h
  exact ⟨⟨locate_sub (I.dg hk) π Ts.oldest h, g, l, a1⟩, pn, hpn⟩

/-- the shape of the view of a node, by its kind -/
theorem shape_elem {L : OpId} {b : Nat} {d : Doc} (I : DInv L b d) {h : Ts} {pn : DNode} {v : JVal}
    (hf : d.find h = some pn) (hk : pn.kind = .elem v) :
    (d.viewAt h).canon = v ∧ (∀ kvs, v ≠ .obj kvs) ∧ ∀ l, v ≠ .arr l := by
  rw [viewAt_elem hf hk]
  exact scalar_canon (I.scalar h pn v hf hk)

theorem shape_obj {d : Doc} (hg : DG d) {h : Ts} {pn : DNode} {m : List (String × Ts)} {s : Int}
    (hf : d.find h = some pn) (hk : pn.kind = .obj m s) :
    (d.viewAt h).canon = .obj (JVal.canonKvs (objView d m)) := by
  rw [viewAt_obj hg hf hk, canon_obj]

theorem shape_arr {d : Doc} (hg : DG d) {h : Ts} {pn : DNode} {sl : List (Ts × Ts)} {s : Int}
    (hf : d.find h = some pn) (hk : pn.kind = .arr sl s) :
    (d.viewAt h).canon = .arr ((arrView d sl).map JVal.canon) := by
  rw [viewAt_arr hg hf hk, canon_arr, canonList_eq_map]

theorem kindOf_obj' {d : Doc} {h : Ts} {pn : DNode} {m : List (String × Ts)} {s : Int}
    (hf : d.find h = some pn) (hk : pn.kind = .obj m s) : d.kindOf h = .obj := kindOf_obj.mpr ⟨pn, m, s, hf, hk⟩
theorem kindOf_arr' {d : Doc} {h : Ts} {pn : DNode} {sl : List (Ts × Ts)} {s : Int}
    (hf : d.find h = some pn) (hk : pn.kind = .arr sl s) : d.kindOf h = .arr := kindOf_arr.mpr ⟨pn, sl, s, hf, hk⟩

/-! ### calls of other datatypes on a document: refused -/

theorem full_other {r : Replica} {d : Doc} (hs : r.state = .doc d) (c : Call) (hh : PlainDoc.handleOf c = none) :
    Eff r d c ∧ Refines r d c := by
  refine ⟨?_, fun π hd _ _ _ h => by rw [hh] at h; cases h⟩
  have herr : ∀ (b : OpBody) (post : Ret → Ret), c.prepare r.state = .op b post → b.isMeta = false →
      execLocal r.state r.opId.next.ts b = .err Err.illegalOperation → Eff r d c :=
    fun b post h1 h2 h3 => eff_err (call_of_err h1 h2 h3)
  cases c with
  | inc x => exact herr _ _ (by rw [hs]; rfl) rfl (by rw [hs]; rfl)
  | mput k v =>
    by_cases hkv : (k = "" || v.isNull) = true
    · exact eff_err (call_of_done (o := .err Err.illegalParameters) (by rw [hs]; simp only [Call.prepare, hkv, if_true]))
    · exact herr (.put k v) id (by rw [hs]; simp only [Call.prepare, hkv]; rfl) rfl (by rw [hs]; rfl)
  | mremove k =>
    by_cases hkv : k = ""
    · exact eff_err (call_of_done (o := .err Err.illegalParameters) (by rw [hs]; simp only [Call.prepare, hkv, if_true]))
    · exact herr (.remove k) id (by rw [hs]; simp only [Call.prepare, hkv]; rfl) rfl (by rw [hs]; rfl)
  | mget k => exact eff_err (call_of_done (o := .err Err.illegalOperation) (by rw [hs]; rfl))
  | msize => exact eff_err (call_of_done (o := .err Err.illegalOperation) (by rw [hs]; rfl))
  | linsert p vs => exact eff_err (call_of_done (o := .err Err.illegalOperation) (by rw [hs]; rfl))
  | ldelete p => exact eff_err (call_of_done (o := .err Err.illegalOperation) (by rw [hs]; rfl))
  | ldeleteMany p n => exact eff_err (call_of_done (o := .err Err.illegalOperation) (by rw [hs]; rfl))
  | lupdate p vs => exact eff_err (call_of_done (o := .err Err.illegalOperation) (by rw [hs]; rfl))
  | lget p => exact eff_err (call_of_done (o := .err Err.illegalOperation) (by rw [hs]; rfl))
  | lgetMany p n => exact eff_err (call_of_done (o := .err Err.illegalOperation) (by rw [hs]; rfl))
  | lsize => exact eff_err (call_of_done (o := .err Err.illegalOperation) (by rw [hs]; rfl))
  | dput h k v => simp [PlainDoc.handleOf] at hh
  | dremove h k => simp [PlainDoc.handleOf] at hh
  | dinsert h p vs => simp [PlainDoc.handleOf] at hh
  | ddelete h p => simp [PlainDoc.handleOf] at hh
  | ddeleteMany h p n => simp [PlainDoc.handleOf] at hh
  | dupdate h p vs => simp [PlainDoc.handleOf] at hh
  | dgetObj h k => simp [PlainDoc.handleOf] at hh
  | dgetArr h p n => simp [PlainDoc.handleOf] at hh
  | dvalue h => simp [PlainDoc.handleOf] at hh

/-! ### reads -/

theorem full_dvalue {L : OpId} {r : Replica} {d : Doc} (hs : r.state = .doc d) (I : DInv L 0 d) (h : Ts) :
    Eff r d (.dvalue h) ∧ Refines r d (.dvalue h) := by
  have hcall : r.call (.dvalue h) = (r, .ok (.val (some (d.viewAt h)))) :=
    call_of_done (by rw [hs]; rfl)
  refine ⟨eff_ok hcall, refines_same hs hcall ?_⟩
  intro π hd hk hloc hh
  simp only [PlainDoc.handleOf, Option.some.injEq] at hh
  subst hh
  obtain ⟨loc, _⟩ := loc_of I hk hloc
  simp only [PlainDoc.step, loc.sub, PlainDoc.outCanon, PlainDoc.retCanon]

theorem full_dgetObj {L : OpId} {r : Replica} {d : Doc} (hs : r.state = .doc d) (I : DInv L 0 d) (h : Ts) (k : String) :
    Eff r d (.dgetObj h k) ∧ Refines r d (.dgetObj h k) := by
  have hprep : (Call.dgetObj h k).prepare r.state = (Call.dgetObj h k).prepareDoc d := by rw [hs]; rfl
  by_cases hkind : d.kindOf h = .obj
  · obtain ⟨pn, m, s, hf, hkd⟩ := kindOf_obj.mp hkind
    have hfo := findObj_some_iff.mpr ⟨hf, hkd⟩
    have hcall : ∃ o, r.call (.dgetObj h k) = (r, .ok (.val o)) ∧
        o = (alFind k m).bind (fun c => if d.garbage c then none else some (d.viewAt c)) := by
      cases hk : alFind k m with
      | none =>
        exact ⟨none, call_of_done (by rw [hprep]; simp [Call.prepareDoc, Doc.assertLocal, hkind, hfo, hk]), rfl⟩
      | some c =>
        by_cases hg : d.garbage c = true
        · exact ⟨none, call_of_done (by rw [hprep]; simp [Call.prepareDoc, Doc.assertLocal, hkind, hfo, hk, hg]),
            by simp [hg]⟩
        · exact ⟨some (d.viewAt c),
            call_of_done (by rw [hprep]; simp [Call.prepareDoc, Doc.assertLocal, hkind, hfo, hk, hg]), by simp [hg]⟩
    obtain ⟨o, hcall, ho⟩ := hcall
    refine ⟨eff_ok hcall, refines_same hs hcall ?_⟩
    intro π hd hkeys hloc hh
    simp only [PlainDoc.handleOf, Option.some.injEq] at hh
    subst hh
    obtain ⟨loc, _⟩ := loc_of I hkeys hloc
    have hg := I.dg hkeys
    have hsub := loc.sub
    rw [shape_obj hg hf hkd] at hsub
    simp only [PlainDoc.step, hsub, PlainDoc.outCanon]
    rw [alFind_canonKvs, objView_find (hkeys h pn m s hf hkd), ho]
    cases hk : alFind k m with
    | none => rfl
    | some c =>
      have := garbage_kid I hf loc.anc (by rw [hkd]; exact alFind_mem_vals hk)
      simp only [Option.bind_some, this]
      by_cases ht : d.isTomb c = true <;> simp [ht, PlainDoc.retCanon]
  · have hcall : r.call (.dgetObj h k) = (r, .err Err.invalidParent) :=
      call_of_done (by rw [hprep]; simp [Call.prepareDoc, Doc.assertLocal, hkind])
    refine ⟨eff_err hcall, refines_same hs hcall ?_⟩
    intro π hd hkeys hloc hh
    simp only [PlainDoc.handleOf, Option.some.injEq] at hh
    subst hh
    obtain ⟨loc, pn, hf⟩ := loc_of I hkeys hloc
    have hg := I.dg hkeys
    have hsub := loc.sub
    cases hkd : pn.kind with
    | elem v =>
      obtain ⟨e1, e2, e3⟩ := shape_elem I hf hkd
      rw [e1] at hsub
      simp only [PlainDoc.step, hsub, PlainDoc.outCanon]
    | obj m s => exact absurd (kindOf_obj' hf hkd) hkind
    | arr sl s =>
      rw [shape_arr hg hf hkd] at hsub
      simp only [PlainDoc.step, hsub, PlainDoc.outCanon]

theorem full_dgetArr {L : OpId} {r : Replica} {d : Doc} (hs : r.state = .doc d) (I : DInv L 0 d) (h : Ts) (pos n : Int) :
    Eff r d (.dgetArr h pos n) ∧ Refines r d (.dgetArr h pos n) := by
  have hprep : (Call.dgetArr h pos n).prepare r.state = (Call.dgetArr h pos n).prepareDoc d := by rw [hs]; rfl
  by_cases hkind : d.kindOf h = .arr
  · obtain ⟨pn, sl, s, hf, hkd⟩ := kindOf_arr.mp hkind
    have hsz := arr_size I hf hkd
    by_cases hr : PlainDoc.inRange pos n s = true
    · have hcall : r.call (.dgetArr h pos n) =
          (r, .ok (.vals ((((d.liveChildren h).drop pos.toNat).take n.toNat).map d.viewAt))) :=
        call_of_done (by rw [hprep]; simp [Call.prepareDoc, Doc.assertLocal, hkind, arrRga_eq hf hkd,
          validateRange_eq, hr])
      refine ⟨eff_ok hcall, refines_same hs hcall ?_⟩
      intro π hd hkeys hloc hh
      simp only [PlainDoc.handleOf, Option.some.injEq] at hh
      subst hh
      obtain ⟨loc, _⟩ := loc_of I hkeys hloc
      have hg := I.dg hkeys
      have hsub := loc.sub
      rw [shape_arr hg hf hkd] at hsub
      have hlen : (((arrView d sl).map JVal.canon).length : Int) = s := by
        rw [List.length_map, arrView_length, hsz]
      simp only [PlainDoc.step, hsub, PlainDoc.outCanon, hlen, hr, Bool.not_true, Bool.false_eq_true, if_false,
        PlainDoc.retCanon]
      rw [liveChildren_eq hf hkd, arrView_eq]
      simp [List.map_take, List.map_drop]
    · have hcall : r.call (.dgetArr h pos n) = (r, .err Err.illegalParameters) :=
        call_of_done (by rw [hprep]; simp [Call.prepareDoc, Doc.assertLocal, hkind, arrRga_eq hf hkd,
          validateRange_eq, hr])
      refine ⟨eff_err hcall, refines_same hs hcall ?_⟩
      intro π hd hkeys hloc hh
      simp only [PlainDoc.handleOf, Option.some.injEq] at hh
      subst hh
      obtain ⟨loc, _⟩ := loc_of I hkeys hloc
      have hg := I.dg hkeys
      have hsub := loc.sub
      rw [shape_arr hg hf hkd] at hsub
      have hlen : (((arrView d sl).map JVal.canon).length : Int) = s := by
        rw [List.length_map, arrView_length, hsz]
      simp only [PlainDoc.step, hsub, PlainDoc.outCanon, hlen, hr]
      simp
  · have hcall : r.call (.dgetArr h pos n) = (r, .err Err.invalidParent) :=
      call_of_done (by rw [hprep]; simp [Call.prepareDoc, Doc.assertLocal, hkind])
    refine ⟨eff_err hcall, refines_same hs hcall ?_⟩
    intro π hd hkeys hloc hh
    simp only [PlainDoc.handleOf, Option.some.injEq] at hh
    subst hh
    obtain ⟨loc, pn, hf⟩ := loc_of I hkeys hloc
    have hg := I.dg hkeys
    have hsub := loc.sub
    cases hkd : pn.kind with
    | elem v =>
      obtain ⟨e1, e2, e3⟩ := shape_elem I hf hkd
      rw [e1] at hsub
      simp only [PlainDoc.step, hsub, PlainDoc.outCanon]
    | obj m s =>
      rw [shape_obj hg hf hkd] at hsub
      simp only [PlainDoc.step, hsub, PlainDoc.outCanon]
    | arr sl s => exact absurd (kindOf_arr' hf hkd) hkind

/-! ### object calls -/

/-- a located handle that is not an object shows a non-object -/
theorem wrong_kind_obj {L : OpId} {b : Nat} {d : Doc} (I : DInv L b d) (hk : KeysND d) {π : List PlainDoc.Seg}
    {hd : Ts} (hloc : d.locate π Ts.oldest = some hd) (hkind : d.kindOf hd ≠ .obj) :
    ∃ s, PlainDoc.sub π d.view.canon = some s ∧ ∀ kvs, s ≠ .obj kvs := by
  obtain ⟨loc, pn, hf⟩ := loc_of I hk hloc
  have hg := I.dg hk
  cases hkd : pn.kind with
  | elem v =>
    obtain ⟨e1, e2, _⟩ := shape_elem I hf hkd
    exact ⟨_, loc.sub, by rw [e1]; exact e2⟩
  | obj m s => exact absurd (kindOf_obj' hf hkd) hkind
  | arr sl s => exact ⟨_, loc.sub, by rw [shape_arr hg hf hkd]; intro kvs h; cases h⟩

theorem wrong_kind_arr {L : OpId} {b : Nat} {d : Doc} (I : DInv L b d) (hk : KeysND d) {π : List PlainDoc.Seg}
    {hd : Ts} (hloc : d.locate π Ts.oldest = some hd) (hkind : d.kindOf hd ≠ .arr) :
    ∃ s, PlainDoc.sub π d.view.canon = some s ∧ ∀ l, s ≠ .arr l := by
  obtain ⟨loc, pn, hf⟩ := loc_of I hk hloc
  have hg := I.dg hk
  cases hkd : pn.kind with
  | elem v =>
    obtain ⟨e1, _, e3⟩ := shape_elem I hf hkd
    exact ⟨_, loc.sub, by rw [e1]; exact e3⟩
  | obj m s => exact ⟨_, loc.sub, by rw [shape_obj hg hf hkd]; intro kvs h; cases h⟩
  | arr sl s => exact absurd (kindOf_arr' hf hkd) hkind

theorem objDel_sublist (k : String) : ∀ (l : List (String × JVal)), (objDel k l).Sublist l := by
  intro l
  induction l with
  | nil => exact List.Sublist.refl _
  | cons x r ih =>
    obtain ⟨k0, v0⟩ := x
    simp only [objDel]
    split
    · exact List.sublist_cons_self _ _
    · exact List.Sublist.cons_cons _ ih

theorem ksorted_objDel (k : String) {l : List (String × JVal)} (h : KSorted l) : KSorted (objDel k l) :=
  List.Pairwise.sublist (objDel_sublist k l) h

theorem alFind_objDel (k k' : String) : ∀ {l : List (String × JVal)}, KSorted l →
    alFind k' (objDel k l) = if k = k' then none else alFind k' l := by
  intro l
  induction l with
  | nil => intro _; simp [objDel, alFind]
  | cons x r ih =>
    obtain ⟨k0, v0⟩ := x
    intro hs
    unfold KSorted at hs
    rw [List.pairwise_cons] at hs
    simp only [objDel]
    by_cases e : k = k0
    · subst e
      simp only [if_true, alFind]
      by_cases e2 : k = k'
      · subst e2
        simp only [if_true]
        exact alFind_none_of_lt (fun x hx => hs.1 x hx)
      · simp [e2]
    · simp only [e, if_false, alFind, ih hs.2]
      by_cases e2 : k0 = k'
      · have : ¬ k = k' := fun e' => e (e'.trans e2.symm)
        simp [e2, this]
      · simp [e2]

/-- the view of `hd` after a put -/
theorem put_view {L : OpId} {b' : Nat} {d d' : Doc} {h : Ts} {pn : DNode} {m : List (String × Ts)} {s s' : Int}
    {k : String} {v : JVal} {ts ts' : Ts} {ns : List DNode}
    (hstp : Stp L 0 b' d h pn (.obj (alSet k ts m) s') ns (buryOf (alFind k m) ts) (fun _ => none) d')
    (hg : DG d) (hg' : DG d') (hkd : pn.kind = .obj m s) (hc : createNode h ts v = .ok (ns, ts, ts')) :
    (d'.viewAt h).canon = .obj (objPut k v.canon (JVal.canonKvs (objView d m))) := by
  rw [shape_obj hg' hstp.find_hd rfl]
  congr 1
  apply ksorted_ext (ksorted_canonKvs _) (ksorted_objPut _ _ (ksorted_canonKvs _))
  intro k'
  have hk1 := hg'.keys h _ _ _ hstp.find_hd rfl
  have hk0 := hg.keys h pn m s hstp.hp hkd
  have hinj : (m.map (·.2)).Nodup := by have := hstp.inv.wf.inj h pn hstp.hp; rwa [hkd] at this
  rw [alFind_objPut, alFind_canonKvs, alFind_canonKvs, objView_find hk1, objView_find hk0, alFind_alSet]
  by_cases e : k = k'
  · subst e
    obtain ⟨_, _, n0, rest, hns, hn0c, _⟩ := createNode_spec h ts v _ hc
    simp only at hns
    have hlive := hstp.isTomb_new (n := n0) (by rw [hns]; simp)
    rw [hn0c] at hlive
    simp [hlive, hstp.view_created hg' hc (fun n hn => hn)]
  · simp only [e, if_false]
    cases hx : alFind k' m with
    | none => rfl
    | some x =>
      have hxk : x ∈ kids pn.kind := by rw [hkd]; exact alFind_mem_vals hx
      have hb : buryOf (alFind k m) ts x = none := by
        cases hb : buryOf (alFind k m) ts x with
        | none => rfl
        | some t =>
          obtain ⟨e1, _⟩ := buryOf_some hb
          exact absurd (alFind_inj_of_vals_nodup hinj e1 hx) e
      obtain ⟨h1, h2⟩ := hstp.view_old hg hg' hxk hb rfl
      simp only [Option.bind_some, h1, h2]

/-- the view of `hd` after the removal of a live key -/
theorem remove_view {L : OpId} {b' : Nat} {d d' : Doc} {h c : Ts} {pn : DNode} {m : List (String × Ts)} {s s' : Int}
    {k : String} {ts : Ts}
    (hstp : Stp L 0 b' d h pn (.obj m s') [] (fun _ => none) (buryOf (some c) ts) d')
    (hg : DG d) (hg' : DG d') (hkd : pn.kind = .obj m s) (hf : alFind k m = some c) :
    (d'.viewAt h).canon = .obj (objDel k (JVal.canonKvs (objView d m))) := by
  rw [shape_obj hg' hstp.find_hd rfl]
  congr 1
  apply ksorted_ext (ksorted_canonKvs _) (ksorted_objDel _ (ksorted_canonKvs _))
  intro k'
  have hk0 := hg.keys h pn m s hstp.hp hkd
  have hinj : (m.map (·.2)).Nodup := by have := hstp.inv.wf.inj h pn hstp.hp; rwa [hkd] at this
  rw [alFind_objDel _ _ (ksorted_canonKvs _), alFind_canonKvs, alFind_canonKvs, objView_find hk0, objView_find hk0]
  by_cases e : k = k'
  · subst e
    simp [hf, hstp.isTomb_tm rfl (buryOf_self c ts)]
  · simp only [e, if_false]
    cases hx : alFind k' m with
    | none => rfl
    | some x =>
      have hxk : x ∈ kids pn.kind := by rw [hkd]; exact alFind_mem_vals hx
      have hne : x ≠ c := fun e' => e (alFind_inj_of_vals_nodup hinj hf (e' ▸ hx))
      obtain ⟨h1, h2⟩ := hstp.view_old hg hg' hxk rfl (buryOf_ne hne)
      simp only [Option.bind_some, h1, h2]

theorem full_dput {r : Replica} {d : Doc} (hs : r.state = .doc d) (I : DInv r.opId 0 d) (h : Ts) (k : String) (v : JVal) :
    Eff r d (.dput h k v) ∧ Refines r d (.dput h k v) := by
  have hprep : (Call.dput h k v).prepare r.state = (Call.dput h k v).prepareDoc d := by rw [hs]; rfl
  by_cases hkind : d.kindOf h = .obj
  · obtain ⟨pn, m, s, hf, hkd⟩ := kindOf_obj.mp hkind
    by_cases hgb : d.garbage h = true
    · have hcall : r.call (.dput h k v) = (r, .err Err.noOp) :=
        call_of_done (by rw [hprep]; simp [Call.prepareDoc, Doc.assertLocal, hkind, hgb])
      refine ⟨eff_err hcall, ?_⟩
      intro π hd hkeys _ hloc hh
      simp only [PlainDoc.handleOf, Option.some.injEq] at hh
      subst hh
      obtain ⟨loc, _⟩ := loc_of I hkeys hloc
      rw [loc.garbage] at hgb; cases hgb
    · by_cases hnull : v.hasNull = true
      · have hcall : r.call (.dput h k v) = (r, .err Err.illegalParameters) :=
          call_of_done (by rw [hprep]; simp [Call.prepareDoc, Doc.assertLocal, hkind, hgb, hnull])
        refine ⟨eff_err hcall, refines_same hs hcall ?_⟩
        intro π hd hkeys hloc hh
        simp only [PlainDoc.handleOf, Option.some.injEq] at hh
        subst hh
        obtain ⟨loc, _⟩ := loc_of I hkeys hloc
        have hsub := loc.sub
        rw [shape_obj (I.dg hkeys) hf hkd] at hsub
        simp only [PlainDoc.step, hsub, hnull, if_true, PlainDoc.outCanon]
      · have hnn : v.hasNull = false := by simpa using hnull
        obtain ⟨ns, ts', s', d', hc, hrun, hstp, hsize⟩ := put_run I hf hkd k v hnn
        have hcall := call_of_ok (r := r) (c := .dput h k v) (b := .docPut h k v) (post := docRet d true)
          (s' := .doc d') (b' := .docPut h k v)
          (ret := .nodes ((alFind k m).bind (fun c => if d.isTomb c then none else some c)).toList)
          (by rw [hprep]; simp [Call.prepareDoc, Doc.assertLocal, hkind, hgb, hnn]) rfl
          (by rw [hs]; simp only [execLocal, hrun])
        have I' := hstp.next hsize
        have hkeys' : KeysND d → JKeysND v → KeysND d' := fun hkeys hjk =>
          hstp.next_keys hkeys (createNode_keysND h _ v _ hc hjk)
            (by
              intro m' s'' hh
              simp only [DKind.obj.injEq] at hh
              rw [← hh.1]
              exact DC.alSet_keys_nodup (hkeys h pn m s hf hkd))
        refine ⟨Or.inr (Or.inr ⟨d', _, _, _, hcall, I', hkeys'⟩), ?_⟩
        intro π hd hkeys hjk hloc hh
        simp only [PlainDoc.handleOf, Option.some.injEq] at hh
        subst hh
        obtain ⟨loc, _⟩ := loc_of I hkeys hloc
        have hg := I.dg hkeys
        have hg' := I'.dg (hkeys' hkeys hjk)
        have hsub := loc.sub
        rw [shape_obj hg hf hkd] at hsub
        refine ⟨d', by rw [hcall], ?_, ?_⟩
        · simp only [PlainDoc.step, hsub, hnn, Bool.false_eq_true, if_false]
          rw [hstp.view_put hg hg' loc.live hloc, put_view hstp hg hg' hkd hc]
        · simp only [PlainDoc.step, hsub, hnn, Bool.false_eq_true, if_false]
          rw [hcall]
          simp only [PlainDoc.outCanon]
          rw [alFind_canonKvs, objView_find (hkeys h pn m s hf hkd)]
          cases hx : alFind k m with
          | none => rfl
          | some x =>
            by_cases ht : d.isTomb x = true <;> simp [ht, docRet, PlainDoc.retCanon]
  · have hcall : r.call (.dput h k v) = (r, .err Err.invalidParent) :=
      call_of_done (by rw [hprep]; simp [Call.prepareDoc, Doc.assertLocal, hkind])
    refine ⟨eff_err hcall, refines_same hs hcall ?_⟩
    intro π hd hkeys hloc hh
    simp only [PlainDoc.handleOf, Option.some.injEq] at hh
    subst hh
    obtain ⟨s0, hsub, hn⟩ := wrong_kind_obj I hkeys hloc hkind
    simp only [PlainDoc.step, hsub, PlainDoc.outCanon]

theorem full_dremove {r : Replica} {d : Doc} (hs : r.state = .doc d) (I : DInv r.opId 0 d) (h : Ts) (k : String) :
    Eff r d (.dremove h k) ∧ Refines r d (.dremove h k) := by
  have hprep : (Call.dremove h k).prepare r.state = (Call.dremove h k).prepareDoc d := by rw [hs]; rfl
  by_cases hkind : d.kindOf h = .obj
  · obtain ⟨pn, m, s, hf, hkd⟩ := kindOf_obj.mp hkind
    by_cases hgb : d.garbage h = true
    · have hcall : r.call (.dremove h k) = (r, .err Err.noOp) :=
        call_of_done (by rw [hprep]; simp [Call.prepareDoc, Doc.assertLocal, hkind, hgb])
      refine ⟨eff_err hcall, ?_⟩
      intro π hd hkeys _ hloc hh
      simp only [PlainDoc.handleOf, Option.some.injEq] at hh
      subst hh
      obtain ⟨loc, _⟩ := loc_of I hkeys hloc
      rw [loc.garbage] at hgb; cases hgb
    · have hprep2 : (Call.dremove h k).prepare r.state = .op (.docRemove h k) (docRet d true) := by
        rw [hprep]; simp [Call.prepareDoc, Doc.assertLocal, hkind, hgb]
      by_cases hlive : ∃ c, alFind k m = some c ∧ d.isTomb c = false
      · obtain ⟨c, hfk, hlv⟩ := hlive
        obtain ⟨d', hrun, hstp, hsize⟩ := remove_run I hf hkd k hfk hlv
        have hcall := call_of_ok (r := r) (c := .dremove h k) (b := .docRemove h k) (post := docRet d true)
          (s' := .doc d') (b' := .docRemove h k) (ret := .nodes [c]) hprep2 rfl
          (by rw [hs]; simp only [execLocal, hrun]; rfl)
        have I' := hstp.next hsize
        have hkeys' : KeysND d → KeysND d' := fun hkeys =>
          hstp.next_keys hkeys (by intro n hn; cases hn)
            (by
              intro m' s'' hh
              simp only [DKind.obj.injEq] at hh
              rw [← hh.1]
              exact hkeys h pn m s hf hkd)
        refine ⟨Or.inr (Or.inr ⟨d', _, _, _, hcall, I', fun hk _ => hkeys' hk⟩), ?_⟩
        intro π hd hkeys _ hloc hh
        simp only [PlainDoc.handleOf, Option.some.injEq] at hh
        subst hh
        obtain ⟨loc, _⟩ := loc_of I hkeys hloc
        have hg := I.dg hkeys
        have hg' := I'.dg (hkeys' hkeys)
        have hsub := loc.sub
        rw [shape_obj hg hf hkd] at hsub
        have hfind : alFind k (JVal.canonKvs (objView d m)) = some (d.viewAt c).canon := by
          rw [alFind_canonKvs, objView_find (hkeys h pn m s hf hkd), hfk]
          simp [hlv]
        refine ⟨d', by rw [hcall], ?_, ?_⟩
        · simp only [PlainDoc.step, hsub, hfind]
          rw [hstp.view_put hg hg' loc.live hloc, remove_view hstp hg hg' hkd hfk]
        · simp only [PlainDoc.step, hsub, hfind]
          rw [hcall]
          simp [PlainDoc.outCanon, docRet, PlainDoc.retCanon]
      · have herr := remove_err hf hkd k r.opId.next.ts (by
          cases hfk : alFind k m with
          | none => exact Or.inl rfl
          | some c =>
            refine Or.inr ⟨c, rfl, ?_⟩
            by_cases ht : d.isTomb c = true
            · exact ht
            · exact absurd ⟨c, hfk, by simpa using ht⟩ hlive)
        have hcall : r.call (.dremove h k) = (r, .err Err.noOp) :=
          call_of_err hprep2 rfl (by rw [hs]; simp only [execLocal, herr])
        refine ⟨eff_err hcall, refines_same hs hcall ?_⟩
        intro π hd hkeys hloc hh
        simp only [PlainDoc.handleOf, Option.some.injEq] at hh
        subst hh
        obtain ⟨loc, _⟩ := loc_of I hkeys hloc
        have hsub := loc.sub
        rw [shape_obj (I.dg hkeys) hf hkd] at hsub
        have hfind : alFind k (JVal.canonKvs (objView d m)) = none := by
          rw [alFind_canonKvs, objView_find (hkeys h pn m s hf hkd)]
          cases hfk : alFind k m with
          | none => rfl
          | some c =>
            by_cases ht : d.isTomb c = true
            · simp [ht]
            · exact absurd ⟨c, hfk, by simpa using ht⟩ hlive
        simp only [PlainDoc.step, hsub, hfind, PlainDoc.outCanon]
  · have hcall : r.call (.dremove h k) = (r, .err Err.invalidParent) :=
      call_of_done (by rw [hprep]; simp [Call.prepareDoc, Doc.assertLocal, hkind])
    refine ⟨eff_err hcall, refines_same hs hcall ?_⟩
    intro π hd hkeys hloc hh
    simp only [PlainDoc.handleOf, Option.some.injEq] at hh
    subst hh
    obtain ⟨s0, hsub, hn⟩ := wrong_kind_obj I hkeys hloc hkind
    simp only [PlainDoc.step, hsub, PlainDoc.outCanon]

/-! ### array calls -/

theorem arrView_append (d : Doc) (a b : List (Ts × Ts)) : arrView d (a ++ b) = arrView d a ++ arrView d b :=
  List.filterMap_append

theorem Stp.arrView_old {L : OpId} {b b' : Nat} {d d' : Doc} {hd : Ts} {pn : DNode} {K' : DKind} {ns : List DNode}
    {bury tm : Ts → Option Ts} (h : Stp L b b' d hd pn K' ns bury tm d') (hg : DG d) (hg' : DG d')
    (X : List (Ts × Ts)) (hX : ∀ x ∈ X, x.2 ∈ kids pn.kind ∧ bury x.2 = none ∧ tm x.2 = none) :
    arrView d' X = arrView d X := by
  unfold arrView
  apply List.filterMap_congr
  intro x hx
  obtain ⟨h1, h2, h3⟩ := hX x hx
  obtain ⟨e1, e2⟩ := h.view_old hg hg' h1 h2 h3
  obtain ⟨a, c⟩ := x
  simp only at e1 e2 ⊢
  rw [e1, e2]

theorem live_vals (d : Doc) (sl : List (Ts × Ts)) (p n : Nat) :
    ((((sl.filter (slotLive d)).drop p).take n).map (·.2)).map (fun x => (d.viewAt x).canon) =
      (((arrView d sl).map JVal.canon).drop p).take n := by
  rw [arrView_eq]
  simp only [List.map_take, List.map_drop, List.map_map]
  rfl

theorem inRange_facts {pos n s : Int} (h : PlainDoc.inRange pos n s = true) :
    0 ≤ pos ∧ 1 ≤ n ∧ pos + n ≤ s := by
  unfold PlainDoc.inRange at h
  simp only [Bool.and_eq_true, decide_eq_true_eq] at h
  exact ⟨h.1.1.1, h.1.1.2, h.2⟩

theorem full_dinsert {r : Replica} {d : Doc} (hs : r.state = .doc d) (I : DInv r.opId 0 d) (h : Ts) (pos : Int)
    (vs : List JVal) : Eff r d (.dinsert h pos vs) ∧ Refines r d (.dinsert h pos vs) := by
  have hprep : (Call.dinsert h pos vs).prepare r.state = (Call.dinsert h pos vs).prepareDoc d := by rw [hs]; rfl
  by_cases hkind : d.kindOf h = .arr
  · obtain ⟨pn, sl, s, hf, hkd⟩ := kindOf_arr.mp hkind
    have hsz := arr_size I hf hkd
    by_cases hgb : d.garbage h = true
    · have hcall : r.call (.dinsert h pos vs) = (r, .err Err.noOp) :=
        call_of_done (by rw [hprep]; simp [Call.prepareDoc, Doc.assertLocal, hkind, hgb])
      refine ⟨eff_err hcall, ?_⟩
      intro π hd hkeys _ hloc hh
      simp only [PlainDoc.handleOf, Option.some.injEq] at hh
      subst hh
      obtain ⟨loc, _⟩ := loc_of I hkeys hloc
      rw [loc.garbage] at hgb; cases hgb
    · -- the view of the array, for the specification side
      have spec_sub : ∀ {π : List PlainDoc.Seg}, KeysND d → d.locate π Ts.oldest = some h →
          PlainDoc.sub π d.view.canon = some (.arr ((arrView d sl).map JVal.canon)) ∧
          (((arrView d sl).map JVal.canon).length : Int) = s := by
        intro π hkeys hloc
        obtain ⟨loc, _⟩ := loc_of I hkeys hloc
        have hsub := loc.sub
        rw [shape_arr (I.dg hkeys) hf hkd] at hsub
        exact ⟨hsub, by rw [List.length_map, arrView_length, hsz]⟩
      by_cases hr : (pos < 0 || pos > s) = true
      · have hcall : r.call (.dinsert h pos vs) = (r, .err Err.illegalParameters) :=
          call_of_done (by rw [hprep]; simp only [Call.prepareDoc, Doc.assertLocal, hkind, hgb, arrRga_eq hf hkd,
            validateInsert_eq, hr]; simp)
        refine ⟨eff_err hcall, refines_same hs hcall ?_⟩
        intro π hd hkeys hloc hh
        simp only [PlainDoc.handleOf, Option.some.injEq] at hh
        subst hh
        obtain ⟨hsub, hlen⟩ := spec_sub hkeys hloc
        simp only [PlainDoc.step, hsub, hlen, hr, if_true, PlainDoc.outCanon]
      · by_cases hnull : vs.any JVal.hasNull = true
        · have hcall : r.call (.dinsert h pos vs) = (r, .err Err.illegalParameters) :=
            call_of_done (by rw [hprep]; simp only [Call.prepareDoc, Doc.assertLocal, hkind, hgb, arrRga_eq hf hkd,
              validateInsert_eq, hr, hnull]; simp)
          refine ⟨eff_err hcall, refines_same hs hcall ?_⟩
          intro π hd hkeys hloc hh
          simp only [PlainDoc.handleOf, Option.some.injEq] at hh
          subst hh
          obtain ⟨hsub, hlen⟩ := spec_sub hkeys hloc
          simp only [PlainDoc.step, hsub, hlen, hr, hnull, if_true, PlainDoc.outCanon]
          simp
        · have hnn : JVal.hasNullList vs = false := by rw [← any_hasNull_iff]; simpa using hnull
          have hr' : 0 ≤ pos ∧ pos ≤ s := by
            simp only [Bool.or_eq_true, decide_eq_true_eq, not_or] at hr
            omega
          have hpos : pos.toNat ≤ (sl.filter (slotLive d)).length := by omega
          obtain ⟨ns, cs, ts', pre, suf, d', a, hc, e1, e3, hrun, hstp, hsize⟩ :=
            insert_run I hf hkd pos.toNat vs hpos hnn
          have hcall := call_of_ok (r := r) (c := .dinsert h pos vs) (b := .docInsert h pos.toNat none vs) (post := id)
            (s' := .doc d') (b' := .docInsert h pos.toNat (some a) vs) (ret := .none)
            (by rw [hprep]; simp only [Call.prepareDoc, Doc.assertLocal, hkind, hgb, arrRga_eq hf hkd,
              validateInsert_eq, hr, hnull]; simp) rfl
            (by rw [hs]; simp only [execLocal, hrun])
          have I' := hstp.next hsize
          have hkeys' : KeysND d → JKeysNDList vs → KeysND d' := fun hkeys hjk =>
            hstp.next_keys hkeys (createArrItems_keysND h _ vs _ _ _ hc hjk) (by intro m' s'' hh; cases hh)
          refine ⟨Or.inr (Or.inr ⟨d', _, _, _, hcall, I', hkeys'⟩), ?_⟩
          intro π hd hkeys hjk hloc hh
          simp only [PlainDoc.handleOf, Option.some.injEq] at hh
          subst hh
          obtain ⟨loc, _⟩ := loc_of I hkeys hloc
          obtain ⟨hsub, hlen⟩ := spec_sub hkeys hloc
          have hg := I.dg hkeys
          have hg' := I'.dg (hkeys' hkeys hjk)
          have hkids : kids pn.kind = sl.map (·.2) := by rw [hkd]; rfl
          refine ⟨d', by rw [hcall], ?_, ?_⟩
          · simp only [PlainDoc.step, hsub, hlen, hr, hnull, Bool.false_eq_true, if_false]
            rw [hstp.view_put hg hg' loc.live hloc, shape_arr hg' hstp.find_hd rfl]
            congr 2
            have hold : ∀ X, (∀ x ∈ X, x ∈ sl) → arrView d' X = arrView d X := fun X hX =>
              hstp.arrView_old hg hg' X (fun x hx => ⟨by rw [hkids]; exact List.mem_map.mpr ⟨x, hX x hx, rfl⟩, rfl, rfl⟩)
            rw [arrView_append, arrView_append, hold pre (by intro x hx; rw [e1]; exact List.mem_append_left _ hx),
              hold suf (by intro x hx; rw [e1]; exact List.mem_append_right _ hx), hstp.view_createdMany hg' hc, e1,
              arrView_append]
            have hl : ((arrView d pre).map JVal.canon).length = pos.toNat := by
              rw [List.length_map, arrView_length, e3]
            simp only [List.map_append]
            rw [List.take_left' hl, List.drop_left' hl]
          · simp only [PlainDoc.step, hsub, hlen, hr, hnull, Bool.false_eq_true, if_false]
            rw [hcall]
            rfl
  · have hcall : r.call (.dinsert h pos vs) = (r, .err Err.invalidParent) :=
      call_of_done (by rw [hprep]; simp [Call.prepareDoc, Doc.assertLocal, hkind])
    refine ⟨eff_err hcall, refines_same hs hcall ?_⟩
    intro π hd hkeys hloc hh
    simp only [PlainDoc.handleOf, Option.some.injEq] at hh
    subst hh
    obtain ⟨s0, hsub, hn⟩ := wrong_kind_arr I hkeys hloc hkind
    simp only [PlainDoc.step, hsub, PlainDoc.outCanon]

theorem retCanon_val (o : Option JVal) : PlainDoc.retCanon (.val o) = .val (o.map JVal.canon) := by
  cases o <;> rfl

/-- what DocDelete does, for both public variants -/
theorem delete_core {r : Replica} {d : Doc} (hs : r.state = .doc d) (I : DInv r.opId 0 d) {h : Ts} {pn : DNode}
    {sl : List (Ts × Ts)} {s : Int} (hf : d.find h = some pn) (hkd : pn.kind = .arr sl s) (c : Call)
    (post : Ret → Ret) (p num : Nat) (hprep : c.prepare r.state = .op (.docDelete h p num []) post)
    (hrange : p + num ≤ (sl.filter (slotLive d)).length) :
    ∃ d' bd, r.call c = ({ r with opId := r.opId.next, state := .doc d', rbOps := r.rbOps ++ [⟨r.opId.next, bd⟩],
                                  buffer := r.buffer ++ [Op.wire ⟨r.opId.next, bd⟩] },
        .ok (post (.nodes ((((sl.filter (slotLive d)).drop p).take num).map (·.2))))) ∧
      DInv r.opId num d' ∧ (KeysND d → KeysND d') ∧
      ∀ (π : List PlainDoc.Seg), KeysND d → d.locate π Ts.oldest = some h →
        d'.view.canon = PlainDoc.put d.view.canon π
          (.arr (((arrView d sl).map JVal.canon).take p ++ ((arrView d sl).map JVal.canon).drop (p + num))) := by
  obtain ⟨d', hrun, hstp, hsize, hfilt, hnone⟩ := delete_run I hf hkd p num hrange
  have hcall := call_of_ok (r := r) (c := c) (b := .docDelete h p num []) (post := post)
    (s' := .doc d') (b' := .docDelete h p num ((((sl.filter (slotLive d)).drop p).take num).map (·.1)))
    (ret := .nodes ((((sl.filter (slotLive d)).drop p).take num).map (·.2))) hprep rfl
    (by rw [hs]; simp only [execLocal, hrun])
  have I' := hstp.next hsize
  have hkeys' : KeysND d → KeysND d' := fun hkeys =>
    hstp.next_keys hkeys (by intro n hn; cases hn) (by intro m' s'' hh; cases hh)
  refine ⟨d', _, hcall, I', hkeys', ?_⟩
  intro π hkeys hloc
  obtain ⟨loc, _⟩ := loc_of I hkeys hloc
  have hg := I.dg hkeys
  have hg' := I'.dg (hkeys' hkeys)
  have hkids : kids pn.kind = sl.map (·.2) := by rw [hkd]; rfl
  rw [hstp.view_put hg hg' loc.live hloc, shape_arr hg' hstp.find_hd rfl]
  congr 2
  rw [← List.map_take, ← List.map_drop, ← List.map_append]
  congr 1
  rw [arrView_eq, hfilt, arrView_eq, ← List.map_take, ← List.map_drop, ← List.map_take, ← List.map_drop,
    ← List.map_append, ← List.map_append]
  rw [List.map_map, List.map_map]
  apply List.map_congr_left
  intro x hx
  have hxF : x ∈ sl.filter (slotLive d) := by
    rcases List.mem_append.mp hx with hx | hx
    · exact List.mem_of_mem_take hx
    · exact List.mem_of_mem_drop hx
  have hxk : x.2 ∈ kids pn.kind := by
    rw [hkids]; exact List.mem_map.mpr ⟨x, (List.mem_filter.mp hxF).1, rfl⟩
  exact (hstp.view_old hg hg' hxk rfl (hnone x hx)).1

theorem eff_of_core {r : Replica} {d d' : Doc} {c : Call} {bd : OpBody} {v : Ret} {b' : Nat}
    (hcall : r.call c = ({ r with opId := r.opId.next, state := .doc d', rbOps := r.rbOps ++ [⟨r.opId.next, bd⟩],
                                  buffer := r.buffer ++ [Op.wire ⟨r.opId.next, bd⟩] }, .ok v))
    (I' : DInv r.opId b' d') (hk : KeysND d → CallKeysND c → KeysND d') : Eff r d c :=
  Or.inr (Or.inr ⟨d', b', bd, v, hcall, I', hk⟩)

/-- the part of the array calls that is the same for all: kind and garbage checks -/
theorem arr_prelude {r : Replica} {d : Doc} (hs : r.state = .doc d) (I : DInv r.opId 0 d) (c : Call) (h : Ts)
    (hh : PlainDoc.handleOf c = some h)
    (hwrong : d.kindOf h ≠ .arr → r.call c = (r, .err Err.invalidParent) ∧
      ∀ (t s0 : JVal) (π : List PlainDoc.Seg), PlainDoc.sub π t = some s0 → (∀ l, s0 ≠ .arr l) →
        PlainDoc.step t π c = (t, .err Err.invalidParent))
    (hgarb : d.kindOf h = .arr → d.garbage h = true → r.call c = (r, .err Err.noOp))
    (hmain : ∀ pn sl s, d.find h = some pn → pn.kind = .arr sl s → d.garbage h = false → Eff r d c ∧ Refines r d c) :
    Eff r d c ∧ Refines r d c := by
  by_cases hkind : d.kindOf h = .arr
  · obtain ⟨pn, sl, s, hf, hkd⟩ := kindOf_arr.mp hkind
    by_cases hgb : d.garbage h = true
    · have hcall := hgarb hkind hgb
      refine ⟨eff_err hcall, ?_⟩
      intro π hd hkeys _ hloc hh'
      rw [hh] at hh'
      simp only [Option.some.injEq] at hh'
      subst hh'
      obtain ⟨loc, _⟩ := loc_of I hkeys hloc
      rw [loc.garbage] at hgb; cases hgb
    · exact hmain pn sl s hf hkd (by simpa using hgb)
  · obtain ⟨hcall, hstep⟩ := hwrong hkind
    refine ⟨eff_err hcall, refines_same hs hcall ?_⟩
    intro π hd hkeys hloc hh'
    rw [hh] at hh'
    simp only [Option.some.injEq] at hh'
    subst hh'
    obtain ⟨s0, hsub, hn⟩ := wrong_kind_arr I hkeys hloc hkind
    exact hstep _ s0 π hsub hn

theorem full_ddelete {r : Replica} {d : Doc} (hs : r.state = .doc d) (I : DInv r.opId 0 d) (h : Ts) (pos : Int) :
    Eff r d (.ddelete h pos) ∧ Refines r d (.ddelete h pos) := by
  have hprep : (Call.ddelete h pos).prepare r.state = (Call.ddelete h pos).prepareDoc d := by rw [hs]; rfl
  apply arr_prelude hs I _ h rfl
  · intro hkind
    exact ⟨call_of_done (by rw [hprep]; simp [Call.prepareDoc, Doc.assertLocal, hkind]),
      fun t s0 π hsub hn => by simp only [PlainDoc.step, hsub]⟩
  · intro hkind hgb
    exact call_of_done (by rw [hprep]; simp [Call.prepareDoc, Doc.assertLocal, hkind, hgb])
  · intro pn sl s hf hkd hgb
    have hkind := kindOf_arr' hf hkd
    have hsz := arr_size I hf hkd
    have spec_sub : ∀ {π : List PlainDoc.Seg}, KeysND d → d.locate π Ts.oldest = some h →
        PlainDoc.sub π d.view.canon = some (.arr ((arrView d sl).map JVal.canon)) ∧
        (((arrView d sl).map JVal.canon).length : Int) = s := by
      intro π hkeys hloc
      obtain ⟨loc, _⟩ := loc_of I hkeys hloc
      have hsub := loc.sub
      rw [shape_arr (I.dg hkeys) hf hkd] at hsub
      exact ⟨hsub, by rw [List.length_map, arrView_length, hsz]⟩
    by_cases hr : PlainDoc.inRange pos 1 s = true
    · obtain ⟨h0, _, h2⟩ := inRange_facts hr
      obtain ⟨d', bd, hcall, I', hkeys', hview⟩ := delete_core hs I hf hkd (.ddelete h pos) (docRet d true)
        pos.toNat 1
        (by rw [hprep]; simp [Call.prepareDoc, Doc.assertLocal, hkind, hgb, arrRga_eq hf hkd, validateRange_eq, hr])
        (by omega)
      refine ⟨eff_of_core hcall I' (fun hk _ => hkeys' hk), ?_⟩
      intro π hd hkeys _ hloc hh
      simp only [PlainDoc.handleOf, Option.some.injEq] at hh
      subst hh
      obtain ⟨hsub, hlen⟩ := spec_sub hkeys hloc
      refine ⟨d', by rw [hcall], ?_, ?_⟩
      · simp only [PlainDoc.step, hsub, hlen, hr, Bool.not_true, Bool.false_eq_true, if_false]
        exact hview π hkeys hloc
      · simp only [PlainDoc.step, hsub, hlen, hr, Bool.not_true, Bool.false_eq_true, if_false]
        rw [hcall]
        simp only [PlainDoc.outCanon, docRet, if_true, retCanon_val, List.head?_map, Option.map_map]
        have := live_vals d sl pos.toNat 1
        have h2 := congrArg List.head? this
        simp only [List.head?_map, List.head?_take, Option.map_map] at h2
        simp only [Function.comp_def, one_ne_zero, if_false] at h2
        simp only [Function.comp_def, List.head?_take, one_ne_zero, if_false]
        rw [h2]
    · have hcall : r.call (.ddelete h pos) = (r, .err Err.illegalParameters) :=
        call_of_done (by rw [hprep]; simp [Call.prepareDoc, Doc.assertLocal, hkind, hgb, arrRga_eq hf hkd,
          validateRange_eq, hr])
      refine ⟨eff_err hcall, refines_same hs hcall ?_⟩
      intro π hd hkeys hloc hh
      simp only [PlainDoc.handleOf, Option.some.injEq] at hh
      subst hh
      obtain ⟨hsub, hlen⟩ := spec_sub hkeys hloc
      simp only [PlainDoc.step, hsub, hlen, hr, PlainDoc.outCanon]
      simp

theorem full_ddeleteMany {r : Replica} {d : Doc} (hs : r.state = .doc d) (I : DInv r.opId 0 d) (h : Ts) (pos n : Int) :
    Eff r d (.ddeleteMany h pos n) ∧ Refines r d (.ddeleteMany h pos n) := by
  have hprep : (Call.ddeleteMany h pos n).prepare r.state = (Call.ddeleteMany h pos n).prepareDoc d := by rw [hs]; rfl
  apply arr_prelude hs I _ h rfl
  · intro hkind
    exact ⟨call_of_done (by rw [hprep]; simp [Call.prepareDoc, Doc.assertLocal, hkind]),
      fun t s0 π hsub hn => by simp only [PlainDoc.step, hsub]⟩
  · intro hkind hgb
    exact call_of_done (by rw [hprep]; simp [Call.prepareDoc, Doc.assertLocal, hkind, hgb])
  · intro pn sl s hf hkd hgb
    have hkind := kindOf_arr' hf hkd
    have hsz := arr_size I hf hkd
    have spec_sub : ∀ {π : List PlainDoc.Seg}, KeysND d → d.locate π Ts.oldest = some h →
        PlainDoc.sub π d.view.canon = some (.arr ((arrView d sl).map JVal.canon)) ∧
        (((arrView d sl).map JVal.canon).length : Int) = s := by
      intro π hkeys hloc
      obtain ⟨loc, _⟩ := loc_of I hkeys hloc
      have hsub := loc.sub
      rw [shape_arr (I.dg hkeys) hf hkd] at hsub
      exact ⟨hsub, by rw [List.length_map, arrView_length, hsz]⟩
    by_cases hr : PlainDoc.inRange pos n s = true
    · obtain ⟨h0, h1, h2⟩ := inRange_facts hr
      obtain ⟨d', bd, hcall, I', hkeys', hview⟩ := delete_core hs I hf hkd (.ddeleteMany h pos n) (docRet d false)
        pos.toNat n.toNat
        (by rw [hprep]; simp [Call.prepareDoc, Doc.assertLocal, hkind, hgb, arrRga_eq hf hkd, validateRange_eq, hr])
        (by omega)
      refine ⟨eff_of_core hcall I' (fun hk _ => hkeys' hk), ?_⟩
      intro π hd hkeys _ hloc hh
      simp only [PlainDoc.handleOf, Option.some.injEq] at hh
      subst hh
      obtain ⟨hsub, hlen⟩ := spec_sub hkeys hloc
      refine ⟨d', by rw [hcall], ?_, ?_⟩
      · simp only [PlainDoc.step, hsub, hlen, hr, Bool.not_true, Bool.false_eq_true, if_false]
        exact hview π hkeys hloc
      · simp only [PlainDoc.step, hsub, hlen, hr, Bool.not_true, Bool.false_eq_true, if_false]
        rw [hcall]
        simp only [PlainDoc.outCanon, docRet, Bool.false_eq_true, if_false, PlainDoc.retCanon, List.map_map]
        have := live_vals d sl pos.toNat n.toNat
        simp only [List.map_map] at this
        rw [← this]
        rfl
    · have hcall : r.call (.ddeleteMany h pos n) = (r, .err Err.illegalParameters) :=
        call_of_done (by rw [hprep]; simp [Call.prepareDoc, Doc.assertLocal, hkind, hgb, arrRga_eq hf hkd,
          validateRange_eq, hr])
      refine ⟨eff_err hcall, refines_same hs hcall ?_⟩
      intro π hd hkeys hloc hh
      simp only [PlainDoc.handleOf, Option.some.injEq] at hh
      subst hh
      obtain ⟨hsub, hlen⟩ := spec_sub hkeys hloc
      simp only [PlainDoc.step, hsub, hlen, hr, PlainDoc.outCanon]
      simp

theorem full_dupdate {r : Replica} {d : Doc} (hs : r.state = .doc d) (I : DInv r.opId 0 d) (h : Ts) (pos : Int)
    (vs : List JVal) : Eff r d (.dupdate h pos vs) ∧ Refines r d (.dupdate h pos vs) := by
  have hprep : (Call.dupdate h pos vs).prepare r.state = (Call.dupdate h pos vs).prepareDoc d := by rw [hs]; rfl
  apply arr_prelude hs I _ h rfl
  · intro hkind
    exact ⟨call_of_done (by rw [hprep]; simp [Call.prepareDoc, Doc.assertLocal, hkind]),
      fun t s0 π hsub hn => by simp only [PlainDoc.step, hsub]⟩
  · intro hkind hgb
    exact call_of_done (by rw [hprep]; simp [Call.prepareDoc, Doc.assertLocal, hkind, hgb])
  · intro pn sl s hf hkd hgb
    have hkind := kindOf_arr' hf hkd
    have hsz := arr_size I hf hkd
    have spec_sub : ∀ {π : List PlainDoc.Seg}, KeysND d → d.locate π Ts.oldest = some h →
        PlainDoc.sub π d.view.canon = some (.arr ((arrView d sl).map JVal.canon)) ∧
        (((arrView d sl).map JVal.canon).length : Int) = s := by
      intro π hkeys hloc
      obtain ⟨loc, _⟩ := loc_of I hkeys hloc
      have hsub := loc.sub
      rw [shape_arr (I.dg hkeys) hf hkd] at hsub
      exact ⟨hsub, by rw [List.length_map, arrView_length, hsz]⟩
    by_cases hr : PlainDoc.inRange pos vs.length s = true
    · by_cases hnull : vs.any JVal.hasNull = true
      · have hcall : r.call (.dupdate h pos vs) = (r, .err Err.illegalParameters) :=
          call_of_done (by rw [hprep]; simp only [Call.prepareDoc, Doc.assertLocal, hkind, hgb, arrRga_eq hf hkd,
            validateRange_eq, hr, hnull]; simp)
        refine ⟨eff_err hcall, refines_same hs hcall ?_⟩
        intro π hd hkeys hloc hh
        simp only [PlainDoc.handleOf, Option.some.injEq] at hh
        subst hh
        obtain ⟨hsub, hlen⟩ := spec_sub hkeys hloc
        simp only [PlainDoc.step, hsub, hlen, hr, hnull, PlainDoc.outCanon]
        simp
      · have hnn : JVal.hasNullList vs = false := by rw [← any_hasNull_iff]; simpa using hnull
        obtain ⟨h0, _, h2⟩ := inRange_facts hr
        obtain ⟨d', b', pn', sl', hrun, I', hp', hk', htomb', hsame', hview'⟩ :=
          update_run I hf hkd pos.toNat vs (by omega) hnn
        have hcall := call_of_ok (r := r) (c := .dupdate h pos vs) (b := .docUpdate h pos.toNat [] vs)
          (post := docRet d false) (s' := .doc d')
          (b' := .docUpdate h pos.toNat ((((sl.filter (slotLive d)).drop pos.toNat).take vs.length).map (·.1)) vs)
          (ret := .nodes ((((sl.filter (slotLive d)).drop pos.toNat).take vs.length).map (·.2)))
          (by rw [hprep]; simp only [Call.prepareDoc, Doc.assertLocal, hkind, hgb, arrRga_eq hf hkd,
            validateRange_eq, hr, hnull]; simp) rfl
          (by rw [hs]; simp only [execLocal, hrun])
        refine ⟨eff_of_core hcall I' (fun hk hj => (hview' hk hj).1), ?_⟩
        intro π hd hkeys hjk hloc hh
        simp only [PlainDoc.handleOf, Option.some.injEq] at hh
        subst hh
        obtain ⟨loc, _⟩ := loc_of I hkeys hloc
        obtain ⟨hsub, hlen⟩ := spec_sub hkeys hloc
        obtain ⟨hkeys', hav⟩ := hview' hkeys hjk
        have hg := I.dg hkeys
        have hg' := I'.dg hkeys'
        have hkids : kids pn.kind = sl.map (·.2) := by rw [hkd]; rfl
        have hsm : Same d d' h
            (fun x => x ∈ (((sl.filter (slotLive d)).drop pos.toNat).take vs.length).map (fun y => y.2)) := hsame'
        have hput := DP.view_put hg hg' hsm
          (by
            intro x hx
            refine ⟨pn, hf, ?_⟩
            rw [hkids]
            obtain ⟨y, hy, rfl⟩ := List.mem_map.mp hx
            exact List.mem_map.mpr ⟨y, (List.mem_filter.mp (List.mem_of_mem_drop (List.mem_of_mem_take hy))).1, rfl⟩)
          (by rw [htomb']; exact loc.live) hloc
        refine ⟨d', by rw [hcall], ?_, ?_⟩
        · simp only [PlainDoc.step, hsub, hlen, hr, hnull, Bool.not_true, Bool.false_eq_true, if_false]
          rw [hput, shape_arr hg' hp' hk', hav]
          congr 2
          rw [arrView_eq]
          simp only [List.map_append, List.map_take, List.map_drop, List.map_map]
          rfl
        · simp only [PlainDoc.step, hsub, hlen, hr, hnull, Bool.not_true, Bool.false_eq_true, if_false]
          rw [hcall]
          simp only [PlainDoc.outCanon, docRet, Bool.false_eq_true, if_false, PlainDoc.retCanon, List.map_map]
          have := live_vals d sl pos.toNat vs.length
          simp only [List.map_map] at this
          rw [← this]
          rfl
    · have hcall : r.call (.dupdate h pos vs) = (r, .err Err.illegalParameters) :=
        call_of_done (by rw [hprep]; simp [Call.prepareDoc, Doc.assertLocal, hkind, hgb, arrRga_eq hf hkd,
          validateRange_eq, hr])
      refine ⟨eff_err hcall, refines_same hs hcall ?_⟩
      intro π hd hkeys hloc hh
      simp only [PlainDoc.handleOf, Option.some.injEq] at hh
      subst hh
      obtain ⟨hsub, hlen⟩ := spec_sub hkeys hloc
      simp only [PlainDoc.step, hsub, hlen, hr, PlainDoc.outCanon]
      simp

/-- every call: its effect on the replica and the refinement -/
theorem call_full {r : Replica} {d : Doc} (hs : r.state = .doc d) (I : DInv r.opId 0 d) (c : Call) :
    Eff r d c ∧ Refines r d c := by
  cases c with
  | dput h k v => exact full_dput hs I h k v
  | dremove h k => exact full_dremove hs I h k
  | dinsert h p vs => exact full_dinsert hs I h p vs
  | ddelete h p => exact full_ddelete hs I h p
  | ddeleteMany h p n => exact full_ddeleteMany hs I h p n
  | dupdate h p vs => exact full_dupdate hs I h p vs
  | dgetObj h k => exact full_dgetObj hs I h k
  | dgetArr h p n => exact full_dgetArr hs I h p n
  | dvalue h => exact full_dvalue hs I h
  | inc x => exact full_other hs _ rfl
  | mput k v => exact full_other hs _ rfl
  | mremove k => exact full_other hs _ rfl
  | mget k => exact full_other hs _ rfl
  | msize => exact full_other hs _ rfl
  | linsert p vs => exact full_other hs _ rfl
  | ldelete p => exact full_other hs _ rfl
  | ldeleteMany p n => exact full_other hs _ rfl
  | lupdate p vs => exact full_other hs _ rfl
  | lget p => exact full_other hs _ rfl
  | lgetMany p n => exact full_other hs _ rfl
  | lsize => exact full_other hs _ rfl

/-! ## 6. the theorems -/

theorem find_empty {c : Ts} {n : DNode} (h : Doc.empty.find c = some n) :
    c = Ts.oldest ∧ n = ⟨Ts.oldest, none, none, .obj [] 0⟩ := by
  unfold Doc.find Doc.empty at h
  simp only [List.find?_cons, List.find?_nil] at h
  split at h
  · rename_i hc
    simp only [Option.some.injEq] at h
    have : Ts.oldest = c := by simpa using hc
    exact ⟨this.symm, h.symm⟩
  · cases h

theorem dinv_empty (L : OpId) (hL : L.era = 0) : DInv L 0 Doc.empty := by
  refine ⟨wf_doc_empty, ⟨fun _ => 0, ?_⟩, ⟨[], 0, rfl⟩, ?_, ?_, ?_, ?_, ?_⟩
  · intro p n h c hc
    obtain ⟨_, rfl⟩ := find_empty h
    simp [kids] at hc
  · intro c n h
    obtain ⟨_, rfl⟩ := find_empty h
    simp [SizeOK]
  · intro c n h
    obtain ⟨_, rfl⟩ := find_empty h
    refine ⟨⟨by simp [Ts.oldest, hL], Or.inl (by simp [Ts.oldest])⟩, (by intro t ht; cases ht), (by simp [ordIds])⟩
  · intro c n h
    obtain ⟨_, rfl⟩ := find_empty h
    simp [ordIds]
  · intro c n h _
    exact Or.inl (find_empty h).1
  · intro c n v h hk
    obtain ⟨_, rfl⟩ := find_empty h
    cases hk

theorem docInv_new (cuid : String) (create : Bool) : DocInv (Replica.new .document cuid create) := by
  cases create
  · exact ⟨Doc.empty, rfl, dinv_empty _ rfl, keysND_empty⟩
  · exact ⟨Doc.empty, rfl, dinv_empty _ rfl, keysND_empty⟩

theorem docInv_call (r : Replica) (c : Call) (hk : CallKeysND c) (h : DocInv r) : DocInv (r.call c).1 := by
  obtain ⟨d, hs, I, hkeys⟩ := h
  rcases (call_full hs I c).1 with ⟨h1, _⟩ | ⟨h1, _⟩ | ⟨d', b', bd, v, hcall, I', hk'⟩
  · rw [h1]; exact ⟨d, hs, I, hkeys⟩
  · rw [h1]; exact ⟨d, hs, I, hkeys⟩
  · rw [hcall]; exact ⟨d', rfl, I'.finish, hk' hkeys hk⟩

theorem doc_call_no_panic (r : Replica) (c : Call) (h : DocInv r) (w : String) : (r.call c).2 ≠ .panic w := by
  obtain ⟨d, hs, I, _⟩ := h
  rcases (call_full hs I c).1 with ⟨_, e, h2⟩ | ⟨_, v, h2⟩ | ⟨d', b', bd, v, hcall, _, _⟩
  · rw [h2]; intro hh; cases hh
  · rw [h2]; intro hh; cases hh
  · rw [hcall]; intro hh; cases hh

theorem doc_call_err_noop (r : Replica) (c : Call) (h : DocInv r) (e : Nat) (he : (r.call c).2 = .err e) :
    (r.call c).1 = r := by
  obtain ⟨d, hs, I, _⟩ := h
  rcases (call_full hs I c).1 with ⟨h1, _⟩ | ⟨h1, _⟩ | ⟨d', b', bd, v, hcall, _, _⟩
  · exact h1
  · exact h1
  · rw [hcall] at he; cases he

theorem doc_call_ok_queues_one (r : Replica) (c : Call) (h : DocInv r) (v : Ret) (hok : (r.call c).2 = .ok v) :
    (r.call c).1.buffer = r.buffer ∨ ∃ o : Op, (r.call c).1.buffer = r.buffer ++ [o] ∧ o.id = r.opId.next := by
  have _ := hok
  obtain ⟨d, hs, I, _⟩ := h
  rcases (call_full hs I c).1 with ⟨h1, _⟩ | ⟨h1, _⟩ | ⟨d', b', bd, v', hcall, _, _⟩
  · exact Or.inl (by rw [h1])
  · exact Or.inl (by rw [h1])
  · exact Or.inr ⟨Op.wire ⟨r.opId.next, bd⟩, by rw [hcall], rfl⟩

/-- THE refinement: a call through a handle located at π changes the JSON view exactly as the plain tree changes, and
    returns what the plain tree returns (values compared in canonical form) -/
theorem doc_call_refines (r : Replica) (d : Doc) (hs : r.state = .doc d) (h : DocInv r) (π : List PlainDoc.Seg) (hd : Ts)
    (hloc : d.locate π Ts.oldest = some hd) (c : Call) (hc : PlainDoc.handleOf c = some hd) (hk : CallKeysND c) :
    ∃ d', (r.call c).1.state = .doc d' ∧
      d'.view.canon = (PlainDoc.step d.view.canon π c).1 ∧
      PlainDoc.outCanon (r.call c).2 = (PlainDoc.step d.view.canon π c).2 := by
  obtain ⟨d0, hs0, I, hkeys⟩ := h
  rw [hs] at hs0
  simp only [DState.doc.injEq] at hs0
  subst hs0
  exact (call_full hs I c).2 π hd hkeys hk hloc hc

/-- … and a located handle is not garbage (so the two notions coincide) -/
theorem doc_located_not_garbage (r : Replica) (d : Doc) (hs : r.state = .doc d) (h : DocInv r) (π : List PlainDoc.Seg)
    (hd : Ts) (hloc : d.locate π Ts.oldest = some hd) : d.garbage hd = false ∧ (d.find hd).isSome := by
  obtain ⟨d0, hs0, I, hkeys⟩ := h
  rw [hs] at hs0
  simp only [DState.doc.injEq] at hs0
  subst hs0
  obtain ⟨g, _, pn, hpn⟩ := located_facts I hloc
  exact ⟨g, by simp [hpn]⟩

/-- a mutating call through a handle of a deleted container (the node or an ancestor is a tombstone) is refused -/
theorem doc_deleted_container_refused (r : Replica) (d : Doc) (hs : r.state = .doc d) (h : DocInv r) (hd : Ts)
    (hg : d.garbage hd = true) (c : Call) (hc : PlainDoc.handleOf c = some hd) (hm : isMutating c = true) :
    ∃ e, (r.call c).2 = .err e := by
  have _ := h
  have key : ∀ (K : NKind), ∃ e, d.assertLocal hd K false = some e := by
    intro K
    unfold Doc.assertLocal
    by_cases hk : d.kindOf hd ≠ K
    · exact ⟨Err.invalidParent, by rw [if_pos hk]⟩
    · exact ⟨Err.noOp, by rw [if_neg hk]; simp [hg]⟩
  cases c with
  | dput h' k v =>
    simp only [PlainDoc.handleOf, Option.some.injEq] at hc; subst hc
    obtain ⟨e, he⟩ := key .obj
    exact ⟨e, by rw [call_of_done (o := .err e) (by rw [hs]; simp [Call.prepare, Call.prepareDoc, he])]⟩
  | dremove h' k =>
    simp only [PlainDoc.handleOf, Option.some.injEq] at hc; subst hc
    obtain ⟨e, he⟩ := key .obj
    exact ⟨e, by rw [call_of_done (o := .err e) (by rw [hs]; simp [Call.prepare, Call.prepareDoc, he])]⟩
  | dinsert h' p vs =>
    simp only [PlainDoc.handleOf, Option.some.injEq] at hc; subst hc
    obtain ⟨e, he⟩ := key .arr
    exact ⟨e, by rw [call_of_done (o := .err e) (by rw [hs]; simp [Call.prepare, Call.prepareDoc, he])]⟩
  | ddelete h' p =>
    simp only [PlainDoc.handleOf, Option.some.injEq] at hc; subst hc
    obtain ⟨e, he⟩ := key .arr
    exact ⟨e, by rw [call_of_done (o := .err e) (by rw [hs]; simp [Call.prepare, Call.prepareDoc, he])]⟩
  | ddeleteMany h' p n =>
    simp only [PlainDoc.handleOf, Option.some.injEq] at hc; subst hc
    obtain ⟨e, he⟩ := key .arr
    exact ⟨e, by rw [call_of_done (o := .err e) (by rw [hs]; simp [Call.prepare, Call.prepareDoc, he])]⟩
  | dupdate h' p vs =>
    simp only [PlainDoc.handleOf, Option.some.injEq] at hc; subst hc
    obtain ⟨e, he⟩ := key .arr
    exact ⟨e, by rw [call_of_done (o := .err e) (by rw [hs]; simp [Call.prepare, Call.prepareDoc, he])]⟩
  | dgetObj h' k => simp [isMutating] at hm
  | dgetArr h' p n => simp [isMutating] at hm
  | dvalue h' => simp [isMutating] at hm
  | inc x => simp [isMutating] at hm
  | mput k v => simp [isMutating] at hm
  | mremove k => simp [isMutating] at hm
  | mget k => simp [isMutating] at hm
  | msize => simp [isMutating] at hm
  | linsert p vs => simp [isMutating] at hm
  | ldelete p => simp [isMutating] at hm
  | ldeleteMany p n => simp [isMutating] at hm
  | lupdate p vs => simp [isMutating] at hm
  | lget p => simp [isMutating] at hm
  | lgetMany p n => simp [isMutating] at hm
  | lsize => simp [isMutating] at hm

theorem docInv_calls (cuid : String) (create : Bool) (cs : List Call) (hk : ∀ c ∈ cs, CallKeysND c) :
    DocInv (cs.foldl (fun r c => (r.call c).1) (Replica.new .document cuid create)) := by
  have key : ∀ (cs : List Call) (r : Replica), (∀ c ∈ cs, CallKeysND c) → DocInv r →
      DocInv (cs.foldl (fun r c => (r.call c).1) r) := by
    intro cs
    induction cs with
    | nil => intro r _ h; exact h
    | cons c cs ih =>
      intro r hk h
      exact ih _ (fun c' hc' => hk c' (List.mem_cons_of_mem _ hc')) (docInv_call r c (hk c List.mem_cons_self) h)
  exact key cs _ hk (docInv_new cuid create)

/-! ### every live node sits at a path -/

theorem locate_append {d : Doc} (σ : List PlainDoc.Seg) {p : Ts} : ∀ (π : List PlainDoc.Seg) (a : Ts),
    d.locate π a = some p → d.locate (π ++ σ) a = d.locate σ p := by
  intro π
  induction π with
  | nil => intro a h; simp only [Doc.locate, Option.some.injEq] at h; subst h; rfl
  | cons sg r ih =>
    intro a h
    cases sg with
    | key k =>
      obtain ⟨n, m, s, ch, h1, h2, h3, h4, h5⟩ := locate_key_inv h
      simp only [List.cons_append, Doc.locate, findObj_some_iff.mpr ⟨h1, h2⟩, h3, h4, Bool.false_eq_true, if_false]
      exact ih ch h5
    | idx i =>
      obtain ⟨n, sl, s, ch, h1, h2, h3, h5⟩ := locate_idx_inv h
      simp only [List.cons_append, Doc.locate, DA.findArr_some_iff.mpr ⟨h1, h2⟩, liveChildren_eq h1 h2, h3]
      exact ih ch h5

theorem has_path_aux {L : OpId} {b : Nat} {d : Doc} (I : DInv L b d) (hkeys : KeysND d) {rk : Ts → Nat}
    (hr : Ranked d rk) (hb : ∀ c, rk c ≤ d.table.length) : ∀ (f : Nat) (c : Ts) (n : DNode), d.find c = some n →
    d.table.length < f + rk c → d.isGarbage f c = false → ∃ π, d.locate π Ts.oldest = some c := by
  intro f
  induction f with
  | zero => intro c n _ h; have := hb c; omega
  | succ f ih =>
    intro c n hf hlt hg
    simp only [Doc.isGarbage, hf, Bool.or_eq_false_iff] at hg
    obtain ⟨hg1, hg2⟩ := hg
    have hlive : n.d = none := by
      cases hd : n.d with
      | none => rfl
      | some t => rw [hd] at hg1; simp at hg1
    rcases I.linked c n hf hlive with e | ⟨p, pn, h1, h2, h3⟩
    · exact ⟨[], by rw [e]; rfl⟩
    · rw [h1] at hg2
      simp only at hg2
      have hrk := hr p pn h2 c h3
      obtain ⟨π, hπ⟩ := ih p pn h2 (by omega) hg2
      have htomb : d.isTomb c = false := by simp [Doc.isTomb, hf, hlive]
      cases hk : pn.kind with
      | elem v => rw [hk] at h3; simp [kids] at h3
      | obj m s =>
        rw [hk] at h3
        obtain ⟨x, hx, hxc⟩ := List.mem_map.mp h3
        have hfind : alFind x.1 m = some c := by
          rw [← hxc]
          exact alFind_of_mem x.1 x.2 m (hkeys p pn m s h2 hk) hx
        refine ⟨π ++ [.key x.1], ?_⟩
        rw [locate_append _ π _ hπ]
        simp only [Doc.locate, findObj_some_iff.mpr ⟨h2, hk⟩, hfind, htomb, Bool.false_eq_true, if_false]
      | arr sl s =>
        rw [hk] at h3
        obtain ⟨x, hx, hxc⟩ := List.mem_map.mp h3
        have hmem : c ∈ (sl.filter (slotLive d)).map (·.2) := by
          refine List.mem_map.mpr ⟨x, List.mem_filter.mpr ⟨hx, ?_⟩, hxc⟩
          simp [slotLive, hxc, htomb]
        obtain ⟨i, hi⟩ := List.getElem?_of_mem hmem
        refine ⟨π ++ [.idx i], ?_⟩
        rw [locate_append _ π _ hπ]
        simp only [Doc.locate, DA.findArr_some_iff.mpr ⟨h2, hk⟩, liveChildren_eq h2 hk, hi]

/-- every live (non-garbage) node of the table sits at some path -/
theorem doc_live_handle_has_path (r : Replica) (d : Doc) (hs : r.state = .doc d) (h : DocInv r) (hd : Ts) (n : DNode)
    (hf : d.find hd = some n) (hg : d.garbage hd = false) : ∃ π, d.locate π Ts.oldest = some hd := by
  obtain ⟨d0, hs0, I, hkeys⟩ := h
  rw [hs] at hs0
  simp only [DState.doc.injEq] at hs0
  subst hs0
  obtain ⟨rk, hr, hb⟩ := (I.dg hkeys).rank
  exact has_path_aux I hkeys hr hb (d.table.length + 1) hd n hf (by omega) hg

/-! ## 7. non-vacuity: a nested document, a handle below an array, a call through it -/

namespace Ex

/-- a fresh document in which `{"a": [1, {"x": 5}]}` was put -/
def r : Replica :=
  ((Replica.new .document "c" true).call (.dput Ts.oldest "a" (.arr [.num 1, .obj [("x", .num 5)]]))).1

/-- the handle of the inner object `{"x": 5}` -/
def hd : Ts := ⟨0, 2, "c", 2⟩

def d : Doc := ⟨[
  ⟨Ts.oldest, none, none, .obj [("a", ⟨0, 2, "c", 0⟩)] 1⟩,
  ⟨⟨0, 2, "c", 0⟩, none, some Ts.oldest, .arr [(⟨0, 2, "c", 1⟩, ⟨0, 2, "c", 1⟩), (⟨0, 2, "c", 2⟩, ⟨0, 2, "c", 2⟩)] 2⟩,
  ⟨⟨0, 2, "c", 1⟩, none, some ⟨0, 2, "c", 0⟩, .elem (.num 1)⟩,
  ⟨⟨0, 2, "c", 2⟩, none, some ⟨0, 2, "c", 0⟩, .obj [("x", ⟨0, 2, "c", 3⟩)] 1⟩,
  ⟨⟨0, 2, "c", 3⟩, none, some ⟨0, 2, "c", 2⟩, .elem (.num 5)⟩]⟩

theorem r_state : r.state = .doc d := rfl

theorem r_inv : DocInv r :=
  docInv_call _ _ (by simp [CallKeysND, JKeysND, JKeysNDList, JKeysNDKvs]) (docInv_new "c" true)

theorem hd_located : d.locate [.key "a", .idx 1] Ts.oldest = some hd := by decide

/-- `doc_call_refines` instantiated: putting "y" through the handle of the inner object -/
example : ∃ d', (r.call (.dput hd "y" (.str "s"))).1.state = .doc d' ∧
    d'.view.canon = (PlainDoc.step d.view.canon [.key "a", .idx 1] (.dput hd "y" (.str "s"))).1 ∧
    PlainDoc.outCanon (r.call (.dput hd "y" (.str "s"))).2 =
      (PlainDoc.step d.view.canon [.key "a", .idx 1] (.dput hd "y" (.str "s"))).2 :=
  doc_call_refines r d r_state r_inv [.key "a", .idx 1] hd hd_located (.dput hd "y" (.str "s")) rfl
    (by simp [CallKeysND, JKeysND])

/-- … and what the plain tree says in this instance -/
example : PlainDoc.step d.view.canon [.key "a", .idx 1] (.dput hd "y" (.str "s")) =
    (.obj [("a", .arr [.num 1, .obj [("x", .num 5), ("y", .str "s")]])], .ok (.val none)) := by rfl

/-- the other theorems on the same instance: the located handle is not garbage, and a mutating call through the
    handle of a deleted container is refused -/
example : d.garbage hd = false ∧ (d.find hd).isSome :=
  doc_located_not_garbage r d r_state r_inv [.key "a", .idx 1] hd hd_located

end Ex

end Orda.DP
