/-
`Store.resetCollection` (PurgeCollection + CreateCollection) and the clients of the collection: their records are
purged, their later push-pulls are refused at RPC level with code 5 (the model's answer to an unknown client, as to an
unknown collection), and they can register again.  Core Lean only.

`getClient cuid` is `find?` of the FIRST record with that cuid.  After the reset (`clients.filter (·.colNum ≠ c.num)`)
the lookup finds the first SURVIVING record with the cuid, so "the first record with this cuid is in the collection" is
NOT enough (`first_record_not_enough`): the exact condition is that EVERY record with the cuid is in the collection
(`reset_purges_clients_iff`).
-/
import Orda.Proofs.ServerLog
namespace Orda.RP
open Orda

/-! ## list facts -/

theorem find?_filter_none {α : Type} (p q : α → Bool) (l : List α) :
    (l.filter q).find? p = none ↔ ∀ x ∈ l, p x = true → q x = false := by
  rw [List.find?_eq_none]
  constructor
  · intro h x hx hp
    cases hq : q x with
    | false => rfl
    | true => exact absurd hp (h x (List.mem_filter.2 ⟨hx, hq⟩))
  · intro h x hx hp
    obtain ⟨h1, h2⟩ := List.mem_filter.1 hx
    rw [h x h1 hp] at h2; cases h2

theorem find?_filter_some {α : Type} (p q : α → Bool) : ∀ (l : List α) {a : α}, l.find? p = some a → q a = true →
    (l.filter q).find? p = some a
  | [], _, h, _ => by simp at h
  | x :: xs, a, h, hq => by
    by_cases hp : p x = true
    · simp only [List.find?_cons, hp] at h
      cases h
      simp [hq, hp]
    · have hp' : p x = false := by simpa using hp
      simp only [List.find?_cons, hp'] at h
      have ih := find?_filter_some p q xs h hq
      by_cases hqx : q x = true
      · simp [hqx, hp', ih]
      · simp [hqx, ih]

/-! ## what the reset leaves alone -/

theorem reset_clients {st : Store} {name : String} {c : CollectionDoc} (h : st.getCollection name = some c) :
    (st.resetCollection name).clients = st.clients.filter (fun x => x.colNum ≠ c.num) := by
  unfold Store.resetCollection; rw [h]

/-- the collection documents stay (the purge filter matches none of them) -/
theorem reset_getCollection {st : Store} {name : String} {c : CollectionDoc} (h : st.getCollection name = some c)
    (n : String) : (st.resetCollection name).getCollection n = st.getCollection n := by
  unfold Store.resetCollection; rw [h]; rfl

/-! ## (1) the clients of the collection are purged, the others are found unchanged -/

/-- EXACTLY when every record carrying the cuid belongs to the collection, the cuid is unknown afterwards -/
theorem reset_purges_clients_iff {st : Store} {name : String} {c : CollectionDoc} (h : st.getCollection name = some c)
    (cuid : String) :
    (st.resetCollection name).getClient cuid = none ↔ ∀ x ∈ st.clients, x.cuid = cuid → x.colNum = c.num := by
  unfold Store.getClient
  rw [reset_clients h, find?_filter_none]
  constructor
  · intro hh x hx hc
    have := hh x hx (by simp [hc])
    simpa using this
  · intro hh x hx hc
    have := hh x hx (by simpa using hc)
    simp [this]

/-- every client record of the reset collection is gone: the cuid is unknown afterwards (the only hypothesis needed is
    that no record with this cuid lives in ANOTHER collection; that the client exists at all is not needed) -/
theorem reset_purges_clients {st : Store} {name : String} {c : CollectionDoc} (h : st.getCollection name = some c)
    (cuid : String) (hall : ∀ x ∈ st.clients, x.cuid = cuid → x.colNum = c.num) :
    (st.resetCollection name).getClient cuid = none :=
  (reset_purges_clients_iff h cuid).2 hall

/-- in particular under unique client ids (at most one record per cuid), a found client of the collection is purged -/
theorem reset_purges_client_unique {st : Store} {name : String} {c : CollectionDoc} (h : st.getCollection name = some c)
    {cuid : String} {cl : ClientDoc} (_hg : st.getClient cuid = some cl) (hc : cl.colNum = c.num)
    (huniq : ∀ x ∈ st.clients, x.cuid = cuid → x = cl) : (st.resetCollection name).getClient cuid = none :=
  reset_purges_clients h cuid (fun x hx hxc => by rw [huniq x hx hxc]; exact hc)

/-- clients of other collections are still found, unchanged (no uniqueness needed) -/
theorem reset_keeps_other_clients {st : Store} {name : String} {c : CollectionDoc} (h : st.getCollection name = some c)
    {cuid : String} {cl : ClientDoc} (hg : st.getClient cuid = some cl) (hc : cl.colNum ≠ c.num) :
    (st.resetCollection name).getClient cuid = some cl := by
  unfold Store.getClient at hg ⊢
  rw [reset_clients h]
  exact find?_filter_some _ _ _ hg (by simp [hc])

/-- "the FIRST record with this cuid is in the collection" is not enough: a second record of the same cuid in another
    collection surfaces after the reset -/
theorem first_record_not_enough :
    let st : Store := { collections := [⟨"one", 1⟩, ⟨"two", 2⟩],
                        clients := [⟨"u", "u", 1, 0, 0⟩, ⟨"u", "u'", 2, 0, 0⟩] }
    (st.getClient "u").map (·.colNum) = some 1 ∧
    ((st.resetCollection "one").getClient "u").map (·.colNum) = some 2 := ⟨rfl, rfl⟩

/-! ## (2) a purged client is refused -/

/-- every later push-pull of a purged client — for whatever collection name, with whatever packs — is refused at RPC
    level with code 5 (what the model answers for an unknown client, and for an unknown collection), store untouched,
    nothing published, no snapshot job -/
theorem purged_client_is_refused {st : Store} {name : String} {c : CollectionDoc} (h : st.getCollection name = some c)
    (cuid : String) (hall : ∀ x ∈ st.clients, x.cuid = cuid → x.colNum = c.num) (colName : String) (packs : List Pack) :
    (st.resetCollection name).processPushPull colName cuid packs = (st.resetCollection name, .rpcErr 5, [], []) := by
  rw [SL.processPushPull_eq]
  cases hc : (st.resetCollection name).getCollection colName with
  | none => rfl
  | some col => simp only [reset_purges_clients h cuid hall]

/-! ## (3) … and can register again -/

/-- after the reset the purged client registers (for ANY existing collection — the reset one included, its collection
    document stays): accepted, its record is appended with the collection's number, and it is found again -/
theorem purged_client_can_register_again {st : Store} {name : String} {c : CollectionDoc}
    (h : st.getCollection name = some c) (cl : ClientDoc)
    (hall : ∀ x ∈ st.clients, x.cuid = cl.cuid → x.colNum = c.num)
    {colName : String} {col : CollectionDoc} (hcol : st.getCollection colName = some col) :
    let r := (st.resetCollection name).processClient false colName cl
    r.2 = .ok () ∧
    r.1.clients = (st.resetCollection name).clients ++ [{ cl with colNum := col.num }] ∧
    r.1.getClient cl.cuid = some { cl with colNum := col.num } ∧
    r.1.collections = (st.resetCollection name).collections ∧ r.1.datatypes = (st.resetCollection name).datatypes ∧
    r.1.operations = (st.resetCollection name).operations := by
  have hnone := reset_purges_clients h cl.cuid hall
  have hcol' : (st.resetCollection name).getCollection colName = some col := by rw [reset_getCollection h]; exact hcol
  have heq : (st.resetCollection name).processClient false colName cl =
      ({ st.resetCollection name with clients := (st.resetCollection name).clients ++ [{ cl with colNum := col.num }] },
       .ok ()) := by
    unfold Store.processClient
    simp only [Bool.false_eq_true, if_false, hcol', hnone]
  intro r
  have hr : r = _ := heq
  rw [hr]
  refine ⟨rfl, rfl, ?_, rfl, rfl, rfl⟩
  unfold Store.getClient at hnone ⊢
  simp only [List.find?_append, hnone, Option.none_or]
  simp

/-- … and is served again: its push-pull is no longer refused at RPC level -/
theorem registered_again_is_served {st : Store} {name : String} {c : CollectionDoc}
    (h : st.getCollection name = some c) (cl : ClientDoc)
    (hall : ∀ x ∈ st.clients, x.cuid = cl.cuid → x.colNum = c.num)
    {colName : String} {col : CollectionDoc} (hcol : st.getCollection colName = some col) (packs : List Pack) :
    ∃ resps, (((st.resetCollection name).processClient false colName cl).1.processPushPull colName cl.cuid packs).2.1
      = .ok resps := by
  obtain ⟨_, _, h3, h4, _, _⟩ := purged_client_can_register_again h cl hall hcol
  have hcol' : ((st.resetCollection name).processClient false colName cl).1.getCollection colName = some col := by
    unfold Store.getCollection; rw [h4]
    have := reset_getCollection h colName
    unfold Store.getCollection at this
    rw [this]; exact hcol
  rw [SL.processPushPull_eq, hcol', h3]
  simp

/-! ## Non-vacuity

Two collections "one" and "two"; client "a" registered in "one", client "b" in "two"; each creates a counter with one
push-pull.  Then "one" is reset: a's record, datatype and operation are gone, b's are there; a's next push-pull is refused
with RPC error 5 (store untouched), b's is served; a registers again (this time for "two") and is served. -/
namespace Ex

def opA : Op := ⟨⟨0, 1, "a", 1⟩, .snapshot (.counter 0)⟩
def opB : Op := ⟨⟨0, 1, "b", 1⟩, .snapshot (.counter 0)⟩
def opB2 : Op := ⟨⟨0, 2, "b", 2⟩, .increase 3⟩
def createA : Pack := { key := "ka", duid := "da", create := true, cp := ⟨0, 1⟩, typ := .counter, ops := [opA] }
def createB : Pack := { key := "kb", duid := "db", create := true, cp := ⟨0, 1⟩, typ := .counter, ops := [opB] }
def pushB : Pack := { key := "kb", duid := "db", cp := ⟨1, 2⟩, typ := .counter, ops := [opB2] }
def clA : ClientDoc := ⟨"a", "alice", 0, 0, 0⟩
def clB : ClientDoc := ⟨"b", "bob", 0, 0, 0⟩

def t0 : Store := ((({} : Store).makeCollection "one").1.makeCollection "two").1
def t1 : Store := ((t0.processClient false "one" clA).1.processClient false "two" clB).1
def t2 : Store := ((t1.processPushPull "one" "a" [createA]).1.processPushPull "two" "b" [createB]).1
def t3 : Store := t2.resetCollection "one"

example : t2.getCollection "one" = some ⟨"one", 1⟩ ∧ t2.getClient "a" = some { clA with colNum := 1 } ∧
    t2.getClient "b" = some { clB with colNum := 2 } ∧ t2.datatypes.map (·.duid) = ["da", "db"] ∧
    t2.operations.map (·.op.id.cuid) = ["a", "b"] := ⟨rfl, rfl, rfl, rfl, rfl⟩

theorem hallA : ∀ x ∈ t2.clients, x.cuid = "a" → x.colNum = 1 := by
  intro x hx hc
  have : t2.clients = [{ clA with colNum := 1 }, { clB with colNum := 2 }] := rfl
  rw [this] at hx
  simp only [List.mem_cons, List.not_mem_nil, or_false] at hx
  rcases hx with rfl | rfl
  · rfl
  · exact absurd hc (by decide)

/-- (1) from the theorems: a is purged, b is kept; and by evaluation -/
example : t3.getClient "a" = none := reset_purges_clients (c := ⟨"one", 1⟩) rfl "a" hallA
example : t3.getClient "b" = some { clB with colNum := 2 } :=
  reset_keeps_other_clients (c := ⟨"one", 1⟩) rfl (cl := { clB with colNum := 2 }) rfl (by decide)
example : t3.clients.map (·.cuid) = ["b"] ∧ t3.datatypes.map (·.duid) = ["db"] ∧
    t3.operations.map (·.op.id.cuid) = ["b"] ∧ t3.collections.map (·.name) = ["one", "two"] := ⟨rfl, rfl, rfl, rfl⟩

/-- (2) a's request is refused with RPC error 5, the store untouched — from the theorem, for any collection name -/
example (colName : String) : t3.processPushPull colName "a" [createA] = (t3, .rpcErr 5, [], []) :=
  purged_client_is_refused (c := ⟨"one", 1⟩) rfl "a" hallA colName [createA]
example : (t3.processPushPull "one" "a" [createA]).2.1 = .rpcErr 5 := rfl

/-- … while b's request is still served: its operation is stored under sseq 2 -/
example : ((t3.processPushPull "two" "b" [pushB]).2.1 = .ok [{ key := "kb", duid := "db", cp := ⟨2, 2⟩, typ := .counter, ops := [] }]) ∧
    (t3.processPushPull "two" "b" [pushB]).1.operations.map (fun o => (o.duid, o.sseq)) = [("db", 1), ("db", 2)] :=
  ⟨rfl, rfl⟩

/-- (3) a registers again, for "two" — from the theorem and by evaluation — and is served -/
example : (t3.processClient false "two" clA).2 = .ok () ∧
    (t3.processClient false "two" clA).1.getClient "a" = some { clA with colNum := 2 } :=
  have h := purged_client_can_register_again (c := ⟨"one", 1⟩) (st := t2) rfl clA hallA (colName := "two") (col := ⟨"two", 2⟩) rfl
  ⟨h.1, h.2.2.1⟩
example : ((t3.processClient false "two" clA).1.processPushPull "two" "a" []).2.1 = .ok [] := rfl

end Ex

end Orda.RP
