/-
The transaction systems of the FLAT datatypes (list: `LTx`; LWW map and counter: `MTx`) WITH the creating client and its creation
snapshot operation (C09 end to end).  Namespace `Orda.FTxNetC`: `L` (lists, types of `LNet`, actions `LTx.Act`) and `M` (maps and
counters, parameterised by `typ`, types of `MNet`, actions `MTx.Act`).

THE SYSTEMS.  `FNetC.L.initC cuid n` / `FNetC.M.initC typ cuid n` (Proofs/FlatNetCreate.lean): node 0 is the CREATOR
`Replica.new typ (cuid 0) true` (buffer = [snapshot operation]), the others fresh subscribers.  `StepC` = `LTx.Step` / `MTx.Step`
(`call`, `tx`, `pushAll`, `pullAll`; ANY call, ANY transaction body) + the guard on `call` and `tx`: a subscriber (`i ≠ 0`) acts only
after it has consumed the first log entry (`0 < nd.pulled`).  `ReachC`; `actC`/`runC`/`reachC_run`: the guarded executable form.

RESULTS per system (the guard is a hypothesis only where a subscriber's step is taken or simulated):
  * `created_ltx_quiescent_converged` / `created_mtx_quiescent_converged` / `created_ctx_quiescent_converged`
    (+ the ported `c?tx_same_operations_same_…`, `…_nodes_applied…`, `…_can_quiesce`, `cmtx_reads_are_spec`, `cctx_value_is_spec`);
  * `created_ltx_failed_transaction_changes_nothing` / `created_mtx_…` (ANY node, no guard: the rollback invariant `RbInv`);
    `c?tx_failed_tx_is_noop(_net)`, `c?tx_tx_never_panics`, `c?tx_committed_tx_is_one_unit`;
  * `created_ltx_committed_transaction_all_or_nothing` / `created_mtx_…` (`…_pos`, `…_log_is_units`, `…_log_nodup`, `…_receive_ok`);
  * `created_ltx_log_starts_with_snapshot` / `created_mtx_…`;
  * `L.ltx_tx_before_first_pull_diverges`, `M.mtx_tx_before_first_pull_diverges`: without the guard convergence is false.

HOW.  Proofs/ListTxNet.lean §2–§7 and Proofs/MapTxNet.lean §2–§7 carried over TEXT FOR TEXT (generated) with the black-box
invariant of the header-free side, `LNet.Inv` / `MNet.Inv`, replaced by `FNetC.L.InvC` / `FNetC.M.InvC` (the same invariants with
the snapshot entry allowed, + `fresh`, `creator`, `log_head`).  `Abs` (erase the transaction headers) is unchanged: the snapshot
operation is not a header and stays on the header-free side, where `InvC.pull` delivers it; on the real side it is a unit of one
`RemoteSafe` operation, so `recv_sim` needs no change.  Edits: the guard through `body_sim`, `tx_cases`, `TInvC.call/tx` (`guard0`:
the first log entry is not a header, so `0 < nd.pulled` gives `0 < nd0.pulled`); one more field `TInvC.head : HeadOK` (real side:
log and creator's buffer start with the snapshot operation; a subscriber that has pulled nothing has queued nothing) kept by
`HeadOK.set` / `HeadOK.pushAll`; `tinv_initC`.
-/
import Orda.Proofs.ListTxNet
import Orda.Proofs.MapTxNet
import Orda.Proofs.FlatNetCreate
set_option linter.unusedSimpArgs false
set_option linter.unusedVariables false
namespace Orda.FTxNetC

/-! # A. lists (`Orda.LTx` with the creating client) -/
namespace L
open Orda Orda.RF Orda.LNet Orda.LTx
open Orda.FNetC.L (snapOp snapEnt initC EntOKC NodeInvC InvC)

/-! ## 1. the system: `LTx.Step` from `FNetC.L.initC` (creator + subscribers), with the guard on call / tx -/

inductive StepC : Net → Net → Prop
  | call (net : Net) (i : Nat) (nd : Node) (c : Call) (hi : net.nodes[i]? = some nd) (hg : i ≠ 0 → 0 < nd.pulled) :
      StepC net ⟨net.nodes.set i { nd with r := (nd.r.call c).1 }, net.log⟩
  | tx (net : Net) (i : Nat) (nd : Node) (tag : String) (calls : List Call) (stopOnErr failAtEnd : Bool)
      (hi : net.nodes[i]? = some nd) (hg : i ≠ 0 → 0 < nd.pulled) :
      StepC net ⟨net.nodes.set i { nd with r := (nd.r.txCalls tag calls stopOnErr failAtEnd).1 }, net.log⟩
  | pushAll (net : Net) (i : Nat) (nd : Node) (hi : net.nodes[i]? = some nd) :
      StepC net ⟨net.nodes.set i { nd with pushed := nd.r.buffer.length },
                net.log ++ (nd.r.buffer.drop nd.pushed).map (fun o => (i, o))⟩
  | pullAll (net : Net) (i : Nat) (nd : Node) (hi : net.nodes[i]? = some nd) :
      StepC net ⟨net.nodes.set i { nd with r := (nd.r.receive (pullOps net.log i nd)).1, pulled := net.log.length },
                net.log⟩

/-- reachable from the creator `Replica.new .list (cuid 0) true` and `n - 1` fresh subscribers -/
inductive ReachC (cuid : Nat → String) (n : Nat) : Net → Prop
  | init (hc : CuidsDistinct cuid n) : ReachC cuid n (initC cuid n)
  | step {net net' : Net} : ReachC cuid n net → StepC net net' → ReachC cuid n net'

theorem StepC.toStep {net net' : Net} (h : StepC net net') : LTx.Step net net' := by
  cases h with
  | call i nd c hi hg => exact .call net i nd c hi
  | tx i nd tag calls s f hi hg => exact .tx net i nd tag calls s f hi
  | pushAll i nd hi => exact .pushAll net i nd hi
  | pullAll i nd hi => exact .pullAll net i nd hi

def guardOK (net : Net) (i : Nat) : Bool :=
  match net.nodes[i]? with
  | some nd => decide (i = 0 ∨ 0 < nd.pulled)
  | none => false

/-- the executable form: `LTx.act` + the guard -/
def actC (net : Net) : LTx.Act → Option Net
  | .call i c => if guardOK net i then LTx.act net (.call i c) else none
  | .tx i tag calls s f => if guardOK net i then LTx.act net (.tx i tag calls s f) else none
  | .pushAll i => LTx.act net (.pushAll i)
  | .pullAll i => LTx.act net (.pullAll i)

def runC (net : Net) : List LTx.Act → Option Net
  | [] => some net
  | a :: as => match actC net a with
    | some net' => runC net' as
    | none => none

theorem guard_of_ok {net : Net} {i : Nat} {nd : Node} (hn : net.nodes[i]? = some nd) (h : guardOK net i = true) :
    i ≠ 0 → 0 < nd.pulled := by
  unfold guardOK at h
  rw [hn] at h
  simp only [decide_eq_true_eq] at h
  intro h0
  rcases h with h | h
  · exact absurd h h0
  · exact h

theorem stepC_of_actC {net net' : Net} {a : LTx.Act} (h : actC net a = some net') : StepC net net' := by
  cases a with
  | call i c =>
    simp only [actC] at h
    by_cases hgd : guardOK net i = true
    · rw [if_pos hgd] at h
      simp only [LTx.act] at h
      cases hn : net.nodes[i]? with
      | none => rw [hn] at h; cases h
      | some nd =>
        rw [hn] at h
        simp only [Option.some.injEq] at h
        subst h
        exact .call net i nd c hn (guard_of_ok hn hgd)
    · rw [if_neg hgd] at h; cases h
  | tx i tag calls s f =>
    simp only [actC] at h
    by_cases hgd : guardOK net i = true
    · rw [if_pos hgd] at h
      simp only [LTx.act] at h
      cases hn : net.nodes[i]? with
      | none => rw [hn] at h; cases h
      | some nd =>
        rw [hn] at h
        simp only [Option.some.injEq] at h
        subst h
        exact .tx net i nd tag calls s f hn (guard_of_ok hn hgd)
    · rw [if_neg hgd] at h; cases h
  | pushAll i =>
    simp only [actC, LTx.act] at h
    cases hn : net.nodes[i]? with
    | none => rw [hn] at h; cases h
    | some nd =>
      rw [hn] at h
      simp only [Option.some.injEq] at h
      subst h
      exact .pushAll net i nd hn
  | pullAll i =>
    simp only [actC, LTx.act] at h
    cases hn : net.nodes[i]? with
    | none => rw [hn] at h; cases h
    | some nd =>
      rw [hn] at h
      simp only [Option.some.injEq] at h
      subst h
      exact .pullAll net i nd hn

theorem reachC_run {cuid : Nat → String} {n : Nat} : ∀ (as : List LTx.Act) {net net' : Net}, ReachC cuid n net →
    runC net as = some net' → ReachC cuid n net'
  | [], _, _, hr, h => by
    simp only [runC, Option.some.injEq] at h
    exact h ▸ hr
  | a :: as, net, net', hr, h => by
    simp only [runC] at h
    cases ha : actC net a with
    | none => rw [ha] at h; cases h
    | some net1 =>
      rw [ha] at h
      exact reachC_run as (.step hr (stepC_of_actC ha)) h

/-! ## 2–7. Proofs/ListTxNet.lean §2–§7 over `FNetC.L.InvC` (Proofs/FlatNetCreate.lean) -/

/-! ## 2. the invariant of `ListNet` under clock bumps, node replacement, many pushes, many pulls -/

/-- `ListNet`'s node invariant only reads state, buffer and clock of the replica, and the clock only from below -/
theorem nodeInv_noop {cuid : Nat → String} {n : Nat} {log : List LEnt} {i : Nat} {nd : Node} {A : List LEnt}
    (N : NodeInvC cuid n log i nd A) {r' : Replica} (h : Noop nd.r r') : NodeInvC cuid n log i { nd with r := r' } A := by
  obtain ⟨h1, h2, h3, h4, h5⟩ := h
  exact {
    fresh := N.fresh
    creator := by intro h0; show r'.buffer.head? = _; rw [h2]; exact N.creator h0
    st := by show r'.state = _; rw [h1]; exact N.st
    lc := N.lc
    pushed_le := by show nd.pushed ≤ r'.buffer.length; rw [h2]; exact N.pushed_le
    pulled_le := N.pulled_le
    own_eq := by show own i A = r'.buffer.map _; rw [h2]; exact N.own_eq
    oth_eq := N.oth_eq
    log_own := by show own i log = (r'.buffer.take nd.pushed).map _; rw [h2]; exact N.log_own
    clock_cuid := by show r'.opId.cuid = _; rw [h3]; exact N.clock_cuid
    clock_era := by show r'.opId.era = _; rw [h4]; exact N.clock_era
    lam_le := by
      intro e he
      show _ ≤ r'.opId.lamport
      exact Nat.le_trans (N.lam_le e he) h5
    ent_ok := N.ent_ok
    buf_sorted := by show r'.buffer.Pairwise _; rw [h2]; exact N.buf_sorted
    keys := N.keys
    causal := N.causal }

theorem inv_replace {cuid : Nat → String} {n : Nat} {net : Net} {ap : Nat → List LEnt} (I : InvC cuid n net ap)
    {i : Nat} {nd nd' : Node} {A' : List LEnt} (hi : net.nodes[i]? = some nd)
    (N' : NodeInvC cuid n net.log i nd' A') :
    InvC cuid n ⟨net.nodes.set i nd', net.log⟩ (Function.update ap i A') := by
  refine ⟨I.distinct, by simp [I.len], ?_, I.log_auth, I.log_keys, I.log_head⟩
  intro j nd'' hj
  rcases getElem?_set_some hj with ⟨rfl, rfl⟩ | ⟨hne, hj'⟩
  · rw [Function.update_self]; exact N'
  · rw [Function.update_of_ne hne]; exact I.node j nd'' hj'

theorem inv_noop {cuid : Nat → String} {n : Nat} {net : Net} {ap : Nat → List LEnt} (I : InvC cuid n net ap)
    {i : Nat} {nd : Node} {r' : Replica} (hi : net.nodes[i]? = some nd) (h : Noop nd.r r') :
    ∃ ap', InvC cuid n ⟨net.nodes.set i { nd with r := r' }, net.log⟩ ap' :=
  ⟨_, inv_replace I hi (nodeInv_noop (I.node i nd hi) h)⟩

theorem set_self {α : Type} {l : List α} {i : Nat} {a : α} (h : l[i]? = some a) : l.set i a = l := by
  apply List.ext_getElem?
  intro j
  rw [List.getElem?_set]
  by_cases hij : i = j
  · subst hij
    obtain ⟨hlt, _⟩ := List.getElem?_eq_some_iff.mp h
    rw [if_pos rfl, if_pos hlt, h]
  · simp [hij]

theorem getElem?_set_self' {α : Type} {l : List α} {i : Nat} {a b : α} (h : l[i]? = some a) :
    (l.set i b)[i]? = some b := by
  obtain ⟨hlt, _⟩ := List.getElem?_eq_some_iff.mp h
  simp [hlt]

/-- what one pull of `ListNet` does to the replica of node `i` -/
def pullF (i : Nat) (r : Replica) (e : LEnt) : Replica := if e.1 = i then r else (r.execRemoteBase e.2).1

/-- MANY pulls of `ListNet` in a row -/
theorem inv_pulls {cuid : Nat → String} {n : Nat} {i : Nat} : ∀ (es : List LEnt) (net : Net) (ap : Nat → List LEnt)
    (nd : Node), InvC cuid n net ap → net.nodes[i]? = some nd →
    (∀ k (hk : k < es.length), net.log[nd.pulled + k]? = some es[k]) →
    ∃ ap', InvC cuid n ⟨net.nodes.set i { nd with r := es.foldl (pullF i) nd.r, pulled := nd.pulled + es.length },
      net.log⟩ ap'
  | [], net, ap, nd, I, hi, _ => by
    refine ⟨ap, ?_⟩
    have : ({ nd with r := ([] : List LEnt).foldl (pullF i) nd.r, pulled := nd.pulled + ([] : List LEnt).length } : Node)
        = nd := rfl
    rw [this, set_self hi]
    exact I
  | e :: es, net, ap, nd, I, hi, hl => by
    obtain ⟨a, o⟩ := e
    have h0 : net.log[nd.pulled]? = some (a, o) := by
      have := hl 0 (Nat.succ_pos _)
      rw [Nat.add_zero] at this
      exact this
    obtain ⟨ap1, I1⟩ := I.pull hi h0
    have hi1 : ∀ nd1 : Node, (net.nodes.set i nd1)[i]? = some nd1 := fun nd1 => getElem?_set_self' hi
    obtain ⟨ap2, I2⟩ := inv_pulls es _ ap1 _ I1 (hi1 _) (by
      intro k hk
      have := hl (k + 1) (by simp; omega)
      simp only [List.getElem_cons_succ] at this
      rw [← this]
      show net.log[nd.pulled + 1 + k]? = net.log[nd.pulled + (k + 1)]?
      rw [Nat.add_assoc, Nat.add_comm 1 k])
    refine ⟨ap2, ?_⟩
    simp only [List.set_set] at I2
    have e1 : nd.pulled + 1 + es.length = nd.pulled + ((a, o) :: es).length := by simp; omega
    rw [e1] at I2
    exact I2

/-- MANY pushes of `ListNet` in a row: the whole rest of the buffer -/
theorem inv_pushes {cuid : Nat → String} {n : Nat} {i : Nat} {ap : Nat → List LEnt} : ∀ (k : Nat) (net : Net)
    (nd : Node), InvC cuid n net ap → net.nodes[i]? = some nd → nd.pushed + k = nd.r.buffer.length →
    InvC cuid n ⟨net.nodes.set i { nd with pushed := nd.r.buffer.length },
      net.log ++ (nd.r.buffer.drop nd.pushed).map (fun o => (i, o))⟩ ap
  | 0, net, nd, I, hi, hk => by
    have e1 : ({ nd with pushed := nd.r.buffer.length } : Node) = nd := by
      have : nd.pushed = nd.r.buffer.length := by omega
      cases nd
      simp only at this
      subst this
      rfl
    have e2 : nd.r.buffer.drop nd.pushed = [] := List.drop_eq_nil_of_le (by omega)
    rw [e1, e2, set_self hi]
    simpa using I
  | k + 1, net, nd, I, hi, hk => by
    have hp : nd.pushed < nd.r.buffer.length := by omega
    have ho : nd.r.buffer[nd.pushed]? = some nd.r.buffer[nd.pushed] := List.getElem?_eq_getElem hp
    have I1 := I.push hi ho
    have hi1 : ∀ nd1 : Node, (net.nodes.set i nd1)[i]? = some nd1 := fun nd1 => getElem?_set_self' hi
    have I2 := inv_pushes k _ _ I1 (hi1 _) (by show nd.pushed + 1 + k = nd.r.buffer.length; omega)
    rw [List.set_set] at I2
    have e : nd.r.buffer.drop nd.pushed = nd.r.buffer[nd.pushed] :: nd.r.buffer.drop (nd.pushed + 1) :=
      (List.drop_eq_getElem_cons hp)
    rw [e, List.map_cons, List.append_cons]
    exact I2


/-! ## 3. erasing the headers: the abstraction to a state of `ListNet` -/

/-- not a header -/
def nh (o : Op) : Bool := !isHdr o
def eraseB (b : List Op) : List Op := b.filter nh
def eraseL (l : List LEnt) : List LEnt := l.filter (fun e => nh e.2)

theorem eraseB_append (a b : List Op) : eraseB (a ++ b) = eraseB a ++ eraseB b := by simp [eraseB]
theorem eraseL_append (a b : List LEnt) : eraseL (a ++ b) = eraseL a ++ eraseL b := by simp [eraseL]

theorem eraseL_map (i : Nat) (b : List Op) :
    eraseL (b.map (fun o => ((i, o) : LEnt))) = (eraseB b).map (fun o => (i, o)) := by
  induction b with
  | nil => rfl
  | cons o os ih =>
    simp only [List.map_cons, eraseL, eraseB, List.filter_cons] at ih ⊢
    split <;> simp [ih]

theorem filter_drop_len {α : Type} (p : α → Bool) (l : List α) (k : Nat) :
    (l.filter p).drop ((l.take k).filter p).length = (l.drop k).filter p := by
  have h : l.filter p = (l.take k).filter p ++ (l.drop k).filter p := by
    rw [← List.filter_append, List.take_append_drop]
  rw [h, List.drop_left]

theorem filter_take_len {α : Type} (p : α → Bool) (l : List α) (k : Nat) :
    (l.filter p).take ((l.take k).filter p).length = (l.take k).filter p := by
  have h : l.filter p = (l.take k).filter p ++ (l.drop k).filter p := by
    rw [← List.filter_append, List.take_append_drop]
  rw [h, List.take_left]

theorem eraseB_all {b : List Op} (h : ∀ o ∈ b, isHdr o = false) : eraseB b = b := by
  unfold eraseB
  rw [List.filter_eq_self]
  intro o ho
  simp [nh, h o ho]

theorem toL_hdr {o : Op} (h : isHdr o = true) : toL o = none := by
  unfold isHdr at h
  unfold toL
  split at h
  · rename_i tag k hb; rw [hb]
  · cases h

theorem filterMap_toL_eraseB (b : List Op) : (eraseB b).filterMap toL = b.filterMap toL := by
  induction b with
  | nil => rfl
  | cons o os ih =>
    unfold eraseB at ih ⊢
    rw [List.filter_cons]
    cases h : isHdr o
    · simp only [nh, h, Bool.not_false, if_true, List.filterMap_cons, ih]
    · simp only [nh, h, Bool.not_true, Bool.false_eq_true, if_false, List.filterMap_cons, toL_hdr h, ih]

theorem oth_eraseL (i : Nat) (l : List LEnt) : oth i (eraseL l) = eraseL (oth i l) := by
  unfold oth eraseL
  rw [List.filter_filter, List.filter_filter]
  congr 1
  funext e
  exact Bool.and_comm _ _

theorem eraseL_snd (l : List LEnt) : (eraseL l).map (·.2) = eraseB (l.map (·.2)) := by
  induction l with
  | nil => rfl
  | cons e es ih =>
    simp only [eraseL, eraseB, List.filter_cons, List.map_cons] at ih ⊢
    split <;> simp [ih]

/-- node `nd0` of `ListNet` is node `nd` of this system with the headers erased -/
structure AbsNode (log : List LEnt) (nd nd0 : Node) : Prop where
  st : nd0.r.state = nd.r.state
  id : nd0.r.opId = nd.r.opId
  buf : nd0.r.buffer = eraseB nd.r.buffer
  pushed : nd0.pushed = (eraseB (nd.r.buffer.take nd.pushed)).length
  pulled : nd0.pulled = (eraseL (log.take nd.pulled)).length

/-- `net0` is `net` with the headers erased from log and buffers -/
structure Abs (net net0 : Net) : Prop where
  log : net0.log = eraseL net.log
  len : net0.nodes.length = net.nodes.length
  node : ∀ (i : Nat) (nd : Node), net.nodes[i]? = some nd → ∃ nd0, net0.nodes[i]? = some nd0 ∧ AbsNode net.log nd nd0

theorem abs_set {net net0 : Net} (h : Abs net net0) {i : Nat} {nd' nd0' : Node} (hn : AbsNode net.log nd' nd0') :
    Abs ⟨net.nodes.set i nd', net.log⟩ ⟨net0.nodes.set i nd0', net0.log⟩ := by
  refine ⟨h.log, by simp [h.len], ?_⟩
  intro j nd hj
  rcases getElem?_set_some hj with ⟨rfl, rfl⟩ | ⟨hne, hj'⟩
  · have hlt : j < net.nodes.length := by
      have := (List.getElem?_eq_some_iff.mp hj).1
      simpa using this
    refine ⟨nd0', ?_, hn⟩
    show (net0.nodes.set j nd0')[j]? = some nd0'
    rw [List.getElem?_set_self (by rw [h.len]; exact hlt)]
  · obtain ⟨nd0, h1, h2⟩ := h.node j nd hj'
    refine ⟨nd0, ?_, h2⟩
    show (net0.nodes.set i nd0')[j]? = some nd0
    rw [List.getElem?_set_ne (fun e => hne e.symm)]
    exact h1

/-! ### units -/

/-- a concatenation of units -/
def UnitsB (l : List Op) : Prop := ∃ us : List (List Op), l = us.flatten ∧ ∀ u ∈ us, IsUnit u
def UnitsL (l : List LEnt) : Prop := ∃ units : List (Nat × List Op), l = flatU units ∧ ∀ au ∈ units, IsUnit au.2

theorem unitsB_nil : UnitsB [] := ⟨[], rfl, by simp⟩
theorem unitsL_nil : UnitsL [] := ⟨[], rfl, by simp⟩

theorem unitsB_snoc {l u : List Op} (h : UnitsB l) (hu : IsUnit u) : UnitsB (l ++ u) := by
  obtain ⟨us, rfl, h2⟩ := h
  refine ⟨us ++ [u], by simp, ?_⟩
  intro v hv
  rcases List.mem_append.mp hv with h | h
  · exact h2 v h
  · simp only [List.mem_singleton] at h
    exact h ▸ hu

theorem flatU_append (a b : List (Nat × List Op)) : flatU (a ++ b) = flatU a ++ flatU b := by
  simp [flatU]

theorem flatU_cons (au : Nat × List Op) (b : List (Nat × List Op)) :
    flatU (au :: b) = au.2.map (fun o => (au.1, o)) ++ flatU b := by
  simp [flatU]

theorem unitsL_append {a b : List LEnt} (ha : UnitsL a) (hb : UnitsL b) : UnitsL (a ++ b) := by
  obtain ⟨ua, rfl, h1⟩ := ha
  obtain ⟨ub, rfl, h2⟩ := hb
  refine ⟨ua ++ ub, (flatU_append _ _).symm, ?_⟩
  intro v hv
  rcases List.mem_append.mp hv with h | h
  · exact h1 v h
  · exact h2 v h

theorem flatU_map_author (i : Nat) (us : List (List Op)) :
    flatU (us.map (fun u => (i, u))) = us.flatten.map (fun o => ((i, o) : LEnt)) := by
  induction us with
  | nil => rfl
  | cons u us ih => rw [List.flatten_cons, List.map_append, List.map_cons, flatU_cons, ih]

theorem unitsL_of_B (i : Nat) {l : List Op} (h : UnitsB l) : UnitsL (l.map (fun o => ((i, o) : LEnt))) := by
  obtain ⟨us, rfl, h2⟩ := h
  refine ⟨us.map (fun u => (i, u)), (flatU_map_author i us).symm, ?_⟩
  · intro au hau
    obtain ⟨u, hu, rfl⟩ := List.mem_map.mp hau
    exact h2 u hu


/-! ## 4. calls and transaction bodies only read state and clock -/

theorem call_frame_view (r f : Replica) (c : Call) :
    ((r.frame f).call c).1.state = (r.call c).1.state ∧ ((r.frame f).call c).1.opId = (r.call c).1.opId ∧
    ∃ new, ((r.frame f).call c).1.buffer = f.buffer ++ new ∧ (r.call c).1.buffer = r.buffer ++ new := by
  rw [call_eq, call_eq]
  simp only [frame_state, execLocalBase_frame]
  cases c.prepare r.state with
  | done o => exact ⟨rfl, rfl, [], by simp, by simp⟩
  | op b post =>
    dsimp only
    rcases he : r.execLocalBase b with ⟨r1, (⟨op, ret⟩ | e | w)⟩ <;> dsimp only
    · obtain ⟨_, _, hf⟩ := execLocalBase_ok he
      obtain ⟨_, f2, _⟩ := frame_fields hf
      exact ⟨rfl, rfl, [op.wire], by simp, by simp [f2]⟩
    · rw [execLocalBase_err he]; exact ⟨rfl, rfl, [], by simp, by simp⟩
    · rw [execLocalBase_panic he]; exact ⟨rfl, rfl, [], by simp, by simp⟩

/-- two replicas with the same state and clock react to a call in the same way -/
theorem call_view (r r0 : Replica) (c : Call) (hs : r0.state = r.state) (hid : r0.opId = r.opId) :
    (r0.call c).1.state = (r.call c).1.state ∧ (r0.call c).1.opId = (r.call c).1.opId ∧
    ∃ new, (r0.call c).1.buffer = r0.buffer ++ new ∧ (r.call c).1.buffer = r.buffer ++ new := by
  have e : r.frame r0 = r0 := frame_of_core hid.symm hs.symm
  have := call_frame_view r r0 c
  rw [e] at this
  exact this

theorem execLocalBase_no_panic {r : Replica} {l : Rga} (hs : r.state = .list l) (hsz : l.size = liveCount l.nodes)
    {c : Call} {b : OpBody} {post : Ret → Ret} (hp : c.prepare r.state = .op b post) {r' : Replica} {w : String}
    (he : r.execLocalBase b = (r', .panic w)) : False := by
  rw [execLocalBase_eq] at he
  rw [hs] at hp he
  split at he
  · simp at he
  · have := execLocal_prepared_no_panic hsz hp r.opId.next.ts
    split at he
    · simp at he
    · simp at he
    · rename_i w' hw
      exact this w' hw

/-- a public call on a list whose stored Size is its number of live elements never panics -/
theorem call_no_panic (r : Replica) (l : Rga) (hs : r.state = .list l) (hsz : l.size = liveCount l.nodes) (c : Call) :
    (r.call c).2.isPanic = false := by
  rw [call_eq]
  cases hp : c.prepare r.state with
  | done o =>
    rw [hs] at hp
    exact prepare_list_done hp
  | op b post =>
    dsimp only
    rcases he : r.execLocalBase b with ⟨r1, (⟨op, ret⟩ | e | w)⟩ <;> dsimp only
    · rfl
    · rfl
    · exact (execLocalBase_no_panic hs hsz hp he).elim

theorem isHdr_false_of {o : Op} (h : ∀ tag k, o.body ≠ .transaction tag k) : isHdr o = false := by
  unfold isHdr
  split
  · rename_i tag k hb; exact absurd hb (h tag k)
  · rfl

/-- an operation node `i` queues: not a header, safe to execute remotely, carries the client identifier of `i` -/
structure GoodOp (cuid : Nat → String) (i : Nat) (o : Op) : Prop where
  nh : isHdr o = false
  safe : RemoteSafe o.body
  cu : o.id.cuid = cuid i

/-- what a call queues, from `ListNet`'s case analysis -/
theorem call_new_good {cuid : Nat → String} {n : Nat} {log : List LEnt} {i : Nat} {nd : Node} {A : List LEnt}
    (N : NodeInvC cuid n log i nd A) (c : Call) {new : List Op} (hb : (nd.r.call c).1.buffer = nd.r.buffer ++ new) :
    nd.r.opId.lamport ≤ (nd.r.call c).1.opId.lamport ∧
    (new = [] ∨ ∃ o, new = [o] ∧ GoodOp cuid i o ∧ o.id.lamport = nd.r.opId.lamport + 1 ∧
      (nd.r.call c).1.opId.lamport = nd.r.opId.lamport + 1) := by
  rcases call_cases nd.r _ N.st c with ⟨h1, h2, h3, h4, h5⟩ | ⟨o, l', hbuf, hid, hop, hst, hloc⟩
  · refine ⟨h5, Or.inl ?_⟩
    rw [h2] at hb
    have := congrArg List.length hb
    simp only [List.length_append] at this
    exact List.eq_nil_of_length_eq_zero (by omega)
  · rw [hbuf] at hb
    have hn : new = [o] := (List.append_cancel_left hb).symm
    obtain ⟨s1, s2, s3⟩ := localOp_safe hloc
    refine ⟨by rw [hop]; simp [OpId.next], Or.inr ⟨o, hn, ⟨isHdr_false_of s3, s1, ?_⟩, by rw [hid]; rfl, by rw [hop]; rfl⟩⟩
    rw [hid]
    exact N.clock_cuid

theorem call_of_exec_ok {r ar : Replica} (hs : ar.state = r.state) (hid : ar.opId = r.opId) {c : Call} {b : OpBody}
    {post : Ret → Ret} (hp : c.prepare r.state = .op b post) {r' : Replica} {op : Op} {ret : Ret}
    (he : r.execLocalBase b = (r', .ok (op, ret))) :
    (ar.call c).1.state = r'.state ∧ (ar.call c).1.opId = r'.opId ∧ (ar.call c).1.buffer = ar.buffer ++ [op.wire] := by
  have e : r.frame ar = ar := frame_of_core hid.symm hs.symm
  rw [← e, call_eq]
  simp [hp, execLocalBase_frame, he]

/-- **the body of a transaction, seen from `ListNet`**: an abstract replica `ar` (same state and clock, the buffer
    of `ListNet`) that issues the successful operations as plain calls stays in `ListNet`'s node invariant; the body never
    panics; the operations it records are good and newer than the clock at the start -/
theorem body_sim {cuid : Nat → String} {n : Nat} {log0 : List LEnt} {i pu pl : Nat} (hin : i < n)
    (hgd : i ≠ 0 → 0 < pl) (stop : Bool) :
    ∀ (calls : List Call) (r : Replica) (acc : List Op) (outs : List (Outcome Ret)) (ar : Replica) (A : List LEnt),
    ar.state = r.state → ar.opId = r.opId → NodeInvC cuid n log0 i ⟨ar, pu, pl⟩ A →
    ∀ {r1 ops outs' stopped pan}, Replica.txCalls.body stop r acc outs calls = (r1, ops, outs', stopped, pan) →
    pan = none ∧ ∃ ar1 A1 new, ops = acc ++ new ∧ ar1.state = r1.state ∧ ar1.opId = r1.opId ∧
      ar1.buffer = ar.buffer ++ new.map Op.wire ∧ NodeInvC cuid n log0 i ⟨ar1, pu, pl⟩ A1 ∧
      (∀ o ∈ new, GoodOp cuid i o.wire ∧ ar.opId.lamport < o.id.lamport) ∧
      ar.opId.lamport ≤ ar1.opId.lamport := by
  intro calls
  induction calls with
  | nil =>
    intro r acc outs ar A hs hid N r1 ops outs' stopped pan h
    simp only [Replica.txCalls.body, Prod.mk.injEq] at h
    obtain ⟨h1, h2, _, _, h5⟩ := h
    subst h1 h2 h5
    exact ⟨rfl, ar, A, [], by simp, hs, hid, by simp, N, by simp, Nat.le_refl _⟩
  | cons c cs ih =>
    intro r acc outs ar A hs hid N r1 ops outs' stopped pan h
    have stay : ∀ {r1' ops' outs'' stopped' pan'}, (r1', ops', outs'', stopped', pan') = (r1, ops, outs', stopped, pan) →
        r1' = r → ops' = acc → pan' = none →
        pan = none ∧ ∃ ar1 A1 new, ops = acc ++ new ∧ ar1.state = r1.state ∧ ar1.opId = r1.opId ∧
          ar1.buffer = ar.buffer ++ new.map Op.wire ∧ NodeInvC cuid n log0 i ⟨ar1, pu, pl⟩ A1 ∧
          (∀ o ∈ new, GoodOp cuid i o.wire ∧ ar.opId.lamport < o.id.lamport) ∧
          ar.opId.lamport ≤ ar1.opId.lamport := by
      intro r1' ops' outs'' stopped' pan' e e1 e2 e3
      simp only [Prod.mk.injEq] at e
      obtain ⟨h1, h2, _, _, h5⟩ := e
      subst e1 e2 e3 h1 h2
      exact ⟨h5.symm, ar, A, [], by simp, hs, hid, by simp, N, by simp, Nat.le_refl _⟩
    have hsl : r.state = .list _ := hs ▸ N.st
    have hsz := size_eq_liveCount _ N.lc
    rw [Replica.txCalls.body] at h
    split at h
    · exact ih _ _ _ _ _ hs hid N h
    · split at h
      · exact stay h rfl rfl rfl
      · exact ih _ _ _ _ _ hs hid N h
    · rename_i w hprep
      rw [hsl] at hprep
      have := prepare_list_done hprep
      simp [Outcome.isPanic] at this
    · rename_i b post hprep
      rcases he : r.execLocalBase b with ⟨r', (⟨op, ret⟩ | e | w)⟩ <;> rw [he] at h <;> simp only [] at h
      · obtain ⟨c1, c2, c3⟩ := call_of_exec_ok hs hid hprep he
        obtain ⟨A', N'⟩ := N.call hin c hgd
        obtain ⟨hmono, hnew⟩ := call_new_good N c (new := [op.wire]) c3
        have hgood : GoodOp cuid i op.wire ∧ op.wire.id.lamport = ar.opId.lamport + 1 ∧
            (ar.call c).1.opId.lamport = ar.opId.lamport + 1 := by
          rcases hnew with h0 | ⟨o, h0, g, g1, g2⟩
          · cases h0
          · simp only [List.cons.injEq, and_true] at h0
            subst h0
            exact ⟨g, g1, g2⟩
        obtain ⟨hp, ar1, A1, new, e1, e2, e3, e4, N1, e5, e6⟩ := ih r' (acc ++ [op]) _ (ar.call c).1 A' c1 c2 N' h
        refine ⟨hp, ar1, A1, op :: new, by simp [e1], e2, e3, by simp [e4, c3], N1, ?_, ?_⟩
        · intro o ho
          rcases List.mem_cons.mp ho with rfl | ho
          · exact ⟨hgood.1, by have := hgood.2.1; rw [wire_id] at this; omega⟩
          · obtain ⟨g1, g2⟩ := e5 o ho
            exact ⟨g1, by have := hgood.2.2; omega⟩
        · have := hgood.2.2; omega
      · have := execLocalBase_err he
        subst this
        split at h
        · exact stay h rfl rfl rfl
        · exact ih _ _ _ _ _ hs hid N h
      · exact (execLocalBase_no_panic hsl hsz hprep he).elim


/-! ## 5. `receive` of a sequence of units, seen from `ListNet` -/

/-- `S` (a replica of `ListNet`) is `R` (the replica of this system) up to a clock that is not ahead -/
structure Le (S R : Replica) : Prop where
  st : S.state = R.state
  cu : S.opId.cuid = R.opId.cuid
  era : S.opId.era = R.opId.era
  lam : S.opId.lamport ≤ R.opId.lamport

/-- remote execution, replica only -/
def exS (r : Replica) (o : Op) : Replica := (r.execRemoteBase o).1

theorem sync_mono {a b : OpId} (k : Nat) (h : a.lamport ≤ b.lamport) :
    (a.syncLamport k).lamport ≤ (b.syncLamport k).lamport := by
  unfold OpId.syncLamport
  split <;> split <;> simp <;> omega

theorem exS_state (r : Replica) (o : Op) :
    (exS r o).state = (match execRemote r.state o.id.ts o.body with | .ok s' => s' | _ => r.state) := by
  unfold exS Replica.execRemoteBase
  split <;> simp_all

theorem le_exec {S R : Replica} (h : Le S R) (o : Op) (x : List Op) :
    Le (exS S o) { exS R o with rbOps := x } := by
  refine ⟨?_, ?_, ?_, ?_⟩
  · show (exS S o).state = (exS R o).state
    rw [exS_state, exS_state, h.st]
  · show (exS S o).opId.cuid = (exS R o).opId.cuid
    unfold exS
    rw [execRemoteBase_opId, execRemoteBase_opId, sync_cuid, sync_cuid]; exact h.cu
  · show (exS S o).opId.era = (exS R o).opId.era
    unfold exS
    rw [execRemoteBase_opId, execRemoteBase_opId, sync_era, sync_era]; exact h.era
  · show (exS S o).opId.lamport ≤ (exS R o).opId.lamport
    unfold exS
    rw [execRemoteBase_opId, execRemoteBase_opId]; exact sync_mono _ h.lam

theorem execRemote_hdr (l : Rga) (ts : Ts) {o : Op} (ho : isHdr o = true) :
    execRemote (.list l) ts o.body = .ok (.list l) := by
  unfold isHdr at ho
  split at ho
  · rename_i tag k hb; rw [hb]; rfl
  · cases ho

theorem le_hdr {S R : Replica} (h : Le S R) {l : Rga} (hs : R.state = .list l) {o : Op} (ho : isHdr o = true)
    (x : List Op) : Le S { exS R o with rbOps := x } := by
  refine ⟨?_, ?_, ?_, ?_⟩
  · show S.state = (exS R o).state
    rw [exS_state, hs, execRemote_hdr l _ ho, h.st, hs]
  · show S.opId.cuid = (exS R o).opId.cuid
    unfold exS
    rw [execRemoteBase_opId, sync_cuid]; exact h.cu
  · show S.opId.era = (exS R o).opId.era
    unfold exS
    rw [execRemoteBase_opId, sync_era]; exact h.era
  · show S.opId.lamport ≤ (exS R o).opId.lamport
    unfold exS
    rw [execRemoteBase_opId]; exact Nat.le_trans h.lam (sync_lam _ _).1

theorem hdr_safe {o : Op} (ho : isHdr o = true) : RemoteSafe o.body := by
  unfold isHdr at ho
  split at ho
  · rename_i tag k hb
    rw [hb]
    exact ⟨fun _ _ e => (by cases e), fun _ _ _ e => (by cases e)⟩
  · cases ho

/-- the operations of a unit are executed one after the other, none panics -/
theorem go_sim : ∀ (ops : List Op) (S R : Replica) (l : Rga), Le S R → R.state = .list l →
    (∀ o ∈ ops, RemoteSafe o.body) →
    ∃ R' l', Replica.applyUnit.go R ops = (R', .ok ()) ∧ Le (ops.foldl exS S) R' ∧ R'.state = .list l'
  | [], S, R, l, h, hs, _ => ⟨R, l, by unfold Replica.applyUnit.go; rfl, h, hs⟩
  | o :: os, S, R, l, h, hs, hsafe => by
    obtain ⟨h1, l1, h2⟩ := execRemoteBase_safe R l hs o (hsafe o List.mem_cons_self)
    rw [applyUnit_go_cons]
    have e : R.execRemoteBase o = (exS R o, none) := by
      unfold exS
      rw [← h1]
    rw [e]
    simp only []
    exact go_sim os (exS S o) _ l1 (le_exec h o _) h2 (fun o' ho' => hsafe o' (List.mem_cons_of_mem _ ho'))

theorem go_single_hdr {S R : Replica} {l : Rga} (h : Le S R) (hs : R.state = .list l) {o : Op}
    (ho : isHdr o = true) :
    ∃ R' l', Replica.applyUnit.go R [o] = (R', .ok ()) ∧ Le S R' ∧ R'.state = .list l' := by
  obtain ⟨h1, l1, h2⟩ := execRemoteBase_safe R l hs o (hdr_safe ho)
  have e : R.execRemoteBase o = (exS R o, none) := by
    unfold exS
    rw [← h1]
  refine ⟨{ exS R o with rbOps := (exS R o).rbOps ++ [o] }, l1, ?_, le_hdr h hs ho _, h2⟩
  rw [applyUnit_go_cons, e]
  simp only []
  unfold Replica.applyUnit.go
  rfl

theorem applyUnit_single (r : Replica) (o : Op) : r.applyUnit [o] = Replica.applyUnit.go r [o] := rfl

theorem applyUnit_hdr (r : Replica) (id : OpId) (tag : String) (o : Op) (ops : List Op) :
    r.applyUnit (⟨id, .transaction tag (((o :: ops).length : Int) + 1)⟩ :: o :: ops) =
      Replica.applyUnit.go r (o :: ops) := by
  simp only [Replica.applyUnit]
  rw [if_neg (by simp)]

/-- **one unit**: applied completely, never refused, never a panic; on the `ListNet` side: its plain operations -/
theorem unit_sim {u : List Op} (hu : IsUnit u) (hsafe : ∀ o ∈ u, RemoteSafe o.body) {S R : Replica} {l : Rga}
    (h : Le S R) (hs : R.state = .list l) :
    ∃ R' l', R.applyUnit u = (R', .ok ()) ∧ Le ((eraseB u).foldl exS S) R' ∧ R'.state = .list l' := by
  rcases hu with ⟨o, rfl, ho⟩ | ⟨id, tag, ops, rfl, hops⟩
  · rw [applyUnit_single, eraseB_all (by simpa using ho)]
    exact go_sim [o] S R l h hs hsafe
  · cases ops with
    | nil =>
      rw [applyUnit_single]
      have hh : isHdr (⟨id, .transaction tag ((([] : List Op).length : Int) + 1)⟩ : Op) = true := rfl
      have : eraseB [(⟨id, .transaction tag ((([] : List Op).length : Int) + 1)⟩ : Op)] = [] := rfl
      rw [this]
      exact go_single_hdr h hs hh
    | cons o ops =>
      rw [applyUnit_hdr]
      have : eraseB ((⟨id, .transaction tag (((o :: ops).length : Int) + 1)⟩ : Op) :: o :: ops) = o :: ops := by
        have hh : isHdr (⟨id, .transaction tag (((o :: ops).length : Int) + 1)⟩ : Op) = true := rfl
        show List.filter nh _ = _
        rw [List.filter_cons]
        simp only [nh, hh, Bool.not_true, Bool.false_eq_true, if_false]
        exact eraseB_all hops
      rw [this]
      exact go_sim (o :: ops) S R l h hs (fun o' ho' => hsafe o' (List.mem_cons_of_mem _ ho'))

/-- the first operation of a unit announces the unit's length correctly -/
theorem unit_head {u : List Op} (hu : IsUnit u) :
    ∃ o tl, u = o :: tl ∧ o.unitLen = u.length ∧ ∀ k, u.length ≤ k → o.badHeader k = false := by
  rcases hu with ⟨o, rfl, ho⟩ | ⟨id, tag, ops, rfl, hops⟩
  · refine ⟨o, [], rfl, ?_, ?_⟩
    · unfold isHdr at ho
      unfold Op.unitLen
      split
      · rename_i tag k hb; rw [hb] at ho; cases ho
      · rfl
    · intro k _
      unfold isHdr at ho
      unfold Op.badHeader
      split
      · rename_i tag k hb; rw [hb] at ho; cases ho
      · rfl
  · refine ⟨_, ops, rfl, ?_, ?_⟩
    · simp [Op.unitLen]
    · intro k hk
      simp only [List.length_cons] at hk
      simp [Op.badHeader]
      omega

theorem oth_map_self (i : Nat) (u : List Op) : oth i (u.map (fun o => ((i, o) : LEnt))) = [] := by
  simp [oth]

theorem oth_map_ne {i a : Nat} (h : a ≠ i) (u : List Op) :
    oth i (u.map (fun o => ((a, o) : LEnt))) = u.map (fun o => (a, o)) := by
  unfold oth
  rw [List.filter_eq_self]
  intro e he
  obtain ⟨o, _, rfl⟩ := List.mem_map.mp he
  simp [h]

theorem foldl_pullF_own (i : Nat) : ∀ (b : List Op) (S : Replica),
    (b.map (fun o => ((i, o) : LEnt))).foldl (pullF i) S = S
  | [], S => rfl
  | o :: os, S => by
    simp only [List.map_cons, List.foldl_cons, pullF, if_true]
    exact foldl_pullF_own i os S

theorem foldl_pullF_other {i a : Nat} (h : a ≠ i) : ∀ (b : List Op) (S : Replica),
    (b.map (fun o => ((a, o) : LEnt))).foldl (pullF i) S = b.foldl exS S
  | [], S => rfl
  | o :: os, S => by
    simp only [List.map_cons, List.foldl_cons, pullF, if_neg h]
    exact foldl_pullF_other h os _

/-- **`receive` of the foreign units of a stretch of the log**: every unit is applied, the result is `.ok ()`; on the
    `ListNet` side the plain entries of the stretch are pulled one by one (own entries skipped) -/
theorem recv_sim (i : Nat) : ∀ (units : List (Nat × List Op)),
    (∀ au ∈ units, IsUnit au.2 ∧ ∀ o ∈ au.2, RemoteSafe o.body) →
    ∀ (fuel : Nat) (S R : Replica) (l : Rga), Le S R → R.state = .list l →
    ((oth i (flatU units)).map (·.2)).length ≤ fuel →
    ∃ R' l', Replica.receive.go fuel R ((oth i (flatU units)).map (·.2)) = (R', .ok ()) ∧
      Le ((eraseL (flatU units)).foldl (pullF i) S) R' ∧ R'.state = .list l'
  | [], _, fuel, S, R, l, h, hs, _ => ⟨R, l, by simp [flatU, oth, receive_go_nil], h, hs⟩
  | (a, u) :: units, hall, fuel, S, R, l, h, hs, hf => by
    have hall' : ∀ au ∈ units, IsUnit au.2 ∧ ∀ o ∈ au.2, RemoteSafe o.body :=
      fun au hau => hall au (List.mem_cons_of_mem _ hau)
    obtain ⟨hu, hsafe⟩ := hall (a, u) List.mem_cons_self
    simp only at hu hsafe
    rw [flatU_cons, oth_append, eraseL_append, List.foldl_append, eraseL_map] at *
    by_cases ha : a = i
    · subst ha
      simp only [oth_map_self, List.nil_append, foldl_pullF_own] at hf ⊢
      exact recv_sim a units hall' fuel S R l h hs hf
    · simp only [oth_map_ne ha, foldl_pullF_other ha, List.map_append, List.map_map] at hf ⊢
      have em : (u.map ((fun e : LEnt => e.2) ∘ fun o => ((a, o) : LEnt))) = u := by
        simp [Function.comp_def]
      rw [em] at hf ⊢
      obtain ⟨o, tl, rfl, hlen, hbad⟩ := unit_head hu
      cases fuel with
      | zero => simp at hf
      | succ fuel =>
        rw [List.cons_append, receive_go_succ, ← List.cons_append]
        rw [hbad _ (by simp)]
        simp only [Bool.false_eq_true, if_false, hlen, List.take_left', List.drop_left']
        obtain ⟨R1, l1, g1, g2, g3⟩ := unit_sim hu hsafe h hs
        rw [g1]
        simp only []
        exact recv_sim i units hall' fuel _ R1 l1 g2 g3 (by simp at hf ⊢; omega)

theorem foldl_pullF_buffer (i : Nat) : ∀ (es : List LEnt) (S : Replica), (es.foldl (pullF i) S).buffer = S.buffer
  | [], S => rfl
  | e :: es, S => by
    rw [List.foldl_cons, foldl_pullF_buffer i es]
    unfold pullF
    split
    · rfl
    · exact execRemoteBase_buffer _ _


/-! ## 6. the invariant of the system -/

/-- the real (header-carrying) side: the snapshot operation heads the creator's buffer and the log; a subscriber that has
    pulled nothing has queued nothing (the guard) -/
structure HeadOK (cuid : Nat → String) (net : Net) : Prop where
  log_head : ∀ e, net.log[0]? = some e → e = snapEnt cuid
  creator : ∀ nd, net.nodes[0]? = some nd → nd.r.buffer.head? = some (snapOp cuid)
  fresh : ∀ i nd, net.nodes[i]? = some nd → i ≠ 0 → nd.pulled = 0 → nd.r.buffer = []

/-- the guard on the real side gives the guard on the header-free side: the first log entry is not a header -/
theorem guard0 {cuid : Nat → String} {net : Net} (H : HeadOK cuid net) {nd nd0 : Node} (An : AbsNode net.log nd nd0)
    (hg : 0 < nd.pulled) (hle : nd.pulled ≤ net.log.length) : 0 < nd0.pulled := by
  rw [An.pulled]
  cases hlog : net.log with
  | nil => rw [hlog] at hle; simp at hle; omega
  | cons e t =>
    have he := H.log_head e (by rw [hlog]; rfl)
    subst he
    obtain ⟨p, hp⟩ : ∃ p, nd.pulled = p + 1 := ⟨nd.pulled - 1, by omega⟩
    rw [hp, List.take_succ_cons]
    have : nh (snapEnt cuid).2 = true := rfl
    simp only [eraseL, List.filter_cons, this, if_true, List.length_cons]
    omega

namespace HeadOK
variable {cuid : Nat → String} {net : Net}

/-- node `i` appends to its buffer (after its first pull if it is a subscriber) or keeps it; `pulled` does not decrease -/
theorem set (H : HeadOK cuid net) {i : Nat} {nd nd' : Node} (hi : net.nodes[i]? = some nd)
    (hb : ∃ u, nd'.r.buffer = nd.r.buffer ++ u) (hp : nd.pulled ≤ nd'.pulled)
    (hg : (i ≠ 0 → 0 < nd.pulled) ∨ nd'.r.buffer = nd.r.buffer) :
    HeadOK cuid ⟨net.nodes.set i nd', net.log⟩ := by
  refine ⟨H.log_head, ?_, ?_⟩
  · intro nd0 h0
    rcases getElem?_set_some h0 with ⟨h1, rfl⟩ | ⟨hne, h0'⟩
    · subst h1
      obtain ⟨u, hu⟩ := hb
      rw [hu]
      have hc := H.creator nd hi
      cases hbb : nd.r.buffer with
      | nil => rw [hbb] at hc; cases hc
      | cons b0 bt => rw [hbb] at hc; simpa using hc
    · exact H.creator nd0 h0'
  · intro j ndj hj hj0 hpj
    rcases getElem?_set_some hj with ⟨h1, rfl⟩ | ⟨hne, hj'⟩
    · subst h1
      have hp0 : nd.pulled = 0 := by omega
      rcases hg with hg | hg
      · have := hg hj0; omega
      · rw [hg]; exact H.fresh j nd hi hj0 hp0
    · exact H.fresh j ndj hj' hj0 hpj

theorem pushAll (H : HeadOK cuid net) {i : Nat} {nd : Node} (hi : net.nodes[i]? = some nd)
    (hpl : nd.pulled ≤ net.log.length) (hown : own i net.log = (nd.r.buffer.take nd.pushed).map (fun o => (i, o))) :
    HeadOK cuid ⟨net.nodes.set i { nd with pushed := nd.r.buffer.length },
      net.log ++ (nd.r.buffer.drop nd.pushed).map (fun o => (i, o))⟩ := by
  refine ⟨?_, ?_, ?_⟩
  · intro e he
    have he' : (net.log ++ (nd.r.buffer.drop nd.pushed).map (fun o => ((i, o) : LEnt)))[0]? = some e := he
    cases hlog : net.log with
    | cons e0 t =>
      rw [hlog] at he'
      simp only [List.cons_append, List.getElem?_cons_zero, Option.some.injEq] at he'
      subst he'
      exact H.log_head e0 (by rw [hlog]; rfl)
    | nil =>
      rw [hlog, List.nil_append] at he'
      have hpl0 : nd.pulled = 0 := by rw [hlog] at hpl; simpa using hpl
      by_cases h0 : i = 0
      · subst h0
        have hc := H.creator nd hi
        have h2 : (nd.r.buffer.take nd.pushed).length = 0 := by
          have := congrArg List.length hown
          rw [hlog] at this
          simpa [own] using this.symm
        cases hb : nd.r.buffer with
        | nil => rw [hb] at hc; cases hc
        | cons b0 bt =>
          rw [hb] at hc h2
          simp only [List.head?_cons, Option.some.injEq] at hc
          have h3 : nd.pushed = 0 := by
            rw [List.length_take] at h2
            simp only [List.length_cons] at h2
            omega
          rw [hb, h3] at he'
          simp only [List.drop_zero, List.map_cons, List.getElem?_cons_zero, Option.some.injEq] at he'
          rw [← he', hc]; rfl
      · have := H.fresh i nd hi h0 hpl0
        rw [this] at he'
        simp at he'
  · intro nd0 h0
    rcases getElem?_set_some h0 with ⟨h1, rfl⟩ | ⟨hne, h0'⟩
    · subst h1; exact H.creator nd hi
    · exact H.creator nd0 h0'
  · intro j ndj hj hj0 hpj
    rcases getElem?_set_some hj with ⟨h1, rfl⟩ | ⟨hne, hj'⟩
    · subst h1; exact H.fresh j nd hi hj0 hpj
    · exact H.fresh j ndj hj' hj0 hpj

end HeadOK

/-- what is known about a node beyond its `ListNet` image -/
structure NodeOK (cuid : Nat → String) (log : List LEnt) (i : Nat) (nd : Node) : Prop where
  rb : nd.r.RbInv
  pushed_le : nd.pushed ≤ nd.r.buffer.length
  pulled_le : nd.pulled ≤ log.length
  /-- the unpushed rest of the buffer is a concatenation of units -/
  rest_units : UnitsB (nd.r.buffer.drop nd.pushed)
  /-- `pulled` sits at a unit boundary: the unconsumed rest of the log is a concatenation of units -/
  pull_units : UnitsL (log.drop nd.pulled)
  buf_ok : ∀ o ∈ nd.r.buffer, o.id.cuid = cuid i ∧ RemoteSafe o.body
  log_own : own i log = (nd.r.buffer.take nd.pushed).map (fun o => (i, o))
  buf_sorted : nd.r.buffer.Pairwise (fun o o' => o.id.lamport < o'.id.lamport)
  buf_lam : ∀ o ∈ nd.r.buffer, o.id.lamport ≤ nd.r.opId.lamport

structure TInvC (cuid : Nat → String) (n : Nat) (net : Net) : Prop where
  /-- erasing the headers gives a state that satisfies `ListNet`'s invariant -/
  sim : ∃ net0 ap, InvC cuid n net0 ap ∧ Abs net net0
  node : ∀ (i : Nat) (nd : Node), net.nodes[i]? = some nd → NodeOK cuid net.log i nd
  /-- ONE decomposition of the log into units, and every `pulled` sits at one of ITS boundaries -/
  log_units : ∃ units : List (Nat × List Op), net.log = flatU units ∧ (∀ au ∈ units, IsUnit au.2) ∧
    ∀ (i : Nat) (nd : Node), net.nodes[i]? = some nd → ∃ k, nd.pulled = (flatU (units.take k)).length
  log_ok : ∀ e ∈ net.log, e.1 < n ∧ e.2.id.cuid = cuid e.1 ∧ RemoteSafe e.2.body
  /-- headers included: no two entries of the log carry the same (lamport, client) -/
  log_keys : net.log.Pairwise (fun e e' => lkey e ≠ lkey e')
  /-- the snapshot operation heads the creator's buffer and the log; a subscriber that has pulled nothing has queued nothing -/
  head : HeadOK cuid net

theorem AbsNode.extend {log : List LEnt} {nd nd0 : Node} (An : AbsNode log nd nd0)
    (hp : nd.pushed ≤ nd.r.buffer.length) {r' r0' : Replica} {u : List Op}
    (hs : r0'.state = r'.state) (hid : r0'.opId = r'.opId) (hb : r'.buffer = nd.r.buffer ++ u)
    (hb0 : r0'.buffer = nd0.r.buffer ++ eraseB u) :
    AbsNode log { nd with r := r' } { nd0 with r := r0' } where
  st := hs
  id := hid
  buf := by
    show r0'.buffer = eraseB r'.buffer
    rw [hb0, hb, eraseB_append, An.buf]
  pushed := by
    show nd0.pushed = (eraseB (r'.buffer.take nd.pushed)).length
    rw [hb, List.take_append_of_le_length hp]
    exact An.pushed
  pulled := An.pulled

theorem NodeOK.extend {cuid : Nat → String} {log : List LEnt} {i : Nat} {nd : Node} (K : NodeOK cuid log i nd)
    {r' : Replica} {u : List Op} (hb : r'.buffer = nd.r.buffer ++ u) (hu : u = [] ∨ IsUnit u) (hrb : r'.RbInv)
    (hgood : ∀ o ∈ u, o.id.cuid = cuid i ∧ RemoteSafe o.body ∧ nd.r.opId.lamport < o.id.lamport ∧
      o.id.lamport ≤ r'.opId.lamport)
    (hsorted : u.Pairwise (fun o o' => o.id.lamport < o'.id.lamport))
    (hmono : nd.r.opId.lamport ≤ r'.opId.lamport) : NodeOK cuid log i { nd with r := r' } where
  rb := hrb
  pushed_le := by
    show nd.pushed ≤ r'.buffer.length
    rw [hb, List.length_append]
    exact Nat.le_trans K.pushed_le (Nat.le_add_right _ _)
  pulled_le := K.pulled_le
  rest_units := by
    show UnitsB (r'.buffer.drop nd.pushed)
    rw [hb, List.drop_append_of_le_length K.pushed_le]
    rcases hu with rfl | hu
    · simpa using K.rest_units
    · exact unitsB_snoc K.rest_units hu
  pull_units := K.pull_units
  buf_ok := by
    intro o ho
    change o ∈ r'.buffer at ho
    rw [hb] at ho
    rcases List.mem_append.mp ho with h | h
    · exact K.buf_ok o h
    · exact ⟨(hgood o h).1, (hgood o h).2.1⟩
  log_own := by
    show own i log = (r'.buffer.take nd.pushed).map _
    rw [hb, List.take_append_of_le_length K.pushed_le]
    exact K.log_own
  buf_sorted := by
    show r'.buffer.Pairwise _
    rw [hb]
    refine List.pairwise_append.mpr ⟨K.buf_sorted, hsorted, ?_⟩
    intro a ha b hb'
    have := K.buf_lam a ha
    have := (hgood b hb').2.2.1
    omega
  buf_lam := by
    intro o ho
    change o ∈ r'.buffer at ho
    show _ ≤ r'.opId.lamport
    rw [hb] at ho
    rcases List.mem_append.mp ho with h | h
    · exact Nat.le_trans (K.buf_lam o h) hmono
    · exact (hgood o h).2.2.2

namespace TInvC
variable {cuid : Nat → String} {n : Nat} {net : Net}

theorem at_node (T : TInvC cuid n net) {i : Nat} {nd : Node} (hi : net.nodes[i]? = some nd) :
    ∃ net0 ap nd0, InvC cuid n net0 ap ∧ Abs net net0 ∧ net0.nodes[i]? = some nd0 ∧ AbsNode net.log nd nd0 ∧ i < n := by
  obtain ⟨net0, ap, I, Ab⟩ := T.sim
  obtain ⟨nd0, h0, An⟩ := Ab.node i nd hi
  exact ⟨net0, ap, nd0, I, Ab, h0, An, I.lt_of_node h0⟩

theorem set_node (T : TInvC cuid n net) {i : Nat} {nd nd' : Node} {net0' : Net} {ap' : Nat → List LEnt}
    (hi : net.nodes[i]? = some nd) (hpl : nd'.pulled = nd.pulled ∨ nd'.pulled = net.log.length)
    (I : InvC cuid n net0' ap') (A : Abs ⟨net.nodes.set i nd', net.log⟩ net0') (K : NodeOK cuid net.log i nd')
    (H : HeadOK cuid ⟨net.nodes.set i nd', net.log⟩) :
    TInvC cuid n ⟨net.nodes.set i nd', net.log⟩ where
  sim := ⟨net0', ap', I, A⟩
  node := by
    intro j nd hj
    rcases getElem?_set_some hj with ⟨rfl, rfl⟩ | ⟨hne, hj'⟩
    · exact K
    · exact T.node j nd hj'
  log_units := by
    obtain ⟨units, h1, h2, h3⟩ := T.log_units
    refine ⟨units, h1, h2, ?_⟩
    intro j ndj hj
    rcases getElem?_set_some hj with ⟨rfl, rfl⟩ | ⟨hne, hj'⟩
    · rcases hpl with h | h
      · obtain ⟨k, hk⟩ := h3 j nd hi
        exact ⟨k, h.trans hk⟩
      · exact ⟨units.length, by rw [h, List.take_length, ← h1]⟩
    · exact h3 j ndj hj'
  log_ok := T.log_ok
  log_keys := T.log_keys
  head := H

end TInvC

theorem net_eta (net : Net) : (⟨net.nodes, net.log⟩ : Net) = net := rfl

/-! ### the steps -/

namespace TInvC
variable {cuid : Nat → String} {n : Nat} {net : Net}

/-- a public call -/
theorem call (T : TInvC cuid n net) {i : Nat} {nd : Node} (hi : net.nodes[i]? = some nd) (c : Call)
    (hg : i ≠ 0 → 0 < nd.pulled) :
    TInvC cuid n ⟨net.nodes.set i { nd with r := (nd.r.call c).1 }, net.log⟩ := by
  obtain ⟨net0, ap, nd0, I, Ab, h0, An, hin⟩ := T.at_node hi
  have N0 := I.node i nd0 h0
  have K := T.node i nd hi
  obtain ⟨v1, v2, new, v3, v4⟩ := call_view nd.r nd0.r c An.st An.id
  obtain ⟨hmono, hnew⟩ := call_new_good N0 c v3
  obtain ⟨ap', I'⟩ := I.call c h0 (fun h' => guard0 T.head An (hg h') K.pulled_le)
  have hsl : nd.r.state = .list _ := An.st ▸ N0.st
  have hnp := call_no_panic nd.r _ hsl (size_eq_liveCount _ N0.lc) c
  have hnh : ∀ o ∈ new, isHdr o = false := by
    intro o ho
    rcases hnew with rfl | ⟨o', rfl, g, _⟩
    · cases ho
    · simp only [List.mem_singleton] at ho; subst ho; exact g.nh
  refine T.set_node hi (Or.inl rfl) I' (abs_set Ab ?_) ?_ (T.head.set hi ⟨_, v4⟩ (Nat.le_refl _) (Or.inl hg))
  · exact An.extend K.pushed_le v1 v2 v4 (by rw [v3, eraseB_all hnh])
  · refine K.extend v4 ?_ (rbInv_call nd.r c K.rb hnp) ?_ ?_ ?_
    · rcases hnew with rfl | ⟨o', rfl, g, _⟩
      · exact Or.inl rfl
      · exact Or.inr (Or.inl ⟨o', rfl, g.nh⟩)
    · intro o ho
      rcases hnew with rfl | ⟨o', rfl, g, g1, g2⟩
      · cases ho
      · simp only [List.mem_singleton] at ho
        subst ho
        rw [← v2, ← An.id]
        exact ⟨g.cu, g.safe, by omega, by omega⟩
    · rcases hnew with rfl | ⟨o', rfl, _⟩
      · exact List.Pairwise.nil
      · exact List.pairwise_singleton _ _
    · rw [← v2, ← An.id]; exact hmono

end TInvC


theorem wire_hdr (id : OpId) (tag : String) (k : Int) :
    Op.wire ⟨id, .transaction tag k⟩ = ⟨id, .transaction tag k⟩ := rfl

/-- what a transaction does to a replica of a reachable node (`nd0`, `N0`: its `ListNet` image): either NOTHING
    (state, clock, buffer, checkpoint as before: the body failed and the rollback restored everything) or ONE unit
    `header :: ops` is appended; it never panics -/
theorem tx_cases {cuid : Nat → String} {n : Nat} {log0 : List LEnt} {i : Nat} {nd0 : Node} {A : List LEnt}
    (N0 : NodeInvC cuid n log0 i nd0 A) (hin : i < n) (hgd : i ≠ 0 → 0 < nd0.pulled) (r : Replica)
    (hs : nd0.r.state = r.state)
    (hid : nd0.r.opId = r.opId) (hrb : r.RbInv) (tag : String) (calls : List Call) (s f : Bool) :
    let r' := (r.txCalls tag calls s f).1
    r'.RbInv ∧
    ((∃ c, (r.txCalls tag calls s f).2.2 = .err c ∧ r'.opId = r.opId ∧ r'.state = r.state ∧ r'.buffer = r.buffer ∧
        r'.cp = r.cp) ∨
     ((r.txCalls tag calls s f).2.2 = .ok () ∧
      ∃ (ops : List Op) (ar1 : Replica) (A1 : List LEnt),
        r'.buffer = r.buffer ++ (⟨r.opId.next, .transaction tag ((ops.length : Int) + 1)⟩ :: ops) ∧
        ar1.state = r'.state ∧ ar1.opId = r'.opId ∧ ar1.buffer = nd0.r.buffer ++ ops ∧
        NodeInvC cuid n log0 i ⟨ar1, nd0.pushed, nd0.pulled⟩ A1 ∧
        (∀ o ∈ ops, GoodOp cuid i o ∧ r.opId.lamport + 1 < o.id.lamport) ∧
        r.opId.lamport + 1 ≤ r'.opId.lamport)) := by
  intro r'
  have Nb : NodeInvC cuid n log0 i ⟨{ nd0.r with opId := nd0.r.opId.next }, nd0.pushed, nd0.pulled⟩ A :=
    nodeInv_noop N0 (r' := { nd0.r with opId := nd0.r.opId.next }) ⟨rfl, rfl, rfl, rfl, by simp [OpId.next]⟩
  obtain ⟨r1, ops, outs, stopped, pan, hb, hc⟩ := txCalls_cases r tag calls s f
  obtain ⟨hpan, ar1, A1, new, e1, e2, e3, e4, N1, e5, e6⟩ :=
    body_sim hin hgd s calls { r with opId := r.opId.next } [] [] { nd0.r with opId := nd0.r.opId.next } A hs
      (by show nd0.r.opId.next = r.opId.next; rw [hid]) Nb hb
  subst hpan
  simp only [List.nil_append] at e1
  subst e1
  have hbo := body_ok _ _ _ _ _ hb
  have hf : r1.frame r = r1 := hbo.frame
  rcases hc with ⟨w, hw, _⟩ | ⟨_, hst, e⟩ | ⟨_, hst, e⟩
  · cases hw
  · obtain ⟨r2, hr, g1, g2, g3, g4, g5, g6, g7⟩ := rollback_of_rbInv hrb hf
    rw [hr] at e
    simp only at e
    have er : r' = r2 := by show (r.txCalls tag calls s f).1 = r2; rw [e]
    rw [er]
    refine ⟨rbInv_of_rb_eq (by rw [g5, g1]) (by rw [g6, g2]) g7, Or.inl ⟨Err.transaction, by rw [e], g1, g2, g3, g4⟩⟩
  · have hp : (r.txCalls tag calls s f).2.2.isPanic = false := by rw [e]; rfl
    have hrb' := rbInv_txCalls r tag calls s f hrb hp
    obtain ⟨_, f2, _⟩ := frame_fields hf
    have er : r' =
        { r1 with
          rbOps := r1.rbOps ++ (⟨r.opId.next, .transaction tag (ops.length + 1)⟩ :: ops),
          buffer := r1.buffer ++ (⟨r.opId.next, .transaction tag (ops.length + 1)⟩ :: ops).map Op.wire } := by
      show (r.txCalls tag calls s f).1 = _; rw [e]
    refine ⟨hrb', Or.inr ⟨by rw [e], ops.map Op.wire, ar1, A1, ?_, ?_, ?_, e4, N1, ?_, ?_⟩⟩
    · rw [er]
      show r1.buffer ++ _ = _
      rw [f2, List.map_cons, wire_hdr, List.length_map]
    · rw [er]; exact e2
    · rw [er]; exact e3
    · intro o ho
      obtain ⟨o', ho', rfl⟩ := List.mem_map.mp ho
      obtain ⟨g1, g2⟩ := e5 o' ho'
      refine ⟨g1, ?_⟩
      rw [wire_id]
      have : ({ nd0.r with opId := nd0.r.opId.next } : Replica).opId.lamport = r.opId.lamport + 1 := by
        show nd0.r.opId.next.lamport = _; rw [hid]; rfl
      omega
    · rw [er]
      show r.opId.lamport + 1 ≤ r1.opId.lamport
      rw [← e3]
      have : ({ nd0.r with opId := nd0.r.opId.next } : Replica).opId.lamport = r.opId.lamport + 1 := by
        show nd0.r.opId.next.lamport = _; rw [hid]; rfl
      omega

namespace TInvC
variable {cuid : Nat → String} {n : Nat} {net : Net}

/-- a user transaction -/
theorem tx (T : TInvC cuid n net) {i : Nat} {nd : Node} (hi : net.nodes[i]? = some nd) (tag : String)
    (calls : List Call) (s f : Bool) (hg : i ≠ 0 → 0 < nd.pulled) :
    TInvC cuid n ⟨net.nodes.set i { nd with r := (nd.r.txCalls tag calls s f).1 }, net.log⟩ := by
  obtain ⟨net0, ap, nd0, I, Ab, h0, An, hin⟩ := T.at_node hi
  have N0 := I.node i nd0 h0
  have K := T.node i nd hi
  obtain ⟨hrb', hc⟩ := tx_cases N0 hin (fun h' => guard0 T.head An (hg h') K.pulled_le) nd.r An.st An.id K.rb tag calls s f
  rcases hc with ⟨c, _, g1, g2, g3, _⟩ | ⟨_, ops, ar1, A1, hb, e2, e3, e4, N1, e5, e6⟩
  · -- nothing happened
    have I' : InvC cuid n ⟨net0.nodes.set i nd0, net0.log⟩ ap := by rw [set_self h0]; exact I
    refine T.set_node hi (Or.inl rfl) I' (abs_set Ab ?_) ?_ (T.head.set hi ⟨[], by show (nd.r.txCalls tag calls s f).1.buffer = _; rw [g3]; simp⟩ (Nat.le_refl _) (Or.inr g3))
    · have := An.extend (u := []) K.pushed_le (r' := (nd.r.txCalls tag calls s f).1) (r0' := nd0.r)
        (An.st.trans g2.symm) (An.id.trans g1.symm) (by rw [g3]; simp) (by simp [eraseB])
      exact this
    · exact K.extend (u := []) (by rw [g3]; simp) (Or.inl rfl) hrb' (by simp) List.Pairwise.nil (Nat.le_of_eq (by rw [g1]))
  · -- one unit
    have I' := inv_replace I h0 N1
    have hnh : ∀ o ∈ ops, isHdr o = false := fun o ho => (e5 o ho).1.nh
    have hcu : nd.r.opId.cuid = cuid i := by rw [← An.id]; exact N0.clock_cuid
    refine T.set_node hi (Or.inl rfl) I' (abs_set Ab ?_) ?_ (T.head.set hi ⟨_, hb⟩ (Nat.le_refl _) (Or.inl hg))
    · refine An.extend (r0' := ar1) K.pushed_le e2 e3 hb ?_
      rw [e4]
      congr 1
      show _ = List.filter nh _
      rw [List.filter_cons]
      have hh : isHdr (⟨nd.r.opId.next, .transaction tag ((ops.length : Int) + 1)⟩ : Op) = true := rfl
      simp only [nh, hh, Bool.not_true, Bool.false_eq_true, if_false]
      exact (eraseB_all hnh).symm
    · have hlam : ∀ o ∈ ops, o.id.lamport ≤ (nd.r.txCalls tag calls s f).1.opId.lamport := by
        intro o ho
        rw [← e3]
        exact N1.buf_lam (show o ∈ ar1.buffer by rw [e4]; exact List.mem_append_right _ ho)
      refine K.extend hb (Or.inr (Or.inr ⟨_, _, ops, rfl, hnh⟩)) hrb' ?_ ?_ (by omega)
      · intro o ho
        rcases List.mem_cons.mp ho with rfl | ho
        · exact ⟨hcu, hdr_safe rfl, by simp [OpId.next], by simp only [OpId.next]; omega⟩
        · exact ⟨(e5 o ho).1.cu, (e5 o ho).1.safe, by have := (e5 o ho).2; omega, hlam o ho⟩
      · refine List.pairwise_cons.mpr ⟨?_, ?_⟩
        · intro o ho
          have := (e5 o ho).2
          simp only [OpId.next]
          omega
        · have := N1.buf_sorted
          change ar1.buffer.Pairwise _ at this
          rw [e4] at this
          exact (List.pairwise_append.mp this).2.1

end TInvC


theorem own_map_self (i : Nat) (u : List Op) :
    own i (u.map (fun o => ((i, o) : LEnt))) = u.map (fun o => (i, o)) := by
  unfold own
  rw [List.filter_eq_self]
  intro e he
  obtain ⟨o, _, rfl⟩ := List.mem_map.mp he
  simp

theorem own_map_ne {i a : Nat} (h : a ≠ i) (u : List Op) : own i (u.map (fun o => ((a, o) : LEnt))) = [] := by
  unfold own
  rw [List.filter_eq_nil_iff]
  intro e he
  obtain ⟨o, _, rfl⟩ := List.mem_map.mp he
  simp [h]

theorem NodeOK.log_append {cuid : Nat → String} {log : List LEnt} {j : Nat} {nd : Node} (K : NodeOK cuid log j nd)
    {i : Nat} (hne : j ≠ i) {x : List Op} (hx : UnitsB x) :
    NodeOK cuid (log ++ x.map (fun o => ((i, o) : LEnt))) j nd where
  rb := K.rb
  pushed_le := K.pushed_le
  pulled_le := by rw [List.length_append]; exact Nat.le_trans K.pulled_le (Nat.le_add_right _ _)
  rest_units := K.rest_units
  pull_units := by
    rw [List.drop_append_of_le_length K.pulled_le]
    exact unitsL_append K.pull_units (unitsL_of_B i hx)
  buf_ok := K.buf_ok
  log_own := by rw [own_append, own_map_ne (fun e => hne e.symm), List.append_nil]; exact K.log_own
  buf_sorted := K.buf_sorted
  buf_lam := K.buf_lam

theorem AbsNode.log_append {log : List LEnt} {nd nd0 : Node} (An : AbsNode log nd nd0) (hp : nd.pulled ≤ log.length)
    (x : List LEnt) : AbsNode (log ++ x) nd nd0 where
  st := An.st
  id := An.id
  buf := An.buf
  pushed := An.pushed
  pulled := by rw [List.take_append_of_le_length hp]; exact An.pulled

namespace TInvC
variable {cuid : Nat → String} {n : Nat} {net : Net}

/-- the whole unpushed rest of the buffer goes to the log -/
theorem pushAll (T : TInvC cuid n net) {i : Nat} {nd : Node} (hi : net.nodes[i]? = some nd) :
    TInvC cuid n ⟨net.nodes.set i { nd with pushed := nd.r.buffer.length },
      net.log ++ (nd.r.buffer.drop nd.pushed).map (fun o => (i, o))⟩ := by
  obtain ⟨net0, ap, nd0, I, Ab, h0, An, hin⟩ := T.at_node hi
  have N0 := I.node i nd0 h0
  have K := T.node i nd hi
  have I' := inv_pushes (nd0.r.buffer.length - nd0.pushed) net0 nd0 I h0 (by have := N0.pushed_le; omega)
  have hdrop : eraseB (nd.r.buffer.drop nd.pushed) = nd0.r.buffer.drop nd0.pushed := by
    rw [An.buf, An.pushed]
    exact (filter_drop_len nh nd.r.buffer nd.pushed).symm
  refine ⟨⟨_, ap, I', ?_⟩, ?_, ?_, ?_, ?_, T.head.pushAll hi K.pulled_le K.log_own⟩
  · refine ⟨?_, by simp [Ab.len], ?_⟩
    · show net0.log ++ _ = eraseL (net.log ++ _)
      rw [eraseL_append, eraseL_map, Ab.log, hdrop]
    · intro j ndj hj
      rcases getElem?_set_some hj with ⟨rfl, rfl⟩ | ⟨hne, hj'⟩
      · refine ⟨{ nd0 with pushed := nd0.r.buffer.length }, getElem?_set_self' h0, ?_⟩
        have A1 := An.log_append K.pulled_le ((nd.r.buffer.drop nd.pushed).map (fun o => ((j, o) : LEnt)))
        exact {
          st := A1.st
          id := A1.id
          buf := A1.buf
          pushed := by
            show nd0.r.buffer.length = (eraseB (nd.r.buffer.take nd.r.buffer.length)).length
            rw [List.take_length, An.buf]
          pulled := A1.pulled }
      · obtain ⟨ndj0, g1, g2⟩ := Ab.node j ndj hj'
        refine ⟨ndj0, ?_, g2.log_append (T.node j ndj hj').pulled_le _⟩
        show (net0.nodes.set i _)[j]? = some ndj0
        rw [List.getElem?_set_ne (fun e => hne e.symm)]
        exact g1
  · intro j ndj hj
    rcases getElem?_set_some hj with ⟨rfl, rfl⟩ | ⟨hne, hj'⟩
    · exact {
        rb := K.rb
        pushed_le := Nat.le_refl _
        pulled_le := by
          show nd.pulled ≤ (net.log ++ _).length
          rw [List.length_append]; exact Nat.le_trans K.pulled_le (Nat.le_add_right _ _)
        rest_units := by
          show UnitsB (nd.r.buffer.drop nd.r.buffer.length)
          rw [List.drop_length]; exact unitsB_nil
        pull_units := by
          show UnitsL ((net.log ++ _).drop nd.pulled)
          rw [List.drop_append_of_le_length K.pulled_le]
          exact unitsL_append K.pull_units (unitsL_of_B j K.rest_units)
        buf_ok := K.buf_ok
        log_own := by
          show own j (net.log ++ _) = (nd.r.buffer.take nd.r.buffer.length).map _
          rw [own_append, own_map_self, K.log_own, ← List.map_append, List.take_append_drop, List.take_length]
        buf_sorted := K.buf_sorted
        buf_lam := K.buf_lam }
    · exact (T.node j ndj hj').log_append hne K.rest_units
  · obtain ⟨units, h1, h2, h3⟩ := T.log_units
    obtain ⟨us, hus, hall⟩ := K.rest_units
    refine ⟨units ++ us.map (fun u => (i, u)), ?_, ?_, ?_⟩
    · show net.log ++ _ = _
      rw [flatU_append, flatU_map_author, ← hus, h1]
    · intro au hau
      rcases List.mem_append.mp hau with h | h
      · exact h2 au h
      · obtain ⟨u, hu, rfl⟩ := List.mem_map.mp h
        exact hall u hu
    · intro j ndj hj
      have hk : ∃ k, ndj.pulled = (flatU (units.take k)).length := by
        rcases getElem?_set_some hj with ⟨rfl, rfl⟩ | ⟨hne, hj'⟩
        · exact h3 j nd hi
        · exact h3 j ndj hj'
      obtain ⟨k, hk⟩ := hk
      by_cases hle : k ≤ units.length
      · exact ⟨k, by rw [List.take_append_of_le_length hle]; exact hk⟩
      · refine ⟨units.length, ?_⟩
        rw [List.take_append_of_le_length (Nat.le_refl _), List.take_length, hk,
          List.take_of_length_le (by omega)]
  · intro e he
    rcases List.mem_append.mp he with h | h
    · exact T.log_ok e h
    · obtain ⟨o, ho, rfl⟩ := List.mem_map.mp h
      have := K.buf_ok o (List.mem_of_mem_drop ho)
      exact ⟨hin, this.1, this.2⟩
  · have hsplit : (nd.r.buffer.take nd.pushed ++ nd.r.buffer.drop nd.pushed).Pairwise
        (fun o o' => o.id.lamport < o'.id.lamport) := by
      rw [List.take_append_drop]; exact K.buf_sorted
    obtain ⟨_, hs2, hs3⟩ := List.pairwise_append.mp hsplit
    refine List.pairwise_append.mpr ⟨T.log_keys, ?_, ?_⟩
    · rw [List.pairwise_map]
      refine hs2.imp ?_
      intro a b hab e0
      simp only [lkey, Prod.mk.injEq] at e0
      omega
    · intro e he e' he'
      obtain ⟨o, ho, rfl⟩ := List.mem_map.mp he'
      intro e0
      simp only [lkey, Prod.mk.injEq] at e0
      by_cases hei : e.1 = i
      · obtain ⟨a, oe⟩ := e
        simp only at hei
        subst hei
        have : (a, oe) ∈ own a net.log := mem_own.mpr ⟨he, rfl⟩
        rw [K.log_own] at this
        obtain ⟨o', ho', h2⟩ := List.mem_map.mp this
        simp only [Prod.mk.injEq, true_and] at h2
        subst h2
        have := hs3 o' ho' o ho
        simp only at e0
        omega
      · obtain ⟨g1, g2, _⟩ := T.log_ok e he
        have := (K.buf_ok o (List.mem_of_mem_drop ho)).1
        rw [g2, this] at e0
        exact hei (I.distinct e.1 i g1 hin e0.2)

/-- what `receive` does with the rest of the log: every foreign unit is applied, the result is `.ok ()` -/
theorem recv (T : TInvC cuid n net) {i : Nat} {nd : Node} (hi : net.nodes[i]? = some nd) {nd0 : Node}
    (An : AbsNode net.log nd nd0) {l : Rga} (hs : nd.r.state = .list l) :
    ∃ R' l', nd.r.receive (pullOps net.log i nd) = (R', .ok ()) ∧
      Le ((eraseL (net.log.drop nd.pulled)).foldl (pullF i) nd0.r) R' ∧ R'.state = .list l' := by
  have K := T.node i nd hi
  obtain ⟨units, hu, hall⟩ := K.pull_units
  have hsafe : ∀ au ∈ units, IsUnit au.2 ∧ ∀ o ∈ au.2, RemoteSafe o.body := by
    intro au hau
    refine ⟨hall au hau, ?_⟩
    intro o ho
    have hm : (au.1, o) ∈ net.log := by
      apply List.mem_of_mem_drop (i := nd.pulled)
      rw [hu]
      unfold flatU
      exact List.mem_flatMap.mpr ⟨au, hau, List.mem_map.mpr ⟨o, ho, rfl⟩⟩
    exact (T.log_ok _ hm).2.2
  have hle : Le nd0.r nd.r := ⟨An.st, by rw [An.id], by rw [An.id], Nat.le_of_eq (by rw [An.id])⟩
  unfold pullOps Replica.receive
  rw [hu]
  exact recv_sim i units hsafe _ nd0.r nd.r l hle hs (Nat.le_refl _)

/-- the whole rest of the log is consumed -/
theorem pullAll (T : TInvC cuid n net) {i : Nat} {nd : Node} (hi : net.nodes[i]? = some nd) :
    TInvC cuid n ⟨net.nodes.set i { nd with r := (nd.r.receive (pullOps net.log i nd)).1, pulled := net.log.length },
      net.log⟩ := by
  obtain ⟨net0, ap, nd0, I, Ab, h0, An, hin⟩ := T.at_node hi
  have N0 := I.node i nd0 h0
  have K := T.node i nd hi
  have hsl : nd.r.state = .list _ := An.st ▸ N0.st
  obtain ⟨R', l', hrecv, hle, hst'⟩ := T.recv hi An hsl
  have hes : eraseL (net.log.drop nd.pulled) = net0.log.drop nd0.pulled := by
    rw [Ab.log, An.pulled]
    exact (filter_drop_len _ net.log nd.pulled).symm
  rw [hes] at hle
  -- the pulls of `ListNet`
  obtain ⟨ap1, I1⟩ := inv_pulls (net0.log.drop nd0.pulled) net0 ap nd0 I h0 (by
    intro k hk
    rw [List.getElem_drop, List.getElem?_eq_getElem])
  -- … then the clock is bumped to the clock of the real replica
  have hi1 : ∀ nd1 : Node, (net0.nodes.set i nd1)[i]? = some nd1 := fun nd1 => getElem?_set_self' h0
  obtain ⟨ap2, I2⟩ := inv_noop I1 (hi1 _)
    (r' := { (net0.log.drop nd0.pulled).foldl (pullF i) nd0.r with opId := R'.opId })
    ⟨rfl, rfl, hle.cu.symm, hle.era.symm, hle.lam⟩
  simp only [List.set_set] at I2
  have hfld := receive_fields nd.r (pullOps net.log i nd)
  rw [hrecv] at hfld
  obtain ⟨f1, _, f3, _⟩ := hfld
  simp only at f1 f3
  have er : (nd.r.receive (pullOps net.log i nd)).1 = R' := by rw [hrecv]
  rw [er]
  have hcu : nd.r.opId.cuid = cuid i := by rw [← An.id]; exact N0.clock_cuid
  refine T.set_node hi (Or.inr rfl) I2 (abs_set Ab ?_) ?_ (T.head.set hi ⟨[], by show R'.buffer = _; rw [f1]; simp⟩ K.pulled_le (Or.inr f1))
  · exact {
      st := hle.st
      id := rfl
      buf := by
        show ((net0.log.drop nd0.pulled).foldl (pullF i) nd0.r).buffer = eraseB R'.buffer
        rw [foldl_pullF_buffer, f1, An.buf]
      pushed := by
        show nd0.pushed = (eraseB (R'.buffer.take nd.pushed)).length
        rw [f1]; exact An.pushed
      pulled := by
        show nd0.pulled + (net0.log.drop nd0.pulled).length = (eraseL (net.log.take net.log.length)).length
        rw [List.take_length, ← Ab.log, List.length_drop]
        have := N0.pulled_le
        omega }
  · have hp : (nd.r.receive (pullOps net.log i nd)).2.isPanic = false := by rw [hrecv]; rfl
    have hforeign : ∀ o ∈ pullOps net.log i nd, o.id.cuid ≠ nd.r.opId.cuid := by
      intro o ho
      unfold pullOps at ho
      obtain ⟨e, he, rfl⟩ := List.mem_map.mp ho
      obtain ⟨he1, he2⟩ := mem_oth.mp he
      obtain ⟨g1, g2, _⟩ := T.log_ok e (List.mem_of_mem_drop he1)
      rw [g2, hcu]
      intro e0
      exact he2 (I.distinct e.1 i g1 hin e0)
    have hrb := rbInv_receive nd.r _ K.rb hforeign hp
    rw [er] at hrb
    have hmono := lamport_mono_receive nd.r (pullOps net.log i nd)
    rw [er] at hmono
    exact {
      rb := hrb
      pushed_le := by show nd.pushed ≤ R'.buffer.length; rw [f1]; exact K.pushed_le
      pulled_le := Nat.le_refl _
      rest_units := by show UnitsB (R'.buffer.drop nd.pushed); rw [f1]; exact K.rest_units
      pull_units := by
        show UnitsL (net.log.drop net.log.length)
        rw [List.drop_length]; exact unitsL_nil
      buf_ok := by
        intro o ho
        change o ∈ R'.buffer at ho
        rw [f1] at ho
        exact K.buf_ok o ho
      log_own := by
        show own i net.log = (R'.buffer.take nd.pushed).map _
        rw [f1]; exact K.log_own
      buf_sorted := by show R'.buffer.Pairwise _; rw [f1]; exact K.buf_sorted
      buf_lam := by
        intro o ho
        change o ∈ R'.buffer at ho
        show _ ≤ R'.opId.lamport
        rw [f1] at ho
        exact Nat.le_trans (K.buf_lam o ho) hmono }

theorem step (T : TInvC cuid n net) {net' : Net} (h : StepC net net') : TInvC cuid n net' := by
  cases h with
  | call i nd c hi hg => exact T.call hi c hg
  | tx i nd tag calls s f hi hg => exact T.tx hi tag calls s f hg
  | pushAll i nd hi => exact T.pushAll hi
  | pullAll i nd hi => exact T.pullAll hi

end TInvC

theorem init_node {cuid : Nat → String} {n i : Nat} {nd : Node} (hi : (initC cuid n).nodes[i]? = some nd) :
    nd = ⟨Replica.new .list (cuid i) (i == 0), 0, 0⟩ ∧ i < n := by
  simp only [initC, List.getElem?_map] at hi
  cases hr : (List.range n)[i]? with
  | none => rw [hr] at hi; cases hi
  | some k =>
    rw [hr] at hi
    obtain ⟨hlt, hk⟩ := List.getElem?_eq_some_iff.mp hr
    simp only [List.getElem_range] at hk
    subst hk
    simp only [Option.map_some, Option.some.injEq] at hi
    exact ⟨hi.symm, by simpa using hlt⟩

theorem isUnit_snap (cuid : Nat → String) : IsUnit [snapOp cuid] := Or.inl ⟨_, rfl, rfl⟩
theorem snap_safe (cuid : Nat → String) : RemoteSafe (snapOp cuid).body :=
  ⟨fun p vs e => by simp [snapOp] at e, fun p tg vs e => by simp [snapOp] at e⟩

theorem tinv_initC {cuid : Nat → String} {n : Nat} (hc : CuidsDistinct cuid n) : TInvC cuid n (initC cuid n) where
  sim := by
    refine ⟨initC cuid n, _, FNetC.L.inv_initC hc, rfl, rfl, ?_⟩
    intro i nd hi
    refine ⟨nd, hi, ?_⟩
    obtain ⟨rfl, _⟩ := init_node hi
    by_cases h0 : i = 0
    · subst h0; exact ⟨rfl, rfl, rfl, rfl, rfl⟩
    · have hb : (i == 0) = false := by simpa using h0
      rw [hb]; exact ⟨rfl, rfl, rfl, rfl, rfl⟩
  node := by
    intro i nd hi
    obtain ⟨rfl, _⟩ := init_node hi
    by_cases h0 : i = 0
    · subst h0
      exact {
        rb := rbInv_new _ _ _
        pushed_le := Nat.zero_le _
        pulled_le := Nat.le_refl _
        rest_units := by
          show UnitsB [snapOp cuid]
          exact ⟨[[snapOp cuid]], rfl, by intro u hu; simp only [List.mem_singleton] at hu; subst hu; exact isUnit_snap cuid⟩
        pull_units := unitsL_nil
        buf_ok := by
          intro o ho
          change o ∈ [snapOp cuid] at ho
          simp only [List.mem_singleton] at ho
          subst ho; exact ⟨rfl, snap_safe cuid⟩
        log_own := rfl
        buf_sorted := List.pairwise_singleton _ _
        buf_lam := by
          intro o ho
          change o ∈ [snapOp cuid] at ho
          simp only [List.mem_singleton] at ho
          subst ho
          exact Nat.le_refl _ }
    · have hb : (i == 0) = false := by simpa using h0
      rw [hb]
      exact {
        rb := rbInv_new _ _ _
        pushed_le := Nat.le_refl _
        pulled_le := Nat.le_refl _
        rest_units := unitsB_nil
        pull_units := unitsL_nil
        buf_ok := by intro o ho; cases ho
        log_own := rfl
        buf_sorted := List.Pairwise.nil
        buf_lam := by intro o ho; cases ho }
  log_units := by
    refine ⟨[], rfl, by simp, ?_⟩
    intro i nd hi
    obtain ⟨rfl, _⟩ := init_node hi
    exact ⟨0, rfl⟩
  log_ok := by intro e he; cases he
  log_keys := List.Pairwise.nil
  head := by
    refine ⟨by intro e he; simp [initC] at he, ?_, ?_⟩
    · intro nd h0
      obtain ⟨rfl, _⟩ := init_node h0
      rfl
    · intro i nd hi h0 _
      obtain ⟨rfl, _⟩ := init_node hi
      have hb : (i == 0) = false := by simpa using h0
      rw [hb]; rfl

/-- **the invariant holds in every reachable state** -/
theorem tinv_reach {cuid : Nat → String} {n : Nat} {net : Net} (h : ReachC cuid n net) : TInvC cuid n net := by
  induction h with
  | init hc => exact tinv_initC hc
  | step _ hs ih => exact ih.step hs


/-! ## 7. the theorems -/

section theorems
variable {cuid : Nat → String} {n : Nat} {net : Net}

/-- in a reachable state a transaction (ANY body) never panics: it ends with `.ok ()` or with an error -/
theorem cltx_tx_never_panics (h : ReachC cuid n net) {i : Nat} {nd : Node} (hi : net.nodes[i]? = some nd)
    (tag : String) (calls : List Call) (stopOnErr failAtEnd : Bool) (hg : i ≠ 0 → 0 < nd.pulled) :
    (nd.r.txCalls tag calls stopOnErr failAtEnd).2.2 = .ok () ∨
      ∃ c, (nd.r.txCalls tag calls stopOnErr failAtEnd).2.2 = .err c := by
  have T := tinv_reach h
  obtain ⟨net0, ap, nd0, I, Ab, h0, An, hin⟩ := T.at_node hi
  obtain ⟨_, hc⟩ := tx_cases (I.node i nd0 h0) hin (fun h' => guard0 T.head An (hg h') (T.node i nd hi).pulled_le) nd.r An.st An.id (T.node i nd hi).rb tag calls stopOnErr failAtEnd
  rcases hc with ⟨c, hc, _⟩ | ⟨hok, _⟩
  · exact Or.inr ⟨c, hc⟩
  · exact Or.inl hok

/-- **a failing transaction changes nothing on its node**: operation identifier, state, buffer, checkpoint are what they
    were (whatever the body did before it failed: valid and refused calls, reads, early return, failing user function) -/
theorem cltx_failed_tx_is_noop (h : ReachC cuid n net) {i : Nat} {nd : Node} (hi : net.nodes[i]? = some nd)
    (tag : String) (calls : List Call) (stopOnErr failAtEnd : Bool) (c : Nat)
    (herr : (nd.r.txCalls tag calls stopOnErr failAtEnd).2.2 = .err c) :
    let r' := (nd.r.txCalls tag calls stopOnErr failAtEnd).1
    r'.opId = nd.r.opId ∧ r'.state = nd.r.state ∧ r'.buffer = nd.r.buffer ∧ r'.cp = nd.r.cp :=
  txCalls_fail_restores nd.r ((tinv_reach h).node i nd hi).rb tag calls stopOnErr failAtEnd c herr

/-- … stated for the system: after the `tx` step of a failing transaction the log is the same and every node has the same
    state, operation identifier, buffer, checkpoint and counters as before -/
theorem cltx_failed_tx_is_noop_net (h : ReachC cuid n net) {i : Nat} {nd : Node} (hi : net.nodes[i]? = some nd)
    (tag : String) (calls : List Call) (stopOnErr failAtEnd : Bool) (c : Nat) (hg : i ≠ 0 → 0 < nd.pulled)
    (herr : (nd.r.txCalls tag calls stopOnErr failAtEnd).2.2 = .err c) {net' : Net}
    (hnet : net' = ⟨net.nodes.set i { nd with r := (nd.r.txCalls tag calls stopOnErr failAtEnd).1 }, net.log⟩) :
    StepC net net' ∧ net'.log = net.log ∧ ∀ (j : Nat) (nd' : Node), net'.nodes[j]? = some nd' →
      ∃ ndj, net.nodes[j]? = some ndj ∧ nd'.r.opId = ndj.r.opId ∧ nd'.r.state = ndj.r.state ∧
        nd'.r.buffer = ndj.r.buffer ∧ nd'.r.cp = ndj.r.cp ∧ nd'.pushed = ndj.pushed ∧ nd'.pulled = ndj.pulled := by
  subst hnet
  refine ⟨.tx net i nd tag calls stopOnErr failAtEnd hi hg, rfl, ?_⟩
  intro j nd' hj
  rcases getElem?_set_some hj with ⟨rfl, rfl⟩ | ⟨hne, hj'⟩
  · obtain ⟨g1, g2, g3, g4⟩ := cltx_failed_tx_is_noop h hi tag calls stopOnErr failAtEnd c herr
    exact ⟨nd, hi, g1, g2, g3, g4, rfl, rfl⟩
  · exact ⟨nd', hj', rfl, rfl, rfl, rfl, rfl, rfl⟩

/-- **a committed transaction appends exactly ONE unit** `header :: ops` to the buffer; the header carries the first
    identifier of the transaction and announces the unit's length; `ops` (the operations of the successful calls of the
    body) contains no header, and every operation is safe to execute remotely and carries the node's client identifier -/
theorem cltx_committed_tx_is_one_unit (h : ReachC cuid n net) {i : Nat} {nd : Node} (hi : net.nodes[i]? = some nd)
    (tag : String) (calls : List Call) (stopOnErr failAtEnd : Bool) (hg : i ≠ 0 → 0 < nd.pulled)
    (hok : (nd.r.txCalls tag calls stopOnErr failAtEnd).2.2 = .ok ()) :
    let r' := (nd.r.txCalls tag calls stopOnErr failAtEnd).1
    ∃ ops : List Op,
      r'.buffer = nd.r.buffer ++ (⟨nd.r.opId.next, .transaction tag ((ops.length : Int) + 1)⟩ :: ops) ∧
      IsUnit (⟨nd.r.opId.next, .transaction tag ((ops.length : Int) + 1)⟩ :: ops) ∧
      ∀ o ∈ ops, isHdr o = false ∧ RemoteSafe o.body ∧ o.id.cuid = cuid i ∧ nd.r.opId.lamport + 1 < o.id.lamport := by
  intro r'
  have T := tinv_reach h
  obtain ⟨net0, ap, nd0, I, Ab, h0, An, hin⟩ := T.at_node hi
  obtain ⟨_, hc⟩ := tx_cases (I.node i nd0 h0) hin (fun h' => guard0 T.head An (hg h') (T.node i nd hi).pulled_le) nd.r An.st An.id (T.node i nd hi).rb tag calls stopOnErr failAtEnd
  rcases hc with ⟨c, hc, _⟩ | ⟨_, ops, ar1, A1, hb, _, _, _, _, e5, _⟩
  · rw [hok] at hc; cases hc
  · refine ⟨ops, hb, Or.inr ⟨_, _, ops, rfl, fun o ho => (e5 o ho).1.nh⟩, ?_⟩
    intro o ho
    exact ⟨(e5 o ho).1.nh, (e5 o ho).1.safe, (e5 o ho).1.cu, (e5 o ho).2⟩

/-- **units are contiguous in the log**, in every reachable state: the log is a concatenation of units -/
theorem cltx_log_is_units (h : ReachC cuid n net) : ∃ units : List (Nat × List Op),
    net.log = units.flatMap (fun (a, u) => u.map (a, ·)) ∧ ∀ au ∈ units, IsUnit au.2 := by
  obtain ⟨units, h1, h2, _⟩ := (tinv_reach h).log_units
  exact ⟨units, h1, h2⟩

/-- **`receive` never refuses and never panics in the system**: what a node hands to `receive` when it pulls is accepted -/
theorem cltx_receive_ok (h : ReachC cuid n net) {i : Nat} {nd : Node} (hi : net.nodes[i]? = some nd) :
    (nd.r.receive (pullOps net.log i nd)).2 = .ok () := by
  have T := tinv_reach h
  obtain ⟨net0, ap, nd0, I, Ab, h0, An, hin⟩ := T.at_node hi
  have hsl : nd.r.state = .list _ := An.st ▸ (I.node i nd0 h0).st
  obtain ⟨R', l', hrecv, _⟩ := T.recv hi An hsl
  rw [hrecv]

/-- where unit `j` of a decomposition starts in the log -/
def unitStart (units : List (Nat × List Op)) (j : Nat) : Nat := (flatU (units.take j)).length

theorem unitStart_mono (units : List (Nat × List Op)) {j k : Nat} (h : j ≤ k) : unitStart units j ≤ unitStart units k := by
  unfold unitStart
  obtain ⟨t, ht⟩ := List.take_prefix_take_left (l := units) h
  rw [← ht, flatU_append, List.length_append]
  exact Nat.le_add_right _ _

/-- **ALL OR NOTHING, by log position**: there is ONE decomposition of the log into units such that every node, at every
    moment, has consumed (`p < pulled`) either ALL positions of a unit or NONE of them — `pulled` never sits inside a unit.
    (`cltx_nodes_applied_ops` ties `pulled` to the state: the state of a node is the application of its own operations and
    of the foreign entries among the first `pulled` ones.) -/
theorem cltx_all_or_nothing_pos (h : ReachC cuid n net) : ∃ units : List (Nat × List Op),
    net.log = flatU units ∧ (∀ au ∈ units, IsUnit au.2) ∧
    ∀ (i : Nat) (nd : Node), net.nodes[i]? = some nd → ∀ j, j < units.length →
      (∀ p, unitStart units j ≤ p → p < unitStart units (j + 1) → p < nd.pulled) ∨
      (∀ p, unitStart units j ≤ p → p < unitStart units (j + 1) → ¬ p < nd.pulled) := by
  obtain ⟨units, h1, h2, h3⟩ := (tinv_reach h).log_units
  refine ⟨units, h1, h2, ?_⟩
  intro i nd hi j _
  obtain ⟨k, hk⟩ := h3 i nd hi
  by_cases hjk : j + 1 ≤ k
  · left
    intro p _ hp
    have := unitStart_mono units hjk
    unfold unitStart at this hp
    omega
  · right
    intro p hp _
    have := unitStart_mono units (show k ≤ j by omega)
    unfold unitStart at this hp
    omega

/-- node `i` has applied the log entry `e` of another node: `e` is among the entries `i` has consumed -/
def Applied (net : Net) (i : Nat) (e : LEnt) : Prop :=
  ∃ nd, net.nodes[i]? = some nd ∧ e ∈ oth i (net.log.take nd.pulled)

/-- no two entries of the log are equal (headers included) -/
theorem cltx_log_nodup (h : ReachC cuid n net) : net.log.Nodup := nodup_of_keys (tinv_reach h).log_keys

/-- **ALL OR NOTHING**: in every reachable state every node has applied, of every unit of the log authored by another
    node, either ALL operations or NONE -/
theorem cltx_all_or_nothing (h : ReachC cuid n net) : ∃ units : List (Nat × List Op),
    net.log = units.flatMap (fun (a, u) => u.map (a, ·)) ∧ (∀ au ∈ units, IsUnit au.2) ∧
    ∀ (i : Nat) (nd : Node), net.nodes[i]? = some nd → ∀ au ∈ units, au.1 ≠ i →
      (∀ o ∈ au.2, Applied net i (au.1, o)) ∨ (∀ o ∈ au.2, ¬ Applied net i (au.1, o)) := by
  have T := tinv_reach h
  obtain ⟨units, h1, h2, h3⟩ := T.log_units
  refine ⟨units, h1, h2, ?_⟩
  intro i nd hi au hau hne
  obtain ⟨k, hk⟩ := h3 i nd hi
  have hsplit : net.log = flatU (units.take k) ++ flatU (units.drop k) := by
    rw [← flatU_append, List.take_append_drop]; exact h1
  have htake : net.log.take nd.pulled = flatU (units.take k) := by
    rw [hsplit, hk, List.take_left]
  have hdrop : net.log.drop nd.pulled = flatU (units.drop k) := by
    rw [hsplit, hk, List.drop_left]
  have hmem : ∀ (us : List (Nat × List Op)), au ∈ us → ∀ o ∈ au.2, (au.1, o) ∈ flatU us := by
    intro us hus o ho
    unfold flatU
    exact List.mem_flatMap.mpr ⟨au, hus, List.mem_map.mpr ⟨o, ho, rfl⟩⟩
  rw [← List.take_append_drop k units] at hau
  rcases List.mem_append.mp hau with hin | hin
  · left
    intro o ho
    exact ⟨nd, hi, mem_oth.mpr ⟨by rw [htake]; exact hmem _ hin o ho, hne⟩⟩
  · right
    intro o ho ⟨nd', hi', hm⟩
    rw [hi] at hi'
    simp only [Option.some.injEq] at hi'
    subst hi'
    have h1' := (mem_oth.mp hm).1
    have h2' : (au.1, o) ∈ net.log.drop nd.pulled := by rw [hdrop]; exact hmem _ hin o ho
    have hnd := cltx_log_nodup h
    rw [← List.take_append_drop nd.pulled net.log] at hnd
    exact (List.nodup_append.mp hnd).2.2 _ h1' _ h2' rfl

/-! ### convergence -/

/-- HOW convergence is obtained: erasing the headers from log and buffers (`Abs`) turns every reachable state into a
    state that satisfies the invariant `LNet.InvC` of `ListNet` — every step of this system is a sequence of `ListNet` steps
    (`InvC.call`, `InvC.push`, `InvC.pull`) and clock bumps (`nodeInv_noop`), under which that invariant is closed -/
theorem cltx_erased_satisfies_lnet_inv {cuid : Nat → String} {n : Nat} {net : Net} (h : ReachC cuid n net) :
    ∃ net0 ap, InvC cuid n net0 ap ∧ Abs net net0 := (tinv_reach h).sim

theorem appliedOps_abs {net net0 : Net} (Ab : Abs net net0) {i : Nat} {nd nd0 : Node} (An : AbsNode net.log nd nd0) :
    (appliedOps net0.log i nd0).filterMap toL = (appliedOps net.log i nd).filterMap toL := by
  unfold appliedOps
  have e1 : net0.log.take nd0.pulled = eraseL (net.log.take nd.pulled) := by
    rw [Ab.log, An.pulled]
    exact filter_take_len _ net.log nd.pulled
  rw [e1, An.buf, oth_eraseL, eraseL_snd, ← eraseB_append, filterMap_toL_eraseB]

/-- every node's state IS the remote application of a causal sequence that is a permutation of what the operations the
    node has (own buffer, foreign entries among the first `pulled` of the log; headers denote nothing) denote -/
theorem cltx_nodes_applied_ops (h : ReachC cuid n net) : ∃ applied : Nat → List LOp,
    ∀ (i : Nat) (nd : Node), net.nodes[i]? = some nd →
      nd.r.state = .list (Rga.empty.applyAllL (applied i)) ∧ LCausal (applied i) ∧
      (applied i).Perm ((appliedOps net.log i nd).filterMap toL) := by
  obtain ⟨net0, ap, I, Ab⟩ := (tinv_reach h).sim
  refine ⟨fun i => den (ap i), ?_⟩
  intro i nd hi
  obtain ⟨nd0, h0, An⟩ := Ab.node i nd hi
  have N0 := I.node i nd0 h0
  refine ⟨An.st ▸ N0.st, N0.lc, ?_⟩
  rw [← appliedOps_abs Ab An]
  exact I.den_perm h0

/-- **convergence survives**: two nodes that have the same operations (`LNet.SameOps`: own buffer ++ consumed foreign log
    entries, as multisets — headers included) hold the SAME list state -/
theorem cltx_same_operations_same_state (h : ReachC cuid n net) (i j : Nat) (hi : i < net.nodes.length)
    (hj : j < net.nodes.length) (hsame : SameOps net i j) : net.nodes[i].r.state = net.nodes[j].r.state := by
  obtain ⟨net0, ap, I, Ab⟩ := (tinv_reach h).sim
  have hi' := List.getElem?_eq_getElem hi
  have hj' := List.getElem?_eq_getElem hj
  obtain ⟨ni, nj, hni, hnj, hperm⟩ := hsame
  rw [hi'] at hni
  rw [hj'] at hnj
  simp only [Option.some.injEq] at hni hnj
  subst hni hnj
  obtain ⟨ni0, hi0, Ai⟩ := Ab.node i _ hi'
  obtain ⟨nj0, hj0, Aj⟩ := Ab.node j _ hj'
  have Ni := I.node i ni0 hi0
  have Nj := I.node j nj0 hj0
  have hp : (den (ap i)).Perm (den (ap j)) := by
    refine ((I.den_perm hi0).trans ?_).trans (I.den_perm hj0).symm
    rw [appliedOps_abs Ab Ai, appliedOps_abs Ab Aj]
    exact hperm.filterMap toL
  rw [← Ai.st, ← Aj.st, Ni.st, Nj.st, rga_full_converge_state _ _ hp Ni.lc Nj.lc]

/-- a node that has pushed its whole buffer and consumed the whole log has exactly the operations of the log -/
theorem appliedOps_caught_up (h : ReachC cuid n net) {k : Nat} (hk : k < net.nodes.length)
    (q1 : net.nodes[k].pushed = net.nodes[k].r.buffer.length) (q2 : net.nodes[k].pulled = net.log.length) :
    (appliedOps net.log k net.nodes[k]).Perm (net.log.map (·.2)) := by
  have K := (tinv_reach h).node k _ (List.getElem?_eq_getElem hk)
  have h1 : (own k net.log ++ oth k net.log).Perm net.log := List.filter_append_perm _ _
  have h2 := h1.map (·.2)
  rw [K.log_own, q1, List.take_length] at h2
  have e : appliedOps net.log k net.nodes[k] =
      (net.nodes[k].r.buffer.map (fun o => (k, o)) ++ oth k net.log).map (·.2) := by
    simp only [appliedOps, q2, List.take_length, List.map_append, map_snd_pair]
  rw [e]
  exact h2

theorem sameOps_of_caught_up (h : ReachC cuid n net) {i j : Nat} (hi : i < net.nodes.length) (hj : j < net.nodes.length)
    (pi : net.nodes[i].pushed = net.nodes[i].r.buffer.length) (li : net.nodes[i].pulled = net.log.length)
    (pj : net.nodes[j].pushed = net.nodes[j].r.buffer.length) (lj : net.nodes[j].pulled = net.log.length) :
    SameOps net i j :=
  ⟨_, _, List.getElem?_eq_getElem hi, List.getElem?_eq_getElem hj,
    (appliedOps_caught_up h hi pi li).trans (appliedOps_caught_up h hj pj lj).symm⟩

theorem sameOps_of_quiescent (h : ReachC cuid n net) (hq : Quiescent net) {i j : Nat} (hi : i < net.nodes.length)
    (hj : j < net.nodes.length) : SameOps net i j := by
  obtain ⟨a1, a2⟩ := hq _ (List.getElem_mem hi)
  obtain ⟨b1, b2⟩ := hq _ (List.getElem_mem hj)
  exact sameOps_of_caught_up h hi hj a1 a2 b1 b2

/-- at quiescence (`LNet.Quiescent`: every buffer completely pushed, every node has consumed the whole log) all nodes
    hold the same list state -/
theorem cltx_quiescent_converged (h : ReachC cuid n net) (hq : Quiescent net) (i j : Nat) (hi : i < net.nodes.length)
    (hj : j < net.nodes.length) : net.nodes[i].r.state = net.nodes[j].r.state :=
  cltx_same_operations_same_state h i j hi hj (sameOps_of_quiescent h hq hi hj)

/-! ### quiescence is reachable from every state -/

/-- zero or more steps -/
inductive Reaches : Net → Net → Prop
  | refl (net : Net) : Reaches net net
  | tail {a b c : Net} : Reaches a b → StepC b c → Reaches a c

theorem reach_of_reaches {net' : Net} (hr : ReachC cuid n net) (h : Reaches net net') : ReachC cuid n net' := by
  induction h with
  | refl => exact hr
  | tail _ hs ih => exact .step ih hs

theorem Reaches.trans {a b c : Net} (h1 : Reaches a b) (h2 : Reaches b c) : Reaches a c := by
  induction h2 with
  | refl => exact h1
  | tail _ hs ih => exact .tail ih hs

/-- every node pushes its whole buffer, one after the other -/
theorem push_sweep (net : Net) : ∀ k, k ≤ net.nodes.length → ∃ net', Reaches net net' ∧
    net'.nodes.length = net.nodes.length ∧
    ∀ (j : Nat) (nd : Node), j < k → net'.nodes[j]? = some nd → nd.pushed = nd.r.buffer.length
  | 0, _ => ⟨net, .refl net, rfl, fun j nd hj => absurd hj (Nat.not_lt_zero _)⟩
  | k + 1, hk => by
    obtain ⟨net', h1, h2, h3⟩ := push_sweep net k (by omega)
    have hlt : k < net'.nodes.length := by omega
    have hi := List.getElem?_eq_getElem hlt
    refine ⟨_, .tail h1 (.pushAll net' k _ hi), by simp [h2], ?_⟩
    intro j nd hj hnd
    rcases getElem?_set_some hnd with ⟨rfl, rfl⟩ | ⟨hne, hj'⟩
    · rfl
    · exact h3 j nd (by omega) hj'

/-- then every node pulls the whole log, one after the other -/
theorem pull_sweep (net : Net) (hp : ∀ nd ∈ net.nodes, nd.pushed = nd.r.buffer.length) :
    ∀ k, k ≤ net.nodes.length → ∃ net', Reaches net net' ∧
    net'.nodes.length = net.nodes.length ∧ net'.log = net.log ∧
    (∀ nd ∈ net'.nodes, nd.pushed = nd.r.buffer.length) ∧
    ∀ (j : Nat) (nd : Node), j < k → net'.nodes[j]? = some nd → nd.pulled = net.log.length
  | 0, _ => ⟨net, .refl net, rfl, rfl, hp, fun j nd hj => absurd hj (Nat.not_lt_zero _)⟩
  | k + 1, hk => by
    obtain ⟨net', h1, h2, h3, h4, h5⟩ := pull_sweep net hp k (by omega)
    have hlt : k < net'.nodes.length := by omega
    have hi := List.getElem?_eq_getElem hlt
    refine ⟨_, .tail h1 (.pullAll net' k _ hi), by simp [h2], h3, ?_, ?_⟩
    · intro nd hnd
      obtain ⟨j, hj⟩ := List.mem_iff_getElem?.mp hnd
      rcases getElem?_set_some hj with ⟨rfl, rfl⟩ | ⟨hne, hj'⟩
      · show net'.nodes[j].pushed = (net'.nodes[j].r.receive _).1.buffer.length
        rw [(receive_fields _ _).1]
        exact h4 _ (List.getElem_mem hlt)
      · exact h4 nd (List.mem_of_getElem? hj')
    · intro j nd hj hnd
      rcases getElem?_set_some hnd with ⟨rfl, rfl⟩ | ⟨hne, hj'⟩
      · exact congrArg List.length h3
      · exact h5 j nd (by omega) hj'

/-- **quiescence is reachable**: from every state, `pushAll` by every node followed by `pullAll` by every node (every
    `receive` succeeds by `cltx_receive_ok`) ends in a quiescent state -/
theorem cltx_can_quiesce (net : Net) : ∃ net', Reaches net net' ∧ Quiescent net' := by
  obtain ⟨net1, r1, l1, p1⟩ := push_sweep net net.nodes.length (Nat.le_refl _)
  have hp1 : ∀ nd ∈ net1.nodes, nd.pushed = nd.r.buffer.length := by
    intro nd hnd
    obtain ⟨j, hj⟩ := List.mem_iff_getElem?.mp hnd
    have := (List.getElem?_eq_some_iff.mp hj).1
    exact p1 j nd (by omega) hj
  obtain ⟨net2, r2, l2, g2, p2, q2⟩ := pull_sweep net1 hp1 net1.nodes.length (Nat.le_refl _)
  refine ⟨net2, r1.trans r2, ?_⟩
  intro nd hnd
  obtain ⟨j, hj⟩ := List.mem_iff_getElem?.mp hnd
  have := (List.getElem?_eq_some_iff.mp hj).1
  exact ⟨p2 nd hnd, by rw [g2]; exact q2 j nd (by omega) hj⟩

end theorems
/-! ## 8. the requested theorems (lists) -/

section created
variable {cuid : Nat → String} {n : Nat} {net : Net}

theorem created_ltx_log_starts_with_snapshot (h : ReachC cuid n net) :
    (∀ e, net.log[0]? = some e → e = snapEnt cuid) ∧
    (∀ nd, net.nodes[0]? = some nd → nd.r.buffer.head? = some (snapOp cuid)) ∧
    (∀ i nd, net.nodes[i]? = some nd → i ≠ 0 → nd.pulled = 0 → nd.r.buffer = []) :=
  ⟨(tinv_reach h).head.log_head, (tinv_reach h).head.creator, (tinv_reach h).head.fresh⟩

/-- at quiescence all replicas (creator and subscribers) hold the SAME list state -/
theorem created_ltx_quiescent_converged (h : ReachC cuid n net) (hq : Quiescent net) (i j : Nat) (hi : i < net.nodes.length)
    (hj : j < net.nodes.length) : net.nodes[i].r.state = net.nodes[j].r.state :=
  cltx_quiescent_converged h hq i j hi hj

/-- a failing user transaction on ANY node of ANY reachable state (no guard needed; any body) leaves the log and every node —
    operation identifier, state, buffer, checkpoint, counters — unchanged -/
theorem created_ltx_failed_transaction_changes_nothing (h : ReachC cuid n net) {i : Nat} {nd : Node}
    (hi : net.nodes[i]? = some nd) (tag : String) (calls : List Call) (stopOnErr failAtEnd : Bool) (c : Nat)
    (herr : (nd.r.txCalls tag calls stopOnErr failAtEnd).2.2 = .err c) {net' : Net}
    (hnet : net' = ⟨net.nodes.set i { nd with r := (nd.r.txCalls tag calls stopOnErr failAtEnd).1 }, net.log⟩) :
    net'.log = net.log ∧ ∀ (j : Nat) (nd' : Node), net'.nodes[j]? = some nd' →
      ∃ ndj, net.nodes[j]? = some ndj ∧ nd'.r.opId = ndj.r.opId ∧ nd'.r.state = ndj.r.state ∧
        nd'.r.buffer = ndj.r.buffer ∧ nd'.r.cp = ndj.r.cp ∧ nd'.pushed = ndj.pushed ∧ nd'.pulled = ndj.pulled := by
  subst hnet
  refine ⟨rfl, ?_⟩
  intro j nd' hj
  rcases getElem?_set_some hj with ⟨rfl, rfl⟩ | ⟨hne, hj'⟩
  · obtain ⟨g1, g2, g3, g4⟩ := cltx_failed_tx_is_noop h hi tag calls stopOnErr failAtEnd c herr
    exact ⟨nd, hi, g1, g2, g3, g4, rfl, rfl⟩
  · exact ⟨nd', hj', rfl, rfl, rfl, rfl, rfl, rfl⟩

/-- the log is a concatenation of units (the snapshot operation is a unit of its own) and every node has consumed ALL or NONE of
    the entries of every unit written by another node -/
theorem created_ltx_committed_transaction_all_or_nothing (h : ReachC cuid n net) : ∃ units : List (Nat × List Op),
    net.log = units.flatMap (fun (a, u) => u.map (a, ·)) ∧ (∀ au ∈ units, IsUnit au.2) ∧
    ∀ (i : Nat) (nd : Node), net.nodes[i]? = some nd → ∀ au ∈ units, au.1 ≠ i →
      (∀ o ∈ au.2, Applied net i (au.1, o)) ∨ (∀ o ∈ au.2, ¬ Applied net i (au.1, o)) :=
  cltx_all_or_nothing h

end created

/-! ## 9. non-vacuity (lists): the creator pushes its snapshot operation, everybody consumes it; the creator inserts `[1,2]`, pushes,
the subscribers pull; subscriber 1 COMMITS a transaction (insert "m" at 1, delete the head), subscriber 2 runs a FAILING one
(an insert, then a delete out of range, stop on error: rolled back), the creator appends 9; everything is pushed and pulled -/
namespace Ex

def cu : Nat → String
  | 0 => "a" | 1 => "b" | _ => "c"
def acts : List LTx.Act := [
  .pushAll 0, .pullAll 1, .pullAll 2, .pullAll 0,
  .call 0 (.linsert 0 [.num 1, .num 2]),
  .pushAll 0, .pullAll 1, .pullAll 2,
  .tx 1 "t1" [.linsert 1 [.str "m"], .ldelete 0] true false,
  .tx 2 "t2" [.linsert 0 [.num 7], .ldelete 9] true false,
  .call 0 (.linsert 2 [.num 9]),
  .pushAll 2, .pushAll 1, .pushAll 0,
  .pullAll 0, .pullAll 2, .pullAll 1]
def listOf (r : Replica) : Rga := match r.state with | .list l => l | _ => Rga.empty
def finalNet : Net := (runC (initC cu 3) acts).getD ⟨[], []⟩
def net9 : Net := (runC (initC cu 3) (acts.take 9)).getD ⟨[], []⟩

theorem getD_of_isSome {o : Option Net} (h : o.isSome = true) : o = some (o.getD ⟨[], []⟩) := by
  cases o with
  | none => cases h
  | some x => rfl
theorem getD_node {o : Option Node} (h : o.isSome = true) : o = some (o.getD (⟨default, 0, 0⟩ : Node)) := by
  cases o with
  | none => cases h
  | some x => rfl

theorem run_final : runC (initC cu 3) acts = some finalNet := getD_of_isSome (by decide +kernel)
theorem run_9 : runC (initC cu 3) (acts.take 9) = some net9 := getD_of_isSome (by decide +kernel)
theorem cu_distinct : CuidsDistinct cu 3 := by
  intro i j hi hj h
  have h1 : i = 0 ∨ i = 1 ∨ i = 2 := by omega
  have h2 : j = 0 ∨ j = 1 ∨ j = 2 := by omega
  rcases h1 with rfl | rfl | rfl <;> rcases h2 with rfl | rfl | rfl <;> first | rfl | (exact absurd h (by decide))
theorem reach_final : ReachC cu 3 finalNet := reachC_run acts (.init cu_distinct) run_final
theorem reach_9 : ReachC cu 3 net9 := reachC_run (acts.take 9) (.init cu_distinct) run_9
theorem len_final : finalNet.nodes.length = 3 := by decide +kernel
theorem quiescent_final : Quiescent finalNet := by
  unfold Quiescent
  decide +kernel

/-- the log: snapshot operation, the creator's insert, the committed transaction of subscriber 1 (header + 2), the creator's
    append; nothing of the failed transaction -/
theorem final_shape : finalNet.log.map (fun e => (e.1, isHdr e.2)) =
    [(0, false), (0, false), (1, true), (1, false), (1, false), (0, false)] := by decide +kernel

/-- `created_ltx_quiescent_converged` instantiated: creator vs subscriber, subscriber vs subscriber -/
example : (finalNet.nodes[0]'(by rw [len_final]; decide)).r.state = (finalNet.nodes[1]'(by rw [len_final]; decide)).r.state :=
  created_ltx_quiescent_converged reach_final quiescent_final 0 1 _ _
example : (finalNet.nodes[1]'(by rw [len_final]; decide)).r.state = (finalNet.nodes[2]'(by rw [len_final]; decide)).r.state :=
  created_ltx_quiescent_converged reach_final quiescent_final 1 2 _ _
/-- … and the common live content `["m", 2, 9]` -/
theorem final_views : (finalNet.nodes.map fun nd => (listOf nd.r).live == [.str "m", .num 2, .num 9]) = [true, true, true] := by
  decide +kernel

/-- the FAILING transaction of subscriber 2, in the state where it is issued -/
def nd2 : Node := (net9.nodes[2]?).getD (⟨default, 0, 0⟩ : Node)
theorem nd2_eq : net9.nodes[2]? = some nd2 := getD_node (by decide +kernel)
theorem t2_fails : ∃ c, (nd2.r.txCalls "t2" [.linsert 0 [.num 7], .ldelete 9] true false).2.2 = .err c := by
  have h : (match (nd2.r.txCalls "t2" [.linsert 0 [.num 7], .ldelete 9] true false).2.2 with
      | .err _ => true | _ => false) = true := by decide +kernel
  cases hc : (nd2.r.txCalls "t2" [.linsert 0 [.num 7], .ldelete 9] true false).2.2 with
  | err c => exact ⟨c, rfl⟩
  | ok u => rw [hc] at h; cases h
  | panic w => rw [hc] at h; cases h
/-- `created_ltx_failed_transaction_changes_nothing` instantiated -/
example : (nd2.r.txCalls "t2" [.linsert 0 [.num 7], .ldelete 9] true false).1.buffer = nd2.r.buffer ∧
    (nd2.r.txCalls "t2" [.linsert 0 [.num 7], .ldelete 9] true false).1.state = nd2.r.state := by
  obtain ⟨c, hc⟩ := t2_fails
  obtain ⟨_, h⟩ := created_ltx_failed_transaction_changes_nothing reach_9 nd2_eq "t2" _ true false c hc rfl
  obtain ⟨ndj, h1, _, h3, h4, _⟩ := h 2 _ (getElem?_set_self' nd2_eq)
  rw [nd2_eq] at h1
  simp only [Option.some.injEq] at h1
  subst h1
  exact ⟨h4, h3⟩
example : ∃ units : List (Nat × List Op), finalNet.log = units.flatMap (fun (a, u) => u.map (a, ·)) ∧
    (∀ au ∈ units, IsUnit au.2) := by
  obtain ⟨units, h1, h2, _⟩ := created_ltx_committed_transaction_all_or_nothing reach_final
  exact ⟨units, h1, h2⟩
example : ∀ e, finalNet.log[0]? = some e → e = snapEnt cu := (created_ltx_log_starts_with_snapshot reach_final).1
/-- the guard on the executable form -/
example : (actC (initC cu 3) (.tx 1 "t" [] false false)).isSome = false ∧
    (actC (initC cu 3) (.tx 0 "t" [] false false)).isSome = true := by decide +kernel

end Ex

/-! ## 10. why the guard (lists) -/

def badActs : List LTx.Act :=
  [.tx 1 "t" [.linsert 0 [.num 1]] true false, .pushAll 1, .pushAll 0, .pullAll 0, .pullAll 1]

/-- WITHOUT the guard (the steps of `LTx` from `initC`) convergence at quiescence is FALSE: the subscriber commits a transaction
    before its first pull; at quiescence the creator holds `[1]`, the subscriber `[]` (the snapshot delivery reset it) -/
theorem ltx_tx_before_first_pull_diverges :
    ∃ net, LTx.run (initC Ex.cu 2) badActs = some net ∧ Quiescent net ∧
      (net.nodes.map fun nd => (Ex.listOf nd.r).live == [.num 1]) = [true, false] ∧
      (net.nodes.map fun nd => (Ex.listOf nd.r).live == []) = [false, true] ∧
      (runC (initC Ex.cu 2) badActs).isSome = false := by
  have hsome : (LTx.run (initC Ex.cu 2) badActs).isSome = true := by decide +kernel
  have hr := Ex.getD_of_isSome hsome
  refine ⟨_, hr, ?_, ?_, ?_, ?_⟩
  · unfold Quiescent
    decide +kernel
  · decide +kernel
  · decide +kernel
  · decide +kernel

end L

/-! # B. maps and counters (`Orda.MTx` with the creating client) -/
namespace M
open Orda Orda.MNet Orda.MTx
open Orda.LTx (isHdr IsUnit flatU nh eraseB eraseL UnitsB UnitsL)
open Orda.FNetC.M (snapOp snapEnt initC EntOKC NodeInvC InvC)

/-! ## 1. the system: `MTx.Step` from `FNetC.M.initC` (creator + subscribers), with the guard on call / tx -/

inductive StepC : Net → Net → Prop
  | call (net : Net) (i : Nat) (nd : Node) (c : Call) (hi : net.nodes[i]? = some nd) (hg : i ≠ 0 → 0 < nd.pulled) :
      StepC net ⟨net.nodes.set i { nd with r := (nd.r.call c).1 }, net.log⟩
  | tx (net : Net) (i : Nat) (nd : Node) (tag : String) (calls : List Call) (stopOnErr failAtEnd : Bool)
      (hi : net.nodes[i]? = some nd) (hg : i ≠ 0 → 0 < nd.pulled) :
      StepC net ⟨net.nodes.set i { nd with r := (nd.r.txCalls tag calls stopOnErr failAtEnd).1 }, net.log⟩
  | pushAll (net : Net) (i : Nat) (nd : Node) (hi : net.nodes[i]? = some nd) :
      StepC net ⟨net.nodes.set i { nd with pushed := nd.r.buffer.length },
                net.log ++ (nd.r.buffer.drop nd.pushed).map (fun o => (i, o))⟩
  | pullAll (net : Net) (i : Nat) (nd : Node) (hi : net.nodes[i]? = some nd) :
      StepC net ⟨net.nodes.set i { nd with r := (nd.r.receive (pullOps net.log i nd)).1, pulled := net.log.length },
                net.log⟩

/-- reachable from the creator `Replica.new typ (cuid 0) true` and `n - 1` fresh subscribers -/
inductive ReachC (typ : DtType) (cuid : Nat → String) (n : Nat) : Net → Prop
  | init (hc : CuidsDistinct cuid n) : ReachC typ cuid n (initC typ cuid n)
  | step {net net' : Net} : ReachC typ cuid n net → StepC net net' → ReachC typ cuid n net'

theorem StepC.toStep {net net' : Net} (h : StepC net net') : MTx.Step net net' := by
  cases h with
  | call i nd c hi hg => exact .call net i nd c hi
  | tx i nd tag calls s f hi hg => exact .tx net i nd tag calls s f hi
  | pushAll i nd hi => exact .pushAll net i nd hi
  | pullAll i nd hi => exact .pullAll net i nd hi

def guardOK (net : Net) (i : Nat) : Bool :=
  match net.nodes[i]? with
  | some nd => decide (i = 0 ∨ 0 < nd.pulled)
  | none => false

/-- the executable form: `MTx.act` + the guard -/
def actC (net : Net) : MTx.Act → Option Net
  | .call i c => if guardOK net i then MTx.act net (.call i c) else none
  | .tx i tag calls s f => if guardOK net i then MTx.act net (.tx i tag calls s f) else none
  | .pushAll i => MTx.act net (.pushAll i)
  | .pullAll i => MTx.act net (.pullAll i)

def runC (net : Net) : List MTx.Act → Option Net
  | [] => some net
  | a :: as => match actC net a with
    | some net' => runC net' as
    | none => none

theorem guard_of_ok {net : Net} {i : Nat} {nd : Node} (hn : net.nodes[i]? = some nd) (h : guardOK net i = true) :
    i ≠ 0 → 0 < nd.pulled := by
  unfold guardOK at h
  rw [hn] at h
  simp only [decide_eq_true_eq] at h
  intro h0
  rcases h with h | h
  · exact absurd h h0
  · exact h

theorem stepC_of_actC {net net' : Net} {a : MTx.Act} (h : actC net a = some net') : StepC net net' := by
  cases a with
  | call i c =>
    simp only [actC] at h
    by_cases hgd : guardOK net i = true
    · rw [if_pos hgd] at h
      simp only [MTx.act] at h
      cases hn : net.nodes[i]? with
      | none => rw [hn] at h; cases h
      | some nd =>
        rw [hn] at h
        simp only [Option.some.injEq] at h
        subst h
        exact .call net i nd c hn (guard_of_ok hn hgd)
    · rw [if_neg hgd] at h; cases h
  | tx i tag calls s f =>
    simp only [actC] at h
    by_cases hgd : guardOK net i = true
    · rw [if_pos hgd] at h
      simp only [MTx.act] at h
      cases hn : net.nodes[i]? with
      | none => rw [hn] at h; cases h
      | some nd =>
        rw [hn] at h
        simp only [Option.some.injEq] at h
        subst h
        exact .tx net i nd tag calls s f hn (guard_of_ok hn hgd)
    · rw [if_neg hgd] at h; cases h
  | pushAll i =>
    simp only [actC, MTx.act] at h
    cases hn : net.nodes[i]? with
    | none => rw [hn] at h; cases h
    | some nd =>
      rw [hn] at h
      simp only [Option.some.injEq] at h
      subst h
      exact .pushAll net i nd hn
  | pullAll i =>
    simp only [actC, MTx.act] at h
    cases hn : net.nodes[i]? with
    | none => rw [hn] at h; cases h
    | some nd =>
      rw [hn] at h
      simp only [Option.some.injEq] at h
      subst h
      exact .pullAll net i nd hn

theorem reachC_run {typ : DtType} {cuid : Nat → String} {n : Nat} : ∀ (as : List MTx.Act) {net net' : Net},
    ReachC typ cuid n net → runC net as = some net' → ReachC typ cuid n net'
  | [], _, _, hr, h => by
    simp only [runC, Option.some.injEq] at h
    exact h ▸ hr
  | a :: as, net, net', hr, h => by
    simp only [runC] at h
    cases ha : actC net a with
    | none => rw [ha] at h; cases h
    | some net1 =>
      rw [ha] at h
      exact reachC_run as (.step hr (stepC_of_actC ha)) h

/-! ## 2–7. Proofs/MapTxNet.lean §2–§7 over `FNetC.M.InvC` (Proofs/FlatNetCreate.lean) -/

/-! ## 2. the invariant of `MapNet` under clock bumps, node replacement, many pushes, many pulls -/

/-- state and buffer as before, same client, the clock not behind -/
def Bump (r r' : Replica) : Prop :=
  r'.state = r.state ∧ r'.buffer = r.buffer ∧ r'.opId.cuid = r.opId.cuid ∧ r.opId.lamport ≤ r'.opId.lamport

/-- `MapNet`'s node invariant only reads state, buffer and clock of the replica, and the clock only from below -/
theorem nodeInv_bump {typ : DtType} {cuid : Nat → String} {n : Nat} {log : List LEnt} {i : Nat} {nd : Node}
    {A : List LEnt} (N : NodeInvC typ cuid n log i nd A) {r' : Replica} (h : Bump nd.r r') :
    NodeInvC typ cuid n log i { nd with r := r' } A := by
  obtain ⟨h1, h2, h3, h5⟩ := h
  exact {
    fresh := N.fresh
    creator := by intro h0; show r'.buffer.head? = _; rw [h2]; exact N.creator h0
    st := by show r'.state = _; rw [h1]; exact N.st
    causal_ops := N.causal_ops
    pushed_le := by show nd.pushed ≤ r'.buffer.length; rw [h2]; exact N.pushed_le
    pulled_le := N.pulled_le
    own_eq := by show own i A = r'.buffer.map _; rw [h2]; exact N.own_eq
    oth_eq := N.oth_eq
    log_own := by show own i log = (r'.buffer.take nd.pushed).map _; rw [h2]; exact N.log_own
    clock_cuid := by show r'.opId.cuid = _; rw [h3]; exact N.clock_cuid
    lam_le := by
      intro e he
      show _ ≤ r'.opId.lamport
      exact Nat.le_trans (N.lam_le e he) h5
    ent_ok := N.ent_ok
    buf_sorted := by show r'.buffer.Pairwise _; rw [h2]; exact N.buf_sorted
    keys := N.keys
    causal := N.causal }

theorem inv_replace {typ : DtType} {cuid : Nat → String} {n : Nat} {net : Net} {ap : Nat → List LEnt}
    (I : InvC typ cuid n net ap) {i : Nat} {nd nd' : Node} {A' : List LEnt} (hi : net.nodes[i]? = some nd)
    (N' : NodeInvC typ cuid n net.log i nd' A') :
    InvC typ cuid n ⟨net.nodes.set i nd', net.log⟩ (upd ap i A') := by
  refine ⟨I.flat, I.distinct, by simp [I.len], ?_, I.log_auth, I.log_keys, I.log_head⟩
  intro j nd'' hj
  rcases getElem?_set_some hj with ⟨rfl, rfl⟩ | ⟨hne, hj'⟩
  · rw [upd_self]; exact N'
  · rw [upd_of_ne hne]; exact I.node j nd'' hj'

theorem inv_bump {typ : DtType} {cuid : Nat → String} {n : Nat} {net : Net} {ap : Nat → List LEnt}
    (I : InvC typ cuid n net ap) {i : Nat} {nd : Node} {r' : Replica} (hi : net.nodes[i]? = some nd)
    (h : Bump nd.r r') : ∃ ap', InvC typ cuid n ⟨net.nodes.set i { nd with r := r' }, net.log⟩ ap' :=
  ⟨_, inv_replace I hi (nodeInv_bump (I.node i nd hi) h)⟩

open Orda.LTx (set_self getElem?_set_self')

/-- what one pull of `MapNet` does to the replica of node `i` -/
def pullF (i : Nat) (r : Replica) (e : LEnt) : Replica := if e.1 = i then r else (r.execRemoteBase e.2).1

/-- MANY pulls of `MapNet` in a row -/
theorem inv_pulls {typ : DtType} {cuid : Nat → String} {n : Nat} {i : Nat} : ∀ (es : List LEnt) (net : Net)
    (ap : Nat → List LEnt) (nd : Node), InvC typ cuid n net ap → net.nodes[i]? = some nd →
    (∀ k (hk : k < es.length), net.log[nd.pulled + k]? = some es[k]) →
    ∃ ap', InvC typ cuid n ⟨net.nodes.set i { nd with r := es.foldl (pullF i) nd.r, pulled := nd.pulled + es.length },
      net.log⟩ ap'
  | [], net, ap, nd, I, hi, _ => by
    refine ⟨ap, ?_⟩
    have : ({ nd with r := ([] : List LEnt).foldl (pullF i) nd.r, pulled := nd.pulled + ([] : List LEnt).length } : Node)
        = nd := rfl
    rw [this, set_self hi]
    exact I
  | e :: es, net, ap, nd, I, hi, hl => by
    obtain ⟨a, o⟩ := e
    have h0 : net.log[nd.pulled]? = some (a, o) := by
      have := hl 0 (Nat.succ_pos _)
      rw [Nat.add_zero] at this
      exact this
    obtain ⟨ap1, I1⟩ := I.pull hi h0
    have hi1 : ∀ nd1 : Node, (net.nodes.set i nd1)[i]? = some nd1 := fun nd1 => getElem?_set_self' hi
    obtain ⟨ap2, I2⟩ := inv_pulls es _ ap1 _ I1 (hi1 _) (by
      intro k hk
      have := hl (k + 1) (by simp; omega)
      simp only [List.getElem_cons_succ] at this
      rw [← this]
      show net.log[nd.pulled + 1 + k]? = net.log[nd.pulled + (k + 1)]?
      rw [Nat.add_assoc, Nat.add_comm 1 k])
    refine ⟨ap2, ?_⟩
    simp only [List.set_set] at I2
    have e1 : nd.pulled + 1 + es.length = nd.pulled + ((a, o) :: es).length := by simp; omega
    rw [e1] at I2
    exact I2

/-- MANY pushes of `MapNet` in a row: the whole rest of the buffer -/
theorem inv_pushes {typ : DtType} {cuid : Nat → String} {n : Nat} {i : Nat} {ap : Nat → List LEnt} : ∀ (k : Nat)
    (net : Net) (nd : Node), InvC typ cuid n net ap → net.nodes[i]? = some nd →
    nd.pushed + k = nd.r.buffer.length →
    InvC typ cuid n ⟨net.nodes.set i { nd with pushed := nd.r.buffer.length },
      net.log ++ (nd.r.buffer.drop nd.pushed).map (fun o => (i, o))⟩ ap
  | 0, net, nd, I, hi, hk => by
    have e1 : ({ nd with pushed := nd.r.buffer.length } : Node) = nd := by
      have : nd.pushed = nd.r.buffer.length := by omega
      cases nd
      simp only at this
      subst this
      rfl
    have e2 : nd.r.buffer.drop nd.pushed = [] := List.drop_eq_nil_of_le (by omega)
    rw [e1, e2, set_self hi]
    simpa using I
  | k + 1, net, nd, I, hi, hk => by
    have hp : nd.pushed < nd.r.buffer.length := by omega
    have ho : nd.r.buffer[nd.pushed]? = some nd.r.buffer[nd.pushed] := List.getElem?_eq_getElem hp
    have I1 := I.push hi ho
    have hi1 : ∀ nd1 : Node, (net.nodes.set i nd1)[i]? = some nd1 := fun nd1 => getElem?_set_self' hi
    have I2 := inv_pushes k _ _ I1 (hi1 _) (by show nd.pushed + 1 + k = nd.r.buffer.length; omega)
    rw [List.set_set] at I2
    have e : nd.r.buffer.drop nd.pushed = nd.r.buffer[nd.pushed] :: nd.r.buffer.drop (nd.pushed + 1) :=
      (List.drop_eq_getElem_cons hp)
    rw [e, List.map_cons, List.append_cons]
    exact I2


/-! ## 3. erasing the headers: the abstraction to a state of `MapNet` (`isHdr`, `eraseB`, `eraseL`, `IsUnit`, `flatU`,
`UnitsB`, `UnitsL` and their lemmas are those of `ListTxNet`: they do not depend on the datatype) -/

open Orda.LTx (eraseB_append eraseL_append eraseL_map filter_drop_len filter_take_len eraseB_all eraseL_snd
  unitsB_nil unitsL_nil unitsB_snoc flatU_append flatU_cons unitsL_append flatU_map_author unitsL_of_B unit_head
  isHdr_false_of wire_hdr applyUnit_single applyUnit_hdr)

theorem oth_eraseL (i : Nat) (l : List LEnt) : oth i (eraseL l) = eraseL (oth i l) := by
  unfold oth eraseL
  rw [List.filter_filter, List.filter_filter]
  congr 1
  funext e
  exact Bool.and_comm _ _

theorem oth_map_self (i : Nat) (u : List Op) : oth i (u.map (fun o => ((i, o) : LEnt))) = [] := by
  simp [oth]

theorem oth_map_ne {i a : Nat} (h : a ≠ i) (u : List Op) :
    oth i (u.map (fun o => ((a, o) : LEnt))) = u.map (fun o => (a, o)) := by
  unfold oth
  rw [List.filter_eq_self]
  intro e he
  obtain ⟨o, _, rfl⟩ := List.mem_map.mp he
  simp [h]

theorem own_map_self (i : Nat) (u : List Op) :
    own i (u.map (fun o => ((i, o) : LEnt))) = u.map (fun o => (i, o)) := by
  unfold own
  rw [List.filter_eq_self]
  intro e he
  obtain ⟨o, _, rfl⟩ := List.mem_map.mp he
  simp

theorem own_map_ne {i a : Nat} (h : a ≠ i) (u : List Op) : own i (u.map (fun o => ((a, o) : LEnt))) = [] := by
  unfold own
  rw [List.filter_eq_nil_iff]
  intro e he
  obtain ⟨o, _, rfl⟩ := List.mem_map.mp he
  simp [h]

theorem map_snd_pair (i : Nat) (l : List Op) : (l.map (fun o => ((i, o) : LEnt))).map (·.2) = l := by
  simp [List.map_map, Function.comp_def]

/-- node `nd0` of `MapNet` is node `nd` of this system with the headers erased -/
structure AbsNode (log : List LEnt) (nd nd0 : Node) : Prop where
  st : nd0.r.state = nd.r.state
  id : nd0.r.opId = nd.r.opId
  buf : nd0.r.buffer = eraseB nd.r.buffer
  pushed : nd0.pushed = (eraseB (nd.r.buffer.take nd.pushed)).length
  pulled : nd0.pulled = (eraseL (log.take nd.pulled)).length

/-- `net0` is `net` with the headers erased from log and buffers -/
structure Abs (net net0 : Net) : Prop where
  log : net0.log = eraseL net.log
  len : net0.nodes.length = net.nodes.length
  node : ∀ (i : Nat) (nd : Node), net.nodes[i]? = some nd → ∃ nd0, net0.nodes[i]? = some nd0 ∧ AbsNode net.log nd nd0

theorem abs_set {net net0 : Net} (h : Abs net net0) {i : Nat} {nd' nd0' : Node} (hn : AbsNode net.log nd' nd0') :
    Abs ⟨net.nodes.set i nd', net.log⟩ ⟨net0.nodes.set i nd0', net0.log⟩ := by
  refine ⟨h.log, by simp [h.len], ?_⟩
  intro j nd hj
  rcases getElem?_set_some hj with ⟨rfl, rfl⟩ | ⟨hne, hj'⟩
  · have hlt : j < net.nodes.length := by
      have := (List.getElem?_eq_some_iff.mp hj).1
      simpa using this
    refine ⟨nd0', ?_, hn⟩
    show (net0.nodes.set j nd0')[j]? = some nd0'
    rw [List.getElem?_set_self (by rw [h.len]; exact hlt)]
  · obtain ⟨nd0, h1, h2⟩ := h.node j nd hj'
    refine ⟨nd0, ?_, h2⟩
    show (net0.nodes.set i nd0')[j]? = some nd0
    rw [List.getElem?_set_ne (fun e => hne e.symm)]
    exact h1

/-! ## 4. calls and transaction bodies only read state and clock -/

open Orda.LTx (call_view call_of_exec_ok)

/-- an operation node `i` queues: an operation of the datatype (hence not a header), carries the client identifier of `i` -/
structure GoodOp (typ : DtType) (cuid : Nat → String) (i : Nat) (o : Op) : Prop where
  ok : OpOK typ o
  cu : o.id.cuid = cuid i

theorem GoodOp.nh {typ : DtType} {cuid : Nat → String} {i : Nat} {o : Op} (g : GoodOp typ cuid i o) : isHdr o = false :=
  opOK_not_hdr g.ok

theorem nodeInv_flatState {typ : DtType} {cuid : Nat → String} {n : Nat} {log : List LEnt} {i : Nat} {nd : Node}
    {A : List LEnt} (N : NodeInvC typ cuid n log i nd A) (hf : Flat typ) : FlatState nd.r.state := by
  rw [N.st]; exact flatState_sem hf _

/-- what a call queues, from `MapNet`'s case analysis -/
theorem call_new_good {typ : DtType} {cuid : Nat → String} {n : Nat} {log : List LEnt} {i : Nat} {nd : Node}
    {A : List LEnt} (N : NodeInvC typ cuid n log i nd A) (hf : Flat typ) (c : Call) {new : List Op}
    (hb : (nd.r.call c).1.buffer = nd.r.buffer ++ new) :
    nd.r.opId.lamport ≤ (nd.r.call c).1.opId.lamport ∧
    (new = [] ∨ ∃ o, new = [o] ∧ GoodOp typ cuid i o ∧ o.id.lamport = nd.r.opId.lamport + 1 ∧
      (nd.r.call c).1.opId.lamport = nd.r.opId.lamport + 1) := by
  rcases call_cases hf nd.r (opsOf A) N.st N.causal_ops c with h | ⟨o, hbuf, hid, hop, hst, hok, hneeds⟩
  · rw [h] at hb ⊢
    refine ⟨Nat.le_refl _, Or.inl ?_⟩
    have := congrArg List.length hb
    simp only [List.length_append] at this
    exact List.eq_nil_of_length_eq_zero (by omega)
  · rw [hbuf] at hb
    have hn : new = [o] := (List.append_cancel_left hb).symm
    refine ⟨by rw [hop]; simp [OpId.next], Or.inr ⟨o, hn, ⟨hok, ?_⟩, by rw [hid]; rfl, by rw [hop]; rfl⟩⟩
    rw [hid]
    exact N.clock_cuid

/-- **the body of a transaction, seen from `MapNet`**: an abstract replica `ar` (same state and clock, the buffer
    of `MapNet`) that issues the successful operations as plain calls stays in `MapNet`'s node invariant; the body never
    panics; the operations it records are good and newer than the clock at the start -/
theorem body_sim {typ : DtType} {cuid : Nat → String} {n : Nat} {log0 : List LEnt} {i pu pl : Nat} (hf : Flat typ)
    (hin : i < n) (hgd : i ≠ 0 → 0 < pl) (stop : Bool) :
    ∀ (calls : List Call) (r : Replica) (acc : List Op) (outs : List (Outcome Ret)) (ar : Replica) (A : List LEnt),
    ar.state = r.state → ar.opId = r.opId → NodeInvC typ cuid n log0 i ⟨ar, pu, pl⟩ A →
    ∀ {r1 ops outs' stopped pan}, Replica.txCalls.body stop r acc outs calls = (r1, ops, outs', stopped, pan) →
    pan = none ∧ ∃ ar1 A1 new, ops = acc ++ new ∧ ar1.state = r1.state ∧ ar1.opId = r1.opId ∧
      ar1.buffer = ar.buffer ++ new.map Op.wire ∧ NodeInvC typ cuid n log0 i ⟨ar1, pu, pl⟩ A1 ∧
      (∀ o ∈ new, GoodOp typ cuid i o.wire ∧ ar.opId.lamport < o.id.lamport) ∧
      ar.opId.lamport ≤ ar1.opId.lamport := by
  intro calls
  induction calls with
  | nil =>
    intro r acc outs ar A hs hid N r1 ops outs' stopped pan h
    simp only [Replica.txCalls.body, Prod.mk.injEq] at h
    obtain ⟨h1, h2, _, _, h5⟩ := h
    subst h1 h2 h5
    exact ⟨rfl, ar, A, [], by simp, hs, hid, by simp, N, by simp, Nat.le_refl _⟩
  | cons c cs ih =>
    intro r acc outs ar A hs hid N r1 ops outs' stopped pan h
    have stay : ∀ {r1' ops' outs'' stopped' pan'}, (r1', ops', outs'', stopped', pan') = (r1, ops, outs', stopped, pan) →
        r1' = r → ops' = acc → pan' = none →
        pan = none ∧ ∃ ar1 A1 new, ops = acc ++ new ∧ ar1.state = r1.state ∧ ar1.opId = r1.opId ∧
          ar1.buffer = ar.buffer ++ new.map Op.wire ∧ NodeInvC typ cuid n log0 i ⟨ar1, pu, pl⟩ A1 ∧
          (∀ o ∈ new, GoodOp typ cuid i o.wire ∧ ar.opId.lamport < o.id.lamport) ∧
          ar.opId.lamport ≤ ar1.opId.lamport := by
      intro r1' ops' outs'' stopped' pan' e e1 e2 e3
      simp only [Prod.mk.injEq] at e
      obtain ⟨h1, h2, _, _, h5⟩ := e
      subst e1 e2 e3 h1 h2
      exact ⟨h5.symm, ar, A, [], by simp, hs, hid, by simp, N, by simp, Nat.le_refl _⟩
    have hfl : FlatState r.state := hs ▸ nodeInv_flatState N hf
    rw [Replica.txCalls.body] at h
    split at h
    · exact ih _ _ _ _ _ hs hid N h
    · split at h
      · exact stay h rfl rfl rfl
      · exact ih _ _ _ _ _ hs hid N h
    · rename_i w hprep
      have := prepare_flat_done hfl hprep
      simp [Outcome.isPanic] at this
    · rename_i b post hprep
      rcases he : r.execLocalBase b with ⟨r', (⟨op, ret⟩ | e | w)⟩ <;> rw [he] at h <;> simp only [] at h
      · obtain ⟨c1, c2, c3⟩ := call_of_exec_ok hs hid hprep he
        obtain ⟨A', N'⟩ := N.call hf hin c hgd
        obtain ⟨hmono, hnew⟩ := call_new_good N hf c (new := [op.wire]) c3
        have hgood : GoodOp typ cuid i op.wire ∧ op.wire.id.lamport = ar.opId.lamport + 1 ∧
            (ar.call c).1.opId.lamport = ar.opId.lamport + 1 := by
          rcases hnew with h0 | ⟨o, h0, g, g1, g2⟩
          · cases h0
          · simp only [List.cons.injEq, and_true] at h0
            subst h0
            exact ⟨g, g1, g2⟩
        obtain ⟨hp, ar1, A1, new, e1, e2, e3, e4, N1, e5, e6⟩ := ih r' (acc ++ [op]) _ (ar.call c).1 A' c1 c2 N' h
        refine ⟨hp, ar1, A1, op :: new, by simp [e1], e2, e3, by simp [e4, c3], N1, ?_, ?_⟩
        · intro o ho
          rcases List.mem_cons.mp ho with rfl | ho
          · exact ⟨hgood.1, by have := hgood.2.1; rw [wire_id] at this; omega⟩
          · obtain ⟨g1, g2⟩ := e5 o ho
            exact ⟨g1, by have := hgood.2.2; omega⟩
        · have := hgood.2.2; omega
      · have := execLocalBase_err he
        subst this
        split at h
        · exact stay h rfl rfl rfl
        · exact ih _ _ _ _ _ hs hid N h
      · exact (execLocalBase_no_panic hfl he).elim

/-! ## 5. `receive` of a sequence of units, seen from `MapNet` -/

open Orda.LTx (Le exS exS_state le_exec sync_mono)

theorem le_hdr {S R : Replica} (h : Le S R) (hs : FlatState R.state) {o : Op} (ho : isHdr o = true)
    (x : List Op) : Le S { exS R o with rbOps := x } := by
  refine ⟨?_, ?_, ?_, ?_⟩
  · show S.state = (exS R o).state
    rw [exS_state, execRemote_hdr hs _ ho, h.st]
  · show S.opId.cuid = (exS R o).opId.cuid
    unfold exS
    rw [execRemoteBase_opId, sync_cuid]; exact h.cu
  · show S.opId.era = (exS R o).opId.era
    unfold exS
    rw [execRemoteBase_opId, LNet.sync_era]; exact h.era
  · show S.opId.lamport ≤ (exS R o).opId.lamport
    unfold exS
    rw [execRemoteBase_opId]; exact Nat.le_trans h.lam (sync_lam _ _).1

/-- the operations of a unit are executed one after the other, none panics -/
theorem go_sim : ∀ (ops : List Op) (S R : Replica), Le S R → FlatState R.state →
    ∃ R', Replica.applyUnit.go R ops = (R', .ok ()) ∧ Le (ops.foldl exS S) R' ∧ FlatState R'.state
  | [], S, R, h, hs => ⟨R, by unfold Replica.applyUnit.go; rfl, h, hs⟩
  | o :: os, S, R, h, hs => by
    obtain ⟨h1, h2⟩ := execRemoteBase_flat R hs o
    rw [applyUnit_go_cons]
    have e : R.execRemoteBase o = (exS R o, none) := by
      unfold exS
      rw [← h1]
    rw [e]
    simp only []
    exact go_sim os (exS S o) _ (le_exec h o _) h2

theorem go_single_hdr {S R : Replica} (h : Le S R) (hs : FlatState R.state) {o : Op} (ho : isHdr o = true) :
    ∃ R', Replica.applyUnit.go R [o] = (R', .ok ()) ∧ Le S R' ∧ FlatState R'.state := by
  obtain ⟨h1, h2⟩ := execRemoteBase_flat R hs o
  have e : R.execRemoteBase o = (exS R o, none) := by
    unfold exS
    rw [← h1]
  refine ⟨{ exS R o with rbOps := (exS R o).rbOps ++ [o] }, ?_, le_hdr h hs ho _, h2⟩
  rw [applyUnit_go_cons, e]
  simp only []
  unfold Replica.applyUnit.go
  rfl

/-- **one unit**: applied completely, never refused, never a panic; on the `MapNet` side: its plain operations -/
theorem unit_sim {u : List Op} (hu : IsUnit u) {S R : Replica} (h : Le S R) (hs : FlatState R.state) :
    ∃ R', R.applyUnit u = (R', .ok ()) ∧ Le ((eraseB u).foldl exS S) R' ∧ FlatState R'.state := by
  rcases hu with ⟨o, rfl, ho⟩ | ⟨id, tag, ops, rfl, hops⟩
  · rw [applyUnit_single, eraseB_all (by simpa using ho)]
    exact go_sim [o] S R h hs
  · cases ops with
    | nil =>
      rw [applyUnit_single]
      have hh : isHdr (⟨id, .transaction tag ((([] : List Op).length : Int) + 1)⟩ : Op) = true := rfl
      have : eraseB [(⟨id, .transaction tag ((([] : List Op).length : Int) + 1)⟩ : Op)] = [] := rfl
      rw [this]
      exact go_single_hdr h hs hh
    | cons o ops =>
      rw [applyUnit_hdr]
      have : eraseB ((⟨id, .transaction tag (((o :: ops).length : Int) + 1)⟩ : Op) :: o :: ops) = o :: ops := by
        have hh : isHdr (⟨id, .transaction tag (((o :: ops).length : Int) + 1)⟩ : Op) = true := rfl
        show List.filter nh _ = _
        rw [List.filter_cons]
        simp only [nh, hh, Bool.not_true, Bool.false_eq_true, if_false]
        exact eraseB_all hops
      rw [this]
      exact go_sim (o :: ops) S R h hs

theorem foldl_pullF_own (i : Nat) : ∀ (b : List Op) (S : Replica),
    (b.map (fun o => ((i, o) : LEnt))).foldl (pullF i) S = S
  | [], S => rfl
  | o :: os, S => by
    simp only [List.map_cons, List.foldl_cons, pullF, if_true]
    exact foldl_pullF_own i os S

theorem foldl_pullF_other {i a : Nat} (h : a ≠ i) : ∀ (b : List Op) (S : Replica),
    (b.map (fun o => ((a, o) : LEnt))).foldl (pullF i) S = b.foldl exS S
  | [], S => rfl
  | o :: os, S => by
    simp only [List.map_cons, List.foldl_cons, pullF, if_neg h]
    exact foldl_pullF_other h os _

/-- **`receive` of the foreign units of a stretch of the log**: every unit is applied, the result is `.ok ()`; on the
    `MapNet` side the plain entries of the stretch are pulled one by one (own entries skipped) -/
theorem recv_sim (i : Nat) : ∀ (units : List (Nat × List Op)), (∀ au ∈ units, IsUnit au.2) →
    ∀ (fuel : Nat) (S R : Replica), Le S R → FlatState R.state →
    ((oth i (flatU units)).map (·.2)).length ≤ fuel →
    ∃ R', Replica.receive.go fuel R ((oth i (flatU units)).map (·.2)) = (R', .ok ()) ∧
      Le ((eraseL (flatU units)).foldl (pullF i) S) R' ∧ FlatState R'.state
  | [], _, fuel, S, R, h, hs, _ => ⟨R, by simp [flatU, oth, receive_go_nil], h, hs⟩
  | (a, u) :: units, hall, fuel, S, R, h, hs, hf => by
    have hall' : ∀ au ∈ units, IsUnit au.2 := fun au hau => hall au (List.mem_cons_of_mem _ hau)
    have hu := hall (a, u) List.mem_cons_self
    simp only at hu
    rw [flatU_cons, oth_append, eraseL_append, List.foldl_append, eraseL_map] at *
    by_cases ha : a = i
    · subst ha
      simp only [oth_map_self, List.nil_append, foldl_pullF_own] at hf ⊢
      exact recv_sim a units hall' fuel S R h hs hf
    · simp only [oth_map_ne ha, foldl_pullF_other ha, List.map_append, List.map_map] at hf ⊢
      have em : (u.map ((fun e : LEnt => e.2) ∘ fun o => ((a, o) : LEnt))) = u := by
        simp [Function.comp_def]
      rw [em] at hf ⊢
      obtain ⟨o, tl, rfl, hlen, hbad⟩ := unit_head hu
      cases fuel with
      | zero => simp at hf
      | succ fuel =>
        rw [List.cons_append, receive_go_succ, ← List.cons_append]
        rw [hbad _ (by simp)]
        simp only [Bool.false_eq_true, if_false, hlen, List.take_left', List.drop_left']
        obtain ⟨R1, g1, g2, g3⟩ := unit_sim hu h hs
        rw [g1]
        simp only []
        exact recv_sim i units hall' fuel _ R1 g2 g3 (by simp at hf ⊢; omega)

theorem foldl_pullF_buffer (i : Nat) : ∀ (es : List LEnt) (S : Replica), (es.foldl (pullF i) S).buffer = S.buffer
  | [], S => rfl
  | e :: es, S => by
    rw [List.foldl_cons, foldl_pullF_buffer i es]
    unfold pullF
    split
    · rfl
    · exact execRemoteBase_buffer _ _


/-! ## 6. the invariant of the system -/

/-- the real (header-carrying) side: the snapshot operation heads the creator's buffer and the log; a subscriber that has
    pulled nothing has queued nothing (the guard) -/
structure HeadOK (typ : DtType) (cuid : Nat → String) (net : Net) : Prop where
  log_head : ∀ e, net.log[0]? = some e → e = snapEnt typ cuid
  creator : ∀ nd, net.nodes[0]? = some nd → nd.r.buffer.head? = some (snapOp typ cuid)
  fresh : ∀ i nd, net.nodes[i]? = some nd → i ≠ 0 → nd.pulled = 0 → nd.r.buffer = []

/-- the guard on the real side gives the guard on the header-free side: the first log entry is not a header -/
theorem guard0 {typ : DtType} {cuid : Nat → String} {net : Net} (H : HeadOK typ cuid net) {nd nd0 : Node} (An : AbsNode net.log nd nd0)
    (hg : 0 < nd.pulled) (hle : nd.pulled ≤ net.log.length) : 0 < nd0.pulled := by
  rw [An.pulled]
  cases hlog : net.log with
  | nil => rw [hlog] at hle; simp at hle; omega
  | cons e t =>
    have he := H.log_head e (by rw [hlog]; rfl)
    subst he
    obtain ⟨p, hp⟩ : ∃ p, nd.pulled = p + 1 := ⟨nd.pulled - 1, by omega⟩
    rw [hp, List.take_succ_cons]
    have : nh (snapEnt typ cuid).2 = true := rfl
    simp only [eraseL, List.filter_cons, this, if_true, List.length_cons]
    omega

namespace HeadOK
variable {typ : DtType} {cuid : Nat → String} {net : Net}

/-- node `i` appends to its buffer (after its first pull if it is a subscriber) or keeps it; `pulled` does not decrease -/
theorem set (H : HeadOK typ cuid net) {i : Nat} {nd nd' : Node} (hi : net.nodes[i]? = some nd)
    (hb : ∃ u, nd'.r.buffer = nd.r.buffer ++ u) (hp : nd.pulled ≤ nd'.pulled)
    (hg : (i ≠ 0 → 0 < nd.pulled) ∨ nd'.r.buffer = nd.r.buffer) :
    HeadOK typ cuid ⟨net.nodes.set i nd', net.log⟩ := by
  refine ⟨H.log_head, ?_, ?_⟩
  · intro nd0 h0
    rcases getElem?_set_some h0 with ⟨h1, rfl⟩ | ⟨hne, h0'⟩
    · subst h1
      obtain ⟨u, hu⟩ := hb
      rw [hu]
      have hc := H.creator nd hi
      cases hbb : nd.r.buffer with
      | nil => rw [hbb] at hc; cases hc
      | cons b0 bt => rw [hbb] at hc; simpa using hc
    · exact H.creator nd0 h0'
  · intro j ndj hj hj0 hpj
    rcases getElem?_set_some hj with ⟨h1, rfl⟩ | ⟨hne, hj'⟩
    · subst h1
      have hp0 : nd.pulled = 0 := by omega
      rcases hg with hg | hg
      · have := hg hj0; omega
      · rw [hg]; exact H.fresh j nd hi hj0 hp0
    · exact H.fresh j ndj hj' hj0 hpj

theorem pushAll (H : HeadOK typ cuid net) {i : Nat} {nd : Node} (hi : net.nodes[i]? = some nd)
    (hpl : nd.pulled ≤ net.log.length) (hown : own i net.log = (nd.r.buffer.take nd.pushed).map (fun o => (i, o))) :
    HeadOK typ cuid ⟨net.nodes.set i { nd with pushed := nd.r.buffer.length },
      net.log ++ (nd.r.buffer.drop nd.pushed).map (fun o => (i, o))⟩ := by
  refine ⟨?_, ?_, ?_⟩
  · intro e he
    have he' : (net.log ++ (nd.r.buffer.drop nd.pushed).map (fun o => ((i, o) : LEnt)))[0]? = some e := he
    cases hlog : net.log with
    | cons e0 t =>
      rw [hlog] at he'
      simp only [List.cons_append, List.getElem?_cons_zero, Option.some.injEq] at he'
      subst he'
      exact H.log_head e0 (by rw [hlog]; rfl)
    | nil =>
      rw [hlog, List.nil_append] at he'
      have hpl0 : nd.pulled = 0 := by rw [hlog] at hpl; simpa using hpl
      by_cases h0 : i = 0
      · subst h0
        have hc := H.creator nd hi
        have h2 : (nd.r.buffer.take nd.pushed).length = 0 := by
          have := congrArg List.length hown
          rw [hlog] at this
          simpa [own] using this.symm
        cases hb : nd.r.buffer with
        | nil => rw [hb] at hc; cases hc
        | cons b0 bt =>
          rw [hb] at hc h2
          simp only [List.head?_cons, Option.some.injEq] at hc
          have h3 : nd.pushed = 0 := by
            rw [List.length_take] at h2
            simp only [List.length_cons] at h2
            omega
          rw [hb, h3] at he'
          simp only [List.drop_zero, List.map_cons, List.getElem?_cons_zero, Option.some.injEq] at he'
          rw [← he', hc]; rfl
      · have := H.fresh i nd hi h0 hpl0
        rw [this] at he'
        simp at he'
  · intro nd0 h0
    rcases getElem?_set_some h0 with ⟨h1, rfl⟩ | ⟨hne, h0'⟩
    · subst h1; exact H.creator nd hi
    · exact H.creator nd0 h0'
  · intro j ndj hj hj0 hpj
    rcases getElem?_set_some hj with ⟨h1, rfl⟩ | ⟨hne, hj'⟩
    · subst h1; exact H.fresh j nd hi hj0 hpj
    · exact H.fresh j ndj hj' hj0 hpj

end HeadOK

/-- what is known about a node beyond its `MapNet` image -/
structure NodeOK (cuid : Nat → String) (log : List LEnt) (i : Nat) (nd : Node) : Prop where
  rb : nd.r.RbInv
  pushed_le : nd.pushed ≤ nd.r.buffer.length
  pulled_le : nd.pulled ≤ log.length
  /-- the unpushed rest of the buffer is a concatenation of units -/
  rest_units : UnitsB (nd.r.buffer.drop nd.pushed)
  /-- `pulled` sits at a unit boundary: the unconsumed rest of the log is a concatenation of units -/
  pull_units : UnitsL (log.drop nd.pulled)
  buf_ok : ∀ o ∈ nd.r.buffer, o.id.cuid = cuid i
  log_own : own i log = (nd.r.buffer.take nd.pushed).map (fun o => (i, o))
  buf_sorted : nd.r.buffer.Pairwise (fun o o' => o.id.lamport < o'.id.lamport)
  buf_lam : ∀ o ∈ nd.r.buffer, o.id.lamport ≤ nd.r.opId.lamport

structure TInvC (typ : DtType) (cuid : Nat → String) (n : Nat) (net : Net) : Prop where
  /-- erasing the headers gives a state that satisfies `MapNet`'s invariant -/
  sim : ∃ net0 ap, InvC typ cuid n net0 ap ∧ Abs net net0
  node : ∀ (i : Nat) (nd : Node), net.nodes[i]? = some nd → NodeOK cuid net.log i nd
  /-- ONE decomposition of the log into units, and every `pulled` sits at one of ITS boundaries -/
  log_units : ∃ units : List (Nat × List Op), net.log = flatU units ∧ (∀ au ∈ units, IsUnit au.2) ∧
    ∀ (i : Nat) (nd : Node), net.nodes[i]? = some nd → ∃ k, nd.pulled = (flatU (units.take k)).length
  log_ok : ∀ e ∈ net.log, e.1 < n ∧ e.2.id.cuid = cuid e.1
  /-- headers included: no two entries of the log carry the same (lamport, client) -/
  log_keys : net.log.Pairwise (fun e e' => lkey e ≠ lkey e')
  /-- the snapshot operation heads the creator's buffer and the log; a subscriber that has pulled nothing has queued nothing -/
  head : HeadOK typ cuid net

theorem AbsNode.extend {log : List LEnt} {nd nd0 : Node} (An : AbsNode log nd nd0)
    (hp : nd.pushed ≤ nd.r.buffer.length) {r' r0' : Replica} {u : List Op}
    (hs : r0'.state = r'.state) (hid : r0'.opId = r'.opId) (hb : r'.buffer = nd.r.buffer ++ u)
    (hb0 : r0'.buffer = nd0.r.buffer ++ eraseB u) :
    AbsNode log { nd with r := r' } { nd0 with r := r0' } where
  st := hs
  id := hid
  buf := by
    show r0'.buffer = eraseB r'.buffer
    rw [hb0, hb, eraseB_append, An.buf]
  pushed := by
    show nd0.pushed = (eraseB (r'.buffer.take nd.pushed)).length
    rw [hb, List.take_append_of_le_length hp]
    exact An.pushed
  pulled := An.pulled

theorem NodeOK.extend {cuid : Nat → String} {log : List LEnt} {i : Nat} {nd : Node} (K : NodeOK cuid log i nd)
    {r' : Replica} {u : List Op} (hb : r'.buffer = nd.r.buffer ++ u) (hu : u = [] ∨ IsUnit u) (hrb : r'.RbInv)
    (hgood : ∀ o ∈ u, o.id.cuid = cuid i ∧ nd.r.opId.lamport < o.id.lamport ∧ o.id.lamport ≤ r'.opId.lamport)
    (hsorted : u.Pairwise (fun o o' => o.id.lamport < o'.id.lamport))
    (hmono : nd.r.opId.lamport ≤ r'.opId.lamport) : NodeOK cuid log i { nd with r := r' } where
  rb := hrb
  pushed_le := by
    show nd.pushed ≤ r'.buffer.length
    rw [hb, List.length_append]
    exact Nat.le_trans K.pushed_le (Nat.le_add_right _ _)
  pulled_le := K.pulled_le
  rest_units := by
    show UnitsB (r'.buffer.drop nd.pushed)
    rw [hb, List.drop_append_of_le_length K.pushed_le]
    rcases hu with rfl | hu
    · simpa using K.rest_units
    · exact unitsB_snoc K.rest_units hu
  pull_units := K.pull_units
  buf_ok := by
    intro o ho
    change o ∈ r'.buffer at ho
    rw [hb] at ho
    rcases List.mem_append.mp ho with h | h
    · exact K.buf_ok o h
    · exact (hgood o h).1
  log_own := by
    show own i log = (r'.buffer.take nd.pushed).map _
    rw [hb, List.take_append_of_le_length K.pushed_le]
    exact K.log_own
  buf_sorted := by
    show r'.buffer.Pairwise _
    rw [hb]
    refine List.pairwise_append.mpr ⟨K.buf_sorted, hsorted, ?_⟩
    intro a ha b hb'
    have := K.buf_lam a ha
    have := (hgood b hb').2.1
    omega
  buf_lam := by
    intro o ho
    change o ∈ r'.buffer at ho
    show _ ≤ r'.opId.lamport
    rw [hb] at ho
    rcases List.mem_append.mp ho with h | h
    · exact Nat.le_trans (K.buf_lam o h) hmono
    · exact (hgood o h).2.2

namespace TInvC
variable {typ : DtType} {cuid : Nat → String} {n : Nat} {net : Net}

theorem at_node (T : TInvC typ cuid n net) {i : Nat} {nd : Node} (hi : net.nodes[i]? = some nd) :
    ∃ net0 ap nd0, InvC typ cuid n net0 ap ∧ Abs net net0 ∧ net0.nodes[i]? = some nd0 ∧ AbsNode net.log nd nd0 ∧
      i < n := by
  obtain ⟨net0, ap, I, Ab⟩ := T.sim
  obtain ⟨nd0, h0, An⟩ := Ab.node i nd hi
  exact ⟨net0, ap, nd0, I, Ab, h0, An, I.lt_of_node h0⟩

theorem set_node (T : TInvC typ cuid n net) {i : Nat} {nd nd' : Node} {net0' : Net} {ap' : Nat → List LEnt}
    (hi : net.nodes[i]? = some nd) (hpl : nd'.pulled = nd.pulled ∨ nd'.pulled = net.log.length)
    (I : InvC typ cuid n net0' ap') (A : Abs ⟨net.nodes.set i nd', net.log⟩ net0') (K : NodeOK cuid net.log i nd')
    (H : HeadOK typ cuid ⟨net.nodes.set i nd', net.log⟩) :
    TInvC typ cuid n ⟨net.nodes.set i nd', net.log⟩ where
  sim := ⟨net0', ap', I, A⟩
  node := by
    intro j nd hj
    rcases getElem?_set_some hj with ⟨rfl, rfl⟩ | ⟨hne, hj'⟩
    · exact K
    · exact T.node j nd hj'
  log_units := by
    obtain ⟨units, h1, h2, h3⟩ := T.log_units
    refine ⟨units, h1, h2, ?_⟩
    intro j ndj hj
    rcases getElem?_set_some hj with ⟨rfl, rfl⟩ | ⟨hne, hj'⟩
    · rcases hpl with h | h
      · obtain ⟨k, hk⟩ := h3 j nd hi
        exact ⟨k, h.trans hk⟩
      · exact ⟨units.length, by rw [h, List.take_length, ← h1]⟩
    · exact h3 j ndj hj'
  log_ok := T.log_ok
  log_keys := T.log_keys
  head := H

end TInvC

/-! ### the steps -/

namespace TInvC
variable {typ : DtType} {cuid : Nat → String} {n : Nat} {net : Net}

/-- a public call -/
theorem call (T : TInvC typ cuid n net) {i : Nat} {nd : Node} (hi : net.nodes[i]? = some nd) (c : Call)
    (hg : i ≠ 0 → 0 < nd.pulled) :
    TInvC typ cuid n ⟨net.nodes.set i { nd with r := (nd.r.call c).1 }, net.log⟩ := by
  obtain ⟨net0, ap, nd0, I, Ab, h0, An, hin⟩ := T.at_node hi
  have hf := I.flat
  have N0 := I.node i nd0 h0
  have K := T.node i nd hi
  obtain ⟨v1, v2, new, v3, v4⟩ := call_view nd.r nd0.r c An.st An.id
  obtain ⟨hmono, hnew⟩ := call_new_good N0 hf c v3
  obtain ⟨ap', I'⟩ := I.call c h0 (fun h' => guard0 T.head An (hg h') K.pulled_le)
  have hfl : FlatState nd.r.state := An.st ▸ nodeInv_flatState N0 hf
  have hnp := call_no_panic nd.r hfl c
  have hnh : ∀ o ∈ new, isHdr o = false := by
    intro o ho
    rcases hnew with rfl | ⟨o', rfl, g, _⟩
    · cases ho
    · simp only [List.mem_singleton] at ho; subst ho; exact g.nh
  refine T.set_node hi (Or.inl rfl) I' (abs_set Ab ?_) ?_ (T.head.set hi ⟨_, v4⟩ (Nat.le_refl _) (Or.inl hg))
  · exact An.extend K.pushed_le v1 v2 v4 (by rw [v3, eraseB_all hnh])
  · refine K.extend v4 ?_ (rbInv_call nd.r c K.rb hnp) ?_ ?_ ?_
    · rcases hnew with rfl | ⟨o', rfl, g, _⟩
      · exact Or.inl rfl
      · exact Or.inr (Or.inl ⟨o', rfl, g.nh⟩)
    · intro o ho
      rcases hnew with rfl | ⟨o', rfl, g, g1, g2⟩
      · cases ho
      · simp only [List.mem_singleton] at ho
        subst ho
        rw [← v2, ← An.id]
        exact ⟨g.cu, by omega, by omega⟩
    · rcases hnew with rfl | ⟨o', rfl, _⟩
      · exact List.Pairwise.nil
      · exact List.pairwise_singleton _ _
    · rw [← v2, ← An.id]; exact hmono

end TInvC

/-- what a transaction does to a replica of a reachable node (`nd0`, `N0`: its `MapNet` image): either NOTHING
    (state, clock, buffer, checkpoint as before: the body failed and the rollback restored everything) or ONE unit
    `header :: ops` is appended; it never panics -/
theorem tx_cases {typ : DtType} {cuid : Nat → String} {n : Nat} {log0 : List LEnt} {i : Nat} {nd0 : Node}
    {A : List LEnt} (hf : Flat typ) (N0 : NodeInvC typ cuid n log0 i nd0 A) (hin : i < n)
    (hgd : i ≠ 0 → 0 < nd0.pulled) (r : Replica)
    (hs : nd0.r.state = r.state) (hid : nd0.r.opId = r.opId) (hrb : r.RbInv) (tag : String) (calls : List Call)
    (s f : Bool) :
    let r' := (r.txCalls tag calls s f).1
    r'.RbInv ∧
    ((∃ c, (r.txCalls tag calls s f).2.2 = .err c ∧ r'.opId = r.opId ∧ r'.state = r.state ∧ r'.buffer = r.buffer ∧
        r'.cp = r.cp) ∨
     ((r.txCalls tag calls s f).2.2 = .ok () ∧
      ∃ (ops : List Op) (ar1 : Replica) (A1 : List LEnt),
        r'.buffer = r.buffer ++ (⟨r.opId.next, .transaction tag ((ops.length : Int) + 1)⟩ :: ops) ∧
        ar1.state = r'.state ∧ ar1.opId = r'.opId ∧ ar1.buffer = nd0.r.buffer ++ ops ∧
        NodeInvC typ cuid n log0 i ⟨ar1, nd0.pushed, nd0.pulled⟩ A1 ∧
        (∀ o ∈ ops, GoodOp typ cuid i o ∧ r.opId.lamport + 1 < o.id.lamport) ∧
        r.opId.lamport + 1 ≤ r'.opId.lamport)) := by
  intro r'
  have Nb : NodeInvC typ cuid n log0 i ⟨{ nd0.r with opId := nd0.r.opId.next }, nd0.pushed, nd0.pulled⟩ A :=
    nodeInv_bump N0 (r' := { nd0.r with opId := nd0.r.opId.next }) ⟨rfl, rfl, rfl, by simp [OpId.next]⟩
  obtain ⟨r1, ops, outs, stopped, pan, hb, hc⟩ := txCalls_cases r tag calls s f
  obtain ⟨hpan, ar1, A1, new, e1, e2, e3, e4, N1, e5, e6⟩ :=
    body_sim hf hin hgd s calls { r with opId := r.opId.next } [] [] { nd0.r with opId := nd0.r.opId.next } A hs
      (by show nd0.r.opId.next = r.opId.next; rw [hid]) Nb hb
  subst hpan
  simp only [List.nil_append] at e1
  subst e1
  have hbo := body_ok _ _ _ _ _ hb
  have hfr : r1.frame r = r1 := hbo.frame
  rcases hc with ⟨w, hw, _⟩ | ⟨_, hst, e⟩ | ⟨_, hst, e⟩
  · cases hw
  · obtain ⟨r2, hr, g1, g2, g3, g4, g5, g6, g7⟩ := rollback_of_rbInv hrb hfr
    rw [hr] at e
    simp only at e
    have er : r' = r2 := by show (r.txCalls tag calls s f).1 = r2; rw [e]
    rw [er]
    refine ⟨rbInv_of_rb_eq (by rw [g5, g1]) (by rw [g6, g2]) g7, Or.inl ⟨Err.transaction, by rw [e], g1, g2, g3, g4⟩⟩
  · have hp : (r.txCalls tag calls s f).2.2.isPanic = false := by rw [e]; rfl
    have hrb' := rbInv_txCalls r tag calls s f hrb hp
    obtain ⟨_, f2, _⟩ := frame_fields hfr
    have er : r' =
        { r1 with
          rbOps := r1.rbOps ++ (⟨r.opId.next, .transaction tag (ops.length + 1)⟩ :: ops),
          buffer := r1.buffer ++ (⟨r.opId.next, .transaction tag (ops.length + 1)⟩ :: ops).map Op.wire } := by
      show (r.txCalls tag calls s f).1 = _; rw [e]
    refine ⟨hrb', Or.inr ⟨by rw [e], ops.map Op.wire, ar1, A1, ?_, ?_, ?_, e4, N1, ?_, ?_⟩⟩
    · rw [er]
      show r1.buffer ++ _ = _
      rw [f2, List.map_cons, wire_hdr, List.length_map]
    · rw [er]; exact e2
    · rw [er]; exact e3
    · intro o ho
      obtain ⟨o', ho', rfl⟩ := List.mem_map.mp ho
      obtain ⟨g1, g2⟩ := e5 o' ho'
      refine ⟨g1, ?_⟩
      rw [wire_id]
      have : ({ nd0.r with opId := nd0.r.opId.next } : Replica).opId.lamport = r.opId.lamport + 1 := by
        show nd0.r.opId.next.lamport = _; rw [hid]; rfl
      omega
    · rw [er]
      show r.opId.lamport + 1 ≤ r1.opId.lamport
      rw [← e3]
      have : ({ nd0.r with opId := nd0.r.opId.next } : Replica).opId.lamport = r.opId.lamport + 1 := by
        show nd0.r.opId.next.lamport = _; rw [hid]; rfl
      omega

theorem hdr_cons_erase (id : OpId) (tag : String) {ops : List Op} (hnh : ∀ o ∈ ops, isHdr o = false) :
    eraseB ((⟨id, .transaction tag ((ops.length : Int) + 1)⟩ : Op) :: ops) = ops := by
  show List.filter nh _ = _
  rw [List.filter_cons]
  have hh : isHdr (⟨id, .transaction tag ((ops.length : Int) + 1)⟩ : Op) = true := rfl
  simp only [nh, hh, Bool.not_true, Bool.false_eq_true, if_false]
  exact eraseB_all hnh

namespace TInvC
variable {typ : DtType} {cuid : Nat → String} {n : Nat} {net : Net}

/-- a user transaction -/
theorem tx (T : TInvC typ cuid n net) {i : Nat} {nd : Node} (hi : net.nodes[i]? = some nd) (tag : String)
    (calls : List Call) (s f : Bool) (hg : i ≠ 0 → 0 < nd.pulled) :
    TInvC typ cuid n ⟨net.nodes.set i { nd with r := (nd.r.txCalls tag calls s f).1 }, net.log⟩ := by
  obtain ⟨net0, ap, nd0, I, Ab, h0, An, hin⟩ := T.at_node hi
  have hf := I.flat
  have N0 := I.node i nd0 h0
  have K := T.node i nd hi
  obtain ⟨hrb', hc⟩ := tx_cases hf N0 hin (fun h' => guard0 T.head An (hg h') K.pulled_le) nd.r An.st An.id K.rb tag calls s f
  rcases hc with ⟨c, _, g1, g2, g3, _⟩ | ⟨_, ops, ar1, A1, hb, e2, e3, e4, N1, e5, e6⟩
  · -- nothing happened
    have I' : InvC typ cuid n ⟨net0.nodes.set i nd0, net0.log⟩ ap := by rw [set_self h0]; exact I
    refine T.set_node hi (Or.inl rfl) I' (abs_set Ab ?_) ?_ (T.head.set hi ⟨[], by show (nd.r.txCalls tag calls s f).1.buffer = _; rw [g3]; simp⟩ (Nat.le_refl _) (Or.inr g3))
    · have := An.extend (u := []) K.pushed_le (r' := (nd.r.txCalls tag calls s f).1) (r0' := nd0.r)
        (An.st.trans g2.symm) (An.id.trans g1.symm) (by rw [g3]; simp) (by simp [eraseB])
      exact this
    · exact K.extend (u := []) (by rw [g3]; simp) (Or.inl rfl) hrb' (by simp) List.Pairwise.nil
        (Nat.le_of_eq (congrArg OpId.lamport g1.symm))
  · -- one unit
    have I' := inv_replace I h0 N1
    have hnh : ∀ o ∈ ops, isHdr o = false := fun o ho => (e5 o ho).1.nh
    have hcu : nd.r.opId.cuid = cuid i := by rw [← An.id]; exact N0.clock_cuid
    refine T.set_node hi (Or.inl rfl) I' (abs_set Ab ?_) ?_ (T.head.set hi ⟨_, hb⟩ (Nat.le_refl _) (Or.inl hg))
    · refine An.extend (r0' := ar1) K.pushed_le e2 e3 hb ?_
      rw [e4, hdr_cons_erase _ _ hnh]
    · have hlam : ∀ o ∈ ops, o.id.lamport ≤ (nd.r.txCalls tag calls s f).1.opId.lamport := by
        intro o ho
        rw [← e3]
        exact N1.buf_lam (show o ∈ ar1.buffer by rw [e4]; exact List.mem_append_right _ ho)
      refine K.extend hb (Or.inr (Or.inr ⟨_, _, ops, rfl, hnh⟩)) hrb' ?_ ?_ (by omega)
      · intro o ho
        rcases List.mem_cons.mp ho with rfl | ho
        · exact ⟨hcu, by simp [OpId.next], by simp only [OpId.next]; omega⟩
        · exact ⟨(e5 o ho).1.cu, by have := (e5 o ho).2; omega, hlam o ho⟩
      · refine List.pairwise_cons.mpr ⟨?_, ?_⟩
        · intro o ho
          have := (e5 o ho).2
          simp only [OpId.next]
          omega
        · have := N1.buf_sorted
          change ar1.buffer.Pairwise _ at this
          rw [e4] at this
          exact (List.pairwise_append.mp this).2.1

end TInvC

theorem NodeOK.log_append {cuid : Nat → String} {log : List LEnt} {j : Nat} {nd : Node} (K : NodeOK cuid log j nd)
    {i : Nat} (hne : j ≠ i) {x : List Op} (hx : UnitsB x) :
    NodeOK cuid (log ++ x.map (fun o => ((i, o) : LEnt))) j nd where
  rb := K.rb
  pushed_le := K.pushed_le
  pulled_le := by rw [List.length_append]; exact Nat.le_trans K.pulled_le (Nat.le_add_right _ _)
  rest_units := K.rest_units
  pull_units := by
    rw [List.drop_append_of_le_length K.pulled_le]
    exact unitsL_append K.pull_units (unitsL_of_B i hx)
  buf_ok := K.buf_ok
  log_own := by rw [own_append, own_map_ne (fun e => hne e.symm), List.append_nil]; exact K.log_own
  buf_sorted := K.buf_sorted
  buf_lam := K.buf_lam

theorem AbsNode.log_append {log : List LEnt} {nd nd0 : Node} (An : AbsNode log nd nd0) (hp : nd.pulled ≤ log.length)
    (x : List LEnt) : AbsNode (log ++ x) nd nd0 where
  st := An.st
  id := An.id
  buf := An.buf
  pushed := An.pushed
  pulled := by rw [List.take_append_of_le_length hp]; exact An.pulled

namespace TInvC
variable {typ : DtType} {cuid : Nat → String} {n : Nat} {net : Net}

/-- the whole unpushed rest of the buffer goes to the log -/
theorem pushAll (T : TInvC typ cuid n net) {i : Nat} {nd : Node} (hi : net.nodes[i]? = some nd) :
    TInvC typ cuid n ⟨net.nodes.set i { nd with pushed := nd.r.buffer.length },
      net.log ++ (nd.r.buffer.drop nd.pushed).map (fun o => (i, o))⟩ := by
  obtain ⟨net0, ap, nd0, I, Ab, h0, An, hin⟩ := T.at_node hi
  have N0 := I.node i nd0 h0
  have K := T.node i nd hi
  have I' := inv_pushes (nd0.r.buffer.length - nd0.pushed) net0 nd0 I h0 (by have := N0.pushed_le; omega)
  have hdrop : eraseB (nd.r.buffer.drop nd.pushed) = nd0.r.buffer.drop nd0.pushed := by
    rw [An.buf, An.pushed]
    exact (filter_drop_len nh nd.r.buffer nd.pushed).symm
  refine ⟨⟨_, ap, I', ?_⟩, ?_, ?_, ?_, ?_, T.head.pushAll hi K.pulled_le K.log_own⟩
  · refine ⟨?_, by simp [Ab.len], ?_⟩
    · show net0.log ++ _ = eraseL (net.log ++ _)
      rw [eraseL_append, eraseL_map, Ab.log, hdrop]
    · intro j ndj hj
      rcases getElem?_set_some hj with ⟨rfl, rfl⟩ | ⟨hne, hj'⟩
      · refine ⟨{ nd0 with pushed := nd0.r.buffer.length }, getElem?_set_self' h0, ?_⟩
        have A1 := An.log_append K.pulled_le ((nd.r.buffer.drop nd.pushed).map (fun o => ((j, o) : LEnt)))
        exact {
          st := A1.st
          id := A1.id
          buf := A1.buf
          pushed := by
            show nd0.r.buffer.length = (eraseB (nd.r.buffer.take nd.r.buffer.length)).length
            rw [List.take_length, An.buf]
          pulled := A1.pulled }
      · obtain ⟨ndj0, g1, g2⟩ := Ab.node j ndj hj'
        refine ⟨ndj0, ?_, g2.log_append (T.node j ndj hj').pulled_le _⟩
        show (net0.nodes.set i _)[j]? = some ndj0
        rw [List.getElem?_set_ne (fun e => hne e.symm)]
        exact g1
  · intro j ndj hj
    rcases getElem?_set_some hj with ⟨rfl, rfl⟩ | ⟨hne, hj'⟩
    · exact {
        rb := K.rb
        pushed_le := Nat.le_refl _
        pulled_le := by
          show nd.pulled ≤ (net.log ++ _).length
          rw [List.length_append]; exact Nat.le_trans K.pulled_le (Nat.le_add_right _ _)
        rest_units := by
          show UnitsB (nd.r.buffer.drop nd.r.buffer.length)
          rw [List.drop_length]; exact unitsB_nil
        pull_units := by
          show UnitsL ((net.log ++ _).drop nd.pulled)
          rw [List.drop_append_of_le_length K.pulled_le]
          exact unitsL_append K.pull_units (unitsL_of_B j K.rest_units)
        buf_ok := K.buf_ok
        log_own := by
          show own j (net.log ++ _) = (nd.r.buffer.take nd.r.buffer.length).map _
          rw [own_append, own_map_self, K.log_own, ← List.map_append, List.take_append_drop, List.take_length]
        buf_sorted := K.buf_sorted
        buf_lam := K.buf_lam }
    · exact (T.node j ndj hj').log_append hne K.rest_units
  · obtain ⟨units, h1, h2, h3⟩ := T.log_units
    obtain ⟨us, hus, hall⟩ := K.rest_units
    refine ⟨units ++ us.map (fun u => (i, u)), ?_, ?_, ?_⟩
    · show net.log ++ _ = _
      rw [flatU_append, flatU_map_author, ← hus, h1]
    · intro au hau
      rcases List.mem_append.mp hau with h | h
      · exact h2 au h
      · obtain ⟨u, hu, rfl⟩ := List.mem_map.mp h
        exact hall u hu
    · intro j ndj hj
      have hk : ∃ k, ndj.pulled = (flatU (units.take k)).length := by
        rcases getElem?_set_some hj with ⟨rfl, rfl⟩ | ⟨hne, hj'⟩
        · exact h3 j nd hi
        · exact h3 j ndj hj'
      obtain ⟨k, hk⟩ := hk
      by_cases hle : k ≤ units.length
      · exact ⟨k, by rw [List.take_append_of_le_length hle]; exact hk⟩
      · refine ⟨units.length, ?_⟩
        rw [List.take_append_of_le_length (Nat.le_refl _), List.take_length, hk,
          List.take_of_length_le (by omega)]
  · intro e he
    rcases List.mem_append.mp he with h | h
    · exact T.log_ok e h
    · obtain ⟨o, ho, rfl⟩ := List.mem_map.mp h
      exact ⟨hin, K.buf_ok o (List.mem_of_mem_drop ho)⟩
  · have hsplit : (nd.r.buffer.take nd.pushed ++ nd.r.buffer.drop nd.pushed).Pairwise
        (fun o o' => o.id.lamport < o'.id.lamport) := by
      rw [List.take_append_drop]; exact K.buf_sorted
    obtain ⟨_, hs2, hs3⟩ := List.pairwise_append.mp hsplit
    refine List.pairwise_append.mpr ⟨T.log_keys, ?_, ?_⟩
    · rw [List.pairwise_map]
      refine hs2.imp ?_
      intro a b hab e0
      simp only [lkey, Prod.mk.injEq] at e0
      omega
    · intro e he e' he'
      obtain ⟨o, ho, rfl⟩ := List.mem_map.mp he'
      intro e0
      simp only [lkey, Prod.mk.injEq] at e0
      by_cases hei : e.1 = i
      · obtain ⟨a, oe⟩ := e
        simp only at hei
        subst hei
        have : (a, oe) ∈ own a net.log := mem_own.mpr ⟨he, rfl⟩
        rw [K.log_own] at this
        obtain ⟨o', ho', h2⟩ := List.mem_map.mp this
        simp only [Prod.mk.injEq, true_and] at h2
        subst h2
        have := hs3 o' ho' o ho
        simp only at e0
        omega
      · obtain ⟨g1, g2⟩ := T.log_ok e he
        have := K.buf_ok o (List.mem_of_mem_drop ho)
        rw [g2, this] at e0
        exact hei (I.distinct e.1 i g1 hin e0.2)

/-- what `receive` does with the rest of the log: every foreign unit is applied, the result is `.ok ()` -/
theorem recv (T : TInvC typ cuid n net) {i : Nat} {nd : Node} (hi : net.nodes[i]? = some nd) {nd0 : Node}
    (An : AbsNode net.log nd nd0) (hs : FlatState nd.r.state) :
    ∃ R', nd.r.receive (pullOps net.log i nd) = (R', .ok ()) ∧
      Le ((eraseL (net.log.drop nd.pulled)).foldl (pullF i) nd0.r) R' ∧ FlatState R'.state := by
  have K := T.node i nd hi
  obtain ⟨units, hu, hall⟩ := K.pull_units
  have hle : Le nd0.r nd.r := ⟨An.st, by rw [An.id], by rw [An.id], Nat.le_of_eq (congrArg OpId.lamport An.id)⟩
  unfold pullOps Replica.receive
  rw [hu]
  exact recv_sim i units hall _ nd0.r nd.r hle hs (Nat.le_refl _)

/-- the whole rest of the log is consumed -/
theorem pullAll (T : TInvC typ cuid n net) {i : Nat} {nd : Node} (hi : net.nodes[i]? = some nd) :
    TInvC typ cuid n ⟨net.nodes.set i { nd with r := (nd.r.receive (pullOps net.log i nd)).1, pulled := net.log.length },
      net.log⟩ := by
  obtain ⟨net0, ap, nd0, I, Ab, h0, An, hin⟩ := T.at_node hi
  have hf := I.flat
  have N0 := I.node i nd0 h0
  have K := T.node i nd hi
  have hfl : FlatState nd.r.state := An.st ▸ nodeInv_flatState N0 hf
  obtain ⟨R', hrecv, hle, hst'⟩ := T.recv hi An hfl
  have hes : eraseL (net.log.drop nd.pulled) = net0.log.drop nd0.pulled := by
    rw [Ab.log, An.pulled]
    exact (filter_drop_len _ net.log nd.pulled).symm
  rw [hes] at hle
  -- the pulls of `MapNet`
  obtain ⟨ap1, I1⟩ := inv_pulls (net0.log.drop nd0.pulled) net0 ap nd0 I h0 (by
    intro k hk
    rw [List.getElem_drop, List.getElem?_eq_getElem])
  -- … then the clock is bumped to the clock of the real replica
  have hi1 : ∀ nd1 : Node, (net0.nodes.set i nd1)[i]? = some nd1 := fun nd1 => getElem?_set_self' h0
  obtain ⟨ap2, I2⟩ := inv_bump I1 (hi1 _)
    (r' := { (net0.log.drop nd0.pulled).foldl (pullF i) nd0.r with opId := R'.opId })
    ⟨rfl, rfl, hle.cu.symm, hle.lam⟩
  simp only [List.set_set] at I2
  have hfld := receive_fields nd.r (pullOps net.log i nd)
  rw [hrecv] at hfld
  obtain ⟨f1, _, f3, _⟩ := hfld
  simp only at f1 f3
  have er : (nd.r.receive (pullOps net.log i nd)).1 = R' := by rw [hrecv]
  rw [er]
  have hcu : nd.r.opId.cuid = cuid i := by rw [← An.id]; exact N0.clock_cuid
  refine T.set_node hi (Or.inr rfl) I2 (abs_set Ab ?_) ?_ (T.head.set hi ⟨[], by show R'.buffer = _; rw [f1]; simp⟩ K.pulled_le (Or.inr f1))
  · exact {
      st := hle.st
      id := rfl
      buf := by
        show ((net0.log.drop nd0.pulled).foldl (pullF i) nd0.r).buffer = eraseB R'.buffer
        rw [foldl_pullF_buffer, f1, An.buf]
      pushed := by
        show nd0.pushed = (eraseB (R'.buffer.take nd.pushed)).length
        rw [f1]; exact An.pushed
      pulled := by
        show nd0.pulled + (net0.log.drop nd0.pulled).length = (eraseL (net.log.take net.log.length)).length
        rw [List.take_length, ← Ab.log, List.length_drop]
        have := N0.pulled_le
        omega }
  · have hp : (nd.r.receive (pullOps net.log i nd)).2.isPanic = false := by rw [hrecv]; rfl
    have hforeign : ∀ o ∈ pullOps net.log i nd, o.id.cuid ≠ nd.r.opId.cuid := by
      intro o ho
      unfold pullOps at ho
      obtain ⟨e, he, rfl⟩ := List.mem_map.mp ho
      obtain ⟨he1, he2⟩ := mem_oth.mp he
      obtain ⟨g1, g2⟩ := T.log_ok e (List.mem_of_mem_drop he1)
      rw [g2, hcu]
      intro e0
      exact he2 (I.distinct e.1 i g1 hin e0)
    have hrb := rbInv_receive nd.r _ K.rb hforeign hp
    rw [er] at hrb
    have hmono := lamport_mono_receive nd.r (pullOps net.log i nd)
    rw [er] at hmono
    exact {
      rb := hrb
      pushed_le := by show nd.pushed ≤ R'.buffer.length; rw [f1]; exact K.pushed_le
      pulled_le := Nat.le_refl _
      rest_units := by show UnitsB (R'.buffer.drop nd.pushed); rw [f1]; exact K.rest_units
      pull_units := by
        show UnitsL (net.log.drop net.log.length)
        rw [List.drop_length]; exact unitsL_nil
      buf_ok := by
        intro o ho
        change o ∈ R'.buffer at ho
        rw [f1] at ho
        exact K.buf_ok o ho
      log_own := by
        show own i net.log = (R'.buffer.take nd.pushed).map _
        rw [f1]; exact K.log_own
      buf_sorted := by show R'.buffer.Pairwise _; rw [f1]; exact K.buf_sorted
      buf_lam := by
        intro o ho
        change o ∈ R'.buffer at ho
        show _ ≤ R'.opId.lamport
        rw [f1] at ho
        exact Nat.le_trans (K.buf_lam o ho) hmono }

theorem step (T : TInvC typ cuid n net) {net' : Net} (h : StepC net net') : TInvC typ cuid n net' := by
  cases h with
  | call i nd c hi hg => exact T.call hi c hg
  | tx i nd tag calls s f hi hg => exact T.tx hi tag calls s f hg
  | pushAll i nd hi => exact T.pushAll hi
  | pullAll i nd hi => exact T.pullAll hi

end TInvC

theorem init_node {typ : DtType} {cuid : Nat → String} {n i : Nat} {nd : Node} (hi : (initC typ cuid n).nodes[i]? = some nd) :
    nd = ⟨Replica.new typ (cuid i) (i == 0), 0, 0⟩ ∧ i < n := by
  simp only [initC, List.getElem?_map] at hi
  cases hr : (List.range n)[i]? with
  | none => rw [hr] at hi; cases hi
  | some k =>
    rw [hr] at hi
    obtain ⟨hlt, hk⟩ := List.getElem?_eq_some_iff.mp hr
    simp only [List.getElem_range] at hk
    subst hk
    simp only [Option.map_some, Option.some.injEq] at hi
    exact ⟨hi.symm, by simpa using hlt⟩

theorem isUnit_snap (typ : DtType) (cuid : Nat → String) : IsUnit [snapOp typ cuid] := Or.inl ⟨_, rfl, rfl⟩
theorem tinv_initC {typ : DtType} {cuid : Nat → String} {n : Nat} (hf : Flat typ) (hc : CuidsDistinct cuid n) :
    TInvC typ cuid n (initC typ cuid n) where
  sim := by
    refine ⟨initC typ cuid n, _, FNetC.M.inv_initC hf hc, rfl, rfl, ?_⟩
    intro i nd hi
    refine ⟨nd, hi, ?_⟩
    obtain ⟨rfl, _⟩ := init_node hi
    by_cases h0 : i = 0
    · subst h0; exact ⟨rfl, rfl, rfl, rfl, rfl⟩
    · have hb : (i == 0) = false := by simpa using h0
      rw [hb]; exact ⟨rfl, rfl, rfl, rfl, rfl⟩
  node := by
    intro i nd hi
    obtain ⟨rfl, _⟩ := init_node hi
    by_cases h0 : i = 0
    · subst h0
      exact {
        rb := rbInv_new _ _ _
        pushed_le := Nat.zero_le _
        pulled_le := Nat.le_refl _
        rest_units := by
          show UnitsB [snapOp typ cuid]
          exact ⟨[[snapOp typ cuid]], rfl, by intro u hu; simp only [List.mem_singleton] at hu; subst hu; exact isUnit_snap typ cuid⟩
        pull_units := unitsL_nil
        buf_ok := by
          intro o ho
          change o ∈ [snapOp typ cuid] at ho
          simp only [List.mem_singleton] at ho
          subst ho; rfl
        log_own := rfl
        buf_sorted := List.pairwise_singleton _ _
        buf_lam := by
          intro o ho
          change o ∈ [snapOp typ cuid] at ho
          simp only [List.mem_singleton] at ho
          subst ho
          exact Nat.le_refl _ }
    · have hb : (i == 0) = false := by simpa using h0
      rw [hb]
      exact {
        rb := rbInv_new _ _ _
        pushed_le := Nat.le_refl _
        pulled_le := Nat.le_refl _
        rest_units := unitsB_nil
        pull_units := unitsL_nil
        buf_ok := by intro o ho; cases ho
        log_own := rfl
        buf_sorted := List.Pairwise.nil
        buf_lam := by intro o ho; cases ho }
  log_units := by
    refine ⟨[], rfl, by simp, ?_⟩
    intro i nd hi
    obtain ⟨rfl, _⟩ := init_node hi
    exact ⟨0, rfl⟩
  log_ok := by intro e he; cases he
  log_keys := List.Pairwise.nil
  head := by
    refine ⟨by intro e he; simp [initC] at he, ?_, ?_⟩
    · intro nd h0
      obtain ⟨rfl, _⟩ := init_node h0
      rfl
    · intro i nd hi h0 _
      obtain ⟨rfl, _⟩ := init_node hi
      have hb : (i == 0) = false := by simpa using h0
      rw [hb]; rfl

/-- **the invariant holds in every reachable state** -/
theorem tinv_reach {typ : DtType} {cuid : Nat → String} {n : Nat} {net : Net} (hf : Flat typ)
    (h : ReachC typ cuid n net) : TInvC typ cuid n net := by
  induction h with
  | init hc => exact tinv_initC hf hc
  | step _ hs ih => exact ih.step hs


/-! ## 7. the theorems -/

section theorems
variable {typ : DtType} {cuid : Nat → String} {n : Nat} {net : Net}

/-- in a reachable state a transaction (ANY body) never panics: it ends with `.ok ()` or with an error -/
theorem cmtx_tx_never_panics (hf : Flat typ) (h : ReachC typ cuid n net) {i : Nat} {nd : Node}
    (hi : net.nodes[i]? = some nd) (tag : String) (calls : List Call) (stopOnErr failAtEnd : Bool)
    (hg : i ≠ 0 → 0 < nd.pulled) :
    (nd.r.txCalls tag calls stopOnErr failAtEnd).2.2 = .ok () ∨
      ∃ c, (nd.r.txCalls tag calls stopOnErr failAtEnd).2.2 = .err c := by
  have T := tinv_reach hf h
  obtain ⟨net0, ap, nd0, I, Ab, h0, An, hin⟩ := T.at_node hi
  obtain ⟨_, hc⟩ := tx_cases hf (I.node i nd0 h0) hin (fun h' => guard0 T.head An (hg h') (T.node i nd hi).pulled_le) nd.r An.st An.id (T.node i nd hi).rb tag calls stopOnErr failAtEnd
  rcases hc with ⟨c, hc, _⟩ | ⟨hok, _⟩
  · exact Or.inr ⟨c, hc⟩
  · exact Or.inl hok

/-- **a failing transaction changes nothing on its node**: operation identifier, state, buffer, checkpoint are what they
    were (whatever the body did before it failed: valid and refused calls, reads, early return, failing user function) -/
theorem cmtx_failed_tx_is_noop (hf : Flat typ) (h : ReachC typ cuid n net) {i : Nat} {nd : Node}
    (hi : net.nodes[i]? = some nd) (tag : String) (calls : List Call) (stopOnErr failAtEnd : Bool) (c : Nat)
    (herr : (nd.r.txCalls tag calls stopOnErr failAtEnd).2.2 = .err c) :
    let r' := (nd.r.txCalls tag calls stopOnErr failAtEnd).1
    r'.opId = nd.r.opId ∧ r'.state = nd.r.state ∧ r'.buffer = nd.r.buffer ∧ r'.cp = nd.r.cp :=
  txCalls_fail_restores nd.r ((tinv_reach hf h).node i nd hi).rb tag calls stopOnErr failAtEnd c herr

/-- … stated for the system: after the `tx` step of a failing transaction the log is the same and every node has the same
    state, operation identifier, buffer, checkpoint and counters as before -/
theorem cmtx_failed_tx_is_noop_net (hf : Flat typ) (h : ReachC typ cuid n net) {i : Nat} {nd : Node}
    (hi : net.nodes[i]? = some nd) (tag : String) (calls : List Call) (stopOnErr failAtEnd : Bool) (c : Nat)
    (hg : i ≠ 0 → 0 < nd.pulled)
    (herr : (nd.r.txCalls tag calls stopOnErr failAtEnd).2.2 = .err c) {net' : Net}
    (hnet : net' = ⟨net.nodes.set i { nd with r := (nd.r.txCalls tag calls stopOnErr failAtEnd).1 }, net.log⟩) :
    StepC net net' ∧ net'.log = net.log ∧ ∀ (j : Nat) (nd' : Node), net'.nodes[j]? = some nd' →
      ∃ ndj, net.nodes[j]? = some ndj ∧ nd'.r.opId = ndj.r.opId ∧ nd'.r.state = ndj.r.state ∧
        nd'.r.buffer = ndj.r.buffer ∧ nd'.r.cp = ndj.r.cp ∧ nd'.pushed = ndj.pushed ∧ nd'.pulled = ndj.pulled := by
  subst hnet
  refine ⟨.tx net i nd tag calls stopOnErr failAtEnd hi hg, rfl, ?_⟩
  intro j nd' hj
  rcases getElem?_set_some hj with ⟨rfl, rfl⟩ | ⟨hne, hj'⟩
  · obtain ⟨g1, g2, g3, g4⟩ := cmtx_failed_tx_is_noop hf h hi tag calls stopOnErr failAtEnd c herr
    exact ⟨nd, hi, g1, g2, g3, g4, rfl, rfl⟩
  · exact ⟨nd', hj', rfl, rfl, rfl, rfl, rfl, rfl⟩

/-- **a committed transaction appends exactly ONE unit** `header :: ops` to the buffer; the header carries the first
    identifier of the transaction and announces the unit's length; `ops` (the operations of the successful calls of the
    body) contains no header: every one is an operation of the datatype (`OpOK typ`: a put or a remove for a map, an
    increase for a counter), carries the node's client identifier and is newer than the header -/
theorem cmtx_committed_tx_is_one_unit (hf : Flat typ) (h : ReachC typ cuid n net) {i : Nat} {nd : Node}
    (hi : net.nodes[i]? = some nd) (tag : String) (calls : List Call) (stopOnErr failAtEnd : Bool)
    (hg : i ≠ 0 → 0 < nd.pulled)
    (hok : (nd.r.txCalls tag calls stopOnErr failAtEnd).2.2 = .ok ()) :
    let r' := (nd.r.txCalls tag calls stopOnErr failAtEnd).1
    ∃ ops : List Op,
      r'.buffer = nd.r.buffer ++ (⟨nd.r.opId.next, .transaction tag ((ops.length : Int) + 1)⟩ :: ops) ∧
      IsUnit (⟨nd.r.opId.next, .transaction tag ((ops.length : Int) + 1)⟩ :: ops) ∧
      ∀ o ∈ ops, isHdr o = false ∧ OpOK typ o ∧ o.id.cuid = cuid i ∧ nd.r.opId.lamport + 1 < o.id.lamport := by
  intro r'
  have T := tinv_reach hf h
  obtain ⟨net0, ap, nd0, I, Ab, h0, An, hin⟩ := T.at_node hi
  obtain ⟨_, hc⟩ := tx_cases hf (I.node i nd0 h0) hin (fun h' => guard0 T.head An (hg h') (T.node i nd hi).pulled_le) nd.r An.st An.id (T.node i nd hi).rb tag calls stopOnErr failAtEnd
  rcases hc with ⟨c, hc, _⟩ | ⟨_, ops, ar1, A1, hb, _, _, _, _, e5, _⟩
  · rw [hok] at hc; cases hc
  · refine ⟨ops, hb, Or.inr ⟨_, _, ops, rfl, fun o ho => (e5 o ho).1.nh⟩, ?_⟩
    intro o ho
    exact ⟨(e5 o ho).1.nh, (e5 o ho).1.ok, (e5 o ho).1.cu, (e5 o ho).2⟩

/-- **units are contiguous in the log**, in every reachable state: the log is a concatenation of units -/
theorem cmtx_log_is_units (hf : Flat typ) (h : ReachC typ cuid n net) : ∃ units : List (Nat × List Op),
    net.log = units.flatMap (fun (a, u) => u.map (a, ·)) ∧ ∀ au ∈ units, IsUnit au.2 := by
  obtain ⟨units, h1, h2, _⟩ := (tinv_reach hf h).log_units
  exact ⟨units, h1, h2⟩

/-- **`receive` never refuses and never panics in the system**: what a node hands to `receive` when it pulls is accepted -/
theorem cmtx_receive_ok (hf : Flat typ) (h : ReachC typ cuid n net) {i : Nat} {nd : Node}
    (hi : net.nodes[i]? = some nd) : (nd.r.receive (pullOps net.log i nd)).2 = .ok () := by
  have T := tinv_reach hf h
  obtain ⟨net0, ap, nd0, I, Ab, h0, An, hin⟩ := T.at_node hi
  have hfl : FlatState nd.r.state := An.st ▸ nodeInv_flatState (I.node i nd0 h0) hf
  obtain ⟨R', hrecv, _⟩ := T.recv hi An hfl
  rw [hrecv]

open Orda.LTx (unitStart unitStart_mono)

/-- **ALL OR NOTHING, by log position**: there is ONE decomposition of the log into units such that every node, at every
    moment, has consumed (`p < pulled`) either ALL positions of a unit or NONE of them — `pulled` never sits inside a unit
    (`LTx.unitStart units j`: where unit `j` starts in the log) -/
theorem cmtx_all_or_nothing_pos (hf : Flat typ) (h : ReachC typ cuid n net) : ∃ units : List (Nat × List Op),
    net.log = flatU units ∧ (∀ au ∈ units, IsUnit au.2) ∧
    ∀ (i : Nat) (nd : Node), net.nodes[i]? = some nd → ∀ j, j < units.length →
      (∀ p, unitStart units j ≤ p → p < unitStart units (j + 1) → p < nd.pulled) ∨
      (∀ p, unitStart units j ≤ p → p < unitStart units (j + 1) → ¬ p < nd.pulled) := by
  obtain ⟨units, h1, h2, h3⟩ := (tinv_reach hf h).log_units
  refine ⟨units, h1, h2, ?_⟩
  intro i nd hi j _
  obtain ⟨k, hk⟩ := h3 i nd hi
  by_cases hjk : j + 1 ≤ k
  · left
    intro p _ hp
    have := unitStart_mono units hjk
    unfold unitStart at this hp
    omega
  · right
    intro p hp _
    have := unitStart_mono units (show k ≤ j by omega)
    unfold unitStart at this hp
    omega

/-- node `i` has applied the log entry `e` of another node: `e` is among the entries `i` has consumed -/
def Applied (net : Net) (i : Nat) (e : LEnt) : Prop :=
  ∃ nd, net.nodes[i]? = some nd ∧ e ∈ oth i (net.log.take nd.pulled)

/-- no two entries of the log are equal (headers included) -/
theorem cmtx_log_nodup (hf : Flat typ) (h : ReachC typ cuid n net) : net.log.Nodup :=
  nodup_of_keys (tinv_reach hf h).log_keys

/-- **ALL OR NOTHING**: in every reachable state every node has applied, of every unit of the log authored by another
    node, either ALL operations or NONE -/
theorem cmtx_all_or_nothing (hf : Flat typ) (h : ReachC typ cuid n net) : ∃ units : List (Nat × List Op),
    net.log = units.flatMap (fun (a, u) => u.map (a, ·)) ∧ (∀ au ∈ units, IsUnit au.2) ∧
    ∀ (i : Nat) (nd : Node), net.nodes[i]? = some nd → ∀ au ∈ units, au.1 ≠ i →
      (∀ o ∈ au.2, Applied net i (au.1, o)) ∨ (∀ o ∈ au.2, ¬ Applied net i (au.1, o)) := by
  have T := tinv_reach hf h
  obtain ⟨units, h1, h2, h3⟩ := T.log_units
  refine ⟨units, h1, h2, ?_⟩
  intro i nd hi au hau hne
  obtain ⟨k, hk⟩ := h3 i nd hi
  have hsplit : net.log = flatU (units.take k) ++ flatU (units.drop k) := by
    rw [← flatU_append, List.take_append_drop]; exact h1
  have htake : net.log.take nd.pulled = flatU (units.take k) := by
    rw [hsplit, hk, List.take_left]
  have hdrop : net.log.drop nd.pulled = flatU (units.drop k) := by
    rw [hsplit, hk, List.drop_left]
  have hmem : ∀ (us : List (Nat × List Op)), au ∈ us → ∀ o ∈ au.2, (au.1, o) ∈ flatU us := by
    intro us hus o ho
    unfold flatU
    exact List.mem_flatMap.mpr ⟨au, hus, List.mem_map.mpr ⟨o, ho, rfl⟩⟩
  rw [← List.take_append_drop k units] at hau
  rcases List.mem_append.mp hau with hin | hin
  · left
    intro o ho
    exact ⟨nd, hi, mem_oth.mpr ⟨by rw [htake]; exact hmem _ hin o ho, hne⟩⟩
  · right
    intro o ho ⟨nd', hi', hm⟩
    rw [hi] at hi'
    simp only [Option.some.injEq] at hi'
    subst hi'
    have h1' := (mem_oth.mp hm).1
    have h2' : (au.1, o) ∈ net.log.drop nd.pulled := by rw [hdrop]; exact hmem _ hin o ho
    have hnd := cmtx_log_nodup hf h
    rw [← List.take_append_drop nd.pulled net.log] at hnd
    exact (List.nodup_append.mp hnd).2.2 _ h1' _ h2' rfl

/-! ### convergence -/

/-- HOW convergence is obtained: erasing the headers from log and buffers (`Abs`) turns every reachable state into a
    state that satisfies the invariant `MNet.InvC` of `MapNet` — every step of this system is a sequence of `MapNet` steps
    (`InvC.call`, `InvC.push`, `InvC.pull`) and clock bumps (`nodeInv_bump`), under which that invariant is closed -/
theorem cmtx_erased_satisfies_mnet_inv (hf : Flat typ) (h : ReachC typ cuid n net) :
    ∃ net0 ap, InvC typ cuid n net0 ap ∧ Abs net net0 := (tinv_reach hf h).sim

/-- the operations of the `MapNet` image of a node are the operations of the node without the headers -/
theorem appliedOps_abs {net net0 : Net} (Ab : Abs net net0) {i : Nat} {nd nd0 : Node} (An : AbsNode net.log nd nd0) :
    appliedOps net0.log i nd0 = eraseB (appliedOps net.log i nd) := by
  unfold appliedOps
  have e1 : net0.log.take nd0.pulled = eraseL (net.log.take nd.pulled) := by
    rw [Ab.log, An.pulled]
    exact filter_take_len _ net.log nd.pulled
  rw [e1, An.buf, oth_eraseL, eraseL_snd, ← eraseB_append]

theorem ops_perm_abs {net net0 : Net} {ap : Nat → List LEnt} (I : InvC typ cuid n net0 ap) (Ab : Abs net net0) {i : Nat}
    {nd nd0 : Node} (h0 : net0.nodes[i]? = some nd0) (An : AbsNode net.log nd nd0) :
    (opsOf (ap i)).Perm (eraseB (appliedOps net.log i nd)) := by
  rw [← appliedOps_abs Ab An]
  exact I.ops_perm h0

/-- a node that has pushed its whole buffer and consumed the whole log has exactly the operations of the log -/
theorem appliedOps_caught_up (hf : Flat typ) (h : ReachC typ cuid n net) {k : Nat} (hk : k < net.nodes.length)
    (q1 : net.nodes[k].pushed = net.nodes[k].r.buffer.length) (q2 : net.nodes[k].pulled = net.log.length) :
    (appliedOps net.log k net.nodes[k]).Perm (net.log.map (·.2)) := by
  have K := (tinv_reach hf h).node k _ (List.getElem?_eq_getElem hk)
  have h1 : (own k net.log ++ oth k net.log).Perm net.log := List.filter_append_perm _ _
  have h2 := h1.map (·.2)
  rw [K.log_own, q1, List.take_length] at h2
  have e : appliedOps net.log k net.nodes[k] =
      (net.nodes[k].r.buffer.map (fun o => (k, o)) ++ oth k net.log).map (·.2) := by
    simp only [appliedOps, q2, List.take_length, List.map_append, map_snd_pair]
  rw [e]
  exact h2

theorem sameOps_of_caught_up (hf : Flat typ) (h : ReachC typ cuid n net) {i j : Nat} (hi : i < net.nodes.length)
    (hj : j < net.nodes.length)
    (pi : net.nodes[i].pushed = net.nodes[i].r.buffer.length) (li : net.nodes[i].pulled = net.log.length)
    (pj : net.nodes[j].pushed = net.nodes[j].r.buffer.length) (lj : net.nodes[j].pulled = net.log.length) :
    SameOps net i j :=
  ⟨_, _, List.getElem?_eq_getElem hi, List.getElem?_eq_getElem hj,
    (appliedOps_caught_up hf h hi pi li).trans (appliedOps_caught_up hf h hj pj lj).symm⟩

theorem sameOps_of_quiescent (hf : Flat typ) (h : ReachC typ cuid n net) (hq : Quiescent net) {i j : Nat}
    (hi : i < net.nodes.length) (hj : j < net.nodes.length) : SameOps net i j := by
  obtain ⟨a1, a2⟩ := hq _ (List.getElem_mem hi)
  obtain ⟨b1, b2⟩ := hq _ (List.getElem_mem hj)
  exact sameOps_of_caught_up hf h hi hj a1 a2 b1 b2

end theorems

/-! ### the LWW map -/

section mapthms
variable {cuid : Nat → String} {n : Nat} {net : Net}

/-- in every reachable state the map of every node IS (plain equality) what the remote application of a sequence of
    operations gives, from the empty map; that sequence is `MapCausal` (every remove comes after a put of its key — also
    for a remove INSIDE a transaction of a key put earlier in the same transaction), its timestamps are pairwise
    `DistinctTs`, and it is a permutation of the operations the node has (own buffer, foreign entries among the first
    `pulled` of the log) without the headers -/
theorem cmtx_nodes_applied (h : ReachC .map cuid n net) : ∃ applied : Nat → List Op,
    ∀ (i : Nat) (nd : Node), net.nodes[i]? = some nd →
      nd.r.state = .map (mapApplyAll LwwMap.empty (applied i)) ∧ MapCausal (applied i) ∧ DistinctTs (applied i) ∧
      (applied i).Perm (eraseB (appliedOps net.log i nd)) := by
  obtain ⟨net0, ap, I, Ab⟩ := (tinv_reach flat_map h).sim
  refine ⟨fun i => opsOf (ap i), ?_⟩
  intro i nd hi
  obtain ⟨nd0, h0, An⟩ := Ab.node i nd hi
  have N0 := I.node i nd0 h0
  exact ⟨An.st ▸ N0.st, mapCausal_of_causal N0.causal_ops, distinctTs_of_keys N0.keys, ops_perm_abs I Ab h0 An⟩

/-- the state of every node of a map system is a well-formed map (the hypotheses `… .r.state = .map m` of the theorems
    below can always be met) -/
theorem cmtx_state_is_map (h : ReachC .map cuid n net) : ∀ nd ∈ net.nodes, ∃ m, nd.r.state = .map m ∧ m.WF := by
  intro nd hnd
  obtain ⟨applied, ha⟩ := cmtx_nodes_applied h
  obtain ⟨i, hi⟩ := List.mem_iff_getElem?.mp hnd
  exact ⟨_, (ha i nd hi).1, wf_mapApplyAll _ _ wf_empty⟩

/-- a header is not an operation on any key -/
theorem mapKeyOps_eraseB (k : String) (l : List Op) : Spec.mapKeyOps k (eraseB l) = Spec.mapKeyOps k l := by
  unfold Spec.mapKeyOps eraseB
  rw [List.filter_filter]
  apply List.filter_congr
  intro o _
  cases hh : isHdr o
  · simp [nh, hh]
  · unfold isHdr at hh
    split at hh
    · rename_i tag k' hb
      simp [hb]
    · cases hh

/-- C02 for the map under transactions: what a node answers is a function of the operations it has (`appliedOps`: its
    buffer and the consumed log entries of the others, headers included — they count for nothing) alone: every key holds
    what the timestamp rule `Spec.mapGet` says, `Size` is the number of live keys -/
theorem cmtx_reads_are_spec (h : ReachC .map cuid n net) {i : Nat} {nd : Node} (m : LwwMap)
    (hi : net.nodes[i]? = some nd) (hm : nd.r.state = .map m) :
    (∀ k, m.get k = Spec.mapGet (appliedOps net.log i nd) k) ∧
    m.size = ((Spec.mapView (appliedOps net.log i nd)).length : Int) := by
  obtain ⟨applied, ha⟩ := cmtx_nodes_applied h
  obtain ⟨h1, h2, h3, h4⟩ := ha i nd hi
  rw [hm] at h1
  simp only [DState.map.injEq] at h1
  have hget : ∀ k, m.get k = Spec.mapGet (appliedOps net.log i nd) k := by
    intro k
    rw [h1, map_denote _ h2 h3 k, spec_mapGet_perm _ _ h4 h3 k]
    unfold Spec.mapGet
    rw [mapKeyOps_eraseB]
  exact ⟨hget, size_eq_of_get m _ (h1 ▸ wf_mapApplyAll _ _ wf_empty) hget⟩

/-- **convergence survives (map)**: two nodes that have the same operations (`MNet.SameOps`: own buffer ++ consumed foreign
    log entries, as multisets — headers included) answer every read alike: `get` of every key, `Size`, and the JSON view
    in the four forms of `MNet.mnet_same_operations_same_reads` (pointwise lookup in `live`, `live` up to a permutation,
    EQUAL `sortedView`, EQUAL `jsonView`) -/
theorem cmtx_same_operations_same_reads (h : ReachC .map cuid n net) (i j : Nat) (hi : i < net.nodes.length)
    (hj : j < net.nodes.length) (mi mj : LwwMap) (hmi : net.nodes[i].r.state = .map mi)
    (hmj : net.nodes[j].r.state = .map mj) (hsame : SameOps net i j) :
    (∀ k, mi.get k = mj.get k) ∧ mi.size = mj.size ∧
    (∀ k, alFind k mi.live = alFind k mj.live) ∧ mi.live.Perm mj.live ∧ sortedView mi = sortedView mj ∧
    jsonView mi = jsonView mj := by
  obtain ⟨net0, ap, I, Ab⟩ := (tinv_reach flat_map h).sim
  have hi' := List.getElem?_eq_getElem hi
  have hj' := List.getElem?_eq_getElem hj
  obtain ⟨ni, nj, hni, hnj, hperm⟩ := hsame
  rw [hi'] at hni
  rw [hj'] at hnj
  simp only [Option.some.injEq] at hni hnj
  subst hni hnj
  obtain ⟨ni0, hi0, Ai⟩ := Ab.node i _ hi'
  obtain ⟨nj0, hj0, Aj⟩ := Ab.node j _ hj'
  have Ni := I.node i ni0 hi0
  have Nj := I.node j nj0 hj0
  have hp : (opsOf (ap i)).Perm (opsOf (ap j)) :=
    ((ops_perm_abs I Ab hi0 Ai).trans (hperm.filter _)).trans (ops_perm_abs I Ab hj0 Aj).symm
  have e1 := Ni.st
  have e2 := Nj.st
  rw [Ai.st, hmi] at e1
  rw [Aj.st, hmj] at e2
  simp only [sem, DState.map.injEq] at e1 e2
  obtain ⟨hget, hsize⟩ := map_converge _ _ hp (mapCausal_of_causal Ni.causal_ops) (mapCausal_of_causal Nj.causal_ops)
    (distinctTs_of_keys Ni.keys)
  rw [← e1, ← e2] at hget hsize
  have wi : mi.WF := e1 ▸ wf_mapApplyAll _ _ wf_empty
  have wj : mj.WF := e2 ▸ wf_mapApplyAll _ _ wf_empty
  exact ⟨hget, hsize, views_of_get_eq wi wj hget⟩

/-- at quiescence (`MNet.Quiescent`: every buffer completely pushed, every node has consumed the whole log) all nodes
    answer every read alike -/
theorem cmtx_quiescent_converged (h : ReachC .map cuid n net) (hq : Quiescent net) (i j : Nat)
    (hi : i < net.nodes.length) (hj : j < net.nodes.length) (mi mj : LwwMap)
    (hmi : net.nodes[i].r.state = .map mi) (hmj : net.nodes[j].r.state = .map mj) :
    (∀ k, mi.get k = mj.get k) ∧ mi.size = mj.size ∧
    (∀ k, alFind k mi.live = alFind k mj.live) ∧ mi.live.Perm mj.live ∧ sortedView mi = sortedView mj ∧
    jsonView mi = jsonView mj :=
  cmtx_same_operations_same_reads h i j hi hj mi mj hmi hmj (sameOps_of_quiescent flat_map h hq hi hj)

end mapthms

/-! ### the counter -/

section counterthms
variable {cuid : Nat → String} {n : Nat} {net : Net}

/-- a header does not change a counter -/
theorem counter_fold_eraseB : ∀ (l : List Op) (v : Int), (eraseB l).foldl counterApply v = l.foldl counterApply v
  | [], _ => rfl
  | o :: os, v => by
    unfold eraseB
    rw [List.filter_cons]
    cases hh : isHdr o
    · simp only [nh, hh, Bool.not_false, if_true, List.foldl_cons]
      exact counter_fold_eraseB os _
    · simp only [nh, hh, Bool.not_true, Bool.false_eq_true, if_false, List.foldl_cons]
      have : counterApply v o = v := by
        unfold isHdr at hh
        split at hh
        · rename_i tag k hb
          unfold counterApply
          rw [hb]
        · cases hh
      rw [this]
      exact counter_fold_eraseB os v

/-- the value of every node IS the fold of the remote application over a permutation of the operations the node has,
    without the headers -/
theorem cctx_nodes_applied (h : ReachC .counter cuid n net) : ∃ applied : Nat → List Op,
    ∀ (i : Nat) (nd : Node), net.nodes[i]? = some nd →
      nd.r.state = .counter ((applied i).foldl counterApply 0) ∧
      (applied i).Perm (eraseB (appliedOps net.log i nd)) := by
  obtain ⟨net0, ap, I, Ab⟩ := (tinv_reach flat_counter h).sim
  refine ⟨fun i => opsOf (ap i), ?_⟩
  intro i nd hi
  obtain ⟨nd0, h0, An⟩ := Ab.node i nd hi
  exact ⟨An.st ▸ (I.node i nd0 h0).st, ops_perm_abs I Ab h0 An⟩

/-- the value of a counter node is a function of the operations it has (`appliedOps`: own buffer and consumed foreign log
    entries, headers included — they count for nothing) alone: the sum of the increments, with 32-bit wrap -/
theorem cctx_value_is_spec (h : ReachC .counter cuid n net) {i : Nat} {nd : Node} (hi : net.nodes[i]? = some nd) :
    nd.r.state = DState.counter (Spec.counter (appliedOps net.log i nd)) := by
  obtain ⟨applied, ha⟩ := cctx_nodes_applied h
  obtain ⟨h1, h2⟩ := ha i nd hi
  rw [h1, counter_converge _ _ h2, counter_fold_eraseB, counter_denote]

/-- **convergence survives (counter)**: two nodes that have the same operations hold the SAME state (plain equality) -/
theorem cctx_same_operations_same_state (h : ReachC .counter cuid n net) (i j : Nat) (hi : i < net.nodes.length)
    (hj : j < net.nodes.length) (hsame : SameOps net i j) : net.nodes[i].r.state = net.nodes[j].r.state := by
  have hi' := List.getElem?_eq_getElem hi
  have hj' := List.getElem?_eq_getElem hj
  obtain ⟨ni, nj, hni, hnj, hperm⟩ := hsame
  rw [hi'] at hni
  rw [hj'] at hnj
  simp only [Option.some.injEq] at hni hnj
  subst hni hnj
  rw [cctx_value_is_spec h hi', cctx_value_is_spec h hj']
  have := counter_converge _ _ hperm
  rw [counter_denote, counter_denote] at this
  rw [this]

/-- at quiescence all nodes hold the same counter state -/
theorem cctx_quiescent_converged (h : ReachC .counter cuid n net) (hq : Quiescent net) (i j : Nat)
    (hi : i < net.nodes.length) (hj : j < net.nodes.length) : net.nodes[i].r.state = net.nodes[j].r.state :=
  cctx_same_operations_same_state h i j hi hj (sameOps_of_quiescent flat_counter h hq hi hj)

end counterthms

/-! ### quiescence is reachable from every state -/

section quiesce
variable {typ : DtType} {cuid : Nat → String} {n : Nat} {net : Net}

/-- zero or more steps -/
inductive Reaches : Net → Net → Prop
  | refl (net : Net) : Reaches net net
  | tail {a b c : Net} : Reaches a b → StepC b c → Reaches a c

theorem reach_of_reaches {net' : Net} (hr : ReachC typ cuid n net) (h : Reaches net net') : ReachC typ cuid n net' := by
  induction h with
  | refl => exact hr
  | tail _ hs ih => exact .step ih hs

theorem Reaches.trans {a b c : Net} (h1 : Reaches a b) (h2 : Reaches b c) : Reaches a c := by
  induction h2 with
  | refl => exact h1
  | tail _ hs ih => exact .tail ih hs

/-- every node pushes its whole buffer, one after the other -/
theorem push_sweep (net : Net) : ∀ k, k ≤ net.nodes.length → ∃ net', Reaches net net' ∧
    net'.nodes.length = net.nodes.length ∧
    ∀ (j : Nat) (nd : Node), j < k → net'.nodes[j]? = some nd → nd.pushed = nd.r.buffer.length
  | 0, _ => ⟨net, .refl net, rfl, fun j nd hj => absurd hj (Nat.not_lt_zero _)⟩
  | k + 1, hk => by
    obtain ⟨net', h1, h2, h3⟩ := push_sweep net k (by omega)
    have hlt : k < net'.nodes.length := by omega
    have hi := List.getElem?_eq_getElem hlt
    refine ⟨_, .tail h1 (.pushAll net' k _ hi), by simp [h2], ?_⟩
    intro j nd hj hnd
    rcases getElem?_set_some hnd with ⟨rfl, rfl⟩ | ⟨hne, hj'⟩
    · rfl
    · exact h3 j nd (by omega) hj'

/-- then every node pulls the whole log, one after the other -/
theorem pull_sweep (net : Net) (hp : ∀ nd ∈ net.nodes, nd.pushed = nd.r.buffer.length) :
    ∀ k, k ≤ net.nodes.length → ∃ net', Reaches net net' ∧
    net'.nodes.length = net.nodes.length ∧ net'.log = net.log ∧
    (∀ nd ∈ net'.nodes, nd.pushed = nd.r.buffer.length) ∧
    ∀ (j : Nat) (nd : Node), j < k → net'.nodes[j]? = some nd → nd.pulled = net.log.length
  | 0, _ => ⟨net, .refl net, rfl, rfl, hp, fun j nd hj => absurd hj (Nat.not_lt_zero _)⟩
  | k + 1, hk => by
    obtain ⟨net', h1, h2, h3, h4, h5⟩ := pull_sweep net hp k (by omega)
    have hlt : k < net'.nodes.length := by omega
    have hi := List.getElem?_eq_getElem hlt
    refine ⟨_, .tail h1 (.pullAll net' k _ hi), by simp [h2], h3, ?_, ?_⟩
    · intro nd hnd
      obtain ⟨j, hj⟩ := List.mem_iff_getElem?.mp hnd
      rcases getElem?_set_some hj with ⟨rfl, rfl⟩ | ⟨hne, hj'⟩
      · show net'.nodes[j].pushed = (net'.nodes[j].r.receive _).1.buffer.length
        rw [(receive_fields _ _).1]
        exact h4 _ (List.getElem_mem hlt)
      · exact h4 nd (List.mem_of_getElem? hj')
    · intro j nd hj hnd
      rcases getElem?_set_some hnd with ⟨rfl, rfl⟩ | ⟨hne, hj'⟩
      · exact congrArg List.length h3
      · exact h5 j nd (by omega) hj'

/-- **quiescence is reachable**: from every state, `pushAll` by every node followed by `pullAll` by every node (every
    `receive` succeeds by `cmtx_receive_ok`) ends in a quiescent state -/
theorem cmtx_can_quiesce (net : Net) : ∃ net', Reaches net net' ∧ Quiescent net' := by
  obtain ⟨net1, r1, l1, p1⟩ := push_sweep net net.nodes.length (Nat.le_refl _)
  have hp1 : ∀ nd ∈ net1.nodes, nd.pushed = nd.r.buffer.length := by
    intro nd hnd
    obtain ⟨j, hj⟩ := List.mem_iff_getElem?.mp hnd
    have := (List.getElem?_eq_some_iff.mp hj).1
    exact p1 j nd (by omega) hj
  obtain ⟨net2, r2, l2, g2, p2, q2⟩ := pull_sweep net1 hp1 net1.nodes.length (Nat.le_refl _)
  refine ⟨net2, r1.trans r2, ?_⟩
  intro nd hnd
  obtain ⟨j, hj⟩ := List.mem_iff_getElem?.mp hnd
  have := (List.getElem?_eq_some_iff.mp hj).1
  exact ⟨p2 nd hnd, by rw [g2]; exact q2 j nd (by omega) hj⟩

end quiesce
/-! ## 8. the requested theorems (maps, counters) -/

section created
variable {typ : DtType} {cuid : Nat → String} {n : Nat} {net : Net}

theorem created_mtx_log_starts_with_snapshot (hf : Flat typ) (h : ReachC typ cuid n net) :
    (∀ e, net.log[0]? = some e → e = snapEnt typ cuid) ∧
    (∀ nd, net.nodes[0]? = some nd → nd.r.buffer.head? = some (snapOp typ cuid)) ∧
    (∀ i nd, net.nodes[i]? = some nd → i ≠ 0 → nd.pulled = 0 → nd.r.buffer = []) :=
  ⟨(tinv_reach hf h).head.log_head, (tinv_reach hf h).head.creator, (tinv_reach hf h).head.fresh⟩

/-- MAP: at quiescence all replicas (creator and subscribers) answer every read alike -/
theorem created_mtx_quiescent_converged (h : ReachC .map cuid n net) (hq : Quiescent net) (i j : Nat)
    (hi : i < net.nodes.length) (hj : j < net.nodes.length) (mi mj : LwwMap)
    (hmi : net.nodes[i].r.state = .map mi) (hmj : net.nodes[j].r.state = .map mj) :
    (∀ k, mi.get k = mj.get k) ∧ mi.size = mj.size ∧
    (∀ k, alFind k mi.live = alFind k mj.live) ∧ mi.live.Perm mj.live ∧ sortedView mi = sortedView mj ∧
    jsonView mi = jsonView mj :=
  cmtx_quiescent_converged h hq i j hi hj mi mj hmi hmj

/-- COUNTER: at quiescence all replicas hold the SAME state -/
theorem created_ctx_quiescent_converged (h : ReachC .counter cuid n net) (hq : Quiescent net) (i j : Nat)
    (hi : i < net.nodes.length) (hj : j < net.nodes.length) : net.nodes[i].r.state = net.nodes[j].r.state :=
  cctx_quiescent_converged h hq i j hi hj

/-- MAP and COUNTER: a failing user transaction on ANY node of ANY reachable state (no guard needed; any body) leaves the log and
    every node — operation identifier, state, buffer, checkpoint, counters — unchanged -/
theorem created_mtx_failed_transaction_changes_nothing (hf : Flat typ) (h : ReachC typ cuid n net) {i : Nat} {nd : Node}
    (hi : net.nodes[i]? = some nd) (tag : String) (calls : List Call) (stopOnErr failAtEnd : Bool) (c : Nat)
    (herr : (nd.r.txCalls tag calls stopOnErr failAtEnd).2.2 = .err c) {net' : Net}
    (hnet : net' = ⟨net.nodes.set i { nd with r := (nd.r.txCalls tag calls stopOnErr failAtEnd).1 }, net.log⟩) :
    net'.log = net.log ∧ ∀ (j : Nat) (nd' : Node), net'.nodes[j]? = some nd' →
      ∃ ndj, net.nodes[j]? = some ndj ∧ nd'.r.opId = ndj.r.opId ∧ nd'.r.state = ndj.r.state ∧
        nd'.r.buffer = ndj.r.buffer ∧ nd'.r.cp = ndj.r.cp ∧ nd'.pushed = ndj.pushed ∧ nd'.pulled = ndj.pulled := by
  subst hnet
  refine ⟨rfl, ?_⟩
  intro j nd' hj
  rcases getElem?_set_some hj with ⟨rfl, rfl⟩ | ⟨hne, hj'⟩
  · obtain ⟨g1, g2, g3, g4⟩ := cmtx_failed_tx_is_noop hf h hi tag calls stopOnErr failAtEnd c herr
    exact ⟨nd, hi, g1, g2, g3, g4, rfl, rfl⟩
  · exact ⟨nd', hj', rfl, rfl, rfl, rfl, rfl, rfl⟩

/-- MAP and COUNTER: the log is a concatenation of units (the snapshot operation is a unit of its own) and every node has consumed
    ALL or NONE of the entries of every unit written by another node -/
theorem created_mtx_committed_transaction_all_or_nothing (hf : Flat typ) (h : ReachC typ cuid n net) :
    ∃ units : List (Nat × List Op),
    net.log = units.flatMap (fun (a, u) => u.map (a, ·)) ∧ (∀ au ∈ units, IsUnit au.2) ∧
    ∀ (i : Nat) (nd : Node), net.nodes[i]? = some nd → ∀ au ∈ units, au.1 ≠ i →
      (∀ o ∈ au.2, Applied net i (au.1, o)) ∨ (∀ o ∈ au.2, ¬ Applied net i (au.1, o)) :=
  cmtx_all_or_nothing hf h

end created

/-! ## 9. non-vacuity (map, counter): as for lists — a committed transaction of subscriber 1, a failing one of subscriber 2 -/
namespace Ex

def cu : Nat → String
  | 0 => "a" | 1 => "b" | _ => "c"
def acts : List MTx.Act := [
  .pushAll 0, .pullAll 1, .pullAll 2, .pullAll 0,
  .call 0 (.mput "x" (.num 1)),
  .pushAll 0, .pullAll 1, .pullAll 2,
  .tx 1 "t1" [.mput "y" (.str "v"), .mremove "x"] true false,
  .tx 2 "t2" [.mput "z" (.num 3), .mremove "nokey"] true false,
  .call 0 (.mput "w" (.num 9)),
  .pushAll 2, .pushAll 1, .pushAll 0,
  .pullAll 0, .pullAll 2, .pullAll 1]
def cacts : List MTx.Act := [
  .pushAll 0, .pullAll 1, .pullAll 2, .pullAll 0,
  .tx 1 "t1" [.inc 5, .inc 2] true false,
  .tx 2 "t2" [.inc 100, .mput "k" (.num 1)] true false,
  .call 0 (.inc (-3)),
  .pushAll 2, .pushAll 1, .pushAll 0,
  .pullAll 0, .pullAll 2, .pullAll 1]
def mapOf (r : Replica) : LwwMap := match r.state with | .map m => m | _ => LwwMap.empty
def valOf (r : Replica) : Int := match r.state with | .counter v => v | _ => 0
def finalNet : Net := (runC (initC .map cu 3) acts).getD ⟨[], []⟩
def cfinalNet : Net := (runC (initC .counter cu 3) cacts).getD ⟨[], []⟩
def net9 : Net := (runC (initC .map cu 3) (acts.take 9)).getD ⟨[], []⟩

theorem getD_of_isSome {o : Option Net} (h : o.isSome = true) : o = some (o.getD ⟨[], []⟩) := by
  cases o with
  | none => cases h
  | some x => rfl
theorem getD_node {o : Option Node} (h : o.isSome = true) : o = some (o.getD (⟨default, 0, 0⟩ : Node)) := by
  cases o with
  | none => cases h
  | some x => rfl

theorem run_final : runC (initC .map cu 3) acts = some finalNet := getD_of_isSome (by decide +kernel)
theorem run_cfinal : runC (initC .counter cu 3) cacts = some cfinalNet := getD_of_isSome (by decide +kernel)
theorem run_9 : runC (initC .map cu 3) (acts.take 9) = some net9 := getD_of_isSome (by decide +kernel)
theorem cu_distinct : CuidsDistinct cu 3 := by
  intro i j hi hj h
  have h1 : i = 0 ∨ i = 1 ∨ i = 2 := by omega
  have h2 : j = 0 ∨ j = 1 ∨ j = 2 := by omega
  rcases h1 with rfl | rfl | rfl <;> rcases h2 with rfl | rfl | rfl <;> first | rfl | (exact absurd h (by decide))
theorem reach_final : ReachC .map cu 3 finalNet := reachC_run acts (.init cu_distinct) run_final
theorem reach_cfinal : ReachC .counter cu 3 cfinalNet := reachC_run cacts (.init cu_distinct) run_cfinal
theorem reach_9 : ReachC .map cu 3 net9 := reachC_run (acts.take 9) (.init cu_distinct) run_9
theorem len_final : finalNet.nodes.length = 3 := by decide +kernel
theorem len_cfinal : cfinalNet.nodes.length = 3 := by decide +kernel
theorem quiescent_final : Quiescent finalNet := by
  unfold Quiescent
  decide +kernel
theorem quiescent_cfinal : Quiescent cfinalNet := by
  unfold Quiescent
  decide +kernel

theorem final_shape : finalNet.log.map (fun e => (e.1, isHdr e.2)) =
    [(0, false), (0, false), (1, true), (1, false), (1, false), (0, false)] := by decide +kernel

/-- `created_mtx_quiescent_converged` instantiated: creator vs subscriber, subscriber vs subscriber -/
example : ∀ mi mj, (finalNet.nodes[0]'(by rw [len_final]; decide)).r.state = .map mi →
    (finalNet.nodes[1]'(by rw [len_final]; decide)).r.state = .map mj → jsonView mi = jsonView mj :=
  fun mi mj h1 h2 => (created_mtx_quiescent_converged reach_final quiescent_final 0 1 _ _ mi mj h1 h2).2.2.2.2.2
example : ∀ mi mj, (finalNet.nodes[1]'(by rw [len_final]; decide)).r.state = .map mi →
    (finalNet.nodes[2]'(by rw [len_final]; decide)).r.state = .map mj → jsonView mi = jsonView mj :=
  fun mi mj h1 h2 => (created_mtx_quiescent_converged reach_final quiescent_final 1 2 _ _ mi mj h1 h2).2.2.2.2.2
/-- … and the common view `{"w":9,"y":"v"}` -/
theorem final_views : (finalNet.nodes.map fun nd => jsonView (mapOf nd.r) == .obj [("w", .num 9), ("y", .str "v")]) =
    [true, true, true] := by decide +kernel

/-- counter: `created_ctx_quiescent_converged` instantiated; the common value 5 + 2 - 3 (the failed `inc 100` is rolled back) -/
example : (cfinalNet.nodes[0]'(by rw [len_cfinal]; decide)).r.state = (cfinalNet.nodes[1]'(by rw [len_cfinal]; decide)).r.state :=
  created_ctx_quiescent_converged reach_cfinal quiescent_cfinal 0 1 _ _
theorem cfinal_values : cfinalNet.nodes.map (fun nd => valOf nd.r) = [4, 4, 4] := by decide +kernel

/-- the FAILING transaction of subscriber 2 (map), in the state where it is issued -/
def nd2 : Node := (net9.nodes[2]?).getD (⟨default, 0, 0⟩ : Node)
theorem nd2_eq : net9.nodes[2]? = some nd2 := getD_node (by decide +kernel)
theorem t2_fails : ∃ c, (nd2.r.txCalls "t2" [.mput "z" (.num 3), .mremove "nokey"] true false).2.2 = .err c := by
  have h : (match (nd2.r.txCalls "t2" [.mput "z" (.num 3), .mremove "nokey"] true false).2.2 with
      | .err _ => true | _ => false) = true := by decide +kernel
  cases hc : (nd2.r.txCalls "t2" [.mput "z" (.num 3), .mremove "nokey"] true false).2.2 with
  | err c => exact ⟨c, rfl⟩
  | ok u => rw [hc] at h; cases h
  | panic w => rw [hc] at h; cases h
/-- `created_mtx_failed_transaction_changes_nothing` instantiated -/
example : (nd2.r.txCalls "t2" [.mput "z" (.num 3), .mremove "nokey"] true false).1.buffer = nd2.r.buffer ∧
    (nd2.r.txCalls "t2" [.mput "z" (.num 3), .mremove "nokey"] true false).1.state = nd2.r.state := by
  obtain ⟨c, hc⟩ := t2_fails
  obtain ⟨_, h⟩ := created_mtx_failed_transaction_changes_nothing flat_map reach_9 nd2_eq "t2" _ true false c hc rfl
  obtain ⟨ndj, h1, _, h3, h4, _⟩ := h 2 _ (LTx.getElem?_set_self' nd2_eq)
  rw [nd2_eq] at h1
  simp only [Option.some.injEq] at h1
  subst h1
  exact ⟨h4, h3⟩
example : ∃ units : List (Nat × List Op), finalNet.log = units.flatMap (fun (a, u) => u.map (a, ·)) ∧
    (∀ au ∈ units, IsUnit au.2) := by
  obtain ⟨units, h1, h2, _⟩ := created_mtx_committed_transaction_all_or_nothing flat_map reach_final
  exact ⟨units, h1, h2⟩
example : ∀ e, finalNet.log[0]? = some e → e = snapEnt .map cu :=
  (created_mtx_log_starts_with_snapshot flat_map reach_final).1

end Ex

/-! ## 10. why the guard (map) -/

def badActs : List MTx.Act :=
  [.tx 1 "t" [.mput "k" (.num 1)] true false, .pushAll 1, .pushAll 0, .pullAll 0, .pullAll 1]

/-- WITHOUT the guard (the steps of `MTx` from `initC`) convergence at quiescence is FALSE: the creator ends with `{"k":1}`, the
    subscriber with `{}` -/
theorem mtx_tx_before_first_pull_diverges :
    ∃ net, MTx.run (initC .map Ex.cu 2) badActs = some net ∧ Quiescent net ∧
      (net.nodes.map fun nd => jsonView (Ex.mapOf nd.r) == .obj [("k", .num 1)]) = [true, false] ∧
      (net.nodes.map fun nd => jsonView (Ex.mapOf nd.r) == .obj []) = [false, true] ∧
      (runC (initC .map Ex.cu 2) badActs).isSome = false := by
  have hsome : (MTx.run (initC .map Ex.cu 2) badActs).isSome = true := by decide +kernel
  have hr := Ex.getD_of_isSome hsome
  refine ⟨_, hr, ?_, ?_, ?_, ?_⟩
  · unfold Quiescent
    decide +kernel
  · decide +kernel
  · decide +kernel
  · decide +kernel

end M

end Orda.FTxNetC
